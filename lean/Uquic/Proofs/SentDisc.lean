/-
Where frames are discarded without a callback (property C06): only when a packet number space is
dropped, 0-RTT is rejected, a Retry resets the spaces, or the path is migrated — never by sending, by an
ACK, by a loss-detection timeout or by queueing a probe packet.
-/
import Uquic.Proofs.SentSkipped

namespace Uquic.Proofs.Sent
open Uquic.Model.Sent List

theorem removeProbe_head {pn : PN} {q : Packet} {st : List (PN × Packet)} : removeProbe pn ((pn, q) :: st) = (some q, st) := by
  simp [removeProbe]

theorem removeProbe_absent {pn : PN} {l : List (PN × Packet)} (h : pn ∉ l.map Prod.fst) : removeProbe pn l = (none, l) := by
  induction l with
  | nil => rfl
  | cons x xs ih =>
    obtain ⟨k, q⟩ := x
    simp only [List.map_cons, List.mem_cons, not_or] at h
    unfold removeProbe
    rw [if_neg (fun e => h.1 e.symm), ih h.2]

/-- every probe taken out of `pathProbePackets` by the collection loop is used up by the removal loop -/
theorem ackedLoop_stash_empty (lvl : Level) (acc : List PN) :
    ∀ (h : Hist) (stash : List (PN × Packet)) (evs : List Ev) (done : List (PN × Packet)), FlightOKH h →
      List.Pairwise (· < ·) acc → (∀ q ∈ acc, ∃ p, h.lookup q = some p) →
      (stash.map Prod.fst).Sublist acc → (∀ x ∈ stash, ∃ d, h.lookup x.1 = some d ∧ d.pathProbe = true) →
      (ackedLoop lvl acc h stash evs done).2.1 = [] := by
  induction acc with
  | nil =>
    intro h stash evs done _ _ _ hsub _
    have : stash = [] := by
      cases stash with
      | nil => rfl
      | cons x xs => simp at hsub
    simp [ackedLoop, this]
  | cons pn rest ih =>
    intro h stash evs done f hp hl hsub hst
    obtain ⟨p, hlp⟩ := hl pn (by simp)
    obtain ⟨h', e1, e2, _⟩ := remove_ok f hlp
    have hp' := List.pairwise_cons.mp hp
    have hl' : ∀ q ∈ rest, ∃ p, h'.lookup q = some p := by
      intro q hq
      have hne : q ≠ pn := by have := hp'.1 q hq; omega
      rw [remove_lookup_ne e1 hne]
      exact hl q (List.mem_cons_of_mem _ hq)
    simp only [ackedLoop, e1]
    -- the stash after this step, and what is needed for the rest
    have key : ∀ stash' : List (PN × Packet), (stash'.map Prod.fst).Sublist rest → (∀ x ∈ stash', x ∈ stash) →
        ∀ (evs' : List Ev) (done' : List (PN × Packet)), (ackedLoop lvl rest h' stash' evs' done').2.1 = [] := by
      intro stash' hs1 hs2 evs' done'
      apply ih h' stash' evs' done' e2 hp'.2 hl' hs1
      intro x hx
      obtain ⟨d, hd1, hd2⟩ := hst x (hs2 x hx)
      have hxr : x.1 ∈ rest := hs1.subset (List.mem_map_of_mem hx)
      have hne : x.1 ≠ pn := by have := hp'.1 x.1 hxr; omega
      exact ⟨d, by rw [remove_lookup_ne e1 hne]; exact hd1, hd2⟩
    -- is `pn` the first key of the stash?
    cases stash with
    | nil =>
      by_cases hpp : p.pathProbe = true
      · simp only [hpp, if_true, removeProbe]
        exact key [] (by simp) (by simp) _ _
      · simp only [hpp]
        exact key [] (by simp) (by simp) _ _
    | cons x st =>
      obtain ⟨k, q⟩ := x
      by_cases hk : k = pn
      · subst hk
        have hsub' : (st.map Prod.fst).Sublist rest := by
          simp only [List.map_cons] at hsub
          cases hsub with
          | cons _ h2 =>
            -- then `k` would be in `rest`, contradicting `k < everything in rest`
            exfalso
            have : k ∈ rest := h2.subset (by simp)
            have := hp'.1 k this; omega
          | cons_cons _ h2 => exact h2
        obtain ⟨d, hd1, hd2⟩ := hst (k, q) (by simp)
        simp only [] at hd1
        rw [hlp] at hd1
        simp only [Option.some.injEq] at hd1
        subst hd1
        simp only [hd2, if_true, removeProbe_head]
        exact key st hsub' (fun x hx => List.mem_cons_of_mem _ hx) _ _
      · have hsub' : (((k, q) :: st).map Prod.fst).Sublist rest := by
          simp only [List.map_cons] at hsub ⊢
          cases hsub with
          | cons _ h2 => exact h2
          | cons_cons _ h2 => exact absurd rfl hk
        have habs : pn ∉ ((k, q) :: st).map Prod.fst := by
          intro hin
          have := hp'.1 pn (hsub'.subset hin); omega
        by_cases hpp : p.pathProbe = true
        · simp only [hpp, if_true, removeProbe_absent habs]
          exact key _ hsub' (fun x hx => hx) _ _
        · simp only [hpp]
          exact key _ hsub' (fun x hx => hx) _ _

/-- what the collection loop puts into the stash: keys form a sub-sequence of the collected numbers, and every
    key is the number of a path-probe placeholder in the slice -/
def StashOK (pn : PN) (pk : List (Option Packet)) (newS : List (PN × Packet)) (new : List PN) : Prop :=
  (newS.map Prod.fst).Sublist new ∧
  ∀ x ∈ newS, ∃ i : Nat, x.1 = pn + i ∧ ∃ d, pk[i]? = some (some d) ∧ d.pathProbe = true

theorem StashOK_shift {pn : PN} {x : Option Packet} {xs : List (Option Packet)} {newS : List (PN × Packet)} {new : List PN}
    (h : StashOK (pn + 1) xs newS new) : StashOK pn (x :: xs) newS new := by
  refine ⟨h.1, ?_⟩
  intro y hy
  obtain ⟨i, e1, d, e2, e3⟩ := h.2 y hy
  exact ⟨i + 1, by omega, d, by simpa using e2, e3⟩

theorem collect_stash (multi : Bool) (lowest largest : PN) (pk : List (Option Packet)) :
    ∀ (pn : PN) (rem : List Range) (probes stash : List (PN × Packet)) (acc : List PN),
      (multi = true → ∃ top, rem.getLast? = some top ∧ top.2 = largest) →
      ∃ probes' newS new, collect multi lowest largest pn pk rem probes stash acc = .done probes' (stash ++ newS) (acc ++ new) ∧
        StashOK pn pk newS new := by
  induction pk with
  | nil =>
    intro pn rem probes stash acc _
    exact ⟨probes, [], [], by simp [collect], by simp, by intro x hx; simp at hx⟩
  | cons x xs ih =>
    intro pn rem probes stash acc hinv
    cases x with
    | none =>
      simp only [collect]
      obtain ⟨pr, ns, new, e1, e2⟩ := ih (pn + 1) rem probes stash acc hinv
      exact ⟨pr, ns, new, e1, StashOK_shift e2⟩
    | some p =>
      simp only [collect]
      have hinvN : multi = true → ∃ top, (nextRem multi pn rem).getLast? = some top ∧ top.2 = largest := by
        intro hm
        obtain ⟨top, ht, ht2⟩ := hinv hm
        have hne : rem ≠ [] := by intro hc; simp [hc] at ht
        obtain ⟨r, rest, a1, a2, _⟩ := advance_spec pn rem hne
        simp only [nextRem, hm, if_true, a1]
        exact ⟨top, by rw [suffix_getLast? a2 (by simp)]; exact ht, ht2⟩
      by_cases hlow : pn < lowest
      · simp only [hlow, if_true]
        obtain ⟨pr, ns, new, e1, e2⟩ := ih (pn + 1) rem probes stash acc hinv
        exact ⟨pr, ns, new, e1, StashOK_shift e2⟩
      · simp only [hlow, if_false]
        by_cases hhigh : pn > largest
        · simp only [hhigh, if_true]
          exact ⟨probes, [], [], by simp, by simp, by intro x hx; simp at hx⟩
        · simp only [hhigh, if_false]
          by_cases hb : (rangeCheck multi pn (nextRem multi pn rem)).1 = true
          · simp only [hb, if_true]
            obtain ⟨pr, ns, new, e1, e2⟩ := ih (pn + 1) _ probes stash acc hinvN
            exact ⟨pr, ns, new, e1, StashOK_shift e2⟩
          · simp only [hb, Bool.false_eq_true, if_false]
            by_cases hab : (rangeCheck multi pn (nextRem multi pn rem)).2 = true
            · exfalso
              obtain ⟨pr, st, new, e1, _⟩ := collect_spec multi lowest largest (some p :: xs) pn rem probes stash acc hinv
              simp only [collect, hlow, hhigh, if_false, hb, hab, if_true, Bool.false_eq_true] at e1
              cases e1
            · simp only [hab, Bool.false_eq_true, if_false]
              by_cases hpp : p.pathProbe = true
              · simp only [hpp, if_true]
                cases hr : removeProbe pn probes with
                | mk o probes' =>
                  cases o with
                  | some q =>
                    simp only []
                    obtain ⟨pr, ns, new, e1, e2⟩ := ih (pn + 1) _ probes' (stash ++ [(pn, q)]) (acc ++ [pn]) hinvN
                    have e2' := StashOK_shift (x := some p) e2
                    refine ⟨pr, (pn, q) :: ns, pn :: new, by rw [e1]; simp, ?_, ?_⟩
                    · simp only [List.map_cons]; exact List.Sublist.cons_cons _ e2'.1
                    · intro y hy
                      rcases List.mem_cons.mp hy with h | h
                      · subst h; exact ⟨0, by simp, p, by simp, hpp⟩
                      · exact e2'.2 y h
                  | none =>
                    simp only []
                    obtain ⟨pr, ns, new, e1, e2⟩ := ih (pn + 1) _ probes' stash acc hinvN
                    exact ⟨pr, ns, new, e1, StashOK_shift e2⟩
              · simp only [hpp]
                obtain ⟨pr, ns, new, e1, e2⟩ := ih (pn + 1) _ probes stash (acc ++ [pn]) hinvN
                have e2' := StashOK_shift (x := some p) e2
                exact ⟨pr, ns, pn :: new, by rw [e1]; simp, List.Sublist.cons _ e2'.1, e2'.2⟩


theorem lostProbesLoop_disc (pns : List PN) : ∀ (pr : List (PN × Packet)) (evs : List Ev), ProbesOK pr →
    (lostProbesLoop pns pr evs []).2.2 = [] := by
  induction pns with
  | nil => intro pr evs _; rfl
  | cons pn rest ih =>
    intro pr evs hp
    simp only [lostProbesLoop]
    cases hq : removeProbe pn pr with
    | mk o pr' =>
      have hsub : ProbesOK pr' := by
        intro y hy; have := @removeProbe_subset pn pr y; rw [hq] at this; exact hp y (this hy)
      cases o with
      | some p =>
        simp only []
        have := @removeProbe_fst_mem pn pr p (by rw [hq])
        rw [(hp _ this).2]
        exact ih pr' _ hsub
      | none => exact ih pr' _ hsub

theorem detectLostPathProbes_disc (sp : Space) (now : Time) (h : ProbesOK sp.hist.probes) : (detectLostPathProbes sp now).2.2 = [] := by
  unfold detectLostPathProbes
  split
  · rfl
  · exact lostProbesLoop_disc _ _ _ h

theorem ackTail_disc {s : State} {env : Env} {lvl : Level} {now : Time} {largest : PN} {sp : Space} {h2 : Hist}
    {evs : List Ev} {removed : List (PN × Packet)} {n : Nat}
    (f : FOK s) (hg : s.getSpace lvl = some sp) (f2 : FlightOKH h2) (hd0 : 0 ≤ delta (s.setSpace lvl { sp with hist := h2, largestAcked := max sp.largestAcked largest })) :
    (s.ackTail env lvl now largest sp h2 evs removed [] n).2.disc = [] := by
  unfold State.ackTail
  simp only []
  have fs2 : FOK (s.setSpace lvl { sp with hist := h2, largestAcked := max sp.largestAcked largest }) := FOK_setSpace f rfl rfl rfl f2
  have hg2 := getSpace_setSpace hg { sp with hist := h2, largestAcked := max sp.largestAcked largest }
  generalize s.setSpace lvl { sp with hist := h2, largestAcked := max sp.largestAcked largest } = s2 at fs2 hg2 hd0 ⊢
  obtain ⟨l1, l2, _⟩ := @detectLostPackets_flight s2 env now lvl _ fs2 hg2 hd0
  cases hd : s2.detectLostPackets env now lvl with
  | mk s3 r =>
    obtain ⟨evsL, pl⟩ := r
    rw [hd] at l1 l2
    simp only [] at l1 l2
    subst l1
    simp only []
    have hz : (if lvl = Level.oneRTT then detectLostPathProbes s3.app now else (s3.app, [], [])).2.2 = [] := by
      split
      · exact detectLostPathProbes_disc _ _ l2.app.probes
      · rfl
    cases removeBifAll s3.bytesInFlight removed <;> simp [hz]
theorem doneSum_nonneg {l : List (PN × Packet)} (h : ∀ x ∈ l, 0 ≤ flightOf x.2) : 0 ≤ doneSum l := by
  induction l with
  | nil => simp [doneSum]
  | cons z zs ih =>
    have := h z (by simp)
    have := ih (fun y hy => h y (List.mem_cons_of_mem _ hy))
    simp [doneSum]; omega

theorem ackCore_disc {s : State} {env : Env} {ranges : List Range} {lvl : Level} {now : Time} {sp : Space} {top bot : Range}
    (fi : FInv s) (hg : s.getSpace lvl = some sp) (hh : ranges.head? = some top) (_hl : ranges.getLast? = some bot)
    (hok : (s.ackCore env ranges lvl now sp bot.1 top.2).2.res = .ok) :
    (s.ackCore env ranges lvl now sp bot.1 top.2).2.disc = [] := by
  obtain ⟨f, hb⟩ := fi
  have fsp := FOK_getSpace f hg
  obtain ⟨rest, r0, r1, r2⟩ := total_frame f hg
  have hinv : decide (ranges.length > 1) = true → ∃ t, ranges.reverse.getLast? = some t ∧ t.2 = top.2 := by
    intro _; exact ⟨top, by rw [List.getLast?_reverse]; exact hh, rfl⟩
  obtain ⟨pr, st, acc, e1, e2⟩ := collect_stash (decide (ranges.length > 1)) bot.1 top.2 sp.hist.packets sp.hist.first ranges.reverse sp.hist.probes [] [] hinv
  simp only [List.nil_append] at e1
  obtain ⟨pr', st', new, e1', e3, e4⟩ := collect_spec (decide (ranges.length > 1)) bot.1 top.2 sp.hist.packets sp.hist.first ranges.reverse sp.hist.probes [] [] hinv
  simp only [List.nil_append] at e1'
  rw [e1] at e1'
  simp only [CollectRes.done.injEq] at e1'
  obtain ⟨_, _, e5⟩ := e1'
  subst e5
  unfold State.ackCore at hok ⊢
  by_cases h1 : s.ackedBuf > 0
  · simp [h1] at hok
  · by_cases h2' : lvl = .oneRTT ∧ sp.hist.skipped.any (acksPacketBin ranges bot.1 top.2)
    · simp [h1, h2'] at hok
    · simp only [h1, h2', if_false, e1] at hok ⊢
      have cp := collect_probesOK (decide (ranges.length > 1)) bot.1 top.2 sp.hist.packets sp.hist.first ranges.reverse sp.hist.probes [] []
        fsp.probes (by intro x hx; simp at hx)
      rw [e1] at cp
      simp only [CollectRes.probes, CollectRes.stash] at cp
      have f1 : FlightOKH { sp.hist with probes := pr } :=
        { inflight := fsp.inflight, nonneg := fsp.nonneg, count := fsp.count, head := fsp.head, probes := cp.1 }
      have htracked : ∀ q ∈ acc, ∃ p, ({ sp.hist with probes := pr } : Hist).lookup q = some p := by
        intro q hq
        obtain ⟨i, a1, ⟨p, a2⟩, _⟩ := e4 q hq
        exact ⟨p, by rw [a1]; exact lookup_of_index (h := { sp.hist with probes := pr }) a2⟩
      have hstash : ∀ x ∈ st, ∃ d, ({ sp.hist with probes := pr } : Hist).lookup x.1 = some d ∧ d.pathProbe = true := by
        intro x hx
        obtain ⟨i, a1, d, a2, a3⟩ := e2.2 x hx
        exact ⟨d, by rw [a1]; exact lookup_of_index (h := { sp.hist with probes := pr }) a2, a3⟩
      have hse := ackedLoop_stash_empty lvl acc { sp.hist with probes := pr } st [] [] f1 e3 htracked e2.1 hstash
      have al := ackedLoop_flight lvl acc { sp.hist with probes := pr } st [] [] f1 cp.2 (by intro x hx; simp at hx)
      cases ha : ackedLoop lvl acc { sp.hist with probes := pr } st [] [] with
      | mk h2 r =>
        obtain ⟨stash', evs, removed, res⟩ := r
        rw [ha] at hse al
        simp only [] at hse al
        subst hse
        cases res with
        | panic c => simp [ha] at hok
        | err e => simp [ha] at hok
        | ok =>
          obtain ⟨b1, b2, b3⟩ := al.2 rfl
          simp only [ha] at hok ⊢
          by_cases hre : removed.isEmpty = true
          · simp only [hre, if_true]
          · simp only [hre, probesFrames_nil]
            refine ackTail_disc f hg b1 ?_
            have hds : 0 ≤ doneSum removed := doneSum_nonneg b2
            have t2 := r2 s { sp with hist := h2, largestAcked := max sp.largestAcked top.2 } rfl rfl rfl
            unfold delta
            rw [t2]
            have : (s.setSpace lvl { sp with hist := h2, largestAcked := max sp.largestAcked top.2 }).bytesInFlight = s.bytesInFlight := by
              cases lvl <;> rfl
            rw [this, hb, r1]
            simp only [doneSum] at b3
            simp only []; omega

theorem receivedAck_disc {s : State} {env : Env} {ranges : List Range} {lvl : Level} {now : Time} (fi : FInv s)
    (hok : (s.receivedAck env ranges lvl now).2.res = .ok) : (s.receivedAck env ranges lvl now).2.disc = [] := by
  unfold State.receivedAck at hok ⊢
  cases hg : s.getSpace lvl with
  | none => simp [hg] at hok
  | some sp =>
    cases hh : ranges.head? with
    | none => simp [hg, hh] at hok
    | some top =>
      cases hl : ranges.getLast? with
      | none => simp [hg, hh, hl] at hok
      | some bot =>
        simp only [hg, hh, hl] at hok ⊢
        by_cases hle : top.2 > sp.largestSent
        · simp [hle] at hok
        · simp only [hle, if_false] at hok ⊢
          obtain ⟨e1, e2, e3, e4, _⟩ := completeValidation_spec s env lvl now
          have fi1 : FInv (s.completeValidation env lvl now) := ⟨FOK_eq e1 e2 e3 fi.1, by rw [e4, total_eq e1 e2 e3]; exact fi.2⟩
          have hg' : (s.completeValidation env lvl now).getSpace lvl = some sp := by rw [getSpace_congr e1 e2 e3]; exact hg
          exact ackCore_disc fi1 hg' hh hl hok

theorem timeoutMain_disc (s : State) (env : Env) (now : Time) (nts : PN) (evs0 : List Ev) (disc0 : List Frame) :
    (s.timeoutMain env now nts evs0 disc0).2.disc = disc0 := by
  unfold State.timeoutMain State.timeoutMainG
  split
  · rfl
  · split
    · unfold State.antiDeadlockProbe
      simp only []
      split
      · rfl
      · split <;> rfl
    · unfold State.ptoFire
      split
      · rfl
      · split
        · rfl
        · split
          · rfl
          · unfold State.ptoSwitch
            split
            · rfl
            · rfl
            · simp only []
              split
              · rfl
              · split <;> rfl
            · rfl

theorem onLossDetectionTimeout_disc {s : State} {env : Env} {now : Time} {nts : PN} (fi : FInv s) :
    (s.onLossDetectionTimeout env now nts).2.disc = [] := by
  unfold State.onLossDetectionTimeout State.timeoutBody
  simp only []
  rw [timeoutMain_disc]
  split
  · exact detectLostPathProbes_disc _ _ fi.1.app.probes
  · rfl

/-- operations that never discard a frame without a callback -/
def Op.keepsFrames : Op → Bool
  | .send .. => true
  | .ack .. => true
  | .timeout .. => true
  | .probe .. => true
  | .rcvBytes .. => true
  | .rcvPacket .. => true
  | _ => false

theorem step_disc {s : State} {op : Op} {e : StepEnv} (fi : FInv s) (hk : Op.keepsFrames op = true)
    (hok : (s.step op e).2.res = .ok) : (s.step op e).2.disc = [] := by
  cases op with
  | send lvl now la size mtu probe frames sframes =>
    simp only [State.step] at hok ⊢
    split at hok
    · rfl
    · rename_i hne; exact absurd hok (by simpa using hne)
  | ack lvl now ranges => exact receivedAck_disc fi hok
  | timeout now => exact onLossDetectionTimeout_disc fi
  | probe lvl =>
    simp only [State.step, State.queueProbePacket]
    split
    · rfl
    · split
      · rfl
      · split
        · rfl
        · split <;> rfl
  | drop lvl now => simp [Op.keepsFrames] at hk
  | retry => simp [Op.keepsFrames] at hk
  | migrate now => simp [Op.keepsFrames] at hk
  | rcvBytes n now => rfl
  | rcvPacket lvl now => rfl


end Uquic.Proofs.Sent
