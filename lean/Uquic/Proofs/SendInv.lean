/-
C01: the invariant of the SendStream model and its preservation by every step
(classic RESET_STREAM semantics: `reliableOffset = 0` throughout).
-/
import Uquic.Proofs.SendFrame

namespace Uquic.Proofs.Send
open Uquic.Model.Stream.Send Uquic.Spec.SendRun

def nfDataOf (nf : Option Frame) : Bytes := match nf with | some g => g.data | none => []

def nfData (s : State) : Bytes := nfDataOf s.nextFrame

/-- the bytes accepted by `Write` that were not yet put into a popped frame, in stream order -/
def tail (s : State) : Bytes := nfData s ++ s.dataForWriting

/-- ghost `written` only grows, and not at all once the stream was closed; `finishedWriting` is sticky -/
def Ext (s s' : State) : Prop :=
  (∃ p, s'.written = s.written ++ p ∧ (s.finishedWriting = true → p = [])) ∧
  (s.finishedWriting = true → s'.finishedWriting = true)

theorem Ext.refl' {s s' : State} (hw : s'.written = s.written) (hf : s'.finishedWriting = s.finishedWriting) : Ext s s' :=
  ⟨⟨[], by simp [hw], fun _ => rfl⟩, fun h => by rw [hf]; exact h⟩

theorem Faithful.ext {s s' : State} {f : Frame} (h : Faithful s f) (e : Ext s s') : Faithful s' f := by
  obtain ⟨⟨p, hp, hpf⟩, hfw⟩ := e
  refine ⟨?_, ?_⟩
  · rw [hp]; exact prefix_drop_append h.1
  · intro hfin
    obtain ⟨h1, h2⟩ := h.2 hfin
    have := hpf h1
    subst this
    refine ⟨hfw h1, ?_⟩
    rw [hp]; simpa using h2

/-- fields no step but a few dedicated ones touches -/
structure Stable (s s' : State) : Prop where
  written : s'.written = s.written
  emitted : s'.emitted = s.emitted
  resetErr : s'.resetErr = s.resetErr
  shutdown : s'.shutdown = s.shutdown
  finishedWriting : s'.finishedWriting = s.finishedWriting
  reliableSize : s'.reliableSize = s.reliableSize
  supportsResetAt : s'.supportsResetAt = s.supportsResetAt
  sid : s'.sid = s.sid

theorem Stable.rfl' (s : State) : Stable s s := ⟨rfl, rfl, rfl, rfl, rfl, rfl, rfl, rfl⟩

theorem isNewlyCompleted_fst (s : State) : ∃ c, (isNewlyCompleted s).1 = { s with completed := c } := by
  unfold isNewlyCompleted
  split
  · exact ⟨s.completed, rfl⟩
  split
  · exact ⟨s.completed, rfl⟩
  split
  · exact ⟨s.completed, rfl⟩
  split
  · exact ⟨true, rfl⟩
  split
  · exact ⟨true, rfl⟩
  · exact ⟨s.completed, rfl⟩

theorem Live.of_eq {s s' : State} (h : Live s') (hr : s'.resetErr = s.resetErr) (hs : s'.shutdown = s.shutdown) : Live s :=
  ⟨hr ▸ h.1, hs ▸ h.2⟩

end Uquic.Proofs.Send
