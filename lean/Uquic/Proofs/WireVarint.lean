import Uquic.Model.Wire.Varint

namespace Uquic.Proofs.Wire
open Uquic.Model.Wire Uquic.Model.Wire.Varint

theorem max1_eq : maxVarInt1 = 63 := by decide
theorem max2_eq : maxVarInt2 = 16383 := by decide
theorem max4_eq : maxVarInt4 = 1073741823 := by decide
theorem max8_eq : maxVarInt8 = 4611686018427387903 := by decide

theorem u8_toNat (x : Nat) : (u8 x).toNat = x % 256 := by
  simp [u8]

theorem or40 : ∀ x, x < 64 → x ||| 0x40 = x + 64 := by decide
theorem or80 : ∀ x, x < 64 → x ||| 0x80 = x + 128 := by decide
theorem orc0 : ∀ x, x < 64 → x ||| 0xc0 = x + 192 := by decide

/-! `parse` on explicit byte lists, by the class of the first byte -/

theorem parse_w1 (b0 : UInt8) (rest : Bytes) (h : b0.toNat / 64 = 0) :
    parse (b0 :: rest) = .ok (b0.toNat % 64, 1) := by
  simp [parse, h]

theorem parse_w2 (b0 b1 : UInt8) (rest : Bytes) (h : b0.toNat / 64 = 1) :
    parse (b0 :: b1 :: rest) = .ok (b1.toNat + (b0.toNat % 64) * 2 ^ 8, 2) := by
  simp [parse, h]

theorem parse_w4 (b0 b1 b2 b3 : UInt8) (rest : Bytes) (h : b0.toNat / 64 = 2) :
    parse (b0 :: b1 :: b2 :: b3 :: rest) =
      .ok (b3.toNat + b2.toNat * 2 ^ 8 + b1.toNat * 2 ^ 16 + (b0.toNat % 64) * 2 ^ 24, 4) := by
  simp [parse, h]

theorem parse_w8 (b0 b1 b2 b3 b4 b5 b6 b7 : UInt8) (rest : Bytes) (h : b0.toNat / 64 = 3) :
    parse (b0 :: b1 :: b2 :: b3 :: b4 :: b5 :: b6 :: b7 :: rest) =
      .ok (b7.toNat + b6.toNat * 2 ^ 8 + b5.toNat * 2 ^ 16 + b4.toNat * 2 ^ 24 + b3.toNat * 2 ^ 32
              + b2.toNat * 2 ^ 40 + b1.toNat * 2 ^ 48 + (b0.toNat % 64) * 2 ^ 56, 8) := by
  simp [parse, h]

theorem parse_enc (v : Nat) (h : v ≤ maxVarInt8) (rest : Bytes) :
    parse (enc v ++ rest) = .ok (v, len v) := by
  unfold enc len
  rw [max1_eq, max2_eq, max4_eq, max8_eq] at *
  by_cases h1 : v ≤ 63
  · simp only [h1, if_true, List.cons_append, List.nil_append]
    rw [parse_w1 _ _ (by rw [u8_toNat]; omega), u8_toNat]
    congr 2; omega
  · by_cases h2 : v ≤ 16383
    · simp only [h1, h2, if_true, if_false, List.cons_append, List.nil_append]
      have e : v / 2 ^ 8 % 256 ||| 64 = v / 2 ^ 8 % 256 + 64 := or40 _ (by omega)
      rw [e, parse_w2 _ _ _ (by rw [u8_toNat]; omega)]
      simp only [u8_toNat]
      congr 2; omega
    · by_cases h4 : v ≤ 1073741823
      · simp only [h1, h2, h4, if_true, if_false, List.cons_append, List.nil_append]
        have e : v / 2 ^ 24 % 256 ||| 128 = v / 2 ^ 24 % 256 + 128 := or80 _ (by omega)
        rw [e, parse_w4 _ _ _ _ _ (by rw [u8_toNat]; omega)]
        simp only [u8_toNat]
        congr 2; omega
      · simp only [h1, h2, h4, h, if_true, if_false, List.cons_append, List.nil_append]
        have e : v / 2 ^ 56 % 256 ||| 192 = v / 2 ^ 56 % 256 + 192 := orc0 _ (by omega)
        rw [e, parse_w8 _ _ _ _ _ _ _ _ _ (by rw [u8_toNat]; omega)]
        simp only [u8_toNat]
        congr 2; omega
