import Uquic.Model.Wire.Varint

namespace Uquic.Proofs.Wire
open Uquic.Model.Wire Uquic.Model.Wire.Varint

theorem max1_eq : maxVarInt1 = 63 := by decide
theorem max2_eq : maxVarInt2 = 16383 := by decide
theorem max4_eq : maxVarInt4 = 1073741823 := by decide
theorem max8_eq : maxVarInt8 = 4611686018427387903 := by decide

theorem u8_toNat (x : Nat) : (u8 x).toNat = x % 256 := by
  simp [u8]

theorem or40 : ∀ x, x < 64 → x ||| 0x40 = x + 64 := by decide
theorem or80 : ∀ x, x < 64 → x ||| 0x80 = x + 128 := by decide
theorem orc0 : ∀ x, x < 64 → x ||| 0xc0 = x + 192 := by decide

/-! `parse` on explicit byte lists, by the class of the first byte -/

theorem parse_w1 (b0 : UInt8) (rest : Bytes) (h : b0.toNat / 64 = 0) :
    parse (b0 :: rest) = .ok (b0.toNat % 64, 1) := by
  simp [parse, h]

theorem parse_w2 (b0 b1 : UInt8) (rest : Bytes) (h : b0.toNat / 64 = 1) :
    parse (b0 :: b1 :: rest) = .ok (b1.toNat + (b0.toNat % 64) * 2 ^ 8, 2) := by
  simp [parse, h]

theorem parse_w4 (b0 b1 b2 b3 : UInt8) (rest : Bytes) (h : b0.toNat / 64 = 2) :
    parse (b0 :: b1 :: b2 :: b3 :: rest) =
      .ok (b3.toNat + b2.toNat * 2 ^ 8 + b1.toNat * 2 ^ 16 + (b0.toNat % 64) * 2 ^ 24, 4) := by
  simp [parse, h]

theorem parse_w8 (b0 b1 b2 b3 b4 b5 b6 b7 : UInt8) (rest : Bytes) (h : b0.toNat / 64 = 3) :
    parse (b0 :: b1 :: b2 :: b3 :: b4 :: b5 :: b6 :: b7 :: rest) =
      .ok (b7.toNat + b6.toNat * 2 ^ 8 + b5.toNat * 2 ^ 16 + b4.toNat * 2 ^ 24 + b3.toNat * 2 ^ 32
              + b2.toNat * 2 ^ 40 + b1.toNat * 2 ^ 48 + (b0.toNat % 64) * 2 ^ 56, 8) := by
  simp [parse, h]

theorem parse_enc (v : Nat) (h : v ≤ maxVarInt8) (rest : Bytes) :
    parse (enc v ++ rest) = .ok (v, len v) := by
  unfold enc len
  rw [max1_eq, max2_eq, max4_eq, max8_eq] at *
  by_cases h1 : v ≤ 63
  · simp only [h1, if_true, List.cons_append, List.nil_append]
    rw [parse_w1 _ _ (by rw [u8_toNat]; omega), u8_toNat]
    congr 2; omega
  · by_cases h2 : v ≤ 16383
    · simp only [h1, h2, if_true, if_false, List.cons_append, List.nil_append]
      have e : v / 2 ^ 8 % 256 ||| 64 = v / 2 ^ 8 % 256 + 64 := or40 _ (by omega)
      rw [e, parse_w2 _ _ _ (by rw [u8_toNat]; omega)]
      simp only [u8_toNat]
      congr 2; omega
    · by_cases h4 : v ≤ 1073741823
      · simp only [h1, h2, h4, if_true, if_false, List.cons_append, List.nil_append]
        have e : v / 2 ^ 24 % 256 ||| 128 = v / 2 ^ 24 % 256 + 128 := or80 _ (by omega)
        rw [e, parse_w4 _ _ _ _ _ (by rw [u8_toNat]; omega)]
        simp only [u8_toNat]
        congr 2; omega
      · simp only [h1, h2, h4, h, if_true, if_false, List.cons_append, List.nil_append]
        have e : v / 2 ^ 56 % 256 ||| 192 = v / 2 ^ 56 % 256 + 192 := orc0 _ (by omega)
        rw [e, parse_w8 _ _ _ _ _ _ _ _ _ (by rw [u8_toNat]; omega)]
        simp only [u8_toNat]
        congr 2; omega

theorem len_enc (v : Nat) (h : v ≤ maxVarInt8) : (enc v).length = len v := by
  unfold enc len
  rw [max1_eq, max2_eq, max4_eq, max8_eq] at *
  by_cases h1 : v ≤ 63 <;> by_cases h2 : v ≤ 16383 <;> by_cases h4 : v ≤ 1073741823 <;> simp [h1, h2, h4, h]

theorem len_pos (v : Nat) (h : v ≤ maxVarInt8) : 0 < len v := by
  unfold len
  rw [max1_eq, max2_eq, max4_eq, max8_eq] at *
  by_cases h1 : v ≤ 63 <;> by_cases h2 : v ≤ 16383 <;> by_cases h4 : v ≤ 1073741823 <;> simp [h1, h2, h4, h]

/-- what a successful parse looks like: the consumed prefix alone determines the result -/
theorem parse_ok_inv (b : Bytes) (v n : Nat) (h : parse b = .ok (v, n)) :
    n ≤ b.length ∧ 0 < n ∧ v ≤ maxVarInt8 ∧ len v ≤ n ∧ ∀ r, parse (b.take n ++ r) = .ok (v, n) := by
  rw [max8_eq]
  match b with
  | [] => simp [parse] at h
  | b0 :: rest =>
    have hb0 := b0.toNat_lt
    have hq : b0.toNat / 64 = 0 ∨ b0.toNat / 64 = 1 ∨ b0.toNat / 64 = 2 ∨ b0.toNat / 64 = 3 := by omega
    rcases hq with hq | hq | hq | hq
    · rw [parse_w1 _ _ hq] at h
      simp only [Except.ok.injEq, Prod.mk.injEq] at h
      obtain ⟨hv, hn⟩ := h
      subst hn; subst hv
      refine ⟨by simp, by omega, by omega, ?_, ?_⟩
      · unfold len; rw [max1_eq, if_pos (by omega)]; omega
      · intro r; simp [parse_w1 _ _ hq]
    · match rest with
      | [] => simp [parse, hq] at h
      | b1 :: rest' =>
        have hb1 := b1.toNat_lt
        rw [parse_w2 _ _ _ hq] at h
        simp only [Except.ok.injEq, Prod.mk.injEq] at h
        obtain ⟨hv, hn⟩ := h
        subst hn; subst hv
        refine ⟨by simp, by omega, by omega, ?_, ?_⟩
        · unfold len; rw [max1_eq, max2_eq]; split <;> (try split) <;> omega
        · intro r; simp [parse_w2 _ _ _ hq]
    · match rest with
      | [] => simp [parse, hq] at h
      | [_] => simp [parse, hq] at h
      | [_, _] => simp [parse, hq] at h
      | b1 :: b2 :: b3 :: rest' =>
        have hb1 := b1.toNat_lt; have hb2 := b2.toNat_lt; have hb3 := b3.toNat_lt
        rw [parse_w4 _ _ _ _ _ hq] at h
        simp only [Except.ok.injEq, Prod.mk.injEq] at h
        obtain ⟨hv, hn⟩ := h
        subst hn; subst hv
        refine ⟨by simp, by omega, by omega, ?_, ?_⟩
        · unfold len; rw [max1_eq, max2_eq, max4_eq]; split <;> (try split) <;> (try split) <;> omega
        · intro r; simp [parse_w4 _ _ _ _ _ hq]
    · match rest with
      | [] => simp [parse, hq] at h
      | [_] => simp [parse, hq] at h
      | [_, _] => simp [parse, hq] at h
      | [_, _, _] => simp [parse, hq] at h
      | [_, _, _, _] => simp [parse, hq] at h
      | [_, _, _, _, _] => simp [parse, hq] at h
      | [_, _, _, _, _, _] => simp [parse, hq] at h
      | b1 :: b2 :: b3 :: b4 :: b5 :: b6 :: b7 :: rest' =>
        have hb1 := b1.toNat_lt; have hb2 := b2.toNat_lt; have hb3 := b3.toNat_lt; have hb4 := b4.toNat_lt
        have hb5 := b5.toNat_lt; have hb6 := b6.toNat_lt; have hb7 := b7.toNat_lt
        rw [parse_w8 _ _ _ _ _ _ _ _ _ hq] at h
        simp only [Except.ok.injEq, Prod.mk.injEq] at h
        obtain ⟨hv, hn⟩ := h
        subst hn; subst hv
        refine ⟨by simp, by omega, by omega, ?_, ?_⟩
        · unfold len; rw [max1_eq, max2_eq, max4_eq, max8_eq]
          split <;> (try split) <;> (try split) <;> (try split) <;> omega
        · intro r; simp [parse_w8 _ _ _ _ _ _ _ _ _ hq]


