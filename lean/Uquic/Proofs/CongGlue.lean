/-
Helper lemmas for C20 (glue): the calls sent_packet_handler.go makes on the congestion controller
for an ACK frame / a loss-timer expiry, tied to the "once per window" lemma of the sender; and the
pacer for time stamps earlier than the previous send.
-/
import Uquic.Model.Cong.Sender
import Uquic.Model.Cong.Glue
import Uquic.Proofs.CongStep
import Uquic.Proofs.CongPacer

namespace Uquic.Proofs.Cong

open Uquic.Model.Cong

/-- every congestion event `ReceivedAck` raises is either the ECN-CE event, for the frame's largest
acknowledged packet, or a loss event for an outstanding packet (ack-eliciting, no Path MTU probe, no
path probe) that loss detection removed, with that packet's own number and size -/
theorem ackCalls_cong (g : Glue) (ranges : List (Int × Int)) (congested : Bool) (gone : List (Nat × Int)) (sp : Nat) :
    ∀ c ∈ g.ackCalls ranges congested gone sp, ∀ pn b p, c = Call.cong pn b p →
      (congested = true ∧ pn = largestOf ranges ∧ b = 0) ∨
      ∃ q ∈ g.out, q.outstanding = true ∧ q.key ∈ gone ∧ q.pn = pn ∧ q.size = b := by
  intro c hc pn b p e
  subst e
  unfold Glue.ackCalls at hc
  simp only [] at hc
  split at hc
  · simp at hc
  · simp only [List.mem_append, List.mem_map, List.mem_filter] at hc
    rcases hc with ((hc | hc) | hc) | hc
    · split at hc <;> simp at hc
    · split at hc
      · rename_i hcg
        simp only [List.mem_singleton, Call.cong.injEq] at hc
        exact Or.inl ⟨hcg, hc.1, hc.2.1⟩
      · simp at hc
    · obtain ⟨q, ⟨⟨hq0, _⟩, hq⟩, he⟩ := hc
      simp only [Call.cong.injEq] at he
      simp only [Bool.and_eq_true, List.contains_eq_mem, decide_eq_true_eq] at hq
      exact Or.inr ⟨q, hq0, hq.1, hq.2, he.1, he.2.1⟩
    · obtain ⟨q, _, he⟩ := hc
      cases he

theorem timeoutCalls_cong (g : Glue) (gone : List (Nat × Int)) :
    ∀ c ∈ g.timeoutCalls gone, ∃ q ∈ g.out, q.outstanding = true ∧ q.key ∈ gone ∧ c = Call.cong q.pn q.size g.bytesInFlight := by
  intro c hc
  unfold Glue.timeoutCalls at hc
  simp only [List.mem_map, List.mem_filter, Bool.and_eq_true, List.contains_eq_mem, decide_eq_true_eq] at hc
  obtain ⟨q, ⟨hq0, hq⟩, he⟩ := hc
  exact ⟨q, hq0, hq.1, hq.2, he.symm⟩

theorem toOp_lost (c : Call) (pn : Int) (b p : Nat) (h : c.toOp = Op.lost pn b p) : c = Call.cong pn b p := by
  cases c <;> simp [Call.toOp] at h ⊢
  exact h

theorem drop_s (g : Glue) (f : Pkt → Bool) : (g.drop f).s = g.s := rfl

/-- An ACK frame whose ECN-CE signal (if any) is for a largest-acknowledged packet at or below the
cut-back mark, and whose lost packets are all at or below it, does not shrink the window. -/
theorem ack_old_window (g : Glue) (ranges : List (Int × Int)) (congested : Bool) (gone : List (Nat × Int)) (sp : Nat) (ph : List Int)
    (hce : congested = true → largestOf ranges ≤ g.s.lastCutback)
    (hl : ∀ k ∈ gone, k.2 ≤ g.s.lastCutback) :
    g.s.cwnd ≤ (g.ack ranges congested gone sp ph).1.s.cwnd ∧
    (g.ack ranges congested gone sp ph).1.s.lastCutback = g.s.lastCutback := by
  unfold Glue.ack
  split
  · exact ⟨Nat.le_refl _, rfl⟩
  · simp only [drop_s, Glue.apply]
    apply run_old_loss
    intro op hop pn b p e
    simp only [List.mem_map] at hop
    obtain ⟨c, hc, hco⟩ := hop
    have hcc := toOp_lost c pn b p (hco.trans e)
    rcases ackCalls_cong g ranges congested gone sp c hc pn b p hcc with ⟨h1, h2, _⟩ | ⟨q, _, _, hk, hq, _⟩
    · rw [h2]; exact hce h1
    · have := hl q.key hk
      simpa [Pkt.key, hq] using this

theorem timeout_old_window (g : Glue) (gone : List (Nat × Int)) (ph : List Int)
    (hl : ∀ k ∈ gone, k.2 ≤ g.s.lastCutback) :
    g.s.cwnd ≤ (g.timeout gone ph).1.s.cwnd ∧
    (g.timeout gone ph).1.s.lastCutback = g.s.lastCutback := by
  simp only [Glue.timeout, drop_s, Glue.apply]
  apply run_old_loss
  intro op hop pn b p e
  simp only [List.mem_map] at hop
  obtain ⟨c, hc, hco⟩ := hop
  have hcc := toOp_lost c pn b p (hco.trans e)
  obtain ⟨q, _, _, hk, he⟩ := timeoutCalls_cong g gone c hc
  rw [hcc] at he
  simp only [Call.cong.injEq] at he
  have := hl q.key hk
  simpa [Pkt.key, he.1] using this

/-! ### the pacer and time stamps that go backwards -/

theorem wrapI64_neg (i : Int) (h0 : -(2 ^ 63) ≤ i) (h1 : i < 0) : wrapI64 i = i := by
  unfold wrapI64 u64OfI64 i64OfU64
  have e1 : (i + 2 ^ 64) % 2 ^ 64 = i % 2 ^ 64 := Int.add_emod_right i (2 ^ 64)
  have e2 : (i + 2 ^ 64) % 2 ^ 64 = i + 2 ^ 64 := Int.emod_eq_of_lt (by omega) (by omega)
  rw [← e1, e2]
  have h2 : ¬ (i + 2 ^ 64).toNat < 2 ^ 63 := by omega
  rw [if_neg h2]
  omega

/-- a time stamp at or before the previous send earns no tokens -/
theorem tokens_earlier (p : Pacer) (bw : Nat) (now : Int) (h : now ≤ p.lastSent) (hr : p.lastSent - now ≤ 2 ^ 63) :
    tokens p bw now = 0 := by
  unfold tokens
  have : ¬ wrapI64 (now - p.lastSent) > 0 := by
    by_cases he : now - p.lastSent = 0
    · rw [he]; decide
    · rw [wrapI64_neg _ (by omega) (by omega)]; omega
  simp only [this, if_false]

/-- … so the budget is then at most what was left in the bucket -/
theorem budget_earlier (p : Pacer) (bw : Nat) (now : Int) (hT : p.lastSent ≠ 0) (hm : PacerMDSOk p.mds)
    (h : now ≤ p.lastSent) (hr : p.lastSent - now ≤ 2 ^ 63) :
    p.budget bw now ≤ p.budgetAtLastSent := by
  have := budget_le_tokens p bw now hT hm
  rw [tokens_earlier p bw now h hr] at this
  omega

end Uquic.Proofs.Cong
