/-
The anti-deadlock probe of `OnLossDetectionTimeout` (C06, /repo 23a90f5).

Invariant over ALL histories of the full sent-packet-handler model, whatever the outcome of each operation
(`PInv`): a server has completed peer address validation from the start, the Handshake packet number space is
only ever dropped together with setting `peerCompletedAddressValidation` (client) — so a handler that has not
completed it still has its Handshake space — and `numProbesToSend` is never negative.

Consequences (Props/C06): the `sentPacketHandler BUG: PTO fired, but bytes_in_flight is 0 and Initial and
Handshake already dropped` branch is unreachable for both shapes of the guard, and with the guard of the current
source the anti-deadlock probe is queued whenever the timer fires in the state in which `getPTOTimeAndSpace`
arms the anti-deadlock PTO, regardless of `bytesInFlight`.
-/
import Uquic.Model.Ack.Sent

namespace Uquic.Proofs.Sent
open Uquic.Model.Sent

/-- what every reachable handler state satisfies about address validation, the Handshake space and the probe counter -/
structure PInv (s : State) : Prop where
  srv : s.isClient = false → s.peerCompleted = true
  hs : s.handshake = none → s.peerCompleted = true
  np : 0 ≤ s.numProbesToSend

/-- `s'` can follow `s`: the perspective is fixed, completed address validation is never undone, the Handshake
    space disappears only with completed validation (or on a server), the probe counter stays non-negative -/
structure PRel (s' s : State) : Prop where
  ic : s'.isClient = s.isClient
  pc : s.peerCompleted = true → s'.peerCompleted = true
  hs : s'.handshake = none → s.handshake = none ∨ s'.isClient = false ∨ s'.peerCompleted = true
  np : 0 ≤ s.numProbesToSend → 0 ≤ s'.numProbesToSend

theorem PRel.refl (s : State) : PRel s s := ⟨rfl, id, Or.inl, id⟩

theorem PRel.trans {a b c : State} (h1 : PRel a b) (h2 : PRel b c) : PRel a c := by
  refine ⟨h1.ic.trans h2.ic, fun h => h1.pc (h2.pc h), ?_, fun h => h1.np (h2.np h)⟩
  intro ha
  rcases h1.hs ha with h | h | h
  · rcases h2.hs h with g | g | g
    · exact Or.inl g
    · exact Or.inr (Or.inl (h1.ic.trans g))
    · exact Or.inr (Or.inr (h1.pc g))
  · exact Or.inr (Or.inl h)
  · exact Or.inr (Or.inr h)

theorem PRel.step {a b c : State} (h2 : PRel b c) (h1 : PRel a b) : PRel a c := h1.trans h2

theorem PRel.of_eq {s' s : State} (ic : s'.isClient = s.isClient) (pc : s'.peerCompleted = s.peerCompleted)
    (hs : s'.handshake = s.handshake) (np : s'.numProbesToSend = s.numProbesToSend) : PRel s' s :=
  ⟨ic, fun h => by rw [pc]; exact h, fun h => Or.inl (by rw [← hs]; exact h), fun h => by rw [np]; exact h⟩

theorem PInv.of_rel {s' s : State} (p : PInv s) (r : PRel s' s) : PInv s' := by
  refine ⟨fun h => r.pc (p.srv (by rw [← r.ic]; exact h)), ?_, r.np p.np⟩
  intro h
  rcases r.hs h with g | g | g
  · exact r.pc (p.hs g)
  · exact r.pc (p.srv (by rw [← r.ic]; exact g))
  · exact g

theorem setSpace_prel (s : State) (lvl : Level) (sp : Space) : PRel (s.setSpace lvl sp) s := by
  cases lvl
  case handshake => exact ⟨rfl, id, fun h => by simp [State.setSpace] at h, id⟩
  all_goals exact PRel.of_eq rfl rfl rfl rfl

theorem setTimer_prel (s : State) (env : Env) (now : Time) : PRel (s.setTimer env now) s := PRel.of_eq rfl rfl rfl rfl

theorem aeSent_prel (s : State) (size : Int) : PRel (s.aeSent size) s := by
  refine ⟨rfl, id, Or.inl, ?_⟩
  intro h
  simp only [State.aeSent]
  split <;> omega

macro "prel_step" : tactic => `(tactic| first
  | exact PRel.refl _
  | exact PRel.of_eq rfl rfl rfl rfl
  | refine PRel.trans (setTimer_prel _ _ _) ?_
  | refine PRel.trans (setSpace_prel _ _ _) ?_
  | refine PRel.trans (aeSent_prel _ _) ?_)

macro "prel" : tactic => `(tactic| repeat prel_step)

/-- not the "BUG: PTO fired, but bytes_in_flight is 0 and Initial and Handshake already dropped" error -/
def NoBugPTO (r : Res) : Prop := r ≠ .err .bugPTO

macro "nobug" : tactic => `(tactic| first | (unfold NoBugPTO; decide) | (unfold NoBugPTO; simp))

/-! ### PopPacketNumber / SentPacket -/

theorem popPacketNumber_prel (s : State) (lvl : Level) (nts : PN) : PRel (s.popPacketNumber lvl nts).1 s := by
  unfold State.popPacketNumber
  split
  · prel
  · split <;> prel

theorem popPacketNumber_nobug (s : State) (lvl : Level) (nts : PN) : NoBugPTO (s.popPacketNumber lvl nts).2.res := by
  unfold State.popPacketNumber
  split
  · nobug
  · split <;> nobug

theorem sentPacket_prel (s : State) (env : Env) (t : Time) (pn la : PN) (sframes frames : List Frame) (lvl : Level)
    (size : Int) (mtu probe : Bool) :
    PRel (s.sentPacket env t pn la sframes frames lvl size mtu probe).1 s := by
  unfold State.sentPacket
  simp only []
  have k0 : PRel ({ s with bytesSent := s.bytesSent + size } : State) s := PRel.of_eq rfl rfl rfl rfl
  generalize ({ s with bytesSent := s.bytesSent + size } : State) = s0 at k0 ⊢
  refine PRel.trans ?_ k0
  split
  · prel
  · split
    · split <;> prel
    · split
      · split <;> prel
      · split
        · prel
        · simp only []
          split <;> prel

theorem sentPacket_nobug (s : State) (env : Env) (t : Time) (pn la : PN) (sframes frames : List Frame) (lvl : Level)
    (size : Int) (mtu probe : Bool) :
    NoBugPTO (s.sentPacket env t pn la sframes frames lvl size mtu probe).2 := by
  unfold State.sentPacket
  simp only []
  split
  · nobug
  · split
    · split <;> nobug
    · split
      · split <;> nobug
      · split <;> nobug

/-! ### ReceivedAck -/

theorem detectLostPackets_prel (s : State) (env : Env) (now : Time) (lvl : Level) :
    PRel (s.detectLostPackets env now lvl).1 s := by
  unfold State.detectLostPackets
  split
  · prel
  · simp only []
    refine PRel.trans (b := s.setSpace lvl _) (PRel.of_eq rfl rfl rfl rfl) (setSpace_prel _ _ _)

theorem ackTail_prel (s : State) (env : Env) (lvl : Level) (now : Time) (largest : PN) (sp : Space) (h2 : Hist)
    (evs : List Ev) (removed : List (PN × Packet)) (sdisc : List Frame) (n : Nat) :
    PRel (s.ackTail env lvl now largest sp h2 evs removed sdisc n).1 s := by
  unfold State.ackTail
  simp only []
  have k2 := setSpace_prel s lvl { sp with hist := h2, largestAcked := max sp.largestAcked largest }
  generalize s.setSpace lvl { sp with hist := h2, largestAcked := max sp.largestAcked largest } = s2 at k2 ⊢
  have k3 := detectLostPackets_prel s2 env now lvl
  cases hd : s2.detectLostPackets env now lvl with
  | mk s3 r =>
    obtain ⟨evsL, pl⟩ := r
    rw [hd] at k3
    have k : PRel s3 s := k3.trans k2
    cases pl with
    | some c => simp only []; exact k.step (PRel.of_eq rfl rfl rfl rfl)
    | none =>
      simp only []
      split
      · exact k.step (PRel.of_eq rfl rfl rfl rfl)
      · refine PRel.trans (setTimer_prel _ _ _) (k.step ?_)
        exact ⟨rfl, id, Or.inl, fun _ => Int.le_refl 0⟩

theorem ackTail_nobug (s : State) (env : Env) (lvl : Level) (now : Time) (largest : PN) (sp : Space) (h2 : Hist)
    (evs : List Ev) (removed : List (PN × Packet)) (sdisc : List Frame) (n : Nat) :
    NoBugPTO (s.ackTail env lvl now largest sp h2 evs removed sdisc n).2.res := by
  unfold State.ackTail
  simp only []
  split
  · nobug
  · split <;> nobug

theorem ackedLoop_nobug (lvl : Level) (acc : List PN) : ∀ (h : Hist) (stash : List (PN × Packet)) (evs : List Ev) (done : List (PN × Packet)),
    NoBugPTO (ackedLoop lvl acc h stash evs done).2.2.2.2 := by
  induction acc with
  | nil => intro h stash evs done; simp only [ackedLoop]; nobug
  | cons pn rest ih =>
    intro h stash evs done
    simp only [ackedLoop]
    cases hr : h.remove pn with
    | panic c => nobug
    | notFound => nobug
    | ok h' removed => simp only []; exact ih _ _ _ _

theorem ackCore_prel (s : State) (env : Env) (ranges : List Range) (lvl : Level) (now : Time) (sp : Space)
    (lowest largest : PN) : PRel (s.ackCore env ranges lvl now sp lowest largest).1 s := by
  unfold State.ackCore
  split
  · prel
  · split
    · prel
    · split
      · exact PRel.trans (b := s.setSpace lvl _) (PRel.of_eq rfl rfl rfl rfl) (setSpace_prel _ _ _)
      · split
        · exact PRel.trans (b := s.setSpace lvl _) (PRel.of_eq rfl rfl rfl rfl) (setSpace_prel _ _ _)
        · exact PRel.trans (b := s.setSpace lvl _) (PRel.of_eq rfl rfl rfl rfl) (setSpace_prel _ _ _)
        · split
          · prel
          · exact ackTail_prel _ _ _ _ _ _ _ _ _ _ _

theorem ackCore_nobug (s : State) (env : Env) (ranges : List Range) (lvl : Level) (now : Time) (sp : Space)
    (lowest largest : PN) : NoBugPTO (s.ackCore env ranges lvl now sp lowest largest).2.res := by
  unfold State.ackCore
  split
  · nobug
  · split
    · nobug
    · split
      · nobug
      · rename_i probes stash acc _
        have al := ackedLoop_nobug lvl acc { sp.hist with probes := probes } stash [] []
        split
        · nobug
        · rename_i hq; rw [hq] at al; exact al
        · split
          · nobug
          · exact ackTail_nobug _ _ _ _ _ _ _ _ _ _ _

theorem completeValidation_prel (s : State) (env : Env) (lvl : Level) (now : Time) :
    PRel (s.completeValidation env lvl now) s := by
  unfold State.completeValidation
  split
  · exact PRel.trans (setTimer_prel _ _ _) ⟨rfl, fun _ => rfl, Or.inl, id⟩
  · prel

theorem receivedAck_prel (s : State) (env : Env) (ranges : List Range) (lvl : Level) (now : Time) :
    PRel (s.receivedAck env ranges lvl now).1 s := by
  unfold State.receivedAck
  split
  · split
    · prel
    · exact PRel.trans (ackCore_prel _ _ _ _ _ _ _ _) (completeValidation_prel _ _ _ _)
  · prel
  · prel

theorem receivedAck_nobug (s : State) (env : Env) (ranges : List Range) (lvl : Level) (now : Time) :
    NoBugPTO (s.receivedAck env ranges lvl now).2.res := by
  unfold State.receivedAck
  split
  · split
    · nobug
    · exact ackCore_nobug _ _ _ _ _ _ _ _
  · nobug
  · nobug

/-! ### OnLossDetectionTimeout -/

theorem ptoSwitch_prel (s : State) (lvl : Level) (nts : PN) (evs0 : List Ev) (disc0 : List Frame) :
    PRel (s.ptoSwitch lvl nts evs0 disc0).1 s := by
  unfold State.ptoSwitch
  simp only []
  split
  · exact ⟨rfl, id, Or.inl, fun h => by simp only []; omega⟩
  · exact ⟨rfl, id, Or.inl, fun h => by simp only []; omega⟩
  · split
    · exact ⟨rfl, id, Or.inl, fun h => by simp only []; omega⟩
    · split <;> exact ⟨rfl, id, Or.inl, fun h => by simp only []; omega⟩
  · exact ⟨rfl, id, Or.inl, fun h => by simp only []; omega⟩

theorem ptoSwitch_nobug (s : State) (lvl : Level) (nts : PN) (evs0 : List Ev) (disc0 : List Frame) :
    NoBugPTO (s.ptoSwitch lvl nts evs0 disc0).2.res := by
  unfold State.ptoSwitch
  simp only []
  split
  · nobug
  · nobug
  · split
    · nobug
    · split <;> nobug
  · nobug

theorem ptoFire_prel (s : State) (env : Env) (now : Time) (nts : PN) (evs0 : List Ev) (disc0 : List Frame) :
    PRel (s.ptoFire env now nts evs0 disc0).1 s := by
  unfold State.ptoFire
  split
  · prel
  · split
    · prel
    · split
      · prel
      · exact ptoSwitch_prel _ _ _ _ _

theorem ptoFire_nobug (s : State) (env : Env) (now : Time) (nts : PN) (evs0 : List Ev) (disc0 : List Frame) :
    NoBugPTO (s.ptoFire env now nts evs0 disc0).2.res := by
  unfold State.ptoFire
  split
  · nobug
  · split
    · nobug
    · split
      · nobug
      · exact ptoSwitch_nobug _ _ _ _ _

theorem antiDeadlockProbe_prel (s : State) (evs0 : List Ev) (disc0 : List Frame) : PRel (s.antiDeadlockProbe evs0 disc0).1 s := by
  unfold State.antiDeadlockProbe
  simp only []
  split
  · exact ⟨rfl, id, Or.inl, fun h => by simp only []; omega⟩
  · split <;> exact ⟨rfl, id, Or.inl, fun h => by simp only []; omega⟩

/-- what the anti-deadlock branch does in a state that still has its Initial or Handshake space: it queues one
    probe for the Initial space if that exists, else for the Handshake space -/
theorem antiDeadlockProbe_spec (s : State) (evs0 : List Ev) (disc0 : List Frame) (h : s.initial.isSome = true ∨ s.handshake.isSome = true) :
    (s.antiDeadlockProbe evs0 disc0).2.res = .ok ∧
    (s.antiDeadlockProbe evs0 disc0).1.numProbesToSend = s.numProbesToSend + 1 ∧
    (s.antiDeadlockProbe evs0 disc0).1.ptoCount = s.ptoCount + 1 ∧
    (s.antiDeadlockProbe evs0 disc0).1.ptoMode = (if s.initial.isSome then sendPTOInitial else sendPTOHandshake) ∧
    (s.antiDeadlockProbe evs0 disc0).1.initial = s.initial ∧ (s.antiDeadlockProbe evs0 disc0).1.handshake = s.handshake ∧
    (s.antiDeadlockProbe evs0 disc0).1.app = s.app ∧ (s.antiDeadlockProbe evs0 disc0).1.bytesInFlight = s.bytesInFlight ∧
    (s.antiDeadlockProbe evs0 disc0).1.bytesSent = s.bytesSent ∧ (s.antiDeadlockProbe evs0 disc0).1.bytesReceived = s.bytesReceived ∧
    (s.antiDeadlockProbe evs0 disc0).1.peerValidated = s.peerValidated := by
  unfold State.antiDeadlockProbe
  simp only []
  split
  · rename_i hi
    exact ⟨rfl, rfl, rfl, by simp, rfl, rfl, rfl, rfl, rfl, rfl, rfl⟩
  · rename_i hi
    split
    · exact ⟨rfl, rfl, rfl, by simp, rfl, rfl, rfl, rfl, rfl, rfl, rfl⟩
    · rename_i hh
      rcases h with h | h
      · exact absurd h hi
      · exact absurd h hh

theorem timeoutMainG_prel (w : Bool) (s : State) (env : Env) (now : Time) (nts : PN) (evs0 : List Ev) (disc0 : List Frame) :
    PRel (s.timeoutMainG w env now nts evs0 disc0).1 s := by
  unfold State.timeoutMainG
  split
  · exact detectLostPackets_prel _ _ _ _
  · split
    · exact antiDeadlockProbe_prel _ _ _
    · exact ptoFire_prel _ _ _ _ _ _

/-- the anti-deadlock guard (either shape) holds only before the peer completed address validation, and then
    the Handshake space still exists: the BUG branch is not taken -/
theorem timeoutMainG_nobug (w : Bool) (s : State) (env : Env) (now : Time) (nts : PN) (evs0 : List Ev) (disc0 : List Frame)
    (hs : s.handshake = none → s.peerCompleted = true) :
    NoBugPTO (s.timeoutMainG w env now nts evs0 disc0).2.res := by
  unfold State.timeoutMainG
  split
  · simp only []
    split <;> nobug
  · split
    · rename_i hg
      have hpc : s.peerCompleted = false := by
        unfold State.antiDeadlockDue at hg
        cases w <;> simp at hg <;> simp [hg]
      have hh : s.handshake.isSome = true := by
        cases hx : s.handshake with
        | none => rw [hs hx] at hpc; exact absurd hpc (by decide)
        | some _ => rfl
      rw [(antiDeadlockProbe_spec s evs0 disc0 (Or.inr hh)).1]
      nobug
    · exact ptoFire_nobug _ _ _ _ _ _

theorem onLossDetectionTimeoutG_prel (w : Bool) (s : State) (env : Env) (now : Time) (nts : PN) :
    PRel (s.onLossDetectionTimeoutG w env now nts).1 s := by
  unfold State.onLossDetectionTimeoutG State.timeoutBodyG
  exact PRel.trans (setTimer_prel _ _ _) (PRel.trans (timeoutMainG_prel _ _ _ _ _ _ _) (PRel.of_eq rfl rfl rfl rfl))

theorem onLossDetectionTimeoutG_nobug (w : Bool) (s : State) (env : Env) (now : Time) (nts : PN)
    (hs : s.handshake = none → s.peerCompleted = true) : NoBugPTO (s.onLossDetectionTimeoutG w env now nts).2.res := by
  unfold State.onLossDetectionTimeoutG State.timeoutBodyG
  exact timeoutMainG_nobug _ _ _ _ _ _ _ hs

/-- the model's `OnLossDetectionTimeout` is the parametrised one at the guard shape of the current source -/
theorem onLossDetectionTimeout_eq (s : State) (env : Env) (now : Time) (nts : PN) :
    s.onLossDetectionTimeout env now nts = s.onLossDetectionTimeoutG antiDeadlockWhenArmed env now nts := rfl

/-- `SendMode` with a probe pending: unless amplification limited or at the tracked-packet cap, the answer is
    `ptoMode` — whatever the congestion controller and the pacer say -/
theorem sendMode_probe_pending (s : State) (canSend pacing : Bool) (hnp : s.numProbesToSend > 0)
    (ha : s.isAmplificationLimited = false)
    (ht : s.app.hist.len + optLen s.initial + optLen s.handshake < maxTrackedSentPackets) :
    s.sendMode canSend pacing = s.ptoMode := by
  unfold State.sendMode
  simp only [ha]
  rw [if_neg (by decide), if_neg (by omega), if_pos hnp]

/-- **the anti-deadlock probe is sent whenever the timer was armed for it** (guard of /repo 23a90f5): the
    handshake is not confirmed, no Initial/Handshake packet is outstanding, the peer has not completed address
    validation (the state in which `getPTOTimeAndSpace` arms the anti-deadlock PTO) and no loss timer is pending.
    Then `OnLossDetectionTimeout` queues exactly one probe for the Initial space (the Handshake space once
    Initial was dropped) — no hypothesis on `bytesInFlight`. -/
theorem timeout_probe_when_armed (s : State) (env : Env) (now : Time) (nts : PN)
    (hs : s.handshake = none → s.peerCompleted = true)
    (hc : s.handshakeConfirmed = false) (ho : s.hasOutstandingCrypto = false) (hp : s.peerCompleted = false)
    (hl : s.getLossTimeAndSpace.1 = 0) :
    s.onLossDetectionTimeoutG true env now nts =
      ((s.antiDeadlockProbe [] []).1.setTimer env now, (s.antiDeadlockProbe [] []).2) ∧ s.handshake.isSome = true := by
  have hh : s.handshake.isSome = true := by
    cases hx : s.handshake with
    | none => rw [hs hx] at hp; exact absurd hp (by decide)
    | some _ => rfl
  have hd : s.antiDeadlockDue true = true := by simp [State.antiDeadlockDue, hc, ho, hp]
  have e0 : (if s.handshakeConfirmed = true then detectLostPathProbes s.app now else (s.app, [], [])) = (s.app, [], []) := by
    simp [hc]
  refine ⟨?_, hh⟩
  unfold State.onLossDetectionTimeoutG State.timeoutBodyG
  simp only [e0]
  change (State.setTimer (State.timeoutMainG true s env now nts [] []).1 env now, (State.timeoutMainG true s env now nts [] []).2) = _
  unfold State.timeoutMainG
  rw [if_neg (by simp [hl]), if_pos hd]

/-! ### QueueProbePacket, DropPackets, ResetForRetry, MigratedPath -/

theorem queueProbePacket_prel (s : State) (lvl : Level) : PRel (s.queueProbePacket lvl).1 s := by
  unfold State.queueProbePacket
  split
  · prel
  · split
    · prel
    · split
      · prel
      · simp only []
        split
        · prel
        · exact PRel.trans (b := s.setSpace lvl _) (PRel.of_eq rfl rfl rfl rfl) (setSpace_prel _ _ _)

theorem queueProbePacket_nobug (s : State) (lvl : Level) : NoBugPTO (s.queueProbePacket lvl).2.res := by
  unfold State.queueProbePacket
  split
  · nobug
  · split
    · nobug
    · split
      · nobug
      · simp only []
        split <;> nobug

theorem afterDrop_prel (s : State) (env : Env) (now : Time) : PRel (s.afterDrop env now) s :=
  ⟨rfl, id, Or.inl, fun _ => Int.le_refl 0⟩

theorem dropPackets_prel (s : State) (env : Env) (lvl : Level) (now : Time) : PRel (s.dropPackets env lvl now).1 s := by
  unfold State.dropPackets
  simp only []
  have k0 : PRel (if s.isClient = true ∧ lvl = Level.handshake then { s with peerCompleted := true } else s) s := by
    split
    · exact ⟨rfl, fun _ => rfl, Or.inl, id⟩
    · prel
  have k1 : lvl = Level.handshake →
      (if s.isClient = true ∧ lvl = Level.handshake then ({ s with peerCompleted := true } : State) else s).isClient = false ∨
      (if s.isClient = true ∧ lvl = Level.handshake then ({ s with peerCompleted := true } : State) else s).peerCompleted = true := by
    intro hl
    cases hc : s.isClient with
    | true => right; simp [hl]
    | false => left; simp [hc]
  generalize (if s.isClient = true ∧ lvl = Level.handshake then ({ s with peerCompleted := true } : State) else s) = s0 at k0 k1 ⊢
  split
  · split
    · exact k0
    · split
      · exact k0
      · exact PRel.trans (afterDrop_prel _ _ _) (k0.step (PRel.of_eq rfl rfl rfl rfl))
  · split
    · exact k0
    · split
      · exact k0
      · refine PRel.trans (afterDrop_prel _ _ _) (k0.step ⟨rfl, id, fun _ => Or.inr (k1 rfl), id⟩)
  · split
    · exact k0.step (PRel.of_eq rfl rfl rfl rfl)
    · exact PRel.trans (afterDrop_prel _ _ _) (k0.step (PRel.of_eq rfl rfl rfl rfl))
  · exact k0

theorem dropPackets_nobug (s : State) (env : Env) (lvl : Level) (now : Time) : NoBugPTO (s.dropPackets env lvl now).2.res := by
  unfold State.dropPackets
  simp only []
  split
  · split
    · nobug
    · split <;> nobug
  · split
    · nobug
    · split <;> nobug
  · split <;> nobug
  · nobug

theorem resetForRetry_prel (s : State) (nts : PN) : PRel (s.resetForRetry nts).1 s := by
  unfold State.resetForRetry
  simp only []
  split <;> prel

theorem resetForRetry_nobug (s : State) (nts : PN) : NoBugPTO (s.resetForRetry nts).2.res := by
  unfold State.resetForRetry
  simp only []
  split <;> nobug

theorem migratedPath_prel (s : State) (env : Env) (now : Time) : PRel (s.migratedPath env now).1 s := by
  unfold State.migratedPath
  simp only []
  split
  · prel
  · exact PRel.trans (setTimer_prel _ _ _) (PRel.of_eq rfl rfl rfl rfl)

theorem migratedPath_nobug (s : State) (env : Env) (now : Time) : NoBugPTO (s.migratedPath env now).2.res := by
  unfold State.migratedPath
  simp only []
  split <;> nobug

theorem receivedBytes_prel (s : State) (env : Env) (n : Int) (t : Time) : PRel (s.receivedBytes env n t) s := by
  unfold State.receivedBytes
  simp only []
  split
  · exact PRel.trans (setTimer_prel _ _ _) (PRel.of_eq rfl rfl rfl rfl)
  · prel

theorem receivedPacket_prel (s : State) (env : Env) (l : Level) (t : Time) : PRel (s.receivedPacket env l t) s := by
  unfold State.receivedPacket
  split
  · exact PRel.trans (setTimer_prel _ _ _) (PRel.of_eq rfl rfl rfl rfl)
  · prel

/-! ### one operation, histories -/

theorem step_prel (s : State) (op : Op) (e : StepEnv) : PRel (s.step op e).1 s := by
  cases op with
  | send lvl now la size mtu probe frames sframes =>
    have kp := popPacketNumber_prel s lvl e.nts
    simp only [State.step]
    split
    · exact PRel.trans (sentPacket_prel _ _ _ _ _ _ _ _ _ _ _) kp
    · exact kp
  | ack lvl now ranges => exact receivedAck_prel _ _ _ _ _
  | timeout now => exact onLossDetectionTimeoutG_prel _ _ _ _ _
  | probe lvl => exact queueProbePacket_prel _ _
  | drop lvl now => exact dropPackets_prel _ _ _ _
  | retry => exact resetForRetry_prel _ _
  | migrate now => exact migratedPath_prel _ _ _
  | rcvBytes n now => exact receivedBytes_prel _ _ _ _
  | rcvPacket lvl now => exact receivedPacket_prel _ _ _ _

theorem step_nobug {s : State} (op : Op) (e : StepEnv) (p : PInv s) : NoBugPTO (s.step op e).2.res := by
  cases op with
  | send lvl now la size mtu probe frames sframes =>
    have kp := popPacketNumber_nobug s lvl e.nts
    simp only [State.step]
    split
    · exact sentPacket_nobug _ _ _ _ _ _ _ _ _ _ _
    · exact kp
  | ack lvl now ranges => exact receivedAck_nobug _ _ _ _ _
  | timeout now => exact onLossDetectionTimeoutG_nobug _ _ _ _ _ p.hs
  | probe lvl => exact queueProbePacket_nobug _ _
  | drop lvl now => exact dropPackets_nobug _ _ _ _
  | retry => exact resetForRetry_nobug _ _
  | migrate now => exact migratedPath_nobug _ _ _
  | rcvBytes n now => simp only [State.step]; nobug
  | rcvPacket lvl now => simp only [State.step]; nobug

theorem new_PInv (pn : PN) (val client : Bool) (nts : PN) : PInv (State.new pn val client nts) := by
  refine ⟨?_, ?_, ?_⟩
  · intro h; simp only [State.new] at h ⊢; simp [h]
  · intro h; simp [State.new] at h
  · simp [State.new]

/-- `PInv` holds in the last state of every history (`State.run` stops at the first error / panic, and the
    frame lemmas hold for every outcome), and no operation of it ended in the BUG error -/
theorem run_PInv (ops : List (Op × StepEnv)) : ∀ (s : State), PInv s → PInv (s.run ops).s ∧ NoBugPTO (s.run ops).res := by
  induction ops with
  | nil => intro s h; exact ⟨h, by simp only [State.run]; nobug⟩
  | cons x xs ih =>
    intro s h
    obtain ⟨op, e⟩ := x
    have h1 := h.of_rel (step_prel s op e)
    have h2 := step_nobug op e h
    simp only [State.run]
    cases hr : (s.step op e).2.res with
    | ok => simp only []; exact ih _ h1
    | err c => simp only []; rw [hr] at h2; exact ⟨h1, h2⟩
    | panic c => simp only []; exact ⟨h1, by nobug⟩

end Uquic.Proofs.Sent
