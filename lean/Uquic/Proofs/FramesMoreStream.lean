/-
C09 (continued) helper lemmas: the ClientHello scrambler with Writes INTERLEAVED with pops.

What `initialCryptoStream.Write` really does (crypto_stream.go): it appends to the write buffer and,
while scrambling is on and `cuts[0].start` is InvalidByteCount, runs findSNIAndECH on the WHOLE buffer
(the buffer is not resliced while scrambling). `cuts[0].start` is invalid (a) before the ClientHello
is complete and (b) again after the first cut has been sent out completely while the second is still
pending — so a Write in state (b) re-runs the analysis and re-chooses both cuts. findSNIAndECH
answers io.ErrUnexpectedEOF unless the buffer is exactly one handshake message
(`len(data) != 4+handshakeLen`), so along a history it answers at most at one buffer length, and
deterministically (`EnvDiscipline`). A pop before the ClientHello is complete (HasData is false then,
so the packer does not do it) switches scrambling off for good.

The invariant `Phase` covers the three phases: waiting for the complete ClientHello, scrambling
(`ScrInv` of FramesStream plus the ghost fact that the remaining cuts are parts of the SNI / ECH regions
of the one answer), plain stream.
-/
import Uquic.Props.C09

namespace Uquic.Proofs.StreamMore
open Uquic.Model.UQuic.Frames Uquic.Model.UQuic.Scrambler Uquic.Proofs.Stream

/-! ### `Write` re-choosing the cuts -/

/-- the cut candidates `Write` computes from findSNIAndECH's answer and the cuts already stored -/
def a0s (env : Sni) (c0s : Int) : Int := if env.sniPos ≠ -1 ∧ env.sniLen > 0 then env.sniPos + env.sniLen / 2 else c0s
def a0e (env : Sni) (c0e : Int) : Int := if env.sniPos ≠ -1 ∧ env.sniLen > 0 then env.sniPos + env.sniLen else c0e
def a1s (env : Sni) (c1s : Int) : Int := if env.echPos > 0 then env.echPos + 1 else c1s
def a1e (env : Sni) (e : Int) (c1e : Int) : Int := if env.echPos > 0 then min (env.echPos + 1 + 16) e else c1e

/-- "keep the valid cut first", then `slices.SortFunc` on two elements -/
def chooseCuts (x0s x0e x1s x1e : Int) : Int × Int × Int × Int :=
  let b0s := if x0s = -1 then x1s else x0s
  let b0e := if x0s = -1 then x1e else x0e
  let b1s := if x0s = -1 then x0s else x1s
  let b1e := if x0s = -1 then x0e else x1e
  if b1s ≠ -1 ∧ ¬ (b1s > b0s) then (b1s, b1e, b0s, b0e) else (b0s, b0e, b1s, b1e)

theorem chooseCuts_perm (x0s x0e x1s x1e : Int) :
    chooseCuts x0s x0e x1s x1e = (x0s, x0e, x1s, x1e) ∨ chooseCuts x0s x0e x1s x1e = (x1s, x1e, x0s, x0e) := by
  unfold chooseCuts
  simp only []
  by_cases h : x0s = -1 <;> simp only [h, if_true, if_false] <;> split <;> simp

theorem write_rechoose (s : CS) (p : List UInt8) (env : Sni) (hi : s.initial = true) (hs : s.scramble = true)
    (h0 : s.c0s = -1) (herr : env.err = 0) (hus : ¬ (env.sniPos = -1 ∧ env.echPos = -1))
    (hne : ¬ (a0s env s.c0s = -1 ∧ a1s env s.c1s = -1)) :
    (write s p env).1 =
      let c := chooseCuts (a0s env s.c0s) (a0e env s.c0e) (a1s env s.c1s) (a1e env (s.buf ++ p).length s.c1e)
      { s with buf := s.buf ++ p, «end» := ((s.buf ++ p).length : Int),
               c0s := c.1, c0e := c.2.1, c1s := c.2.2.1, c1e := c.2.2.2 } := by
  unfold write
  have e0 : (if env.sniPos ≠ -1 ∧ env.sniLen > 0 then env.sniPos + env.sniLen / 2 else s.c0s) = a0s env s.c0s := rfl
  have e1 : (if env.sniPos ≠ -1 ∧ env.sniLen > 0 then env.sniPos + env.sniLen else s.c0e) = a0e env s.c0e := rfl
  have e2 : (if env.echPos > 0 then env.echPos + 1 else s.c1s) = a1s env s.c1s := rfl
  have e3 : (if env.echPos > 0 then min (env.echPos + 1 + 16) ((s.buf ++ p).length : Int) else s.c1e) = a1e env (s.buf ++ p).length s.c1e := rfl
  simp only [hi, hs, Bool.not_true, Bool.or_false, Bool.false_eq_true, if_false, invalid_eq, h0, if_true, herr,
    show ¬ ((0 : Nat) = 1) by decide, show ¬ ((0 : Nat) ≠ 0) by decide, hus]
  rw [h0] at e0 hne
  simp only [e0, e1, e2, e3, hne, if_false]
  unfold chooseCuts
  generalize a0s env (-1) = x0s
  generalize a0e env s.c0e = x0e
  generalize a1s env s.c1s = x1s
  generalize a1e env (↑(s.buf ++ p).length) s.c1e = x1e
  simp only []
  by_cases hx : x0s = -1
  · simp [hx]
  · simp only [hx, if_false]
    by_cases hc : x1s ≠ -1 ∧ ¬ x1s > x0s
    · rw [if_pos hc, if_pos hc]
    · rw [if_neg hc, if_neg hc]

/-! ### pops only shrink the cuts -/

def Shrunk (cs ce cs' ce' : Int) : Prop :=
  (cs' = cs ∧ ce' = ce) ∨ cs' = -1 ∨ (cs ≠ -1 ∧ cs ≤ cs' ∧ ce' = ce)

theorem pop_cuts (s : CS) (m : Int) :
    Shrunk s.c0s s.c0e (pop s m).1.c0s (pop s m).1.c0e ∧ Shrunk s.c1s s.c1e (pop s m).1.c1s (pop s m).1.c1e := by
  unfold pop basePop Shrunk
  simp only [invalid_eq]
  by_cases h0 : s.c0s = -1 <;> by_cases h1 : s.c1s = -1 <;>
    simp only [h0, h1, ne_eq, not_true_eq_false, not_false_eq_true, if_true, if_false] <;>
    repeat' split
  all_goals simp_all
  all_goals omega

/-! ### the regions of findSNIAndECH's answer -/

def SniUsable (env : Sni) : Prop := env.sniPos ≠ -1 ∧ env.sniLen > 0

/-- second half of the SNI host name -/
def InSNI (env : Sni) (i : Int) : Prop :=
  SniUsable env ∧ env.sniPos + env.sniLen / 2 ≤ i ∧ i < env.sniPos + env.sniLen

/-- 16 bytes from the middle of the ECH extension type -/
def InECH (env : Sni) (e : Int) (i : Int) : Prop :=
  env.echPos > 0 ∧ env.echPos + 1 ≤ i ∧ i < min (env.echPos + 1 + 16) e

/-- at least one cut can be placed -/
def Usable (env : Sni) : Prop := SniUsable env ∨ env.echPos > 0

/-- findSNIAndECH's answer lies inside a buffer of `n` bytes (`Props.C09.EnvSane` by length) -/
def SaneN (n : Nat) (env : Sni) : Prop :=
  env.err = 0 ∧
  (env.sniPos = -1 ∨ (0 ≤ env.sniPos ∧ 0 ≤ env.sniLen ∧ env.sniPos + env.sniLen ≤ n)) ∧
  (env.echPos ≤ 0 ∨ env.echPos + 4 ≤ n)

theorem saneN_of_envSane {W : List UInt8} {env : Sni} (h : Uquic.Props.C09.EnvSane W env) : SaneN W.length env := h

/-- ghost invariant: whatever is left of the cuts is part of the SNI / ECH regions -/
def CutsFrom (s : CS) (env : Sni) (e : Int) : Prop :=
  ∀ i, InCut s.c0s s.c0e i ∨ InCut s.c1s s.c1e i → InSNI env i ∨ InECH env e i

theorem shrunk_inCut {cs ce cs' ce' i : Int} (h : Shrunk cs ce cs' ce') (hi : InCut cs' ce' i) : InCut cs ce i := by
  obtain ⟨h1, h2, h3⟩ := hi
  rcases h with ⟨e1, e2⟩ | e | ⟨e1, e2, e3⟩
  · subst e1 e2; exact ⟨h1, h2, h3⟩
  · exact absurd e h1
  · exact ⟨e1, by omega, by omega⟩

/-- `Write` (re-)choosing the cuts with a sane answer that allows at least one cut, in a state whose
    first cut is unset: the scrambler invariant holds with `end` = the buffer length, and the new cuts
    are parts of the SNI / ECH regions. `hsched` / `hfrom`: what was still owed before the Write lies
    in the old second cut, and that lies in the regions. -/
theorem rechoose_scr {s : CS} {W p : List UInt8} {n : Nat} {acc : List (Int × List UInt8)} {env : Sni}
    (hi : s.initial = true) (hs : s.scramble = true) (h0 : s.c0s = -1) (hbuf : s.buf = W)
    (hlen : (W ++ p).length = n) (hwo0 : 0 ≤ s.writeOffset) (hwo : s.writeOffset ≤ n)
    (hc1 : CutOk s.c1s s.c1e n) (htr : ∀ f ∈ acc, Truthful W f)
    (hsched : ∀ i : Int, 0 ≤ i → i < n → Covered acc i ∨ s.writeOffset ≤ i ∨ InCut s.c1s s.c1e i)
    (hfrom : ∀ i, InCut s.c1s s.c1e i → InSNI env i ∨ InECH env n i)
    (hsane : SaneN n env) (hus : Usable env) :
    ScrInv (write s p env).1 (W ++ p) n acc ∧ CutsFrom (write s p env).1 env n := by
  obtain ⟨herr, hsni, hech⟩ := hsane
  have hus' : ¬ (env.sniPos = -1 ∧ env.echPos = -1) := by
    rcases hus with h | h
    · intro hx; exact h.1 hx.1
    · omega
  have hsn : SniUsable env → 0 ≤ env.sniPos ∧ 0 ≤ env.sniLen / 2 ∧ env.sniLen / 2 ≤ env.sniLen ∧
      env.sniPos + env.sniLen ≤ n := by
    intro h
    rcases hsni with hx | hx
    · exact absurd hx h.1
    · have := h.2; omega
  have hne : ¬ (a0s env s.c0s = -1 ∧ a1s env s.c1s = -1) := by
    unfold a0s a1s
    rcases hus with h | h
    · have := hsn h
      rw [if_pos (show env.sniPos ≠ -1 ∧ env.sniLen > 0 from h)]; omega
    · rw [if_pos h]; omega
  have he : ((s.buf ++ p).length : Int) = (n : Int) := by rw [hbuf, hlen]
  -- the candidates
  have A0ok : CutOk (a0s env s.c0s) (a0e env s.c0e) n := by
    unfold a0s a0e
    by_cases h : env.sniPos ≠ -1 ∧ env.sniLen > 0
    · have := hsn h; rw [if_pos h, if_pos h]; right; omega
    · rw [if_neg h]; left; exact h0
  have A1ok : CutOk (a1s env s.c1s) (a1e env n s.c1e) n := by
    unfold a1s a1e
    by_cases h : env.echPos > 0
    · rw [if_pos h, if_pos h]; right; omega
    · rw [if_neg h, if_neg h]; exact hc1
  have A0in : ∀ i, InCut (a0s env s.c0s) (a0e env s.c0e) i ↔ InSNI env i := by
    intro i
    unfold a0s a0e InSNI SniUsable InCut
    by_cases h : env.sniPos ≠ -1 ∧ env.sniLen > 0
    · have := hsn h
      rw [if_pos h, if_pos h]
      constructor
      · rintro ⟨_, h2, h3⟩; exact ⟨h, h2, h3⟩
      · rintro ⟨_, h2, h3⟩; exact ⟨by omega, h2, h3⟩
    · rw [if_neg h, if_neg h]
      constructor
      · rintro ⟨h1, _, _⟩; exact absurd h0 h1
      · rintro ⟨h1, _, _⟩; exact absurd h1 h
  have A1in : ∀ i, InCut (a1s env s.c1s) (a1e env n s.c1e) i → InSNI env i ∨ InECH env n i := by
    intro i
    unfold a1s a1e
    by_cases h : env.echPos > 0
    · rw [if_pos h, if_pos h]
      rintro ⟨_, h2, h3⟩; exact Or.inr ⟨h, h2, h3⟩
    · rw [if_neg h, if_neg h]; exact hfrom i
  have A1of : ∀ i, InECH env n i ∨ InCut s.c1s s.c1e i → InSNI env i ∨ InCut (a1s env s.c1s) (a1e env n s.c1e) i := by
    intro i hx
    unfold a1s a1e
    by_cases h : env.echPos > 0
    · rw [if_pos h, if_pos h]
      rcases hx with ⟨_, h2, h3⟩ | hx
      · exact Or.inr ⟨by omega, h2, h3⟩
      · rcases hfrom i hx with hy | ⟨_, h2, h3⟩
        · exact Or.inl hy
        · exact Or.inr ⟨by omega, h2, h3⟩
    · rw [if_neg h, if_neg h]
      rcases hx with ⟨hx, _, _⟩ | hx
      · exact absurd hx h
      · exact Or.inr hx
  -- either order of the two candidates will do
  have key : ∀ (c0s c0e c1s c1e : Int),
      ((c0s = a0s env s.c0s ∧ c0e = a0e env s.c0e ∧ c1s = a1s env s.c1s ∧ c1e = a1e env n s.c1e) ∨
       (c0s = a1s env s.c1s ∧ c0e = a1e env n s.c1e ∧ c1s = a0s env s.c0s ∧ c1e = a0e env s.c0e)) →
      ScrInv { s with buf := s.buf ++ p, «end» := ((s.buf ++ p).length : Int), c0s := c0s, c0e := c0e, c1s := c1s, c1e := c1e }
        (W ++ p) n acc ∧
      CutsFrom { s with buf := s.buf ++ p, «end» := ((s.buf ++ p).length : Int), c0s := c0s, c0e := c0e, c1s := c1s, c1e := c1e }
        env n := by
    intro c0s c0e c1s c1e hc
    have hcut : CutOk c0s c0e n ∧ CutOk c1s c1e n := by
      rcases hc with ⟨e1, e2, e3, e4⟩ | ⟨e1, e2, e3, e4⟩ <;> subst e1 e2 e3 e4
      · exact ⟨A0ok, A1ok⟩
      · exact ⟨A1ok, A0ok⟩
    have hin : ∀ i, InCut c0s c0e i ∨ InCut c1s c1e i ↔
        InCut (a0s env s.c0s) (a0e env s.c0e) i ∨ InCut (a1s env s.c1s) (a1e env n s.c1e) i := by
      intro i
      rcases hc with ⟨e1, e2, e3, e4⟩ | ⟨e1, e2, e3, e4⟩ <;> subst e1 e2 e3 e4
      · exact Iff.rfl
      · exact Or.comm
    refine ⟨⟨hi, hs, he, by simp only []; rw [hbuf], by omega, hwo0, hwo, hcut.1, hcut.2,
      fun f hf => (htr f hf).mono p, ?_⟩, ?_⟩
    · intro i hi0 hin'
      simp only []
      rcases hsched i hi0 hin' with h | h | h
      · exact Or.inl h
      · exact Or.inr (Or.inl h)
      · have := A1of i (Or.inr h)
        have hh : InCut c0s c0e i ∨ InCut c1s c1e i := by
          rw [hin i]
          rcases this with hx | hx
          · exact Or.inl ((A0in i).mpr hx)
          · exact Or.inr hx
        rcases hh with hh | hh
        · exact Or.inr (Or.inr (Or.inl hh))
        · exact Or.inr (Or.inr (Or.inr hh))
    · intro i hx
      have := (hin i).mp hx
      rcases this with hy | hy
      · exact Or.inl ((A0in i).mp hy)
      · exact A1in i hy
  rw [write_rechoose s p env hi hs h0 herr hus' hne]
  simp only []
  rw [he]
  rcases chooseCuts_perm (a0s env s.c0s) (a0e env s.c0e) (a1s env s.c1s) (a1e env n s.c1e) with hc | hc
  · rw [hc]
    have := key _ _ _ _ (Or.inl ⟨rfl, rfl, rfl, rfl⟩)
    rw [he] at this
    exact this
  · rw [hc]
    have := key _ _ _ _ (Or.inr ⟨rfl, rfl, rfl, rfl⟩)
    rw [he] at this
    exact this

/-! ### the waiting state -/

/-- nothing analysed, nothing popped yet: `newInitialCryptoStream(true)` plus the bytes written so far -/
def preState (W : List UInt8) : CS := { initial := true, scramble := true, buf := W }

theorem newInitial_eq : newInitial true = preState [] := rfl

theorem pre_write_eof (W p : List UInt8) (env : Sni) (herr : env.err = 1) :
    (write (preState W) p env).1 = preState (W ++ p) := by
  simp [write, preState, herr, invalid_eq]

theorem pre_write_unusable (W p : List UInt8) (env : Sni) (herr : env.err = 0) (hus : ¬ Usable env) :
    BaseRun 0 (write (preState W) p env).1 (W ++ p) [] := by
  have h1 : ¬ (env.sniPos ≠ -1 ∧ env.sniLen > 0) := fun h => hus (Or.inl h)
  have h2 : ¬ env.echPos > 0 := fun h => hus (Or.inr h)
  have key : (write (preState W) p env).1.scramble = false ∧ (write (preState W) p env).1.buf = W ++ p ∧
      (write (preState W) p env).1.writeOffset = 0 := by
    unfold write preState
    simp only [Bool.not_true, Bool.or_false, Bool.false_eq_true, if_false, invalid_eq, if_true, herr,
      show ¬ ((0 : Nat) = 1) by decide, show ¬ ((0 : Nat) ≠ 0) by decide, h1, h2]
    split
    · exact ⟨rfl, rfl, rfl⟩
    · simp
  obtain ⟨k1, k2, k3⟩ := key
  refine ⟨⟨by rw [k1]; simp, by rw [k3]; exact Int.le_refl _, by rw [k3]; omega, by rw [k2, k3]; rfl⟩, by simp, ?_⟩
  intro i hi0 hi
  rw [k3] at hi; omega

theorem pre_write_complete (W p : List UInt8) (n : Nat) (env : Sni) (hlen : (W ++ p).length = n)
    (hsane : SaneN n env) (hus : Usable env) :
    ScrInv (write (preState W) p env).1 (W ++ p) n [] ∧ CutsFrom (write (preState W) p env).1 env n :=
  rechoose_scr (s := preState W) (acc := []) rfl rfl (by simp [preState, invalid_eq]) rfl hlen (Int.le_refl _)
    (by simp [preState]) (Or.inl (by simp [preState, invalid_eq])) (by simp)
    (fun i hi0 _ => Or.inr (Or.inl hi0))
    (fun i hx => absurd (show (preState W).c1s = -1 by simp [preState, invalid_eq]) hx.1) hsane hus

/-- a pop before the ClientHello is complete: nothing is released and scrambling is switched off -/
theorem pre_pop (W : List UInt8) (m : Int) :
    ∃ s', pop (preState W) m = (s', .frame none) ∧ BaseRun 0 s' W [] := by
  refine ⟨{ preState W with «end» := invalid, scramble := false }, ?_, ?_⟩
  · have : ¬ ((W.length : Int) < 0) := by omega
    simp [pop, preState, goSlice, invalid_eq, this]
  · exact ⟨⟨by simp, by simp [preState], by simp [preState], by simp [preState]⟩, by simp, by
      intro i h1 h2; simp [preState] at h2; omega⟩

/-! ### Writes while scrambling / on a plain stream -/

theorem write_append_only (s : CS) (p : List UInt8) (env : Sni) (hi : s.initial = true) (hs : s.scramble = true)
    (h : s.c0s ≠ -1 ∨ env.err = 1) : (write s p env).1 = { s with buf := s.buf ++ p } := by
  unfold write
  simp only [hi, hs, Bool.not_true, Bool.or_false, Bool.false_eq_true, if_false, invalid_eq]
  by_cases h0 : s.c0s = -1
  · rcases h with h | h
    · exact absurd h0 h
    · rw [if_pos h0, if_pos h]
  · rw [if_neg h0]

theorem scrInv_append {s : CS} {W : List UInt8} {E : Nat} {acc : List (Int × List UInt8)} (h : ScrInv s W E acc)
    (p : List UInt8) : ScrInv { s with buf := s.buf ++ p } (W ++ p) E acc :=
  ⟨h.initial, h.scramble, h.«end», by simp only []; rw [h.buf], by have := h.eLe; simp; omega, h.woNonneg, h.woLe,
    h.cut0, h.cut1, fun f hf => (h.truthful f hf).mono p, h.sched⟩

theorem baseRun_afterWrite {s : CS} {W : List UInt8} {acc : List (Int × List UInt8)} (h : BaseRun 0 s W acc)
    (p : List UInt8) (env : Sni) : BaseRun 0 (write s p env).1 (W ++ p) acc := by
  refine ⟨h.inv.afterWrite p env, fun f hf => (h.truthful f hf).mono p, ?_⟩
  intro i h1 h2
  have e : (write s p env).1.writeOffset = s.writeOffset := by
    have hp := h.inv.plain
    unfold write; simp only []; rw [if_pos hp]
  rw [e] at h2
  exact h.cover i h1 h2

/-! ### the three phases -/

inductive Phase (n : Nat) (envCH : Sni) (s : CS) (W : List UInt8) (acc : List (Int × List UInt8)) : Prop
  /-- waiting for the complete ClientHello -/
  | pre (hs : s = preState W) (ha : acc = [])
  /-- scrambling -/
  | scr (hinv : ScrInv s W n acc) (hfrom : CutsFrom s envCH n) (hus : Usable envCH)
  /-- plain stream -/
  | plain (hrun : BaseRun 0 s W acc)

theorem phase_write {n : Nat} {envCH : Sni} (hsane : SaneN n envCH) {s : CS} {W : List UInt8}
    {acc : List (Int × List UInt8)} (h : Phase n envCH s W acc) (p : List UInt8) (env : Sni)
    (hd : if W.length + p.length = n then env = envCH else env.err = 1) :
    Phase n envCH (write s p env).1 (W ++ p) acc := by
  cases h with
  | pre hs ha =>
    subst hs ha
    by_cases hl : W.length + p.length = n
    · rw [if_pos hl] at hd
      subst hd
      by_cases hus : Usable env
      · obtain ⟨h1, h2⟩ := pre_write_complete W p n env (by simp; exact hl) hsane hus
        exact Phase.scr h1 h2 hus
      · exact Phase.plain (pre_write_unusable W p env hsane.1 hus)
    · rw [if_neg hl] at hd
      exact Phase.pre (pre_write_eof W p env hd) rfl
  | scr hinv hfrom hus =>
    by_cases hre : s.c0s = -1 ∧ W.length + p.length = n
    · obtain ⟨hc0, hl⟩ := hre
      rw [if_pos hl] at hd
      subst hd
      obtain ⟨h1, h2⟩ := rechoose_scr (s := s) (W := W) (p := p) (n := n) (acc := acc) (env := env)
        hinv.initial hinv.scramble hc0 hinv.buf (by simp; exact hl) hinv.woNonneg hinv.woLe hinv.cut1 hinv.truthful
        (by
          intro i hi0 hin
          rcases hinv.sched i hi0 hin with h | h | h | h
          · exact Or.inl h
          · exact Or.inr (Or.inl h)
          · exact absurd hc0 h.1
          · exact Or.inr (Or.inr h))
        (fun i hx => hfrom i (Or.inr hx)) hsane hus
      exact Phase.scr h1 h2 hus
    · have happ : (write s p env).1 = { s with buf := s.buf ++ p } := by
        apply write_append_only s p env hinv.initial hinv.scramble
        by_cases hc0 : s.c0s = -1
        · right
          have hl : ¬ W.length + p.length = n := fun hl => hre ⟨hc0, hl⟩
          rw [if_neg hl] at hd; exact hd
        · left; exact hc0
      rw [happ]
      exact Phase.scr (scrInv_append hinv p) hfrom hus
  | plain hrun => exact Phase.plain (baseRun_afterWrite hrun p env)

/-- one pop, in any phase: no panic, and the phase invariant is kept (with the released frame) -/
theorem phase_pop {n : Nat} {envCH : Sni} {s : CS} {W : List UInt8} {acc : List (Int × List UInt8)}
    (h : Phase n envCH s W acc) (m : Int) :
    (∃ s', pop s m = (s', .frame none) ∧ Phase n envCH s' W acc) ∨
    (∃ s' f, pop s m = (s', .frame (some f)) ∧ Phase n envCH s' W (acc ++ [f])) := by
  cases h with
  | pre hs ha =>
    subst hs ha
    obtain ⟨s', h1, h2⟩ := pre_pop W m
    exact Or.inl ⟨s', h1, Phase.plain h2⟩
  | scr hinv hfrom hus =>
    have hp := pop_scr hinv m
    have hc := pop_cuts s m
    have shrink : CutsFrom (pop s m).1 envCH n := by
      intro i hx
      apply hfrom i
      rcases hx with hx | hx
      · exact Or.inl (shrunk_inCut hc.1 hx)
      · exact Or.inr (shrunk_inCut hc.2 hx)
    revert hp shrink
    cases hpop : pop s m with
    | mk s1 out =>
      cases out with
      | panic => intro hp; exact absurd hp (by simp [PopGood])
      | frame r =>
        cases r with
        | none =>
          intro hp shrink
          simp only [PopGood] at hp
          rcases hp with hp | hp
          · exact Or.inl ⟨s1, rfl, Phase.scr hp shrink hus⟩
          · exact Or.inl ⟨s1, rfl, Phase.plain hp.run⟩
        | some f =>
          intro hp shrink
          simp only [PopGood] at hp
          rcases hp with hp | hp
          · exact Or.inr ⟨s1, f, rfl, Phase.scr hp shrink hus⟩
          · exact Or.inr ⟨s1, f, rfl, Phase.plain hp.run⟩
  | plain hrun =>
    rw [pop_plain hrun.inv.plain]
    rcases hrun.pop m with he | ⟨s1, f, he, h1⟩
    · exact Or.inl ⟨s, by rw [he], Phase.plain hrun⟩
    · exact Or.inr ⟨s1, f, by rw [he], Phase.plain h1⟩

/-- what findSNIAndECH answers along a history, `L` bytes having been written before it: ErrUnexpectedEOF
    unless the buffer is exactly the `n`-byte ClientHello (`len(data) != 4+handshakeLen`), and then
    always the same answer `envCH` -/
def EnvDiscipline (n : Nat) (envCH : Sni) : Nat → List SOp → Prop
  | _, [] => True
  | L, .write p env :: ops =>
    (if L + p.length = n then env = envCH else env.err = 1) ∧ EnvDiscipline n envCH (L + p.length) ops
  | L, .pop _ :: ops => EnvDiscipline n envCH L ops

/-- every interleaving of Writes and pops keeps the phase invariant; no pop panics -/
theorem phase_run {n : Nat} {envCH : Sni} (hsane : SaneN n envCH) : ∀ (ops : List SOp) (s : CS) (W : List UInt8)
    (acc : List (Int × List UInt8)), Phase n envCH s W acc → EnvDiscipline n envCH W.length ops →
    ∃ s' acc', runOps s ops acc = some (s', acc') ∧ Phase n envCH s' (W ++ written ops) acc' := by
  intro ops
  induction ops with
  | nil => intro s W acc h _; exact ⟨s, acc, rfl, by simpa [written] using h⟩
  | cons op ops ih =>
    intro s W acc h hd
    cases op with
    | write p env =>
      obtain ⟨hd1, hd2⟩ := hd
      have h' := phase_write hsane h p env hd1
      obtain ⟨s', acc', h1, h2⟩ := ih _ _ acc h' (by simpa using hd2)
      exact ⟨s', acc', by simpa [runOps] using h1, by simpa [written, List.append_assoc] using h2⟩
    | pop m =>
      simp only [runOps, written]
      rcases phase_pop h m with ⟨s1, he, h1⟩ | ⟨s1, f, he, h1⟩
      · rw [he]; simp only []; exact ih s1 W acc h1 hd
      · rw [he]; simp only []; exact ih s1 W _ h1 hd

end Uquic.Proofs.StreamMore
