/-
Helper lemmas for C18: any sequence of reads against the wire specification; a dead stream stays
dead; what `Stream.Write` puts on the wire.
-/
import Uquic.Proofs.H3Read

namespace Uquic.Proofs.H3
open Uquic.Model.H3 Uquic.Spec.H3Wire

theorem dead_read {s : MsgStream} (h : Dead s) (n : Nat) :
    (s.read n).2.1 = [] ∧ (s.read n).2.2 = some s.p.u.term.err ∧ Dead (s.read n).1 ∧
      (s.read n).1.p.u.term = s.p.u.term ∧ (s.read n).1.p.cc = s.p.cc := by
  obtain ⟨h0, hc, ht⟩ := h
  simp only [MsgStream.read, h0, ↓reduceIte, PState.fuel, hc, List.length_nil, Nat.zero_add, parseNext,
    readVarint_nil s.p.u hc]
  simp [Dead, Term.err, ht]

theorem dead_readMany {s : MsgStream} (h : Dead s) (ms : List Nat) : (s.readMany ms).2.1 = [] := by
  cases ms with
  | nil => rfl
  | cons n ms =>
    obtain ⟨h1, h2, _, _, _⟩ := dead_read h n
    simp only [MsgStream.readMany]
    rcases hr : s.read n with ⟨s1, d, eo⟩
    rw [hr] at h1 h2
    simp only at h1 h2
    subst h1 h2
    rfl

/-- all reads of `ns`, against the specification -/
theorem readMany_spec {mh : Nat} (ns : List Nat) :
    ∀ (s : MsgStream) (r : List Nat) (tr : Bool) (fs : List WFrame), Inv mh s r tr fs →
      (s.readMany ns).2.1 <+: r ++ (expect mh tr fs).1 ∧
      (∀ e, (s.readMany ns).2.2 = some e →
          e = (expect mh tr fs).2 ∧ (s.readMany ns).2.1 = r ++ (expect mh tr fs).1 ∧
          ((e = .eof ∨ ∃ t, e = .reserved t) → Dead (s.readMany ns).1) ∧
          ((∃ t, e = .reserved t) → (s.readMany ns).1.p.cc = some errFrameUnexpected)) ∧
      ((∀ n ∈ ns, 0 < n) → meas r fs < ns.length → (s.readMany ns).2.2.isSome) := by
  induction ns with
  | nil =>
    intro s r tr fs _
    refine ⟨by simp [MsgStream.readMany], by simp [MsgStream.readMany], ?_⟩
    intro _ h; simp at h
  | cons n ns ih =>
    intro s r tr fs h
    have st := read_step h n
    rcases hr : s.read n with ⟨s1, d, eo⟩
    rw [hr] at st
    rcases st with ⟨hnone, r', tr', fs', hinv', heq, hfin, hdec, _⟩ | ⟨e, he, hd, hrn, hE, hee, hdead, hcc⟩
    · simp only at hnone heq hinv'
      subst hnone
      obtain ⟨ih1, ih2, ih3⟩ := ih s1 r' tr' fs' hinv'
      simp only [MsgStream.readMany, hr]
      refine ⟨?_, ?_, ?_⟩
      · rw [heq]; exact (List.prefix_append_right_inj d).mpr ih1
      · intro e he
        obtain ⟨e1, e2, e3, e4⟩ := ih2 e he
        refine ⟨by rw [e1, hfin], by rw [heq, e2], e3, e4⟩
      · intro hpos hlen
        apply ih3 (fun m hm => hpos m (List.mem_cons_of_mem _ hm))
        have := hdec (Or.inl (hpos n (by simp)))
        simp only [List.length_cons] at hlen
        omega
    · simp only at he hd hdead hcc
      subst he hd
      simp only [MsgStream.readMany, hr]
      refine ⟨by simp, ?_, by simp⟩
      intro e' he'
      simp only [Option.some.injEq] at he'
      subst he'
      refine ⟨hee, by rw [hrn, hE]; rfl, hdead, hcc⟩

/-! ### the write side -/

/-- length class `quicvarint.Append` uses -/
def lkOf (v : Nat) : Nat := if v < 64 then 0 else if v < 16384 then 1 else if v < 1073741824 then 2 else 3

theorem encVarint_lkOf (v : Nat) (hv : v < 2 ^ 62) : fitsK (lkOf v) v ∧ encVarint v = encVarintK (lkOf v) v := by
  unfold lkOf encVarint
  split
  · exact ⟨⟨by omega, by simpa using ‹v < 64›⟩, rfl⟩
  · split
    · exact ⟨⟨by omega, by simp; omega⟩, rfl⟩
    · split
      · exact ⟨⟨by omega, by simp; omega⟩, rfl⟩
      · exact ⟨⟨by omega, by simp; omega⟩, rfl⟩

/-- the DATA frame `Stream.Write(w)` produces -/
def dataFrameOf (w : List Nat) : WFrame := { ty := 0, payload := w, tk := 0, lk := lkOf w.length }

theorem dataFrameOf_ok (w : List Nat) (h : w.length < 2 ^ 62) : (dataFrameOf w).ok := by
  refine ⟨⟨by simp [dataFrameOf], by simp [dataFrameOf]⟩, ?_⟩
  exact (encVarint_lkOf w.length h).1

theorem dataFrameOf_enc (w : List Nat) (h : w.length < 2 ^ 62) :
    (dataFrameOf w).enc = dataFrameHeader w.length ++ w := by
  have h1 := (encVarint_lkOf w.length h).2
  have h0 : encVarint 0 = encVarintK 0 0 := by decide
  simp [WFrame.enc, dataFrameOf, dataFrameHeader, h1, h0]

def rawBytes : WriteRec → List Nat
  | .raw bs => bs
  | .hdr _ => []

/-- everything written to the QUIC stream, as bytes (HEADERS frames excluded: QPACK is not modelled) -/
def sentBytes (s : Str) : List Nat := (s.writes.map rawBytes).flatten

/-- `Stream.Write` for each element of `ws` in turn -/
def writeAll (s : Str) (ws : List (List Nat)) : Str := ws.foldl (fun s w => (s.writeData w).1) s

theorem writeAll_bytes (ws : List (List Nat)) (hlen : ∀ w ∈ ws, w.length < 2 ^ 62) :
    ∀ (s : Str), s.st = .ok → s.m.p.cc = none →
      sentBytes (writeAll s ws) = sentBytes s ++ encFrames (ws.map dataFrameOf) := by
  induction ws with
  | nil => intro s _ _; simp [writeAll, encFrames]
  | cons w ws ih =>
    intro s hst hcc
    have hw : w.length < 2 ^ 62 := hlen w (by simp)
    have step : (s.writeData w).1 = { s with writes := s.writes ++ [.raw (dataFrameHeader w.length), .raw w] } := by
      simp [Str.writeData, Str.write, hst, hcc]
    have := ih (fun v hv => hlen v (by simp [hv])) (s.writeData w).1 (by rw [step]; exact hst) (by rw [step]; exact hcc)
    simp only [writeAll, List.foldl_cons] at this ⊢
    rw [this, step]
    simp [sentBytes, rawBytes, encFrames, dataFrameOf_enc w hw, List.append_assoc]

theorem expect_dataFrames (mh : Nat) (ws : List (List Nat)) :
    expect mh false (ws.map dataFrameOf) = (ws.flatten, .eof) := by
  induction ws with
  | nil => rfl
  | cons w ws ih =>
    have hk : kindOf (dataFrameOf w).ty = .data := by
      show kindOf 0 = .data
      decide
    simp only [List.map_cons, expect_data hk, ih, List.flatten_cons]
    rfl

end Uquic.Proofs.H3
