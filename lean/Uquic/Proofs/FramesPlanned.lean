/-
C09 helper lemmas: a pre-planned Initial flight under loss. Every byte the released flight covers
stays accounted for — in a planned datagram not yet sent, in the retransmission queue, or in a
packet that has not been declared lost — whatever is packed and whatever is lost.
-/
import Uquic.Model.UQuic.Planned
import Uquic.Proofs.FramesFlight

namespace Uquic.Proofs.Planned
open Uquic.Model.UQuic.Frames Uquic.Model.UQuic.Planned Uquic.Spec.Framing Uquic.Proofs.Frames
open Uquic.Model.UQuic.Scrambler (maxDataLen)

/-- byte position `i` lies in one of the frames -/
def CovF (fs : List (Nat × List UInt8)) (i : Nat) : Prop := ∃ f ∈ fs, f.1 ≤ i ∧ i < f.1 + f.2.length

theorem CovF_append {a b : List (Nat × List UInt8)} {i : Nat} : CovF (a ++ b) i ↔ CovF a i ∨ CovF b i := by
  simp only [CovF, List.mem_append]
  constructor
  · rintro ⟨f, hf | hf, h⟩
    · exact Or.inl ⟨f, hf, h⟩
    · exact Or.inr ⟨f, hf, h⟩
  · rintro (⟨f, hf, h⟩ | ⟨f, hf, h⟩)
    · exact ⟨f, Or.inl hf, h⟩
    · exact ⟨f, Or.inr hf, h⟩

theorem CovF_cons {f : Nat × List UInt8} {fs : List (Nat × List UInt8)} {i : Nat} :
    CovF (f :: fs) i ↔ (f.1 ≤ i ∧ i < f.1 + f.2.length) ∨ CovF fs i := by
  simp [CovF]

/-- the GetFrame loop only moves bytes from the queue into the packet: nothing is dropped, split
    frames keep their offsets -/
theorem getFrames_cov : ∀ (fuel : Nat) (budget : Int) (q fs q' : List (Nat × List UInt8)),
    getFrames fuel budget q = (fs, q') → ∀ i, CovF q i ↔ (CovF fs i ∨ CovF q' i) := by
  intro fuel
  induction fuel with
  | zero => intro budget q fs q' h i; simp [getFrames] at h; obtain ⟨rfl, rfl⟩ := h; simp [CovF]
  | succ fuel ih =>
    intro budget q fs q' h i
    cases q with
    | nil => simp [getFrames] at h; obtain ⟨rfl, rfl⟩ := h; simp [CovF]
    | cons f q =>
      simp only [getFrames] at h
      split at h
      · cases hr : getFrames fuel (budget - wireLen f) q with
        | mk fs0 q0 =>
          rw [hr] at h
          simp only [] at h
          obtain ⟨rfl, rfl⟩ := Prod.mk.inj h
          have := ih _ _ _ _ hr i
          rw [CovF_cons, CovF_cons, this]
          constructor
          · rintro (h | h | h) <;> simp [h]
          · rintro ((h | h) | h) <;> simp [h]
      · split at h
        · obtain ⟨rfl, rfl⟩ := Prod.mk.inj h; simp [CovF]
        · rename_i hn
          cases hr : getFrames fuel (budget - wireLen (f.1, f.2.take (maxDataLen f.1 budget).toNat))
              ((f.1 + (maxDataLen f.1 budget).toNat, f.2.drop (maxDataLen f.1 budget).toNat) :: q) with
          | mk fs0 q0 =>
            rw [hr] at h
            simp only [] at h
            obtain ⟨rfl, rfl⟩ := Prod.mk.inj h
            have := ih _ _ _ _ hr i
            rw [CovF_cons] at this
            rw [CovF_cons, CovF_cons]
            simp only [List.length_take, List.length_drop] at this ⊢
            constructor
            · rintro (h | h)
              · by_cases hi : i < f.1 + (maxDataLen f.1 budget).toNat
                · exact Or.inl (Or.inl ⟨h.1, by omega⟩)
                · have := this.mp (Or.inl ⟨by omega, by omega⟩)
                  rcases this with h | h
                  · exact Or.inl (Or.inr h)
                  · exact Or.inr h
              · rcases this.mp (Or.inr h) with h | h
                · exact Or.inl (Or.inr h)
                · exact Or.inr h
            · rintro ((h | h) | h)
              · exact Or.inl ⟨h.1, by omega⟩
              · rcases this.mpr (Or.inl h) with h | h
                · exact Or.inl ⟨by omega, by omega⟩
                · exact Or.inr h
              · rcases this.mpr (Or.inr h) with h | h
                · exact Or.inl ⟨by omega, by omega⟩
                · exact Or.inr h

/-- byte `i` is accounted for: in a planned datagram not yet sent, in the retransmission queue, or
    registered with a packet that has not been declared lost -/
def Accounted (s : PF) (i : Nat) : Prop :=
  (∃ u ∈ s.payloads, CovF (registeredOf u) i) ∨ CovF s.queue i ∨ (∃ fs, some fs ∈ s.sent ∧ CovF fs i)

theorem accounted_pack {s : PF} {i : Nat} (h : Accounted s i) : Accounted (pack s).1 i := by
  unfold pack
  cases hp : s.payloads with
  | cons u rest =>
    simp only []
    rcases h with ⟨v, hv, hc⟩ | h | ⟨fs, hfs, hc⟩
    · rw [hp] at hv
      rcases List.mem_cons.mp hv with rfl | hv
      · exact Or.inr (Or.inr ⟨_, by simp, hc⟩)
      · exact Or.inl ⟨v, hv, hc⟩
    · exact Or.inr (Or.inl h)
    · exact Or.inr (Or.inr ⟨fs, by simp [hfs], hc⟩)
  | nil =>
    simp only []
    have keep : ∀ (x : Option (List (Nat × List UInt8))), (∃ fs, some fs ∈ s.sent ∧ CovF fs i) →
        ∃ fs, some fs ∈ s.sent ++ [x] ∧ CovF fs i := by
      rintro x ⟨fs, hfs, hc⟩; exact ⟨fs, by simp [hfs], hc⟩
    split
    · rcases h with ⟨v, hv, _⟩ | h | h
      · rw [hp] at hv; simp at hv
      · exact Or.inr (Or.inl h)
      · exact Or.inr (Or.inr (keep _ h))
    · cases hg : getFrames (s.queue.length + (s.queue.map (·.2.length)).sum + 1) s.rb s.queue with
      | mk fs q' =>
        simp only []
        have hcov := getFrames_cov _ _ _ _ _ hg i
        split
        · rcases h with ⟨v, hv, _⟩ | h | h
          · rw [hp] at hv; simp at hv
          · exact Or.inr (Or.inl h)
          · exact Or.inr (Or.inr (keep _ h))
        · split
          · rcases h with ⟨v, hv, _⟩ | h | h
            · rw [hp] at hv; simp at hv
            · rcases hcov.mp h with h | h
              · exact Or.inr (Or.inr ⟨fs, by simp, h⟩)
              · exact Or.inr (Or.inl h)
            · exact Or.inr (Or.inr (keep _ h))
          · exact h

theorem accounted_lose {s : PF} {i : Nat} (k : Nat) (h : Accounted s i) : Accounted (lose s k).1 i := by
  unfold lose
  split
  · rename_i fs hk
    simp only []
    rcases h with h | h | ⟨gs, hgs, hc⟩
    · exact Or.inl h
    · exact Or.inr (Or.inl (CovF_append.mpr (Or.inl h)))
    · obtain ⟨j, hj, hget⟩ := List.getElem_of_mem hgs
      by_cases hjk : j = k
      · subst hjk
        have : s.sent[j]? = some (some gs) := by rw [List.getElem?_eq_getElem hj, hget]
        rw [this] at hk
        obtain rfl : gs = fs := by simpa using hk
        exact Or.inr (Or.inl (CovF_append.mpr (Or.inr hc)))
      · refine Or.inr (Or.inr ⟨gs, ?_, hc⟩)
        apply List.mem_iff_getElem.mpr
        refine ⟨j, by simpa using hj, ?_⟩
        rw [List.getElem_set_ne (by omega)]
        exact hget
  · exact h

inductive Op where
  | pack
  | lose (k : Nat)

def run : PF → List Op → PF
  | s, [] => s
  | s, .pack :: ops => run (pack s).1 ops
  | s, .lose k :: ops => run (lose s k).1 ops

theorem accounted_run : ∀ (ops : List Op) (s : PF) (i : Nat), Accounted s i → Accounted (run s ops) i := by
  intro ops
  induction ops with
  | nil => intro s i h; exact h
  | cons op ops ih =>
    intro s i h
    cases op with
    | pack => exact ih _ i (accounted_pack h)
    | lose k => exact ih _ i (accounted_lose k h)

/-! ### the released flight accounts for every byte -/

theorem chFrames_len : ∀ (fuel : Nat) (pending : Option UInt8) (rest : List UInt8)
    (acc out : List (Nat × Nat × List UInt8)), (∀ f ∈ acc, f.2.2.length ≤ f.2.1) →
    chFrames fuel pending rest acc = .ok out → ∀ f ∈ out, f.2.2.length ≤ f.2.1 := by
  intro fuel
  induction fuel with
  | zero => intro pending rest acc out hacc h; simp [chFrames] at h; subst h; exact hacc
  | succ fuel ih =>
    intro pending rest acc out hacc h
    simp only [chFrames] at h
    split at h
    · obtain rfl := ChRes.ok.inj h; exact hacc
    · split at h
      · split at h
        · obtain rfl := ChRes.ok.inj h; exact hacc
        · exact ih _ _ _ _ hacc h
      · split at h
        · exact ih _ _ _ _ hacc h
        · split at h
          · split at h
            · simp at h
            · split at h
              · simp at h
              · split at h
                · simp at h
                · split at h
                  · simp at h
                  · apply ih _ _ _ _ _ h
                    intro f hf
                    rcases List.mem_append.mp hf with hf | hf
                    · exact hacc f hf
                    · simp only [List.mem_singleton] at hf; subst hf
                      simp only [List.length_take]; omega
          · simp at h

/-- what validateInitialFlight saw is what plannedInitialPayload registers -/
theorem lenient_registered : ∀ (ps : List (List UInt8)) (rs : List (Nat × Nat)), lenientRanges ps = some rs →
    ∀ r ∈ rs, ∃ u ∈ ps, ∃ f ∈ registeredOf u, f.1 = r.1 ∧ f.2.length = r.2 := by
  intro ps
  induction ps with
  | nil => intro rs h r hr; simp [lenientRanges] at h; subst h; simp at hr
  | cons p ps ih =>
    intro rs h r hr
    simp only [lenientRanges] at h
    split at h
    · rename_i cs rs' hc hl
      obtain rfl := Option.some.inj h
      rcases List.mem_append.mp hr with hr | hr
      · obtain ⟨f, hf, rfl⟩ := List.mem_map.mp hr
        have hlen := chFrames_len _ _ _ _ _ (by simp) hc f hf
        refine ⟨p, List.mem_cons_self .., (f.1, f.2.2 ++ List.replicate (f.2.1 - f.2.2.length) 0), ?_, rfl, ?_⟩
        · simp only [registeredOf]
          have : chReadAll p = .ok cs := hc
          rw [this]
          exact List.mem_map.mpr ⟨f, hf, rfl⟩
        · simp; omega
      · obtain ⟨u, hu, f, hf, h1, h2⟩ := ih rs' hl r hr
        exact ⟨u, List.mem_cons_of_mem _ hu, f, hf, h1, h2⟩
    · simp at h

/-- a payload that is a frame sequence registers exactly the CRYPTO frames it carries: one frame per
    range, each with its own offset and bytes -/
theorem registered_is_carried {u : List UInt8} {fs : List Frame} {cs : List (Nat × Nat × List UInt8)}
    (hs : readFrames u = some fs) (hc : chReadAll u = .ok cs) : registeredOf u = cryptoOf fs := by
  have := chReadAll_strict hs hc
  simp only [registeredOf, hc, this, asLenient, List.map_map]
  conv => rhs; rw [← List.map_id (cryptoOf fs)]
  apply List.map_congr_left
  intro c _
  simp

end Uquic.Proofs.Planned
