import Uquic.Proofs.WireMoreTP4

/-! Transport parameters: the round-trip theorems (both perspectives and the session ticket). -/

set_option linter.unusedSimpArgs false
set_option linter.unusedVariables false

namespace Uquic.Proofs.WireMore
open Uquic.Proofs.Wire
open Uquic.Model.Wire Uquic.Model.Wire.Varint Uquic.Model.Wire.TP Uquic.Model.Wire.TP.RT

theorem known_ids (g : Nat) (hk : isKnownID g = false) :
    g ∉ [idBidiLocal, idBidiRemote, idUni, idInitialMaxData, idStreamsBidi, idStreamsUni, idMaxIdleTimeout,
         idMaxUDPPayloadSize, idMaxAckDelay, idAckDelayExponent, idDisableActiveMigration, idSRT, idODCID,
         idPreferredAddress, idActiveConnectionIDLimit, idISCID, idRSCID, idMaxDatagramFrameSize, idResetStreamAt,
         idMinAckDelay] := by
  obtain ⟨i0, i1, i2, i3, i4, i5, i6, i7, i8, i9, i10, i11, i12, i13, i14, i15, i16, i32, irsa, imad⟩ := tp_ids
  simp only [isKnownID, isNumericID, Bool.or_eq_false_iff, decide_eq_false_iff_not,
    i0, i1, i2, i3, i4, i5, i6, i7, i8, i9, i10, i11, i12, i13, i14, i15, i16, i32, irsa, imad] at hk
  simp only [List.mem_cons, List.not_mem_nil, or_false, not_or,
    i0, i1, i2, i3, i4, i5, i6, i7, i8, i9, i10, i11, i12, i13, i14, i15, i16, i32, irsa, imad]
  omega

theorem all_ids_nodup : [idBidiLocal, idBidiRemote, idUni, idInitialMaxData, idStreamsBidi, idStreamsUni, idMaxIdleTimeout,
         idMaxUDPPayloadSize, idMaxAckDelay, idAckDelayExponent, idDisableActiveMigration, idSRT, idODCID,
         idPreferredAddress, idActiveConnectionIDLimit, idISCID, idRSCID, idMaxDatagramFrameSize, idResetStreamAt,
         idMinAckDelay].Nodup := by decide

theorem ackDelay_norm (x : Nat) :
    (if x ≠ defaultMaxAckDelay then x / millisecond * millisecond else defaultMaxAckDelay) = x / millisecond * millisecond := by
  split
  · rfl
  · rename_i h
    have : x = defaultMaxAckDelay := by simpa using h
    subst this; decide

theorem ite_ne_self (x d : Nat) : (if x ≠ d then x else d) = x := by
  split
  · rfl
  · rename_i h
    have : x = d := by simpa using h
    exact this.symm

theorem opt_map {α β : Type} (o : Option α) (f : α → β) :
    (match o with | some t => some (f t) | none => none) = o.map f := by
  cases o <;> rfl

theorem opt_self {α : Type} (o : Option α) :
    (match o with | some t => some t | none => none) = o := by
  cases o <;> rfl

theorem tp_roundtrip_server (p : Params) (g : Nat) (gv b : Bytes) (hk : isKnownID g = false) (ht : Typed p)
    (hv : Valid p perspectiveServer) (hm : marshal p perspectiveServer g gv = some b) :
    unmarshal b perspectiveServer false = .ok (normalize p perspectiveServer) := by
  unfold marshal at hm
  simp only at hm
  split at hm
  · rename_i hfit
    injection hm with hb
    subst hb
    have hL := loopServer p g gv hk ht hv hfit
    rw [unmarshal_of_L _ _ false _ hL]
    · congr 1
      simp only [stServer, upd_p, p0, normalize, ackDelay_norm, ite_ne_self, opt_map, opt_self, Bool.or_false, if_true, true_and]
      by_cases hu : p.maxUDPPayloadSize = 0
      · simp [hu]
        refine ⟨by cases p.preferredAddress <;> rfl, by cases p.rscid <;> rfl, by cases p.srt <;> rfl,
          by cases p.maxDatagramFrameSize <;> rfl, by cases p.minAckDelay <;> rfl⟩
      · have hpos : p.maxUDPPayloadSize > 0 := by omega
        simp [hu, hpos]
        refine ⟨by cases p.preferredAddress <;> rfl, by cases p.rscid <;> rfl, by cases p.srt <;> rfl,
          by cases p.maxDatagramFrameSize <;> rfl, by cases p.minAckDelay <;> rfl⟩
    · simp only [stServer, upd_p, p0, ackDelay_norm]
      intro m hm'
      have := hv.minAck
      cases hma : p.minAckDelay with
      | none => rw [hma] at hm'; simp at hm'
      | some m0 =>
        rw [hma] at hm' this
        simp only [Option.some.injEq] at hm'
        subst hm'
        exact this
    · intro _ _; simp [stServer]
    · intro _; simp [stServer]
    · apply hasDup_false_of_nodup
      have e : (g :: [idBidiLocal, idBidiRemote, idUni, idInitialMaxData, idStreamsBidi, idStreamsUni, idMaxIdleTimeout,
         idMaxUDPPayloadSize, idMaxAckDelay, idAckDelayExponent, idDisableActiveMigration, idSRT, idODCID,
         idPreferredAddress, idActiveConnectionIDLimit, idISCID, idRSCID, idMaxDatagramFrameSize, idResetStreamAt,
         idMinAckDelay]) = ([] ++ [g] ++ [idBidiLocal] ++ [idBidiRemote] ++ [idUni] ++ [idInitialMaxData] ++ [idStreamsBidi]
        ++ [idStreamsUni] ++ [idMaxIdleTimeout] ++ [idMaxUDPPayloadSize] ++ [idMaxAckDelay] ++ [idAckDelayExponent]
        ++ [idDisableActiveMigration] ++ [idSRT] ++ [idODCID] ++ [idPreferredAddress] ++ [idActiveConnectionIDLimit]
        ++ [idISCID] ++ [idRSCID] ++ [idMaxDatagramFrameSize] ++ [idResetStreamAt] ++ [idMinAckDelay]) := by
        simp only [List.nil_append, List.cons_append]
      refine List.Nodup.sublist ?_ (List.nodup_cons.2 ⟨known_ids g hk, all_ids_nodup⟩)
      rw [e]
      simp only [stServer, upd_ids]
      repeat' first | apply List.Sublist.append | exact sub_ite _ _ | exact List.Sublist.refl _
  · simp at hm

theorem client_ids_nodup : [idBidiLocal, idBidiRemote, idUni, idInitialMaxData, idStreamsBidi, idStreamsUni, idMaxIdleTimeout,
         idMaxUDPPayloadSize, idMaxAckDelay, idAckDelayExponent, idDisableActiveMigration,
         idActiveConnectionIDLimit, idISCID, idMaxDatagramFrameSize, idResetStreamAt,
         idMinAckDelay].Nodup := by decide

theorem client_ids_sub {g : Nat} (h : g ∈ [idBidiLocal, idBidiRemote, idUni, idInitialMaxData, idStreamsBidi, idStreamsUni, idMaxIdleTimeout,
         idMaxUDPPayloadSize, idMaxAckDelay, idAckDelayExponent, idDisableActiveMigration,
         idActiveConnectionIDLimit, idISCID, idMaxDatagramFrameSize, idResetStreamAt,
         idMinAckDelay]) :
    g ∈ [idBidiLocal, idBidiRemote, idUni, idInitialMaxData, idStreamsBidi, idStreamsUni, idMaxIdleTimeout,
         idMaxUDPPayloadSize, idMaxAckDelay, idAckDelayExponent, idDisableActiveMigration, idSRT, idODCID,
         idPreferredAddress, idActiveConnectionIDLimit, idISCID, idRSCID, idMaxDatagramFrameSize, idResetStreamAt,
         idMinAckDelay] := by
  obtain ⟨i0, i1, i2, i3, i4, i5, i6, i7, i8, i9, i10, i11, i12, i13, i14, i15, i16, i32, irsa, imad⟩ := tp_ids
  simp only [List.mem_cons, List.not_mem_nil, or_false,
    i0, i1, i2, i3, i4, i5, i6, i7, i8, i9, i10, i11, i12, i13, i14, i15, i16, i32, irsa, imad] at h ⊢
  omega

theorem tp_roundtrip_client (p : Params) (g : Nat) (gv b : Bytes) (hk : isKnownID g = false) (ht : Typed p)
    (hv : Valid p perspectiveClient) (hm : marshal p perspectiveClient g gv = some b) :
    unmarshal b perspectiveClient false = .ok (normalize p perspectiveClient) := by
  unfold marshal at hm
  simp only at hm
  split at hm
  · rename_i hfit
    injection hm with hb
    subst hb
    have hL := loopClient p g gv hk ht hv hfit
    rw [unmarshal_of_L _ _ false _ hL]
    · congr 1
      simp only [stClient, upd_p, p0, normalize, ackDelay_norm, ite_ne_self, opt_map, opt_self, Bool.or_false, if_true, true_and,
        if_neg (by decide : ¬ perspectiveClient = perspectiveServer)]
      by_cases hu : p.maxUDPPayloadSize = 0
      · simp [hu]
        refine ⟨by cases p.maxDatagramFrameSize <;> rfl, by cases p.minAckDelay <;> rfl⟩
      · have hpos : p.maxUDPPayloadSize > 0 := by omega
        simp [hu, hpos]
        refine ⟨by cases p.maxDatagramFrameSize <;> rfl, by cases p.minAckDelay <;> rfl⟩
    · simp only [stClient, upd_p, p0, ackDelay_norm]
      intro m hm'
      have := hv.minAck
      cases hma : p.minAckDelay with
      | none => rw [hma] at hm'; simp at hm'
      | some m0 =>
        rw [hma] at hm' this
        simp only [Option.some.injEq] at hm'
        subst hm'
        exact this
    · intro _ h; exact absurd h (by decide)
    · intro _; simp [stClient]
    · apply hasDup_false_of_nodup
      have e : (g :: [idBidiLocal, idBidiRemote, idUni, idInitialMaxData, idStreamsBidi, idStreamsUni, idMaxIdleTimeout,
         idMaxUDPPayloadSize, idMaxAckDelay, idAckDelayExponent, idDisableActiveMigration,
         idActiveConnectionIDLimit, idISCID, idMaxDatagramFrameSize, idResetStreamAt,
         idMinAckDelay]) = ([] ++ [g] ++ [idBidiLocal] ++ [idBidiRemote] ++ [idUni] ++ [idInitialMaxData] ++ [idStreamsBidi]
        ++ [idStreamsUni] ++ [idMaxIdleTimeout] ++ [idMaxUDPPayloadSize] ++ [idMaxAckDelay] ++ [idAckDelayExponent]
        ++ [idDisableActiveMigration] ++ [idActiveConnectionIDLimit]
        ++ [idISCID] ++ [idMaxDatagramFrameSize] ++ [idResetStreamAt] ++ [idMinAckDelay]) := by
        simp only [List.nil_append, List.cons_append]
      refine List.Nodup.sublist ?_ (List.nodup_cons.2 ⟨fun hmem => known_ids g hk (client_ids_sub hmem), client_ids_nodup⟩)
      rw [e]
      simp only [stClient, upd_ids]
      repeat' first | apply List.Sublist.append | exact sub_ite _ _ | exact List.Sublist.refl _
  · simp at hm

theorem ticket_ids_nodup : [idBidiLocal, idBidiRemote, idUni, idInitialMaxData, idStreamsBidi, idStreamsUni,
    idActiveConnectionIDLimit, idMaxDatagramFrameSize, idResetStreamAt].Nodup := by decide

theorem tp_roundtrip_ticket (p : Params) (b : Bytes) (hv : ValidTicket p) (hm : marshalForSessionTicket p = some b) :
    unmarshalFromSessionTicket b = .ok (normalizeTicket p) := by
  unfold marshalForSessionTicket at hm
  split at hm
  · rename_i hfit
    injection hm with hb
    subst hb
    have hL := loopTicket p hv hfit
    have hver : marshalingVersion ≤ maxVarInt8 := by decide
    unfold unmarshalFromSessionTicket
    rw [ticketItems_eq, itemsBytes_append, itemsBytes_v, itemsBytes_nil, List.append_nil, parse_enc _ hver]
    simp only [ne_eq, not_true_eq_false, if_false, drop_enc _ hver]
    rw [unmarshal_of_L _ _ true _ hL]
    · congr 1
      simp only [stTicket, upd_p, p0, normalizeTicket, Bool.or_false]
      simp
      cases p.maxDatagramFrameSize <;> rfl
    · simp only [stTicket, upd_p, p0]
      intro m hm'
      simp at hm'
    · intro h; simp at h
    · intro h; simp at h
    · apply hasDup_false_of_nodup
      have e : [idBidiLocal, idBidiRemote, idUni, idInitialMaxData, idStreamsBidi, idStreamsUni,
          idActiveConnectionIDLimit, idMaxDatagramFrameSize, idResetStreamAt] =
          ([] ++ [idBidiLocal] ++ [idBidiRemote] ++ [idUni] ++ [idInitialMaxData] ++ [idStreamsBidi] ++ [idStreamsUni]
            ++ [idActiveConnectionIDLimit] ++ [idMaxDatagramFrameSize] ++ [idResetStreamAt]) := by
        simp only [List.nil_append, List.cons_append]
      refine List.Nodup.sublist ?_ ticket_ids_nodup
      rw [e]
      simp only [stTicket, upd_ids]
      repeat' first | apply List.Sublist.append | exact sub_ite _ _ | exact List.Sublist.refl _
  · simp at hm

/-! ### the greased parameter, and the length of what is written -/

/-- the id `27 + 31·r` of the greased parameter (`r` a random byte) is never one `unmarshal` interprets -/
theorem grease_unknown (r0 : Nat) (h : r0 < 256) : isKnownID (greaseID r0) = false := by
  obtain ⟨i0, i1, i2, i3, i4, i5, i6, i7, i8, i9, i10, i11, i12, i13, i14, i15, i16, i32, irsa, imad⟩ := tp_ids
  simp only [isKnownID, isNumericID, greaseID, Bool.or_eq_false_iff, decide_eq_false_iff_not,
    i0, i1, i2, i3, i4, i5, i6, i7, i8, i9, i10, i11, i12, i13, i14, i15, i16, i32, irsa, imad]
  omega

theorem itemsBytes_length : ∀ (l : List Item), itemsFit l = true → (itemsBytes l).length = itemsLen l
  | [], _ => rfl
  | .v x :: l, h => by
    rw [itemsFit_v, Bool.and_eq_true, fits_iff] at h
    rw [itemsBytes_v, List.length_append, len_enc x h.1, itemsBytes_length l h.2]; rfl
  | .raw b :: l, h => by
    rw [itemsFit_raw] at h
    rw [itemsBytes_raw, List.length_append, itemsBytes_length l h]; rfl

end Uquic.Proofs.WireMore
