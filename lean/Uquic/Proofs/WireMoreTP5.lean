import Uquic.Proofs.WireMoreTP4

/-! Transport parameters: the round-trip theorems (both perspectives and the session ticket). -/

set_option linter.unusedSimpArgs false
set_option linter.unusedVariables false

namespace Uquic.Proofs.Wire
open Uquic.Model.Wire Uquic.Model.Wire.Varint Uquic.Model.Wire.TP

theorem known_ids (g : Nat) (hk : isKnownID g = false) :
    g ∉ [idBidiLocal, idBidiRemote, idUni, idInitialMaxData, idStreamsBidi, idStreamsUni, idMaxIdleTimeout,
         idMaxUDPPayloadSize, idMaxAckDelay, idAckDelayExponent, idDisableActiveMigration, idSRT, idODCID,
         idPreferredAddress, idActiveConnectionIDLimit, idISCID, idRSCID, idMaxDatagramFrameSize, idResetStreamAt,
         idMinAckDelay] := by
  obtain ⟨i0, i1, i2, i3, i4, i5, i6, i7, i8, i9, i10, i11, i12, i13, i14, i15, i16, i32, irsa, imad⟩ := tp_ids
  simp only [isKnownID, isNumericID, Bool.or_eq_false_iff, decide_eq_false_iff_not,
    i0, i1, i2, i3, i4, i5, i6, i7, i8, i9, i10, i11, i12, i13, i14, i15, i16, i32, irsa, imad] at hk
  simp only [List.mem_cons, List.not_mem_nil, or_false, not_or,
    i0, i1, i2, i3, i4, i5, i6, i7, i8, i9, i10, i11, i12, i13, i14, i15, i16, i32, irsa, imad]
  omega

theorem all_ids_nodup : [idBidiLocal, idBidiRemote, idUni, idInitialMaxData, idStreamsBidi, idStreamsUni, idMaxIdleTimeout,
         idMaxUDPPayloadSize, idMaxAckDelay, idAckDelayExponent, idDisableActiveMigration, idSRT, idODCID,
         idPreferredAddress, idActiveConnectionIDLimit, idISCID, idRSCID, idMaxDatagramFrameSize, idResetStreamAt,
         idMinAckDelay].Nodup := by decide

theorem ackDelay_norm (x : Nat) :
    (if x ≠ defaultMaxAckDelay then x / millisecond * millisecond else defaultMaxAckDelay) = x / millisecond * millisecond := by
  split
  · rfl
  · rename_i h
    have : x = defaultMaxAckDelay := by simpa using h
    subst this; decide

theorem ite_ne_self (x d : Nat) : (if x ≠ d then x else d) = x := by
  split
  · rfl
  · rename_i h
    have : x = d := by simpa using h
    exact this.symm

theorem opt_map {α β : Type} (o : Option α) (f : α → β) :
    (match o with | some t => some (f t) | none => none) = o.map f := by
  cases o <;> rfl

theorem opt_self {α : Type} (o : Option α) :
    (match o with | some t => some t | none => none) = o := by
  cases o <;> rfl

theorem tp_roundtrip_server (p : Params) (g : Nat) (gv b : Bytes) (hk : isKnownID g = false) (ht : Typed p)
    (hv : Valid p perspectiveServer) (hm : marshal p perspectiveServer g gv = some b) :
    unmarshal b perspectiveServer false = .ok (normalize p perspectiveServer) := by
  unfold marshal at hm
  simp only at hm
  split at hm
  · rename_i hfit
    injection hm with hb
    subst hb
    have hL := loopServer p g gv hk ht hv hfit
    rw [unmarshal_of_L _ _ false _ hL]
    · congr 1
      simp only [stServer, upd_p, p0, normalize, ackDelay_norm, ite_ne_self, opt_map, opt_self, Bool.or_false, if_true, true_and]
      by_cases hu : p.maxUDPPayloadSize = 0
      · simp [hu]
        refine ⟨by cases p.preferredAddress <;> rfl, by cases p.rscid <;> rfl, by cases p.srt <;> rfl,
          by cases p.maxDatagramFrameSize <;> rfl, by cases p.minAckDelay <;> rfl⟩
      · have hpos : p.maxUDPPayloadSize > 0 := by omega
        simp [hu, hpos]
        refine ⟨by cases p.preferredAddress <;> rfl, by cases p.rscid <;> rfl, by cases p.srt <;> rfl,
          by cases p.maxDatagramFrameSize <;> rfl, by cases p.minAckDelay <;> rfl⟩
    · simp only [stServer, upd_p, p0, ackDelay_norm]
      intro m hm'
      have := hv.minAck
      cases hma : p.minAckDelay with
      | none => rw [hma] at hm'; simp at hm'
      | some m0 =>
        rw [hma] at hm' this
        simp only [Option.some.injEq] at hm'
        subst hm'
        exact this
    · intro _ _; simp [stServer]
    · intro _; simp [stServer]
    · apply hasDup_false_of_nodup
      have e : (g :: [idBidiLocal, idBidiRemote, idUni, idInitialMaxData, idStreamsBidi, idStreamsUni, idMaxIdleTimeout,
         idMaxUDPPayloadSize, idMaxAckDelay, idAckDelayExponent, idDisableActiveMigration, idSRT, idODCID,
         idPreferredAddress, idActiveConnectionIDLimit, idISCID, idRSCID, idMaxDatagramFrameSize, idResetStreamAt,
         idMinAckDelay]) = ([] ++ [g] ++ [idBidiLocal] ++ [idBidiRemote] ++ [idUni] ++ [idInitialMaxData] ++ [idStreamsBidi]
        ++ [idStreamsUni] ++ [idMaxIdleTimeout] ++ [idMaxUDPPayloadSize] ++ [idMaxAckDelay] ++ [idAckDelayExponent]
        ++ [idDisableActiveMigration] ++ [idSRT] ++ [idODCID] ++ [idPreferredAddress] ++ [idActiveConnectionIDLimit]
        ++ [idISCID] ++ [idRSCID] ++ [idMaxDatagramFrameSize] ++ [idResetStreamAt] ++ [idMinAckDelay]) := by
        simp only [List.nil_append, List.cons_append]
      refine List.Nodup.sublist ?_ (List.nodup_cons.2 ⟨known_ids g hk, all_ids_nodup⟩)
      rw [e]
      simp only [stServer, upd_ids]
      repeat' first | apply List.Sublist.append | exact sub_ite _ _ | exact List.Sublist.refl _
  · simp at hm

end Uquic.Proofs.Wire
