/-
C01 (glue): the framer keeps a stream registered as long as the stream says it has more data, and the
SendStream model says so whenever something is left to send.
-/
import Uquic.Model.Stream.Framer
import Uquic.Proofs.SendSteps

namespace Uquic.Proofs.Framer
open Uquic.Model.Stream.Framer

inductive FOp where
  | add (id : Nat)                 -- AddActiveStream (onHasStreamData)
  | remove (id : Nat)              -- RemoveActiveStream (onStreamCompleted)
  | next (answer : Nat → Bool)     -- getNextStreamFrame; `answer id` = what stream `id` says about hasMoreData

def fstep (s : FState) : FOp → FState
  | .add id => addActive s id
  | .remove id => removeActive s id
  | .next ans => match s.queue with
    | [] => s
    | id :: _ => (getNext s (ans id)).1

def frun (s : FState) (ops : List FOp) : FState := ops.foldl fstep s

/-- every registered stream is in the round-robin queue -/
def QInv (s : FState) : Prop := ∀ id, id ∈ s.active → id ∈ s.queue

theorem qinv_step {s : FState} (h : QInv s) (op : FOp) : QInv (fstep s op) := by
  cases op with
  | add id =>
    simp only [fstep, addActive]
    split
    · exact h
    · intro x hx
      simp only [List.mem_cons] at hx
      rcases hx with rfl | hx
      · simp
      · simp [h x hx]
  | remove id =>
    intro x hx
    simp only [fstep, removeActive, List.mem_filter] at hx
    exact h x hx.1
  | next ans =>
    simp only [fstep]
    cases hq : s.queue with
    | nil => simpa [hq] using h
    | cons id rest =>
      simp only [getNext, hq]
      by_cases hc : s.active.contains id = true
      · simp only [hc, Bool.not_true, Bool.false_eq_true, ↓reduceIte]
        split
        · intro x hx
          have := h x hx
          rw [hq] at this
          rcases List.mem_cons.mp this with rfl | hr
          · simp
          · simp [hr]
        · intro x hx
          simp only [List.mem_filter, bne_iff_ne, ne_eq, decide_eq_true_eq] at hx
          have := h x hx.1
          rw [hq] at this
          rcases List.mem_cons.mp this with rfl | hr
          · exact absurd rfl hx.2
          · exact hr
      · simp only [hc, Bool.not_false, ↓reduceIte]
        intro x hx
        have := h x hx
        rw [hq] at this
        rcases List.mem_cons.mp this with rfl | hr
        · simp only [List.contains_iff_mem] at hc; exact absurd hx hc
        · exact hr

theorem qinv_run {s : FState} (h : QInv s) (ops : List FOp) : QInv (frun s ops) := by
  induction ops generalizing s with
  | nil => exact h
  | cons op rest ih => exact ih (qinv_step h op)

/-- a registered stream stays registered across a step that is not its removal and in which it answers
    "more data" if polled -/
theorem active_step {s : FState} {k : Nat} (hk : k ∈ s.active) (op : FOp)
    (hrem : op ≠ .remove k) (hans : ∀ ans, op = .next ans → ans k = true) : k ∈ (fstep s op).active := by
  cases op with
  | add id =>
    simp only [fstep, addActive]
    split
    · exact hk
    · simp [hk]
  | remove id =>
    simp only [fstep, removeActive, List.mem_filter, bne_iff_ne, ne_eq, decide_eq_true_eq]
    exact ⟨hk, fun h => hrem (by rw [h])⟩
  | next ans =>
    have ha := hans ans rfl
    simp only [fstep]
    cases hq : s.queue with
    | nil => exact hk
    | cons id rest =>
      simp only [getNext, hq]
      split
      · exact hk
      · split
        · exact hk
        · rename_i hm
          simp only [List.mem_filter, bne_iff_ne, ne_eq]
          refine ⟨hk, fun h => ?_⟩
          rw [h] at ha; exact hm ha

end Uquic.Proofs.Framer

namespace Uquic.Proofs.Send
open Uquic.Model.Stream.Send Uquic.Spec.SendRun

/-- something is left to send on this stream -/
def Pending (s : State) : Prop :=
  s.dataForWriting ≠ [] ∨ s.nextFrame.isSome = true ∨ s.retransQ ≠ [] ∨ (s.finishedWriting = true ∧ s.finSent = false)

/-- `popNewStreamFrame` says "no more data" only when nothing is buffered any more (and, when it built the
    frame directly from `dataForWriting`, the stream is not closed) -/
theorem popNew_more (s : State) (mb mdl : Nat) (hne : ¬(s.dataForWriting = [] ∧ s.nextFrame = none))
    (hm : (popNewStreamFrame s mb mdl).2.2 = false) :
    (popNewStreamFrame s mb mdl).1.dataForWriting = [] ∧ (popNewStreamFrame s mb mdl).1.nextFrame = none ∧
    (popNewStreamFrame s mb mdl).2.1.isSome = true ∧
    (s.nextFrame = none → s.finishedWriting = false) := by
  unfold popNewStreamFrame at hm ⊢
  cases hn : s.nextFrame with
  | some nf =>
    simp only [hn] at hm ⊢
    by_cases h0 : min mdl (nf.maxDataLen s.sid mb) = 0
    · simp [h0] at hm
    · simp only [h0, ↓reduceIte] at hm ⊢
      by_cases hlt : nf.data.length > min mdl (nf.maxDataLen s.sid mb)
      · simp [hlt] at hm
      · simp only [hlt, ↓reduceIte] at hm ⊢
        simp only [Bool.not_eq_eq_eq_not, Bool.not_false, List.isEmpty_iff] at hm
        exact ⟨hm, trivial, rfl, fun h => by simp at h⟩
  | none =>
    have hd : s.dataForWriting ≠ [] := fun h => hne ⟨h, hn⟩
    simp only [hn] at hm ⊢
    by_cases h0 : Frame.maxDataLen s.sid { offset := s.writeOffset, data := [], fin := false, dataLenPresent := true } mb = 0
    · simp [h0, hd] at hm
    · simp only [h0, ↓reduceIte] at hm ⊢
      by_cases hall : s.dataForWriting.length ≤ min (Frame.maxDataLen s.sid { offset := s.writeOffset, data := [], fin := false, dataLenPresent := true } mb) mdl
      · simp only [hall, ↓reduceIte] at hm ⊢
        have he : s.dataForWriting.isEmpty = false := by simp [hd]
        simp only [he, Bool.false_and, Bool.false_eq_true, ↓reduceIte] at hm ⊢
        simp only [List.isEmpty_nil, Bool.not_true, hn, Option.isSome_none, Bool.false_or, Bool.or_self] at hm
        exact ⟨trivial, trivial, rfl, fun _ => hm⟩
      · -- part of dataForWriting stays: the answer is "more data"
        simp only [hall, ↓reduceIte] at hm
        exfalso
        have hrest : (s.dataForWriting.drop (min (Frame.maxDataLen s.sid { offset := s.writeOffset, data := [], fin := false, dataLenPresent := true } mb) mdl)).isEmpty = false := by
          simp only [List.isEmpty_eq_false_iff, ne_eq, List.drop_eq_nil_iff]; omega
        split at hm <;> (split at hm <;> simp [hrest] at hm)

theorem popNew_keeps (s : State) (mb mdl : Nat) :
    (popNewStreamFrame s mb mdl).1.resetErr = s.resetErr ∧ (popNewStreamFrame s mb mdl).1.finishedWriting = s.finishedWriting ∧
    (popNewStreamFrame s mb mdl).1.finSent = s.finSent ∧ (popNewStreamFrame s mb mdl).1.retransQ = s.retransQ := by
  unfold popNewStreamFrame
  cases s.nextFrame with
  | some nf => simp only; split <;> (try split) <;> exact ⟨rfl, rfl, rfl, rfl⟩
  | none =>
    simp only
    split
    · split <;> exact ⟨rfl, rfl, rfl, rfl⟩
    · split
      · split <;> exact ⟨rfl, rfl, rfl, rfl⟩
      · split <;> (split <;> exact ⟨rfl, rfl, rfl, rfl⟩)

/-- On a live stream, `popStreamFrame` answers "no more data" only when nothing is left to send: no
    buffered data, no queued retransmission, no unsent FIN. (So the framer, which drops a stream exactly when it
    answers "no more data", never drops a stream that still has something to send.) -/
theorem popInner_hasMore_sound (s : State) (mb win : Nat) (nb : Bool) (hl : Live s)
    (hm : (popInner s mb win nb).2.hasMore = false) : ¬ Pending (popInner s mb win nb).1 := by
  unfold popInner at hm ⊢
  simp only [hl.2, hl.1, Bool.false_eq_true, ↓reduceIte, Option.isSome_none, Bool.false_and] at hm ⊢
  cases hq : s.retransQ with
  | cons g rest =>
    simp only [hq, List.isEmpty_cons, Bool.not_false, ↓reduceIte, maybeGetRetransmission] at hm
    rcases hsp : g.maybeSplitOff s.sid mb with ⟨new, f', b⟩
    rw [hsp] at hm
    cases b <;> cases new <;> simp at hm
  | nil =>
    simp only [hq, List.isEmpty_nil, Bool.not_true, Bool.false_eq_true, ↓reduceIte] at hm ⊢
    by_cases he : s.dataForWriting = [] ∧ s.nextFrame = none
    · obtain ⟨hd, hn⟩ := he
      simp only [hd, hn, List.isEmpty_nil, Option.isNone_none, Bool.and_self, ↓reduceIte] at hm ⊢
      by_cases hf : s.finishedWriting = true ∧ s.finSent = false
      · simp only [hf.1, hf.2, Bool.not_false, Bool.and_self, ↓reduceIte]
        simp [Pending, hd, hn, hq]
      · have : (s.finishedWriting && !s.finSent) = false := by
          cases h1 : s.finishedWriting <;> cases h2 : s.finSent <;> simp_all
        simp only [this, Bool.false_eq_true, ↓reduceIte]
        simp only [Pending, hd, hn, hq, ne_eq, not_true_eq_false, Option.isSome_none, Bool.false_eq_true, false_or]
        exact hf
    · have : (s.dataForWriting.isEmpty && s.nextFrame.isNone) = false := by
        cases h1 : s.dataForWriting <;> cases h2 : s.nextFrame <;> simp_all
      simp only [this, Bool.false_eq_true, ↓reduceIte] at hm ⊢
      by_cases hw : win = 0
      · simp [hw] at hm
      · simp only [hw, ↓reduceIte] at hm ⊢
        have hx := popNew_more s mb win he
        rcases hp : popNewStreamFrame s mb win with ⟨s1, fo, more⟩
        rw [hp] at hm hx
        simp only at hx
        cases fo with
        | none =>
          simp only at hm
          have := (hx hm).2.2.1
          simp at this
        | some f0 =>
          simp only at hm ⊢
          obtain ⟨k1, k2, k3, k4⟩ := popNew_keeps s mb win
          rw [hp] at k1 k2 k3 k4
          simp only at k1 k2 k3 k4
          have hr1 : s1.resetErr.isSome = false := by rw [k1, hl.1]; rfl
          simp only [hr1, Bool.false_and, Bool.false_eq_true, ↓reduceIte] at hm
          obtain ⟨hd1, hn1, _, hfw⟩ := hx hm
          have hrn : s1.resetErr.isNone = true := by rw [k1, hl.1]; rfl
          simp only [hd1, hn1, List.isEmpty_nil, Option.isNone_none, Bool.and_true, hrn, k2, k3]
          intro hp'
          cases hfwv : s.finishedWriting <;> cases hfsv : s.finSent <;>
            simp [Pending, hd1, hn1, k4, hq, k2, k3, hfwv, hfsv] at hp'

theorem pop_hasMore_sound (s : State) (mb win : Nat) (nb : Bool) (hl : Live s)
    (hm : (pop s mb win nb).2.hasMore = false) : ¬ Pending (pop s mb win nb).1 := by
  have hsnd : (pop s mb win nb).2 = (popInner s mb win nb).2 := by
    unfold pop
    rcases hp : popInner s mb win nb with ⟨s1, out⟩
    simp only
    cases out.frame <;> rfl
  rw [hsnd] at hm
  have h := popInner_hasMore_sound s mb win nb hl hm
  unfold pop
  rcases hp : popInner s mb win nb with ⟨s1, out⟩
  rw [hp] at h
  simp only at h ⊢
  cases out.frame with
  | none => exact h
  | some f => exact h

end Uquic.Proofs.Send

namespace Uquic.Proofs.Framer
open Uquic.Model.Stream.Framer

/-- over a whole history: once registered, a stream that is never removed and answers "more data" whenever
    it is polled stays registered and queued -/
theorem registered_stays {s : FState} {k : Nat} (hq : QInv s) (hk : k ∈ s.active) (ops : List FOp)
    (hops : ∀ op ∈ ops, op ≠ .remove k ∧ ∀ ans, op = .next ans → ans k = true) :
    k ∈ (frun s ops).active ∧ k ∈ (frun s ops).queue := by
  induction ops generalizing s with
  | nil => exact ⟨hk, hq k hk⟩
  | cons op rest ih =>
    have h1 := hops op (by simp)
    exact ih (qinv_step hq op) (active_step hk op h1.1 h1.2) (fun o ho => hops o (by simp [ho]))

end Uquic.Proofs.Framer
