/-
C03: the interval arithmetic of `push` — what the stage functions compute, independent of the queue.
-/
import Uquic.Proofs.SorterSweep

namespace Uquic.Proofs.Sorter
open Uquic.Model.Reassembly

/-- what remains of startGap left of `a` -/
def remL (sg : Gap) (a : Nat) : List Gap := if sg.1 < a then [(sg.1, a)] else []
/-- what remains of endGap right of `b` -/
def remR (eg : Gap) (b : Nat) : List Gap := if b < eg.2 then [(b, eg.2)] else []

/-! ### projections of the stage functions -/

theorem loopCut_data (lp : LoopOut) (d : Bytes) (start en : Nat) :
    (loopCut lp d start en).1 = if lp.stop = .cut then d.take (lp.pos - start) else d := by
  unfold loopCut; split <;> rfl

theorem loopCut_end (lp : LoopOut) (d : Bytes) (start en : Nat) :
    (loopCut lp d start en).2.1 = if lp.stop = .cut then lp.pos else en := by
  unfold loopCut; split <;> rfl

theorem frontCut_data (sIn hr : Bool) (sg : Gap) (d : Bytes) (start : Nat) (wc : Bool) :
    (frontCut sIn hr sg d start wc).1 = if sIn = false ∧ hr = false then d.drop (sg.1 - start) else d := by
  unfold frontCut; split <;> rfl

theorem frontCut_start (sIn hr : Bool) (sg : Gap) (d : Bytes) (start : Nat) (wc : Bool) :
    (frontCut sIn hr sg d start wc).2.1 = if sIn = false ∧ hr = false then sg.1 else start := by
  unfold frontCut; split <;> rfl

theorem startGapUpdate_fst (sg : Gap) (a en1 : Nat) (hr : Bool) :
    (startGapUpdate sg a en1 hr).1 =
      if a ≤ sg.1 then (if en1 ≥ sg.2 then [] else [(en1, sg.2)]) else if hr = false then [(sg.1, a)] else [sg] := by
  unfold startGapUpdate; split <;> (try split) <;> rfl

theorem startGapUpdate_snd (sg : Gap) (a en1 : Nat) (hr : Bool) :
    (startGapUpdate sg a en1 hr).2 = (decide (sg.1 < a) && !hr) := by
  unfold startGapUpdate
  split
  · have : ¬ sg.1 < a := by omega
    simp [this]
  · split <;> simp_all <;> omega

theorem backCut_data (eIn : Bool) (egEnd : Nat) (d : Bytes) (a en1 : Nat) (wc : Bool) :
    (backCut eIn egEnd d a en1 wc).1 = if eIn = false ∧ a ≠ egEnd ∧ en1 > egEnd then d.take (egEnd - a) else d := by
  unfold backCut; split <;> rfl

theorem backCut_end (eIn : Bool) (egEnd : Nat) (d : Bytes) (a en1 : Nat) (wc : Bool) :
    (backCut eIn egEnd d a en1 wc).2.1 = if eIn = false ∧ a ≠ egEnd ∧ en1 > egEnd then egEnd else en1 := by
  unfold backCut; split <;> rfl

theorem endGapUpdate_app (eq adj : Bool) (b egEnd sgEnd : Nat) (rest' : List Gap) :
    (endGapUpdate eq adj b egEnd sgEnd rest').1 ++ (endGapUpdate eq adj b egEnd sgEnd rest').2 =
      if b = egEnd then (if eq then rest' else rest'.tail)
      else if eq = true ∧ adj = true then (b, sgEnd) :: rest'
      else if eq = false then (match rest' with | [] => [] | g :: gs => (b, g.2) :: gs)
      else rest' := by
  unfold endGapUpdate
  split
  · split <;> simp
  · split
    · simp
    · split
      · split <;> simp
      · simp

/-! ### the new gap list, `startGap = endGap` -/

theorem shape_eq (sg : Gap) (rest : List Gap) (a en1 en b : Nat) (hr eIn : Bool)
    (hsg : sg.1 < sg.2)
    (hF : (sg.1 ≤ a ∧ a < sg.2 ∧ hr = false ∧ en1 = en) ∨ (a = sg.2 ∧ hr = true ∧ sg.2 < en1 ∧ en1 ≤ en ∧ eIn = false) ∨
          (a < sg.1 ∧ hr = true ∧ en1 = en))
    (hen : sg.1 < en) (haen : a < en1)
    (hin : eIn = true → en < sg.2) (hout : eIn = false → sg.2 ≤ en)
    (hb : b = if eIn = false ∧ a ≠ sg.2 ∧ en1 > sg.2 then sg.2 else en1) :
    (startGapUpdate sg a en1 hr).1 ++
      ((endGapUpdate true (startGapUpdate sg a en1 hr).2 b sg.2 sg.2 rest).1 ++
       (endGapUpdate true (startGapUpdate sg a en1 hr).2 b sg.2 sg.2 rest).2)
      = remL sg a ++ remR sg b ++ rest ∧ a < b ∧ b ≤ en ∧ sg.1 ≤ b ∧ a ≤ sg.2 ∧
      (eIn = false → (a = sg.2 ∧ b = en1) ∨ b = sg.2) ∧ (eIn = true → b = en) := by
  rw [endGapUpdate_app, startGapUpdate_fst, startGapUpdate_snd]
  simp only [remL, remR]
  cases eIn <;> simp only [Bool.false_eq_true, false_implies, forall_const] at hin hout hF hb ⊢
  all_goals rcases hF with ⟨h1, h2, h3, h4⟩ | ⟨h1, h2, h3, h4⟩ | ⟨h1, h2, h3⟩
  all_goals subst_vars
  all_goals simp only [Bool.not_false, Bool.not_true, Bool.and_true, Bool.and_false, decide_eq_true_eq, and_true, true_and, if_true] at *
  all_goals ((repeat' split) <;> first | omega | (simp_all; done) | (simp_all; omega))

/-! ### the new gap list, `startGap ≠ endGap` (`rest' = eg :: post` after the sweep) -/

theorem shape_ne (sg eg : Gap) (post : List Gap) (a en b : Nat) (hr eIn : Bool)
    (hsg : sg.1 < sg.2) (heg : eg.1 < eg.2) (hsgeg : sg.2 < eg.1)
    (hF : (sg.1 ≤ a ∧ a < sg.2 ∧ hr = false) ∨ (a = sg.2 ∧ hr = true) ∨ (a < sg.1 ∧ hr = true))
    (hin : eIn = true → eg.1 ≤ en ∧ en < eg.2) (hout : eIn = false → eg.2 ≤ en)
    (hb : b = if eIn = false ∧ a ≠ eg.2 ∧ en > eg.2 then eg.2 else en) :
    (startGapUpdate sg a en hr).1 ++
      ((endGapUpdate false (startGapUpdate sg a en hr).2 b eg.2 sg.2 (eg :: post)).1 ++
       (endGapUpdate false (startGapUpdate sg a en hr).2 b eg.2 sg.2 (eg :: post)).2)
      = remL sg a ++ remR eg b ++ post ∧ a < b ∧ b ≤ en ∧ eg.1 ≤ b ∧ a ≤ sg.2 ∧
      (eIn = false → b = eg.2) ∧ (eIn = true → b = en) := by
  rw [endGapUpdate_app, startGapUpdate_fst, startGapUpdate_snd]
  simp only [remL, remR]
  cases eIn <;> simp only [Bool.false_eq_true, false_implies, forall_const] at hin hout hF hb ⊢
  all_goals rcases hF with ⟨h1, h2, h3⟩ | ⟨h1, h2⟩ | ⟨h1, h2⟩
  all_goals subst_vars
  all_goals simp only [Bool.not_false, Bool.not_true, Bool.and_true, Bool.and_false, decide_eq_true_eq, and_true, true_and, if_true] at *
  all_goals ((repeat' split) <;> first | omega | contradiction | (simp only [false_and] at *; done) | (refine ⟨?_, ?_⟩ <;> first | omega | (simp <;> omega)))

/-! ### the bytes of the frame through the cuts -/

/-- `d` is the source on `[st, e)` -/
def DataOK (src : Nat → UInt8) (d : Bytes) (st e : Nat) : Prop :=
  d.length = e - st ∧ ∀ j, j < d.length → d[j]? = some (src (st + j))

theorem DataOK.take {src : Nat → UInt8} {d : Bytes} {st e : Nat} (h : DataOK src d st e) (e' : Nat)
    (h1 : st ≤ e') (h2 : e' ≤ e) : DataOK src (d.take (e' - st)) st e' := by
  obtain ⟨hl, hd⟩ := h
  refine ⟨by simp [List.length_take]; omega, ?_⟩
  intro j hj
  simp only [List.length_take] at hj
  rw [List.getElem?_take_of_lt (by omega)]
  exact hd j (by omega)

theorem DataOK.drop {src : Nat → UInt8} {d : Bytes} {st e : Nat} (h : DataOK src d st e) (st' : Nat)
    (h1 : st ≤ st') (h2 : st' ≤ e) : DataOK src (d.drop (st' - st)) st' e := by
  obtain ⟨hl, hd⟩ := h
  refine ⟨by simp [List.length_drop]; omega, ?_⟩
  intro j hj
  simp only [List.length_drop] at hj
  rw [List.getElem?_drop]
  have := hd (st' - st + j) (by omega)
  rw [this]
  congr 2
  omega

end Uquic.Proofs.Sorter
