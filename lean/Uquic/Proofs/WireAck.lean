import Uquic.Proofs.WireFrames

namespace Uquic.Proofs.Wire
open Uquic.Model.Wire Uquic.Model.Wire.Varint

/-! ### ACK: the range loop -/

/-- ranges below `s` (the smallest number of the previous range), each non-empty and separated by
    at least one missing packet — what the loop of `parseAckFrame` produces and what
    `encodeAckRange` needs -/
def Chain : Nat → List AckRange → Prop
  | _, [] => True
  | s, r :: rest => r.2 + 2 ≤ s ∧ r.1 ≤ r.2 ∧ Chain r.1 rest

theorem parseAckBlocks_local (k : Nat) : ∀ (s : Nat) (b b' : Bytes) (rs : List AckRange),
    parseAckBlocks k s b = .ok (rs, b') →
    rs.length = k ∧ Chain s rs ∧ ∃ pre, b = pre ++ b' ∧ ∀ r', parseAckBlocks k s (pre ++ r') = .ok (rs, r') := by
  induction k with
  | zero =>
    intro s b b' rs h
    simp [parseAckBlocks] at h
    obtain ⟨h1, h2⟩ := h
    subst h1; subst h2
    exact ⟨rfl, trivial, [], by simp, by intro r'; simp [parseAckBlocks]⟩
  | succ k ih =>
    intro s b b' rs h
    unfold parseAckBlocks at h
    rcases takeV_cases b with he | ⟨p1, b1, gap, rfl, hd1, ht1⟩
    · simp [he] at h
    · simp only [ht1] at h
      by_cases hlt : s < gap + 2
      · simp [hlt] at h
      · rw [if_neg hlt] at h
        rcases takeV_cases b1 with he | ⟨p2, b2, blk, rfl, hd2, ht2⟩
        · simp [he] at h
        · simp only [ht2] at h
          by_cases hgt : blk > s - gap - 2
          · simp [hgt] at h
          · rw [if_neg hgt] at h
            cases hrec : parseAckBlocks k (s - gap - 2 - blk) b2 with
            | error e => simp [hrec] at h
            | ok x =>
              obtain ⟨rs', b3⟩ := x
              simp only [hrec, Except.ok.injEq, Prod.mk.injEq] at h
              obtain ⟨hrs, hb⟩ := h
              subst hrs; subst hb
              obtain ⟨hlen, hchain, pre, hpre, hloc⟩ := ih _ _ _ _ hrec
              refine ⟨by simp [hlen], ⟨by simp; omega, by simp, hchain⟩, p1 ++ p2 ++ pre, by rw [hpre]; simp, ?_⟩
              intro r'
              unfold parseAckBlocks
              simp only [List.append_assoc, takeV_of_decodes hd1, takeV_of_decodes hd2, if_neg hlt, if_neg hgt, hloc r']

theorem u64_sub (a b : Nat) (h : b ≤ a) (ha : a < 2 ^ 64) : u64 ((a : Int) - (b : Int)) = a - b := by
  unfold u64
  have : ((a : Int) - (b : Int)) = ((a - b : Nat) : Int) := by omega
  rw [this]
  have h2 : ((a - b : Nat) : Int) % 2 ^ 64 = ((a - b : Nat) : Int) := by
    apply Int.emod_eq_of_lt <;> omega
  rw [h2]; simp

theorem u64_sub2 (a b : Nat) (h : b + 2 ≤ a) (ha : a < 2 ^ 64) : u64 ((a : Int) - (b : Int) - 2) = a - b - 2 := by
  have : ((a : Int) - (b : Int) - 2) = ((a : Int) - ((b + 2 : Nat) : Int)) := by omega
  rw [this, u64_sub a (b + 2) h ha]; omega

/-- writing the ranges after the first with `encodeAckRange` and parsing them back -/
theorem parseAckBlocks_enc : ∀ (rest : List AckRange) (s : Nat) (_hs : s ≤ maxVarInt8) (_hc : Chain s rest) (r : Bytes),
    parseAckBlocks rest.length s (encAll (ackRangeFields s rest) ++ r) = .ok (rest, r)
  | [], s, _, _, r => by simp [parseAckBlocks, ackRangeFields, encAll]
  | x :: rest, s, hs, hc, r => by
    obtain ⟨h1, h2, h3⟩ := hc
    have hm := max8_eq
    have hg : u64 ((s : Int) - (x.2 : Int) - 2) = s - x.2 - 2 := u64_sub2 s x.2 h1 (by omega)
    have hl : u64 ((x.2 : Int) - (x.1 : Int)) = x.2 - x.1 := u64_sub x.2 x.1 h2 (by omega)
    have ih := parseAckBlocks_enc rest x.1 (by omega) h3 r
    simp only [List.length_cons, ackRangeFields, encAll, List.flatMap_cons, hg, hl]
    unfold parseAckBlocks
    have d1 : Decodes (enc (s - x.2 - 2)) (s - x.2 - 2) := decodes_enc _ (by omega)
    have d2 : Decodes (enc (x.2 - x.1)) (x.2 - x.1) := decodes_enc _ (by omega)
    simp only [List.append_assoc, takeV_of_decodes d1, takeV_of_decodes d2]
    rw [if_neg (by omega), if_neg (by omega)]
    have e1 : s - (s - x.2 - 2) - 2 = x.2 := by omega
    have e2 : x.2 - (x.2 - x.1) = x.1 := by omega
    simp only [e1, e2]
    unfold encAll at ih
    rw [ih]

/-! ### ACK: validity of what the loop produces -/

theorem consistent_of_chain : ∀ (rest : List AckRange) (x : AckRange), Chain x.1 rest → ackRangesConsistent (x :: rest) = true
  | [], _, _ => by simp [ackRangesConsistent]
  | y :: rest, x, hc => by
    obtain ⟨h1, h2, h3⟩ := hc
    unfold ackRangesConsistent
    rw [if_neg (by omega), if_neg (by omega)]
    exact consistent_of_chain rest y h3

theorem all_le_of_chain : ∀ (rest : List AckRange) (s : Nat), Chain s rest → rest.any (fun r => decide (r.1 > r.2)) = false
  | [], _, _ => by simp
  | y :: rest, s, hc => by
    obtain ⟨_, h2, h3⟩ := hc
    simp only [List.any_cons, Bool.or_eq_false_iff, decide_eq_false_iff_not]
    exact ⟨by omega, all_le_of_chain rest y.1 h3⟩

theorem validate_of_chain (s0 l0 : Nat) (rest : List AckRange) (h0 : s0 ≤ l0) (hc : Chain s0 rest) :
    validateAckRanges ((s0, l0) :: rest) = true := by
  unfold validateAckRanges
  have h1 := all_le_of_chain rest s0 hc
  have h2 := consistent_of_chain rest (s0, l0) hc
  have h3 : (((s0, l0) :: rest).any fun r => decide (r.1 > r.2)) = false := by
    simp only [List.any_cons, h1, Bool.or_false, decide_eq_false_iff_not]; omega
  simp only [List.isEmpty_cons, Bool.false_eq_true, if_false, h3]
  exact h2

theorem chain_bound : ∀ (rest : List AckRange) (s : Nat), Chain s rest → ∀ r ∈ rest, r.1 ≤ r.2 ∧ r.2 < s
  | [], _, _ => by simp
  | y :: rest, s, hc => by
    obtain ⟨h1, h2, h3⟩ := hc
    intro r hr
    simp only [List.mem_cons] at hr
    rcases hr with rfl | hr
    · exact ⟨h2, by omega⟩
    · have := chain_bound rest y.1 h3 r hr
      exact ⟨this.1, by omega⟩

/-! ### ACK: the whole frame -/

/-- everything a successfully parsed ACK frame satisfies, and that the result only depends on the
    consumed prefix -/
theorem parseAck_inv (b : Bytes) (ecn : Bool) (exp : Nat) (f : Frame) (n : Nat) (h : parseAck b ecn exp = .ok (f, n)) :
    ∃ pre r la delay smallest rs e0 e1 ce,
      b = pre ++ r ∧ n = pre.length ∧
      f = .ack ((smallest, la) :: rs) (ackDelayTime delay exp) e0 e1 ce ∧
      smallest ≤ la ∧ la ≤ maxVarInt8 ∧ delay ≤ maxVarInt8 ∧ Chain smallest rs ∧
      e0 ≤ maxVarInt8 ∧ e1 ≤ maxVarInt8 ∧ ce ≤ maxVarInt8 ∧ (ecn = false → e0 = 0 ∧ e1 = 0 ∧ ce = 0) ∧
      ∀ r', parseAck (pre ++ r') ecn exp = .ok (f, n) := by
  unfold parseAck at h
  rcases takeV_cases b with he | ⟨p1, b1, la, rfl, hd1, ht1⟩
  · simp [he] at h
  rcases takeV_cases b1 with he | ⟨p2, b2, delay, rfl, hd2, ht2⟩
  · simp [ht1, he] at h
  rcases takeV_cases b2 with he | ⟨p3, b3, nb, rfl, hd3, ht3⟩
  · simp [ht1, ht2, he] at h
  rcases takeV_cases b3 with he | ⟨p4, b4, ab, rfl, hd4, ht4⟩
  · simp [ht1, ht2, ht3, he] at h
  simp only [ht1, ht2, ht3, ht4] at h
  by_cases hgt : ab > la
  · simp [hgt] at h
  rw [if_neg hgt] at h
  cases hblk : parseAckBlocks nb (la - ab) b4 with
  | error e => simp [hblk] at h
  | ok x =>
    obtain ⟨rs, b5⟩ := x
    obtain ⟨hlen, hchain, pre5, hb4, hloc⟩ := parseAckBlocks_local nb (la - ab) b4 b5 rs hblk
    subst hb4
    simp only [hblk] at h
    by_cases hval : validateAckRanges ((la - ab, la) :: rs) = true
    · simp only [hval, Bool.not_true, Bool.false_eq_true, if_false] at h
      cases ecn with
      | false =>
        simp only [Bool.false_eq_true, if_false, Except.ok.injEq, Prod.mk.injEq] at h
        refine ⟨p1 ++ p2 ++ p3 ++ p4 ++ pre5, b5, la, delay, la - ab, rs, 0, 0, 0, by simp, ?_, h.1.symm, by omega,
          hd1.2.1, hd2.2.1, hchain, by omega, by omega, by omega, by intro _; exact ⟨rfl, rfl, rfl⟩, ?_⟩
        · rw [← h.2]; simp; omega
        · intro r'
          unfold parseAck
          simp only [List.append_assoc, takeV_of_decodes hd1, takeV_of_decodes hd2, takeV_of_decodes hd3,
            takeV_of_decodes hd4, if_neg hgt, hloc r', hval, Bool.not_true, Bool.false_eq_true, if_false]
          rw [← h.1, ← h.2]; simp; omega
      | true =>
        simp only [if_true] at h
        rcases takeV_cases b5 with he | ⟨p6, b6, e0, rfl, hd6, ht6⟩
        · simp [he] at h
        rcases takeV_cases b6 with he | ⟨p7, b7, e1, rfl, hd7, ht7⟩
        · simp [ht6, he] at h
        rcases takeV_cases b7 with he | ⟨p8, b8, ce, rfl, hd8, ht8⟩
        · simp [ht6, ht7, he] at h
        simp only [ht6, ht7, ht8, Except.ok.injEq, Prod.mk.injEq] at h
        refine ⟨p1 ++ p2 ++ p3 ++ p4 ++ pre5 ++ p6 ++ p7 ++ p8, b8, la, delay, la - ab, rs, e0, e1, ce, by simp, ?_, h.1.symm,
          by omega, hd1.2.1, hd2.2.1, hchain, hd6.2.1, hd7.2.1, hd8.2.1, by intro hh; simp at hh, ?_⟩
        · rw [← h.2]; simp; omega
        · intro r'
          unfold parseAck
          simp only [List.append_assoc, takeV_of_decodes hd1, takeV_of_decodes hd2, takeV_of_decodes hd3,
            takeV_of_decodes hd4, if_neg hgt, hloc (p6 ++ (p7 ++ (p8 ++ r'))), hval, Bool.not_true, Bool.false_eq_true,
            if_false, if_true, takeV_of_decodes hd6, takeV_of_decodes hd7, takeV_of_decodes hd8]
          rw [← h.1, ← h.2]; simp; omega
    · simp [hval] at h

theorem sendExp_eq : sendAckDelayExponent = 3 := by decide
theorem maxRanges_eq : maxNumAckRanges = 64 := by decide

/-- a delay that is a multiple of the sender's resolution and fits an int64 survives encode + parse -/
theorem ackDelay_roundtrip (d : Nat) (hd : d % (1000 * 2 ^ sendAckDelayExponent) = 0) (hd2 : d < 2 ^ 63) :
    ackDelayTime (encodeAckDelay d) sendAckDelayExponent = d := by
  unfold ackDelayTime encodeAckDelay
  rw [sendExp_eq] at *
  have h1 : d / (1000 * 2 ^ 3) * 2 ^ 3 % 2 ^ 64 = d / (1000 * 2 ^ 3) * 2 ^ 3 := by
    apply Nat.mod_eq_of_lt; omega
  have h2 : d / (1000 * 2 ^ 3) * 2 ^ 3 * 1000 = d := by omega
  simp only [h1, h2]
  have h3 : d % 2 ^ 64 = d := Nat.mod_eq_of_lt (by omega)
  rw [h3, if_neg (by omega)]

theorem encAll_append (a b : List Nat) : encAll (a ++ b) = encAll a ++ encAll b := by
  simp [encAll]

theorem encAll_cons (a : Nat) (b : List Nat) : encAll (a :: b) = enc a ++ encAll b := by
  simp [encAll]

/-- ACK: writing a frame in the encoder's domain and parsing it (with the sender's exponent) gives it back -/
theorem parseAck_enc (s0 l0 : Nat) (rest : List AckRange) (d e0 e1 ce : Nat)
    (h0 : s0 ≤ l0) (hl : l0 ≤ maxVarInt8) (hc : Chain s0 rest) (hn : rest.length + 1 ≤ maxNumAckRanges)
    (hd : d % (1000 * 2 ^ sendAckDelayExponent) = 0) (hd2 : d < 2 ^ 63)
    (he0 : e0 ≤ maxVarInt8) (he1 : e1 ≤ maxVarInt8) (hce : ce ≤ maxVarInt8) (r : Bytes) :
    parseAck (encAll (ackFields ((s0, l0) :: rest) d e0 e1 ce) ++ r) (hasECN e0 e1 ce) sendAckDelayExponent =
      .ok (.ack ((s0, l0) :: rest) d e0 e1 ce, (encAll (ackFields ((s0, l0) :: rest) d e0 e1 ce)).length) := by
  have hm := max8_eq
  have hmr := maxRanges_eq
  have htake : ((s0, l0) :: rest).take maxNumAckRanges = (s0, l0) :: rest :=
    List.take_of_length_le (by simp; omega)
  have hcnt : min ((s0, l0) :: rest).length maxNumAckRanges - 1 = rest.length := by simp; omega
  have hfirst : u64 ((l0 : Int) - (s0 : Int)) = l0 - s0 := u64_sub l0 s0 h0 (by omega)
  have hdel : encodeAckDelay d ≤ maxVarInt8 := by
    unfold encodeAckDelay; rw [sendExp_eq, hm]; omega
  unfold ackFields
  simp only [htake, hcnt, hfirst]
  have d1 := decodes_enc l0 hl
  have d2 := decodes_enc (encodeAckDelay d) hdel
  have d3 := decodes_enc rest.length (by omega)
  have d4 := decodes_enc (l0 - s0) (by omega)
  have hblocks := fun r' => parseAckBlocks_enc rest s0 (by omega) hc r'
  have hval := validate_of_chain s0 l0 rest h0 hc
  have hsm : l0 - (l0 - s0) = s0 := by omega
  simp only [List.cons_append, List.nil_append, encAll_cons, encAll_append, List.append_assoc]
  unfold parseAck
  simp only [List.append_assoc, takeV_of_decodes d1, takeV_of_decodes d2, takeV_of_decodes d3, takeV_of_decodes d4,
    if_neg (show ¬ (l0 - s0 > l0) by omega), hsm, hblocks, hval, Bool.not_true, Bool.false_eq_true, if_false,
    ackDelay_roundtrip d hd hd2]
  by_cases hecn : hasECN e0 e1 ce = true
  · have d6 := decodes_enc e0 he0
    have d7 := decodes_enc e1 he1
    have d8 := decodes_enc ce hce
    simp only [hecn, if_true, encAll_cons, List.append_assoc, takeV_of_decodes d6, takeV_of_decodes d7, takeV_of_decodes d8]
    simp [encAll]; omega
  · have hz : e0 = 0 ∧ e1 = 0 ∧ ce = 0 := by
      simp [hasECN] at hecn; omega
    obtain ⟨z0, z1, z2⟩ := hz
    subst z0; subst z1; subst z2
    simp only [hecn, Bool.false_eq_true, if_false]
    simp [encAll]; omega

end Uquic.Proofs.Wire
