/-
C03: the ReceiveStream invariant `SInv` and what Read / Peek guarantee under it.
-/
import Uquic.Proofs.SorterPop
import Uquic.Model.Reassembly.ReceiveStream
namespace Uquic.Proofs.Stream
open Uquic.Model.Reassembly Uquic.Proofs.Sorter

/-- invariant of a ReceiveStream relative to the source string -/
structure SInv (src : Nat → UInt8) (s : RStream) : Prop where
  sorter : Inv src s.sorter
  /-- the frame being read is the source segment that ends at the sorter's read position -/
  cur_some : ∀ c, s.cur = some c → s.rpif ≤ c.length ∧ c.length ≤ s.sorter.readPos ∧
      s.readPos + (c.length - s.rpif) = s.sorter.readPos ∧ c = srcSeg src (s.sorter.readPos - c.length) c.length
  cur_none : s.cur = none → s.readPos = s.sorter.readPos
  /-- nothing was received beyond the flow controller's highest offset -/
  high_rp : s.sorter.readPos ≤ s.fc.highest
  high : ∀ p, received s.sorter p → p < s.fc.highest
  /-- offsets stay in the lower half of the offset space (so that `readPos + len(p)` cannot wrap past it) -/
  hmax : 2 * s.fc.highest < maxByteCount
  /-- a known final offset is the flow controller's (final) highest offset -/
  final : s.finalOffset ≠ maxByteCount → s.fc.receivedFinal = true ∧ s.finalOffset = s.fc.highest
  last : s.curIsLast = true → s.finalOffset ≤ s.sorter.readPos

theorem SInv.readPos_le {src : Nat → UInt8} {s : RStream} (h : SInv src s) : s.readPos ≤ s.sorter.readPos := by
  cases hc : s.cur with
  | none => have := h.cur_none hc; omega
  | some c => have := h.cur_some c hc; omega

/-- when the current frame is used up (or there is none) the stream has read up to the sorter's read position -/
theorem SInv.caught_up {src : Nat → UInt8} {s : RStream} (h : SInv src s)
    (hd : s.cur.isNone || decide (s.rpif ≥ s.curLen) = true) : s.readPos = s.sorter.readPos := by
  cases hc : s.cur with
  | none => exact h.cur_none hc
  | some c =>
    have := h.cur_some c hc
    simp [hc, RStream.curLen] at hd
    omega

theorem sinv_init (src : Nat → UInt8) (fc : FC) (h0 : fc.highest = 0) :
    SInv src { fc := fc } := by
  refine ⟨inv_init src, by simp, by simp, by simp, ?_, by rw [h0]; exact maxByteCount_pos, by simp, by simp⟩
  intro p hp
  exfalso
  apply hp.2.2
  exact ⟨(0, maxByteCount), by simp, Nat.zero_le _, hp.2.1⟩

/-- `dequeueNextFrame` when the current frame is used up -/
theorem dequeue_spec {src : Nat → UInt8} {s : RStream} (h : SInv src s)
    (hd : s.cur.isNone || decide (s.rpif ≥ s.curLen) = true) :
    s.dequeue.2.2 = false ∧ SInv src s.dequeue.1 ∧ s.dequeue.1.readPos = s.readPos ∧ s.dequeue.1.rpif = 0 ∧
    s.dequeue.1.fc = s.fc ∧ s.dequeue.1.finalOffset = s.finalOffset ∧
    s.dequeue.1.cancelledRemotely = s.cancelledRemotely ∧ s.dequeue.1.cancelledLocally = s.cancelledLocally ∧
    s.dequeue.1.reliableSize = s.reliableSize ∧ s.dequeue.1.shutdown = s.shutdown ∧
    s.dequeue.1.cancelErr = s.cancelErr ∧ s.dequeue.1.errorRead = s.errorRead ∧ s.dequeue.1.completed = s.completed ∧
    (∀ c, s.dequeue.1.cur = some c → 0 < c.length) := by
  have hcu := h.caught_up hd
  unfold RStream.dequeue
  rcases pop_spec h.sorter with ⟨_, hp⟩ | ⟨e, he, hp, hdata, hpos, hI, _⟩
  · rw [hp]
    refine ⟨rfl, ?_, rfl, rfl, rfl, rfl, rfl, rfl, rfl, rfl, rfl, rfl, rfl, by simp⟩
    refine ⟨h.sorter, by simp, fun _ => hcu, h.high_rp, h.high, h.hmax, h.final, ?_⟩
    intro hl
    simp at hl
    exact hl.1
  · rw [hp]
    refine ⟨rfl, ?_, rfl, rfl, rfl, rfl, rfl, rfl, rfl, rfl, rfl, rfl, rfl, by intro c hc; cases hc; exact hpos⟩
    have hrec : received s.sorter (s.sorter.readPos + e.data.length - 1) := by
      have hm := h.sorter.emax _ he
      simp only [elen] at hm
      refine ⟨by omega, by have := maxByteCount_pos; omega, fun hg => h.sorter.excl hg ⟨_, he, ?_, ?_⟩⟩
      · show s.sorter.readPos ≤ s.sorter.readPos + e.data.length - 1; omega
      · show s.sorter.readPos + e.data.length - 1 < s.sorter.readPos + e.data.length; omega
    have hh := h.high _ hrec
    refine ⟨hI, ?_, by simp, by simp only; omega, ?_, h.hmax, h.final, ?_⟩
    · intro c hc
      simp only [Option.some.injEq] at hc
      subst hc
      simp only
      refine ⟨Nat.zero_le _, by omega, by omega, ?_⟩
      have : s.sorter.readPos + e.data.length - e.data.length = s.sorter.readPos := by omega
      rw [this]; exact hdata
    · intro p hp'
      apply h.high p
      exact ⟨by have := hp'.1; simp only at this; omega, hp'.2.1, hp'.2.2⟩
    · intro hl
      simp at hl
      simp only
      exact hl.1
@[simp] theorem addBytesRead_highest (c : FC) (n : Nat) : (c.addBytesRead n).1.highest = c.highest := rfl
@[simp] theorem addBytesRead_final (c : FC) (n : Nat) : (c.addBytesRead n).1.receivedFinal = c.receivedFinal := rfl
@[simp] theorem abandon_highest (c : FC) : c.abandon.highest = c.highest := by
  simp only [FC.abandon]; split <;> rfl
@[simp] theorem abandon_final (c : FC) : c.abandon.receivedFinal = c.receivedFinal := by
  simp only [FC.abandon]; split <;> rfl

/-- changes of the stream that do not touch what `SInv` talks about -/
theorem SInv.congr {src : Nat → UInt8} {s s' : RStream} (h : SInv src s)
    (h1 : s'.sorter = s.sorter) (h2 : s'.cur = s.cur) (h3 : s'.rpif = s.rpif) (h4 : s'.readPos = s.readPos)
    (h5 : s'.fc.highest = s.fc.highest) (h6 : s'.fc.receivedFinal = s.fc.receivedFinal)
    (h7 : s'.finalOffset = s.finalOffset) (h8 : s'.curIsLast = s.curIsLast) : SInv src s' := by
  refine ⟨h1 ▸ h.sorter, ?_, ?_, by rw [h1, h5]; exact h.high_rp, by rw [h1, h5]; exact h.high, by rw [h5]; exact h.hmax,
    by rw [h7, h6, h5]; exact h.final, by rw [h8, h7, h1]; exact h.last⟩
  · intro c hc; rw [h2] at hc; rw [h1, h3, h4]; exact h.cur_some c hc
  · intro hc; rw [h2] at hc; rw [h1, h4]; exact h.cur_none hc

/-- the result of the read loop -/
structure LoopRes (src : Nat → UInt8) (r0 f0 n : Nat) (a : ReadAcc) (st : RStatus) : Prop where
  inv : SInv src a.s
  out : a.out = srcSeg src r0 a.out.length
  rp : a.s.readPos = r0 + a.out.length
  fin : a.s.finalOffset = f0
  eof : st = .eof → a.s.readPos = f0 ∧ f0 ≠ maxByteCount
  nopanic : st ≠ .panic
  len : a.out.length ≤ n

theorem deqIfNeeded_spec {src : Nat → UInt8} {a : ReadAcc} (h : SInv src a.s) :
    a.deqIfNeeded.2 = false ∧ SInv src a.deqIfNeeded.1.s ∧ a.deqIfNeeded.1.out = a.out ∧
    a.deqIfNeeded.1.s.readPos = a.s.readPos ∧ a.deqIfNeeded.1.s.finalOffset = a.s.finalOffset ∧
    (∀ c, a.deqIfNeeded.1.s.cur = some c → a.deqIfNeeded.1.s.rpif < c.length) := by
  unfold ReadAcc.deqIfNeeded
  split
  · rename_i hnd
    have hd := dequeue_spec h (by simpa using hnd)
    refine ⟨hd.1, hd.2.1, rfl, hd.2.2.1, hd.2.2.2.2.2.1, ?_⟩
    intro c hc
    simp only at hc ⊢
    rw [hd.2.2.2.1]
    exact hd.2.2.2.2.2.2.2.2.2.2.2.2.2 c hc
  · rename_i hnd
    refine ⟨rfl, h, rfl, rfl, rfl, ?_⟩
    intro c hc
    simp only at hc ⊢
    simp [hc, RStream.curLen] at hnd
    exact hnd

theorem srcSeg_drop_take (src : Nat → UInt8) (o len i m : Nat) (h : i + m ≤ len) :
    ((srcSeg src o len).drop i).take m = srcSeg src (o + i) m := by
  apply List.ext_getElem?
  intro j
  rcases Nat.lt_or_ge j m with hlt | hge
  · rw [List.getElem?_take_of_lt hlt, List.getElem?_drop, srcSeg_get _ _ _ _ (by omega), srcSeg_get _ _ _ _ hlt]
    congr 2; omega
  · rw [List.getElem?_eq_none (by simp [srcSeg_length]; omega), List.getElem?_eq_none (by rw [srcSeg_length]; exact hge)]

theorem afterCopy_fields (s : RStream) (m : Nat) :
    (s.afterCopy m).sorter = s.sorter ∧ (s.afterCopy m).cur = s.cur ∧ (s.afterCopy m).rpif = s.rpif + m ∧
    (s.afterCopy m).readPos = s.readPos + m ∧ (s.afterCopy m).fc.highest = s.fc.highest ∧
    (s.afterCopy m).fc.receivedFinal = s.fc.receivedFinal ∧ (s.afterCopy m).finalOffset = s.finalOffset ∧
    (s.afterCopy m).curIsLast = s.curIsLast ∧ (s.afterCopy m).curDone = s.curDone := by
  unfold RStream.afterCopy
  simp only
  split <;> (split <;> simp)

/-- one chunk: the bytes copied are the source at the read position, the invariant is kept -/
theorem copyChunk_spec {src : Nat → UInt8} {a : ReadAcc} (n r0 : Nat) (h : SInv src a.s)
    (hout : a.out = srcSeg src r0 a.out.length) (hrp : a.s.readPos = r0 + a.out.length)
    (hc : ∀ c, a.s.cur = some c → a.s.rpif < c.length) (hn : a.out.length < n) :
    SInv src (a.copyChunk n).s ∧ (a.copyChunk n).out = srcSeg src r0 (a.copyChunk n).out.length ∧
    (a.copyChunk n).s.readPos = r0 + (a.copyChunk n).out.length ∧
    (a.copyChunk n).s.finalOffset = a.s.finalOffset ∧ (a.copyChunk n).s.cur = a.s.cur ∧
    (a.copyChunk n).s.curIsLast = a.s.curIsLast ∧
    (a.s.cur ≠ none → (a.copyChunk n).out.length > a.out.length) ∧ (a.copyChunk n).out.length ≤ n := by
  have hm : min (n - a.out.length) ((a.s.cur.getD []).length - a.s.rpif) ≤ (a.s.cur.getD []).length - a.s.rpif :=
    Nat.min_le_right _ _
  have hchunk : ((a.s.cur.getD []).drop a.s.rpif).take (min (n - a.out.length) ((a.s.cur.getD []).length - a.s.rpif)) =
      srcSeg src a.s.readPos (min (n - a.out.length) ((a.s.cur.getD []).length - a.s.rpif)) := by
    cases hcur : a.s.cur with
    | none => simp [srcSeg_zero]
    | some c =>
      obtain ⟨c1, c2, c3, c4⟩ := h.cur_some c hcur
      simp only [Option.getD_some]
      have hm' : min (n - a.out.length) (c.length - a.s.rpif) ≤ c.length - a.s.rpif := Nat.min_le_right _ _
      generalize min (n - a.out.length) (c.length - a.s.rpif) = m at hm' ⊢
      have : (c.drop a.s.rpif).take m = ((srcSeg src (a.s.sorter.readPos - c.length) c.length).drop a.s.rpif).take m := by
        rw [← c4]
      rw [this, srcSeg_drop_take _ _ _ _ _ (by omega)]
      congr 1; omega
  generalize hmdef : min (n - a.out.length) ((a.s.cur.getD []).length - a.s.rpif) = m at hm hchunk
  obtain ⟨f1, f2, f3, f4, f5, f6, f7, f8, _⟩ := afterCopy_fields a.s m
  have hS : SInv src (a.s.afterCopy m) := by
    refine ⟨f1 ▸ h.sorter, ?_, ?_, by rw [f1, f5]; exact h.high_rp, by rw [f1, f5]; exact h.high,
      by rw [f5]; exact h.hmax, by rw [f7, f6, f5]; exact h.final, by rw [f8, f7, f1]; exact h.last⟩
    · intro c hcur
      rw [f2] at hcur
      have := h.cur_some c hcur
      simp only [hcur, Option.getD_some] at hm
      rw [f1, f3, f4]
      refine ⟨by omega, this.2.1, by omega, this.2.2.2⟩
    · intro hcur
      rw [f2] at hcur
      simp only [hcur, Option.getD_none, List.length_nil] at hm
      have := h.cur_none hcur
      rw [f1, f4]
      omega
  unfold ReadAcc.copyChunk
  simp only [hmdef]
  have hmn : m ≤ n - a.out.length := by rw [← hmdef]; exact Nat.min_le_left _ _
  refine ⟨hS, ?_, ?_, f7, f2, f8, ?_, ?_⟩
  rotate_left 3
  · rw [List.length_append, hchunk, srcSeg_length]; omega
  · rw [hchunk, List.length_append, srcSeg_length, ← srcSeg_append, ← hout, hrp]
  · rw [List.length_append, hchunk, srcSeg_length, f4]
    omega
  · intro hne
    rw [List.length_append, hchunk, srcSeg_length]
    cases hcur : a.s.cur with
    | none => exact absurd hcur hne
    | some c =>
      have := hc c hcur
      simp only [hcur, Option.getD_some] at hmdef
      have : 0 < m := by
        rw [← hmdef]
        apply Nat.lt_min.mpr; constructor <;> omega
      omega

theorem readLoop_spec {src : Nat → UInt8} (fuel : Nat) (a : ReadAcc) (n r0 f0 : Nat)
    (hinv : SInv src a.s) (hout : a.out = srcSeg src r0 a.out.length) (hrp : a.s.readPos = r0 + a.out.length)
    (hfin : a.s.finalOffset = f0) (hlen : a.out.length ≤ n) :
    LoopRes src r0 f0 n (readLoop fuel a n).1 (readLoop fuel a n).2 := by
  induction fuel generalizing a with
  | zero => exact ⟨hinv, hout, hrp, hfin, (by intro h; cases h), (by intro h; cases h), hlen⟩
  | succ f ih =>
    rw [readLoop]
    split
    · rename_i hlt
      obtain ⟨d1, d2, d3, d4, d5, d6⟩ := deqIfNeeded_spec hinv
      generalize a.deqIfNeeded.1 = a1 at d2 d3 d4 d5 d6 ⊢
      rw [d1]
      simp only [Bool.false_eq_true, if_false]
      have hout1 : a1.out = srcSeg src r0 a1.out.length := by rw [d3]; exact hout
      have hrp1 : a1.s.readPos = r0 + a1.out.length := by rw [d4, d3]; exact hrp
      have hfin1 : a1.s.finalOffset = f0 := by rw [d5]; exact hfin
      have hlen1 : a1.out.length ≤ n := by rw [d3]; exact hlen
      split
      · exact ⟨d2, hout1, hrp1, hfin1, (by intro h; split at h <;> cases h), (by intro h; split at h <;> cases h), hlen1⟩
      split
      · exact ⟨d2, hout1, hrp1, hfin1, (by intro h; cases h), (by intro h; cases h), hlen1⟩
      split
      · exact ⟨d2.congr rfl rfl rfl rfl rfl rfl rfl rfl, hout1, hrp1, hfin1, (by intro h; cases h), (by intro h; cases h), hlen1⟩
      split
      · -- would block: dequeue again, then the deadline
        rename_i hblk
        have hnone : a1.s.cur = none := by
          cases hc : a1.s.cur with
          | none => rfl
          | some c => simp [hc] at hblk
        have hd := dequeue_spec d2 (by simp [hnone])
        rw [hd.1]
        simp only [Bool.false_eq_true, if_false]
        exact ⟨hd.2.1, hout1, by rw [hd.2.2.1]; exact hrp1, by rw [hd.2.2.2.2.2.1]; exact hfin1,
          (by intro h; cases h), (by intro h; cases h), hlen1⟩
      · rename_i hnb
        obtain ⟨c1, c2, c3, c4, c5, c6, c7, c8⟩ := copyChunk_spec n r0 d2 hout1 hrp1 d6 (by rw [d3]; exact hlt)
        split
        · -- the last frame was read to its end: EOF
          rename_i heof
          simp only [Bool.and_eq_true, decide_eq_true_eq] at heof
          refine ⟨?_, c2, c3, by simp only; rw [c4]; exact hfin1, ?_, (by intro h; cases h), c8⟩
          · -- cur := none
            have hcu := c1.caught_up (by
              cases hc : (a1.copyChunk n).s.cur with
              | none => simp
              | some c => simp [RStream.curLen, hc] at heof ⊢; exact heof.1)
            refine ⟨c1.sorter, by simp, fun _ => hcu, c1.high_rp, c1.high, c1.hmax, c1.final, c1.last⟩
          · intro _
            have hcu := c1.caught_up (by
              cases hc : (a1.copyChunk n).s.cur with
              | none => simp
              | some c => simp [RStream.curLen, hc] at heof ⊢; exact heof.1)
            have hl := c1.last heof.2
            rw [c4, hfin1] at hl
            have hne : f0 ≠ maxByteCount := by
              have := c1.high_rp; have := c1.hmax; omega
            have hf := c1.final (by rw [c4, hfin1]; exact hne)
            rw [c4, hfin1] at hf
            have := c1.high_rp
            simp only
            exact ⟨by omega, hne⟩
        · exact ih (a1.copyChunk n) c1 c2 c3 (by rw [c4]; exact hfin1) c8
    · rename_i hge
      split
      · exact ⟨hinv.congr rfl rfl rfl rfl rfl rfl rfl rfl, hout, hrp, hfin, (by intro h; cases h), (by intro h; cases h), hlen⟩
      · exact ⟨hinv, hout, hrp, hfin, (by intro h; cases h), (by intro h; cases h), hlen⟩

theorem isNewlyCompleted_fields (s : RStream) :
    s.isNewlyCompleted.1.sorter = s.sorter ∧ s.isNewlyCompleted.1.cur = s.cur ∧ s.isNewlyCompleted.1.rpif = s.rpif ∧
    s.isNewlyCompleted.1.readPos = s.readPos ∧ s.isNewlyCompleted.1.fc = s.fc ∧
    s.isNewlyCompleted.1.finalOffset = s.finalOffset ∧ s.isNewlyCompleted.1.curIsLast = s.curIsLast := by
  unfold RStream.isNewlyCompleted
  (repeat' split) <;> simp

theorem SInv.completed {src : Nat → UInt8} {s : RStream} (h : SInv src s) : SInv src s.isNewlyCompleted.1 := by
  obtain ⟨f1, f2, f3, f4, f5, f6, f7⟩ := isNewlyCompleted_fields s
  exact h.congr f1 f2 f3 f4 (by rw [f5]) (by rw [f5]) f6 f7

/-- **Read.** From a state satisfying the invariant `Read(p)` (|p| = n) never panics, returns the source
bytes at the read position, advances the read position by exactly that many bytes, keeps the invariant, and
reports EOF only when the read position has reached the (known) final offset. -/
theorem read_spec {src : Nat → UInt8} {s : RStream} (h : SInv src s) (n : Nat) :
    SInv src (s.read n).s ∧ (s.read n).data = srcSeg src s.readPos (s.read n).data.length ∧
    (s.read n).s.readPos = s.readPos + (s.read n).data.length ∧ (s.read n).s.finalOffset = s.finalOffset ∧
    ((s.read n).status = .eof → (s.read n).s.readPos = s.finalOffset ∧ s.finalOffset ≠ maxByteCount) ∧
    (s.read n).status ≠ .panic ∧ (s.read n).data.length ≤ n := by
  unfold RStream.read
  simp only
  split
  · -- EOF was reached before
    rename_i heof
    simp only [Bool.and_eq_true, Option.isNone_iff_eq_none] at heof
    have hI : SInv src { s with errorRead := true } := h.congr rfl rfl rfl rfl rfl rfl rfl rfl
    refine ⟨hI.completed, by simp [srcSeg_zero], by simp [(isNewlyCompleted_fields _).2.2.2.1],
      by simp [(isNewlyCompleted_fields _).2.2.2.2.2.1], ?_, (by intro hc; cases hc), by simp⟩
    intro _
    have hcu := h.cur_none heof.2
    have hl := h.last heof.1
    have hne : s.finalOffset ≠ maxByteCount := by have := h.high_rp; have := h.hmax; omega
    have hf := h.final hne
    have := h.high_rp
    simp only [(isNewlyCompleted_fields _).2.2.2.1]
    exact ⟨by omega, hne⟩
  split
  · have hI : SInv src { s with errorRead := true } := h.congr rfl rfl rfl rfl rfl rfl rfl rfl
    exact ⟨hI.completed, by simp [srcSeg_zero], by simp [(isNewlyCompleted_fields _).2.2.2.1],
      by simp [(isNewlyCompleted_fields _).2.2.2.2.2.1], (by intro hc; cases hc), (by intro hc; cases hc), by simp⟩
  split
  · exact ⟨h.completed, by simp [srcSeg_zero], by simp [(isNewlyCompleted_fields _).2.2.2.1],
      by simp [(isNewlyCompleted_fields _).2.2.2.2.2.1], (by intro hc; cases hc), (by intro hc; cases hc), by simp⟩
  · have L := readLoop_spec (src := src) (n + 1) { s := s } n s.readPos s.finalOffset h (by simp [srcSeg_zero]) (by simp) rfl (by simp)
    refine ⟨L.inv.completed, L.out, ?_, ?_, ?_, L.nopanic, L.len⟩
    · rw [(isNewlyCompleted_fields _).2.2.2.1]; exact L.rp
    · rw [(isNewlyCompleted_fields _).2.2.2.2.2.1]; exact L.fin
    · intro he
      rw [(isNewlyCompleted_fields _).2.2.2.1]
      exact L.eof he

theorem srcSeg_drop (src : Nat → UInt8) (o len i : Nat) : (srcSeg src o len).drop i = srcSeg src (o + i) (len - i) := by
  apply List.ext_getElem?
  intro j
  rw [List.getElem?_drop]
  rcases Nat.lt_or_ge (i + j) len with hlt | hge
  · rw [srcSeg_get _ _ _ _ hlt, srcSeg_get _ _ _ _ (by omega)]
    congr 2; omega
  · rw [List.getElem?_eq_none (by rw [srcSeg_length]; exact hge), List.getElem?_eq_none (by rw [srcSeg_length]; omega)]

/-- the rest of the current frame is the source at the read position -/
theorem SInv.tail_eq {src : Nat → UInt8} {s : RStream} (h : SInv src s) {cur : Bytes} (hc : s.cur = some cur) :
    cur.drop s.rpif = srcSeg src s.readPos (cur.length - s.rpif) := by
  obtain ⟨c1, c2, c3, c4⟩ := h.cur_some cur hc
  have : cur.drop s.rpif = (srcSeg src (s.sorter.readPos - cur.length) cur.length).drop s.rpif := by rw [← c4]
  rw [this, srcSeg_drop]
  congr 1; omega

theorem peekBytes_spec {src : Nat → UInt8} {s : RStream} (h : SInv src s) {cur : Bytes} (hc : s.cur = some cur)
    (k : Nat) (d : Bytes) (hp : s.peekBytes cur k = some d) : d = srcSeg src s.readPos k := by
  unfold RStream.peekBytes at hp
  simp only at hp
  have ht := h.tail_eq hc
  split at hp
  · rename_i hk
    cases hp
    rw [ht, srcSeg_take _ _ _ _ hk]
  · rename_i hk
    cases hpk : s.sorter.peek (s.readPos + (cur.length - s.rpif)) (k - (cur.length - s.rpif)) with
    | none => rw [hpk] at hp; cases hp
    | some d' =>
      rw [hpk] at hp
      simp only [Option.map_some, Option.some.injEq] at hp
      subst hp
      rw [peek_spec h.sorter _ _ _ hpk, ht, srcSeg_append]
      congr 1; omega

theorem sdeqIfNeeded_spec {src : Nat → UInt8} {s : RStream} (h : SInv src s) :
    s.deqIfNeeded.2.2 = false ∧ SInv src s.deqIfNeeded.1 ∧ s.deqIfNeeded.1.readPos = s.readPos ∧
    s.deqIfNeeded.1.finalOffset = s.finalOffset ∧
    (∀ c, s.deqIfNeeded.1.cur = some c → s.deqIfNeeded.1.rpif < c.length) ∧
    s.deqIfNeeded.1.fc = s.fc := by
  unfold RStream.deqIfNeeded
  split
  · rename_i hnd
    have hd := dequeue_spec h (by simpa using hnd)
    refine ⟨hd.1, hd.2.1, hd.2.2.1, hd.2.2.2.2.2.1, ?_, hd.2.2.2.2.1⟩
    intro c hc
    rw [hd.2.2.2.1]
    exact hd.2.2.2.2.2.2.2.2.2.2.2.2.2 c hc
  · rename_i hnd
    refine ⟨rfl, h, rfl, rfl, ?_, rfl⟩
    intro c hc
    simp only at hc ⊢
    simp [hc, RStream.curLen] at hnd
    exact hnd

/-- what every exit of `peekImpl` guarantees -/
structure PeekRes (src : Nat → UInt8) (s : RStream) (n : Nat) (r : ReadOut) : Prop where
  inv : SInv src r.s
  rp : r.s.readPos = s.readPos
  fin : r.s.finalOffset = s.finalOffset
  data : r.data = srcSeg src s.readPos r.data.length
  nopanic : r.status ≠ .panic
  eof : r.status = .eof → s.readPos + r.data.length = s.finalOffset ∧ s.finalOffset ≠ maxByteCount
  len : r.data.length ≤ n

theorem peekBlocked_spec {src : Nat → UInt8} {s : RStream} (h : SInv src s) (n : Nat) (evs : List Ev)
    (hcl : s.curIsLast = true → s.readPos = s.sorter.readPos) : PeekRes src s n (s.peekBlocked evs) := by
  unfold RStream.peekBlocked
  split
  · rename_i hc
    refine ⟨h, rfl, rfl, by simp [srcSeg_zero], (by intro hh; cases hh), ?_, by simp⟩
    intro _
    simp only [List.length_nil, Nat.add_zero]
    have h1 := h.readPos_le
    have h2 := h.high_rp
    have h3 := h.hmax
    simp only [Bool.or_eq_true, decide_eq_true_eq] at hc
    have hne : s.finalOffset ≠ maxByteCount := by
      rcases hc with hc | hc
      · have := h.last hc; omega
      · omega
    have hf := h.final hne
    rcases hc with hc | hc
    · have := h.last hc
      have := hcl hc
      exact ⟨by omega, hne⟩
    · exact ⟨by omega, hne⟩
  · obtain ⟨d1, d2, d3, d4, _, _⟩ := sdeqIfNeeded_spec h
    rw [d1]
    exact ⟨d2, d3, d4, by simp [srcSeg_zero], (by intro hh; simp at hh), (by intro hh; simp at hh), by simp⟩

theorem peekCur_spec {src : Nat → UInt8} {s : RStream} (h : SInv src s) {cur : Bytes} (hc : s.cur = some cur)
    (hr : s.rpif < cur.length) (n : Nat) (evs : List Ev) (hn : 2 * n < maxByteCount) :
    PeekRes src s n (s.peekCur cur n evs) := by
  obtain ⟨c1, c2, c3, c4⟩ := h.cur_some cur hc
  have h2 := h.high_rp
  have h3 := h.hmax
  unfold RStream.peekCur
  split
  · rename_i d hp
    have := peekBytes_spec h hc n d hp
    refine ⟨h, rfl, rfl, ?_, (by intro hh; cases hh), (by intro hh; cases hh), ?_⟩
    · simp only; rw [this, srcSeg_length]
    · simp only; rw [this, srcSeg_length]; exact Nat.le_refl _
  · rename_i hp
    split
    · -- the current frame is the last one
      rename_i hl
      have ht := h.tail_eq hc
      have hlast := h.last hl
      have hne : s.finalOffset ≠ maxByteCount := by omega
      have hf := h.final hne
      have hlen : (cur.drop s.rpif).length = cur.length - s.rpif := by simp
      have hnle : ¬ n ≤ cur.length - s.rpif := by
        intro hle
        simp [RStream.peekBytes, hle] at hp
      refine ⟨h, rfl, rfl, ?_, (by intro hh; cases hh), ?_, ?_⟩
      · simp only; rw [hlen]; exact ht
      · intro _; simp only; rw [hlen]; exact ⟨by omega, hne⟩
      · simp only; rw [hlen]; omega
    · rename_i hl
      split
      · rename_i d hp2
        split at hp2
        · rename_i hcond
          simp only [Bool.and_eq_true, decide_eq_true_eq] at hcond
          have := peekBytes_spec h hc _ d hp2
          refine ⟨h, rfl, rfl, ?_, (by intro hh; cases hh), (by intro hh; cases hh), ?_⟩
          · simp only; rw [this, srcSeg_length]
          · simp only; rw [this, srcSeg_length]; omega
        · cases hp2
      · split
        · rename_i d hp3
          split at hp3
          · rename_i hcond
            have := peekBytes_spec h hc _ d hp3
            have hne : s.finalOffset ≠ maxByteCount := by omega
            have hf := h.final hne
            refine ⟨h, rfl, rfl, ?_, (by intro hh; cases hh), ?_, ?_⟩
            · simp only; rw [this, srcSeg_length]
            · intro _; simp only; rw [this, srcSeg_length]; exact ⟨by omega, hne⟩
            · simp only; rw [this, srcSeg_length]; omega
          · cases hp3
        · exact peekBlocked_spec h n evs (by intro hh; rw [hh] at hl; exact absurd rfl hl)

/-- **Peek.** From a state satisfying the invariant `Peek(b)` (|b| = n) never panics, does not move the
read position, returns source bytes at the read position, and says EOF only when those bytes end at
the (known) final offset. -/
theorem peek_stream_spec {src : Nat → UInt8} {s : RStream} (h : SInv src s) (n : Nat) (hn : 2 * n < maxByteCount) :
    PeekRes src s n (s.peek n) := by
  unfold RStream.peek
  split
  · exact ⟨h, rfl, rfl, by simp [srcSeg_zero], (by intro hh; cases hh), (by intro hh; cases hh), by simp⟩
  split
  · rename_i heof
    simp only [Bool.and_eq_true, Option.isNone_iff_eq_none] at heof
    refine ⟨h, rfl, rfl, by simp [srcSeg_zero], (by intro hh; cases hh), ?_, by simp⟩
    intro _
    have hcu := h.cur_none heof.2
    have hl := h.last heof.1
    have h2 := h.high_rp
    have h3 := h.hmax
    have hne : s.finalOffset ≠ maxByteCount := by omega
    have hf := h.final hne
    simp only [List.length_nil, Nat.add_zero]
    exact ⟨by omega, hne⟩
  split
  · exact ⟨h, rfl, rfl, by simp [srcSeg_zero], (by intro hh; cases hh), (by intro hh; cases hh), by simp⟩
  split
  · exact ⟨h, rfl, rfl, by simp [srcSeg_zero], (by intro hh; cases hh), (by intro hh; cases hh), by simp⟩
  obtain ⟨d1, d2, d3, d4, d5, d6⟩ := sdeqIfNeeded_spec h
  simp only
  rw [d1]
  simp only [Bool.false_eq_true, if_false]
  have lift : ∀ r, PeekRes src s.deqIfNeeded.1 n r → PeekRes src s n r := by
    intro r hr
    exact ⟨hr.inv, by rw [hr.rp, d3], by rw [hr.fin, d4], by rw [← d3]; exact hr.data, hr.nopanic,
      by rw [← d3, ← d4]; exact hr.eof, hr.len⟩
  apply lift
  split
  · rename_i hcn
    exact peekBlocked_spec d2 n _ (fun _ => d2.cur_none hcn)
  · rename_i cur hcs
    split
    · rename_i hlt
      exact peekCur_spec d2 hcs hlt n _ hn
    · exact absurd (d5 cur hcs) (by assumption)

end Uquic.Proofs.Stream
