/-
Routing: the packet handler map contains exactly the connection IDs the
generator still answers for, all routed to the live connection; after close
nothing of the connection remains once the closing period is over.
-/
import Uquic.Model.ConnID.Routing
import Uquic.Proofs.ConnIDGen

namespace Uquic.Proofs.ConnID
open Uquic.Model.ConnID

def keysOf (r : Routing) : List Bytes := r.handlers.map (·.1)

theorem lookupH_none {id : Bytes} : ∀ {hs : List (Bytes × Handler)}, lookupH id hs = none ↔ id ∉ hs.map (·.1)
  | [] => by simp [lookupH]
  | (k, h) :: rest => by
    unfold lookupH
    by_cases hk : k = id
    · simp [hk]
    · simp only [hk, ↓reduceIte, List.map_cons, List.mem_cons]
      rw [lookupH_none (hs := rest)]
      constructor
      · intro hn hc; rcases hc with hc | hc
        · exact hk hc.symm
        · exact hn hc
      · intro hn hc; exact hn (Or.inr hc)

theorem lookupH_some_mem {id : Bytes} {h : Handler} : ∀ {hs : List (Bytes × Handler)}, lookupH id hs = some h → (id, h) ∈ hs
  | [], hl => by simp [lookupH] at hl
  | (k, x) :: rest, hl => by
    unfold lookupH at hl
    by_cases hk : k = id
    · simp [hk] at hl; subst hl; subst hk; simp
    · simp [hk] at hl; exact List.mem_cons_of_mem _ (lookupH_some_mem hl)

theorem lookupH_of_mem {id : Bytes} {h : Handler} : ∀ {hs : List (Bytes × Handler)}, (hs.map (·.1)).Nodup → (id, h) ∈ hs →
    lookupH id hs = some h
  | [], _, hm => by simp at hm
  | (k, x) :: rest, hn, hm => by
    simp only [List.map_cons, List.nodup_cons] at hn
    simp only [List.mem_cons, Prod.mk.injEq] at hm
    unfold lookupH
    rcases hm with ⟨rfl, rfl⟩ | hm
    · simp
    · have : k ≠ id := by
        intro hk; subst hk; exact hn.1 (List.mem_map.mpr ⟨(k, h), hm, rfl⟩)
      simp only [this, ↓reduceIte]
      exact lookupH_of_mem hn.2 hm

/-- the handler map as far as the live connection is concerned -/
structure MapOK (r : Routing) : Prop where
  allConn : ∀ kv ∈ r.handlers, kv.2 = Handler.conn
  nodup : (keysOf r).Nodup
  noTimers : r.timers = []

theorem add_ok {r : Routing} (h : MapOK r) (id : Bytes) :
    MapOK (r.add id) ∧ ∀ x, x ∈ keysOf (r.add id) ↔ x ∈ keysOf r ∨ x = id := by
  unfold Routing.add
  cases hl : lookupH id r.handlers with
  | some v =>
    simp only
    refine ⟨h, ?_⟩
    intro x
    constructor
    · intro hx; exact Or.inl hx
    · rintro (hx | rfl)
      · exact hx
      · have := lookupH_some_mem hl
        exact List.mem_map.mpr ⟨(x, v), this, rfl⟩
  | none =>
    simp only
    have hnot := lookupH_none.mp hl
    refine ⟨⟨?_, ?_, h.noTimers⟩, ?_⟩
    · intro kv hkv
      simp only [List.mem_append, List.mem_singleton] at hkv
      rcases hkv with hkv | rfl
      · exact h.allConn kv hkv
      · rfl
    · simp only [keysOf, List.map_append, List.map_cons, List.map_nil]
      rw [List.nodup_append]
      refine ⟨h.nodup, by simp, ?_⟩
      intro a ha b hb hab
      simp only [List.mem_singleton] at hb
      subst hb; subst hab
      exact hnot ha
    · intro x; simp [keysOf]

theorem remove_ok {r : Routing} (h : MapOK r) (id : Bytes) :
    MapOK (r.remove id) ∧ ∀ x, x ∈ keysOf (r.remove id) ↔ x ∈ keysOf r ∧ x ≠ id := by
  unfold Routing.remove
  refine ⟨⟨?_, ?_, h.noTimers⟩, ?_⟩
  · intro kv hkv; exact h.allConn kv (List.mem_filter.mp hkv).1
  · exact List.Nodup.sublist (List.Sublist.map _ List.filter_sublist) h.nodup
  · intro x
    simp only [keysOf, List.mem_map, List.mem_filter]
    constructor
    · rintro ⟨kv, ⟨hkv, hne⟩, rfl⟩
      exact ⟨⟨kv, hkv, rfl⟩, by simpa using hne⟩
    · rintro ⟨⟨kv, hkv, rfl⟩, hne⟩
      exact ⟨kv, ⟨hkv, by simpa using hne⟩, rfl⟩

theorem removeMany_ok : ∀ (ids : List Bytes) {r : Routing}, MapOK r →
    MapOK ((ids.map GEv.rmRoute).foldl Routing.applyG r) ∧
    ∀ x, x ∈ keysOf ((ids.map GEv.rmRoute).foldl Routing.applyG r) ↔ x ∈ keysOf r ∧ x ∉ ids
  | [], r, h => by simp; exact h
  | id :: ids, r, h => by
    simp only [List.map_cons, List.foldl_cons, Routing.applyG]
    have h1 := remove_ok h id
    have h2 := removeMany_ok ids h1.1
    refine ⟨h2.1, ?_⟩
    intro x
    rw [h2.2 x, h1.2 x]
    simp only [List.mem_cons, not_or]
    constructor
    · rintro ⟨⟨a, b⟩, c⟩; exact ⟨a, b, c⟩
    · rintro ⟨a, b, c⟩; exact ⟨⟨a, b⟩, c⟩

/-! ### the generator's view -/

theorem mem_allIDs {g : Generator} {x : Bytes} :
    x ∈ g.allIDs ↔ g.initialClientDest = some x ∨ (∃ kv ∈ g.active, kv.2 = x) ∨ (∃ c ∈ g.toRetire, c.2 = x) := by
  unfold Generator.allIDs
  cases g.initialClientDest <;> simp [Option.toList, eq_comm]

theorem insertRetire_perm (t : Int) (id : Bytes) : ∀ (l : List (Int × Bytes)),
    ((insertRetire t id l).map (·.2)).Perm (id :: l.map (·.2))
  | [] => by simp [insertRetire]
  | x :: xs => by
    unfold insertRetire
    split
    · simp
    · simp only [List.map_cons]
      exact (List.Perm.cons _ (insertRetire_perm t id xs)).trans (List.Perm.swap _ _ _)

theorem active_remove_perm {s : Nat} {id : Bytes} : ∀ {l : List (Nat × Bytes)}, (l.map (·.1)).Nodup → lookupSeq s l = some id →
    (l.map (·.2)).Perm (id :: (l.filter fun kv => kv.1 ≠ s).map (·.2))
  | [], _, h => by simp [lookupSeq] at h
  | (k, x) :: rest, hn, h => by
    simp only [List.map_cons, List.nodup_cons] at hn
    unfold lookupSeq at h
    by_cases hk : k = s
    · simp only [hk, ↓reduceIte, Option.some.injEq] at h
      subst h
      have hall : ∀ a ∈ rest, (!decide (a.1 = s)) = true := by
        intro a ha
        simp only [Bool.not_eq_eq_eq_not, Bool.not_true, decide_eq_false_iff_not]
        intro hk2; apply hn.1; rw [hk]; exact List.mem_map.mpr ⟨a, ha, hk2⟩
      simp only [List.filter_cons, hk, ne_eq, List.map_cons, decide_not, decide_true, Bool.not_true, Bool.false_eq_true,
        ↓reduceIte]
      rw [List.filter_eq_self.mpr hall]
    · simp only [hk, ↓reduceIte] at h
      have ih := active_remove_perm hn.2 h
      simp only [List.filter_cons, hk, ne_eq, not_false_eq_true, decide_true, ↓reduceIte, List.map_cons]
      exact (List.Perm.cons _ ih).trans (List.Perm.swap _ _ _)

/-- invariant tying generator and handler map together. `I` = the connection IDs registered at connection setup. -/
structure RInv (mk : Nat → Bytes) (I : List Bytes) (g : Generator) (r : Routing) : Prop where
  map : MapOK r
  exact : ∀ x, x ∈ keysOf r ↔ x ∈ g.allIDs
  idsNodup : g.allIDs.Nodup
  known : ∀ x ∈ g.allIDs, x ∈ I ∨ ∃ k, k < g.generated ∧ x = mk k
  seqNodup : (g.active.map (·.1)).Nodup
  seqLe : ∀ kv ∈ g.active, kv.1 ≤ g.highestSeq

/-- the application's ConnectionIDGenerator returns fresh connection IDs -/
structure FreshGen (mk : Nat → Bytes) (I : List Bytes) : Prop where
  inj : ∀ a b, mk a = mk b → a = b
  notInitial : ∀ k, mk k ∉ I

theorem issue_rinv {mk : Nat → Bytes} {I : List Bytes} (hf : FreshGen mk I) {g : Generator} {r : Routing}
    (h : RInv mk I g r) :
    RInv mk I (g.issueNewConnID mk).1 ((g.issueNewConnID mk).2.foldl Routing.applyG r) := by
  have hfresh : mk g.generated ∉ g.allIDs := by
    intro hm
    rcases h.known _ hm with hI | ⟨k, hk, he⟩
    · exact hf.notInitial _ hI
    · have := hf.inj _ _ he; omega
  have hperm : (g.issueNewConnID mk).1.allIDs.Perm (mk g.generated :: g.allIDs) := by
    unfold Generator.issueNewConnID Generator.allIDs
    simp only [List.map_append, List.map_cons, List.map_nil]
    have : (g.initialClientDest.toList ++ (g.active.map (·.2) ++ [mk g.generated]) ++ g.toRetire.map (·.2)).Perm
        (mk g.generated :: (g.initialClientDest.toList ++ g.active.map (·.2) ++ g.toRetire.map (·.2))) := by
      rw [← List.append_assoc, List.append_assoc _ [mk g.generated]]
      exact List.perm_middle
    exact this
  simp only [Generator.issueNewConnID, List.foldl_cons, List.foldl_nil, Routing.applyG] at hperm ⊢
  have ha := add_ok h.map (mk g.generated)
  refine ⟨ha.1, ?_, ?_, ?_, ?_, ?_⟩
  · intro x
    rw [ha.2 x, hperm.mem_iff, h.exact x]
    simp only [List.mem_cons]
    constructor
    · rintro (hx | hx); exact Or.inr hx; exact Or.inl hx
    · rintro (hx | hx); exact Or.inr hx; exact Or.inl hx
  · rw [hperm.nodup_iff, List.nodup_cons]; exact ⟨hfresh, h.idsNodup⟩
  · intro x hx
    rw [hperm.mem_iff] at hx
    simp only [List.mem_cons] at hx
    rcases hx with rfl | hx
    · right; exact ⟨g.generated, by simp, rfl⟩
    · rcases h.known x hx with hI | ⟨k, hk, he⟩
      · exact Or.inl hI
      · right; exact ⟨k, by simp only; omega, he⟩
  · simp only [List.map_append, List.map_cons, List.map_nil]
    rw [List.nodup_append]
    refine ⟨h.seqNodup, by simp, ?_⟩
    intro a ha' b hb hab
    simp only [List.mem_singleton] at hb
    subst hb; subst hab
    obtain ⟨kv, hkv, hk⟩ := List.mem_map.mp ha'
    have := h.seqLe kv hkv
    omega
  · intro kv hkv
    simp only [List.mem_append, List.mem_singleton] at hkv
    rcases hkv with hkv | rfl
    · have := h.seqLe kv hkv; simp only; omega
    · simp

theorem issueN_rinv {mk : Nat → Bytes} {I : List Bytes} (hf : FreshGen mk I) : ∀ (n : Nat) {g : Generator} {r : Routing},
    RInv mk I g r → RInv mk I (Generator.issueN mk n g).1 ((Generator.issueN mk n g).2.foldl Routing.applyG r)
  | 0, g, r, h => by simpa [Generator.issueN] using h
  | n + 1, g, r, h => by
    simp only [Generator.issueN, List.foldl_append]
    exact issueN_rinv hf n (issue_rinv hf h)

/-- an invariant-preserving change of the generator that keeps the set of connection IDs and emits no callback -/
theorem rinv_of_perm {mk : Nat → Bytes} {I : List Bytes} {g g' : Generator} {r : Routing} (h : RInv mk I g r)
    (hp : g'.allIDs.Perm g.allIDs) (hgen : g'.generated = g.generated)
    (hs : (g'.active.map (·.1)).Nodup) (hle : ∀ kv ∈ g'.active, kv.1 ≤ g'.highestSeq) : RInv mk I g' r := by
  refine ⟨h.map, ?_, ?_, ?_, hs, hle⟩
  · intro x; rw [h.exact x, hp.mem_iff]
  · rw [hp.nodup_iff]; exact h.idsNodup
  · intro x hx; rw [hp.mem_iff] at hx; rw [hgen]; exact h.known x hx

theorem retire_rinv {mk : Nat → Bytes} {I : List Bytes} (hf : FreshGen mk I) {g : Generator} {r : Routing}
    (h : RInv mk I g r) (seq : Nat) (d : Bytes) (e : Int) :
    RInv mk I (g.retire mk seq d e).1 ((g.retire mk seq d e).2.1.foldl Routing.applyG r) := by
  unfold Generator.retire
  split
  · exact h
  split
  · exact h
  rename_i id hl
  split
  · exact h
  -- the connection ID moves from the active map to the retire list
  have hmoved : RInv mk I { g with toRetire := insertRetire e id g.toRetire, active := g.active.filter fun kv => kv.1 ≠ seq } r := by
    refine rinv_of_perm (g' := { g with toRetire := insertRetire e id g.toRetire, active := g.active.filter fun kv => kv.1 ≠ seq })
      h ?_ rfl ?_ ?_
    rotate_left
    · exact List.Nodup.sublist (List.Sublist.map _ List.filter_sublist) h.seqNodup
    · intro kv hkv; exact h.seqLe kv (List.mem_filter.mp hkv).1
    · unfold Generator.allIDs
      simp only
      have p1 := active_remove_perm h.seqNodup hl
      have p2 := insertRetire_perm e id g.toRetire
      -- icd ++ F ++ (id :: R)  ~  icd ++ (id :: F) ++ R
      refine (List.Perm.append_left _ p2).trans ?_
      refine List.Perm.trans ?_ (List.Perm.append_right _ (List.Perm.append_left _ p1.symm))
      simp only [List.append_assoc]
      exact List.Perm.append_left _ List.perm_middle
  split
  · exact hmoved
  · exact issue_rinv hf hmoved

theorem hsDone_rinv {mk : Nat → Bytes} {I : List Bytes} {g : Generator} {r : Routing} (h : RInv mk I g r) (e : Int) :
    RInv mk I (g.setHandshakeComplete e) r := by
  unfold Generator.setHandshakeComplete
  split
  · rename_i id hid
    refine rinv_of_perm (g' := { g with toRetire := insertRetire e id g.toRetire, initialClientDest := none })
      h ?_ rfl h.seqNodup h.seqLe
    unfold Generator.allIDs
    simp only [hid, Option.toList, List.nil_append]
    have p2 := insertRetire_perm e id g.toRetire
    refine (List.Perm.append_left _ p2).trans ?_
    simp only [List.cons_append, List.nil_append]
    exact List.perm_middle
  · exact h

theorem takeWhile_append_dropWhile_map {α β} (p : α → Bool) (f : α → β) (l : List α) :
    (l.takeWhile p).map f ++ (l.dropWhile p).map f = l.map f := by
  rw [← List.map_append, List.takeWhile_append_dropWhile]

theorem removeRetired_rinv {mk : Nat → Bytes} {I : List Bytes} {g : Generator} {r : Routing} (h : RInv mk I g r) (now : Int) :
    RInv mk I (g.removeRetiredConnIDs now).1 ((g.removeRetiredConnIDs now).2.foldl Routing.applyG r) := by
  unfold Generator.removeRetiredConnIDs
  simp only
  -- the callbacks are exactly `RemoveConnectionID` for the prefix that is due
  have hev : (g.toRetire.takeWhile fun c => decide (¬ c.1 > now)).map (fun c => GEv.rmRoute c.2)
      = ((g.toRetire.takeWhile fun c => decide (¬ c.1 > now)).map (·.2)).map GEv.rmRoute := by simp
  rw [hev]
  have hrm := removeMany_ok ((g.toRetire.takeWhile fun c => decide (¬ c.1 > now)).map (·.2)) h.map
  have hsplit := takeWhile_append_dropWhile_map (fun c : Int × Bytes => decide (¬ c.1 > now)) (·.2) g.toRetire
  -- all IDs before = (rest) ++ taken, up to permutation
  have hperm : g.allIDs.Perm ((g.initialClientDest.toList ++ g.active.map (·.2) ++
      (g.toRetire.dropWhile fun c => decide (¬ c.1 > now)).map (·.2)) ++
      (g.toRetire.takeWhile fun c => decide (¬ c.1 > now)).map (·.2)) := by
    unfold Generator.allIDs
    rw [← hsplit]
    simp only [List.append_assoc]
    exact List.Perm.append_left _ (List.Perm.append_left _ List.perm_append_comm)
  have hnd := hperm.nodup_iff.mp h.idsNodup
  rw [List.nodup_append] at hnd
  refine ⟨hrm.1, ?_, ?_, ?_, h.seqNodup, h.seqLe⟩
  · intro x
    rw [hrm.2 x, h.exact x, hperm.mem_iff]
    unfold Generator.allIDs
    simp only [List.mem_append]
    constructor
    · rintro ⟨hx | hx, hn⟩
      · exact hx
      · exact absurd hx hn
    · intro hx
      refine ⟨Or.inl hx, ?_⟩
      intro ht
      exact hnd.2.2 x (by simp only [List.mem_append]; exact hx) x ht rfl
  · unfold Generator.allIDs; exact hnd.1
  · intro x hx
    apply h.known x
    rw [hperm.mem_iff]
    unfold Generator.allIDs at hx
    exact List.mem_append_left _ hx

theorem step_rinv {mk : Nat → Bytes} {I : List Bytes} (hf : FreshGen mk I) {g : Generator} {r : Routing}
    (h : RInv mk I g r) (op : GOp) :
    RInv mk I (g.step mk op).1 ((g.step mk op).2.1.foldl Routing.applyG r) := by
  cases op with
  | setMax l =>
    simp only [Generator.step, Generator.setMaxActiveConnIDs]
    split
    · exact h
    · exact issueN_rinv hf _ h
  | retire s d e => exact retire_rinv hf h s d e
  | hsDone e => exact hsDone_rinv h e
  | removeRetired n => exact removeRetired_rinv h n

/-- generator and handler map run together: the routing callbacks of every step are applied to the map -/
def runSys (mk : Nat → Bytes) : Generator → Routing → List GOp → Generator × Routing
  | g, r, [] => (g, r)
  | g, r, op :: ops => runSys mk (g.step mk op).1 ((g.step mk op).2.1.foldl Routing.applyG r) ops

theorem run_rinv {mk : Nat → Bytes} {I : List Bytes} (hf : FreshGen mk I) : ∀ {ops : List GOp} {g : Generator} {r : Routing},
    RInv mk I g r → RInv mk I (runSys mk g r ops).1 (runSys mk g r ops).2
  | [], _, _, h => h
  | op :: ops, _, _, h => by
    simp only [runSys]
    exact run_rinv hf (step_rinv hf h op)

end Uquic.Proofs.ConnID
