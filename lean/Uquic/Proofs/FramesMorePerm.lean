/-
C09 (continued) helper lemmas: the shuffle witness is a genuine permutation, and the exact frame
list a QUICFrames layout serialises into (PADDING / PING frames included, not only the CRYPTO
frames), so that frame COUNTS survive the shuffle and can be read off the wire.
-/
import Uquic.Proofs.FramesPlan
import Uquic.Spec.FramingMon

namespace Uquic.Proofs.FramesMore
open Uquic.Spec.Framing Uquic.Spec.FramingMon Uquic.Model.UQuic.Frames Uquic.Proofs.Frames

/-! ### `permute` yields a permutation -/

/-- pigeonhole: a duplicate-free list that is contained in a list that is not longer is a
    permutation of it -/
theorem perm_of_nodup_subset {α : Type} [DecidableEq α] : ∀ (l₁ l₂ : List α), l₁.Nodup → l₁ ⊆ l₂ →
    l₂.length ≤ l₁.length → l₁.Perm l₂ := by
  intro l₁
  induction l₁ with
  | nil =>
    intro l₂ _ _ hlen
    have : l₂ = [] := List.eq_nil_of_length_eq_zero (by simpa using hlen)
    subst this; exact List.Perm.refl _
  | cons a t ih =>
    intro l₂ hnd hsub hlen
    have ha : a ∈ l₂ := hsub (List.mem_cons_self ..)
    have hnd' := List.nodup_cons.mp hnd
    have hp : l₂.Perm (a :: l₂.erase a) := List.perm_cons_erase ha
    have hsub' : t ⊆ l₂.erase a := by
      intro x hx
      have hne : x ≠ a := by intro e; subst e; exact hnd'.1 hx
      exact (List.mem_erase_of_ne hne).mpr (hsub (List.mem_cons_of_mem _ hx))
    have hlen' : (l₂.erase a).length ≤ t.length := by
      rw [List.length_erase_of_mem ha]; simp only [List.length_cons] at hlen; omega
    exact ((ih _ hnd'.2 hsub' hlen').cons a).trans hp.symm

theorem filterMap_range_getElem? {α : Type} : ∀ (l : List α),
    (List.range l.length).filterMap (fun i => l[i]?) = l := by
  intro l
  induction l with
  | nil => rfl
  | cons a t ih =>
    rw [List.length_cons, List.range_succ_eq_map, List.filterMap_cons]
    have : ((fun i => (a :: t)[i]?) ∘ Nat.succ) = fun i => t[i]? := by
      funext i; simp
    simp only [List.getElem?_cons_zero, List.filterMap_map, this, ih]

theorem pick_eq_filterMap {α : Type} (l : List α) : ∀ (is : List Nat) (l' : List α),
    pick l is = some l' → l' = is.filterMap (fun i => l[i]?) := by
  intro is
  induction is with
  | nil => intro l' h; simp [pick] at h; subst h; rfl
  | cons i is ih =>
    intro l' h
    simp only [pick] at h
    split at h
    · rename_i x xs hx hxs
      obtain rfl := Option.some.inj h
      rw [List.filterMap_cons, hx, ← ih xs hxs]
    · simp at h

/-- `math/rand.Shuffle` as represented by a witness: the shuffled list is a permutation of the
    planned one — same frames, same multiplicities -/
theorem permute_perm {α : Type} {l l' : List α} {perm : List Nat} (h : permute l perm = some l') :
    l'.Perm l := by
  unfold permute at h
  split at h
  · rename_i hp
    simp only [isPerm, Bool.and_eq_true, List.all_eq_true, List.mem_range, beq_iff_eq] at hp
    obtain ⟨⟨hlen, _⟩, hall⟩ := hp
    have hsub : List.range l.length ⊆ perm := by
      intro j hj
      have := hall j (List.mem_range.mp hj)
      simpa using this
    have hperm : (List.range l.length).Perm perm :=
      perm_of_nodup_subset _ _ List.nodup_range hsub (by simp [hlen])
    rw [pick_eq_filterMap l perm l' h]
    have := hperm.filterMap (fun i => l[i]?)
    rw [filterMap_range_getElem?] at this
    exact this.symm
  · simp at h

/-! ### the exact frames of a serialised layout -/

/-- the frames the reference reader sees for one layout entry: a PADDING entry of `l` bytes is `l`
    one-byte PADDING frames (RFC 9000 §19.1) -/
def frameSpec (low : Int) (data : List UInt8) (base : Nat) : QFrame → List Frame
  | .crypto off len =>
    [Frame.crypto (off + (base : Int)).toNat
      ((data.drop (rstart low data.length off).toNat).take (rlen low data.length off len).toNat)]
  | .padding l => List.replicate l.toNat Frame.padding
  | .ping => [Frame.ping]

theorem buildOne_frames {low : Int} {data : List UInt8} {base : Nat} {f : QFrame}
    (h : FrameOk low data.length base f) :
    ∃ bytes, buildOne low data base f = some bytes ∧
      ∀ rest, readFrames (bytes ++ rest) = (readFrames rest).map (frameSpec low data base f ++ ·) := by
  cases f with
  | ping =>
    refine ⟨[1], rfl, ?_⟩
    intro rest; rw [List.singleton_append, readFrames_ping]; cases readFrames rest <;> simp [frameSpec]
  | padding l =>
    simp only [FrameOk] at h
    refine ⟨List.replicate l.toNat 0, ?_, ?_⟩
    · simp [buildOne]; omega
    · intro rest; exact readFrames_paddings _ _
  | crypto off len =>
    simp only [FrameOk] at h
    obtain ⟨h1, h2, h4, h5, h6⟩ := h
    obtain ⟨hs0, hsn⟩ := rstart_bounds (n := data.length) h1
    obtain ⟨hl0, hln⟩ := rlen_bounds (n := data.length) h1 h2
    have hw : (off + (base : Int)) % u64 = off + (base : Int) := by
      apply Int.emod_eq_of_lt h4
      have := maxVarInt8_eq; unfold u64; omega
    obtain ⟨a, ha⟩ := appendVarint_isSome (v := (off + (base : Int)).toNat) (by omega)
    have hl8 : (rlen low data.length off len).toNat ≤ maxVarInt8 := by omega
    obtain ⟨b, hb⟩ := appendVarint_isSome hl8
    let d := (data.drop (rstart low data.length off).toNat).take (rlen low data.length off len).toNat
    have hdl : d.length = (rlen low data.length off len).toNat := by
      simp only [d, List.length_take, List.length_drop]; omega
    refine ⟨[6] ++ a ++ b ++ d, ?_, ?_⟩
    · simp only [buildOne, hw, ha]
      have e0 : min (off - low) (data.length : Int) = rstart low data.length off := rfl
      rw [e0]
      have e : (if len = 0 ∨ len > (data.length : Int) - rstart low data.length off
          then (data.length : Int) - rstart low data.length off else len) = rlen low data.length off len := rfl
      rw [e, if_neg (by omega), hb]
      simp only []
      rw [if_neg (by omega)]
      have : (rlen low data.length off len).toNat - (data.length - (rstart low data.length off).toNat) = 0 := by omega
      simp [this, d]
    · intro rest
      have := readFrames_crypto d rest ha (by rw [hdl]; exact hb)
      rw [this]; cases readFrames rest <;> simp [frameSpec, d]

/-- a layout whose entries are in their parameter range serialises into exactly `frameSpec` of its
    entries, in order -/
theorem buildAll_frames {low : Int} {data : List UInt8} {base : Nat} : ∀ (fs : List QFrame),
    (∀ f ∈ fs, FrameOk low data.length base f) →
    ∃ p, buildAll low data base fs = some p ∧ readFrames p = some (fs.flatMap (frameSpec low data base)) := by
  intro fs
  induction fs with
  | nil => intro _; exact ⟨[], rfl, readFrames_nil⟩
  | cons f fs ih =>
    intro h
    obtain ⟨bytes, hb, hr⟩ := buildOne_frames (h f (List.mem_cons_self ..))
    obtain ⟨p, hp, hrp⟩ := ih (fun g hg => h g (List.mem_cons_of_mem _ hg))
    refine ⟨bytes ++ p, ?_, ?_⟩
    · simp [buildAll, hb, hp]
    · rw [hr, hrp]; simp

/-! ### counting -/

def isPingQ : QFrame → Bool
  | .ping => true
  | _ => false

def isCryptoQ : QFrame → Bool
  | .crypto _ _ => true
  | _ => false

def isPaddingQ : QFrame → Bool
  | .padding _ => true
  | _ => false

/-- total number of PADDING bytes a layout asks for -/
def padBytesQ : List QFrame → Nat
  | [] => 0
  | .padding l :: fs => l.toNat + padBytesQ fs
  | _ :: fs => padBytesQ fs

theorem count_frames (low : Int) (data : List UInt8) (base : Nat) : ∀ (fs : List QFrame),
    ((fs.flatMap (frameSpec low data base)).filter isPing).length = (fs.filter isPingQ).length ∧
    (cryptoOf (fs.flatMap (frameSpec low data base))).length = (fs.filter isCryptoQ).length ∧
    ((fs.flatMap (frameSpec low data base)).filter isPadding).length = padBytesQ fs := by
  intro fs
  induction fs with
  | nil => simp [cryptoOf, padBytesQ]
  | cons f fs ih =>
    obtain ⟨h1, h2, h3⟩ := ih
    cases f with
    | ping =>
      simp only [List.flatMap_cons, frameSpec, List.filter_append, List.length_append, cryptoOf_append]
      refine ⟨?_, ?_, ?_⟩
      · rw [h1]; simp [isPing, isPingQ, List.filter_cons]; omega
      · rw [h2]; simp [cryptoOf, isCryptoQ]
      · rw [h3]; simp [isPadding, padBytesQ]
    | crypto off len =>
      simp only [List.flatMap_cons, frameSpec, List.filter_append, List.length_append, cryptoOf_append]
      refine ⟨?_, ?_, ?_⟩
      · rw [h1]; simp [isPing, isPingQ]
      · rw [h2]; simp [cryptoOf, isCryptoQ, List.filter_cons]; omega
      · rw [h3]; simp [isPadding, padBytesQ]
    | padding l =>
      simp only [List.flatMap_cons, frameSpec, List.filter_append, List.length_append, cryptoOf_append]
      refine ⟨?_, ?_, ?_⟩
      · rw [h1]
        have : (List.replicate l.toNat Frame.padding).filter isPing = [] := by
          rw [List.filter_eq_nil_iff]; intro x hx; rw [List.eq_of_mem_replicate hx]; simp [isPing]
        simp [this, isPingQ]
      · rw [h2, cryptoOf_replicate_padding]; simp [isCryptoQ]
      · rw [h3]
        have : (List.replicate l.toNat Frame.padding).filter isPadding = List.replicate l.toNat Frame.padding := by
          rw [List.filter_eq_self]; intro x hx; rw [List.eq_of_mem_replicate hx]; rfl
        simp [this, padBytesQ]

theorem padBytesQ_perm {l l' : List QFrame} (h : l.Perm l') : padBytesQ l = padBytesQ l' := by
  induction h with
  | nil => rfl
  | cons x _ ih => cases x <;> simp [padBytesQ, ih]
  | swap x y l => cases x <;> cases y <;> simp [padBytesQ] <;> omega
  | trans _ _ ih1 ih2 => exact ih1.trans ih2

theorem padBytesQ_append (a b : List QFrame) : padBytesQ (a ++ b) = padBytesQ a + padBytesQ b := by
  induction a with
  | nil => simp [padBytesQ]
  | cons x xs ih => cases x <;> simp [padBytesQ, ih] <;> omega

end Uquic.Proofs.FramesMore
