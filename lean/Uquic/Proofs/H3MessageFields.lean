/-
Helper definitions and lemmas for the C18 ∘ C19 composition, field-section side.

ADAPTER DEFINITIONS
* `Qpack`            QPACK as a PARAMETER: an encoder from field lists to field-section bytes and a decoder
                     back (`none` = decoding error), with the round-trip contract `RoundTrip`
                     (`dec (enc fs) = some fs`) as the only assumption — exactly the contract C19's
                     theorems are stated under (sampled by the h3f driver's `qpack` op);
* `serverHead`       `readHead` ∘ decode ∘ `requestFromHeaders` (server_conn.go handleRequestStream);
* `clientHead`       `readHead` ∘ decode ∘ `updateResponseFromHeaders` (stream.go ReadResponse);
* `recvTrailers`     decode ∘ `parseTrailers` of the section `Stream.Read` handed to its callback
                     (headers.go decodeTrailers after the io.ReadFull that C18's model contains).

Lemmas: the exact `Req` / `Resp` the parser side builds from what the request writer / response writer
emit (C19's `writer_parser_agree`, `response_writer_parser_agree` turned into equations, with cookie
joining, Content-Length normalisation and `Trailer` extraction explicit).
-/
import Uquic.Props.C19
import Uquic.Proofs.H3Message

namespace Uquic.Proofs.H3Msg
open Uquic.Model.H3.Fields Uquic.Model.H3.Writer Uquic.Gen.H3Fields Uquic.Proofs.Fields
open Uquic.Spec.H3Fields (WellFormed sectionSize isPseudoName)

/-- QPACK, abstractly -/
structure Qpack where
  enc : List Field → List Nat
  dec : List Nat → Option (List Field)

/-- the round-trip contract: the decoder returns what the encoder was given -/
def Qpack.RoundTrip (q : Qpack) : Prop := ∀ fs, q.dec (q.enc fs) = some fs

inductive RecvErr where
  | head (e : HeadErr)
  | fields (e : Err)
deriving DecidableEq, Repr

/-- the server's processing of the head of a request stream -/
def serverHead (q : Qpack) (ext urlOK : List Nat → Bool) (mh : Nat) (p : Uquic.Model.H3.PState) :
    Uquic.Model.H3.PState × Except RecvErr Req :=
  match readHead p mh with
  | (p1, .error e) => (p1, .error (.head e))
  | (p1, .ok sec) =>
    match q.dec sec with
    | none => (p1, .error (.fields .qpack))
    | some fs =>
      match requestFromHeaders ext urlOK mh fs false with
      | .error e => (p1, .error (.fields e))
      | .ok r => (p1, .ok r)

/-- the client's `ReadResponse` up to the construction of the body -/
def clientHead (q : Qpack) (ext : List Nat → Bool) (mh : Nat) (p : Uquic.Model.H3.PState) :
    Uquic.Model.H3.PState × Except RecvErr Resp :=
  match readHead p mh with
  | (p1, .error e) => (p1, .error (.head e))
  | (p1, .ok sec) =>
    match q.dec sec with
    | none => (p1, .error (.fields .qpack))
    | some fs =>
      match updateResponseFromHeaders ext mh fs false with
      | .error e => (p1, .error (.fields e))
      | .ok r => (p1, .ok r)

/-- what `decodeTrailers` makes of the section the stream handed over (`none`: no trailer section) -/
def recvTrailers (q : Qpack) (ext : List Nat → Bool) (mh : Nat) (s : Uquic.Model.H3.MsgStream) :
    Option (Except Err Headers) :=
  s.trailer.map fun sec =>
    match q.dec sec with
    | none => .error .qpack
    | some fs => parseTrailers ext mh fs

/-! ### the request the server builds -/

/-- `requestFromHeaders`: repeated Cookie fields are joined with "; " into one -/
def joinCookies (h : Headers) : Headers :=
  if (hdrValues h kCookie).isEmpty then h else hdrSet h kCookie (joinWith [59, 32] (hdrValues h kCookie))

/-- the header map `parseHeaders` stores for what `encodeHeaders` emitted: the regular fields in emission
    order under canonicalised keys, Content-Length (if sent) moved to the end as a single normalised entry -/
def parsedReqHeaders (ua : List Nat) (w : WReq) : Headers :=
  if shouldSendCL w.method w.contentLength then
    hdrSet (decodedHeaders (regularPart ua w)) kContentLength (fmtNat w.contentLength.toNat)
  else decodedHeaders (regularPart ua w)

/-- the Content-Length the server's request body enforces (-1: none declared) -/
def parsedReqCL (w : WReq) : Int := if shouldSendCL w.method w.contentLength then w.contentLength else -1

/-- the `http.Request` fields the handler sees for an ordinary (non-CONNECT) request -/
def expectedReq (ua : List Nat) (w : WReq) (host : List Nat) : Req :=
  { method := w.method, proto := vHTTP30, host := host, requestURI := emittedPath w host, urlFromPath := true,
    contentLength := parsedReqCL w,
    headers := (extractAnnouncedTrailers (joinCookies (parsedReqHeaders ua w))).2,
    trailer := (extractAnnouncedTrailers (joinCookies (parsedReqHeaders ua w))).1 }

theorem validPseudoPath_ne (v : List Nat) (h : validPseudoPath v = true) : v ≠ [] := by
  intro hc; subst hc; simp [validPseudoPath] at h

theorem request_fields_agree (ext urlOK : List Nat → Bool) (ua : List Nat) (w : WReq) (fs : List Field) (host : List Nat)
    (hv : ValidRequest ua w) (hw : encodeHeaders ua w = .ok fs) (hm : w.method ≠ mConnect)
    (hp : w.puny = some host) (hhost : host ≠ []) (hurl : urlOK (emittedPath w host) = true)
    (lim : Int) (hlim : sectionSize fs ≤ lim) :
    requestFromHeaders ext urlOK lim fs false = .ok (expectedReq ua w host) := by
  obtain ⟨_, h, host', hparse, hp', a1, a2, a3, _, a5, _, a7, a8⟩ :=
    Uquic.Props.C19.writer_parser_agree ext ua w fs hv hw lim hlim
  have hh : host' = host := by rw [hp] at hp'; exact (Option.some.inj hp').symm
  subst hh
  have hie : isExtendedConnect w = false := by simp [isExtendedConnect, hm]
  have hnp : needPath w = true := by simp [needPath, hm]
  simp only [hnp, ↓reduceIte] at a3
  simp only [hie, Bool.false_eq_true, ↓reduceIte] at a5
  obtain ⟨_, _, _, _, hpath, _⟩ := encode_decompose ua w fs hw
  have hpne : h.path ≠ [] := by
    rw [a3]
    obtain ⟨host2, hp2, _, _, hvp, _⟩ := encode_decompose ua w fs hw
    have : host2 = host' := by rw [hp] at hp2; exact (Option.some.inj hp2).symm
    subst this
    exact validPseudoPath_ne _ (hvp hnp)
  have hmne : h.method ≠ [] := by
    rw [a1]; intro hc
    have := hv.method
    simp [hc, validFieldName] at this
  have hmc : h.method ≠ mConnect := by rw [a1]; exact hm
  have hane : h.authority ≠ [] := by rw [a2]; exact hhost
  have hhdrs : h.headers = parsedReqHeaders ua w ∧ h.contentLength = parsedReqCL w := by
    unfold parsedReqHeaders parsedReqCL
    by_cases hs : shouldSendCL w.method w.contentLength = true
    · obtain ⟨c1, c2⟩ := a7 hs
      simp only [hs, ↓reduceIte]; exact ⟨c2, c1⟩
    · have hs' : shouldSendCL w.method w.contentLength = false := by simpa using hs
      obtain ⟨c1, c2⟩ := a8 hs'
      simp only [hs', Bool.false_eq_true, ↓reduceIte]; exact ⟨c2, c1⟩
  have hpne' : emittedPath w host' ≠ [] := by rw [← a3]; exact hpne
  simp only [parseHeaders] at hparse
  simp only [requestFromHeaders, hparse, hpne', hmc, decide_false, Bool.false_and, Bool.false_eq_true, ↓reduceIte,
    Bool.not_false, Bool.true_and, a5, hpne, hane, hmne, Bool.or_self, ne_eq, not_true_eq_false,
    not_false_eq_true, decide_true, Bool.or_false, Bool.true_or, a3, hurl, Bool.not_true]
  simp only [expectedReq, joinCookies, hhdrs.1, hhdrs.2, a1, a2]

/-! ### the response the client builds -/

/-- is a Content-Length field emitted? -/
def respHasCL (hs : List (List Nat × List (List Nat))) : Bool :=
  (responseRegular hs).any (fun f => f.1 == nContentLength)

/-- the header map `parseHeaders` stores for what `writeHeader` emitted -/
def parsedRespHeaders (hs : List (List Nat × List (List Nat))) (clv : List Nat) : Headers :=
  if respHasCL hs then hdrSet (decodedHeaders (responseRegular hs)) kContentLength clv
  else decodedHeaders (responseRegular hs)

/-- the Content-Length the client's response body enforces (-1: none declared) -/
def parsedRespCL (hs : List (List Nat × List (List Nat))) (clv : List Nat) : Int :=
  if respHasCL hs then (decVal clv : Int) else -1

/-- the `http.Response` fields the client sees -/
def expectedResp (st : Int) (hs : List (List Nat × List (List Nat))) (clv : List Nat) : Resp :=
  { status := st, contentLength := parsedRespCL hs clv,
    headers := (extractAnnouncedTrailers (parsedRespHeaders hs clv)).2,
    trailer := (extractAnnouncedTrailers (parsedRespHeaders hs clv)).1 }

theorem resp_view (ext : List Nat → Bool) (lim : Int) (fs : List Field) (r : Resp)
    (hp : updateResponseFromHeaders ext lim fs false = .ok r) :
    ∃ h, parseHeaders ext false lim fs = .ok h ∧ r.contentLength = h.contentLength ∧
      r.headers = (extractAnnouncedTrailers h.headers).2 ∧ r.trailer = (extractAnnouncedTrailers h.headers).1 := by
  unfold updateResponseFromHeaders at hp
  split at hp
  · cases hp
  rename_i hdr hparse
  split at hp
  · cases hp
  simp only [] at hp
  split at hp
  · cases hp
  · cases hp
    exact ⟨hdr, hparse, rfl, rfl, rfl⟩

theorem status_not_cl : nStatus ≠ nContentLength := by decide

theorem response_fields_agree (ext : List Nat → Bool) (st : Int) (hs : List (List Nat × List (List Nat))) (clv : List Nat)
    (hv : ValidResponse st hs clv) (lim : Int) (hlim : sectionSize (responseFields st hs) ≤ lim) :
    updateResponseFromHeaders ext lim (responseFields st hs) false = .ok (expectedResp st hs clv) := by
  obtain ⟨_, r, hr, hst⟩ := Uquic.Props.C19.response_writer_parser_agree ext st hs clv hv lim hlim
  obtain ⟨h, hparse, v1, v2, v3⟩ := resp_view ext lim _ r hr
  have hR := responseRegular_ok st hs clv hv
  have hall : ∀ f ∈ responseFields st hs, f.1 = nContentLength → f.2 = clv := by
    intro f hf hn
    simp only [responseFields, List.mem_cons] at hf
    rcases hf with rfl | hf
    · exact absurd hn status_not_cl
    · rcases hR f hf with h | ⟨_, h⟩
      · exact absurd hn h.2.2.2.2.2.2
      · exact h
  have hdec : decodedHeaders (responseFields st hs) = decodedHeaders (responseRegular hs) := by
    have := decodedHeaders_parts [(nStatus, itoa st)] (responseRegular hs) (by intro f hf; simp at hf; subst hf; exact status_facts.1)
    simpa [responseFields] using this
  obtain ⟨p1, p2⟩ := parse_cl_result ext false lim _ h hparse clv hall
  have key : h.contentLength = parsedRespCL hs clv ∧ h.headers = parsedRespHeaders hs clv := by
    unfold parsedRespCL parsedRespHeaders
    by_cases hc : respHasCL hs = true
    · have hex : ∃ f ∈ responseFields st hs, f.1 = nContentLength := by
        simp only [respHasCL, List.any_eq_true, beq_iff_eq] at hc
        obtain ⟨f, hf, hn⟩ := hc
        exact ⟨f, by simp [responseFields, hf], hn⟩
      obtain ⟨q1, q2⟩ := p1 hex
      simp only [hc, ↓reduceIte]
      exact ⟨q1, by rw [q2, hdec]⟩
    · have hc' : respHasCL hs = false := by simpa using hc
      have hno : ∀ f ∈ responseFields st hs, f.1 ≠ nContentLength := by
        intro f hf hn
        simp only [responseFields, List.mem_cons] at hf
        rcases hf with rfl | hf
        · exact status_not_cl hn
        · have : respHasCL hs = true := by
            simp only [respHasCL, List.any_eq_true, beq_iff_eq]; exact ⟨f, hf, hn⟩
          rw [hc'] at this; cases this
      obtain ⟨q1, q2⟩ := p2 hno
      simp only [hc', Bool.false_eq_true, ↓reduceIte]
      exact ⟨q1, by rw [q2, hdec]⟩
  rw [hr]
  congr 1
  obtain ⟨s, c, hd, t⟩ := r
  simp only at hst v1 v2 v3
  subst hst
  simp only [expectedResp, Resp.mk.injEq, true_and]
  exact ⟨by rw [v1, key.1], by rw [v2, key.2], by rw [v3, key.2]⟩

/-! ### trailers -/

/-- what the receiving side's `decodeTrailers` must yield for the trailer map `t` the writer was given:
    nothing if `writeTrailers` wrote no section, else the emitted fields under canonicalised keys -/
def expectedTrailers (t : List (List Nat × List (List Nat))) : Option (Except Err Headers) :=
  (writeTrailers t).map fun tf => .ok (tf.map fun f => (canonKey f.1, f.2))

theorem recvTrailers_agree (q : Qpack) (hq : q.RoundTrip) (ext : List Nat → Bool) (mh : Nat)
    (t : List (List Nat × List (List Nat))) (hvt : ValidTrailers t)
    (hsz : ∀ tf, writeTrailers t = some tf → sectionSize tf ≤ mh)
    (s : Uquic.Model.H3.MsgStream) (hs : s.trailer = (writeTrailers t).map q.enc) :
    recvTrailers q ext mh s = expectedTrailers t := by
  unfold recvTrailers expectedTrailers
  rw [hs]
  cases hw : writeTrailers t with
  | none => rfl
  | some tf =>
    obtain ⟨hp, _⟩ := Uquic.Props.C19.trailer_writer_parser_agree ext t tf hvt hw mh (hsz tf hw)
    simp only [Option.map_some, hq tf, hp]

end Uquic.Proofs.H3Msg
