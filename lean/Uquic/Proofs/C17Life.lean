/-
Helper lemmas for Uquic.Props.C17Life (life cycle of a Transport's read loop, property C17).
-/
import Uquic.Model.Close.TrLife

namespace Uquic.Proofs.C17Life
open Uquic.Model.Close.TrLife

theorem maybeStop_closeErr (cfg : Cfg) (s : Tr) : (maybeStop cfg s).closeErr = s.closeErr := by
  unfold maybeStop; split <;> rfl

theorem maybeStop_handlers (cfg : Cfg) (s : Tr) : (maybeStop cfg s).handlers = s.handlers := by
  unfold maybeStop; split <;> rfl

theorem maybeStop_stopped (cfg : Cfg) (s : Tr) :
    (maybeStop cfg s).stopped = (s.stopped || (cfg.single && s.closeErr)) := by
  unfold maybeStop; split <;> rename_i h <;> simp_all

theorem stopIfDrained_closeErr (cfg : Cfg) (s : Tr) : (stopIfDrained cfg s).closeErr = s.closeErr := by
  unfold stopIfDrained; split
  · exact maybeStop_closeErr cfg s
  · rfl

theorem stopIfDrained_handlers (cfg : Cfg) (s : Tr) : (stopIfDrained cfg s).handlers = s.handlers := by
  unfold stopIfDrained; split
  · exact maybeStop_handlers cfg s
  · rfl

/-- whatever the state, right after "if the table is empty, maybeStopListening" the sentence holds -/
theorem released_stopIfDrained (cfg : Cfg) (s : Tr) : Released cfg (stopIfDrained cfg s) := by
  intro hs hc hh
  rw [stopIfDrained_closeErr] at hc
  rw [stopIfDrained_handlers] at hh
  unfold stopIfDrained
  simp only [hh, List.isEmpty_nil, if_true]
  rw [maybeStop_stopped]; simp [hs, hc]

theorem released_fire (cfg : Cfg) (s : Tr) (t : Timer) : Released cfg (fire cfg s t) :=
  released_stopIfDrained cfg _

theorem released_fireAll (cfg : Cfg) (ts : List Timer) : ∀ s, Released cfg s → Released cfg (fireAll cfg s ts) := by
  induction ts with
  | nil => intro s h; exact h
  | cons t ts ih => intro s _; exact ih _ (released_fire cfg s t)

theorem addOne_ne_nil (o : Owner) (hs : List (Nat × Owner)) (id : Nat) : addOne o hs id ≠ [] := by
  unfold addOne; split
  · rename_i h; intro e; subst e; simp at h
  · simp

theorem setOne_ne_nil (o : Owner) (hs : List (Nat × Owner)) (id : Nat) : setOne o hs id ≠ [] := by
  unfold setOne; simp

theorem add_ne_nil (cfg : Cfg) (o : Owner) (hs : List (Nat × Owner)) (k : Nat) :
    (idsOf cfg k).foldl (addOne o) hs ≠ [] := by
  unfold idsOf; split
  · simp only [List.foldl_cons, List.foldl_nil]; exact addOne_ne_nil _ _ _
  · simp only [List.foldl_cons, List.foldl_nil]; exact addOne_ne_nil _ _ _

theorem replace_ne_nil (cfg : Cfg) (o : Owner) (hs : List (Nat × Owner)) (k : Nat) :
    (idsOf cfg k).foldl (setOne o) hs ≠ [] := by
  unfold idsOf; split
  · simp only [List.foldl_cons, List.foldl_nil]; exact setOne_ne_nil _ _ _
  · simp only [List.foldl_cons, List.foldl_nil]; exact setOne_ne_nil _ _ _

/-- one step keeps the sentence, provided the Remove path also looks at the table (or is not taken) -/
theorem released_step (cfg : Cfg) (s : Tr) (e : Ev) (hok : cfg.removeStops = true ∨ e.isRemove = false)
    (h : Released cfg s) : Released cfg (step cfg s e) := by
  cases e with
  | listen =>
    simp only [step]; split
    · exact h
    · intro a b c; exact h a b c
  | closeListener =>
    simp only [step]; split
    · exact released_stopIfDrained cfg _
    · exact h
  | add k =>
    intro _ _ hh
    exact absurd hh (add_ne_nil cfg _ _ k)
  | replace k wp =>
    intro _ _ hh
    exact absurd hh (replace_ne_nil cfg _ _ k)
  | remove k =>
    rcases hok with hok | hok
    · simp only [step, hok, if_true]
      exact released_stopIfDrained cfg _
    · simp [Ev.isRemove] at hok
  | wait ms =>
    simp only [step]
    apply released_fireAll
    intro a b c; exact h a b c
  | close =>
    intro _ _ _
    simp only [step, doClose]

theorem released_run (cfg : Cfg) (es : List Ev) : ∀ s, (cfg.removeStops = true ∨ ∀ e ∈ es, e.isRemove = false) →
    Released cfg s → Released cfg (run cfg s es) := by
  induction es with
  | nil => intro s _ h; exact h
  | cons e es ih =>
    intro s hok h
    apply ih
    · rcases hok with hok | hok
      · exact Or.inl hok
      · exact Or.inr (fun e' he' => hok e' (List.mem_cons_of_mem _ he'))
    · apply released_step cfg s e _ h
      rcases hok with hok | hok
      · exact Or.inl hok
      · exact Or.inr (hok e (List.mem_cons_self))

/-! the read loop stops only over an empty table -/

/-- `Drained s`: a stopped read loop saw an empty routing table (and the table stayed empty) -/
def Drained (s : Tr) : Prop := s.stopped = true → s.handlers = []

theorem drained_stopIfDrained (cfg : Cfg) (s : Tr) (h : Drained s) : Drained (stopIfDrained cfg s) := by
  unfold stopIfDrained
  split
  · rename_i he
    intro _
    rw [maybeStop_handlers]
    exact List.isEmpty_iff.mp he
  · exact h

theorem drained_fire (cfg : Cfg) (s : Tr) (t : Timer) (h : Drained s) : Drained (fire cfg s t) := by
  unfold fire
  apply drained_stopIfDrained
  intro hs
  have := h hs
  simp [this]

theorem drained_fireAll (cfg : Cfg) (ts : List Timer) : ∀ s, Drained s → Drained (fireAll cfg s ts) := by
  induction ts with
  | nil => intro s h; exact h
  | cons t ts ih => intro s h; exact ih _ (drained_fire cfg s t h)

end Uquic.Proofs.C17Life
