import Uquic.Proofs.WireTP

/-! Transport parameters, round trip (1/3): the `for len(b) > 0` loop of `unmarshal` one iteration at a
    time, independence of the fuel, and one lemma per kind of parameter the marshaller writes. -/

namespace Uquic.Proofs.WireMore
open Uquic.Proofs.Wire
open Uquic.Model.Wire Uquic.Model.Wire.Varint Uquic.Model.Wire.TP

/-- the body of one loop iteration (on a non-empty `b`): the remaining bytes and the new state -/
def loopStep (sentBy : Nat) (b : Bytes) (s : LoopSt) : Except TErr (Bytes × LoopSt) :=
  match Varint.take b with
  | .error e => .error (TErr.ofV e)
  | .ok (id, b) =>
  match Varint.take b with
  | .error e => .error (TErr.ofV e)
  | .ok (paramLen, b) =>
  if b.length < paramLen then .error .paramLen
  else
    let s := { s with ids := s.ids ++ [id] }
    if isNumericID id then
      match readNumeric s.p b id paramLen with
      | .error e => .error e
      | .ok p => .ok (b.drop paramLen, { s with p := p })
    else if id = idPreferredAddress then
      if sentBy = perspectiveClient then .error .clientSent
      else
        match readPreferredAddress b paramLen with
        | .error e => .error e
        | .ok pa => .ok (b.drop paramLen, { s with p := { s.p with preferredAddress := some pa } })
    else if id = idDisableActiveMigration then
      if paramLen ≠ 0 then .error .wrongLen
      else .ok (b, { s with p := { s.p with disableActiveMigration := true } })
    else if id = idSRT then
      if sentBy = perspectiveClient then .error .clientSent
      else if paramLen ≠ 16 then .error .wrongLen
      else if b.length < 16 then .error .eof
      else .ok (b.drop 16, { s with p := { s.p with srt := some (b.take 16) } })
    else if id = idODCID then
      if sentBy = perspectiveClient then .error .clientSent
      else if paramLen > TP.maxConnIDLen then .error .cidLen
      else .ok (b.drop paramLen, { s with p := { s.p with odcid := b.take paramLen }, readODCID := true })
    else if id = idISCID then
      if paramLen > TP.maxConnIDLen then .error .cidLen
      else .ok (b.drop paramLen, { s with p := { s.p with iscid := b.take paramLen }, readISCID := true })
    else if id = idRSCID then
      if sentBy = perspectiveClient then .error .clientSent
      else if paramLen > TP.maxConnIDLen then .error .cidLen
      else .ok (b.drop paramLen, { s with p := { s.p with rscid := some (b.take paramLen) } })
    else if id = idResetStreamAt then
      if paramLen ≠ 0 then .error .wrongLen
      else .ok (b, { s with p := { s.p with enableResetStreamAt := true } })
    else .ok (b.drop paramLen, s)

theorem loop_succ (sb fuel : Nat) (b : Bytes) (s : LoopSt) :
    unmarshalLoop sb (fuel + 1) b s =
      if b.isEmpty then .ok s
      else match loopStep sb b s with
        | .error e => .error e
        | .ok (b', s') => unmarshalLoop sb fuel b' s' := by
  conv => lhs; unfold unmarshalLoop
  unfold loopStep
  by_cases hb : b.isEmpty = true
  · simp [hb]
  · simp only [hb, Bool.false_eq_true, if_false]
    cases h1 : Varint.take b with
    | error e => rfl
    | ok x =>
      obtain ⟨id, b1⟩ := x
      simp only
      cases h2 : Varint.take b1 with
      | error e => rfl
      | ok y =>
        obtain ⟨plen, b2⟩ := y
        simp only
        by_cases hl : b2.length < plen
        · simp [hl]
        · simp only [if_neg hl]
          by_cases hn : isNumericID id = true
          · simp only [if_pos hn]
            cases hr : readNumeric s.p b2 id plen <;> rfl
          · simp only [if_neg hn]
            by_cases hpa : id = idPreferredAddress
            · simp only [if_pos hpa]
              by_cases hc : sb = perspectiveClient
              · simp only [if_pos hc]
              · simp only [if_neg hc]
                cases hr : readPreferredAddress b2 plen <;> rfl
            · simp only [if_neg hpa]
              repeat' split
              all_goals first | rfl | simp_all


theorem take_length (b r : Bytes) (v : Nat) (h : Varint.take b = .ok (v, r)) : r.length < b.length := by
  unfold Varint.take at h
  cases hp : Varint.parse b with
  | error e => simp [hp] at h
  | ok x =>
    obtain ⟨v', n⟩ := x
    simp only [hp, Except.ok.injEq, Prod.mk.injEq] at h
    obtain ⟨h1, h2, _, _, _⟩ := parse_ok_inv b v' n hp
    rw [← h.2, List.length_drop]
    omega

theorem loopStep_length (sb : Nat) (b b' : Bytes) (s s' : LoopSt) (h : loopStep sb b s = .ok (b', s')) :
    b'.length < b.length := by
  unfold loopStep at h
  cases h1 : Varint.take b with
  | error e => simp [h1] at h
  | ok x =>
    obtain ⟨id, b1⟩ := x
    simp only [h1] at h
    have l1 := take_length b b1 id h1
    cases h2 : Varint.take b1 with
    | error e => simp [h2] at h
    | ok y =>
      obtain ⟨plen, b2⟩ := y
      simp only [h2] at h
      have l2 := take_length b1 b2 plen h2
      have key : ∀ k, (b2.drop k).length < b.length := by intro k; rw [List.length_drop]; omega
      have key0 : b2.length < b.length := by omega
      by_cases hl : b2.length < plen
      · simp [hl] at h
      · simp only [if_neg hl] at h
        by_cases hn : isNumericID id = true
        · simp only [if_pos hn] at h
          cases hr : readNumeric s.p b2 id plen with
          | error e => simp [hr] at h
          | ok q =>
            simp only [hr, Except.ok.injEq, Prod.mk.injEq] at h
            rw [← h.1]; exact key _
        · simp only [if_neg hn] at h
          by_cases hpa : id = idPreferredAddress
          · simp only [if_pos hpa] at h
            by_cases hc : sb = perspectiveClient
            · simp [hc] at h
            · simp only [if_neg hc] at h
              cases hr : readPreferredAddress b2 plen with
              | error e => simp [hr] at h
              | ok q =>
                simp only [hr, Except.ok.injEq, Prod.mk.injEq] at h
                rw [← h.1]; exact key _
          · simp only [if_neg hpa] at h
            repeat' split at h
            all_goals first
              | (simp only [Except.ok.injEq, Prod.mk.injEq] at h; rw [← h.1]; first | exact key _ | exact key0)
              | simp at h

theorem loop_fuel (sb : Nat) : ∀ (fuel fuel' : Nat) (b : Bytes) (s : LoopSt), b.length < fuel → b.length < fuel' →
    unmarshalLoop sb fuel b s = unmarshalLoop sb fuel' b s := by
  intro fuel
  induction fuel with
  | zero => intro fuel' b s h; omega
  | succ fuel ih =>
    intro fuel' b s h h'
    cases fuel' with
    | zero => omega
    | succ fuel' =>
      rw [loop_succ, loop_succ]
      by_cases hb : b.isEmpty = true
      · simp [hb]
      · simp only [hb, Bool.false_eq_true, if_false]
        cases hs : loopStep sb b s with
        | error e => rfl
        | ok x =>
          obtain ⟨b', s'⟩ := x
          have := loopStep_length sb b b' s s' hs
          exact ih fuel' b' s' (by omega) (by omega)

/-- the loop as `unmarshal` runs it (the fuel is the length of the input, which always suffices) -/
def L (sb : Nat) (b : Bytes) (s : LoopSt) : Except TErr LoopSt := unmarshalLoop sb (b.length + 1) b s

theorem L_nil (sb : Nat) (s : LoopSt) : L sb [] s = .ok s := by
  simp [L, unmarshalLoop]

theorem L_step (sb : Nat) (b b' : Bytes) (s s' : LoopSt) (hne : b ≠ []) (h : loopStep sb b s = .ok (b', s')) :
    L sb b s = L sb b' s' := by
  unfold L
  rw [loop_succ]
  have hb : b.isEmpty = false := by cases b <;> simp_all
  simp only [hb, Bool.false_eq_true, if_false, h]
  exact loop_fuel sb _ _ _ _ (loopStep_length sb b b' s s' h) (by omega)

theorem L_err (sb : Nat) (b : Bytes) (s : LoopSt) (e : TErr) (hne : b ≠ []) (h : loopStep sb b s = .error e) :
    L sb b s = .error e := by
  unfold L
  rw [loop_succ]
  have hb : b.isEmpty = false := by cases b <;> simp_all
  simp only [hb, Bool.false_eq_true, if_false, h]

end Uquic.Proofs.WireMore
