/-
`detectAndRemoveAckedPackets` (property C06): the collection loop never reaches the "BUG: would have
acked wrong packet" branch, collects tracked packet numbers covered by the ACK in strictly ascending
order, and the removal loop then finds every one of them (no "packet not found", no nil entry).
-/
import Uquic.Proofs.SentFlight

namespace Uquic.Proofs.Sent
open Uquic.Model.Sent List

/-! ### `lookup` after `cleanupStart` / `Remove` -/

theorem dropNones_split (l : List (Option Packet)) :
    ∃ k, l = List.replicate k none ++ dropNones l := by
  induction l with
  | nil => exact ⟨0, rfl⟩
  | cons x xs ih =>
    cases x with
    | none =>
      obtain ⟨k, hk⟩ := ih
      exact ⟨k + 1, by simp only [dropNones, List.replicate_succ, List.cons_append]; rw [← hk]⟩
    | some p => exact ⟨0, rfl⟩

theorem lookup_def (h : Hist) (q : PN) :
    h.lookup q = if h.first ≤ q ∧ (q - h.first).toNat < h.packets.length then (h.packets[(q - h.first).toNat]?).join else none := by
  unfold Hist.lookup Hist.getIndex
  cases hp : h.packets with
  | nil => simp
  | cons a as =>
    simp only [List.isEmpty_cons, Bool.false_eq_true, if_false, List.length_cons]
    by_cases h1 : q < h.first
    · simp only [h1, if_true]; rw [if_neg (by omega)]
    · simp only [h1, if_false]
      by_cases h2 : (q - h.first).toNat > as.length + 1 - 1
      · simp only [h2, if_true]; rw [if_neg (by omega)]
      · simp only [h2, if_false]; rw [if_pos (by omega)]

theorem lookup_cleanupStart (h : Hist) (q : PN) : h.cleanupStart.lookup q = h.lookup q := by
  obtain ⟨k, hk⟩ := dropNones_split h.packets
  have hlen : h.packets.length = k + (dropNones h.packets).length := by
    have := congrArg List.length hk; simpa using this
  rw [lookup_def, lookup_def h]
  unfold Hist.cleanupStart
  simp only []
  by_cases he : (dropNones h.packets).isEmpty = true
  · simp only [he, if_true, List.length_nil]
    have hd : dropNones h.packets = [] := by simpa using he
    rw [hd] at hk hlen
    simp only [List.append_nil] at hk
    rw [if_neg (by simp)]
    split
    · rename_i hc
      rw [hk]
      rw [List.getElem?_replicate]
      split <;> rfl
    · rfl
  · have hef : (dropNones h.packets).isEmpty = false := by simpa using he
    simp only [hef, Bool.false_eq_true, if_false]
    have hk' : h.packets.length - (dropNones h.packets).length = k := by omega
    rw [hk']
    by_cases hc : h.first + (k : Int) ≤ q ∧ (q - (h.first + (k : Int))).toNat < (dropNones h.packets).length
    · rw [if_pos hc, if_pos (by omega)]
      have hidx : (q - h.first).toNat = k + (q - (h.first + (k : Int))).toNat := by omega
      rw [hidx]
      conv => rhs; rw [hk]
      rw [List.getElem?_append_right (by simp)]
      simp
    · rw [if_neg hc]
      by_cases hc2 : h.first ≤ q ∧ (q - h.first).toNat < h.packets.length
      · rw [if_pos hc2]
        have hlt : (q - h.first).toNat < k := by omega
        rw [hk, List.getElem?_append_left (by simpa using hlt), List.getElem?_replicate]
        simp [hlt]
      · rw [if_neg hc2]

theorem lookup_set_none (h : Hist) (idx : Nat) (n : Int) (q : PN) (hne : ¬ (h.first ≤ q ∧ (q - h.first).toNat = idx)) :
    ({ h with packets := h.packets.set idx none, numOutstanding := n } : Hist).lookup q = h.lookup q := by
  rw [lookup_def, lookup_def h]
  simp only [List.length_set]
  split
  · rename_i hc
    rw [List.getElem?_set_ne (by omega)]
  · rfl

theorem getIndex_some {h : Hist} {pn : PN} {idx : Nat} (e : h.getIndex pn = some idx) : h.first ≤ pn ∧ (pn - h.first).toNat = idx := by
  unfold Hist.getIndex at e
  split at e
  · simp at e
  · split at e
    · simp at e
    · simp only [] at e
      split at e
      · simp at e
      · simp at e; omega

theorem remove_lookup_ne {h h' : Hist} {pn q : PN} {p : Packet} (e : h.remove pn = .ok h' p) (hq : q ≠ pn) :
    h'.lookup q = h.lookup q := by
  unfold Hist.remove at e
  cases e1 : h.getIndex pn with
  | none => simp [e1] at e
  | some idx =>
    simp only [e1] at e
    cases e2 : (h.packets[idx]?).join with
    | none => simp [e2] at e
    | some r =>
      simp only [e2] at e
      split at e
      · simp at e
      · split at e
        · simp at e
        · simp only [RemoveRes.ok.injEq] at e
          obtain ⟨e3, _⟩ := e
          subst e3
          obtain ⟨g1, g2⟩ := getIndex_some e1
          have hne : ¬ (h.first ≤ q ∧ (q - h.first).toNat = idx) := by omega
          split
          · exact lookup_set_none h idx _ q hne
          · rw [lookup_cleanupStart]; exact lookup_set_none h idx _ q hne

theorem advance_spec (pn : PN) (rem : List Range) (hne : rem ≠ []) :
    ∃ r rest, advance pn rem = r :: rest ∧ (r :: rest) <:+ rem ∧ (pn ≤ r.2 ∨ rest = []) := by
  induction rem with
  | nil => exact absurd rfl hne
  | cons a as ih =>
    cases as with
    | nil => exact ⟨a, [], rfl, List.suffix_refl _, Or.inr rfl⟩
    | cons b bs =>
      simp only [advance]
      split
      · obtain ⟨r, rest, e1, e2, e3⟩ := ih (by simp)
        exact ⟨r, rest, e1, List.IsSuffix.trans e2 (List.suffix_cons a (b :: bs)), e3⟩
      · rename_i hle
        exact ⟨a, b :: bs, rfl, List.suffix_refl _, Or.inl (by omega)⟩

theorem suffix_getLast? {α} {a b : List α} (h : a <:+ b) (hne : a ≠ []) : a.getLast? = b.getLast? := by
  obtain ⟨t, rfl⟩ := h
  cases a with
  | nil => exact absurd rfl hne
  | cons x xs =>
    rw [List.getLast?_append, List.getLast?_eq_some_getLast (l := x :: xs) (by simp)]
    simp

/-- what one call of the collection loop appends -/
def NewOK (multi : Bool) (lowest largest : PN) (pn : PN) (pk : List (Option Packet)) (rem : List Range) (new : List PN) : Prop :=
  List.Pairwise (· < ·) new ∧
  ∀ q ∈ new, ∃ i : Nat, q = pn + i ∧ (∃ p, pk[i]? = some (some p)) ∧ lowest ≤ q ∧ q ≤ largest ∧
    (multi = true → ∃ r ∈ rem, r.1 ≤ q ∧ q ≤ r.2)

theorem NewOK_shift {multi : Bool} {lowest largest pn : PN} {x : Option Packet} {xs : List (Option Packet)} {rem rem' : List Range}
    {new : List PN} (hs : rem' <:+ rem) (h : NewOK multi lowest largest (pn + 1) xs rem' new) :
    NewOK multi lowest largest pn (x :: xs) rem new ∧ ∀ q ∈ new, pn < q := by
  obtain ⟨h1, h2⟩ := h
  refine ⟨⟨h1, ?_⟩, ?_⟩
  · intro q hq
    obtain ⟨i, e1, e2, e3, e4, e5⟩ := h2 q hq
    refine ⟨i + 1, by omega, by simpa using e2, e3, e4, ?_⟩
    intro hm
    obtain ⟨r, hr, hr2⟩ := e5 hm
    exact ⟨r, hs.subset hr, hr2⟩
  · intro q hq
    obtain ⟨i, e1, _⟩ := h2 q hq
    omega

theorem collect_spec (multi : Bool) (lowest largest : PN) (pk : List (Option Packet)) :
    ∀ (pn : PN) (rem : List Range) (probes stash : List (PN × Packet)) (acc : List PN),
      (multi = true → ∃ top, rem.getLast? = some top ∧ top.2 = largest) →
      ∃ probes' stash' new, collect multi lowest largest pn pk rem probes stash acc = .done probes' stash' (acc ++ new) ∧
        NewOK multi lowest largest pn pk rem new := by
  induction pk with
  | nil =>
    intro pn rem probes stash acc _
    exact ⟨probes, stash, [], by simp [collect], List.Pairwise.nil, by intro q hq; simp at hq⟩
  | cons x xs ih =>
    intro pn rem probes stash acc hinv
    cases x with
    | none =>
      simp only [collect]
      obtain ⟨pr, st, new, e1, e2⟩ := ih (pn + 1) rem probes stash acc hinv
      exact ⟨pr, st, new, e1, (NewOK_shift (List.suffix_refl _) e2).1⟩
    | some p =>
      simp only [collect]
      by_cases hlow : pn < lowest
      · simp only [hlow, if_true]
        obtain ⟨pr, st, new, e1, e2⟩ := ih (pn + 1) rem probes stash acc hinv
        exact ⟨pr, st, new, e1, (NewOK_shift (List.suffix_refl _) e2).1⟩
      · simp only [hlow, if_false]
        by_cases hhigh : pn > largest
        · simp only [hhigh, if_true]
          exact ⟨probes, stash, [], by simp, List.Pairwise.nil, by intro q hq; simp at hq⟩
        · simp only [hhigh, if_false]
          -- the range cursor
          have hrem : nextRem multi pn rem <:+ rem ∧ (multi = true → ∃ top, (nextRem multi pn rem).getLast? = some top ∧ top.2 = largest) ∧
              (rangeCheck multi pn (nextRem multi pn rem)).2 = false ∧
              ((rangeCheck multi pn (nextRem multi pn rem)).1 = false → multi = true → ∃ r ∈ nextRem multi pn rem, r.1 ≤ pn ∧ pn ≤ r.2) := by
            cases multi with
            | false => simp [nextRem, rangeCheck]
            | true =>
              obtain ⟨top, ht, ht2⟩ := hinv rfl
              have hne : rem ≠ [] := by intro hc; simp [hc] at ht
              obtain ⟨r, rest, a1, a2, a3⟩ := advance_spec pn rem hne
              simp only [nextRem, if_true, a1, rangeCheck]
              have hl : (r :: rest).getLast? = some top := by rw [suffix_getLast? a2 (by simp)]; exact ht
              refine ⟨a2, fun _ => ⟨top, hl, ht2⟩, ?_, ?_⟩
              · rcases a3 with a3 | a3
                · simp; omega
                · subst a3; simp at hl; subst hl; simp; omega
              · intro hb _
                refine ⟨r, by simp, by simpa using hb, ?_⟩
                rcases a3 with a3 | a3
                · exact a3
                · subst a3; simp at hl; subst hl; omega
          obtain ⟨hsuf, hinv', habove, hcov⟩ := hrem
          by_cases hbelow : (rangeCheck multi pn (nextRem multi pn rem)).1 = true
          · simp only [hbelow, if_true]
            obtain ⟨pr, st, new, e1, e2⟩ := ih (pn + 1) (nextRem multi pn rem) probes stash acc hinv'
            exact ⟨pr, st, new, e1, (NewOK_shift hsuf e2).1⟩
          · simp only [hbelow, habove, Bool.false_eq_true, if_false]
            have hcur : ∃ i : Nat, pn = pn + i ∧ (∃ p', (some p :: xs)[i]? = some (some p')) ∧ lowest ≤ pn ∧ pn ≤ largest ∧
                (multi = true → ∃ r ∈ rem, r.1 ≤ pn ∧ pn ≤ r.2) := by
              refine ⟨0, by simp, ⟨p, by simp⟩, by omega, by omega, ?_⟩
              intro hm
              obtain ⟨r, hr, hr2⟩ := hcov (by simpa using hbelow) hm
              exact ⟨r, hsuf.subset hr, hr2⟩
            by_cases hpp : p.pathProbe = true
            · simp only [hpp, if_true]
              cases hr : removeProbe pn probes with
              | mk o probes' =>
                cases o with
                | some q =>
                  simp only []
                  obtain ⟨pr, st, new, e1, e2⟩ := ih (pn + 1) (nextRem multi pn rem) probes' (stash ++ [(pn, q)]) (acc ++ [pn]) hinv'
                  obtain ⟨s1, s2⟩ := NewOK_shift (x := some p) hsuf e2
                  refine ⟨pr, st, pn :: new, by rw [e1]; simp, ?_, ?_⟩
                  · exact List.pairwise_cons.mpr ⟨s2, s1.1⟩
                  · intro q' hq'
                    rcases List.mem_cons.mp hq' with h | h
                    · subst h; exact hcur
                    · exact s1.2 q' h
                | none =>
                  simp only []
                  obtain ⟨pr, st, new, e1, e2⟩ := ih (pn + 1) (nextRem multi pn rem) probes' stash acc hinv'
                  exact ⟨pr, st, new, e1, (NewOK_shift hsuf e2).1⟩
            · simp only [hpp]
              obtain ⟨pr, st, new, e1, e2⟩ := ih (pn + 1) (nextRem multi pn rem) probes stash (acc ++ [pn]) hinv'
              obtain ⟨s1, s2⟩ := NewOK_shift (x := some p) hsuf e2
              refine ⟨pr, st, pn :: new, by rw [e1]; simp, ?_, ?_⟩
              · exact List.pairwise_cons.mpr ⟨s2, s1.1⟩
              · intro q' hq'
                rcases List.mem_cons.mp hq' with h | h
                · subst h; exact hcur
                · exact s1.2 q' h


/-- the removal loop finds every collected packet number: it completes, and reports exactly the collected
    numbers, in the same (ascending) order, each once -/
theorem ackedLoop_complete (lvl : Level) (acc : List PN) :
    ∀ (h : Hist) (stash : List (PN × Packet)) (evs : List Ev) (done : List (PN × Packet)), FlightOKH h →
      List.Pairwise (· < ·) acc → (∀ q ∈ acc, ∃ p, h.lookup q = some p) →
      (ackedLoop lvl acc h stash evs done).2.2.2.2 = .ok ∧
      (ackedLoop lvl acc h stash evs done).2.2.2.1.map Prod.fst = done.map Prod.fst ++ acc := by
  induction acc with
  | nil => intro h stash evs done _ _ _; simp [ackedLoop]
  | cons pn rest ih =>
    intro h stash evs done f hp hl
    obtain ⟨p, hlp⟩ := hl pn (by simp)
    obtain ⟨h', e1, e2, _⟩ := remove_ok f hlp
    have hp' := List.pairwise_cons.mp hp
    have hl' : ∀ q ∈ rest, ∃ p, h'.lookup q = some p := by
      intro q hq
      have hne : q ≠ pn := by have := hp'.1 q hq; omega
      rw [remove_lookup_ne e1 hne]
      exact hl q (List.mem_cons_of_mem _ hq)
    simp only [ackedLoop, e1]
    generalize hpair : (if p.pathProbe = true then
        match removeProbe pn stash with
        | (some q, st') => (q, st')
        | (none, st') => (p, st')
      else (p, stash)) = pr
    obtain ⟨i1, i2⟩ := ih h' pr.2 (evs ++ (if pr.1.largestAcked ≠ invalidPN ∧ lvl = Level.oneRTT then [Ev.ignore (pr.1.largestAcked + 1)] else []) ++ pr.1.allFrames.map Ev.acked)
      (done ++ [(pn, pr.1)]) e2 hp'.2 hl'
    refine ⟨i1, ?_⟩
    rw [i2]; simp


/-- `detectAndRemoveAckedPackets` on a history satisfying the accounting invariant, for an ACK frame with at
    least one range: the collection loop ends normally (never "BUG: would have acked wrong packet"), the
    collected numbers are strictly ascending, each is tracked and covered by a range of the ACK, and the
    removal loop reports exactly these numbers, each once, without "packet not found" or a nil entry. -/
theorem detectAndRemove_spec (h : Hist) (f : FlightOKH h) (ranges : List Range) (top bot : Range) (lvl : Level)
    (hh : ranges.head? = some top) (hl : ranges.getLast? = some bot) :
    ∃ probes stash acc,
      collect (decide (ranges.length > 1)) bot.1 top.2 h.first h.packets ranges.reverse h.probes [] [] = .done probes stash acc ∧
      List.Pairwise (· < ·) acc ∧
      (∀ q ∈ acc, (∃ p, h.lookup q = some p) ∧ ∃ r ∈ ranges, r.1 ≤ q ∧ q ≤ r.2) ∧
      (ackedLoop lvl acc { h with probes := probes } stash [] []).2.2.2.2 = .ok ∧
      (ackedLoop lvl acc { h with probes := probes } stash [] []).2.2.2.1.map Prod.fst = acc := by
  have hinv : decide (ranges.length > 1) = true → ∃ t, ranges.reverse.getLast? = some t ∧ t.2 = top.2 := by
    intro _; exact ⟨top, by rw [List.getLast?_reverse]; exact hh, rfl⟩
  obtain ⟨pr, st, new, e1, e2, e3⟩ := collect_spec (decide (ranges.length > 1)) bot.1 top.2 h.packets h.first ranges.reverse h.probes [] [] hinv
  simp only [List.nil_append] at e1
  have htracked : ∀ q ∈ new, ∃ p, h.lookup q = some p := by
    intro q hq
    obtain ⟨i, a1, ⟨p, a2⟩, _⟩ := e3 q hq
    exact ⟨p, by rw [a1]; exact lookup_of_index a2⟩
  have f1 : FlightOKH { h with probes := pr } := by
    have cp := collect_probesOK (decide (ranges.length > 1)) bot.1 top.2 h.packets h.first ranges.reverse h.probes [] [] f.probes (by intro x hx; simp at hx)
    rw [e1] at cp
    exact { inflight := f.inflight, nonneg := f.nonneg, count := f.count, head := f.head, probes := cp.1 }
  have hl2 : ∀ q ∈ new, ∃ p, ({ h with probes := pr } : Hist).lookup q = some p := by
    intro q hq; obtain ⟨p, hp⟩ := htracked q hq; exact ⟨p, by rw [← hp]; rfl⟩
  obtain ⟨c1, c2⟩ := ackedLoop_complete lvl new { h with probes := pr } st [] [] f1 e2 hl2
  refine ⟨pr, st, new, e1, e2, ?_, c1, by simpa using c2⟩
  intro q hq
  refine ⟨htracked q hq, ?_⟩
  obtain ⟨i, _, _, a3, a4, a5⟩ := e3 q hq
  by_cases hm : ranges.length > 1
  · obtain ⟨r, hr, hr2⟩ := a5 (by simpa using hm)
    exact ⟨r, by simpa using hr, hr2⟩
  · -- a single range: it is both the first and the last one
    cases ranges with
    | nil => simp at hh
    | cons a as =>
      cases as with
      | nil =>
        simp at hh hl; subst hh hl
        exact ⟨_, by simp, a3, a4⟩
      | cons b bs => simp at hm

theorem ackCore_outcomes {s : State} {env : Env} {ranges : List Range} {lvl : Level} {now : Time} {sp : Space} {top bot : Range}
    (fi : FInv s) (hg : s.getSpace lvl = some sp) (hh : ranges.head? = some top) (hl : ranges.getLast? = some bot) :
    (s.ackCore env ranges lvl now sp bot.1 top.2).2.res = .ok ∨
    (s.ackCore env ranges lvl now sp bot.1 top.2).2.res = .err .ackSkipped ∨
    s.ackedBuf > 0 := by
  obtain ⟨f, hb⟩ := fi
  have fsp := FOK_getSpace f hg
  obtain ⟨rest, r0, r1, r2⟩ := total_frame f hg
  obtain ⟨pr, st, acc, e1, _, _, e4, e5⟩ := detectAndRemove_spec sp.hist fsp ranges top bot lvl hh hl
  unfold State.ackCore
  by_cases h1 : s.ackedBuf > 0
  · right; right; exact h1
  · by_cases h2' : lvl = .oneRTT ∧ sp.hist.skipped.any (acksPacketBin ranges bot.1 top.2)
    · simp only [h1, h2', if_false]; right; left; simp
    · simp only [h1, h2', if_false, e1]
      have cp := collect_probesOK (decide (ranges.length > 1)) bot.1 top.2 sp.hist.packets sp.hist.first ranges.reverse sp.hist.probes [] []
        fsp.probes (by intro x hx; simp at hx)
      rw [e1] at cp
      simp only [CollectRes.probes, CollectRes.stash] at cp
      have f1 : FlightOKH { sp.hist with probes := pr } :=
        { inflight := fsp.inflight, nonneg := fsp.nonneg, count := fsp.count, head := fsp.head, probes := cp.1 }
      have al := ackedLoop_flight lvl acc { sp.hist with probes := pr } st [] [] f1 cp.2 (by intro x hx; simp at hx)
      cases ha : ackedLoop lvl acc { sp.hist with probes := pr } st [] [] with
      | mk h2 r =>
        obtain ⟨stash', evs, removed, res⟩ := r
        rw [ha] at e4 al
        simp only [] at e4 al
        subst e4
        obtain ⟨b1, b2, b3⟩ := al.2 rfl
        simp only []
        by_cases hre : removed.isEmpty = true
        · simp only [hre, if_true]; left; trivial
        · simp only [hre]
          left
          refine (ackTail_flight f hg b1 b2 r2 ?_).1
          simp only [doneSum] at b3
          rw [hb, r1]; omega

/-- under the accounting invariant `ReceivedAck` can only end in one of these ways: the internal "BUG" and
    "packet not found" errors and the nil-entry panic of `detectAndRemoveAckedPackets` are unreachable -/
theorem receivedAck_outcomes {s : State} {env : Env} {ranges : List Range} {lvl : Level} {now : Time} (fi : FInv s)
    (hb : s.ackedBuf = 0) :
    (s.receivedAck env ranges lvl now).2.res = .ok ∨ (s.receivedAck env ranges lvl now).2.res = .err .ackUnsent ∨
    (s.receivedAck env ranges lvl now).2.res = .err .ackSkipped ∨ (s.receivedAck env ranges lvl now).2.res = .panic .nilSpace ∨
    (s.receivedAck env ranges lvl now).2.res = .panic .emptyAck := by
  unfold State.receivedAck
  cases hg : s.getSpace lvl with
  | none => simp
  | some sp =>
    cases hh : ranges.head? with
    | none => simp
    | some top =>
      cases hl : ranges.getLast? with
      | none => simp
      | some bot =>
        simp only []
        by_cases hle : top.2 > sp.largestSent
        · simp only [hle, if_true]; simp
        · simp only [hle, if_false]
          obtain ⟨e1, e2, e3, e4, e5⟩ := completeValidation_spec s env lvl now
          have fi1 : FInv (s.completeValidation env lvl now) := ⟨FOK_eq e1 e2 e3 fi.1, by rw [e4, total_eq e1 e2 e3]; exact fi.2⟩
          have hg' : (s.completeValidation env lvl now).getSpace lvl = some sp := by rw [getSpace_congr e1 e2 e3]; exact hg
          rcases ackCore_outcomes (env := env) (now := now) fi1 hg' hh hl with h | h | h
          · exact Or.inl h
          · exact Or.inr (Or.inr (Or.inl h))
          · omega


@[simp] theorem setSpace_ackedBuf (s : State) (lvl : Level) (sp : Space) : (s.setSpace lvl sp).ackedBuf = s.ackedBuf := by
  cases lvl <;> rfl
@[simp] theorem setTimer_ackedBuf (s : State) (env : Env) (now : Time) : (s.setTimer env now).ackedBuf = s.ackedBuf := rfl

theorem popPacketNumber_ackedBuf (s : State) (lvl : Level) (nts : PN) : (s.popPacketNumber lvl nts).1.ackedBuf = s.ackedBuf := by
  unfold State.popPacketNumber
  split
  · rfl
  · split
    · rfl
    · simp

theorem sentPacket_ackedBuf (s : State) (env : Env) (t : Time) (pn la : PN) (sframes frames : List Frame) (lvl : Level)
    (size : Int) (mtu probe : Bool) : (s.sentPacket env t pn la sframes frames lvl size mtu probe).1.ackedBuf = s.ackedBuf := by
  unfold State.sentPacket
  simp only []
  split
  · rfl
  · split
    · split <;> simp
    · split
      · split <;> simp [State.aeSent]
      · split
        · simp
        · simp only []; split <;> simp

theorem detectLostPackets_ackedBuf (s : State) (env : Env) (now : Time) (lvl : Level) :
    (s.detectLostPackets env now lvl).1.ackedBuf = s.ackedBuf := by
  unfold State.detectLostPackets
  split
  · rfl
  · simp

theorem ackTail_ackedBuf {s : State} {env : Env} {lvl : Level} {now : Time} {largest : PN} {sp : Space} {h2 : Hist}
    {evs : List Ev} {removed : List (PN × Packet)} {sdisc : List Frame} {n : Nat}
    (hok : (s.ackTail env lvl now largest sp h2 evs removed sdisc n).2.res = .ok) :
    (s.ackTail env lvl now largest sp h2 evs removed sdisc n).1.ackedBuf = s.ackedBuf := by
  unfold State.ackTail at hok ⊢
  simp only [] at hok ⊢
  have hd := detectLostPackets_ackedBuf (s.setSpace lvl { sp with hist := h2, largestAcked := max sp.largestAcked largest }) env now lvl
  cases hdl : (s.setSpace lvl { sp with hist := h2, largestAcked := max sp.largestAcked largest }).detectLostPackets env now lvl with
  | mk s3 r =>
    obtain ⟨evsL, pl⟩ := r
    rw [hdl] at hd
    simp only [setSpace_ackedBuf] at hd
    cases pl with
    | some c => simp [hdl] at hok
    | none =>
      simp only [hdl] at hok ⊢
      split at hok
      · simp at hok
      · rename_i b hb
        exact hd

theorem receivedAck_ackedBuf {s : State} {env : Env} {ranges : List Range} {lvl : Level} {now : Time}
    (hok : (s.receivedAck env ranges lvl now).2.res = .ok) : (s.receivedAck env ranges lvl now).1.ackedBuf = s.ackedBuf := by
  unfold State.receivedAck at hok ⊢
  split at hok
  · rename_i sp top bot hg hh hl
    split at hok
    · simp at hok
    · rename_i hle
      rw [if_neg hle]
      obtain ⟨_, _, _, _, e5⟩ := completeValidation_spec s env lvl now
      generalize s.completeValidation env lvl now = s1 at hok e5 ⊢
      rw [← e5]
      unfold State.ackCore at hok ⊢
      split at hok
      · simp at hok
      · rename_i h1
        rw [if_neg h1]
        split at hok
        · simp at hok
        · rename_i h2
          rw [if_neg h2]
          split at hok
          · simp at hok
          · rename_i pr st acc hc
            split at hok
            · simp at hok
            · simp at hok
            · rename_i h2 st' evs removed ha
              split at hok
              · rename_i hre; simp only [hre, if_true]
              · rename_i hre; simp only [hre]
                exact ackTail_ackedBuf hok
  · simp at hok
  · simp at hok

theorem ptoSwitch_ackedBuf (s : State) (lvl : Level) (nts : PN) (evs0 : List Ev) (disc0 : List Frame) :
    (s.ptoSwitch lvl nts evs0 disc0).1.ackedBuf = s.ackedBuf := by
  unfold State.ptoSwitch
  cases lvl with
  | invalid => rfl
  | initial => rfl
  | handshake => rfl
  | zeroRTT => rfl
  | oneRTT =>
    simp only []
    split
    · rfl
    · split <;> rfl

theorem timeoutMain_ackedBuf (s : State) (env : Env) (now : Time) (nts : PN) (evs0 : List Ev) (disc0 : List Frame) :
    (s.timeoutMain env now nts evs0 disc0).1.ackedBuf = s.ackedBuf := by
  unfold State.timeoutMain State.timeoutMainG
  split
  · simp only []; exact detectLostPackets_ackedBuf _ _ _ _
  · split
    · unfold State.antiDeadlockProbe
      simp only []
      split
      · rfl
      · split <;> rfl
    · unfold State.ptoFire
      split
      · rfl
      · split
        · rfl
        · split
          · rfl
          · exact ptoSwitch_ackedBuf _ _ _ _ _

theorem step_ackedBuf {s : State} {op : Op} {e : StepEnv} (hok : (s.step op e).2.res = .ok) :
    (s.step op e).1.ackedBuf = s.ackedBuf := by
  cases op with
  | send lvl now la size mtu probe frames sframes =>
    simp only [State.step] at hok ⊢
    split at hok
    · rw [sentPacket_ackedBuf, popPacketNumber_ackedBuf]
    · rename_i hne; exact absurd hok (by simpa using hne)
  | ack lvl now ranges => exact receivedAck_ackedBuf hok
  | timeout now =>
    simp only [State.step, State.onLossDetectionTimeout, State.timeoutBody, setTimer_ackedBuf]
    rw [timeoutMain_ackedBuf]
  | probe lvl =>
    simp only [State.step, State.queueProbePacket]
    split
    · rfl
    · split
      · rfl
      · split
        · rfl
        · split <;> simp
  | drop lvl now =>
    simp only [State.step, State.dropPackets]
    have h0 : (if s.isClient ∧ lvl = .handshake then ({ s with peerCompleted := true } : State) else s).ackedBuf = s.ackedBuf := by
      split <;> rfl
    generalize (if s.isClient ∧ lvl = .handshake then ({ s with peerCompleted := true } : State) else s) = s1 at h0 ⊢
    rw [← h0]
    cases lvl with
    | invalid => rfl
    | oneRTT => rfl
    | initial =>
      simp only []
      split
      · rfl
      · split <;> rfl
    | handshake =>
      simp only []
      split
      · rfl
      · split <;> rfl
    | zeroRTT =>
      simp only []
      split <;> rfl
  | retry =>
    simp only [State.step, State.resetForRetry]
    split <;> rfl
  | migrate now =>
    simp only [State.step, State.migratedPath]
    split <;> rfl
  | rcvBytes n now =>
    simp only [State.step, State.receivedBytes]
    split <;> rfl
  | rcvPacket lvl now =>
    simp only [State.step, State.receivedPacket]
    split <;> rfl


/-- ascending ranges with a gap between neighbours (what `validateAckRanges` accepts, read backwards) -/
def SortedR (rem : List Range) : Prop := List.Pairwise (fun a b => a.2 + 1 < b.1) rem

theorem advance_dropped (pn : PN) (rem : List Range) : ∀ r ∈ rem, r ∉ advance pn rem → r.2 < pn := by
  induction rem with
  | nil => intro r hr; simp at hr
  | cons a as ih =>
    cases as with
    | nil => intro r hr hn; simp [advance] at hn hr; exact absurd hr hn
    | cons b bs =>
      intro r hr hn
      simp only [advance] at hn
      split at hn
      · rename_i hgt
        rcases List.mem_cons.mp hr with h | h
        · subst h; omega
        · exact ih r h hn
      · exact absurd hr hn

theorem advance_suffix (pn : PN) (rem : List Range) : advance pn rem <:+ rem := by
  induction rem with
  | nil => simp [advance]
  | cons a as ih =>
    cases as with
    | nil => simp [advance]
    | cons b bs =>
      simp only [advance]
      split
      · exact List.IsSuffix.trans ih (List.suffix_cons a (b :: bs))
      · exact List.suffix_refl _

theorem nextRem_suffix (multi : Bool) (pn : PN) (rem : List Range) : nextRem multi pn rem <:+ rem := by
  unfold nextRem; split
  · exact advance_suffix pn rem
  · exact List.suffix_refl _

theorem SortedR_suffix {a b : List Range} (h : a <:+ b) (s : SortedR b) : SortedR a :=
  List.Pairwise.sublist h.sublist s

/-- in a sorted range list, a range covering `pn` that is still in the advanced remainder is its head -/
theorem covering_is_head {pn : PN} {rem : List Range} (hs : SortedR rem) (hne : rem ≠ []) {r : Range} (hr : r ∈ rem)
    (hc : r.1 ≤ pn ∧ pn ≤ r.2) : ∃ rest, advance pn rem = r :: rest := by
  obtain ⟨r0, rest, a1, a2, a3⟩ := advance_spec pn rem hne
  have hmem : r ∈ advance pn rem := by
    by_cases hm : r ∈ advance pn rem
    · exact hm
    · have := advance_dropped pn rem r hr hm; omega
  rw [a1] at hmem
  rcases List.mem_cons.mp hmem with h | h
  · subst h; exact ⟨rest, a1⟩
  · exfalso
    have hs' : SortedR (r0 :: rest) := SortedR_suffix a2 hs
    have := (List.pairwise_cons.mp hs').1 r h
    rcases a3 with a3 | a3
    · omega
    · subst a3; simp at h

theorem collect_acc_mono (multi : Bool) (lowest largest : PN) (pk : List (Option Packet)) (pn : PN) (rem : List Range)
    (probes stash : List (PN × Packet)) (acc : List PN)
    (hinv : multi = true → ∃ top, rem.getLast? = some top ∧ top.2 = largest) {q : PN} (hq : q ∈ acc) :
    q ∈ CollectRes.acc (collect multi lowest largest pn pk rem probes stash acc) := by
  obtain ⟨pr, st, new, e1, _⟩ := collect_spec multi lowest largest pk pn rem probes stash acc hinv
  rw [e1]; simp [CollectRes.acc, hq]

/-- completeness of the collection loop: every tracked, non-probe packet number within the ACK's bounds and
    covered by one of its (sorted) ranges is collected -/
theorem collect_complete (multi : Bool) (lowest largest : PN) (pk : List (Option Packet)) :
    ∀ (pn : PN) (rem : List Range) (probes stash : List (PN × Packet)) (acc : List PN),
      SortedR rem → (multi = true → ∃ top, rem.getLast? = some top ∧ top.2 = largest) →
      ∀ (i : Nat) (p : Packet), pk[i]? = some (some p) → p.pathProbe = false →
        lowest ≤ pn + i → pn + i ≤ largest → (multi = true → ∃ r ∈ rem, r.1 ≤ pn + i ∧ pn + i ≤ r.2) →
        (pn + (i : Int)) ∈ CollectRes.acc (collect multi lowest largest pn pk rem probes stash acc) := by
  induction pk with
  | nil => intro pn rem probes stash acc _ _ i p hi; simp at hi
  | cons x xs ih =>
    intro pn rem probes stash acc hs hinv i p hi hpp hlo hhi hcov
    -- the recursive call for a later position
    have later : ∀ (rem' : List Range) (probes' stash' : List (PN × Packet)) (acc' : List PN) (j : Nat), i = j + 1 →
        rem' <:+ rem → (multi = true → ∃ top, rem'.getLast? = some top ∧ top.2 = largest) →
        (multi = true → ∀ r ∈ rem, r ∉ rem' → r.2 < pn + 1) →
        (pn + (i : Int)) ∈ CollectRes.acc (collect multi lowest largest (pn + 1) xs rem' probes' stash' acc') := by
      intro rem' probes' stash' acc' j hj hsuf hinv' hdrop
      subst hj
      have hi' : xs[j]? = some (some p) := by simpa using hi
      have := ih (pn + 1) rem' probes' stash' acc' (SortedR_suffix hsuf hs) hinv' j p hi' hpp (by omega) (by omega) (by
        intro hm
        obtain ⟨r, hr, hr2⟩ := hcov hm
        refine ⟨r, ?_, by omega, by omega⟩
        by_cases hmem : r ∈ rem'
        · exact hmem
        · have := hdrop hm r hr hmem; omega)
      have e : pn + ((j + 1 : Nat) : Int) = pn + 1 + (j : Int) := by omega
      rw [e]; exact this
    cases x with
    | none =>
      simp only [collect]
      cases i with
      | zero => simp at hi
      | succ j => exact later rem probes stash acc j rfl (List.suffix_refl _) hinv (fun _ r hr hn => absurd hr hn)
    | some p0 =>
      simp only [collect]
      have hdropN : multi = true → ∀ r ∈ rem, r ∉ nextRem multi pn rem → r.2 < pn + 1 := by
        intro hm r hr hn
        simp only [nextRem, hm, if_true] at hn
        have := advance_dropped pn rem r hr hn; omega
      have hinvN : multi = true → ∃ top, (nextRem multi pn rem).getLast? = some top ∧ top.2 = largest := by
        intro hm
        obtain ⟨top, ht, ht2⟩ := hinv hm
        have hne : rem ≠ [] := by intro hc; simp [hc] at ht
        obtain ⟨r, rest, a1, a2, _⟩ := advance_spec pn rem hne
        simp only [nextRem, hm, if_true, a1]
        exact ⟨top, by rw [suffix_getLast? a2 (by simp)]; exact ht, ht2⟩
      by_cases hlow : pn < lowest
      · simp only [hlow, if_true]
        cases i with
        | zero => simp at hlo; omega
        | succ j => exact later rem probes stash acc j rfl (List.suffix_refl _) hinv (fun _ r hr hn => absurd hr hn)
      · simp only [hlow, if_false]
        by_cases hhigh : pn > largest
        · exfalso; omega
        · simp only [hhigh, if_false]
          cases i with
          | succ j =>
            -- whatever happens at `pn`, the loop goes on with the advanced range cursor
            by_cases hb : (rangeCheck multi pn (nextRem multi pn rem)).1 = true
            · simp only [hb, if_true]
              exact later _ probes stash acc j rfl (nextRem_suffix _ _ _) hinvN hdropN
            · simp only [hb, Bool.false_eq_true, if_false]
              by_cases hab : (rangeCheck multi pn (nextRem multi pn rem)).2 = true
              · -- unreachable (collect_spec), but harmless here: the result would be `.bug`
                exfalso
                obtain ⟨pr, st, new, e1, _⟩ := collect_spec multi lowest largest (some p0 :: xs) pn rem probes stash acc hinv
                simp only [collect, hlow, hhigh, if_false, hb, hab, if_true, Bool.false_eq_true] at e1
                cases e1
              · simp only [hab, Bool.false_eq_true, if_false]
                by_cases hp0 : p0.pathProbe = true
                · simp only [hp0, if_true]
                  cases hr : removeProbe pn probes with
                  | mk o probes' =>
                    cases o with
                    | some q => exact later _ probes' _ _ j rfl (nextRem_suffix _ _ _) hinvN hdropN
                    | none => exact later _ probes' _ _ j rfl (nextRem_suffix _ _ _) hinvN hdropN
                · simp only [hp0, Bool.false_eq_true, if_false]
                  exact later _ probes stash _ j rfl (nextRem_suffix _ _ _) hinvN hdropN
          | zero =>
            simp only [List.getElem?_cons_zero, Option.some.injEq] at hi
            subst hi
            simp only [Int.natCast_zero, Int.add_zero] at hlo hhi hcov ⊢
            -- `pn` itself: the range cursor stops at the covering range
            have hchk : (rangeCheck multi pn (nextRem multi pn rem)) = (false, false) := by
              cases multi with
              | false => simp [rangeCheck]
              | true =>
                obtain ⟨r, hr, hr2⟩ := hcov rfl
                obtain ⟨top, ht, _⟩ := hinv rfl
                have hne : rem ≠ [] := by intro hc; simp [hc] at ht
                obtain ⟨rest, hadv⟩ := covering_is_head hs hne hr hr2
                simp only [nextRem, if_true, hadv, rangeCheck]
                simp; omega
            simp only [hchk, Bool.false_eq_true, if_false, hpp]
            apply collect_acc_mono _ _ _ _ _ _ _ _ _ hinvN
            simp


/-- what `wire.AckFrame.validateAckRanges` accepts (wire order: highest range first) -/
def ValidRanges (ranges : List Range) : Prop :=
  (∀ r ∈ ranges, r.1 ≤ r.2) ∧ List.Pairwise (fun a b => b.2 + 1 < a.1) ranges

theorem lookup_index {h : Hist} {q : PN} {p : Packet} (e : h.lookup q = some p) :
    ∃ i : Nat, q = h.first + i ∧ h.packets[i]? = some (some p) := by
  rw [lookup_def] at e
  split at e
  · rename_i hc
    exact ⟨(q - h.first).toNat, by omega, join_some e⟩
  · simp at e

theorem sorted_bounds {rem : List Range} (hs : SortedR rem) (hw : ∀ r ∈ rem, r.1 ≤ r.2) {bot top r : Range}
    (hb : rem.head? = some bot) (ht : rem.getLast? = some top) (hr : r ∈ rem) : bot.1 ≤ r.1 ∧ r.2 ≤ top.2 := by
  induction rem generalizing bot with
  | nil => simp at hr
  | cons a as ih =>
    simp at hb; subst hb
    have hp := List.pairwise_cons.mp hs
    rcases List.mem_cons.mp hr with h | h
    · subst h
      refine ⟨Int.le_refl _, ?_⟩
      cases as with
      | nil => simp at ht; subst ht; exact Int.le_refl _
      | cons b bs =>
        have htm : top ∈ b :: bs := by
          have : (b :: bs).getLast? = some top := by simpa [List.getLast?_cons_cons] using ht
          exact List.mem_of_getLast? this
        have := hp.1 top htm
        have := hw top (List.mem_cons_of_mem _ htm)
        omega
    · cases as with
      | nil => simp at h
      | cons b bs =>
        have ht' : (b :: bs).getLast? = some top := by simpa [List.getLast?_cons_cons] using ht
        obtain ⟨i1, i2⟩ := ih hp.2 (fun r hr => hw r (List.mem_cons_of_mem _ hr)) rfl ht' h
        have := hp.1 b (by simp)
        have := hw a (by simp)
        exact ⟨by omega, i2⟩

/-- completeness of `detectAndRemoveAckedPackets` for frames accepted by `validateAckRanges`: every tracked
    packet (other than the placeholder of a path probe) whose number is covered by a range of the ACK is collected -/
theorem detectAndRemove_complete (h : Hist) (ranges : List Range) (top bot : Range) (hh : ranges.head? = some top)
    (hl : ranges.getLast? = some bot) (hv : ValidRanges ranges) (q : PN) (p : Packet) (hq : h.lookup q = some p)
    (hpp : p.pathProbe = false) (hcov : ∃ r ∈ ranges, r.1 ≤ q ∧ q ≤ r.2) :
    q ∈ CollectRes.acc (collect (decide (ranges.length > 1)) bot.1 top.2 h.first h.packets ranges.reverse h.probes [] []) := by
  obtain ⟨i, e1, e2⟩ := lookup_index hq
  have hs : SortedR ranges.reverse := by
    unfold SortedR
    rw [List.pairwise_reverse]
    exact hv.2
  have hinv : decide (ranges.length > 1) = true → ∃ t, ranges.reverse.getLast? = some t ∧ t.2 = top.2 := by
    intro _; exact ⟨top, by rw [List.getLast?_reverse]; exact hh, rfl⟩
  obtain ⟨r, hr, hr2⟩ := hcov
  have hb := sorted_bounds hs (fun r hr => hv.1 r (by simpa using hr)) (bot := bot) (top := top)
    (by rw [List.head?_reverse]; exact hl) (by rw [List.getLast?_reverse]; exact hh) (r := r) (by simpa using hr)
  rw [e1]
  exact collect_complete _ _ _ _ _ _ _ _ _ hs hinv i p e2 hpp (by omega) (by omega)
    (fun _ => ⟨r, by simpa using hr, by omega, by omega⟩)


end Uquic.Proofs.Sent
