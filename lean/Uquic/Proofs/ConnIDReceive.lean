/-
Helper lemmas for Uquic.Props.C16Rx (the loop of Conn.handleOnePacket, model Uquic.Model.ConnID.Receive).
-/
import Uquic.Model.ConnID.Receive

namespace Uquic.Proofs.ConnIDReceive
open Uquic.Model.ConnID

/-- inside a datagram (at least one packet parsed): everything the unpacker sees carries `last` -/
theorem rxLoop_same (pkts : List Pkt) : ∀ (c : RxConn) (counter : Nat) (last : Bytes), counter > 0 →
    ∀ s ∈ (rxLoop c pkts counter last).2, s.dcid = last := by
  induction pkts with
  | nil => intro c counter last _ s hs; simp [rxLoop] at hs
  | cons p rest ih =>
    intro c counter last hc s hs
    unfold rxLoop at hs
    split at hs
    · simp at hs
    · rename_i hg
      have hw : wireDcid c.idLen p = some last := by
        apply Classical.byContradiction
        intro hne
        exact hg ⟨hc, hne⟩
      split at hs
      · rename_i hlong
        have hd : p.dcid = last := by
          unfold wireDcid at hw
          simp [hlong] at hw
          exact hw.2
        split at hs
        · simp at hs
        · simp only [List.mem_append] at hs
          rcases hs with hs | hs
          · split at hs
            · simp at hs; rw [hs]; exact hd
            · simp at hs
          · have := ih (c.longPacket p).1 (counter + 1) p.dcid (by omega) s hs
            rw [this]; exact hd
      · split at hs
        · simp at hs
        · rename_i d hd
          simp at hs
          rw [hs]
          rw [hw] at hd
          simp at hd
          exact hd.symm

/-- the short header packets among what the unpacker saw -/
def shorts (l : List Seen) : List Seen := l.filter fun s => !s.long

theorem rxLoop_short_last (pkts : List Pkt) : ∀ (c : RxConn) (counter : Nat) (last : Bytes),
    (shorts (rxLoop c pkts counter last).2).length ≤ 1 ∧
    ∀ s ∈ (rxLoop c pkts counter last).2, s.long = false → (rxLoop c pkts counter last).2.getLast? = some s := by
  induction pkts with
  | nil => intro c counter last; simp [rxLoop, shorts]
  | cons p rest ih =>
    intro c counter last
    unfold rxLoop
    split
    · simp [shorts]
    · split
      · split
        · simp [shorts]
        · have h := ih (c.longPacket p).1 (counter + 1) p.dcid
          constructor
          · simp only [shorts, List.filter_append]
            split <;> simp [shorts] at h ⊢ <;> exact h.1
          · intro s hs hl
            simp only [List.mem_append] at hs
            rcases hs with hs | hs
            · split at hs
              · simp at hs; rw [hs] at hl; simp at hl
              · simp at hs
            · have hlast := h.2 s hs hl
              rw [List.getLast?_append, hlast]; rfl
      · split
        · simp [shorts]
        · simp [shorts]

end Uquic.Proofs.ConnIDReceive
