/-
C02 helper lemmas: the send side of the Initial CRYPTO stream of a spec-driven client (crypto_stream.go with scrambling
disabled, model `Uquic.Model.UQuic.Scrambler`) over histories that mix `Write` (TLS hands over a handshake message),
`PopCryptoFrame` (the per-datagram path) and `PopAllCryptoData` (a flight builder takes the whole queued stream).
Extends the plain-stream invariant of `Uquic.Proofs.Stream` (C09) by the third operation.
-/
import Uquic.Proofs.FramesStream

namespace Uquic.Proofs.DialHello
open Uquic.Model.UQuic.Frames Uquic.Model.UQuic.Scrambler Uquic.Proofs.Stream

/-- operations on the send side of the Initial CRYPTO stream -/
inductive HOp where
  | write (p : List UInt8) (env : Sni)
  | pop (maxLen : Int)
  | popAll

/-- a piece of the stream handed out: (stream offset, bytes) -/
abbrev Piece := Int × List UInt8

/-- run a history, collecting the pieces handed out: CRYPTO frames, and for `PopAllCryptoData` the returned bytes at
    the offset the stream had reached (the caller lays its frames out relative to that); `none` = a panic -/
def runH : CS → List HOp → List Piece → Option (CS × List Piece)
  | s, [], acc => some (s, acc)
  | s, .write p env :: ops, acc => runH (write s p env).1 ops acc
  | s, .pop m :: ops, acc =>
    match pop s m with
    | (s', .frame none) => runH s' ops acc
    | (s', .frame (some f)) => runH s' ops (acc ++ [f])
    | (_, .panic) => none
  | s, .popAll :: ops, acc =>
    match popAll s with
    | (s', some d) => if d = [] then runH s' ops acc else runH s' ops (acc ++ [(s.writeOffset, d)])
    | (s', none) => runH s' ops acc

/-- all bytes written by a history -/
def writtenH : List HOp → List UInt8
  | [] => []
  | .write p _ :: ops => p ++ writtenH ops
  | .pop _ :: ops => writtenH ops
  | .popAll :: ops => writtenH ops

/-- `PopAllCryptoData` on a plain stream keeps the run invariant: the bytes handed out are the stream's bytes from the
    old write offset on, and the write offset moves past them -/
theorem baseRun_popAll {lo : Int} {s : CS} {W : List UInt8} {acc : List Piece} (h : BaseRun lo s W acc) :
    (popAll s = (s, none)) ∨
    ∃ s' d, popAll s = (s', some d) ∧ BaseRun lo s' W (if d = [] then acc else acc ++ [(s.writeOffset, d)]) := by
  unfold Uquic.Model.UQuic.Scrambler.popAll
  by_cases hs : s.scramble = true
  · left; simp [hs]
  · right
    rw [if_neg hs]
    refine ⟨_, _, rfl, ?_⟩
    have hb := h.inv.buf
    have h0 := h.inv.woNonneg
    have hle := h.inv.woLe
    have hlen : (s.buf.length : Int) = W.length - s.writeOffset := by
      rw [hb]; simp; omega
    have inv' : BaseInv { s with buf := [], writeOffset := s.writeOffset + s.buf.length } W := by
      refine ⟨h.inv.plain, by simp only []; omega, by simp only []; omega, ?_⟩
      simp only []
      symm
      apply List.drop_eq_nil_of_le
      omega
    by_cases hd : s.buf = []
    · simp only [hd, if_true]
      refine ⟨by simpa [hd] using inv', h.truthful, ?_⟩
      intro i h1 h2
      simp only [List.length_nil] at h2
      exact h.cover i h1 (by simpa using h2)
    · simp only [hd, if_false]
      have tf : Truthful W (s.writeOffset, s.buf) := by
        refine ⟨h0, hd, by simp only []; omega, ?_⟩
        simp only []
        rw [hb]
        apply List.take_of_length_le
        simp
      refine ⟨inv', ?_, ?_⟩
      · intro f hf
        rcases List.mem_append.mp hf with hf | hf
        · exact h.truthful f hf
        · simp only [List.mem_singleton] at hf; subst hf; exact tf
      · intro i h1 h2
        simp only [] at h2
        by_cases hi : i < s.writeOffset
        · exact (h.cover i h1 hi).mono _
        · exact ⟨(s.writeOffset, s.buf), by simp, by simp only []; omega, by simp only []; omega⟩

/-- For every history of writes, frame pops and take-all calls on a plain stream: no panic; every piece handed out
    carries the written bytes of its offset; the pieces cover everything between the initial and the final write
    offset. -/
theorem baseRun_hops : ∀ (ops : List HOp) (lo : Int) (s : CS) (W : List UInt8) (acc : List Piece),
    BaseRun lo s W acc →
    ∃ s' acc', runH s ops acc = some (s', acc') ∧ BaseRun lo s' (W ++ writtenH ops) acc' := by
  intro ops
  induction ops with
  | nil => intro lo s W acc h; exact ⟨s, acc, rfl, by simpa [writtenH] using h⟩
  | cons op ops ih =>
    intro lo s W acc h
    cases op with
    | write p env =>
      have h' : BaseRun lo (write s p env).1 (W ++ p) acc := by
        refine ⟨h.inv.afterWrite p env, fun f hf => (h.truthful f hf).mono p, ?_⟩
        intro i h1 h2
        have e : (write s p env).1.writeOffset = s.writeOffset := by
          have hp := h.inv.plain
          unfold write; simp only []; rw [if_pos hp]
        rw [e] at h2
        exact h.cover i h1 h2
      obtain ⟨s', acc', h1, h2⟩ := ih lo _ _ acc h'
      exact ⟨s', acc', by simpa [runH] using h1, by simpa [writtenH, List.append_assoc] using h2⟩
    | pop m =>
      simp only [runH, writtenH]
      rw [pop_plain h.inv.plain]
      rcases h.pop m with he | ⟨s1, f, he, h1⟩
      · rw [he]; simp only []; exact ih lo s W acc h
      · rw [he]; simp only []; exact ih lo s1 W _ h1
    | popAll =>
      simp only [runH, writtenH]
      rcases baseRun_popAll h with he | ⟨s1, d, he, h1⟩
      · rw [he]; simp only []; exact ih lo s W acc h
      · rw [he]; simp only []
        by_cases hd : d = []
        · simp only [hd, if_true] at h1 ⊢; exact ih lo s1 W _ h1
        · simp only [hd, if_false] at h1 ⊢; exact ih lo s1 W _ h1

theorem basePop_cases (s : CS) (m : Int) :
    basePop s m = (s, none) ∨
    ∃ n : Int, 0 < n ∧ basePop s m = ({ s with buf := s.buf.drop n.toNat, writeOffset := s.writeOffset + n },
      some (s.writeOffset, s.buf.take n.toNat)) := by
  unfold basePop
  simp only []
  split
  · exact Or.inl rfl
  · exact Or.inr ⟨_, by omega, rfl⟩

/-- the stream of a spec-driven client: `newInitialCryptoStream(true)` followed by `DisableScrambling` -/
def specStream : CS := { newInitial true with scramble := false }

theorem specStream_run : BaseRun 0 specStream [] [] := by
  refine ⟨⟨by decide, by decide, by decide, by decide⟩, ?_, ?_⟩
  · intro f hf; cases hf
  · intro i h1 h2
    have : specStream.writeOffset = 0 := by decide
    omega

end Uquic.Proofs.DialHello
