/-
C01: composition of the sender model with an abstract reassembler satisfying `ReassemblyContract`.
-/
import Uquic.Proofs.SendPreserve
import Uquic.Spec.StreamPipe

namespace Uquic.Proofs.Send
open Uquic.Model.Stream.Send Uquic.Spec.SendRun Uquic.Spec.StreamPipe

/-! ### the sender only ever appends to `emitted` -/

theorem emitted_pop {s : State} (h : Inv s) (mb w : Nat) (nb : Bool) (hmb : mb ≤ maxPacketBufferSize) :
    ∃ l, (pop s mb w nb).1.emitted = s.emitted ++ l := by
  by_cases hl : Live s
  · have L := h.live hl
    have k := popInner_live s mb w nb hl hmb L.nf_ok
    cases k with
    | nothing h1 h2 => exact ⟨[], by rw [pop_none h2, h1]; simp⟩
    | retransWhole g rest hq h1 h2 => exact ⟨[g], by rw [pop_some h2, h1]; rfl⟩
    | retransSplit g rest hq hn hfit h1 h2 => exact ⟨_, by rw [pop_some h2, h1]; rfl⟩
    | finOnly hd hnf hfw hfs h1 h2 => exact ⟨_, by rw [pop_some h2, h1]; rfl⟩
    | newData f0 s1 hq hok fin hfin h1 h2 =>
      obtain ⟨nf', dfw', sig', hs1, _⟩ := hok
      subst hs1
      exact ⟨_, by rw [pop_some h2, h1]; rfl⟩
  · have := popInner_notlive s mb w nb hl h.ro0
    have h2 : (popInner s mb w nb).2.frame = none := by rw [this]
    exact ⟨[], by rw [pop_none h2, this]; simp⟩

theorem emitted_step {s : State} (h : Inv s) (op : Op) : ∃ l, (stepOp s op).emitted = s.emitted ++ l := by
  have same : ∀ {s' : State}, s'.emitted = s.emitted → ∃ l, s'.emitted = s.emitted ++ l := fun h => ⟨[], by simp [h]⟩
  unfold stepOp
  split
  · exact same rfl
  · cases op with
    | write p =>
      rcases writeCall_fst s p with h1 | ⟨_, c, h1⟩ | ⟨_, _, _, _, _, h1⟩
      · exact same (by simp only [h1])
      · exact same (by simp only [h1])
      · exact same (by simp only [h1]; exact (writeIter_stable _ _).emitted)
    | wake =>
      rcases wake_fst s with h1 | ⟨p, _, _, h1⟩
      · exact same (by simp only [h1])
      · exact same (by simp only [h1]; exact (writeIter_stable _ _).emitted)
    | close =>
      rcases close_fst s with h1 | ⟨_, _, cf, c, h1⟩
      · exact same (by simp only [h1])
      · exact same (by simp only [h1])
    | pop mb w nb =>
      simp only
      split
      · rename_i hmb; exact emitted_pop h mb w nb hmb
      · exact same rfl
    | acked i => exact same (acked_stable s i).emitted
    | lost i => exact same (lost_stable s i).emitted
    | cancel c => exact same (cancelWrite_spec s c).1.emitted
    | stop c => exact same (stopSending_spec s c).1.emitted
    | shutdown => exact same (shutdownStep_spec s).1.emitted
    | boundary => exact same rfl
    | ctrl => exact same (getControlFrame_spec s).1.emitted
    | resetAcked f =>
      simp only
      split
      · exact same (resetAcked_stable s f).emitted
      · exact same rfl
    | resetLost f =>
      simp only
      split
      · exact same (resetLost_stable s f).emitted
      · exact same rfl

theorem Ext.trans_stable {s t u : State} (e : Ext s t) (h : Stable t u) : Ext s u := by
  obtain ⟨⟨p, hp, hpf⟩, hfw⟩ := e
  exact ⟨⟨p, by rw [h.written, hp], hpf⟩, fun hh => by rw [h.finishedWriting]; exact hfw hh⟩

theorem ext_pop {s : State} (h : Inv s) (mb w : Nat) (nb : Bool) (hmb : mb ≤ maxPacketBufferSize) :
    Ext s (pop s mb w nb).1 := by
  by_cases hl : Live s
  · have L := h.live hl
    have k := popInner_live s mb w nb hl hmb L.nf_ok
    cases k with
    | nothing h1 h2 => rw [pop_none h2, h1]; exact Ext.refl' rfl rfl
    | retransWhole g rest hq h1 h2 => rw [pop_some h2, h1]; exact Ext.refl' rfl rfl
    | retransSplit g rest hq hn hfit h1 h2 => rw [pop_some h2, h1]; exact Ext.refl' rfl rfl
    | finOnly hd hnf hfw hfs h1 h2 => rw [pop_some h2, h1]; exact Ext.refl' rfl rfl
    | newData f0 s1 hq hok fin hfin h1 h2 =>
      obtain ⟨nf', dfw', sig', hs1, _⟩ := hok
      subst hs1
      rw [pop_some h2, h1]; exact Ext.refl' rfl rfl
  · have := popInner_notlive s mb w nb hl h.ro0
    have h2 : (popInner s mb w nb).2.frame = none := by rw [this]
    rw [pop_none h2, this]; exact Ext.refl' rfl rfl

theorem ext_step {s : State} (h : Inv s) (op : Op) : Ext s (stepOp s op) := by
  have ofStable : ∀ {s' : State}, Stable s s' → Ext s s' := fun h => Ext.refl' h.written h.finishedWriting
  have ofQuiet : ∀ {s' : State}, Quiet s s' → Ext s s' := fun h => Ext.refl' h.written h.finishedWriting
  unfold stepOp
  split
  · exact Ext.refl' rfl rfl
  · cases op with
    | write p =>
      rcases writeCall_fst s p with h1 | ⟨_, c, h1⟩ | ⟨_, _, _, hf, _, h1⟩
      · simp only [h1]; exact Ext.refl' rfl rfl
      · simp only [h1]; exact Ext.refl' rfl rfl
      · simp only [h1]
        refine Ext.trans_stable ?_ (writeIter_stable _ _)
        exact ⟨⟨p, rfl, fun hfw => by simp [hf] at hfw⟩, fun hfw => by simp [hf] at hfw⟩
    | wake =>
      rcases wake_fst s with h1 | ⟨p, _, _, h1⟩
      · simp only [h1]; exact Ext.refl' rfl rfl
      · simp only [h1]; exact Ext.trans_stable (t := { s with signal := false }) (Ext.refl' rfl rfl) (writeIter_stable _ _)
    | close =>
      rcases close_fst s with h1 | ⟨_, _, cf, c, h1⟩
      · simp only [h1]; exact Ext.refl' rfl rfl
      · simp only [h1]; exact ⟨⟨[], by simp, fun _ => rfl⟩, fun _ => rfl⟩
    | pop mb w nb =>
      simp only
      split
      · rename_i hmb; exact ext_pop h mb w nb hmb
      · exact Ext.refl' rfl rfl
    | acked i => exact ofStable (acked_stable s i)
    | lost i => exact ofStable (lost_stable s i)
    | cancel c => exact ofQuiet (cancelWrite_spec s c).1
    | stop c => exact ofQuiet (stopSending_spec s c).1
    | shutdown => exact ofQuiet (shutdownStep_spec s).1
    | boundary => exact Ext.refl' rfl rfl
    | ctrl => exact ofStable (getControlFrame_spec s).1
    | resetAcked f =>
      simp only
      split
      · exact ofStable (resetAcked_stable s f)
      · exact Ext.refl' rfl rfl
    | resetLost f =>
      simp only
      split
      · exact ofStable (resetLost_stable s f)
      · exact Ext.refl' rfl rfl

/-! ### bytes read are a prefix of any source the delivered segments are consistent with -/

theorem getElem?_of_prefix_drop {d W : Bytes} {o j : Nat} (h : d <+: W.drop o) (hj : j < d.length) :
    d[j]? = W[o + j]? := by
  obtain ⟨t, ht⟩ := h
  have : (W.drop o)[j]? = d[j]? := by rw [← ht, List.getElem?_append_left hj]
  rw [← this, List.getElem?_drop]

theorem out_prefix {A : Reassembler} (C : ReassemblyContract A) {r : A.R} (hr : Reach A r) {W : Bytes}
    (hc : Consistent W (A.segs r)) : A.out r <+: W := by
  have hlen : (A.out r).length ≤ W.length := by
    cases hout : (A.out r).length with
    | zero => omega
    | succ k =>
      obtain ⟨s, hs, h1, h2, _⟩ := C.from_segment r hr k (by omega)
      have hne : s.data ≠ [] := by intro h; simp [h] at h2; omega
      have := prefix_drop_length_le (hc s hs) hne
      omega
  rw [List.prefix_iff_eq_take]
  apply List.ext_getElem?
  intro i
  by_cases hi : i < (A.out r).length
  · obtain ⟨s, hs, h1, h2, h3⟩ := C.from_segment r hr i hi
    rw [h3, getElem?_of_prefix_drop (hc s hs) (by omega), List.getElem?_take_of_lt hi]
    congr 1; omega
  · rw [List.getElem?_eq_none (by omega), List.getElem?_eq_none (by simp; omega)]

structure PipeInv {A : Reassembler} (sup : Bool) (p : Pipe A) : Prop where
  inv : Inv p.s
  sup_eq : p.s.supportsResetAt = sup
  reach : Reach A p.r
  segs_emitted : ∀ x ∈ A.segs p.r, ∃ f ∈ p.s.emitted, x = segOf f
  eof : p.eofSeen = true → p.s.finishedWriting = true ∧ A.out p.r = p.s.written

theorem PipeInv.consistent {A : Reassembler} {sup : Bool} {p : Pipe A} (h : PipeInv sup p) :
    Consistent p.s.written (A.segs p.r) := by
  intro x hx
  obtain ⟨f, hf, rfl⟩ := h.segs_emitted x hx
  exact (h.inv.emitted_faith f hf).1

theorem pipeInv_init (A : Reassembler) (C : ReassemblyContract A) (sid : Nat) (sup : Bool) :
    PipeInv sup (pipeInit A sid sup) :=
  ⟨inv_init sid sup, rfl, .init, fun x hx => by simp [pipeInit, C.segs_init] at hx, fun h => by simp [pipeInit] at h⟩

theorem pipeInv_step {A : Reassembler} (C : ReassemblyContract A) {sup : Bool} {p : Pipe A} (h : PipeInv sup p)
    (op : PipeOp) (hb : op = .snd .boundary → sup = false) : PipeInv sup (pipeStep p op) := by
  cases op with
  | snd o =>
    have hb' : o = .boundary → p.s.supportsResetAt = false := fun ho => by rw [h.sup_eq]; exact hb (by rw [ho])
    have he := ext_step h.inv o
    refine ⟨inv_step h.inv o hb', by simp only [pipeStep]; rw [supports_step h.inv o, h.sup_eq], h.reach, fun x hx => ?_, fun heof => ?_⟩
    · obtain ⟨f, hf, hxf⟩ := h.segs_emitted x hx
      obtain ⟨l, hl⟩ := emitted_step h.inv o
      exact ⟨f, by simp only [pipeStep]; rw [hl]; exact List.mem_append_left _ hf, hxf⟩
    · obtain ⟨hfw, hout⟩ := h.eof heof
      obtain ⟨⟨q, hq, hqf⟩, hfw'⟩ := he
      refine ⟨hfw' hfw, ?_⟩
      simp only [pipeStep]
      rw [hq, hqf hfw, List.append_nil]; exact hout
  | deliver k =>
    simp only [pipeStep]
    cases hk : p.s.emitted[k]? with
    | none => exact h
    | some f =>
      have hf : f ∈ p.s.emitted := List.mem_of_getElem? hk
      refine ⟨h.inv, h.sup_eq, .deliver _ h.reach, fun x hx => ?_, fun heof => ?_⟩
      · rcases (C.segs_deliver p.r (segOf f) h.reach x).mp hx with rfl | hx
        · exact ⟨f, hf, rfl⟩
        · exact h.segs_emitted x hx
      · simp only [C.out_deliver p.r (segOf f) h.reach]; exact h.eof heof
  | read n =>
    have hreach : Reach A (A.read p.r n).1 := .read n h.reach
    have hsegs := C.segs_read p.r n h.reach
    have hcons : Consistent p.s.written (A.segs (A.read p.r n).1) := by rw [hsegs]; exact h.consistent
    have hpre := out_prefix C hreach hcons
    refine ⟨h.inv, h.sup_eq, hreach, fun x hx => h.segs_emitted x (hsegs ▸ hx), fun heof => ?_⟩
    simp only [pipeStep, Bool.or_eq_true] at heof ⊢
    rcases heof with heof | heof
    · obtain ⟨hfw, hout⟩ := h.eof heof
      refine ⟨hfw, ?_⟩
      have hlen := hpre.length_le
      rw [C.out_read p.r n h.reach, hout] at hlen hpre ⊢
      simp only [List.length_append] at hlen
      have : (A.read p.r n).2.1 = [] := List.eq_nil_of_length_eq_zero (by omega)
      rw [this, List.append_nil]
    · obtain ⟨x, hx, hfin, hend⟩ := C.eof_sound p.r n h.reach heof
      obtain ⟨f, hf, rfl⟩ := h.segs_emitted x hx
      obtain ⟨hfw, hlen⟩ := (h.inv.emitted_faith f hf).2 hfin
      exact ⟨hfw, hpre.eq_of_length (by simp only [segOf] at hend; omega)⟩

theorem pipeInv_run {A : Reassembler} (C : ReassemblyContract A) {sup : Bool} {p : Pipe A} (h : PipeInv sup p)
    (ops : List PipeOp) (hc : Classic sup (sndOps ops)) : PipeInv sup (pipeRun p ops) := by
  induction ops generalizing p with
  | nil => exact h
  | cons op rest ih =>
    have hb : op = .snd .boundary → sup = false := by
      intro hop
      rcases hc with hc | hc
      · exact hc
      · exact absurd (by simp [hop, sndOps]) hc
    have hc' : Classic sup (sndOps rest) := by
      rcases hc with hc | hc
      · exact .inl hc
      · refine .inr (fun hm => hc ?_)
        cases op with
        | snd o => simp only [sndOps]; exact List.mem_cons_of_mem _ hm
        | deliver k => simpa only [sndOps] using hm
        | read n => simpa only [sndOps] using hm
    exact ih (pipeInv_step C h op hb) hc'

theorem pop_snd (s : State) (mb w : Nat) (nb : Bool) : (pop s mb w nb).2 = (popInner s mb w nb).2 := by
  unfold pop
  rcases hp : popInner s mb w nb with ⟨s1, out⟩
  simp only
  cases out.frame <;> rfl

/-- the frame `pop` returns (if any) is exactly what is appended to the ghost list `emitted` -/
theorem pop_records {s : State} (h : Inv s) (mb w : Nat) (nb : Bool) (hmb : mb ≤ maxPacketBufferSize) :
    (pop s mb w nb).1.emitted = s.emitted ++ (pop s mb w nb).2.frame.toList := by
  rw [pop_snd]
  by_cases hl : Live s
  · have L := h.live hl
    have k := popInner_live s mb w nb hl hmb L.nf_ok
    cases k with
    | nothing h1 h2 => rw [pop_none h2, h1, h2]; simp
    | retransWhole g rest hq h1 h2 => rw [pop_some h2, h1, h2]; rfl
    | retransSplit g rest hq hn hfit h1 h2 => rw [pop_some h2, h1, h2]; rfl
    | finOnly hd hnf hfw hfs h1 h2 => rw [pop_some h2, h1, h2]; rfl
    | newData f0 s1 hq hok fin hfin h1 h2 =>
      obtain ⟨nf', dfw', sig', hs1, _⟩ := hok
      subst hs1
      rw [pop_some h2, h1, h2]; rfl
  · have := popInner_notlive s mb w nb hl h.ro0
    have h2 : (popInner s mb w nb).2.frame = none := by rw [this]
    rw [pop_none h2, h2, this]; simp

/-- new data is handed out contiguously: a returned frame either leaves `writeOffset` alone (a
    retransmission or the FIN-only frame) or starts exactly at it and advances it by its length -/
theorem pop_contiguous {s : State} (h : Inv s) (mb w : Nat) (nb : Bool) (hmb : mb ≤ maxPacketBufferSize)
    {f : Frame} (hf : (pop s mb w nb).2.frame = some f) :
    (pop s mb w nb).1.writeOffset = s.writeOffset ∨
    (f.offset = s.writeOffset ∧ (pop s mb w nb).1.writeOffset = s.writeOffset + f.data.length) := by
  rw [pop_snd] at hf
  by_cases hl : Live s
  · have L := h.live hl
    have k := popInner_live s mb w nb hl hmb L.nf_ok
    cases k with
    | nothing h1 h2 => rw [h2] at hf; simp at hf
    | retransWhole g rest hq h1 h2 => left; rw [pop_some h2, h1]; rfl
    | retransSplit g rest hq hn hfit h1 h2 => left; rw [pop_some h2, h1]; rfl
    | finOnly hd hnf hfw hfs h1 h2 => left; rw [pop_some h2, h1]; rfl
    | newData f0 s1 hq hok fin hfin h1 h2 =>
      right
      obtain ⟨nf', dfw', sig', hs1, hoff, _⟩ := hok
      subst hs1
      rw [h2] at hf
      simp only [Option.some.injEq] at hf
      subst hf
      refine ⟨hoff, ?_⟩
      rw [pop_some h2, h1]; rfl
  · have := popInner_notlive s mb w nb hl h.ro0
    rw [this] at hf; simp at hf

end Uquic.Proofs.Send
