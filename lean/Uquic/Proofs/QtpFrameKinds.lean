import Uquic.Model.UQuic.FrameKinds

namespace Uquic.Proofs.Qtp
open Uquic.Model.FrameKinds

theorem mem_draws (mn mx a : Nat) : a ∈ draws mn mx ↔ (mx ≤ mn ∧ a = mn) ∨ (mn < mx ∧ mn ≤ a ∧ a < mx) := by
  unfold draws
  split
  · rename_i h; simp; omega
  · rename_i h; rw [List.mem_range'_1]; omega

theorem pingStable_iff (mn mx : Nat) : pingStable mn mx ↔ (1 ≤ mn ∨ mx ≤ 1) := by
  unfold pingStable
  constructor
  · intro h
    by_cases h1 : 1 ≤ mn
    · exact Or.inl h1
    · right
      by_cases h2 : mx ≤ 1
      · exact h2
      · exfalso
        have a0 : 0 ∈ draws mn mx := (mem_draws mn mx 0).mpr (Or.inr ⟨by omega, by omega, by omega⟩)
        have a1 : 1 ∈ draws mn mx := (mem_draws mn mx 1).mpr (Or.inr ⟨by omega, by omega, by omega⟩)
        have := h 0 a0 1 a1
        simp [hasPing] at this
  · intro h a ha b hb
    rw [mem_draws] at ha hb
    simp only [hasPing]
    rcases h with h | h
    · have : 0 < a := by omega
      have : 0 < b := by omega
      simp [*]
    · have : a = b := by omega
      rw [this]

end Uquic.Proofs.Qtp
