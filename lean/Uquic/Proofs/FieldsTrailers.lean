/-
C19: parseTrailers accepts only sections without pseudo-header fields and without trailer-forbidden names.
-/
import Uquic.Proofs.FieldsStep

namespace Uquic.Proofs.Fields
open Uquic.Model.H3.Fields Uquic.Gen.H3Fields
open Uquic.Spec.H3Fields (isPseudoName lowerTchar trailerForbidden NoPseudo NoTrailerForbidden NameTokens ValueBytes
  NoConnectionSpecific SizeOk fieldSize sectionSize TrailersWellFormed)

theorem trailerForbidden_invalid : ∀ n ∈ trailerForbidden, validTrailerHeader n = false := by decide

theorem ifPrefix_invalid (n : List Nat) (htok : n.all isTokenByte = true)
    (hp : (Uquic.Spec.H3Fields.B "if-").isPrefixOf n = true) : validTrailerHeader n = false := by
  have hB : Uquic.Spec.H3Fields.B "if-" = [105, 102, 45] := by decide
  rw [hB] at hp
  match n, hp with
  | a :: b :: c :: rest, hp =>
    simp only [List.isPrefixOf, Bool.and_eq_true, beq_iff_eq] at hp
    obtain ⟨rfl, rfl, rfl, _⟩ := hp
    simp [validTrailerHeader, canonKey, htok, canonGo, isLower, isUpper, hasPrefix, List.isPrefixOf]
  | [], hp => simp [List.isPrefixOf] at hp
  | [_], hp => simp [List.isPrefixOf] at hp
  | [_, _], hp => simp [List.isPrefixOf] at hp

theorem stepTrailer_ok (ext : List Nat → Bool) (s s' : TS) (f : Field) (h : stepTrailer ext s f = .ok s') :
    s'.limit = s.limit - fieldSize f ∧ 0 ≤ s'.limit ∧ lowerFix ext f.1 = true ∧ validFieldValue f.2 = true ∧
    isPseudo f.1 = false ∧ validateRegular f = .ok () ∧ validTrailerHeader f.1 = true := by
  unfold stepTrailer at h
  simp only [] at h
  split at h
  · cases h
  rename_i h1
  split at h
  · cases h
  rename_i h2
  split at h
  · cases h
  rename_i h3
  split at h
  · cases h
  rename_i h4
  split at h
  · cases h
  rename_i hv
  split at h
  · cases h
  rename_i h5
  cases h
  simp only [trailer_overhead_eq] at h1
  refine ⟨?_, ?_, by simpa using h2, by simpa using h3, by simpa using h4, hv, by simpa using h5⟩
  · show s.limit - ((f.1.length : Int) + (f.2.length : Int) + trailerFieldOverhead) = s.limit - fieldSize f
    simp only [fieldSize, trailer_overhead_eq]
  · show 0 ≤ s.limit - ((f.1.length : Int) + (f.2.length : Int) + trailerFieldOverhead)
    simp only [trailer_overhead_eq]; omega

theorem trailers_inv (ext : List Nat → Bool) (fs : List Field) :
    ∀ (s s' : TS), runTrailers ext s fs = .ok s' →
      s'.limit = s.limit - sectionSize fs ∧ (fs ≠ [] → 0 ≤ s'.limit) ∧
      NoPseudo fs ∧ NameTokens fs ∧ ValueBytes fs ∧ NoConnectionSpecific fs ∧ NoTrailerForbidden fs := by
  induction fs with
  | nil =>
    intro s s' h
    simp only [runTrailers] at h; cases h
    simp [sectionSize, NoPseudo, NameTokens, ValueBytes, NoConnectionSpecific, NoTrailerForbidden]
  | cons f rest ih =>
    intro s s' h
    simp only [runTrailers] at h
    split at h
    · cases h
    rename_i s1 hs1
    obtain ⟨hl, hn, hlow, hval, hps, hvr, hvt⟩ := stepTrailer_ok ext s s1 f hs1
    obtain ⟨il, inn, i1, i2, i3, i4, i5⟩ := ih s1 s' h
    have hps' : isPseudoName f.1 = false := by rw [← isPseudo_eq]; exact hps
    obtain ⟨hname, hnotinv, _⟩ := validateRegular_ok f hvr
    have htok := regular_name_tokens ext f.1 hname hlow
    have hall : f.1.all isTokenByte = true := by
      simp only [validFieldName, Bool.and_eq_true] at hname; exact hname.2
    refine ⟨?_, ?_, ?_, ?_, ?_, ?_, ?_⟩
    · simp only [sectionSize, List.map_cons, List.sum_cons] at il ⊢; omega
    · intro _
      by_cases hr : rest = []
      · subst hr; simp only [runTrailers] at h; cases h; exact hn
      · exact inn hr
    · intro g hg; rcases List.mem_cons.mp hg with rfl | hg
      · exact hps'
      · exact i1 g hg
    · intro g hg hnp; rcases List.mem_cons.mp hg with rfl | hg
      · exact htok
      · exact i2 g hg hnp
    · intro g hg; rcases List.mem_cons.mp hg with rfl | hg
      · exact validFieldValue_bytes _ hval
      · exact i3 g hg
    · intro g hg; rcases List.mem_cons.mp hg with rfl | hg
      · exact regular_not_conn _ hnotinv
      · exact i4 g hg
    · intro g hg; rcases List.mem_cons.mp hg with rfl | hg
      · refine ⟨?_, ?_⟩
        · intro hc; have := trailerForbidden_invalid _ hc; rw [this] at hvt; cases hvt
        · cases hp : (Uquic.Spec.H3Fields.B "if-").isPrefixOf g.1 with
          | false => rfl
          | true => have := ifPrefix_invalid _ hall hp; rw [this] at hvt; cases hvt
      · exact i5 g hg

theorem trailers_sound_of_ok (ext : List Nat → Bool) (lim : Int) (hlim : 0 ≤ lim) (fs : List Field) (q : Bool) (h : Headers)
    (hp : parseTrailersQ ext lim fs q = .ok h) : TrailersWellFormed lim fs ∧ q = false := by
  unfold parseTrailersQ at hp
  split at hp
  · cases hp
  rename_i s hs
  obtain ⟨il, inn, i1, i2, i3, i4, i5⟩ := trailers_inv ext fs _ s hs
  refine ⟨⟨i1, i2, i3, i4, i5, ?_⟩, ?_⟩
  · show sectionSize fs ≤ lim
    by_cases hfs : fs = []
    · subst hfs; simpa [sectionSize] using hlim
    · have := inn hfs; simp only [] at il; omega
  · cases q with
    | true => simp at hp
    | false => rfl

end Uquic.Proofs.Fields
