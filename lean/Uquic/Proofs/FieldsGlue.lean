/-
C19 (round 4): the size budget of parseHeaders is independent of everything else the loop checks.
* a section within the limit is never rejected as too large;
* a section that is accepted under a larger limit is rejected as too large — and as nothing else —
  under a limit below its size.
Consequences for the glue model (Uquic/Model/H3/Glue.lean) are in Uquic/Props/C19Glue.lean.
-/
import Uquic.Proofs.FieldsStep
import Uquic.Proofs.FieldsParse

namespace Uquic.Proofs.Fields
open Uquic.Model.H3.Fields Uquic.Gen.H3Fields
open Uquic.Spec.H3Fields (fieldSize sectionSize)

theorem sectionSize_cons (f : Field) (fs : List Field) : sectionSize (f :: fs) = fieldSize f + sectionSize fs := by
  simp [sectionSize]

theorem sectionSize_nonneg' (fs : List Field) : 0 ≤ sectionSize fs := by
  induction fs with
  | nil => simp [sectionSize]
  | cons f fs ih => rw [sectionSize_cons]; simp only [fieldSize]; omega

/-- the budget after a successful iteration -/
theorem stepField_limit (ext : List Nat → Bool) (isReq : Bool) (s s' : PS) (f : Field)
    (h : stepField ext isReq s f = .ok s') : s'.limit = s.limit - fieldSize f := by
  obtain ⟨_, _, _, hc⟩ := stepField_ok ext isReq s s' f h
  rw [← limAfter_eq]
  rcases hc with ⟨_, _, _, _, _, _, _, _, rfl⟩ | ⟨_, _, ⟨_, _, rfl⟩ | ⟨_, _, _, rfl⟩ | ⟨_, rfl⟩⟩ <;> rfl

/-- only the budget check answers "too large" -/
theorem stepField_tooLarge (ext : List Nat → Bool) (isReq : Bool) (s : PS) (f : Field)
    (h : stepField ext isReq s f = .error .tooLarge) : s.limit - fieldSize f < 0 := by
  unfold stepField at h
  simp only [] at h
  split at h
  · rename_i hl
    simp only [fieldSize, ← overhead_eq]
    omega
  · exfalso
    repeat' split at h
    all_goals first
      | (cases h; done)
      | (cases h; have := validateRegular_err f .tooLarge (by assumption); revert this; decide)

theorem runFields_tooLarge (ext : List Nat → Bool) (isReq : Bool) (fs : List Field) :
    ∀ (s : PS), runFields ext isReq s fs = .error .tooLarge → s.limit < sectionSize fs := by
  induction fs with
  | nil => intro s h; simp [runFields] at h
  | cons f rest ih =>
    intro s h
    simp only [runFields] at h
    rw [sectionSize_cons]
    split at h
    · rename_i e hs
      cases h
      have := stepField_tooLarge ext isReq s f hs
      have := sectionSize_nonneg' rest
      omega
    · rename_i s' hs
      have := ih s' h
      have := stepField_limit ext isReq s s' f hs
      omega

/-- the same state with another budget -/
def relimit (s : PS) (l : Int) : PS := { s with limit := l }

theorem stepField_relimit_tooLarge (ext : List Nat → Bool) (isReq : Bool) (s : PS) (f : Field) (l : Int)
    (hl : l - fieldSize f < 0) : stepField ext isReq (relimit s l) f = .error .tooLarge := by
  unfold stepField
  simp only [relimit]
  have : l - ((f.1.length : Int) + (f.2.length : Int) + headerFieldOverhead) < 0 := by
    simp only [fieldSize, ← overhead_eq] at hl; omega
  simp [this]

theorem stepField_relimit (ext : List Nat → Bool) (isReq : Bool) (s s' : PS) (f : Field) (l : Int)
    (h : stepField ext isReq s f = .ok s') (hl : 0 ≤ l - fieldSize f) :
    stepField ext isReq (relimit s l) f = .ok (relimit s' (l - fieldSize f)) := by
  obtain ⟨_, hlow, hval, hc⟩ := stepField_ok ext isReq s s' f h
  have hl' : ¬ l - ((f.1.length : Int) + (f.2.length : Int) + headerFieldOverhead) < 0 := by
    simp only [fieldSize, ← overhead_eq] at hl; omega
  have hsz : l - ((f.1.length : Int) + (f.2.length : Int) + headerFieldOverhead) = l - fieldSize f := by
    simp only [fieldSize, ← overhead_eq]
  unfold stepField
  simp only [relimit, hl', hlow, hval, if_false, Bool.not_true, Bool.false_eq_true]
  rcases hc with ⟨hps, hfr, r, hr, hg, hseen, h1, h2, rfl⟩ | ⟨hps, hvr, hcl⟩
  · have hseen' : f.1 ∉ s.seen := by simpa using hseen
    simp [hps, hfr, hr, hg, hseen', h1, h2, hsz]
  · rcases hcl with ⟨hn, hrc, rfl⟩ | ⟨hn, hrc, hcs, rfl⟩ | ⟨hn, rfl⟩
    · simp only [hps, hvr, Bool.false_eq_true, if_false]
      rw [if_pos hn]
      simp [hrc, hsz]
    · simp only [hps, hvr, Bool.false_eq_true, if_false]
      rw [if_pos hn]
      simp [hrc, hcs, hsz]
    · simp only [hps, hvr, Bool.false_eq_true, if_false]
      rw [if_neg hn]
      simp [hsz]

/-- a section the loop accepts under some budget is, under a budget below its size, rejected as too large -/
theorem runFields_relimit_tooLarge (ext : List Nat → Bool) (isReq : Bool) (fs : List Field) :
    ∀ (s s' : PS) (l : Int), runFields ext isReq s fs = .ok s' → 0 ≤ l → l < sectionSize fs →
      runFields ext isReq (relimit s l) fs = .error .tooLarge := by
  induction fs with
  | nil => intro s s' l _ h0 hl; simp [sectionSize] at hl; omega
  | cons f rest ih =>
    intro s s' l h h0 hl
    simp only [runFields] at h
    rw [sectionSize_cons] at hl
    split at h
    · cases h
    · rename_i s1 hs
      simp only [runFields]
      by_cases hf : l - fieldSize f < 0
      · rw [stepField_relimit_tooLarge ext isReq s f l hf]
      · rw [stepField_relimit ext isReq s s1 f l hs (by omega)]
        exact ih s1 s' (l - fieldSize f) h (by omega) (by omega)

end Uquic.Proofs.Fields
