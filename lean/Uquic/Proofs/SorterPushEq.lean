/-
C03: `push` when startGap = endGap.
-/
import Uquic.Proofs.SorterFinish
namespace Uquic.Proofs.Sorter
open Uquic.Model.Reassembly

theorem last_cut (pre L post : List Gap) (eg : Gap) (b M : Nat)
    (hold : (∃ x, post.getLast? = some (x, M)) ∨ (post = [] ∧ eg.2 = M)) (hb : b < M) :
    ∃ x, (pre ++ (L ++ remR eg b) ++ post).getLast? = some (x, M) := by
  rcases hold with ⟨x, hx⟩ | ⟨hp, he⟩
  · refine ⟨x, ?_⟩
    rw [List.getLast?_append, hx]
    simp
  · subst hp
    refine ⟨b, ?_⟩
    have : remR eg b = [(b, M)] := by simp [remR, he, hb]
    rw [this]
    simp

/-- where the last (open-ended) gap is after splitting the list at startGap -/
theorem last_split {pre : List Gap} {sg : Gap} {rest : List Gap} {M : Nat}
    (h : ∃ x, (pre ++ sg :: rest).getLast? = some (x, M)) :
    (∃ x, rest.getLast? = some (x, M)) ∨ (rest = [] ∧ sg.2 = M) := by
  obtain ⟨x, hx⟩ := h
  cases rest with
  | nil =>
    right
    simp at hx
    exact ⟨rfl, by rw [hx]⟩
  | cons nx rs =>
    left
    refine ⟨x, ?_⟩
    rw [List.getLast?_append] at hx
    simp only [List.getLast?_cons_cons] at hx
    cases hl : (nx :: rs).getLast? with
    | none => simp at hl
    | some v => rw [hl] at hx; simpa using hx

theorem pushBody_eq {src : Nat → UInt8} {s : Sorter} (h : Inv src s) (data : Bytes) (start en : Nat) (cb : Option Nat)
    (pre : List Gap) (sg : Gap) (rest : List Gap) (sIn eIn : Bool)
    (hgaps : s.gaps = pre ++ sg :: rest) (hse : start < en) (hmax : en < maxByteCount)
    (hsrc : DataOK src data start en)
    (hpre : ∀ g ∈ pre, g.2 < start)
    (hsin : sIn = true → sg.1 ≤ start ∧ start ≤ sg.2) (hsout : sIn = false → start < sg.1)
    (hein : eIn = true → sg.1 ≤ en ∧ en < sg.2)
    (heout : eIn = false → sg.2 ≤ en ∧ ∃ nx, rest.head? = some nx ∧ en < nx.1) :
    PushDup s start en (pushBody s data start en cb pre sg rest 0 sIn eIn) ∨
    PushNew src s start en cb (pushBody s data start en cb pre sg rest 0 sIn eIn) := by
  have hwf : GapsWF (pre ++ sg :: rest) := hgaps ▸ h.gwf
  have hsgmem : sg ∈ s.gaps := by rw [hgaps]; simp
  have hsgpos : sg.1 < sg.2 := h.gwf.pos sg hsgmem
  have hsgrp : s.readPos ≤ sg.1 := h.grp sg hsgmem
  simp only [pushBody, midStage, beq_self_eq_true, List.getD_cons_zero, if_true, true_and, Bool.true_eq_false, false_and, or_false, List.append_nil]
  split
  · -- the frame ends before startGap begins: everything was received before
    rename_i hle
    left
    refine ⟨rfl, rfl, rfl, ?_⟩
    intro p hp1 hp2
    rw [hgaps]
    exact not_inGap_between hwf hpre hp1 (by omega)
  rename_i hsgen
  have hsgen : sg.1 < en := by omega
  have F := front_spec h start en pre sg rest sIn hgaps hse hmax hpre hsin hsout hsgen
  generalize replaceLoop (s.queue.length + 1) s.queue start en false = lp at F ⊢
  split
  · -- an existing frame at `start` is at least as long
    rename_i hdup
    left
    refine ⟨rfl, rfl, rfl, ?_⟩
    rcases F.cases with ⟨_, e, he, hle⟩ | hc | hc | hc | hc | hc
    · intro p hp1 hp2 hg
      exact h.excl hg ⟨(start, e), he, hp1, by simp only [elen]; omega⟩
    all_goals (rw [hdup] at hc; simp at hc)
  rename_i hndup
  right
  -- name the intermediate values of the stages
  have hd1 := loopCut_data lp data start en
  have he1 := loopCut_end lp data start en
  generalize (loopCut lp data start en).1 = d1 at hd1 ⊢
  generalize (loopCut lp data start en).2.1 = en1 at he1 ⊢
  generalize (loopCut lp data start en).2.2 = w1
  have hd2 := frontCut_data sIn lp.replaced sg d1 start w1
  have ha := frontCut_start sIn lp.replaced sg d1 start w1
  generalize (frontCut sIn lp.replaced sg d1 start w1).1 = d2 at hd2 ⊢
  generalize (frontCut sIn lp.replaced sg d1 start w1).2.1 = a at ha ⊢
  generalize (frontCut sIn lp.replaced sg d1 start w1).2.2 = w2
  have hd3 := backCut_data eIn sg.2 d2 a en1 w2
  have hb := backCut_end eIn sg.2 d2 a en1 w2
  generalize (backCut eIn sg.2 d2 a en1 w2).1 = d3 at hd3 ⊢
  generalize (backCut eIn sg.2 d2 a en1 w2).2.1 = b at hb ⊢
  generalize (backCut eIn sg.2 d2 a en1 w2).2.2 = w3
  have hrestgt : ∀ g ∈ rest, en < g.1 := by
    intro g hg
    have hg1 := hwf.of_append_right.head_lt g hg
    cases heI : eIn with
    | true => have := (hein heI).2; omega
    | false =>
      obtain ⟨_, nx, hnx, hlt⟩ := heout heI
      cases rest with
      | nil => cases hg
      | cons n rs =>
        simp at hnx; subst hnx
        rcases List.mem_cons.mp hg with hg | hg
        · subst hg; exact hlt
        · have := hwf.of_append_right.tail.head_lt g hg
          have := hwf.of_append_right.tail.pos n (by simp)
          omega
  obtain ⟨hF, haen, hsa, hrpa, hba, hp1, hposv, hd2ok⟩ :
      ((sg.1 ≤ a ∧ a < sg.2 ∧ lp.replaced = false ∧ en1 = en) ∨
        (a = sg.2 ∧ lp.replaced = true ∧ sg.2 < en1 ∧ en1 ≤ en ∧ eIn = false) ∨
        (a < sg.1 ∧ lp.replaced = true ∧ en1 = en)) ∧
      a < en1 ∧ start ≤ a ∧ s.readPos ≤ a ∧ Boundary s.queue a ∧
      ¬(sIn = false ∧ lp.replaced = false ∧ sg.1 > en1) ∧
      ((lp.pos = start ∧ sg.1 ≤ a ∧ a < sg.2 ∧ (a = start ∨ (start < a ∧ a = sg.1))) ∨
        (lp.pos = en1 ∧ a = start ∧ a = sg.2 ∧ Boundary s.queue en1) ∨
        (lp.pos = sg.1 ∧ a = start ∧ a < sg.1)) ∧
      DataOK src d2 a en1 := by
    rcases F.cases with hc | hc | hc | hc | hc | hc
    · exact absurd hc.1 hndup
    · obtain ⟨c1, c2, c3, c4, c5, c6⟩ := hc
      simp only [c1, c2, c6] at he1 ha hd1 hd2
      simp at he1 ha hd1 hd2
      subst he1 ha hd1 hd2
      exact ⟨Or.inl ⟨c4, c5, c2, rfl⟩, hse, Nat.le_refl _, by omega, h.boundary_inGap ⟨sg, hsgmem, c4, c5⟩,
        by simp [c6], Or.inl ⟨c3, c4, c5, Or.inl rfl⟩, hsrc⟩
    · obtain ⟨c1, c2, c3, c4, c5, c6, c7, nx, c8, c9⟩ := hc
      simp only [c1, c2, c3] at he1 ha hd1 hd2
      simp at he1 ha hd1 hd2
      subst he1 ha hd1 hd2
      have heI : eIn = false := by
        cases heI : eIn with
        | false => rfl
        | true => have := (hein heI).2; omega
      exact ⟨Or.inr (Or.inl ⟨c4, c2, by omega, c6, heI⟩), c5, Nat.le_refl _, by omega, c4 ▸ h.boundary_gap_end hsgmem,
        by simp [c3], Or.inr (Or.inl ⟨rfl, rfl, c4, c7⟩), hsrc.take lp.pos (by omega) c6⟩
    · obtain ⟨c1, c2, c3, c4, c5, nx, c8, c9⟩ := hc
      exfalso
      cases heI : eIn with
      | true => have := (hein heI).2; omega
      | false =>
        obtain ⟨_, nx', hnx', hlt⟩ := heout heI
        rw [c8] at hnx'; cases hnx'
        omega
    · obtain ⟨c1, c2, c3, c4, c5⟩ := hc
      simp only [c1, c2, c5] at he1 ha hd1 hd2
      simp at he1 ha hd1 hd2
      subst he1 ha hd1 hd2
      exact ⟨Or.inl ⟨Nat.le_refl _, hsgpos, c2, rfl⟩, hsgen, Nat.le_of_lt c4, hsgrp,
        h.boundary_inGap ⟨sg, hsgmem, Nat.le_refl _, hsgpos⟩, by simp; omega,
        Or.inl ⟨c3, Nat.le_refl _, hsgpos, Or.inr ⟨c4, rfl⟩⟩, hsrc.drop sg.1 (Nat.le_of_lt c4) (Nat.le_of_lt hsgen)⟩
    · obtain ⟨c1, c2, c3, c4, c5, c6, c7⟩ := hc
      simp only [c1, c2, c5] at he1 ha hd1 hd2
      simp at he1 ha hd1 hd2
      subst he1 ha hd1 hd2
      exact ⟨Or.inr (Or.inr ⟨c4, c2, rfl⟩), hse, Nat.le_refl _, c6, c7, by simp [c2],
        Or.inr (Or.inr ⟨c3, rfl, c4⟩), hsrc⟩
  obtain ⟨hlist, hab, hbe, hsgb, hasg, hbout, hbin⟩ :=
    shape_eq sg rest a en1 en b lp.replaced eIn hsgpos hF hsgen haen (fun hh => (hein hh).2) (fun hh => (heout hh).1) hb
  have hgs : pre ++ (startGapUpdate sg a en1 lp.replaced).1 ++
      (endGapUpdate true (startGapUpdate sg a en1 lp.replaced).2 b sg.2 sg.2 rest).1 ++
      (endGapUpdate true (startGapUpdate sg a en1 lp.replaced).2 b sg.2 sg.2 rest).2 =
      pre ++ (remL sg a ++ remR sg b) ++ rest := by
    simp only [List.append_assoc] at hlist ⊢
    rw [hlist]
  have hcut : GapsWF (pre ++ (remL sg a ++ remR sg b) ++ rest) ∧
      ∀ p, inGap (pre ++ (remL sg a ++ remR sg b) ++ rest) p ↔ (inGap (pre ++ sg :: rest) p ∧ ¬(a ≤ p ∧ p < b)) :=
    gaps_cut_eq pre rest sg a b hwf (fun g hg => by have := hpre g hg; omega)
      (fun g hg => by have := hrestgt g hg; omega) hab hasg hsgb
  have hlast := last_cut pre (remL sg a) rest sg b maxByteCount (last_split (hgaps ▸ h.glast)) (by omega)
  have hbb : Boundary s.queue b := by
    cases heI : eIn with
    | true =>
      have := hbin heI; subst this
      exact h.boundary_inGap ⟨sg, hsgmem, (hein heI).1, (hein heI).2⟩
    | false =>
      rcases hbout heI with ⟨h1, h2⟩ | h1
      · rcases hposv with hv | hv | hv
        · omega
        · rw [h2]; exact hv.2.2.2
        · omega
      · rw [h1]; exact h.boundary_gap_end hsgmem
  have hq : ∀ x, x ∈ lp.q ↔ (x ∈ s.queue ∧ ¬(a ≤ x.1 ∧ x.1 < b)) := by
    intro x
    rw [F.mem x]
    have hbsg : b ≤ sg.2 ∨ (a = sg.2 ∧ b = en1) := by
      cases heI : eIn with
      | true => have := hbin heI; have := (hein heI).2; omega
      | false => rcases hbout heI with h1 | h1 <;> omega
    constructor <;> rintro ⟨hx, hn⟩ <;> refine ⟨hx, ?_⟩
    all_goals
      have hk := h.key_not_inGap hx
      have hk' : ¬(sg.1 ≤ x.1 ∧ x.1 < sg.2) := fun hc => hk ⟨sg, hsgmem, hc.1, hc.2⟩
      rcases hposv with hv | hv | hv <;> omega
  have hold : ∀ p, start ≤ p → p < en → ¬(a ≤ p ∧ p < b) → ¬ inGap s.gaps p := by
    intro p hp1 hp2 hnab
    rw [hgaps]
    rcases Nat.lt_or_ge p a with hpa | hpa
    · have : a = sg.1 := by rcases hposv with hv | hv | hv <;> omega
      exact not_inGap_between hwf hpre hp1 (by omega)
    · have hpb : b ≤ p := by omega
      cases heI : eIn with
      | true => have := hbin heI; omega
      | false =>
        obtain ⟨h1, nx, hnx, hlt⟩ := heout heI
        have : sg.2 ≤ p := by rcases hbout heI with h2 | h2 <;> omega
        exact not_inGap_after hwf this (by rw [hnx]; simp; omega)
  have hd3ok : DataOK src d3 a b := by
    rw [hd3, hb]
    split
    · exact hd2ok.take sg.2 hasg (by omega)
    · exact hd2ok
  rw [if_neg hp1, if_neg (by omega), hgs]
  exact finish h start en a b cb _ lp.q d3 w3 lp.done hsa hbe hab hrpa hmax hba hbb hq F.sub F.conserve
    hcut.1 hlast (hgaps ▸ hcut.2) hold hd3ok
end Uquic.Proofs.Sorter
