/-
Definitions and helper lemmas for C06Compose (SendMode gating over the full sent-packet-handler model):
the vocabulary of the statements (`numTracked`, `Restrictive`, `MoreRestrictive`, `sendModeNoLimits`, the
translation between the handler's numeric SendMode codes and C20's enumeration) and small facts about them.
-/
import Uquic.Proofs.AmpRefineFrame
import Uquic.Model.Cong.Sender

namespace Uquic.Proofs.AmpRefine
open Uquic.Model.Sent

/-- `numTrackedPackets` of `SendMode` -/
def numTracked (s : State) : Int := s.app.hist.len + optLen s.initial + optLen s.handshake

/-- the five answers that do not release new data -/
def Restrictive (m : Int) : Prop :=
  m = sendNone ∨ m = sendAck ∨ m = sendPTOInitial ∨ m = sendPTOHandshake ∨ m = sendPTOAppData

theorem codes_distinct : sendAny ≠ sendNone ∧ sendAny ≠ sendAck ∧ sendAny ≠ sendPTOInitial ∧ sendAny ≠ sendPTOHandshake ∧
    sendAny ≠ sendPTOAppData ∧ sendPacingLimited ≠ sendNone ∧ sendPacingLimited ≠ sendAck ∧
    sendPacingLimited ≠ sendPTOInitial ∧ sendPacingLimited ≠ sendPTOHandshake ∧ sendPacingLimited ≠ sendPTOAppData ∧
    sendAny ≠ sendPacingLimited := by decide

theorem restrictive_not_new_data {m : Int} (h : Restrictive m) : ¬ (m = sendAny ∨ m = sendPacingLimited) := by
  obtain ⟨d1, d2, d3, d4, d5, d6, d7, d8, d9, d10, _⟩ := codes_distinct
  rcases h with h | h | h | h | h <;> subst h <;> intro hc <;> rcases hc with hc | hc <;>
    first
    | exact d1 hc.symm | exact d2 hc.symm | exact d3 hc.symm | exact d4 hc.symm | exact d5 hc.symm
    | exact d6 hc.symm | exact d7 hc.symm | exact d8 hc.symm | exact d9 hc.symm | exact d10 hc.symm

open Uquic.Model in
/-- numeric code of C20's `SendMode` enumeration -/
def modeCode : Cong.SendMode → Int
  | .none => sendNone
  | .ack => sendAck
  | .ptoInitial => sendPTOInitial
  | .ptoHandshake => sendPTOHandshake
  | .ptoAppData => sendPTOAppData
  | .pacingLimited => sendPacingLimited
  | .any => sendAny

open Uquic.Model in
/-- `h.ptoMode` as a value of C20's enumeration -/
def ptoOf (c : Int) : Cong.SendMode :=
  if c = sendPTOInitial then .ptoInitial
  else if c = sendPTOHandshake then .ptoHandshake
  else if c = sendPTOAppData then .ptoAppData
  else .none

/-- C20's hypothesis `hpto` on the `ptoMode` argument holds for the handler's `ptoMode` -/
theorem ptoOf_not_new_data (c : Int) : ptoOf c ≠ .any ∧ ptoOf c ≠ .pacingLimited := by
  unfold ptoOf
  constructor <;> (repeat' split) <;> simp

theorem modeCode_ptoOf {s : State} (hp : PtoOK s) : modeCode (ptoOf s.ptoMode) = s.ptoMode := by
  rcases hp with h | h | h | h <;> rw [h] <;> decide

theorem numTracked_nonneg (s : State) : 0 ≤ numTracked s := by
  have h1 : ∀ o, 0 ≤ optLen o := by
    intro o; cases o <;> simp only [optLen, Hist.len] <;> omega
  have := h1 s.initial
  have := h1 s.handshake
  simp only [numTracked, Hist.len]; omega

/-- `SendMode` without the two `numTrackedPackets` tests -/
def sendModeNoLimits (s : State) (canSend pacingBudget : Bool) : Int :=
  if s.isAmplificationLimited then sendNone
  else if s.numProbesToSend > 0 then s.ptoMode
  else if !canSend then sendAck
  else if !pacingBudget then sendPacingLimited
  else sendAny

/-- `a` is at most as permissive as `b`: the same answer, or SendNone, or ACK-only where `b` releases new data -/
def MoreRestrictive (a b : Int) : Prop :=
  a = b ∨ a = sendNone ∨ (a = sendAck ∧ (b = sendAny ∨ b = sendPacingLimited))

/-- a validated handler tracking `n` packet-number slots in the application-data space -/
def trackedState (n : Nat) (probes : Int) : State :=
  { peerValidated := true, app := { hist := { packets := List.replicate n none } },
    numProbesToSend := probes, ptoMode := sendPTOAppData }

theorem trackedState_sendMode (n : Nat) (probes : Int) (cs pb : Bool) :
    (trackedState n probes).sendMode cs pb =
      if (n : Int) ≥ maxTrackedSentPackets then sendNone
      else if probes > 0 then sendPTOAppData
      else if !cs then sendAck
      else if (n : Int) ≥ maxOutstandingSentPackets then sendAck
      else if !pb then sendPacingLimited
      else sendAny := by
  simp [State.sendMode, trackedState, State.isAmplificationLimited, Hist.len, optLen]

end Uquic.Proofs.AmpRefine
