/-
Helper lemmas for C18: the primitives of the chunked underlying stream (`Under`) behave on the
byte string `cells.map (·.1)` alone; only `takeChunk` (a DATA read) sees the chunk boundaries,
and it always returns a prefix.
-/
import Uquic.Proofs.H3Varint
import Uquic.Spec.H3Wire

namespace Uquic.Proofs.H3
open Uquic.Model.H3 Uquic.Spec.H3Wire

abbrev fl (cs : List (Nat × Bool)) : List Nat := cs.map (·.1)

theorem fl_drop_of_append {cs : List (Nat × Bool)} {a b : List Nat} (h : fl cs = a ++ b) :
    fl (cs.drop a.length) = b := by
  simp only [fl, List.map_drop, h, List.drop_left']

theorem take_len_of_append {cs : List (Nat × Bool)} {a b : List Nat} (h : fl cs = a ++ b) :
    (cs.take a.length).length = a.length ∧ fl (cs.take a.length) = a := by
  have hl : a.length ≤ cs.length := by
    have := congrArg List.length h
    simp only [fl, List.length_map, List.length_append] at this
    omega
  constructor
  · simp [List.length_take, hl]
  · simp only [fl, List.map_take, h, List.take_left']

theorem readVarint_enc (u : Under) (k v : Nat) (rest : List Nat) (hf : fitsK k v)
    (h : fl u.cells = encVarintK k v ++ rest) :
    u.readVarint = ({ u with cells := u.cells.drop (2 ^ k) }, .ok (v, 2 ^ k)) ∧
      fl (u.cells.drop (2 ^ k)) = rest := by
  have hd := decVarint_enc k v rest hf
  have hl := encVarintK_length k v
  constructor
  · simp only [Under.readVarint, decVarintG_map]
    have : decVarint (List.map (fun x => x.1) u.cells) = some (v, 2 ^ k, rest) := by
      have h' : List.map (fun x => x.1) u.cells = encVarintK k v ++ rest := h
      rw [h']; exact hd
    rw [this]
  · have := fl_drop_of_append h
    rwa [hl] at this

theorem readVarint_nil (u : Under) (h : u.cells = []) :
    u.readVarint = ({ u with cells := [] }, .error u.term.err) := by
  simp [Under.readVarint, h, decVarintG]

theorem discard_ok (u : Under) (pl rest : List Nat) (h : fl u.cells = pl ++ rest) :
    u.discard pl.length = ({ u with cells := u.cells.drop pl.length }, none) ∧
      fl (u.cells.drop pl.length) = rest := by
  have ⟨h1, _⟩ := take_len_of_append h
  refine ⟨?_, fl_drop_of_append h⟩
  simp [Under.discard, h1]

theorem readFull_ok (u : Under) (pl rest : List Nat) (h : fl u.cells = pl ++ rest) :
    u.readFull pl.length = ({ u with cells := u.cells.drop pl.length }, .ok pl) ∧
      fl (u.cells.drop pl.length) = rest := by
  have ⟨h1, h2⟩ := take_len_of_append h
  refine ⟨?_, fl_drop_of_append h⟩
  simp only [Under.readFull, h1, Nat.lt_irrefl, ↓reduceIte]
  have h2' : List.map (fun x => x.1) (List.take pl.length u.cells) = pl := h2
  rw [h2']

theorem takeChunk_spec (n : Nat) (cs : List (Nat × Bool)) :
    (takeChunk n cs).1 ++ fl (takeChunk n cs).2 = fl cs ∧ (takeChunk n cs).1.length ≤ n ∧
      (0 < n → cs ≠ [] → (takeChunk n cs).1 ≠ []) := by
  induction n generalizing cs with
  | zero => simp [takeChunk]
  | succ n ih =>
    cases cs with
    | nil => simp [takeChunk]
    | cons c cs =>
      obtain ⟨b, last⟩ := c
      simp only [takeChunk]
      split
      · simp [fl]
      · have := ih cs
        simp only [fl, List.cons_append, List.map_cons, List.length_cons, ne_eq, reduceCtorEq,
          not_false_eq_true, implies_true, and_true]
        refine ⟨?_, by omega⟩
        have h1 := this.1
        simp only [fl] at h1
        rw [h1]

/-- a data read from a non-empty stream: a prefix `d` of the byte string, at most `k` bytes, non-empty
    when `k > 0`; the stream keeps the rest -/
theorem read_data (u : Under) (k : Nat) (hne : u.cells ≠ []) :
    ∃ d cs', u.read k = ({ u with cells := cs' }, d, none) ∧ d ++ fl cs' = fl u.cells ∧ d.length ≤ k ∧
      (0 < k → d ≠ []) := by
  cases hc : u.cells with
  | nil => exact absurd hc hne
  | cons c cs =>
    have sp := takeChunk_spec k (c :: cs)
    refine ⟨(takeChunk k (c :: cs)).1, (takeChunk k (c :: cs)).2, ?_, sp.1, sp.2.1, fun hk => sp.2.2 hk (by simp)⟩
    simp [Under.read, hc]

end Uquic.Proofs.H3
