/-
Helper lemmas for Uquic.Props.C16Dial (a transport that is dialled on again, model Uquic.Model.ConnID.Redial): the
invariant "the newest open connection's ID is routed to it; every pending expiry timer belongs to a closed stand-in".
-/
import Uquic.Model.ConnID.Redial

namespace Uquic.Proofs.ConnIDRedial
open Uquic.Model.ConnID

def isStandIn : Handler → Prop
  | .conn _ => False
  | _ => True

theorem lookupH_setH (id : Bytes) (h : Handler) (hs : List (Bytes × Handler)) : lookupH id (setH id h hs) = some h := by
  induction hs with
  | nil => simp [setH, lookupH]
  | cons kv rest ih =>
    obtain ⟨k, x⟩ := kv
    unfold setH
    split
    · rename_i hk; simp [lookupH, hk]
    · rename_i hk; simp [lookupH, hk, ih]

/-- an expiry for another handler does not touch the entry a lookup finds -/
theorem lookupH_removeOwn {id : Bytes} {h hd : Handler} (ids : List Bytes) (hne : h ≠ hd) (hs : List (Bytes × Handler))
    (hl : lookupH id hs = some h) : lookupH id (removeOwn ids hd hs) = some h := by
  induction hs with
  | nil => simp [lookupH] at hl
  | cons kv rest ih =>
    obtain ⟨k, x⟩ := kv
    unfold removeOwn
    rw [List.filter_cons]
    unfold lookupH at hl
    by_cases hk : k = id
    · simp only [hk, ↓reduceIte, Option.some.injEq] at hl
      subst hl
      have hp : (decide ¬(ids.contains k = true ∧ x = hd)) = true := by
        simp only [decide_eq_true_eq]; intro hc; exact hne hc.2
      rw [if_pos hp]
      simp [lookupH, hk]
    · simp only [hk, ↓reduceIte] at hl
      have ih' := ih hl
      unfold removeOwn at ih'
      split
      · simp only [lookupH, hk, ↓reduceIte]; exact ih'
      · exact ih'

theorem lookupH_expire {id : Bytes} {n : Nat} (due : List (Int × List Bytes × Handler))
    (hd : ∀ t ∈ due, isStandIn t.2.2) : ∀ (hs : List (Bytes × Handler)), lookupH id hs = some (.conn n) →
    lookupH id (due.foldl (fun hs t => removeOwn t.2.1 t.2.2 hs) hs) = some (.conn n) := by
  induction due with
  | nil => intro hs hl; exact hl
  | cons t rest ih =>
    intro hs hl
    simp only [List.foldl]
    apply ih (fun t' ht' => hd t' (List.mem_cons_of_mem _ ht'))
    apply lookupH_removeOwn _ _ _ hl
    intro heq
    have := hd t List.mem_cons_self
    rw [← heq] at this
    exact this

structure DInv (s : DialSys) : Prop where
  routed : ∀ id, s.cur = some id → lookupH id s.r.handlers = some (.conn s.n)
  timers : ∀ t ∈ s.r.timers, isStandIn t.2.2

theorem step_inv {s : DialSys} (h : DInv s) (op : DOp) : DInv (s.step false op) := by
  cases op with
  | dial id =>
    constructor
    · intro id' hc
      simp only [DialSys.step] at hc
      simp only [Option.some.injEq] at hc
      subst hc
      simp [DialSys.step, Routing.install, lookupH_setH]
    · intro t ht
      simp [DialSys.step, Routing.install] at ht
      exact h.timers t ht
  | close l e =>
    simp only [DialSys.step]
    split
    · constructor
      · intro id' hc; simp at hc
      · intro t ht
        simp only [Routing.replaceWithClosed, List.mem_append, List.mem_singleton] at ht
        rcases ht with ht | ht
        · exact h.timers t ht
        · subst ht
          cases l <;> simp [isStandIn]
    · exact h
  | destroy =>
    simp only [DialSys.step]
    split
    · constructor
      · intro id' hc; simp at hc
      · intro t ht
        simp only [Routing.remove] at ht
        exact h.timers t ht
    · exact h
  | wait d =>
    constructor
    · intro id hc
      simp only [DialSys.step] at hc
      simp only [DialSys.step, Routing.advance]
      apply lookupH_expire
      · intro t ht
        exact h.timers t (List.mem_filter.mp ht).1
      · exact h.routed id hc
    · intro t ht
      simp only [DialSys.step, Routing.advance, List.mem_filter] at ht
      exact h.timers t ht.1

theorem run_inv (ops : List DOp) : ∀ {s : DialSys}, DInv s → DInv (DialSys.run false s ops) := by
  induction ops with
  | nil => intro s h; exact h
  | cons op rest ih => intro s h; exact ih (step_inv h op)

theorem init_inv : DInv {} := ⟨fun id hc => by simp at hc, fun t ht => by simp at ht⟩

end Uquic.Proofs.ConnIDRedial
