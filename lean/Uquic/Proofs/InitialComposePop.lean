/-
C10 ∘ C09 helper lemmas, continued: the share C10 computes for a datagram (`popLen`) is what C09's
model of `PopCryptoFrame` releases when it is called with C10's budget on the plain CRYPTO stream
(uQUIC disables ClientHello scrambling when a spec dictates the framing).
-/
import Uquic.Proofs.InitialCompose
import Uquic.Proofs.FramesStream

namespace Uquic.Proofs.Compose
open Uquic.Model.UQuic.Frames Uquic.Model.UQuic.Scrambler Uquic.Proofs.Frames Uquic.Proofs.Stream
open Uquic.Model

/-- the two renderings of `quicvarint.Len` agree -/
theorem varintLen_agree (v : Nat) : UQuic.Frames.varintLen (v : Int) = (Initial.varintLen v : Nat) := by
  unfold UQuic.Frames.varintLen Initial.varintLen
  rw [maxVarInt1_eq, maxVarInt2_eq, maxVarInt4_eq]
  repeat' split
  all_goals omega

/-- … and so do the two renderings of `CryptoFrame.MaxDataLen` -/
theorem maxDataLen_agree (off M : Nat) :
    UQuic.Scrambler.maxDataLen (off : Int) (M : Int) = (Initial.maxDataLen off M : Nat) := by
  unfold UQuic.Scrambler.maxDataLen Initial.maxDataLen
  simp only []
  rw [varintLen_agree off]
  by_cases h : 1 + Initial.varintLen off + 1 > M
  · rw [if_pos h, if_pos (by omega)]; rfl
  · rw [if_neg h, if_neg (by omega)]
    have e : (M : Int) - (1 + (Initial.varintLen off : Int) + 1) = ((M - (1 + Initial.varintLen off + 1) : Nat) : Int) := by omega
    rw [e, varintLen_agree]
    by_cases h1 : Initial.varintLen (M - (1 + Initial.varintLen off + 1)) ≠ 1
    · rw [if_pos h1, if_pos (by omega)]
      have : 1 ≤ M - (1 + Initial.varintLen off + 1) := by
        by_cases h0 : M - (1 + Initial.varintLen off + 1) = 0
        · rw [h0] at h1; exact absurd (by decide) h1
        · omega
      omega
    · rw [if_neg h1, if_neg (by omega)]

/-- One datagram: `PopCryptoFrame(budget − header)` on the plain stream that has released `[0,off)` of
    `CH` returns nothing when C10's `popLen` is 0 and otherwise exactly the frame
    `(off, CH[off, off+popLen))`, leaving the stream at `off + popLen`. -/
theorem pop_is_share (spec : Initial.Spec) (plan : Initial.Plan) (hdr off maxSize : Nat) (CH : List UInt8)
    (s : CS) (hplain : (!s.initial || !s.scramble) = true)
    (hbuf : s.buf = CH.drop off) (hwo : s.writeOffset = off) :
    pop s ((Initial.cryptoBudget spec plan hdr off maxSize - hdr : Nat) : Int) =
      if Initial.popLen spec plan hdr off (CH.length - off) maxSize = 0 then (s, .frame none)
      else
        ({ s with buf := CH.drop (off + Initial.popLen spec plan hdr off (CH.length - off) maxSize),
                  writeOffset := ((off + Initial.popLen spec plan hdr off (CH.length - off) maxSize : Nat) : Int) },
         .frame (some ((off : Int), (CH.drop off).take (Initial.popLen spec plan hdr off (CH.length - off) maxSize)))) := by
  rw [pop_plain hplain]
  unfold basePop
  simp only []
  rw [hwo, maxDataLen_agree, hbuf]
  have hl : ((CH.drop off).length : Int) = ((CH.length - off : Nat) : Int) := by simp
  rw [hl]
  have hmin : min ((Initial.maxDataLen off (Initial.cryptoBudget spec plan hdr off maxSize - hdr) : Nat) : Int)
      ((CH.length - off : Nat) : Int) = ((Initial.popLen spec plan hdr off (CH.length - off) maxSize : Nat) : Int) := by
    unfold Initial.popLen; omega
  rw [hmin]
  by_cases h0 : Initial.popLen spec plan hdr off (CH.length - off) maxSize = 0
  · rw [if_pos h0, if_pos (by omega)]
  · rw [if_neg h0, if_neg (by omega)]
    simp only [Int.toNat_natCast, List.drop_drop]
    congr 2

/-- the packer's loop on C09's stream model: datagram `i` calls `PopCryptoFrame` with the budget C10
    computes for it at the stream's current offset; the loop ends when nothing is released -/
def flightPops (spec : Initial.Spec) (hdrLenOf : Nat → Nat) (maxSize : Nat) :
    (fuel i off : Nat) → CS → List (Int × List UInt8)
  | 0, _, _, _ => []
  | fuel + 1, i, off, s =>
    match pop s ((Initial.cryptoBudget spec (Initial.planOf spec i) (hdrLenOf i) off maxSize - hdrLenOf i : Nat) : Int) with
    | (s', .frame (some f)) => f :: flightPops spec hdrLenOf maxSize fuel (i + 1) (off + f.2.length) s'
    | _ => []

/-- the CRYPTO frame of a share -/
def frameOfShare (CH : List UInt8) (sh : Nat × Nat) : Int × List UInt8 := ((sh.1 : Int), (CH.drop sh.1).take sh.2)

/-- the frames the packer pops for the datagrams of the flight are exactly the frames of C10's shares -/
theorem flightPops_eq_shares (spec : Initial.Spec) (hdrLenOf : Nat → Nat) (maxSize : Nat) (CH : List UInt8) :
    ∀ (fuel i off : Nat) (s : CS), off ≤ CH.length → (!s.initial || !s.scramble) = true →
      s.buf = CH.drop off → s.writeOffset = off →
      flightPops spec hdrLenOf maxSize fuel i off s =
        (flightShares spec hdrLenOf maxSize fuel i off (CH.length - off)).map (frameOfShare CH) := by
  intro fuel
  induction fuel with
  | zero => intro i off s _ _ _ _; rfl
  | succ fuel ih =>
    intro i off s hoff hplain hbuf hwo
    simp only [flightPops, flightShares]
    rw [pop_is_share spec (Initial.planOf spec i) (hdrLenOf i) off maxSize CH s hplain hbuf hwo]
    have hle := popLen_le spec (Initial.planOf spec i) (hdrLenOf i) off (CH.length - off) maxSize
    by_cases h0 : Initial.popLen spec (Initial.planOf spec i) (hdrLenOf i) off (CH.length - off) maxSize = 0
    · rw [if_pos h0, if_pos h0]; rfl
    · rw [if_neg h0, if_neg h0]
      simp only [List.map_cons, frameOfShare]
      have hlen : ((CH.drop off).take (Initial.popLen spec (Initial.planOf spec i) (hdrLenOf i) off (CH.length - off) maxSize)).length =
          Initial.popLen spec (Initial.planOf spec i) (hdrLenOf i) off (CH.length - off) maxSize := by
        simp; omega
      rw [hlen]
      congr 1
      generalize Initial.popLen spec (Initial.planOf spec i) (hdrLenOf i) off (CH.length - off) maxSize = n at *
      have key := ih (i + 1) (off + n) { s with buf := CH.drop (off + n), writeOffset := ((off + n : Nat) : Int) }
        (by omega) hplain rfl rfl
      rw [key]
      congr 2
      omega

end Uquic.Proofs.Compose
