/-
C19 (round 4): the lock discipline of requestWriter.writeHeaders — invariant over ALL schedules.
-/
import Uquic.Model.H3.ReqLock

namespace Uquic.Proofs.ReqLock
open Uquic.Model.H3.ReqLock

/-- what a writer has written so far, by program counter -/
def outOK (d : Discipline) (x : Writer) : Prop :=
  match d with
  | .holdLock => (x.pc ≤ 2 → x.out = []) ∧ (x.pc = 3 → x.out = [x.block.length]) ∧ (4 ≤ x.pc → x.out = expected x.block)
  | .copyThenUnlock => (x.pc ≤ 3 → x.out = []) ∧ (3 ≤ x.pc → x.snap = x.block) ∧ (x.pc = 4 → x.out = [x.block.length]) ∧
      (5 ≤ x.pc → x.out = expected x.block)
  | .aliasThenUnlock => True

/-- program counters at which a writer holds the mutex -/
def holds (d : Discipline) (pc : Nat) : Prop :=
  match d with
  | .holdLock => 1 ≤ pc ∧ pc ≤ 4
  | _ => 1 ≤ pc ∧ pc ≤ 2

structure Inv (d : Discipline) (b : Nat → List Nat) (st : State) : Prop where
  blk : ∀ j, (st.w j).block = b j
  free : st.lock = none → st.len = 0
  holder1 : ∀ j, holds d (st.w j).pc → st.lock = some j
  holder2 : ∀ j, st.lock = some j → holds d (st.w j).pc
  buf1 : ∀ j, st.lock = some j → (st.w j).pc = 1 → st.len = 0
  buf2 : ∀ j, st.lock = some j → 2 ≤ (st.w j).pc → st.len = (b j).length ∧ st.mem.take st.len = b j
  outs : ∀ j, outOK d (st.w j)

theorem inv_init (d : Discipline) (b : Nat → List Nat) : Inv d b (init b) := by
  constructor <;> intros <;> cases d <;> simp_all [init, holds, outOK]

theorem take_bufWrite (mem d : List Nat) : (bufWrite mem 0 d).take (0 + d.length) = d := by
  simp [bufWrite]

theorem w_setW_same (st : State) (i : Nat) (x : Writer) : (setW st i x).w i = x := by simp [setW]
theorem w_setW_other (st : State) (i j : Nat) (x : Writer) (h : j ≠ i) : (setW st i x).w j = st.w j := by simp [setW, h]

theorem inv_step_hold (b : Nat → List Nat) (st : State) (i : Nat)
    (h : Inv .holdLock b st) : Inv .holdLock b (step .holdLock st i) := by
  obtain ⟨hblk, hfree, hh1, hh2, hb1, hb2, houts⟩ := h
  have e1 := hh1 i; have e2 := hh2 i; have e3 := hb1 i; have e4 := hb2 i; have e5 := houts i; have e6 := hblk i
  unfold step
  simp only []
  split
  · split
    · refine ⟨fun j => ?_, ?_, fun j => ?_, fun j => ?_, fun j => ?_, fun j => ?_, fun j => ?_⟩
      all_goals (try by_cases hj : j = i)
      all_goals simp_all [setW, holds, outOK, expected, Option.isNone_iff_eq_none]
      all_goals (first | omega | grind)
    · exact ⟨hblk, hfree, hh1, hh2, hb1, hb2, houts⟩
  · refine ⟨fun j => ?_, ?_, fun j => ?_, fun j => ?_, fun j => ?_, fun j => ?_, fun j => ?_⟩
    all_goals (try by_cases hj : j = i)
    all_goals simp_all [setW, holds, outOK, expected, bufWrite]
    all_goals (first | omega | grind)
  · refine ⟨fun j => ?_, ?_, fun j => ?_, fun j => ?_, fun j => ?_, fun j => ?_, fun j => ?_⟩
    all_goals (try by_cases hj : j = i)
    all_goals simp_all [setW, holds, outOK, expected]
    all_goals (first | omega | grind)
  · refine ⟨fun j => ?_, ?_, fun j => ?_, fun j => ?_, fun j => ?_, fun j => ?_, fun j => ?_⟩
    all_goals (try by_cases hj : j = i)
    all_goals simp_all [setW, holds, outOK, expected]
    all_goals (first | omega | grind)
  · refine ⟨fun j => ?_, ?_, fun j => ?_, fun j => ?_, fun j => ?_, fun j => ?_, fun j => ?_⟩
    all_goals (try by_cases hj : j = i)
    all_goals simp_all [setW, holds, outOK, expected]
    all_goals (first | omega | grind)
  · exact ⟨hblk, hfree, hh1, hh2, hb1, hb2, houts⟩

theorem inv_step_copy (b : Nat → List Nat) (st : State) (i : Nat)
    (h : Inv .copyThenUnlock b st) : Inv .copyThenUnlock b (step .copyThenUnlock st i) := by
  obtain ⟨hblk, hfree, hh1, hh2, hb1, hb2, houts⟩ := h
  have e1 := hh1 i; have e2 := hh2 i; have e3 := hb1 i; have e4 := hb2 i; have e5 := houts i; have e6 := hblk i
  unfold step
  simp only []
  split
  · split
    · refine ⟨fun j => ?_, ?_, fun j => ?_, fun j => ?_, fun j => ?_, fun j => ?_, fun j => ?_⟩
      all_goals (try by_cases hj : j = i)
      all_goals simp_all [setW, holds, outOK, expected, Option.isNone_iff_eq_none]
      all_goals (first | omega | grind)
    · exact ⟨hblk, hfree, hh1, hh2, hb1, hb2, houts⟩
  · refine ⟨fun j => ?_, ?_, fun j => ?_, fun j => ?_, fun j => ?_, fun j => ?_, fun j => ?_⟩
    all_goals (try by_cases hj : j = i)
    all_goals simp_all [setW, holds, outOK, expected, bufWrite]
    all_goals (first | omega | grind)
  · refine ⟨fun j => ?_, ?_, fun j => ?_, fun j => ?_, fun j => ?_, fun j => ?_, fun j => ?_⟩
    all_goals (try by_cases hj : j = i)
    all_goals simp_all [setW, holds, outOK, expected]
    all_goals (first | omega | grind)
  · refine ⟨fun j => ?_, ?_, fun j => ?_, fun j => ?_, fun j => ?_, fun j => ?_, fun j => ?_⟩
    all_goals (try by_cases hj : j = i)
    all_goals simp_all [setW, holds, outOK, expected]
    all_goals (first | omega | grind)
  · refine ⟨fun j => ?_, ?_, fun j => ?_, fun j => ?_, fun j => ?_, fun j => ?_, fun j => ?_⟩
    all_goals (try by_cases hj : j = i)
    all_goals simp_all [setW, holds, outOK, expected]
    all_goals (first | omega | grind)
  · exact ⟨hblk, hfree, hh1, hh2, hb1, hb2, houts⟩


theorem inv_step (d : Discipline) (hd : d = .holdLock ∨ d = .copyThenUnlock) (b : Nat → List Nat) (st : State) (i : Nat)
    (h : Inv d b st) : Inv d b (step d st i) := by
  rcases hd with rfl | rfl
  · exact inv_step_hold b st i h
  · exact inv_step_copy b st i h

theorem inv_run (d : Discipline) (hd : d = .holdLock ∨ d = .copyThenUnlock) (b : Nat → List Nat) (sched : List Nat) :
    ∀ st, Inv d b st → Inv d b (run d st sched) := by
  induction sched with
  | nil => intro st h; exact h
  | cons i rest ih => intro st h; exact ih _ (inv_step d hd b st i h)

/-- every finished writeHeaders call wrote the length of its own block and then its own block -/
theorem finished_writes_own_block (d : Discipline) (hd : d = .holdLock ∨ d = .copyThenUnlock) (blocks : Nat → List Nat)
    (sched : List Nat) (i : Nat) (hdone : ((run d (init blocks) sched).w i).pc = 5) :
    ((run d (init blocks) sched).w i).out = expected (blocks i) := by
  have h := inv_run d hd blocks sched _ (inv_init d blocks)
  have ho := h.outs i
  have hb := h.blk i
  rcases hd with rfl | rfl
  · simp only [outOK] at ho
    rw [← hb]; exact ho.2.2 (by omega)
  · simp only [outOK] at ho
    rw [← hb]; exact ho.2.2.2 (by omega)

end Uquic.Proofs.ReqLock
