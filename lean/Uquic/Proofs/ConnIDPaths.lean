/-
Path probing glue (path_manager.go) on top of the connection ID manager: every
connection ID allocated for path probing belongs to a path the path manager
still tracks (or the path the connection migrated to) — a path that is dropped
gives its connection ID back.
-/
import Uquic.Model.ConnID.PathManager
import Uquic.Proofs.ConnIDLedger

namespace Uquic.Proofs.ConnID
open Uquic.Model.ConnID

/-- the paths that hold a connection ID in the manager -/
def pKeys (m : Manager) : List Nat := m.probing.map (·.1)
def pathIDs (pm : PathManager) : List Nat := pm.paths.map (·.id)

theorem maxPaths_ge2 : 2 ≤ maxPaths := by decide

/-! ### the two manager calls -/

theorem retire_open {m : Manager} (hc : m.closed = false) (p : Nat) :
    (m.retireConnIDForPath p).2.2 = .ok ∧ (m.retireConnIDForPath p).1.closed = false ∧
    (m.retireConnIDForPath p).1.activeID = m.activeID := by
  unfold Manager.retireConnIDForPath
  simp only [hc, Bool.false_eq_true, ↓reduceIte]
  split
  · exact ⟨rfl, hc, rfl⟩
  · split
    · exact ⟨rfl, hc, rfl⟩
    · exact ⟨rfl, rfl, rfl⟩

theorem retire_keys_sub (m : Manager) (p : Nat) : ∀ k ∈ pKeys (m.retireConnIDForPath p).1, k ∈ pKeys m := by
  intro k hk
  unfold Manager.retireConnIDForPath at hk
  split at hk
  · exact hk
  split at hk
  · exact hk
  split at hk
  · exact hk
  · simp only [pKeys, List.mem_map, List.mem_filter] at hk ⊢
    obtain ⟨pe, ⟨hpe, _⟩, rfl⟩ := hk
    exact ⟨pe, hpe, rfl⟩

/-- with an open manager and non-zero-length connection IDs the path holds no connection ID afterwards -/
theorem retire_keys_gone {m : Manager} (hc : m.closed = false) (hz : m.activeID ≠ []) (p : Nat) :
    p ∉ pKeys (m.retireConnIDForPath p).1 := by
  unfold Manager.retireConnIDForPath
  simp only [hc, Bool.false_eq_true, ↓reduceIte, hz]
  split
  · rename_i hl
    exact lookupPath_none.mp hl
  · simp only [pKeys, List.mem_map, List.mem_filter]
    rintro ⟨pe, ⟨_, hne⟩, rfl⟩
    simp at hne

theorem getConnID_keys (m : Manager) (p : Nat) :
    (∀ k ∈ pKeys (m.getConnIDForPath p).1, k ∈ pKeys m ∨ (k = p ∧ (m.getConnIDForPath p).2.2.1.isSome ∧ (m.getConnIDForPath p).2.2.2 = .ok)) ∧
    (m.getConnIDForPath p).1.closed = m.closed := by
  unfold Manager.getConnIDForPath
  split
  · exact ⟨fun k hk => Or.inl hk, rfl⟩
  split
  · exact ⟨fun k hk => Or.inl hk, rfl⟩
  split
  · exact ⟨fun k hk => Or.inl hk, rfl⟩
  split
  · exact ⟨fun k hk => Or.inl hk, rfl⟩
  · refine ⟨?_, rfl⟩
    intro k hk
    simp only [pKeys, List.map_append, List.map_cons, List.map_nil, List.mem_append, List.mem_singleton] at hk
    rcases hk with hk | rfl
    · exact Or.inl hk
    · exact Or.inr ⟨rfl, rfl, rfl⟩

/-! ### manager operations other than the two path calls never allocate a path-probing ID -/

theorem update_probing (m : Manager) (draw : Nat) : (m.updateConnectionID draw).1.probing = m.probing := by
  unfold Manager.updateConnectionID
  split
  · rfl
  · simp only
    split <;> rfl

theorem add_keys_sub (m : Manager) (seq rpt : Nat) (id tok : Bytes) (draw : Nat) :
    ∀ k ∈ pKeys (m.add seq rpt id tok draw).1, k ∈ pKeys m := by
  have h2 : ∀ k ∈ pKeys ((m.retireProbingBelow rpt).1.retireQueueBelow rpt).1, k ∈ pKeys m := by
    intro k hk
    have F2 := rptQueue_fields (m.retireProbingBelow rpt).1 rpt
    simp only [pKeys, F2.2.2.2.2] at hk
    simp only [Manager.retireProbingBelow, List.mem_map, List.mem_filter] at hk
    obtain ⟨pe, ⟨hpe, _⟩, rfl⟩ := hk
    exact List.mem_map.mpr ⟨pe, hpe, rfl⟩
  unfold Manager.add
  split
  · exact fun k hk => hk
  split
  · exact fun k hk => hk
  split
  · exact fun k hk => hk
  simp only
  split
  · exact h2
  split
  · exact h2
  split
  · intro k hk
    simp only [pKeys, update_probing] at hk
    exact h2 k hk
  · exact h2

/-- the manager operations the connection performs besides path probing (`ChangeInitialConnID` is client-only,
    the path manager is server-only) -/
def MgrOpOK : Op → Prop
  | .path _ => False
  | .retirePath _ => False
  | .changeInitial _ => False
  | _ => True

theorem step_keys_sub (m : Manager) (op : Op) (hop : MgrOpOK op) : ∀ k ∈ pKeys (m.step op).1, k ∈ pKeys m := by
  cases op with
  | new seq rpt id tok draw =>
    simp only [Manager.step]
    rw [(addFrame_state m seq rpt id tok draw).1]
    exact add_keys_sub m seq rpt id tok draw
  | pref id tok =>
    simp only [Manager.step, Manager.addFromPreferredAddress]
    split <;> exact fun k hk => hk
  | get draw =>
    simp only [Manager.step, Manager.get]
    split
    · exact fun k hk => hk
    · split
      · intro k hk; simp only [pKeys, update_probing] at hk; exact hk
      · exact fun k hk => hk
  | sentPacket => exact fun k hk => hk
  | path p => exact absurd hop id
  | retirePath p => exact absurd hop id
  | hsDone => exact fun k hk => hk
  | close => exact fun k hk => hk
  | setTok t =>
    simp only [Manager.step, Manager.setStatelessResetToken]
    split
    · exact fun k hk => hk
    · split <;> exact fun k hk => hk
  | changeInitial i => exact absurd hop id
  | setLimit n => exact fun k hk => hk

/-! ### the system: path manager + connection ID manager -/

structure Sys where
  pm : PathManager := {}
  m : Manager
  /-- ghost: the paths the connection migrated to (`SwitchToPath` keeps their connection ID) -/
  kept : List Nat := []

inductive SysOp where
  | mgr (op : Op)
  | pkt (addr : Nat) (t : Int) (hasChallenge isNonProbing : Bool)
  | resp (pid : Nat)
  | lost (pid : Nat)
  | switch (addr : Nat)

def Sys.step (s : Sys) : SysOp → Sys
  | .mgr op => { s with m := (s.m.step op).1 }
  | .pkt addr t ch np => let r := handlePacket s.pm s.m addr t ch np; { s with pm := r.1, m := r.2.1 }
  | .resp pid => { s with pm := handlePathResponse s.pm pid }
  | .lost pid => let r := onLost s.pm s.m pid; { s with pm := r.1, m := r.2.1 }
  | .switch addr =>
    let r := switchToPath s.pm s.m addr
    { pm := r.1, m := r.2.1,
      kept := if r.2.2.2 == .panic then s.kept else s.kept ++ ((s.pm.paths.filter fun p => p.addr == addr).map (·.id)) }

/-- what holds before every step of the histories considered: the manager is open (a closed manager is never used), the
    peer uses non-zero-length connection IDs (otherwise no connection ID is ever allocated to a path), and the manager
    is not called for path probing behind the path manager's back -/
def SysValid (s : Sys) (op : SysOp) : Prop :=
  s.m.closed = false ∧ s.m.activeID ≠ [] ∧ (match op with | .mgr o => MgrOpOK o | _ => True)

/-- every connection ID allocated for path probing belongs to a tracked path or to the path migrated to -/
def Released (s : Sys) : Prop := ∀ k ∈ pKeys s.m, k ∈ pathIDs s.pm ∨ k ∈ s.kept

theorem touch_ids (pm : PathManager) (addr : Nat) (t : Int) (np : Bool) :
    (∀ k, k ∈ pathIDs (touchPath pm addr t np).1 ↔ k ∈ pathIDs pm) ∧
    (∀ p, (touchPath pm addr t np).2 = some p → (touchPath pm addr t np).1.paths.getLast? = some p) ∧
    (touchPath pm addr t np).1.nextID = pm.nextID := by
  unfold touchPath
  split
  · rename_i p hp
    have hmem := List.mem_of_find?_eq_some hp
    refine ⟨?_, ?_, rfl⟩
    · intro k
      simp only [pathIDs, List.map_append, List.map_cons, List.map_nil, List.mem_append, List.mem_map, List.mem_filter,
        List.mem_singleton]
      constructor
      · rintro (⟨q, ⟨hq, _⟩, rfl⟩ | rfl)
        · exact ⟨q, hq, rfl⟩
        · exact ⟨p, hmem, rfl⟩
      · rintro ⟨q, hq, rfl⟩
        by_cases h : q.id = p.id
        · right; exact h
        · left; exact ⟨q, ⟨hq, by simpa using h⟩, rfl⟩
    · intro q hq
      cases hq
      simp
  · refine ⟨fun k => Iff.rfl, ?_, rfl⟩
    intro p hp
    cases hp

theorem makeRoom_spec {pm : PathManager} {m : Manager} {t : Int} (hc : m.closed = false) (hz : m.activeID ≠ [])
    {pm2 : PathManager} {m2 : Manager} {ev : List Ev} {res : Res} (h : makeRoom pm m t = some (pm2, m2, ev, res)) :
    res = .ok ∧ m2.closed = false ∧ pm2.nextID = pm.nextID ∧
    (∀ k ∈ pKeys m2, k ∈ pKeys m) ∧
    (∀ k ∈ pKeys m2, k ∈ pathIDs pm → k ∈ pathIDs pm2) ∧
    (∀ k ∈ pathIDs pm2, k ∈ pathIDs pm) ∧
    (∀ p, pm.paths.getLast? = some p → pm2.paths.getLast? = some p) := by
  unfold makeRoom at h
  split at h
  · rename_i hlen
    split at h
    · rename_i q rest hq
      split at h
      · cases h
      · have ho := retire_open hc q.id
        simp [ho.1] at h
        obtain ⟨rfl, rfl, rfl, rfl⟩ := h
        refine ⟨rfl, ho.2.1, rfl, retire_keys_sub m q.id, ?_, ?_, ?_⟩
        · intro k hk hin
          have hne : k ≠ q.id := by
            intro he; subst he; exact retire_keys_gone hc hz q.id hk
          simp only [pathIDs, hq, List.map_cons, List.mem_cons] at hin ⊢
          rcases hin with h1 | h1
          · exact absurd h1 hne
          · exact h1
        · intro k hk
          simp only [pathIDs, hq, List.map_cons, List.mem_cons] at hk ⊢
          exact Or.inr hk
        · intro p hp
          simp only [hq] at hp hlen ⊢
          have h2 := maxPaths_ge2
          cases rest with
          | nil => simp at hlen; omega
          | cons r rs => simpa [List.getLast?_cons_cons] using hp
    · simp only [Option.some.injEq, Prod.mk.injEq] at h
      obtain ⟨rfl, rfl, rfl, rfl⟩ := h
      exact ⟨rfl, hc, rfl, fun k hk => hk, fun k _ h => h, fun k h => h, fun p h => h⟩
  · simp only [Option.some.injEq, Prod.mk.injEq] at h
    obtain ⟨rfl, rfl, rfl, rfl⟩ := h
    exact ⟨rfl, hc, rfl, fun k hk => hk, fun k _ h => h, fun k h => h, fun p h => h⟩

theorem probe_spec (pm : PathManager) (m : Manager) (p' : Option PPath) (addr : Nat) (t : Int) (ch np sw : Bool)
    (hp : ∀ p, p' = some p → p.id ∈ pathIDs pm) :
    (∀ k ∈ pKeys (probePath pm m p' addr t ch np sw).2.1, k ∈ pKeys m ∨ k ∈ pathIDs (probePath pm m p' addr t ch np sw).1) ∧
    (∀ k ∈ pathIDs pm, k ∈ pathIDs (probePath pm m p' addr t ch np sw).1) := by
  cases p' with
  | some p =>
    have G := getConnID_keys m p.id
    unfold probePath
    simp only
    generalize m.getConnIDForPath p.id = g at G
    split
    · rename_i hpan
      refine ⟨?_, fun k h => h⟩
      intro k hk
      rcases G.1 k hk with h | ⟨_, _, hok⟩
      · exact Or.inl h
      · simp [hok] at hpan
    · split
      · rename_i hnone
        refine ⟨?_, fun k h => h⟩
        intro k hk
        rcases G.1 k hk with h | ⟨_, hsome, _⟩
        · exact Or.inl h
        · simp [hnone] at hsome
      · refine ⟨?_, fun k h => h⟩
        intro k hk
        rcases G.1 k hk with h | ⟨rfl, _, _⟩
        · exact Or.inl h
        · exact Or.inr (hp p rfl)
  | none =>
    have G := getConnID_keys m pm.nextID
    unfold probePath
    simp only
    generalize m.getConnIDForPath pm.nextID = g at G
    split
    · rename_i hpan
      refine ⟨?_, fun k h => h⟩
      intro k hk
      rcases G.1 k hk with h | ⟨_, _, hok⟩
      · exact Or.inl h
      · simp [hok] at hpan
    · split
      · rename_i hnone
        refine ⟨?_, fun k h => h⟩
        intro k hk
        rcases G.1 k hk with h | ⟨_, hsome, _⟩
        · exact Or.inl h
        · simp [hnone] at hsome
      · refine ⟨?_, ?_⟩
        · intro k hk
          rcases G.1 k hk with h | ⟨rfl, _, _⟩
          · exact Or.inl h
          · right; simp [pathIDs]
        · intro k hk
          simp only [pathIDs, List.map_append, List.mem_append]; exact Or.inl hk

theorem handlePacket_spec (pm : PathManager) (m : Manager) (addr : Nat) (t : Int) (ch np : Bool)
    (hc : m.closed = false) (hz : m.activeID ≠ []) :
    (∀ k ∈ pKeys (handlePacket pm m addr t ch np).2.1, k ∈ pKeys m ∨ k ∈ pathIDs (handlePacket pm m addr t ch np).1) ∧
    (∀ k ∈ pKeys (handlePacket pm m addr t ch np).2.1, k ∈ pathIDs pm → k ∈ pathIDs (handlePacket pm m addr t ch np).1) := by
  have T := touch_ids pm addr t np
  unfold handlePacket
  simp only
  generalize touchPath pm addr t np = tp at T
  split
  · exact ⟨fun k hk => Or.inl hk, fun k _ h => (T.1 k).mpr h⟩
  · split
    · exact ⟨fun k hk => Or.inl hk, fun k _ h => (T.1 k).mpr h⟩
    · rename_i pm2 m2 ev res hmr
      have M := makeRoom_spec hc hz hmr
      simp only [M.1]
      have hp : ∀ p, tp.2 = some p → p.id ∈ pathIDs pm2 := by
        intro p hp
        have := M.2.2.2.2.2.2 p (T.2.1 p hp)
        exact List.mem_map.mpr ⟨p, List.mem_of_getLast? this, rfl⟩
      have P := probe_spec pm2 m2 tp.2 addr t ch np
        (match tp.2 with | some p => p.validated && p.rcvdNonProbing | none => false) hp
      refine ⟨?_, ?_⟩
      · intro k hk
        rcases P.1 k hk with h | h
        · exact Or.inl (M.2.2.2.1 k h)
        · exact Or.inr h
      · intro k hk hin
        rcases P.1 k hk with h | h
        · exact P.2 k (M.2.2.2.2.1 k h ((T.1 k).mpr hin))
        · exact h

theorem retireOthers_spec (addr : Nat) : ∀ (l : List PPath) (m : Manager), m.closed = false → m.activeID ≠ [] →
    (retireOthers addr l m).2.2 = .ok ∧
    ∀ k ∈ pKeys (retireOthers addr l m).1, k ∈ pKeys m ∧ ∀ p ∈ l, (p.addr == addr) = false → k ≠ p.id
  | [], m, _, _ => by simp [retireOthers]
  | p :: rest, m, hc, hz => by
    unfold retireOthers
    split
    · rename_i ha
      have ih := retireOthers_spec addr rest m hc hz
      refine ⟨ih.1, ?_⟩
      intro k hk
      refine ⟨(ih.2 k hk).1, ?_⟩
      intro q hq hqa
      simp only [List.mem_cons] at hq
      rcases hq with rfl | hq
      · simp [ha] at hqa
      · exact (ih.2 k hk).2 q hq hqa
    · have ho := retire_open hc p.id
      simp only [ho.1]
      have hz' : (m.retireConnIDForPath p.id).1.activeID ≠ [] := by rw [ho.2.2]; exact hz
      have ih := retireOthers_spec addr rest (m.retireConnIDForPath p.id).1 ho.2.1 hz'
      refine ⟨by simpa using ih.1, ?_⟩
      intro k hk
      have hk' := ih.2 k (by simpa using hk)
      refine ⟨retire_keys_sub m p.id k hk'.1, ?_⟩
      intro q hq hqa
      simp only [List.mem_cons] at hq
      rcases hq with rfl | hq
      · intro he; subst he; exact retire_keys_gone hc hz _ hk'.1
      · exact hk'.2 q hq hqa

theorem released_step {s : Sys} (op : SysOp) (hr : Released s) (hv : SysValid s op) : Released (s.step op) := by
  obtain ⟨hc, hz, hop⟩ := hv
  cases op with
  | mgr o =>
    intro k hk
    exact hr k (step_keys_sub s.m o hop k hk)
  | pkt addr t ch np =>
    have H := handlePacket_spec s.pm s.m addr t ch np hc hz
    intro k hk
    simp only [Sys.step] at hk ⊢
    rcases H.1 k hk with h | h
    · rcases hr k h with h1 | h1
      · exact Or.inl (H.2 k hk h1)
      · exact Or.inr h1
    · exact Or.inl h
  | resp pid =>
    intro k hk
    simp only [Sys.step, handlePathResponse] at hk ⊢
    rcases hr k hk with h | h
    · left
      simp only [pathIDs, List.map_map, List.mem_map] at h ⊢
      obtain ⟨p, hp, rfl⟩ := h
      refine ⟨p, hp, ?_⟩
      simp only [Function.comp]
      split <;> rfl
    · exact Or.inr h
  | lost pid =>
    intro k hk
    simp only [Sys.step, onLost] at hk ⊢
    split at hk
    · rename_i hany
      simp only [hany, ↓reduceIte]
      have hk0 := retire_keys_sub s.m pid k hk
      have hne : k ≠ pid := by intro he; subst he; exact retire_keys_gone hc hz _ hk
      rcases hr k hk0 with h | h
      · left
        simp only [pathIDs, List.mem_map, List.mem_filter] at h ⊢
        obtain ⟨p, hp, rfl⟩ := h
        exact ⟨p, ⟨hp, by simpa using hne⟩, rfl⟩
      · exact Or.inr h
    · rename_i hany
      simp only [hany, Bool.false_eq_true, ↓reduceIte]
      exact hr k hk
  | switch addr =>
    have R := retireOthers_spec addr s.pm.paths s.m hc hz
    intro k hk
    have hne : (Res.ok == Res.panic) = false := by decide
    simp only [Sys.step, switchToPath, R.1, hne, Bool.false_eq_true, ↓reduceIte] at hk ⊢
    have hk' := R.2 k (by simpa using hk)
    right
    rcases hr k hk'.1 with h | h
    · simp only [pathIDs, List.mem_map] at h
      obtain ⟨p, hp, rfl⟩ := h
      have hpa : (p.addr == addr) = true := by
        cases hpa : (p.addr == addr) with
        | true => rfl
        | false => exact absurd rfl (hk'.2 p hp hpa)
      simp only [List.mem_append, List.mem_map, List.mem_filter]
      exact Or.inr ⟨p, ⟨hp, hpa⟩, rfl⟩
    · simp only [List.mem_append]; exact Or.inl h

def SysRunValid : Sys → List SysOp → Prop
  | _, [] => True
  | s, op :: ops => SysValid s op ∧ SysRunValid (s.step op) ops

def Sys.run : Sys → List SysOp → Sys
  | s, [] => s
  | s, op :: ops => Sys.run (s.step op) ops

theorem released_run : ∀ {ops : List SysOp} {s : Sys}, Released s → SysRunValid s ops → Released (s.run ops)
  | [], _, h, _ => h
  | op :: ops, s, h, hv => released_run (ops := ops) (s := s.step op) (released_step op h hv.1) hv.2

/-- a PATH_CHALLENGE declared lost: the path is dropped, RETIRE_CONNECTION_ID is queued for the sequence number of its
    connection ID and its stateless reset token is unregistered -/
theorem lost_retires {pm : PathManager} {m : Manager} {pid : Nat} {e : Entry} (hc : m.closed = false) (hz : m.activeID ≠ [])
    (hp : pm.paths.any (fun p => p.id == pid) = true) (hl : lookupPath pid m.probing = some e) :
    (onLost pm m pid).2.2.1 = [Ev.retire e.seq, Ev.rmTok e.tok] ∧ pid ∉ pathIDs (onLost pm m pid).1 ∧
    pid ∉ pKeys (onLost pm m pid).2.1 := by
  unfold onLost
  simp only [hp, ↓reduceIte]
  refine ⟨?_, ?_, retire_keys_gone hc hz pid⟩
  · unfold Manager.retireConnIDForPath
    simp [hc, hz, hl]
  · simp [pathIDs, List.mem_map, List.mem_filter]

end Uquic.Proofs.ConnID
