import Uquic.Proofs.WireRoundTrip2

/-! `decode (append v ++ rest) = v` for the frames carrying byte strings, STREAM and ACK;
    then the statement for every frame at once. -/

namespace Uquic.Proofs.Wire
open Uquic.Model.Wire Uquic.Model.Wire.Varint Uquic.Spec.WireMon

section
variable (c : Ctx) (rest : Bytes)

theorem mpbs_eq : maxPacketBufferSize = 1452 := by decide
theorem msfb_eq : minStreamFrameBufferSize = 128 := by decide
theorem mbc_eq : maxByteCount = 2 ^ 62 - 1 := by decide
theorem mcl_eq : maxConnIDLen = 20 := by decide

theorem len_fits (data : Bytes) (h : data.length ≤ maxPacketBufferSize) : data.length ≤ maxVarInt8 := by
  rw [mpbs_eq] at h; rw [max8_eq]; omega

theorem rt_crypto (off : Nat) (data : Bytes) (ho : off < 2 ^ 62) (hl : data.length < 2 ^ 62) (hacc : typeAccepted c ftCrypto) :
    decode c ((Frame.crypto off data).bytes ++ rest) = .frame (.crypto off data) (Frame.crypto off data).bytes.length :=
  decode_frame c _ ftCrypto (enc off ++ enc data.length ++ data) rest _
    (by simp [Frame.bytes, u8_eq_enc ftCrypto (by decide)]) (by decide) (by decide) hacc
    (by rw [body_crypto]; exact parseCrypto_of data (decodes_enc off (lt62 ho)) (decodes_enc data.length (lt62 hl)) rest)
    (by simp <;> omega)

theorem rt_newToken (tok : Bytes) (hne : tok ≠ []) (hl : tok.length < 2 ^ 62) (hacc : typeAccepted c ftNewToken) :
    decode c ((Frame.newToken tok).bytes ++ rest) = .frame (.newToken tok) (Frame.newToken tok).bytes.length :=
  decode_frame c _ ftNewToken (enc tok.length ++ tok) rest _
    (by simp [Frame.bytes, u8_eq_enc ftNewToken (by decide)]) (by decide) (by decide) hacc
    (by rw [body_newToken]; exact parseNewToken_of tok (decodes_enc tok.length (lt62 hl)) hne rest)
    (by simp <;> omega)

theorem rt_pathChallenge (d : Bytes) (hd : d.length = 8) (hacc : typeAccepted c ftPathChallenge) :
    decode c ((Frame.pathChallenge d).bytes ++ rest) = .frame (.pathChallenge d) (Frame.pathChallenge d).bytes.length :=
  decode_frame c _ ftPathChallenge d rest _
    (by simp [Frame.bytes, u8_eq_enc ftPathChallenge (by decide)]) (by decide) (by decide) hacc
    (by rw [body_pathChallenge]; exact parsePathChallenge_of d hd rest) hd.symm

theorem rt_pathResponse (d : Bytes) (hd : d.length = 8) (hacc : typeAccepted c ftPathResponse) :
    decode c ((Frame.pathResponse d).bytes ++ rest) = .frame (.pathResponse d) (Frame.pathResponse d).bytes.length :=
  decode_frame c _ ftPathResponse d rest _
    (by simp [Frame.bytes, u8_eq_enc ftPathResponse (by decide)]) (by decide) (by decide) hacc
    (by rw [body_pathResponse]; exact parsePathResponse_of d hd rest) hd.symm

theorem rt_newConnectionID (seq rpt : Nat) (cid tok : Bytes) (hs : seq < 2 ^ 62) (hr : rpt ≤ seq) (hc1 : 1 ≤ cid.length)
    (hc2 : cid.length ≤ 20) (ht : tok.length = 16) (hacc : typeAccepted c ftNewConnectionID) :
    decode c ((Frame.newConnectionID seq rpt cid tok).bytes ++ rest) =
      .frame (.newConnectionID seq rpt cid tok) (Frame.newConnectionID seq rpt cid tok).bytes.length :=
  decode_frame c _ ftNewConnectionID (enc seq ++ enc rpt ++ [u8 cid.length] ++ cid ++ tok) rest _
    (by simp [Frame.bytes, u8_eq_enc ftNewConnectionID (by decide)]) (by decide) (by decide) hacc
    (by rw [body_newConnectionID]
        exact parseNewConnectionID_of cid tok (decodes_enc seq (lt62 hs)) (decodes_enc rpt (lt62 (by omega))) hr hc1
          (by rw [mcl_eq]; exact hc2) (by omega) ht rest)
    (by simp [ht] <;> omega)

theorem rt_connectionClose (isApp : Bool) (ec ft : Nat) (reason : Bytes) (he : ec < 2 ^ 62) (hf : isApp = false → ft < 2 ^ 62)
    (hf0 : isApp = true → ft = 0) (hl : reason.length < 2 ^ 62)
    (hacc : typeAccepted c (Frame.connectionClose isApp ec ft reason).typ) :
    decode c ((Frame.connectionClose isApp ec ft reason).bytes ++ rest) =
      .frame (.connectionClose isApp ec ft reason) (Frame.connectionClose isApp ec ft reason).bytes.length := by
  cases isApp with
  | true =>
    have := hf0 rfl; subst this
    exact decode_frame c _ ftApplicationClose (enc ec ++ enc reason.length ++ reason) rest _
      (by simp [Frame.bytes, u8_eq_enc ftApplicationClose (by decide)]) (by decide) (by decide)
      (by simpa [Frame.typ] using hacc)
      (by rw [body_applicationClose]
          exact parseConnectionClose_of_app reason ftApplicationClose rfl (decodes_enc ec (lt62 he))
            (decodes_enc reason.length (lt62 hl)) rest)
      (by simp <;> omega)
  | false =>
    exact decode_frame c _ ftConnectionClose (enc ec ++ enc ft ++ enc reason.length ++ reason) rest _
      (by simp [Frame.bytes, u8_eq_enc ftConnectionClose (by decide)]) (by decide) (by decide)
      (by simpa [Frame.typ] using hacc)
      (by rw [body_connectionClose]
          exact parseConnectionClose_of_transport reason ftConnectionClose (by decide) (decodes_enc ec (lt62 he))
            (decodes_enc ft (lt62 (hf rfl))) (decodes_enc reason.length (lt62 hl)) rest)
      (by simp <;> omega)

theorem rt_datagram (dlp : Bool) (data : Bytes) (hl : data.length < 2 ^ 62) (hg : dlp = false → rest = [])
    (hacc : typeAccepted c (Frame.datagram dlp data).typ) :
    decode c ((Frame.datagram dlp data).bytes ++ rest) = .frame (.datagram dlp data) (Frame.datagram dlp data).bytes.length := by
  cases dlp with
  | true =>
    exact decode_frame c _ 0x31 (enc data.length ++ data) rest _
      (by simp only [Frame.bytes, if_true]; rw [show (0x30 + 1 : Nat) = 0x31 by decide, u8_eq_enc 0x31 (by decide)]; simp)
      (by decide) (by decide) (by simpa [Frame.typ] using hacc)
      (by rw [body_dg c 0x31 (Or.inr rfl)]
          exact parseDatagram_of_len data 0x31 (by decide) (decodes_enc data.length (lt62 hl)) rest)
      (by simp <;> omega)
  | false =>
    have := hg rfl; subst this
    exact decode_frame c _ 0x30 data [] _
      (by simp only [Frame.bytes, Bool.false_eq_true, if_false]; rw [show (0x30 + 0 : Nat) = 0x30 by decide,
            u8_eq_enc 0x30 (by decide)]; simp)
      (by decide) (by decide) (by simpa [Frame.typ] using hacc)
      (by rw [body_dg c 0x30 (Or.inl rfl)]; simpa using parseDatagram_of_nolen data 0x30 (by decide))
      rfl

end

end Uquic.Proofs.Wire

namespace Uquic.Proofs.Wire
open Uquic.Model.Wire Uquic.Model.Wire.Varint Uquic.Spec.WireMon

theorem streamType_bits (fin dlp ho : Bool) :
    8 ≤ streamTypeByte fin dlp ho ∧ streamTypeByte fin dlp ho ≤ 15 ∧
    (streamTypeByte fin dlp ho % 2 = 1 ↔ fin = true) ∧ (streamTypeByte fin dlp ho / 2 % 2 = 1 ↔ dlp = true) ∧
    (streamTypeByte fin dlp ho / 4 % 2 = 1 ↔ ho = true) := by
  cases fin <;> cases dlp <;> cases ho <;> decide

theorem rt_stream (c : Ctx) (rest : Bytes) (sid off : Nat) (data : Bytes) (fin dlp : Bool) (hs : sid < 2 ^ 62)
    (hmax : off + data.length ≤ 2 ^ 62 - 1) (hlen : data.length ≤ maxPacketBufferSize) (hg : dlp = false → rest = [])
    (hacc : typeAccepted c (Frame.stream sid off data fin dlp).typ) :
    decode c ((Frame.stream sid off data fin dlp).bytes ++ rest) =
      .frame (.stream sid off data fin dlp) (Frame.stream sid off data fin dlp).bytes.length := by
  obtain ⟨h8, h15, hfin, hdlp, hoff⟩ := streamType_bits fin dlp (decide (off ≠ 0))
  have hacc' : typeAccepted c (streamTypeByte fin dlp (decide (off ≠ 0))) := by simpa [Frame.typ] using hacc
  have hbytes : (Frame.stream sid off data fin dlp).bytes =
      [u8 (streamTypeByte fin dlp (decide (off ≠ 0)))] ++ enc sid ++ (if off ≠ 0 then enc off else [])
        ++ (if dlp then enc data.length else []) ++ data := by simp [Frame.bytes]
  rw [hbytes]
  have hoff' : decide (off ≠ 0) = true ↔ off ≠ 0 := by simp
  generalize streamTypeByte fin dlp (decide (off ≠ 0)) = t at *
  have hsmall : t ≤ 63 := by omega
  generalize hpo : (if off ≠ 0 then enc off else [] : Bytes) = po
  generalize hpl : (if dlp then enc data.length else [] : Bytes) = pl
  have ho : if t / 4 % 2 = 1 then Decodes po off else (po = [] ∧ off = 0) := by
    by_cases h0 : off = 0
    · have : ¬ (t / 4 % 2 = 1) := by rw [hoff, hoff']; simpa using h0
      rw [if_neg this]; subst hpo; simp [h0]
    · have : t / 4 % 2 = 1 := by rw [hoff, hoff']; exact h0
      rw [if_pos this]; subst hpo; rw [if_pos h0]
      exact decodes_enc off (by rw [max8_eq]; omega)
  have hl : if t / 2 % 2 = 1 then Decodes pl data.length else (pl = [] ∧ rest = []) := by
    cases hd : dlp with
    | true =>
      have : t / 2 % 2 = 1 := hdlp.mpr hd
      rw [if_pos this]; subst hpl; simp only [hd, if_true]
      exact decodes_enc _ (len_fits data hlen)
    | false =>
      have : ¬ (t / 2 % 2 = 1) := by rw [hdlp, hd]; simp
      rw [if_neg this]; subst hpl; simp [hd, hg hd]
  have hbuf : ¬(data.length ≥ minStreamFrameBufferSize ∧ data.length > maxPacketBufferSize) := by omega
  have hof := parseStream_of t data rest (decodes_enc sid (lt62 hs)) ho hl hbuf (by rw [mbc_eq]; exact hmax)
  have hfr : Frame.stream sid off data (decide (t % 2 = 1)) (decide (t / 2 % 2 = 1)) = Frame.stream sid off data fin dlp := by
    congr 1
    · cases fin <;> simp_all
    · cases dlp <;> simp_all
  rw [hfr] at hof
  have hdec := decode_of_body c t (enc sid ++ po ++ pl ++ data ++ rest) _ _ (by omega) (by rw [max8_eq]; omega) hacc'
    (by rw [body_stream c t ⟨h8, h15⟩]; exact hof)
  rw [u8_eq_enc t hsmall]
  have e1 : enc t ++ enc sid ++ po ++ pl ++ data ++ rest = enc t ++ (enc sid ++ po ++ pl ++ data ++ rest) := by simp
  rw [e1, hdec]
  congr 1
  simp [len_enc t (by rw [max8_eq]; omega)]; omega

/-- what `validateAckRanges` accepts is a descending chain -/
theorem chain_of_consistent : ∀ (rest : List AckRange) (x : AckRange),
    ackRangesConsistent (x :: rest) = true → (rest.any fun r => decide (r.1 > r.2)) = false → Chain x.1 rest
  | [], _, _, _ => trivial
  | y :: rest, x, hc, ha => by
    unfold ackRangesConsistent at hc
    simp only [List.any_cons, Bool.or_eq_false_iff, decide_eq_false_iff_not] at ha
    by_cases h1 : x.1 ≤ y.1
    · simp [h1] at hc
    · rw [if_neg h1] at hc
      by_cases h2 : x.1 ≤ y.2 + 1
      · simp [h2] at hc
      · rw [if_neg h2] at hc
        exact ⟨by omega, by omega, chain_of_consistent rest y hc ha.2⟩

theorem chain_of_validate (s0 l0 : Nat) (rest : List AckRange) (h : validateAckRanges ((s0, l0) :: rest) = true) :
    s0 ≤ l0 ∧ Chain s0 rest := by
  unfold validateAckRanges at h
  simp only [List.isEmpty_cons, Bool.false_eq_true, if_false] at h
  by_cases ha : (((s0, l0) :: rest).any fun r => decide (r.1 > r.2)) = true
  · simp [ha] at h
  · rw [if_neg ha] at h
    simp only [List.any_cons, Bool.not_eq_true, Bool.or_eq_false_iff, decide_eq_false_iff_not] at ha
    exact ⟨by omega, chain_of_consistent rest (s0, l0) h ha.2⟩

theorem rt_ack (c : Ctx) (rest : Bytes) (ranges : List AckRange) (d e0 e1 ce : Nat)
    (hval : validateAckRanges ranges = true) (hn : ranges.length ≤ maxNumAckRanges)
    (hd : d % (1000 * 2 ^ sendAckDelayExponent) = 0) (hd2 : d < 2 ^ 63)
    (hr : ranges.all (fun r => decide (r.2 < 2 ^ 62)) = true)
    (he0 : e0 < 2 ^ 62) (he1 : e1 < 2 ^ 62) (hce : ce < 2 ^ 62)
    (hexp : effExp c = sendAckDelayExponent)
    (hacc : typeAccepted c (Frame.ack ranges d e0 e1 ce).typ) :
    decode c ((Frame.ack ranges d e0 e1 ce).bytes ++ rest) =
      .frame (.ack ranges d e0 e1 ce) (Frame.ack ranges d e0 e1 ce).bytes.length := by
  match ranges, hval, hn, hr with
  | [], hval, _, _ => simp [validateAckRanges] at hval
  | (s0, l0) :: rs, hval, hn, hr =>
    obtain ⟨h0, hc⟩ := chain_of_validate s0 l0 rs hval
    have hl0 : l0 ≤ maxVarInt8 := by
      simp only [List.all_cons, Bool.and_eq_true, decide_eq_true_eq] at hr
      exact lt62 hr.1
    have henc := fun r' => parseAck_enc s0 l0 rs d e0 e1 ce h0 hl0 hc (by simpa using hn) hd hd2 (lt62 he0) (lt62 he1) (lt62 hce) r'
    by_cases hecn : hasECN e0 e1 ce = true
    · exact decode_frame c _ ftAckECN (encAll (ackFields ((s0, l0) :: rs) d e0 e1 ce)) rest _
        (by simp [Frame.bytes, hecn, u8_eq_enc ftAckECN (by decide)]) (by decide) (by decide)
        (by simpa [Frame.typ, hecn] using hacc)
        (by rw [body_ackECN, hexp]; have := henc rest; rw [hecn] at this; exact this) rfl
    · have hecn' : hasECN e0 e1 ce = false := by simpa using hecn
      exact decode_frame c _ ftAck (encAll (ackFields ((s0, l0) :: rs) d e0 e1 ce)) rest _
        (by simp [Frame.bytes, hecn', u8_eq_enc ftAck (by decide)]) (by decide) (by decide)
        (by simpa [Frame.typ, hecn'] using hacc)
        (by rw [body_ack, hexp]; have := henc rest; rw [hecn'] at this; exact this) rfl

end Uquic.Proofs.Wire
