/-
Helper lemmas for C20: under the stated ranges no 64-bit intermediate of the bandwidth / pacer
computations wraps, and the pacer's overflow guards are dead code.
-/
import Uquic.Model.Cong.Sender
import Uquic.Proofs.CongPacer

namespace Uquic.Proofs.Cong

open Uquic.Model.Cong

theorem u64OfI64_pos (i : Int) (h0 : 0 ≤ i) (h1 : i < 2 ^ 63) : u64OfI64 i = i.toNat := by
  unfold u64OfI64
  have : i % 2 ^ 64 = i := Int.emod_eq_of_lt h0 (by omega)
  rw [this]

theorem timerGranularity_eq : timerGranularity = 1000000 := by decide
theorem minPacingDelay_eq : minPacingDelay = 1000000 := by decide

/-- Windows up to 2305843009 bytes (the model's window is at most 10001·MDS, i.e. 655 MB for the
largest UDP datagram) and any positive smoothed RTT: the `uint64` bandwidth computation is exact,
`adjustedBandwidth = ⌊⌊cwnd·10⁹/srtt⌋·5/4⌋`. -/
theorem adjustedBandwidth_exact (cwnd : Nat) (srtt : Int) (hc : cwnd ≤ 2305843009)
    (h0 : 0 < srtt) (h1 : srtt < 2 ^ 63) :
    adjustedBandwidth cwnd srtt = (cwnd * nsPerSecond / srtt.toNat) * 5 / 4 := by
  unfold adjustedBandwidth bandwidthEstimate
  have hne : srtt ≠ 0 := by omega
  simp only [hne, if_false, bytesPerSecond_eq, nsPerSecond_eq]
  rw [u64OfI64_pos srtt (by omega) h1]
  have e1 : wrapU64 cwnd = cwnd := wrapU64_eq _ (by omega)
  rw [e1]
  have e2 : wrapU64 (cwnd * 1000000000) = cwnd * 1000000000 := wrapU64_eq _ (by omega)
  rw [e2]
  have hx : cwnd * 1000000000 / srtt.toNat ≤ cwnd * 1000000000 := Nat.div_le_self _ _
  generalize cwnd * 1000000000 / srtt.toNat = x at *
  have e3 : wrapU64 (x * 8) = x * 8 := wrapU64_eq _ (by omega)
  rw [e3]
  have e4 : x * 8 / 8 = x := by omega
  rw [e4]
  have e5 : wrapU64 (x * 5) = x * 5 := wrapU64_eq _ (by omega)
  rw [e5]

/-- the bandwidth is non-zero (so `TimeUntilSend` cannot divide by zero) whenever the smoothed RTT
is at most `cwnd·10⁹` ns, i.e. at least one byte per second -/
theorem adjustedBandwidth_pos (cwnd : Nat) (srtt : Int) (hc : cwnd ≤ 2305843009)
    (h0 : 0 < srtt) (h1 : srtt.toNat ≤ cwnd * nsPerSecond) :
    adjustedBandwidth cwnd srtt ≠ 0 := by
  have h63 : srtt < 2 ^ 63 := by
    rw [nsPerSecond_eq] at h1; omega
  rw [adjustedBandwidth_exact cwnd srtt hc h0 h63]
  have hd : 0 < srtt.toNat := by omega
  have : 1 ≤ cwnd * nsPerSecond / srtt.toNat := (Nat.le_div_iff_mul_le hd).2 (by omega)
  generalize cwnd * nsPerSecond / srtt.toNat = x at *
  omega

/-- what `timeScaledBandwidth` can return at most -/
theorem timeScaledBandwidth_small (bw pmds ns : Nat) (h : PacerMDSOk pmds) :
    timeScaledBandwidth bw pmds ns ≤ 18446744073 := by
  unfold timeScaledBandwidth
  by_cases hb : bw = 0
  · simp [hb]
  · simp only [hb, if_false]
    by_cases ho : ns > (2 ^ 64 - 1) / bw
    · simp only [ho, if_true]; exact h
    · simp only [ho, if_false]
      have hpos : 0 < bw := Nat.pos_of_ne_zero hb
      have h1 : ns ≤ (2 ^ 64 - 1) / bw := Nat.le_of_not_gt ho
      have h2 : ns * bw ≤ 2 ^ 64 - 1 := (Nat.le_div_iff_mul_le hpos).1 h1
      rw [nsPerSecond_eq, Nat.mul_comm]
      have : (2:Nat) ^ 64 - 1 = 18446744073709551615 := by decide
      omega

/-- the int64 overflow guard of `Budget` is dead code: with a bucket below 2^62 bytes the sum
`budgetAtLastSent + added` never reaches 2^63 -/
theorem budget_no_overflow (p : Pacer) (bw : Nat) (now : Int) (hT : p.lastSent ≠ 0)
    (hB : p.budgetAtLastSent < 2 ^ 62) (hm : PacerMDSOk p.mds) :
    p.budget bw now = Min.min (maxBurstSize bw p.mds)
      (p.budgetAtLastSent + (if wrapI64 (now - p.lastSent) > 0 then timeScaledBandwidth bw p.mds (wrapI64 (now - p.lastSent)).toNat else 0)) := by
  unfold Pacer.budget
  simp only [hT, if_false]
  have hadd : (if wrapI64 (now - p.lastSent) > 0 then timeScaledBandwidth bw p.mds (wrapI64 (now - p.lastSent)).toNat else 0) ≤ 18446744073 := by
    split
    · exact timeScaledBandwidth_small _ _ _ hm
    · omega
  generalize (if wrapI64 (now - p.lastSent) > 0 then timeScaledBandwidth bw p.mds (wrapI64 (now - p.lastSent)).toNat else 0) = added at *
  have : ¬ (p.budgetAtLastSent + added ≥ 2 ^ 63) := by omega
  simp only [this, if_false]

/-- `TimeUntilSend` without wrap-around: for datagram sizes up to 2^32 the uint64 product
`10⁹·(mds − budget)` and the conversion of the quotient to a duration are exact, and the call
panics (integer division by zero) exactly when the bandwidth is 0 and the bucket is short. -/
theorem timeUntilSend_exact (p : Pacer) (bw : Nat) (hm : p.mds ≤ 2 ^ 32) :
    p.timeUntilSend bw =
      if p.budgetAtLastSent ≥ p.mds then some 0
      else if bw = 0 then none
      else some (wrapI64 (p.lastSent + Max.max minPacingDelay
        ((nsPerSecond * (p.mds - p.budgetAtLastSent) / bw + (if nsPerSecond * (p.mds - p.budgetAtLastSent) % bw > 0 then 1 else 0) : Nat) : Int))) := by
  unfold Pacer.timeUntilSend
  by_cases h1 : p.budgetAtLastSent ≥ p.mds
  · simp [h1]
  · simp only [h1, if_false]
    by_cases h2 : bw = 0
    · simp [h2]
    · simp only [h2, if_false]
      have hdiff : nsPerSecond * (p.mds - p.budgetAtLastSent) < 2 ^ 62 := by
        rw [nsPerSecond_eq]; omega
      have e1 : wrapU64 (nsPerSecond * (p.mds - p.budgetAtLastSent)) = nsPerSecond * (p.mds - p.budgetAtLastSent) :=
        wrapU64_eq _ (by omega)
      rw [e1]
      generalize nsPerSecond * (p.mds - p.budgetAtLastSent) = diff at *
      have hd : diff / bw ≤ diff := Nat.div_le_self _ _
      by_cases h3 : diff % bw > 0
      · simp only [h3, if_true]
        have e2 : wrapU64 (diff / bw + 1) = diff / bw + 1 := wrapU64_eq _ (by omega)
        rw [e2]
        have e3 : i64OfU64 (diff / bw + 1) = ((diff / bw + 1 : Nat) : Int) := by
          unfold i64OfU64; rw [if_pos (by omega)]
        rw [e3]
      · simp only [h3, if_false]
        have e3 : i64OfU64 (diff / bw) = ((diff / bw : Nat) : Int) := by
          unfold i64OfU64; rw [if_pos (by omega)]
        rw [e3]; simp

end Uquic.Proofs.Cong
