/-
Every state of the `streamsMap` model reachable by arbitrary operations has sub-maps that are
reachable states of the sub-map transition systems, for both perspectives.  This lifts the sub-map
theorems (bounds, FIFO, id discipline) to the whole map (C15).
-/
import Uquic.Proofs.StreamsMap
import Uquic.Proofs.StreamsIncomingRun
import Uquic.Proofs.StreamsOutgoingRun

set_option linter.unusedSimpArgs false
set_option linter.unusedVariables false

namespace Uquic.Proofs.Streams
open Uquic.Model.Streams

theorem in_run_snoc (os : List InOp) (o : InOp) : ∀ i : Incoming,
    (i.run (os ++ [o])).1 = ((i.run os).1.step o).1 := by
  induction os with
  | nil => intro i; rfl
  | cons x xs ih => intro i; simp only [List.cons_append, run_cons]; exact ih _

theorem out_run_snoc (os : List OutOp) (o : OutOp) : ∀ m : Outgoing,
    (m.run (os ++ [o])).1 = ((m.run os).1.step o).1 := by
  induction os with
  | nil => intro i; rfl
  | cons x xs ih => intro i; simp only [List.cons_append, orun_cons]; exact ih _

/-- operations of the whole map: ids and stream counts come out of varints -/
def _root_.Uquic.Model.Streams.MapOp.wf : MapOp → Prop
  | .recvFrame id => 0 ≤ id
  | .sendFrame id => 0 ≤ id
  | .delete id => 0 ≤ id
  | .maxStreams _ n => 0 ≤ n
  | .params nb nu => 0 ≤ nb ∧ 0 ≤ nu
  | _ => True

/-- one map step changes a sub-map by nothing, by one sub-map step, or replaces it by a fresh one -/
def OutRel (o o' : Outgoing) (t : STyp) (pers : Persp) : Prop :=
  o' = o ∨ (∃ op : OutOp, op.wf ∧ o' = (o.step op).1) ∨ o' = Outgoing.new t pers

def InRel (i i' : Incoming) (t : STyp) (lim : Int) (pers : Persp) : Prop :=
  i' = i ∨ (∃ op : InOp, op.wf (firstIncoming t pers) ∧ i' = (i.step op).1) ∨ i' = Incoming.new t lim pers

def limOf (nb nu : Int) : STyp → Int
  | .bidi => nb
  | .uni => nu

theorem onOut_inc {α} (m : Map) (c : Nat) (f : Outgoing → Outgoing × α) (d : α) (t : STyp) :
    ((m.onOut c f d).1).inc t = m.inc t ∧ (m.onOut c f d).1.pers = m.pers ∧
    (m.onOut c f d).1.maxInBidi = m.maxInBidi ∧ (m.onOut c f d).1.maxInUni = m.maxInUni := by
  unfold Map.onOut
  split
  · cases t <;> exact ⟨rfl, rfl, rfl, rfl⟩
  split
  · cases t <;> exact ⟨rfl, rfl, rfl, rfl⟩
  · cases t <;> exact ⟨rfl, rfl, rfl, rfl⟩

theorem onIn_out {α} (m : Map) (c : Nat) (f : Incoming → Incoming × α) (d : α) (t : STyp) :
    ((m.onIn c f d).1).out t = m.out t ∧ (m.onIn c f d).1.pers = m.pers ∧
    (m.onIn c f d).1.maxInBidi = m.maxInBidi ∧ (m.onIn c f d).1.maxInUni = m.maxInUni := by
  unfold Map.onIn
  split
  · cases t <;> exact ⟨rfl, rfl, rfl, rfl⟩
  split
  · cases t <;> exact ⟨rfl, rfl, rfl, rfl⟩
  · cases t <;> exact ⟨rfl, rfl, rfl, rfl⟩

theorem onOut_out {α} (m : Map) (c : Nat) (f : Outgoing → Outgoing × α) (d : α) (t : STyp) :
    ((m.onOut c f d).1).out t = m.out t ∨ ((m.onOut c f d).1).out t = (f (m.out t)).1 := by
  unfold Map.onOut
  split
  · cases t
    · exact Or.inl rfl
    · exact Or.inr rfl
  split
  · cases t
    · exact Or.inr rfl
    · exact Or.inl rfl
  · cases t <;> exact Or.inl rfl

theorem onIn_inc {α} (m : Map) (c : Nat) (f : Incoming → Incoming × α) (d : α) (t : STyp) :
    ((m.onIn c f d).1).inc t = m.inc t ∨ ((m.onIn c f d).1).inc t = (f (m.inc t)).1 := by
  unfold Map.onIn
  split
  · cases t
    · exact Or.inl rfl
    · exact Or.inr rfl
  split
  · cases t
    · exact Or.inr rfl
    · exact Or.inl rfl
  · cases t <;> exact Or.inl rfl

theorem setOut_out (m : Map) (t t' : STyp) (o : Outgoing) :
    (m.setOut t o).out t' = if t' = t then o else m.out t' := by
  cases t <;> cases t' <;> rfl
theorem setOut_inc (m : Map) (t t' : STyp) (o : Outgoing) : (m.setOut t o).inc t' = m.inc t' := by
  cases t <;> cases t' <;> rfl
theorem setInc_inc (m : Map) (t t' : STyp) (i : Incoming) :
    (m.setInc t i).inc t' = if t' = t then i else m.inc t' := by
  cases t <;> cases t' <;> rfl
theorem setInc_out (m : Map) (t t' : STyp) (i : Incoming) : (m.setInc t i).out t' = m.out t' := by
  cases t <;> cases t' <;> rfl

structure StepRel (m m' : Map) : Prop where
  pers : m'.pers = m.pers
  mb : m'.maxInBidi = m.maxInBidi
  mu : m'.maxInUni = m.maxInUni
  out : ∀ t, OutRel (m.out t) (m'.out t) t m.pers
  inc : ∀ t, InRel (m.inc t) (m'.inc t) t (limOf m.maxInBidi m.maxInUni t) m.pers

theorem StepRel.same (m : Map) : StepRel m m := ⟨rfl, rfl, rfl, fun _ => Or.inl rfl, fun _ => Or.inl rfl⟩

theorem inc_dead (m : Map) (hd : m.dead = false) (t : STyp) : (m.inc t).dead = false := by
  simp only [Map.dead, Bool.or_eq_false_iff] at hd
  cases t
  · exact hd.2
  · exact hd.1

/-- only-outgoing change of sub-map `t` by one step -/
theorem StepRel.of_setOut (m : Map) (t : STyp) (op : OutOp) (hw : op.wf) :
    StepRel m (m.setOut t ((m.out t).step op).1) := by
  refine ⟨by cases t <;> rfl, by cases t <;> rfl, by cases t <;> rfl, ?_, ?_⟩
  · intro t'
    rw [setOut_out]
    by_cases h : t' = t
    · subst h; simp only [if_true]; exact Or.inr (Or.inl ⟨op, hw, rfl⟩)
    · simp only [h, if_false]; exact Or.inl rfl
  · intro t'; rw [setOut_inc]; exact Or.inl rfl

theorem StepRel.of_setInc (m : Map) (t : STyp) (op : InOp) (hw : op.wf (firstIncoming t m.pers)) :
    StepRel m (m.setInc t ((m.inc t).step op).1) := by
  refine ⟨by cases t <;> rfl, by cases t <;> rfl, by cases t <;> rfl, ?_, ?_⟩
  · intro t'; rw [setInc_out]; exact Or.inl rfl
  · intro t'
    rw [setInc_inc]
    by_cases h : t' = t
    · subst h; simp only [if_true]; exact Or.inr (Or.inl ⟨op, hw, rfl⟩)
    · simp only [h, if_false]; exact Or.inl rfl

theorem StepRel.of_onOut {α} (m : Map) (c : Nat) (f : Outgoing → Outgoing × α) (d : α) (op : OutOp) (hw : op.wf)
    (hf : ∀ o, (f o).1 = (o.step op).1) : StepRel m (m.onOut c f d).1 := by
  have h := onOut_inc m c f d
  refine ⟨(h .bidi).2.1, (h .bidi).2.2.1, (h .bidi).2.2.2, ?_, ?_⟩
  · intro t
    rcases onOut_out m c f d t with h' | h'
    · rw [h']; exact Or.inl rfl
    · rw [h', hf]; exact Or.inr (Or.inl ⟨op, hw, rfl⟩)
  · intro t; rw [(h t).1]; exact Or.inl rfl

theorem StepRel.of_onIn {α} (m : Map) (c : Nat) (f : Incoming → Incoming × α) (d : α) (op : InOp)
    (hw : ∀ t, op.wf (firstIncoming t m.pers))
    (hf : ∀ t, (f (m.inc t)).1 = ((m.inc t).step op).1) : StepRel m (m.onIn c f d).1 := by
  have h := onIn_out m c f d
  refine ⟨(h .bidi).2.1, (h .bidi).2.2.1, (h .bidi).2.2.2, ?_, ?_⟩
  · intro t; rw [(h t).1]; exact Or.inl rfl
  · intro t
    rcases onIn_inc m c f d t with h' | h'
    · rw [h']; exact Or.inl rfl
    · rw [h', hf]; exact Or.inr (Or.inl ⟨op, hw t, rfl⟩)

theorem StepRel.trans' {a b c : Map} (x : StepRel a b) (y : StepRel b c)
    (hx : ∀ t, b.inc t = a.inc t) (hy : ∀ t, c.out t = b.out t) : StepRel a c := by
  refine ⟨y.pers.trans x.pers, y.mb.trans x.mb, y.mu.trans x.mu, ?_, ?_⟩
  · intro t; rw [hy]; exact x.out t
  · intro t
    have := y.inc t
    rw [hx, x.pers, x.mb, x.mu] at this; exact this

theorem in_step_getOrOpen (i : Incoming) (id : SID) (hd : i.dead = false) :
    (i.step (.getOrOpen id)).1 = (i.getOrOpen id).1 := by simp [Incoming.step, hd]
theorem in_step_delete (i : Incoming) (id : SID) (hd : i.dead = false) :
    (i.step (.delete id)).1 = (i.deleteStream id).1 := by simp [Incoming.step, hd]
theorem in_step_accLocked (i : Incoming) (c : Nat) (hd : i.dead = false) :
    (i.step (.accLocked c)).1 = (i.accLocked c).1 := by simp [Incoming.step, hd]
theorem in_step_close (i : Incoming) (e : Err) (hd : i.dead = false) :
    (i.step (.close e)).1 = (i.closeWithError e).1 := by simp [Incoming.step, hd]

/-- `getReceiveStream` / `getSendStream` on a peer-initiated id -/
theorem StepRel.of_getOrOpen (m : Map) (id : SID) (h0 : 0 ≤ id) (hd : m.dead = false)
    (hi : initiatedBy id ≠ m.pers) :
    StepRel m (m.setInc (typeOf id) ((m.inc (typeOf id)).getOrOpen id).1) := by
  rw [← in_step_getOrOpen _ _ (inc_dead m hd _)]
  exact StepRel.of_setInc m _ _ (incoming_class _ _ id h0 rfl hi)

theorem close_rel (m : Map) (e : Err) (hd : m.dead = false) : StepRel m (m.closeWithError e).1 := by
  have hb := in_step_close m.inBidi e (inc_dead m hd .bidi)
  have hu := in_step_close m.inUni e (inc_dead m hd .uni)
  unfold Map.closeWithError
  simp only
  cases hp : (m.inBidi.closeWithError e).2 with
  | true =>
    simp only [if_true]
    refine ⟨rfl, rfl, rfl, ?_, ?_⟩
    · intro t; cases t <;> exact Or.inr (Or.inl ⟨.close e, trivial, rfl⟩)
    · intro t; cases t
      · exact Or.inl rfl
      · exact Or.inr (Or.inl ⟨.close e, trivial, hb.symm⟩)
  | false =>
    simp only [Bool.false_eq_true, if_false]
    refine ⟨rfl, rfl, rfl, ?_, ?_⟩
    · intro t; cases t <;> exact Or.inr (Or.inl ⟨.close e, trivial, rfl⟩)
    · intro t; cases t
      · exact Or.inr (Or.inl ⟨.close e, trivial, hu.symm⟩)
      · exact Or.inr (Or.inl ⟨.close e, trivial, hb.symm⟩)

theorem map_step_rel (m : Map) (op : MapOp) (hw : op.wf) (hd : m.dead = false)
    (hty : ∀ t, (m.out t).typ = t ∧ (m.out t).pers = m.pers) : StepRel m (m.step op).1 := by
  unfold Map.step
  simp only [hd, Bool.false_eq_true, if_false]
  cases op with
  | openStream t =>
    simp only
    split
    · exact StepRel.same m
    · exact StepRel.of_setOut m t .openStream trivial
  | openSync t c b =>
    simp only
    split
    · exact StepRel.same m
    · exact StepRel.of_setOut m t (.syncCall c b) trivial
  | accept t c =>
    simp only
    split
    · exact StepRel.same m
    · exact StepRel.of_setInc m t (.accCall c) trivial
  | cancelCtx c =>
    simp only
    have x := StepRel.of_onOut m c (fun o => (o.cancelCtx c, ())) () (.cancelCtx c) trivial (fun _ => rfl)
    have y := StepRel.of_onIn (m.onOut c (fun o => (o.cancelCtx c, ())) ()).1 c (fun i => (i.cancelCtx c, ())) ()
      (.cancelCtx c) (fun _ => trivial) (fun _ => rfl)
    exact x.trans' y (fun t => (onOut_inc _ _ _ _ t).1) (fun t => (onIn_out _ _ _ _ t).1)
  | outRecv c => exact StepRel.of_onOut m c _ () (.recv c) trivial (fun _ => rfl)
  | outCtxDone c => exact StepRel.of_onOut m c _ () (.ctxDone c) trivial (fun _ => rfl)
  | outWakeLocked c => exact StepRel.of_onOut m c _ none (.wakeLocked c) trivial (fun _ => rfl)
  | outCancelLocked c => exact StepRel.of_onOut m c _ none (.cancelLocked c) trivial (fun _ => rfl)
  | accLocked c =>
    exact StepRel.of_onIn m c _ (none, []) (.accLocked c) (fun _ => trivial)
      (fun t => (in_step_accLocked _ c (inc_dead m hd t)).symm)
  | accRecv c => exact StepRel.of_onIn m c _ () (.accRecv c) (fun _ => trivial) (fun _ => rfl)
  | accCtx c => exact StepRel.of_onIn m c _ none (.accCtx c) (fun _ => trivial) (fun _ => rfl)
  | recvFrame id =>
    simp only [Map.getReceiveStream]
    cases ht : typeOf id with
    | uni =>
      simp only
      split
      · exact StepRel.same m
      · next hi =>
        have := StepRel.of_getOrOpen m id hw hd hi
        rw [ht] at this; exact this
    | bidi =>
      simp only
      split
      · exact StepRel.same m
      · next hi =>
        have := StepRel.of_getOrOpen m id hw hd hi
        rw [ht] at this; exact this
  | sendFrame id =>
    simp only [Map.getSendStream]
    cases ht : typeOf id with
    | uni =>
      simp only
      split <;> exact StepRel.same m
    | bidi =>
      simp only
      split
      · exact StepRel.same m
      · next hi =>
        have := StepRel.of_getOrOpen m id hw hd hi
        rw [ht] at this; exact this
  | delete id =>
    simp only [Map.deleteStream]
    split
    · exact StepRel.of_setOut m _ (.delete id) trivial
    · have := StepRel.of_setInc m (typeOf id) (.delete id) trivial
      rw [in_step_delete _ _ (inc_dead m hd _)] at this
      exact this
  | maxStreams t n =>
    simp only [Map.handleMaxStreams]
    have := StepRel.of_setOut m t (.setMax n) hw
    simp only [Outgoing.step] at this
    rw [(hty t).1, (hty t).2] at this
    exact this
  | params nb nu =>
    simp only [Map.handleParams, Map.handleMaxStreams]
    have x := StepRel.of_setOut m .bidi (.setMax nb) hw.1
    simp only [Outgoing.step] at x
    rw [(hty .bidi).1, (hty .bidi).2] at x
    have y := StepRel.of_setOut (m.setOut .bidi ((m.out .bidi).setMaxStream (numToID nb .bidi m.pers)).1) .uni (.setMax nu) hw.2
    simp only [Outgoing.step] at y
    have e1 : ((m.setOut .bidi ((m.out .bidi).setMaxStream (numToID nb .bidi m.pers)).1).out .uni) = m.out .uni := rfl
    rw [e1, (hty .uni).1, (hty .uni).2] at y
    refine ⟨rfl, rfl, rfl, ?_, fun t => Or.inl (by cases t <;> rfl)⟩
    intro t
    cases t
    · exact y.out .uni
    · exact x.out .bidi
  | close e => exact close_rel m e hd
  | resetFor0RTT =>
    simp only [Map.resetFor0RTT]
    have hd1 : ({ m with reset := true } : Map).dead = false := hd
    have hc := close_rel { m with reset := true } .rejected0RTT hd1
    generalize ({ m with reset := true } : Map).closeWithError .rejected0RTT = r at hc ⊢
    obtain ⟨m2, p⟩ := r
    simp only at hc ⊢
    have p1 : m2.pers = m.pers := hc.pers
    have p2 : m2.maxInBidi = m.maxInBidi := hc.mb
    have p3 : m2.maxInUni = m.maxInUni := hc.mu
    split
    · exact ⟨p1, p2, p3, hc.out, hc.inc⟩
    · refine ⟨p1, p2, p3, ?_, ?_⟩
      · intro t; right; right
        cases t
        · show Outgoing.new .uni m2.pers = _; rw [p1]
        · show Outgoing.new .bidi m2.pers = _; rw [p1]
      · intro t; right; right
        cases t
        · show Incoming.new .uni m2.maxInUni m2.pers = _; rw [p1, p3]; rfl
        · show Incoming.new .bidi m2.maxInBidi m2.pers = _; rw [p1, p2]; rfl
  | useResetMaps => exact ⟨rfl, rfl, rfl, fun _ => Or.inl rfl, fun _ => Or.inl rfl⟩

/-! ### reachable map states have reachable sub-maps -/

structure Reach (pers : Persp) (nb nu : Int) (m : Map) : Prop where
  hp : m.pers = pers
  hb : m.maxInBidi = nb
  hu : m.maxInUni = nu
  out : ∀ t, ∃ os : List OutOp, (∀ o ∈ os, o.wf) ∧ m.out t = ((Outgoing.new t pers).run os).1
  inc : ∀ t, ∃ is : List InOp, (∀ o ∈ is, o.wf (firstIncoming t pers)) ∧
    m.inc t = ((Incoming.new t (limOf nb nu t) pers).run is).1

theorem reach_new (pers : Persp) (nb nu : Int) : Reach pers nb nu (Map.new pers nb nu) := by
  refine ⟨rfl, rfl, rfl, fun t => ⟨[], by simp, by cases t <;> rfl⟩, fun t => ⟨[], by simp, by cases t <;> rfl⟩⟩

theorem out_typ_pers_of_reach (t : STyp) (pers : Persp) (os : List OutOp) (hw : ∀ o ∈ os, o.wf) :
    ((Outgoing.new t pers).run os).1.typ = t ∧ ((Outgoing.new t pers).run os).1.pers = pers := by
  obtain ⟨_, _, _, h4, h5⟩ := orun_inv os _ 0 (fifo_new t pers) (idinv_new t pers) hw
  exact ⟨h4, h5⟩

theorem reach_step (pers : Persp) (nb nu : Int) (m : Map) (op : MapOp) (h : Reach pers nb nu m) (hw : op.wf) :
    Reach pers nb nu (m.step op).1 := by
  by_cases hd : m.dead = true
  · have : (m.step op).1 = m := by simp [Map.step, hd]
    rw [this]; exact h
  have hd' : m.dead = false := by simpa using hd
  have hty : ∀ t, (m.out t).typ = t ∧ (m.out t).pers = m.pers := by
    intro t
    obtain ⟨os, hos, he⟩ := h.out t
    rw [he, h.hp]; exact out_typ_pers_of_reach t pers os hos
  have sr := map_step_rel m op hw hd' hty
  refine ⟨sr.pers.trans h.hp, sr.mb.trans h.hb, sr.mu.trans h.hu, ?_, ?_⟩
  · intro t
    obtain ⟨os, hos, he⟩ := h.out t
    rcases sr.out t with h1 | ⟨o, ho, h1⟩ | h1
    · exact ⟨os, hos, by rw [h1, he]⟩
    · refine ⟨os ++ [o], ?_, ?_⟩
      · intro x hx; rcases List.mem_append.mp hx with hx | hx
        · exact hos x hx
        · simp at hx; subst hx; exact ho
      · rw [h1, he, out_run_snoc]
    · exact ⟨[], by simp, by rw [h1, h.hp]; rfl⟩
  · intro t
    obtain ⟨is, his, he⟩ := h.inc t
    rcases sr.inc t with h1 | ⟨o, ho, h1⟩ | h1
    · exact ⟨is, his, by rw [h1, he]⟩
    · refine ⟨is ++ [o], ?_, ?_⟩
      · intro x hx; rcases List.mem_append.mp hx with hx | hx
        · exact his x hx
        · simp at hx; subst hx; rw [← h.hp]; exact ho
      · rw [h1, he, in_run_snoc]
    · exact ⟨[], by simp, by rw [h1, h.hp, h.hb, h.hu]; rfl⟩

theorem reach_run (pers : Persp) (nb nu : Int) (ops : List MapOp) :
    ∀ m, Reach pers nb nu m → (∀ op ∈ ops, op.wf) → Reach pers nb nu (ops.foldl (fun m o => (m.step o).1) m) := by
  induction ops with
  | nil => intro m h _; exact h
  | cons o os ih =>
    intro m h hw
    simp only [List.foldl_cons]
    exact ih _ (reach_step pers nb nu m o h (hw o (by simp))) (fun op hop => hw op (by simp [hop]))

end Uquic.Proofs.Streams
