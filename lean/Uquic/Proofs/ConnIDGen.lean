/-
The connection ID generator model: how many connection IDs are issued and not
yet retired, and the rules for RETIRE_CONNECTION_ID frames.
-/
import Uquic.Model.ConnID.Generator

namespace Uquic.Proofs.ConnID
open Uquic.Model.ConnID

/-- the number of unretired connection IDs the peer allows us: its limit, capped by MaxIssuedConnectionIDs
    (the handshake connection ID always exists) -/
def issueBound (limit : Nat) : Nat := max 1 (min limit maxIssuedConnectionIDs)

theorem issueNew_len (mk : Nat → Bytes) (g : Generator) :
    (g.issueNewConnID mk).1.active.length = g.active.length + 1 ∧ (g.issueNewConnID mk).1.idLen = g.idLen := by
  simp [Generator.issueNewConnID]

theorem issueN_len (mk : Nat → Bytes) : ∀ (n : Nat) (g : Generator),
    (Generator.issueN mk n g).1.active.length = g.active.length + n ∧ (Generator.issueN mk n g).1.idLen = g.idLen
  | 0, g => by simp [Generator.issueN]
  | n + 1, g => by
    simp only [Generator.issueN]
    have h1 := issueNew_len mk g
    have h2 := issueN_len mk n (g.issueNewConnID mk).1
    rw [h2.1, h2.2, h1.1, h1.2]
    exact ⟨by omega, rfl⟩

theorem lookupSeq_filter_lt {s : Nat} {v : Bytes} : ∀ {l : List (Nat × Bytes)}, lookupSeq s l = some v →
    (l.filter fun kv => kv.1 ≠ s).length < l.length
  | [], h => by simp [lookupSeq] at h
  | (k, x) :: rest, h => by
    unfold lookupSeq at h
    by_cases hk : k = s
    · simp only [List.filter_cons, hk, ne_eq, not_true_eq_false, decide_false, Bool.false_eq_true, ↓reduceIte, List.length_cons]
      exact Nat.lt_succ_of_le (List.length_filter_le _ _)
    · simp only [hk, ↓reduceIte] at h
      have := lookupSeq_filter_lt h
      simp only [ne_eq] at this
      simp only [List.filter_cons, hk, ne_eq, not_false_eq_true, decide_true, ↓reduceIte, List.length_cons]
      omega

/-- one generator step keeps the number of unretired connection IDs within the peer's limit -/
theorem step_bound (mk : Nat → Bytes) (L : Nat) {g : Generator} (hb : g.active.length ≤ issueBound L) (op : GOp)
    (hop : ∀ l, op = .setMax l → l = L) :
    (g.step mk op).1.active.length ≤ issueBound L := by
  cases op with
  | setMax l =>
    have := hop l rfl; subst this
    simp only [Generator.step, Generator.setMaxActiveConnIDs]
    split
    · exact hb
    · rw [(issueN_len mk _ g).1]
      unfold issueBound at *
      omega
  | retire s d e =>
    simp only [Generator.step, Generator.retire]
    split
    · exact hb
    · split
      · exact hb
      · rename_i id hl
        split
        · exact hb
        · have hlt := lookupSeq_filter_lt hl
          split
          · simp only; omega
          · simp only [Generator.issueNewConnID, List.length_append, List.length_cons, List.length_nil]
            omega
  | hsDone e =>
    simp only [Generator.step, Generator.setHandshakeComplete]
    split <;> exact hb
  | removeRetired n => exact hb

/-- histories in which every SetMaxActiveConnIDs call carries the peer's (constant) limit `L` -/
def LimitIs (L : Nat) : List GOp → Prop
  | [] => True
  | op :: ops => (∀ l, op = .setMax l → l = L) ∧ LimitIs L ops

theorem run_bound (mk : Nat → Bytes) (L : Nat) : ∀ {ops : List GOp} {g : Generator},
    g.active.length ≤ issueBound L → LimitIs L ops → (g.run mk ops).1.active.length ≤ issueBound L
  | [], g, hb, _ => by simpa [Generator.run] using hb
  | op :: ops, g, hb, hl => by
    simp only [Generator.run]
    exact run_bound mk L (step_bound mk L hb op hl.1) hl.2

/-- number of NEW_CONNECTION_ID frames among the callbacks -/
def newFrames (evs : List GEv) : Nat := (evs.filter fun | .newFrame _ _ => true | _ => false).length

end Uquic.Proofs.ConnID
