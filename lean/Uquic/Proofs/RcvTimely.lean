/-
Timeliness invariant of the appDataReceivedPacketTracker (C07, second sentence).
-/
import Uquic.Proofs.RcvHandler

namespace Uquic.Proofs.Rcv
open Uquic.Model.Rcv

inductive AOp
  | recv (pn : Int) (ecn : Nat) (t : Int) (ae : Bool)
  | ignore (pn : Int)
  | ack (now : Int) (oiq : Bool)

/-- what the caller (the connection) guarantees: clock values are positive, and the forget
    threshold never exceeds the largest number still tracked (it is `LargestAcked+1` of an ACK
    this endpoint sent, and the packet carrying the peer's ACK is registered right afterwards) -/
def Contract (a : AppTracker) : AOp → Prop
  | .recv _ _ t _ => 0 < t
  | .ignore pn => pn ≤ a.ignoreBelow ∨ ∃ top, a.t.hist.ranges.head? = some top ∧ pn ≤ top.2
  | .ack _ _ => True

/-- state + ghost list of (pn, arrival time) of accepted ack-eliciting packets not yet covered by a returned ACK -/
structure TSt where
  a : AppTracker := {}
  pend : List (Int × Int) := []
  panicked : Bool := false

def TSt.step (s : TSt) : AOp → TSt
  | .recv pn ecn t ae =>
    let r := s.a.receivedPacket pn ecn t ae
    { a := r.1
      pend := if r.2 ≠ .bug ∧ ae then (pn, t) :: s.pend else s.pend
      panicked := s.panicked || r.2 == .panic }
  | .ignore pn => { s with a := s.a.ignoreBelowOp pn }
  | .ack now oiq =>
    let r := s.a.getAckFrame now oiq
    { s with a := r.1, pend := if r.2.isSome then [] else s.pend }

structure TInv (s : TSt) : Prop where
  wf : WF s.a.t.hist.ranges
  cnt : s.a.count = s.pend.length
  newAck : s.pend ≠ [] → s.a.t.hasNewAck = true
  nonempty : s.a.t.hasNewAck = true → s.a.t.hist.ranges ≠ []
  lastAck : ∀ la, s.a.t.lastAck = some la → la.ranges ≠ []
  few : s.a.ackQueued = false → (s.pend.length : Int) < packetsBeforeAck
  alarm : s.a.ackQueued = false → ∀ x ∈ s.pend, s.a.ackAlarm ≠ 0 ∧ s.a.ackAlarm ≤ x.2 + maxAckDelay
  noPanic : s.panicked = false

theorem TInv.init : TInv {} :=
  ⟨by simp [WF], rfl, by simp, by simp, by simp, by decide, by simp, rfl⟩

theorem maxAckDelay_nonneg : 0 ≤ maxAckDelay := by decide
theorem packetsBeforeAck_le_two : packetsBeforeAck ≤ 2 := by decide

theorem hist_recv_wf {h : Hist} (hw : WF h.ranges) (p : Int) : WF (h.receivedPacket p).1.ranges := by
  unfold Hist.receivedPacket
  split
  · exact hw
  · simp only
    split
    · exact WF_take _ _ (addRev_wf p _ hw)
    · exact addRev_wf p _ hw

theorem addRev_ne_nil (p : Int) (l : List Range) : (addRev p l).1 ≠ [] := by
  induction l with
  | nil => simp [addRev]
  | cons r rest ih =>
    unfold addRev
    repeat' split
    all_goals simp

theorem hist_recv_new_nonempty {h : Hist} (p : Int) (hn : (h.receivedPacket p).2 = true) :
    (h.receivedPacket p).1.ranges ≠ [] := by
  unfold Hist.receivedPacket at hn ⊢
  split
  · rename_i hlt; simp [hlt] at hn
  · simp only
    have hne' := addRev_ne_nil p h.ranges
    split
    · intro e
      have hl := congrArg List.length e
      simp [List.length_take] at hl
      have hcap := cap_pos
      rcases hl with hl | hl
      · omega
      · exact hne' hl
    · exact hne'

theorem hist_recv_nonempty_mono {h : Hist} (p : Int) (hne : h.ranges ≠ []) :
    (h.receivedPacket p).1.ranges ≠ [] := by
  unfold Hist.receivedPacket
  split
  · exact hne
  · simp only
    have hne' := addRev_ne_nil p h.ranges
    split
    · intro e
      have hl := congrArg List.length e
      simp [List.length_take] at hl
      have hcap := cap_pos
      rcases hl with hl | hl
      · omega
      · exact hne' hl
    · exact hne'

theorem delBelow_keeps_nonempty {h : Hist} (hw : WF h.ranges) (pn : Int) (top : Range)
    (ht : h.ranges.head? = some top) (hle : pn ≤ top.2) : (h.deleteBelow pn).ranges ≠ [] := by
  unfold Hist.deleteBelow
  split
  · intro e; rw [e] at ht; simp at ht
  · simp only
    obtain ⟨_, dcov, _, _, _⟩ := delBelowDesc_spec pn h.ranges hw
    have hc := (dcov top.2).mpr ⟨head_covered hw ht, hle⟩
    intro e; rw [e] at hc; simp at hc

theorem hist_del_wf {h : Hist} (hw : WF h.ranges) (p : Int) : WF (h.deleteBelow p).ranges := by
  unfold Hist.deleteBelow
  split
  · exact hw
  · exact (delBelowDesc_spec p h.ranges hw).1


theorem packetsBeforeAck_pos : 0 < packetsBeforeAck := by decide

theorem isMissing_some (a : AppTracker) (pn : Int) (hla : ∀ la, a.t.lastAck = some la → la.ranges ≠ []) :
    ∃ b, a.isMissing pn = some b := by
  unfold AppTracker.isMissing
  cases h : a.t.lastAck with
  | none => exact ⟨false, rfl⟩
  | some la =>
    simp only
    split
    · exact ⟨false, rfl⟩
    · have := hla la h
      unfold Ack.largestAcked?
      cases hr : la.ranges with
      | nil => exact absurd hr this
      | cons r rest => exact ⟨_, rfl⟩

theorem hasNewMissing_some (a : AppTracker) (hla : ∀ la, a.t.lastAck = some la → la.ranges ≠ []) :
    ∃ b, a.hasNewMissingPackets = some b := by
  unfold AppTracker.hasNewMissingPackets
  cases h : a.t.lastAck with
  | none => exact ⟨false, rfl⟩
  | some la =>
    simp only
    split
    · exact ⟨false, rfl⟩
    · split
      · exact ⟨false, rfl⟩
      · have := hla la h
        unfold Ack.largestAcked?
        cases hr : la.ranges with
        | nil => exact absurd hr this
        | cons r rest =>
          simp only
          split
          · exact ⟨false, rfl⟩
          · exact ⟨_, rfl⟩

theorem shouldQueue_spec (a : AppTracker) (ecn : Nat) (m : Bool)
    (hla : ∀ la, a.t.lastAck = some la → la.ranges ≠ []) :
    ∃ q, a.shouldQueueACK ecn m = some q ∧ (m = true → q = true) ∧ (a.count ≥ packetsBeforeAck → q = true) ∧
      (a.hasNewMissingPackets = some true → q = true) ∧ (ecn = ecnCE → q = true) := by
  unfold AppTracker.shouldQueueACK
  obtain ⟨b, hb⟩ := hasNewMissing_some a hla
  split
  · exact ⟨true, rfl, fun _ => rfl, fun _ => rfl, fun _ => rfl, fun _ => rfl⟩
  · rename_i hm
    split
    · exact ⟨true, rfl, fun _ => rfl, fun _ => rfl, fun _ => rfl, fun _ => rfl⟩
    · rename_i hc
      rw [hb]
      cases b with
      | true => exact ⟨true, rfl, fun _ => rfl, fun _ => rfl, fun _ => rfl, fun _ => rfl⟩
      | false =>
        refine ⟨decide (ecn = ecnCE), rfl, fun h => absurd h hm, fun h => absurd h hc, by simp, ?_⟩
        intro h; simp [h]

/-- the queueing step never panics when the last ACK has ranges, and its effect on the flags -/
theorem queueStep_spec (a : AppTracker) (pn : Int) (ecn : Nat) (t : Int)
    (hla : ∀ la, a.t.lastAck = some la → la.ranges ≠ []) :
    ∃ a', a.queueStep pn ecn t = some a' ∧ a'.t = a.t ∧ a'.count = a.count ∧ a'.ignoreBelow = a.ignoreBelow ∧
      (a.ackQueued = true → a'.ackQueued = true) ∧
      (a'.ackQueued = false → a.ackQueued = false ∧ a.count < packetsBeforeAck ∧ a'.ackAlarm = t + maxAckDelay) ∧
      (a.isMissing pn = some true → a'.ackQueued = true) ∧
      (ecn = ecnCE → a'.ackQueued = true) ∧
      (a.hasNewMissingPackets = some true → a'.ackQueued = true) := by
  obtain ⟨m, hm⟩ := isMissing_some a pn hla
  obtain ⟨q, hq, hq1, hq2, hq3, hq4⟩ := shouldQueue_spec a ecn m hla
  unfold AppTracker.queueStep
  rw [hm]
  simp only
  cases hqd : a.ackQueued with
  | true =>
    simp only [if_true]
    refine ⟨_, rfl, ?_⟩
    simp [hqd]
  | false =>
    simp only [Bool.false_eq_true, if_false, hq]
    cases q with
    | true =>
      refine ⟨_, rfl, ?_⟩
      simp
    | false =>
      refine ⟨_, rfl, ?_⟩
      simp only [Bool.false_eq_true, if_false, hqd, Bool.not_false, if_true, true_and]
      refine ⟨by simp, ?_, ?_, ?_, ?_⟩
      · intro _
        refine ⟨?_, trivial⟩
        by_cases hc : a.count ≥ packetsBeforeAck
        · have := hq2 hc; simp at this
        · omega
      · intro h; have := hq1 (by simpa [hm] using h); simp at this
      · intro h; have := hq4 h; simp at this
      · intro h; have := hq3 h; simp at this

theorem TInv.step {s : TSt} (inv : TInv s) (op : AOp) (hc : Contract s.a op) : TInv (s.step op) := by
  obtain ⟨wf, cnt, newAck, nonempty, lastAck, few, alarm, noPanic⟩ := inv
  cases op with
  | recv pn ecn t ae =>
    simp only [Contract] at hc
    simp only [TSt.step]
    unfold AppTracker.receivedPacket
    cases htr : s.a.t.receivedPacket pn ecn ae with
    | none =>
      exact ⟨wf, cnt, newAck, nonempty, lastAck, few, alarm, by simp only; rw [noPanic]; rfl⟩
    | some t' =>
      obtain ⟨hnew, hhist, hlast, hnewAck⟩ := tracker_recv_some htr
      have hn := noteLargest_fields { s.a with t := t' } pn t
      have wf' : WF t'.hist.ranges := by rw [hhist]; exact hist_recv_wf wf pn
      have ne' : t'.hist.ranges ≠ [] := by rw [hhist]; exact hist_recv_new_nonempty pn hnew
      simp only
      cases ae with
      | false =>
        simp only [Bool.not_false, if_true, Bool.false_eq_true, and_false, if_false]
        refine ⟨by rw [hn.1]; exact wf', by rw [hn.2.2.1]; exact cnt, ?_, ?_, ?_, ?_, ?_, ?_⟩
        · intro h; rw [hn.1, hnewAck]; simp [newAck h]
        · intro _; rw [hn.1]; exact ne'
        · intro la h; rw [hn.1, hlast] at h; exact lastAck la h
        · intro h; rw [hn.2.2.2.1] at h; exact few h
        · intro h; rw [hn.2.2.2.1] at h; rw [hn.2.2.2.2]; exact alarm h
        · simp only; rw [noPanic]; rfl
      | true =>
        simp only [Bool.not_true, Bool.false_eq_true, if_false]
        have hla2 : ∀ la, ({ ({ s.a with t := t' } : AppTracker).noteLargest pn t with
              count := (({ s.a with t := t' } : AppTracker).noteLargest pn t).count + 1 } : AppTracker).t.lastAck = some la →
            la.ranges ≠ [] := by
          intro la h
          simp only [hn.1, hlast] at h
          exact lastAck la h
        obtain ⟨a3, hq, ht3, hc3, _, hqq, hnq, _, _, _⟩ := queueStep_spec _ pn ecn t hla2
        rw [hq]
        simp only
        have hbug : (RecvOut.ok ≠ RecvOut.bug) := by decide
        simp only [ne_eq, hbug, not_false_eq_true, and_self, if_true]
        refine ⟨?_, ?_, ?_, ?_, ?_, ?_, ?_, ?_⟩
        · rw [ht3]; simp only [hn.1]; exact wf'
        · rw [hc3]; simp only [hn.2.2.1, List.length_cons]; rw [cnt]; simp
        · intro _; rw [ht3]; simp only [hn.1, hnewAck]; simp
        · intro _; rw [ht3]; simp only [hn.1]; exact ne'
        · intro la h; rw [ht3] at h; simp only [hn.1, hlast] at h; exact lastAck la h
        · intro h
          obtain ⟨_, hlt, _⟩ := hnq h
          simp only [hn.2.2.1] at hlt
          simp only [List.length_cons]; rw [cnt] at hlt; omega
        · intro h x hx
          obtain ⟨hq0, hlt, hal⟩ := hnq h
          simp only [hn.2.2.1] at hlt
          have hp : s.pend = [] := by
            have h2 := packetsBeforeAck_le_two
            rw [cnt] at hlt
            cases hpd : s.pend with
            | nil => rfl
            | cons y ys => rw [hpd] at hlt; simp at hlt; omega
          rw [hp] at hx
          simp at hx; subst hx
          rw [hal]
          have := maxAckDelay_nonneg
          exact ⟨by simp; omega, by simp⟩
        · simp only; rw [noPanic]; rfl
  | ignore pn =>
    simp only [Contract] at hc
    simp only [TSt.step, AppTracker.ignoreBelowOp]
    split
    · exact ⟨wf, cnt, newAck, nonempty, lastAck, few, alarm, noPanic⟩
    · rename_i hgt
      rcases hc with hc | ⟨top, htop, hle⟩
      · exact absurd hc hgt
      · refine ⟨hist_del_wf wf pn, cnt, newAck, ?_, lastAck, few, alarm, noPanic⟩
        intro _; exact delBelow_keeps_nonempty wf pn top htop hle
  | ack now oiq =>
    simp only [TSt.step]
    unfold AppTracker.getAckFrame
    split
    · simp; exact ⟨wf, cnt, newAck, nonempty, lastAck, few, alarm, noPanic⟩
    · unfold Tracker.getAckFrame
      cases hna : s.a.t.hasNewAck with
      | false =>
        simp
        have hp : s.pend = [] := by
          cases hpd : s.pend with
          | nil => rfl
          | cons y ys => have := newAck (by rw [hpd]; simp); rw [hna] at this; simp at this
        exact ⟨wf, cnt, newAck, by simp [hna], lastAck, few, alarm, noPanic⟩
      | true =>
        simp only [Bool.not_true, Bool.false_eq_true, if_false, Option.isSome_some, if_true]
        refine ⟨wf, rfl, by simp, by simp, ?_, ?_, by simp, noPanic⟩
        · intro la h; simp at h; rw [← h]; exact nonempty hna
        · intro _; have := packetsBeforeAck_pos; simpa using this

/-- histories that respect the caller contract at every step -/
def runT : List AOp → TSt := fun ops => ops.foldl TSt.step {}

def ContractAll : TSt → List AOp → Prop
  | _, [] => True
  | s, op :: rest => Contract s.a op ∧ ContractAll (s.step op) rest

theorem TInv.foldl (ops : List AOp) : ∀ s, TInv s → ContractAll s ops → TInv (ops.foldl TSt.step s) := by
  induction ops with
  | nil => intro s h _; exact h
  | cons op rest ih => intro s h hc; exact ih (s.step op) (h.step op hc.1) hc.2

theorem TInv.run (ops : List AOp) (hc : ContractAll {} ops) : TInv (runT ops) :=
  TInv.foldl ops _ TInv.init hc

end Uquic.Proofs.Rcv
