/-
Helper lemmas for C05: byte-level header protection (model: Uquic/Model/Crypto/Packet.lean).
-/
import Uquic.Model.Crypto.Packet
import Uquic.Proofs.PN
import Uquic.Proofs.PNGen

namespace Uquic.Proofs.Packet
open Uquic.Model.Packet Uquic.Model.Bytes Uquic.Model.PN

theorem xorAt_length (m : Nat → UInt8) : ∀ (bs : Bytes) (i : Nat), (xorAt m i bs).length = bs.length := by
  intro bs; induction bs with
  | nil => intro i; rfl
  | cons b bs ih => intro i; simp [xorAt, ih]

theorem xorAt_invol (m : Nat → UInt8) : ∀ (bs : Bytes) (i : Nat), xorAt m i (xorAt m i bs) = bs := by
  intro bs; induction bs with
  | nil => intro i; rfl
  | cons b bs ih =>
    intro i
    simp only [xorAt, ih, List.cons.injEq, and_true]
    rw [UInt8.xor_assoc, UInt8.xor_self, UInt8.xor_zero]

theorem xor_cancel (a b : UInt8) : a ^^^ b ^^^ b = a := by
  rw [UInt8.xor_assoc, UInt8.xor_self, UInt8.xor_zero]

theorem applyHP_length (long : Bool) (m : Nat → UInt8) (off n : Nat) (raw : Bytes) :
    (applyHP long m off n raw).length = raw.length := by
  cases raw with
  | nil => rfl
  | cons f tl =>
    simp only [applyHP, List.length_cons, List.length_append, List.length_take, xorAt_length, List.length_drop]
    omega

theorem applyHP_head (long : Bool) (m : Nat → UInt8) (off n : Nat) (raw : Bytes) (h : raw ≠ []) :
    (applyHP long m off n raw).headD 0 = raw.headD 0 ^^^ (m 0 &&& firstMask long) := by
  cases raw with
  | nil => exact absurd rfl h
  | cons f tl => simp [applyHP]

/-- the three pieces of the tail after the first byte -/
theorem tail_split (tl : Bytes) (a n : Nat) :
    tl = tl.take a ++ (tl.drop a).take n ++ tl.drop (a + n) := by
  rw [List.append_assoc, ← List.drop_drop, List.take_append_drop, List.take_append_drop]

/-- a packet long enough for its packet-number field splits as first byte, bytes before the packet number,
    packet number bytes, rest -/
theorem decompose (raw : Bytes) (off n : Nat) (ho : 1 ≤ off) (hl : off + n ≤ raw.length) :
    ∃ f A B C, raw = f :: (A ++ B ++ C) ∧ off = A.length + 1 ∧ n = B.length := by
  cases raw with
  | nil => simp at hl; omega
  | cons f tl =>
    simp only [List.length_cons] at hl
    refine ⟨f, tl.take (off - 1), (tl.drop (off - 1)).take n, tl.drop (off - 1 + n), ?_, ?_, ?_⟩
    · rw [← tail_split]
    · simp; omega
    · simp; omega

theorem applyHP_pieces (long : Bool) (m : Nat → UInt8) (f : UInt8) (A B C : Bytes) :
    applyHP long m (A.length + 1) B.length (f :: (A ++ B ++ C)) =
      (f ^^^ (m 0 &&& firstMask long)) :: (A ++ xorAt m 1 B ++ C) := by
  simp only [applyHP, Nat.add_sub_cancel, List.append_assoc]
  rw [List.take_left, List.drop_left, List.take_left, ← List.drop_drop, List.drop_left, List.drop_left]

theorem drop_pieces (f : UInt8) (A B C : Bytes) (i : Nat) :
    (f :: (A ++ B ++ C)).drop (A.length + 1 + B.length + i) = C.drop i := by
  rw [show A.length + 1 + B.length + i = ((A ++ B).length + i) + 1 by simp; omega, List.drop_succ_cons,
    ← List.drop_drop, List.drop_left]

theorem applyHP_invol (long : Bool) (m : Nat → UInt8) (off n : Nat) (raw : Bytes)
    (ho : 1 ≤ off) (hl : off + n ≤ raw.length) :
    applyHP long m off n (applyHP long m off n raw) = raw := by
  obtain ⟨f, A, B, C, rfl, rfl, rfl⟩ := decompose raw off n ho hl
  rw [applyHP_pieces]
  rw [show B.length = (xorAt m 1 B).length from (xorAt_length m B 1).symm, applyHP_pieces, xorAt_invol, xor_cancel]

theorem applyHP_drop (long : Bool) (m : Nat → UInt8) (off n : Nat) (raw : Bytes)
    (ho : 1 ≤ off) (hl : off + n ≤ raw.length) (k : Nat) (hk : off + n ≤ k) :
    (applyHP long m off n raw).drop k = raw.drop k := by
  obtain ⟨f, A, B, C, rfl, rfl, rfl⟩ := decompose raw off n ho hl
  obtain ⟨i, rfl⟩ : ∃ i, k = A.length + 1 + B.length + i := ⟨k - (A.length + 1 + B.length), by omega⟩
  rw [applyHP_pieces, drop_pieces]
  rw [show B.length = (xorAt m 1 B).length from (xorAt_length m B 1).symm, drop_pieces]

/-- the unprotected header is the first `off + n` bytes -/
theorem applyHP_take_pieces (long : Bool) (m : Nat → UInt8) (f : UInt8) (A B C : Bytes) :
    (applyHP long m (A.length + 1) B.length (f :: (A ++ B ++ C))).take (A.length + 1 + B.length) =
      (f ^^^ (m 0 &&& firstMask long)) :: (A ++ xorAt m 1 B) := by
  rw [applyHP_pieces]
  rw [show A.length + 1 + B.length = (A ++ xorAt m 1 B).length + 1 by simp [xorAt_length]; omega,
    List.take_succ_cons, List.take_left]

theorem applyHP_take (long : Bool) (m : Nat → UInt8) (off n : Nat) (raw : Bytes)
    (ho : 1 ≤ off) (hl : off + n ≤ raw.length) :
    raw = (applyHP long m off n (applyHP long m off n raw)).take (off + n) ++ raw.drop (off + n) := by
  rw [applyHP_invol long m off n raw ho hl, List.take_append_drop]

theorem sample_applyHP (long : Bool) (m : Nat → UInt8) (off n : Nat) (raw : Bytes)
    (ho : 1 ≤ off) (hn : n ≤ 4) (hl : off + n ≤ raw.length) :
    sample (applyHP long m off n raw) off = sample raw off := by
  unfold sample
  rw [applyHP_drop long m off n raw ho hl (off + 4) (by omega)]

theorem pnLenOf_range (b : UInt8) : 1 ≤ pnLenOf b ∧ pnLenOf b ≤ 4 := by
  unfold pnLenOf
  have : (b &&& 3).toNat ≤ 3 := by
    rw [UInt8.toNat_and]
    exact Nat.and_le_right
  omega


theorem pow256 (n : Nat) : (256 : Nat) ^ n = 2 ^ (8 * n) := by
  rw [show (256 : Nat) = 2 ^ 8 by rfl, ← Nat.pow_mul]

theorem headD_append (a b : Bytes) (h : a ≠ []) : (a ++ b).headD 0 = a.headD 0 := by
  cases a with
  | nil => exact absurd rfl h
  | cons x xs => rfl

theorem headD_take (a : Bytes) (n : Nat) (h : 1 ≤ n) : (a.take n).headD 0 = a.headD 0 := by
  cases a with
  | nil => simp
  | cons x xs => obtain ⟨j, rfl⟩ : ∃ j, n = j + 1 := ⟨n - 1, by omega⟩; simp

/-- `protect_roundtrip`, general form -/
theorem protect_unprotect (k : Keys) (hdr payload : Bytes) (pn : Nat) (largest : Int)
    (haead : ∀ n a m, k.aead.dec n a (k.aead.enc n a m) = some m)
    (hlen : pnLenOf (hdr.headD 0) + 1 ≤ hdr.length)
    (hpnbytes : hdr.drop (hdr.length - pnLenOf (hdr.headD 0)) = beBytes (pnLenOf (hdr.headD 0)) pn)
    (hsample : 20 ≤ pnLenOf (hdr.headD 0) + (k.aead.enc (nonce k.iv pn) hdr payload).length)
    (hpn : pn < 2 ^ 62) (hL : -1 ≤ largest)
    (hwin : largest + 1 - 2 ^ (8 * pnLenOf (hdr.headD 0)) / 2 < (pn : Int) ∧
            (pn : Int) ≤ largest + 1 + 2 ^ (8 * pnLenOf (hdr.headD 0)) / 2)
    (hres : reservedOK k.long (hdr.headD 0) = true) :
    ∃ pkt, protect k hdr pn payload = some pkt ∧
      pkt.length = hdr.length + (k.aead.enc (nonce k.iv pn) hdr payload).length ∧
      unprotect k pkt (hdr.length - pnLenOf (hdr.headD 0)) largest =
        .ok { hdr := hdr, pn := pn, pnLen := pnLenOf (hdr.headD 0), payload := payload } := by
  have hr := pnLenOf_range (hdr.headD 0)
  generalize hn : pnLenOf (hdr.headD 0) = n at *
  generalize hct : k.aead.enc (nonce k.iv pn) hdr payload = ct at *
  have hne : hdr ≠ [] := by intro h; simp [h] at hlen
  obtain ⟨off, hoff⟩ : ∃ off, hdr.length = off + n := ⟨hdr.length - n, by omega⟩
  have ho : 1 ≤ off := by omega
  have hsub : hdr.length - n = off := by omega
  rw [hsub] at hpnbytes ⊢
  have hrawlen : off + n ≤ (hdr ++ ct).length := by simp; omega
  have hprot : protect k hdr pn payload =
      some (applyHP k.long (k.hp (sample (hdr ++ ct) off)) off n (hdr ++ ct)) := by
    unfold protect
    simp only [hn, hct, hsub]
    rw [if_neg (by simp; omega)]
  refine ⟨_, hprot, by rw [applyHP_length]; simp, ?_⟩
  generalize hm : k.hp (sample (hdr ++ ct) off) = m
  unfold unprotect unprotectCore
  rw [if_neg (by rw [applyHP_length]; simp; omega)]
  simp only
  rw [sample_applyHP k.long m off n _ ho hr.2 hrawlen, hm]
  rw [applyHP_head k.long m off n _ (by simp [hne]), xor_cancel, headD_append _ _ hne, hn]
  rw [applyHP_invol k.long m off n _ ho hrawlen]
  have h1 : (hdr ++ ct).take (off + n) = hdr := by rw [← hoff, List.take_left]
  have h2 : ((hdr ++ ct).drop off).take n = beBytes n pn := by
    have hbl := Uquic.Proofs.PNGen.beBytes_length n pn
    rw [List.drop_append, hpnbytes, show off - hdr.length = 0 by omega, List.drop_zero,
      List.take_append, hbl, Nat.sub_self, List.take_zero, List.append_nil]
    exact List.take_of_length_le (by omega)
  have h3 : (applyHP k.long m off n (hdr ++ ct)).drop (off + n) = ct := by
    rw [applyHP_drop k.long m off n _ ho hrawlen (off + n) (Nat.le_refl _), ← hoff, List.drop_left]
  rw [h1, h2, h3, Uquic.Proofs.PNGen.fromBE_beBytes, pow256]
  have hdec : decodePN n largest ((pn % 2 ^ (8 * n) : Nat) : Int) = (pn : Int) := by
    have := Uquic.Proofs.PN.decode_window n hr (pn : Int) largest (by omega) (by exact_mod_cast hpn) hL hwin.1 hwin.2
    rw [← this]
    simp [truncatePN]
  rw [hdec]
  simp only [Int.toNat_natCast]
  rw [← hct, haead, hres]

/-- `only_sealed_opens`, general form -/
theorem unprotect_is_protect (k : Keys) (Sealed : Bytes → Bytes → Bytes → Prop)
    (hideal : ∀ n a c m, k.aead.dec n a c = some m → Sealed n a m ∧ c = k.aead.enc n a m)
    (data : Bytes) (off : Nat) (ho : 1 ≤ off) (largest : Int) (o : Opened)
    (h : unprotect k data off largest = .ok o) :
    Sealed (nonce k.iv o.pn.toNat) o.hdr o.payload ∧ protect k o.hdr o.pn.toNat o.payload = some data := by
  unfold unprotect at h
  split at h
  · cases h
  · rename_i o' hcore
    simp only [Except.ok.injEq] at h
    subst h
    rw [unprotectCore] at hcore
    split at hcore
    · cases hcore
    rename_i hsz
    simp only at hcore
    generalize hm : k.hp (sample data off) = m at hcore
    generalize hf : data.headD 0 ^^^ (m 0 &&& firstMask k.long) = first at hcore
    have hr := pnLenOf_range first
    generalize hn : pnLenOf first = n at hcore hr
    have hlen : off + n ≤ data.length := by omega
    generalize hpnv : decodePN n largest ↑(fromBE (List.take n (List.drop off (applyHP k.long m off n data)))) = pnv at hcore
    split at hcore
    · cases hcore
    rename_i msg hdec
    simp only [Except.ok.injEq, Prod.mk.injEq] at hcore
    obtain ⟨ho', _⟩ := hcore
    subst ho'
    simp only
    obtain ⟨hS, hc⟩ := hideal _ _ _ _ hdec
    refine ⟨hS, ?_⟩
    have hne : data ≠ [] := by intro hd; simp [hd] at hlen; omega
    have hunlen : (applyHP k.long m off n data).length = data.length := applyHP_length ..
    have hhead : (List.take (off + n) (applyHP k.long m off n data)).headD 0 = first := by
      rw [headD_take _ _ (by omega), applyHP_head _ _ _ _ _ hne, hf]
    have hhl : (List.take (off + n) (applyHP k.long m off n data)).length = off + n := by
      rw [List.length_take, hunlen]; omega
    have hraw : List.take (off + n) (applyHP k.long m off n data) ++ data.drop (off + n) = applyHP k.long m off n data := by
      rw [← applyHP_drop k.long m off n data ho hlen (off + n) (Nat.le_refl _), List.take_append_drop]
    unfold protect
    simp only [hhead, hn, hhl, Nat.add_sub_cancel]
    rw [← hc, hraw, if_neg (by rw [hunlen]; omega)]
    have hs : sample (applyHP k.long m off n data) off = sample data off :=
      sample_applyHP k.long m off n data ho hr.2 hlen
    rw [hs, hm, applyHP_invol k.long m off n data ho hlen]
  · cases h
end Uquic.Proofs.Packet
