/-
Retire Prior To is honoured: after a NEW_CONNECTION_ID frame that is not answered by one of the early exits of `add`
has been processed without error, no sequence number below its Retire Prior To is in use.
-/
import Uquic.Proofs.ConnIDLedger

namespace Uquic.Proofs.ConnID
open Uquic.Model.ConnID

/-- queue and path-probing entries are all at or above `r` -/
def RestGe (m : Manager) (r : Nat) : Prop :=
  (∀ e ∈ m.queue, r ≤ e.seq) ∧ (∀ pe ∈ m.probing, r ≤ pe.2.seq)

theorem allGe_of {m : Manager} {r : Nat} (ha : r ≤ m.activeSeq) (h : RestGe m r) : ∀ s ∈ inUse m, r ≤ s := by
  intro s hs
  rw [mem_inUse] at hs
  rcases hs with rfl | ⟨e, he, rfl⟩ | ⟨pe, hpe, rfl⟩
  · exact ha
  · exact h.1 e he
  · exact h.2 pe hpe

theorem rpt_restGe {m : Manager} (rpt : Nat) (hi : Inv m) :
    RestGe ((m.retireProbingBelow rpt).1.retireQueueBelow rpt).1 rpt := by
  have hi1 := (rptProbing_micro rpt hi).inv
  have hp : ∀ pe ∈ (m.retireProbingBelow rpt).1.probing, rpt ≤ pe.2.seq := by
    intro pe hpe
    simp only [Manager.retireProbingBelow] at hpe
    have := (List.mem_filter.mp hpe).2
    simp only [decide_eq_true_eq] at this
    omega
  generalize m.retireProbingBelow rpt = r1 at hi1 hp
  unfold Manager.retireQueueBelow
  split
  · refine ⟨?_, hp⟩
    intro e he
    have := (List.mem_filter.mp he).2
    simpa using this
  · rename_i hle
    refine ⟨?_, hp⟩
    intro e he
    have := hi1.q_ge_hr e he
    omega

theorem update_rpt {m : Manager} (draw rpt : Nat) (hR : RestGe m rpt) (hne : m.queue ≠ []) :
    RestGe (m.updateConnectionID draw).1 rpt ∧
    ((m.updateConnectionID draw).2.2 = .ok → rpt ≤ (m.updateConnectionID draw).1.activeSeq) := by
  unfold Manager.updateConnectionID
  split
  · exact ⟨hR, by intro h; cases h⟩
  · match hq : m.queue with
    | [] => exact absurd hq hne
    | front :: rest =>
      simp only
      refine ⟨⟨?_, hR.2⟩, ?_⟩
      · intro e he; exact hR.1 e (by rw [hq]; simp; right; exact he)
      · intro _; exact hR.1 front (by rw [hq]; simp)

/-- `add` honours Retire Prior To whenever it does not take an early exit -/
theorem add_rpt_core {m : Manager} (seq rpt : Nat) (id tok : Bytes) (draw : Nat) (hi : Inv m) (hv : rpt ≤ seq)
    (hz : m.activeID ≠ []) (hp : (m.probing.any fun pe => pe.2.seq == seq) = false) (hr : m.retireNow seq = false) :
    RestGe (m.add seq rpt id tok draw).1 rpt ∧
    ((m.add seq rpt id tok draw).2.2 = .ok → rpt ≤ (m.add seq rpt id tok draw).1.activeSeq) := by
  have R := rpt_restGe rpt hi
  unfold Manager.add
  simp only [hz, ↓reduceIte, hp, Bool.false_eq_true, hr]
  generalize ((m.retireProbingBelow rpt).1.retireQueueBelow rpt) = r2 at R ⊢
  split
  · rename_i hact
    exact ⟨R, by intro _; simp only; omega⟩
  · split
    · exact ⟨R, by intro h; cases h⟩
    · rename_i q hq
      have hRq : ∀ e ∈ q, rpt ≤ e.seq := by
        intro e he
        rcases (insertOrAppend_mem hq) e he with h | rfl
        · exact R.1 e h
        · exact hv
      have R3 : RestGe { r2.1 with queue := q } rpt := ⟨hRq, R.2⟩
      split
      · exact update_rpt draw rpt R3 (addConnectionID_nonempty hq)
      · rename_i hge
        exact ⟨R3, by intro _; simp only at hge ⊢; omega⟩
where
  insertOrAppend_mem {q q' : List Entry} {e : Entry} (h : addConnectionID q e = .ok q') : ∀ x ∈ q', x ∈ q ∨ x = e := by
    unfold addConnectionID at h
    split at h
    · cases h; intro x hx; simp at hx; exact hx
    · split at h
      · cases h; intro x hx; simp at hx
        rcases hx with hx | rfl
        · exact Or.inl hx
        · exact Or.inr rfl
      · exact (insertSlow_ok h).1

theorem add_rpt {m : Manager} (seq rpt : Nat) (id tok : Bytes) (draw : Nat) (hi : Inv m) (hv : rpt ≤ seq)
    (hz : m.activeID ≠ []) (hp : (m.probing.any fun pe => pe.2.seq == seq) = false) (hr : m.retireNow seq = false)
    (hok : (m.add seq rpt id tok draw).2.2 = .ok) :
    ∀ s ∈ inUse (m.add seq rpt id tok draw).1, rpt ≤ s := by
  have := add_rpt_core seq rpt id tok draw hi hv hz hp hr
  exact allGe_of (this.2 hok) this.1

/-- a frame that carries a sequence number above everything seen so far takes no early exit -/
theorem enter_no_early_exit {m : Manager} (hi : Inv m) {seq : Nat} (he : Enter m seq) :
    (m.probing.any fun pe => pe.2.seq == seq) = false ∧ m.retireNow seq = false := by
  obtain ⟨h1, h2, h3⟩ := he
  refine ⟨?_, ?_⟩
  · rw [Bool.eq_false_iff]
    intro hany
    simp only [List.any_eq_true, beq_iff_eq] at hany
    obtain ⟨pe, hpe, h⟩ := hany
    have := hi.p_le_hp pe hpe
    omega
  · unfold Manager.retireNow
    simp only [Bool.and_eq_false_imp, Bool.or_eq_false_iff, decide_eq_true_eq, decide_eq_false_iff_not,
      Bool.and_eq_false_iff]
    intro _
    omega

end Uquic.Proofs.ConnID
