/-
C19: helper lemmas about the end of parseHeaders and its rejection classes.
-/
import Uquic.Proofs.FieldsReq

namespace Uquic.Proofs.Fields
open Uquic.Model.H3.Fields Uquic.Gen.H3Fields

theorem finish_cl (s : PS) (h : Hdr) (hf : finish s = .ok h) :
    s.clStr = [] ∨ (s.clStr ≠ [] ∧ ∀ b ∈ s.clStr, isDigit b = true) := by
  unfold finish at hf
  split at hf
  · rename_i hne
    right
    refine ⟨by simpa using hne, ?_⟩
    split at hf
    · cases hf
    rename_i v hv
    unfold parseUint63 at hv
    split at hv
    · rename_i hc
      simp only [Bool.and_eq_true] at hc
      exact fun b hb => List.all_eq_true.mp hc.1.2 b hb
    · cases hv
  · rename_i he
    left; simpa using he

/-- the rejection classes of the parseHeaders loop -/
def loopErrors : List Err := [.tooLarge, .notLower, .badValue, .pseudoAfterRegular, .unknownPseudo, .dupPseudo,
  .reqPseudo, .respPseudo, .badName, .forbiddenName, .te, .clConflict]

theorem validateRegular_err (f : Field) (e : Err) (h : validateRegular f = .error e) : e ∈ [Err.badName, .forbiddenName, .te] := by
  unfold validateRegular at h
  repeat' split at h
  all_goals first | (cases h; decide) | cases h

theorem regularErrors_sub : ∀ x ∈ [Err.badName, .forbiddenName, .te], x ∈ loopErrors := by decide

theorem stepField_err (ext : List Nat → Bool) (isReq : Bool) (s : PS) (f : Field) (e : Err)
    (h : stepField ext isReq s f = .error e) : e ∈ loopErrors := by
  unfold stepField at h
  simp only [] at h
  repeat' split at h
  all_goals first
    | (cases h; decide)
    | (cases h; exact regularErrors_sub _ (validateRegular_err f _ ‹_›))
    | cases h

theorem runFields_err (ext : List Nat → Bool) (isReq : Bool) (fs : List Field) :
    ∀ (s : PS) (e : Err), runFields ext isReq s fs = .error e → e ∈ loopErrors := by
  induction fs with
  | nil => intro s e h; simp [runFields] at h
  | cons f rest ih =>
    intro s e h
    simp only [runFields] at h
    split at h
    · rename_i e' hs; cases h; exact stepField_err ext isReq s f _ hs
    · exact ih _ _ h

end Uquic.Proofs.Fields
