/-
Helper lemmas for property C02 (model `Uquic.Model.UQuic.Dial`).
-/
import Uquic.Model.UQuic.Dial

namespace Uquic.Proofs.Dial
open Uquic.Model.UQuic.Dial

/-- the fields of a well-formed spec -/
theorem wellFormed_iff (s : Spec) :
    wellFormed s = true ↔
      s.hasQTP = true ∧ s.suppIscid = false ∧ s.iscid = some [] ∧ s.ksPinned = false ∧
      (s.dcidLen = 0 ∨ minDCIDLen ≤ s.dcidLen) ∧ s.dcidLen ≤ maxConnIDLen ∧ s.scidLen ≤ maxConnIDLen := by
  simp [wellFormed, and_assoc]

theorem wellFormedEnv_iff (s : Spec) (e : DialEnv) :
    wellFormedEnv s e = true ↔
      e.scid.length = s.scidLen ∧
      (if s.dcidLen = 0 then minDCIDLen ≤ e.dcid.length ∧ e.dcid.length ≤ maxConnIDLen else e.dcid.length = s.dcidLen) ∧
      (∀ n ∈ e.sizes, minInitialSize ≤ n) := by
  unfold wellFormedEnv
  by_cases h : s.dcidLen = 0 <;> simp [h, and_assoc]

/-- a well-formed spec lists an empty entry, nothing is suppressed: the (filtered) list holds the empty entry -/
theorem effIscid_of_wf {s : Spec} (h : wellFormed s = true) : effIscid s = some [] := by
  obtain ⟨_, hs, hi, _⟩ := (wellFormed_iff s).1 h
  simp [effIscid, hs, hi]

/-- the destination connection ID of a well-formed draw is long enough for a server -/
theorem dcid_ok {s : Spec} {e : DialEnv} (hs : wellFormed s = true) (he : wellFormedEnv s e = true) :
    minDCIDLen ≤ e.dcid.length := by
  obtain ⟨_, _, _, _, hd, _, _⟩ := (wellFormed_iff s).1 hs
  obtain ⟨_, hd', _⟩ := (wellFormedEnv_iff s e).1 he
  by_cases h0 : s.dcidLen = 0
  · simp [h0] at hd'; exact hd'.1
  · simp [h0] at hd'
    rcases hd with hd | hd
    · exact absurd hd h0
    · omega

/-- One attempt on a well-formed spec value, with `PopulateFromUQUIC` filling in the empty entry (or an empty source
    connection ID anyway): the server accepts and the client holds its private keys — whatever `sh` is. -/
theorem connect_ok (sh wb : Bool) (s : Spec) (e : DialEnv)
    (hs : wellFormed s = true) (he : wellFormedEnv s e = true) (hwb : wb = true ∨ s.scidLen = 0) :
    DialOK (connectWith sh wb s e) = true := by
  have heff := effIscid_of_wf hs
  have hd := dcid_ok hs he
  obtain ⟨_, _, _, hk, _⟩ := (wellFormed_iff s).1 hs
  obtain ⟨hlen, _, hsz⟩ := (wellFormedEnv_iff s e).1 he
  have hlisted : listedAfter wb s e.scid = some e.scid := by
    unfold listedAfter
    rw [heff]
    rcases hwb with hwb | hwb
    · simp [hwb]
    · have : e.scid = [] := List.eq_nil_of_length_eq_zero (by omega)
      cases wb <;> simp [this]
  simp only [DialOK, connectWith, ServerAccepts, hlisted, hk]
  simp only [Bool.and_eq_true, List.all_eq_true, decide_eq_true_eq, Bool.or_eq_true, beq_self_eq_true,
    Bool.not_false, and_true]
  exact ⟨hsz, Or.inr hd⟩

/-- setup that does not touch the caller's spec value leaves it unchanged -/
theorem connect_unshared_spec (wb : Bool) (s : Spec) (e : DialEnv) : (connectWith false wb s e).1 = s := rfl

/-- every attempt of a run on an untouched spec value is an attempt on the original spec value -/
theorem run_unshared (wb : Bool) (s : Spec) (es : List DialEnv) :
    ∀ r ∈ runWith false wb s es, ∃ e ∈ es, r = connectWith false wb s e := by
  induction es with
  | nil => intro r hr; simp [runWith] at hr
  | cons e es ih =>
    intro r hr
    simp only [runWith, connect_unshared_spec, List.mem_cons] at hr
    rcases hr with rfl | hr
    · exact ⟨e, by simp, rfl⟩
    · obtain ⟨e', he', rfl⟩ := ih r hr
      exact ⟨e', by simp [he'], rfl⟩

/-- when is the spec value different after one attempt? -/
theorem connect_spec_ne_iff (sh wb : Bool) (s : Spec) (e : DialEnv) :
    (connectWith sh wb s e).1 ≠ s ↔
      sh = true ∧ (s.ksPinned = false ∨ listedAfter wb s e.scid ≠ s.iscid) := by
  cases sh with
  | false => simp [connectWith]
  | true =>
    simp only [connectWith, if_true, ne_eq, true_and]
    constructor
    · intro h
      by_cases hk : s.ksPinned = false
      · exact Or.inl hk
      · refine Or.inr (fun hl => h ?_)
        have hk' : s.ksPinned = true := by cases hkp : s.ksPinned <;> simp_all
        cases s; simp_all
    · rintro (hk | hl) heq
      · have := congrArg Spec.ksPinned heq
        simp [hk] at this
      · exact hl (congrArg Spec.iscid heq)

/-- `ServerAccepts` spelled out -/
theorem serverAccepts_iff (f : Flight) :
    ServerAccepts f = true ↔
      (∀ n ∈ f.sizes, minInitialSize ≤ n) ∧ (0 < f.tokLen ∨ minDCIDLen ≤ f.dcidLen) ∧ f.advIscid = some f.hdrScid := by
  simp [ServerAccepts, and_assoc]

/-- Reused spec value, EMPTY source connection ID: whatever setup writes, the listed entry stays the empty one, so the
    server side accepts every attempt. Invariant of the run: nothing suppressed, entry empty, lengths unchanged. -/
theorem run_server_accepts_empty_scid (sh wb : Bool) :
    ∀ (es : List DialEnv) (s : Spec), s.scidLen = 0 → s.suppIscid = false → s.iscid = some [] →
      (s.dcidLen = 0 ∨ minDCIDLen ≤ s.dcidLen) → (∀ e ∈ es, wellFormedEnv s e = true) →
      ∀ r ∈ runWith sh wb s es, ServerAccepts r.2.1 = true := by
  intro es
  induction es with
  | nil => intro s _ _ _ _ _ r hr; simp [runWith] at hr
  | cons e es ih =>
    intro s h0 hsup hisc hd hes r hr
    obtain ⟨hlen, hdc, hsz⟩ := (wellFormedEnv_iff s e).1 (hes e (by simp))
    have hnil : e.scid = [] := List.eq_nil_of_length_eq_zero (by omega)
    have hlisted : listedAfter wb s e.scid = some [] := by
      cases wb <;> simp [listedAfter, effIscid, hsup, hisc, hnil]
    have hdlen : minDCIDLen ≤ e.dcid.length := by
      by_cases h : s.dcidLen = 0
      · simp [h] at hdc; exact hdc.1
      · simp [h] at hdc
        rcases hd with hd | hd
        · exact absurd hd h
        · omega
    simp only [runWith, List.mem_cons] at hr
    rcases hr with rfl | hr
    · refine (serverAccepts_iff _).2 ⟨hsz, Or.inr hdlen, ?_⟩
      rw [hnil] at hlisted
      simp [connectWith, hnil, hlisted]
    · refine ih (connectWith sh wb s e).1 ?_ ?_ ?_ ?_ ?_ r hr
      · cases sh <;> simp [connectWith, h0]
      · cases sh <;> simp [connectWith, hsup]
      · cases sh <;> simp [connectWith, hisc, hlisted]
      · cases sh <;> simpa [connectWith] using hd
      · intro e' he'
        have := hes e' (by simp [he'])
        cases sh <;> simpa [connectWith, wellFormedEnv] using this

end Uquic.Proofs.Dial
