/-
Helper lemmas for C13: facts about sequences of packets and datagrams through the gate.
-/
import Uquic.Proofs.Gate

namespace Uquic.Proofs.Gate
open Uquic.Model.Handshake

/-! ### generic induction principles for the datagram loop -/

theorem gateParts_preserves (P : GateState → Prop) (hP : ∀ s p, P s → P (gate s p).1) :
    ∀ (ps : List PacketSummary) (s : GateState) (last : Option CID), P s → P (gateParts s last ps).1 := by
  intro ps
  induction ps with
  | nil => intro s last h; simpa [gateParts] using h
  | cons p rest ih =>
    intro s last h
    unfold gateParts
    split
    · exact h
    · split
      · exact h
      · simp only
        split
        · exact hP s p h
        · exact ih _ _ (hP s p h)

theorem gateParts_actions (P : GateState → Prop) (Q : Action → Prop)
    (hP : ∀ s p, P s → P (gate s p).1) (hQ : ∀ s p, P s → Q (gate s p).2)
    (hd : ∀ r, Q (.drop r)) (hn : Q .notReached) :
    ∀ (ps : List PacketSummary) (s : GateState) (last : Option CID), P s → ∀ a ∈ (gateParts s last ps).2, Q a := by
  intro ps
  induction ps with
  | nil => intro s last _ a ha; simp [gateParts] at ha
  | cons p rest ih =>
    intro s last h a ha
    unfold gateParts at ha
    split at ha
    · simp only [List.mem_cons, List.mem_map] at ha
      rcases ha with rfl | ⟨_, _, rfl⟩
      · exact hd _
      · exact hn
    · split at ha
      · simp only [List.mem_cons, List.mem_map] at ha
        rcases ha with rfl | ⟨_, _, rfl⟩
        · exact hd _
        · exact hn
      · simp only at ha
        split at ha
        · simp only [List.mem_cons, List.mem_map] at ha
          rcases ha with rfl | ⟨_, _, rfl⟩
          · exact hQ s p h
          · exact hn
        · simp only [List.mem_cons] at ha
          rcases ha with rfl | ha
          · exact hQ s p h
          · exact ih _ _ (hP s p h) a ha

theorem runDatagrams_preserves (P : GateState → Prop) (hP : ∀ s p, P s → P (gate s p).1) :
    ∀ (ds : List (List PacketSummary)) (s : GateState), P s → P (runDatagrams s ds).1 := by
  intro ds
  induction ds with
  | nil => intro s h; simpa [runDatagrams] using h
  | cons d rest ih =>
    intro s h
    simp only [runDatagrams]
    exact ih _ (gateParts_preserves P hP d s none h)

theorem runDatagrams_actions (P : GateState → Prop) (Q : Action → Prop)
    (hP : ∀ s p, P s → P (gate s p).1) (hQ : ∀ s p, P s → Q (gate s p).2)
    (hd : ∀ r, Q (.drop r)) (hn : Q .notReached) :
    ∀ (ds : List (List PacketSummary)) (s : GateState), P s → ∀ a ∈ (runDatagrams s ds).2, Q a := by
  intro ds
  induction ds with
  | nil => intro s _ a ha; simp [runDatagrams] at ha
  | cons d rest ih =>
    intro s h a ha
    simp only [runDatagrams, List.mem_append] at ha
    rcases ha with ha | ha
    · exact gateParts_actions P Q hP hQ hd hn d s none h a ha
    · exact ih _ (gateParts_preserves P hP d s none h) a ha

theorem runPackets_preserves (P : GateState → Prop) (hP : ∀ s p, P s → P (gate s p).1) :
    ∀ (ps : List PacketSummary) (s : GateState), P s → P (runPackets s ps).1 := by
  intro ps
  induction ps with
  | nil => intro s h; simpa [runPackets] using h
  | cons p rest ih => intro s h; simp only [runPackets]; exact ih _ (hP s p h)

theorem runPackets_actions (P : GateState → Prop) (Q : Action → Prop)
    (hP : ∀ s p, P s → P (gate s p).1) (hQ : ∀ s p, P s → Q (gate s p).2) :
    ∀ (ps : List PacketSummary) (s : GateState), P s → ∀ a ∈ (runPackets s ps).2, Q a := by
  intro ps
  induction ps with
  | nil => intro s _ a ha; simp [runPackets] at ha
  | cons p rest ih =>
    intro s h a ha
    simp only [runPackets, List.mem_cons] at ha
    rcases ha with rfl | ha
    · exact hQ s p h
    · exact ih _ (hP s p h) a ha

/-! ### after the first genuine packet -/

theorem gate_frozen (s : GateState) (p : PacketSummary) (h : s.receivedFirstPacket = true) :
    core (gate s p).1 = core s ∧
    ((∃ r, (gate s p).2 = .drop r) ∨ (gate s p).2 = .buffer ∨ (gate s p).2 = .process ∨ (gate s p).2 = .processFatal) := by
  have hk := gate_stepKind s p
  generalize (gate s p).1 = s' at hk
  generalize (gate s p).2 = a at hk
  cases hk with
  | drop r => exact ⟨rfl, Or.inl ⟨r, rfl⟩⟩
  | buffer => exact ⟨by simp [core], Or.inr (Or.inl rfl)⟩
  | retry _ _ h3 => simp [h] at h3
  | recreate v _ _ h3 => simp [h] at h3
  | fail _ _ h3 => simp [h] at h3
  | processLong fatal =>
    rw [firstPacket_of_rfp s p h]
    cases fatal <;> simp
  | processShort fatal => cases fatal <;> simp

theorem gate_rfp_mono (s : GateState) (p : PacketSummary) (h : s.receivedFirstPacket = true) :
    (gate s p).1.receivedFirstPacket = true := by
  have := (gate_frozen s p h).1
  rw [core_eq_iff] at this
  rw [this.2.2.2.1]; exact h

/-! ### after version negotiation -/

theorem gate_vn_mono (s : GateState) (p : PacketSummary) (h : s.versionNegotiated = true) :
    (gate s p).1.versionNegotiated = true ∧ (∀ v, (gate s p).2 ≠ .recreate v) ∧ (gate s p).2 ≠ .fail ∧
    (p.kind = .vn → (gate s p).1 = s ∧ ∃ r, (gate s p).2 = .drop r) := by
  have hk := gate_stepKind s p
  generalize (gate s p).1 = s' at hk
  generalize (gate s p).2 = a at hk
  cases hk with
  | drop r => exact ⟨h, by simp, by simp, fun _ => ⟨rfl, r, rfl⟩⟩
  | buffer _ h2 => exact ⟨h, by simp, by simp, fun e => absurd e h2⟩
  | retry h1 => exact ⟨h, by simp, by simp, fun e => by simp [h1] at e⟩
  | recreate v _ _ _ h4 => simp [h] at h4
  | fail _ _ _ h4 => simp [h] at h4
  | processLong fatal _ h2 =>
    refine ⟨by rw [(firstPacket_core s p).2.2.2.2.2.1]; exact h, ?_, ?_, fun e => absurd e h2⟩ <;> cases fatal <;> simp
  | processShort fatal h1 =>
    refine ⟨h, ?_, ?_, fun e => by simp [h1] at e⟩ <;> cases fatal <;> simp

/-! ### Retry -/

theorem gate_rr_mono (s : GateState) (p : PacketSummary) (h : s.receivedRetry = true) :
    (gate s p).1.receivedRetry = true ∧ Action.isRetryAccept (gate s p).2 = false := by
  have hk := gate_stepKind s p
  generalize (gate s p).1 = s' at hk
  generalize (gate s p).2 = a at hk
  cases hk with
  | drop r => exact ⟨h, rfl⟩
  | buffer => exact ⟨h, rfl⟩
  | retry _ _ _ h4 => simp [h] at h4
  | recreate v => exact ⟨h, rfl⟩
  | fail => exact ⟨h, rfl⟩
  | processLong fatal =>
    refine ⟨by rw [(firstPacket_core s p).2.2.2.2.1]; exact h, ?_⟩
    cases fatal <;> rfl
  | processShort fatal => refine ⟨h, ?_⟩; cases fatal <;> rfl

theorem gate_accept_sets_rr (s : GateState) (p : PacketSummary) (h : Action.isRetryAccept (gate s p).2 = true) :
    (gate s p).1.receivedRetry = true ∧ s.receivedRetry = false := by
  have hk := gate_stepKind s p
  generalize (gate s p).1 = s' at hk h
  generalize (gate s p).2 = a at hk h
  cases hk with
  | retry _ _ _ h4 => exact ⟨rfl, h4⟩
  | processLong fatal => cases fatal <;> simp [Action.isRetryAccept] at h
  | processShort fatal => cases fatal <;> simp [Action.isRetryAccept] at h
  | _ => simp [Action.isRetryAccept] at h

def countAccepts (as : List Action) : Nat := (as.filter Action.isRetryAccept).length

theorem countAccepts_cons (a : Action) (as : List Action) :
    countAccepts (a :: as) = (if Action.isRetryAccept a then 1 else 0) + countAccepts as := by
  unfold countAccepts
  by_cases h : Action.isRetryAccept a = true <;> simp [List.filter_cons, h] <;> omega

theorem countAccepts_append (as bs : List Action) : countAccepts (as ++ bs) = countAccepts as + countAccepts bs := by
  simp [countAccepts, List.filter_append]

theorem countAccepts_notReached (n : List PacketSummary) :
    countAccepts (n.map fun _ => Action.notReached) = 0 := by
  induction n with
  | nil => rfl
  | cons _ _ ih => simp [countAccepts_cons, Action.isRetryAccept, ih]

/-- bookkeeping invariant: accepted Retries so far + "may still accept one" ≤ 1 -/
def budget (s : GateState) : Nat := if s.receivedRetry then 0 else 1

theorem gate_budget (s : GateState) (p : PacketSummary) :
    (if Action.isRetryAccept (gate s p).2 then 1 else 0) + budget (gate s p).1 ≤ budget s := by
  by_cases h : s.receivedRetry = true
  · have := gate_rr_mono s p h
    simp [budget, h, this.1, this.2]
  · by_cases ha : Action.isRetryAccept (gate s p).2 = true
    · have := gate_accept_sets_rr s p ha
      simp [budget, this.1, this.2, ha]
    · have hs : s.receivedRetry = false := by simpa using h
      have hb : budget (gate s p).1 ≤ 1 := by unfold budget; split <;> omega
      simp only [ha, budget, hs]
      simp only [budget] at hb
      simpa using hb

theorem gateParts_budget : ∀ (ps : List PacketSummary) (s : GateState) (last : Option CID),
    countAccepts (gateParts s last ps).2 + budget (gateParts s last ps).1 ≤ budget s := by
  intro ps
  induction ps with
  | nil => intro s last; simp [gateParts, countAccepts]
  | cons p rest ih =>
    intro s last
    unfold gateParts
    split
    · simp [countAccepts_cons, Action.isRetryAccept, countAccepts_notReached]
    · split
      · simp [countAccepts_cons, Action.isRetryAccept, countAccepts_notReached]
      · simp only
        split
        · simp only [countAccepts_cons, countAccepts_notReached]
          have := gate_budget s p
          omega
        · simp only [countAccepts_cons]
          have h1 := gate_budget s p
          have h2 := ih (gate s p).1 (some p.destConnID)
          omega

theorem runDatagrams_budget : ∀ (ds : List (List PacketSummary)) (s : GateState),
    countAccepts (runDatagrams s ds).2 + budget (runDatagrams s ds).1 ≤ budget s := by
  intro ds
  induction ds with
  | nil => intro s; simp [runDatagrams, countAccepts]
  | cons d rest ih =>
    intro s
    simp only [runDatagrams, countAccepts_append]
    have h1 := gateParts_budget d s none
    have h2 := ih (gateDatagram s d).1
    unfold gateDatagram at h2 ⊢
    omega

theorem runPackets_budget : ∀ (ps : List PacketSummary) (s : GateState),
    countAccepts (runPackets s ps).2 + budget (runPackets s ps).1 ≤ budget s := by
  intro ps
  induction ps with
  | nil => intro s; simp [runPackets, countAccepts]
  | cons p rest ih =>
    intro s
    simp only [runPackets, countAccepts_cons]
    have h1 := gate_budget s p
    have h2 := ih (gate s p).1
    omega

end Uquic.Proofs.Gate
