import Uquic.Proofs.WireFrames

namespace Uquic.Proofs.Wire
open Uquic.Model.Wire Uquic.Model.Wire.Varint

/-! ### STOP_SENDING, STREAM_DATA_BLOCKED, RESET_STREAM(_AT), ACK_FREQUENCY -/

theorem parseStopSending_of {p1 p2 : Bytes} {sid ec : Nat} (h1 : Decodes p1 sid) (h2 : Decodes p2 ec) (r : Bytes) :
    parseStopSending (p1 ++ p2 ++ r) = .ok (.stopSending sid ec, p1.length + p2.length) := by
  unfold parseStopSending
  simp only [List.append_assoc, takeV_of_decodes h1, takeV_of_decodes h2]
  simp; omega

theorem parseStopSending_inv (b : Bytes) (f : Frame) (n : Nat) (h : parseStopSending b = .ok (f, n)) :
    ∃ p1 p2 r sid ec, b = p1 ++ p2 ++ r ∧ Decodes p1 sid ∧ Decodes p2 ec ∧ f = .stopSending sid ec ∧ n = p1.length + p2.length := by
  unfold parseStopSending at h
  rcases takeV_cases b with he | ⟨p1, b1, sid, rfl, hd1, ht1⟩
  · simp [he] at h
  · rcases takeV_cases b1 with he | ⟨p2, b2, ec, rfl, hd2, ht2⟩
    · simp [ht1, he] at h
    · simp [ht1, ht2] at h
      exact ⟨p1, p2, b2, sid, ec, by simp, hd1, hd2, h.1.symm, by omega⟩

theorem parseStreamDataBlocked_of {p1 p2 : Bytes} {sid v : Nat} (h1 : Decodes p1 sid) (h2 : Decodes p2 v) (r : Bytes) :
    parseStreamDataBlocked (p1 ++ p2 ++ r) = .ok (.streamDataBlocked sid v, p1.length + p2.length) := by
  unfold parseStreamDataBlocked
  simp only [List.append_assoc, takeV_of_decodes h1, parse_of_decodes h2]
  simp

theorem parseStreamDataBlocked_inv (b : Bytes) (f : Frame) (n : Nat) (h : parseStreamDataBlocked b = .ok (f, n)) :
    ∃ p1 p2 r sid v, b = p1 ++ p2 ++ r ∧ Decodes p1 sid ∧ Decodes p2 v ∧ f = .streamDataBlocked sid v ∧ n = p1.length + p2.length := by
  unfold parseStreamDataBlocked at h
  rcases takeV_cases b with he | ⟨p1, b1, sid, rfl, hd1, ht1⟩
  · simp [he] at h
  · rcases parse_cases b1 with ⟨e, he⟩ | ⟨p2, b2, v, rfl, hd2, hp2⟩
    · simp [ht1, he] at h
    · simp [ht1, hp2] at h
      exact ⟨p1, p2, b2, sid, v, by simp, hd1, hd2, h.1.symm, by omega⟩

theorem parseResetStream_of {p1 p2 p3 : Bytes} {sid ec fs : Nat} (h1 : Decodes p1 sid) (h2 : Decodes p2 ec)
    (h3 : Decodes p3 fs) (r : Bytes) :
    parseResetStream (p1 ++ p2 ++ p3 ++ r) false = .ok (.resetStream sid ec fs 0, p1.length + p2.length + p3.length) := by
  unfold parseResetStream
  simp only [List.append_assoc, takeV_of_decodes h1, takeV_of_decodes h2, takeV_of_decodes h3]
  simp; omega

theorem parseResetStreamAt_of {p1 p2 p3 p4 : Bytes} {sid ec fs rs : Nat} (h1 : Decodes p1 sid) (h2 : Decodes p2 ec)
    (h3 : Decodes p3 fs) (h4 : Decodes p4 rs) (hle : rs ≤ fs) (r : Bytes) :
    parseResetStream (p1 ++ p2 ++ p3 ++ p4 ++ r) true =
      .ok (.resetStream sid ec fs rs, p1.length + p2.length + p3.length + p4.length) := by
  unfold parseResetStream
  simp only [List.append_assoc, takeV_of_decodes h1, takeV_of_decodes h2, takeV_of_decodes h3, takeV_of_decodes h4]
  simp [Nat.not_lt.mpr hle]; omega

theorem parseResetStream_inv (b : Bytes) (at_ : Bool) (f : Frame) (n : Nat) (h : parseResetStream b at_ = .ok (f, n)) :
    ∃ p1 p2 p3 p4 r sid ec fs rs, b = p1 ++ p2 ++ p3 ++ p4 ++ r ∧ Decodes p1 sid ∧ Decodes p2 ec ∧ Decodes p3 fs ∧
      (if at_ then Decodes p4 rs else (p4 = [] ∧ rs = 0)) ∧ rs ≤ fs ∧
      f = .resetStream sid ec fs rs ∧ n = p1.length + p2.length + p3.length + p4.length := by
  unfold parseResetStream at h
  rcases takeV_cases b with he | ⟨p1, b1, sid, rfl, hd1, ht1⟩
  · simp [he] at h
  · rcases takeV_cases b1 with he | ⟨p2, b2, ec, rfl, hd2, ht2⟩
    · simp [ht1, he] at h
    · rcases takeV_cases b2 with he | ⟨p3, b3, fs, rfl, hd3, ht3⟩
      · simp [ht1, ht2, he] at h
      · cases at_ with
        | false =>
          simp [ht1, ht2, ht3] at h
          exact ⟨p1, p2, p3, [], b3, sid, ec, fs, 0, by simp, hd1, hd2, hd3, by simp, by omega, h.1.symm, by simp; omega⟩
        | true =>
          rcases takeV_cases b3 with he | ⟨p4, b4, rs, rfl, hd4, ht4⟩
          · simp [ht1, ht2, ht3, he] at h
          · simp only [ht1, ht2, ht3, ht4, if_true] at h
            by_cases hgt : rs > fs
            · simp [hgt] at h
            · simp [hgt] at h
              exact ⟨p1, p2, p3, p4, b4, sid, ec, fs, rs, by simp, hd1, hd2, hd3, by simpa using hd4, Nat.not_lt.mp hgt,
                h.1.symm, by omega⟩

theorem parseAckFrequency_of {p1 p2 p3 p4 : Bytes} {seq th mad rt : Nat} (h1 : Decodes p1 seq) (h2 : Decodes p2 th)
    (h3 : Decodes p3 mad) (h4 : Decodes p4 rt) (r : Bytes) :
    parseAckFrequency (p1 ++ p2 ++ p3 ++ p4 ++ r) =
      .ok (.ackFrequency seq th (ackFreqDelay mad) rt, p1.length + p2.length + p3.length + p4.length) := by
  unfold parseAckFrequency
  simp only [List.append_assoc, takeV_of_decodes h1, takeV_of_decodes h2, takeV_of_decodes h3, takeV_of_decodes h4]
  simp; omega

theorem parseAckFrequency_inv (b : Bytes) (f : Frame) (n : Nat) (h : parseAckFrequency b = .ok (f, n)) :
    ∃ p1 p2 p3 p4 r seq th mad rt, b = p1 ++ p2 ++ p3 ++ p4 ++ r ∧ Decodes p1 seq ∧ Decodes p2 th ∧ Decodes p3 mad ∧
      Decodes p4 rt ∧ f = .ackFrequency seq th (ackFreqDelay mad) rt ∧ n = p1.length + p2.length + p3.length + p4.length := by
  unfold parseAckFrequency at h
  rcases takeV_cases b with he | ⟨p1, b1, seq, rfl, hd1, ht1⟩
  · simp [he] at h
  · rcases takeV_cases b1 with he | ⟨p2, b2, th, rfl, hd2, ht2⟩
    · simp [ht1, he] at h
    · rcases takeV_cases b2 with he | ⟨p3, b3, mad, rfl, hd3, ht3⟩
      · simp [ht1, ht2, he] at h
      · rcases takeV_cases b3 with he | ⟨p4, b4, rt, rfl, hd4, ht4⟩
        · simp [ht1, ht2, ht3, he] at h
        · simp [ht1, ht2, ht3, ht4] at h
          exact ⟨p1, p2, p3, p4, b4, seq, th, mad, rt, by simp, hd1, hd2, hd3, hd4, h.1.symm, by omega⟩

/-! ### frames carrying a byte string -/

theorem parseCrypto_of {p1 p2 : Bytes} {off : Nat} (data : Bytes) (h1 : Decodes p1 off) (h2 : Decodes p2 data.length) (r : Bytes) :
    parseCrypto (p1 ++ p2 ++ data ++ r) = .ok (.crypto off data, p1.length + p2.length + data.length) := by
  unfold parseCrypto
  simp only [List.append_assoc, takeV_of_decodes h1, takeV_of_decodes h2]
  simp
  rw [if_neg (by omega)]
  congr 2; omega

theorem parseCrypto_inv (b : Bytes) (f : Frame) (n : Nat) (h : parseCrypto b = .ok (f, n)) :
    ∃ p1 p2 data r off, b = p1 ++ p2 ++ data ++ r ∧ Decodes p1 off ∧ Decodes p2 data.length ∧ f = .crypto off data ∧
      n = p1.length + p2.length + data.length := by
  unfold parseCrypto at h
  rcases takeV_cases b with he | ⟨p1, b1, off, rfl, hd1, ht1⟩
  · simp [he] at h
  · rcases takeV_cases b1 with he | ⟨p2, b2, dl, rfl, hd2, ht2⟩
    · simp [ht1, he] at h
    · simp only [ht1, ht2] at h
      by_cases hgt : dl > b2.length
      · simp [hgt] at h
      · simp [hgt] at h
        refine ⟨p1, p2, b2.take dl, b2.drop dl, off, by simp, hd1, ?_, h.1.symm, ?_⟩
        · simpa [Nat.min_eq_left (Nat.not_lt.mp hgt)] using hd2
        · simp [Nat.min_eq_left (Nat.not_lt.mp hgt)]; omega

theorem parseNewToken_of {p : Bytes} (tok : Bytes) (h : Decodes p tok.length) (hne : tok ≠ []) (r : Bytes) :
    parseNewToken (p ++ tok ++ r) = .ok (.newToken tok, p.length + tok.length) := by
  unfold parseNewToken
  have : tok.length ≠ 0 := by simpa using hne
  simp [List.append_assoc, parse_of_decodes h, this]

theorem parseNewToken_inv (b : Bytes) (f : Frame) (n : Nat) (h : parseNewToken b = .ok (f, n)) :
    ∃ p tok r, b = p ++ tok ++ r ∧ Decodes p tok.length ∧ tok ≠ [] ∧ f = .newToken tok ∧ n = p.length + tok.length := by
  unfold parseNewToken at h
  rcases parse_cases b with ⟨e, he⟩ | ⟨p, b1, tl, rfl, hd, hp⟩
  · simp [he] at h
  · simp only [hp] at h
    by_cases h0 : tl = 0
    · simp [h0] at h
    · by_cases hlt : b1.length < tl
      · simp [h0, hlt] at h
      · simp [h0, hlt] at h
        have hmin : min tl b1.length = tl := Nat.min_eq_left (Nat.not_lt.mp hlt)
        refine ⟨p, b1.take tl, b1.drop tl, by simp, by simpa [hmin] using hd, ?_, h.1.symm, by simp [hmin]; omega⟩
        intro hnil
        have : (b1.take tl).length = 0 := by rw [hnil]; rfl
        simp [hmin] at this; exact h0 this

end Uquic.Proofs.Wire
