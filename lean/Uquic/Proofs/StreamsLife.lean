/-
Composition of the stream objects' completion logic with one incoming streams map (C15, model
`Uquic.Model.Streams.Life`): a stream leaves the map only when it is fully complete, hence every stream on
which the peer has not yet sent FIN / RESET_STREAM still occupies a slot.
-/
import Uquic.Proofs.StreamsLifeCore
import Uquic.Proofs.StreamsIncomingRun

set_option linter.unusedSimpArgs false
set_option linter.unusedVariables false

namespace Uquic.Proofs.Streams
open Uquic.Model.Streams

/-! ### what one step of the incoming map does to a live entry and to `nextOpen` -/

theorem deleteInner_lookup (m : Incoming) (id k : SID) (h : k ≠ id) :
    lookup (m.deleteInner id).1.streams k = lookup m.streams k := by
  unfold Incoming.deleteInner
  split
  · rfl
  split
  · split
    · rfl
    · simp [lookup_setKey, h]
  simp only
  split
  · split <;> simp [lookup_eraseKey, h]
  · simp [lookup_eraseKey, h]

theorem deleteInner_nextOpen (m : Incoming) (id : SID) : (m.deleteInner id).1.nextOpen = m.nextOpen := by
  unfold Incoming.deleteInner
  split
  · rfl
  split
  · split <;> rfl
  simp only
  split
  · split <;> rfl
  · rfl

theorem accLocked_lookup (m : Incoming) (a : Nat) (k : SID) (hl : lookup m.streams k = some false) :
    lookup (m.accLocked a).1.streams k = some false := by
  unfold Incoming.accLocked
  cases hf : m.findAcc a with
  | none => exact hl
  | some p =>
    simp only
    split
    · exact hl
    split
    · exact hl
    cases hn : lookup m.streams m.nextAccept with
    | none => exact hl
    | some sd =>
      simp only
      cases sd with
      | false => exact hl
      | true =>
        simp only [if_true]
        have hk : k ≠ m.nextAccept := by
          intro h; rw [h, hn] at hl; simp at hl
        have := deleteInner_lookup { m with nextAccept := m.nextAccept + 4 } m.nextAccept k hk
        generalize hd : Incoming.deleteInner { m with nextAccept := m.nextAccept + 4 } m.nextAccept = res at this
        obtain ⟨m', e, fs⟩ := res
        simp only at this
        cases e <;> (simp only; show lookup m'.streams k = some false; rw [this]; exact hl)

theorem accLocked_nextOpen (m : Incoming) (a : Nat) : (m.accLocked a).1.nextOpen = m.nextOpen := by
  unfold Incoming.accLocked
  cases hf : m.findAcc a with
  | none => rfl
  | some p =>
    simp only
    split
    · rfl
    split
    · rfl
    cases hn : lookup m.streams m.nextAccept with
    | none => rfl
    | some sd =>
      simp only
      cases sd with
      | false => rfl
      | true =>
        simp only [if_true]
        have := deleteInner_nextOpen { m with nextAccept := m.nextAccept + 4 } m.nextAccept
        generalize hd : Incoming.deleteInner { m with nextAccept := m.nextAccept + 4 } m.nextAccept = res at this
        obtain ⟨m', e, fs⟩ := res
        simp only at this
        cases e <;> (simp only; show m'.nextOpen = m.nextOpen; rw [this])

/-- a live entry stays live unless this very stream is deleted -/
theorem step_live (m : Incoming) (op : InOp) (k : SID) (hl : lookup m.streams k = some false)
    (hne : op ≠ .delete k) : lookup (m.step op).1.streams k = some false := by
  cases op with
  | getOrOpen id =>
    by_cases hd : m.dead = true
    · simp [Incoming.step, hd]; exact hl
    have hd' : m.dead = false := by simpa using hd
    have hst : (m.step (.getOrOpen id)).1 = (m.getOrOpen id).1 := by simp [Incoming.step, hd']
    rw [hst]
    by_cases h1 : id > m.maxStream
    · simp [Incoming.getOrOpen, h1]; exact hl
    by_cases h2 : id < m.nextOpen
    · have : (m.getOrOpen id).1 = m := by
        simp only [Incoming.getOrOpen, h1, h2, if_true, if_false]
        split <;> rfl
      rw [this]; exact hl
    by_cases h3 : m.chanClosed = true
    · simp only [Incoming.getOrOpen, h1, h2, h3, if_true, if_false, lookup_setKey]
      split
      · rfl
      · exact hl
    · rw [getOrOpen_streams m id h1 h2 (by simpa using h3)]
      simp only [lookup_addNew]
      split
      · rfl
      · exact hl
  | delete id =>
    have hk : k ≠ id := fun h => hne (by rw [h])
    by_cases hd : m.dead = true
    · simp [Incoming.step, hd]; exact hl
    have hd' : m.dead = false := by simpa using hd
    have hst : (m.step (.delete id)).1 = (m.deleteStream id).1 := by simp [Incoming.step, hd']
    rw [hst, (deleteStream_eq m id).1, deleteInner_lookup m id k hk]; exact hl
  | accCall a =>
    simp only [Incoming.step, Incoming.accCall]
    split <;> exact hl
  | accLocked a =>
    by_cases hd : m.dead = true
    · simp [Incoming.step, hd]; exact hl
    have hd' : m.dead = false := by simpa using hd
    have hst : (m.step (.accLocked a)).1 = (m.accLocked a).1 := by simp [Incoming.step, hd']
    rw [hst]; exact accLocked_lookup m a k hl
  | accRecv a =>
    simp only [Incoming.step, Incoming.accRecv]
    split
    · exact hl
    · split
      · exact hl
      · split
        · exact hl
        · split <;> exact hl
  | accCtx a =>
    simp only [Incoming.step, Incoming.accCtx]
    split
    · exact hl
    · split <;> exact hl
  | cancelCtx a => exact hl
  | close e =>
    by_cases hd : m.dead = true
    · simp [Incoming.step, hd]; exact hl
    have hd' : m.dead = false := by simpa using hd
    cases hc : m.chanClosed <;> simp [Incoming.step, hd', Incoming.closeWithError, hc] <;> exact hl

/-- only `GetOrOpenStream` moves `nextStreamToOpen` -/
theorem step_nextOpen (m : Incoming) (op : InOp) (h : ∀ id, op ≠ .getOrOpen id) :
    (m.step op).1.nextOpen = m.nextOpen := by
  cases op with
  | getOrOpen id => exact absurd rfl (h id)
  | delete id =>
    by_cases hd : m.dead = true
    · simp [Incoming.step, hd]
    have hd' : m.dead = false := by simpa using hd
    have hst : (m.step (.delete id)).1 = (m.deleteStream id).1 := by simp [Incoming.step, hd']
    rw [hst, (deleteStream_eq m id).1, deleteInner_nextOpen]
  | accCall a =>
    simp only [Incoming.step, Incoming.accCall]
    split <;> rfl
  | accLocked a =>
    by_cases hd : m.dead = true
    · simp [Incoming.step, hd]
    have hd' : m.dead = false := by simpa using hd
    have hst : (m.step (.accLocked a)).1 = (m.accLocked a).1 := by simp [Incoming.step, hd']
    rw [hst]; exact accLocked_nextOpen m a
  | accRecv a =>
    simp only [Incoming.step, Incoming.accRecv]
    split
    · rfl
    · split
      · rfl
      · split
        · rfl
        · split <;> rfl
  | accCtx a =>
    simp only [Incoming.step, Incoming.accCtx]
    split
    · rfl
    · split <;> rfl
  | cancelCtx a => rfl
  | close e =>
    by_cases hd : m.dead = true
    · simp [Incoming.step, hd]
    have hd' : m.dead = false := by simpa using hd
    cases hc : m.chanClosed <;> simp [Incoming.step, hd', Incoming.closeWithError, hc]

/-- the streams one `GetOrOpenStream` opens are live afterwards, and it never closes any -/
theorem getOrOpen_new_live (first : Int) (m : Incoming) (o : Nat) (ho : m.nextOpen = first + 4 * (o : Int))
    (id : SID) (hwf : ∃ j' : Nat, id = first + 4 * (j' : Int)) (j : Nat)
    (hk : first + 4 * (j : Int) < (m.step (.getOrOpen id)).1.nextOpen)
    (hnew : ¬ first + 4 * (j : Int) < m.nextOpen) :
    lookup (m.step (.getOrOpen id)).1.streams (first + 4 * (j : Int)) = some false := by
  by_cases hd : m.dead = true
  · simp [Incoming.step, hd] at hk; exact absurd hk hnew
  have hd' : m.dead = false := by simpa using hd
  have hst : (m.step (.getOrOpen id)).1 = (m.getOrOpen id).1 := by simp [Incoming.step, hd']
  rw [hst] at hk ⊢
  by_cases h1 : id > m.maxStream
  · simp [Incoming.getOrOpen, h1] at hk; exact absurd hk hnew
  by_cases h2 : id < m.nextOpen
  · have : (m.getOrOpen id).1 = m := by
      simp only [Incoming.getOrOpen, h1, h2, if_true, if_false]
      split <;> rfl
    rw [this] at hk; exact absurd hk hnew
  by_cases h3 : m.chanClosed = true
  · simp only [Incoming.getOrOpen, h1, h2, h3, if_true, if_false] at hk
    exact absurd hk hnew
  · rw [getOrOpen_streams m id h1 h2 (by simpa using h3)] at hk ⊢
    simp only at hk
    simp only [lookup_addNew]
    have hm : first + 4 * (j : Int) ∈ newIds m.nextOpen id := by
      rw [mem_newIds]
      obtain ⟨j', hj'⟩ := hwf
      refine ⟨j - o, ?_, ?_⟩ <;> omega
    simp [hm]

/-- a map whose lock was left held by a panic stays that way -/
theorem step_dead (m : Incoming) (op : InOp) (hd : m.dead = true) : (m.step op).1.dead = true := by
  cases op with
  | getOrOpen id => simp [Incoming.step, hd]
  | delete id => simp [Incoming.step, hd]
  | accCall a =>
    simp only [Incoming.step, Incoming.accCall]
    split <;> exact hd
  | accLocked a => simp [Incoming.step, hd]
  | accRecv a =>
    simp only [Incoming.step, Incoming.accRecv]
    split
    · exact hd
    · split
      · exact hd
      · split
        · exact hd
        · split <;> exact hd
  | accCtx a =>
    simp only [Incoming.step, Incoming.accCtx]
    split
    · exact hd
    · split <;> exact hd
  | cancelCtx a => exact hd
  | close e => simp [Incoming.step, hd]

theorem step_alive (m : Incoming) (op : InOp) (h : (m.step op).1.dead = false) : m.dead = false := by
  cases hd : m.dead with
  | false => rfl
  | true => rw [step_dead m op hd] at h; cases h

/-! ### the composed system -/

/-- the operations that can reach this map: ids of its own residue class -/
def _root_.Uquic.Model.Streams.LOp.wf (first : Int) : LOp → Prop
  | .peer id _ => ∃ j : Nat, id = first + 4 * (j : Int)
  | .touch id => ∃ j : Nat, id = first + 4 * (j : Int)
  | .app id _ => ∃ j : Nat, id = first + 4 * (j : Int)
  | .sendDone id => ∃ j : Nat, id = first + 4 * (j : Int)
  | .inner _ => True

structure LInv (first : Int) (s : LifeInc) : Prop where
  inc : InInv first s.inc
  core : CInv s.core
  /-- every stream the peer has opened is live in the map, or it is fully complete -/
  live : s.inc.dead = false → ∀ j : Nat, first + 4 * (j : Int) < s.inc.nextOpen →
    lookup s.inc.streams (first + 4 * (j : Int)) = some false ∨ Done s.core (first + 4 * (j : Int))

theorem linv_new (t : STyp) (p : Persp) (n : Int) (hn : 0 ≤ n) : LInv (firstIncoming t p) (LifeInc.new t n p) := by
  refine ⟨inv_new t p n hn, cinv_init, ?_⟩
  intro _ j hj
  simp only [LifeInc.new, Incoming.new] at hj
  omega

/-- `Conn.onStreamCompleted` for a fully complete stream keeps the invariant -/
theorem completed_inv (first : Int) (hf0 : 0 ≤ first) (hf3 : first ≤ 3) (s : LifeInc) (id : SID) (fire : Bool)
    (h : LInv first s) (hd : fire = true → Done s.core id) : LInv first (s.completed id fire).1 := by
  unfold LifeInc.completed
  split
  · rename_i hf
    have sf := step_facts first hf0 hf3 s.inc (.delete id) h.inc trivial
    refine ⟨sf.inv, h.core, ?_⟩
    intro hdead j hj
    simp only at hj hdead ⊢
    rw [step_nextOpen s.inc (.delete id) (by intro x hx; cases hx)] at hj
    have hdead0 : s.inc.dead = false := step_alive _ _ hdead
    by_cases hk : first + 4 * (j : Int) = id
    · right; rw [hk]; exact hd hf
    · rcases h.live hdead0 j hj with hl | hl
      · left; exact step_live s.inc (.delete id) _ hl (by intro hx; cases hx; exact hk rfl)
      · right; exact hl
  · exact h

theorem step_inv (first : Int) (hf0 : 0 ≤ first) (hf3 : first ≤ 3) (s : LifeInc) (op : LOp)
    (h : LInv first s) (hw : op.wf first) : LInv first (s.step RHalf.isNewlyCompleted op).1 := by
  -- an inner step that is neither getOrOpen nor delete
  have innerStep : ∀ iop : InOp, (∀ id, iop ≠ .getOrOpen id) → (∀ id, iop ≠ .delete id) →
      LInv first { s with inc := (s.inc.step iop).1 } := by
    intro iop h1 h2
    have sf := step_facts first hf0 hf3 s.inc iop h.inc (by cases iop <;> first | trivial | exact absurd rfl (h1 _))
    refine ⟨sf.inv, h.core, ?_⟩
    intro hdead j hj
    simp only at hj hdead ⊢
    rw [step_nextOpen s.inc iop h1] at hj
    have hdead0 : s.inc.dead = false := step_alive _ _ hdead
    rcases h.live hdead0 j hj with hl | hl
    · left; exact step_live s.inc iop _ hl (h2 _)
    · right; exact hl
  -- getOrOpen on the map alone
  have openStep : ∀ id, (∃ j : Nat, id = first + 4 * (j : Int)) →
      LInv first { s with inc := (s.inc.step (.getOrOpen id)).1 } := by
    intro id hwf
    have sf := step_facts first hf0 hf3 s.inc (.getOrOpen id) h.inc hwf
    refine ⟨sf.inv, h.core, ?_⟩
    intro hdead j hj
    simp only at hj hdead ⊢
    have hdead0 : s.inc.dead = false := step_alive _ _ hdead
    obtain ⟨o, a, hc⟩ : ∃ o a, InCore first s.inc o a := by
      rcases h.inc with hx | hx
      · rw [hdead0] at hx; cases hx
      · exact hx
    by_cases hold : first + 4 * (j : Int) < s.inc.nextOpen
    · rcases h.live hdead0 j hold with hl | hl
      · left; exact step_live s.inc (.getOrOpen id) _ hl (by intro hx; cases hx)
      · right; exact hl
    · left; exact getOrOpen_new_live first s.inc o hc.hopen id hwf j hj hold
  cases op with
  | peer id pop =>
    simp only [LifeInc.step]
    have hopen := openStep id hw
    split
    · rename_i sid hget
      have rf := recv_facts s.core id pop.rop
      have h1 : LInv first ({ inc := (s.inc.step (.getOrOpen id)).1, core := (s.core.recv RHalf.isNewlyCompleted id pop.rop).1 } : LifeInc) := by
        refine ⟨hopen.inc, rf.inv h.core, ?_⟩
        intro hdead j hj
        rcases hopen.live hdead j hj with hl | hl
        · left; exact hl
        · right; exact rf.mono _ hl
      exact completed_inv first hf0 hf3 _ id _ h1 (fun hf => rf.fire h.core hf)
    · exact hopen
  | touch id =>
    simp only [LifeInc.step]
    exact openStep id hw
  | app id cancel =>
    simp only [LifeInc.step]
    split
    · have rf := recv_facts s.core id (if cancel then ROp.cancelRead else ROp.read)
      have h1 : LInv first ({ s with core := (s.core.recv RHalf.isNewlyCompleted id (if cancel then ROp.cancelRead else ROp.read)).1 } : LifeInc) := by
        refine ⟨h.inc, rf.inv h.core, ?_⟩
        intro hdead j hj
        rcases h.live hdead j hj with hl | hl
        · left; exact hl
        · right; exact rf.mono _ hl
      exact completed_inv first hf0 hf3 _ id _ h1 (fun hf => rf.fire h.core hf)
    · exact h
  | sendDone id =>
    simp only [LifeInc.step]
    split
    · have sf := send_facts s.core id
      have h1 : LInv first ({ s with core := (s.core.sendCompleted id).1 } : LifeInc) := by
        refine ⟨h.inc, sf.inv h.core, ?_⟩
        intro hdead j hj
        rcases h.live hdead j hj with hl | hl
        · left; exact hl
        · right; exact sf.mono _ hl
      exact completed_inv first hf0 hf3 _ id _ h1 (fun hf => sf.fire h.core hf)
    · exact h
  | inner iop =>
    simp only [LifeInc.step]
    split
    · exact h
    · exact h
    · rename_i h1 h2
      exact innerStep iop (fun id hx => h1 id hx) (fun id hx => h2 id hx)

theorem lrun_nil (s : LifeInc) : s.run RHalf.isNewlyCompleted [] = (s, []) := rfl
theorem lrun_cons (s : LifeInc) (o : LOp) (os : List LOp) :
    s.run RHalf.isNewlyCompleted (o :: os) =
      (((s.step RHalf.isNewlyCompleted o).1.run RHalf.isNewlyCompleted os).1,
       (s.step RHalf.isNewlyCompleted o).2 ++ ((s.step RHalf.isNewlyCompleted o).1.run RHalf.isNewlyCompleted os).2) := rfl

theorem lrun_inv (first : Int) (hf0 : 0 ≤ first) (hf3 : first ≤ 3) (ops : List LOp) :
    ∀ s : LifeInc, LInv first s → (∀ op ∈ ops, op.wf first) → LInv first (s.run RHalf.isNewlyCompleted ops).1 := by
  induction ops with
  | nil => intro s h _; simpa [lrun_nil] using h
  | cons o os ih =>
    intro s h hw
    rw [lrun_cons]
    exact ih _ (step_inv first hf0 hf3 s o h (hw o (by simp))) (fun op hop => hw op (by simp [hop]))

theorem completed_maxNum (first : Int) (hf0 : 0 ≤ first) (hf3 : first ≤ 3) (s : LifeInc) (id : SID) (fire : Bool)
    (h : InInv first s.inc) : (s.completed id fire).1.inc.maxNum = s.inc.maxNum := by
  unfold LifeInc.completed
  split
  · exact (step_facts first hf0 hf3 s.inc (.delete id) h trivial).maxNum
  · rfl

theorem step_maxNum (first : Int) (hf0 : 0 ≤ first) (hf3 : first ≤ 3) (s : LifeInc) (op : LOp)
    (h : LInv first s) (hw : op.wf first) : (s.step RHalf.isNewlyCompleted op).1.inc.maxNum = s.inc.maxNum := by
  cases op with
  | peer id pop =>
    simp only [LifeInc.step]
    have sf := step_facts first hf0 hf3 s.inc (.getOrOpen id) h.inc hw
    split
    · rw [completed_maxNum first hf0 hf3 _ id _ sf.inv]; exact sf.maxNum
    · exact sf.maxNum
  | touch id =>
    simp only [LifeInc.step]
    exact (step_facts first hf0 hf3 s.inc (.getOrOpen id) h.inc hw).maxNum
  | app id cancel =>
    simp only [LifeInc.step]
    split
    · exact completed_maxNum first hf0 hf3 ({ s with core := _ } : LifeInc) id _ h.inc
    · rfl
  | sendDone id =>
    simp only [LifeInc.step]
    split
    · exact completed_maxNum first hf0 hf3 ({ s with core := _ } : LifeInc) id _ h.inc
    · rfl
  | inner iop =>
    simp only [LifeInc.step]
    split
    · rfl
    · rfl
    · rename_i h1 h2
      exact (step_facts first hf0 hf3 s.inc iop h.inc (by cases iop <;> first | trivial | exact absurd rfl (h1 _))).maxNum

theorem lrun_maxNum (first : Int) (hf0 : 0 ≤ first) (hf3 : first ≤ 3) (ops : List LOp) :
    ∀ s : LifeInc, LInv first s → (∀ op ∈ ops, op.wf first) →
      (s.run RHalf.isNewlyCompleted ops).1.inc.maxNum = s.inc.maxNum := by
  induction ops with
  | nil => intro s h _; rfl
  | cons o os ih =>
    intro s h hw
    rw [lrun_cons]
    rw [ih _ (step_inv first hf0 hf3 s o h (hw o (by simp))) (fun op hop => hw op (by simp [hop]))]
    exact step_maxNum first hf0 hf3 s o h (hw o (by simp))

/-! ### counting -/

/-- distinct keys of an association list are at most as many as its entries -/
theorem nodup_sub_keys_length {β} (L : List SID) : ∀ (l : List (SID × β)), L.Nodup → (∀ k ∈ L, k ∈ keys l) →
    L.length ≤ l.length := by
  induction L with
  | nil => intro l _ _; simp
  | cons a L ih =>
    intro l hn hs
    rw [List.nodup_cons] at hn
    have ha : a ∈ keys l := hs a (by simp)
    have hsub : ∀ k ∈ L, k ∈ keys (eraseKey l a) := by
      intro k hk
      rw [mem_keys_eraseKey]
      refine ⟨hs k (by simp [hk]), ?_⟩
      intro h; subst h; exact hn.1 hk
    have h1 := ih (eraseKey l a) hn.2 hsub
    have h2 : (eraseKey l a).length < l.length := by
      simp only [eraseKey]
      obtain ⟨v, hv⟩ := (mem_keys l a).mp ha
      exact List.length_filter_lt_length_iff_exists.mpr ⟨(a, v), hv, by simp⟩
    simp only [List.length_cons]; omega

end Uquic.Proofs.Streams
