import Uquic.Proofs.WireDomain

namespace Uquic.Proofs.Wire
open Uquic.Model.Wire Uquic.Model.Wire.Varint Uquic.Spec.WireMon

section
variable (c : Ctx)

theorem dom_datagram (typ : Nat) (ht : typ = 0x30 ∨ typ = 0x31) (b : Bytes) (hb : b.length < 2 ^ 62) (f : Frame) (n : Nat)
    (h : parseDatagram b typ = .ok (f, n)) : Dom c typ f := by
  rcases parseDatagram_inv b typ f n h with ⟨ht1, p, data, r, _, hd, rfl, _⟩ | ⟨ht0, rfl, _⟩
  · have : typ = 0x31 := by omega
    subst this
    exact ⟨by simp [Frame.typ], fun _ _ => by simp [roundTripDomain]; exact le62 hd.2.1, rfl⟩
  · have : typ = 0x30 := by omega
    subst this
    exact ⟨by simp [Frame.typ], fun _ _ => by simp [roundTripDomain]; exact hb, rfl⟩

theorem dom_stream (typ : Nat) (ht : 8 ≤ typ ∧ typ ≤ 15) (b : Bytes) (f : Frame) (n : Nat)
    (h : parseStream b typ = .ok (f, n)) : Dom c typ f := by
  obtain ⟨p1, po, pl, data, r, sid, off, _, h1, ho, hl, hbuf, hmax, rfl, _⟩ := parseStream_inv b typ f n h
  refine ⟨?_, fun _ herr => ?_, rfl⟩
  · intro ha
    have hb := streamType_bits (decide (typ % 2 = 1)) (decide (typ / 2 % 2 = 1)) (decide (off ≠ 0))
    exact accepted_stream c typ _ ht ⟨hb.1, hb.2.1⟩ ha
  · have hlen : data.length ≤ maxPacketBufferSize := by
      rw [mpbs_eq, msfb_eq] at *; omega
    rw [mbc_eq] at hmax
    simp only [Frame.appendErr] at herr
    have hne : ¬(data.isEmpty = true ∧ (!decide (typ % 2 = 1)) = true) := by
      intro hc; simp [hc] at herr
    simp only [roundTripDomain, Bool.and_eq_true, decide_eq_true_eq, Bool.or_eq_true, Bool.not_eq_true']
    refine ⟨⟨⟨le62 h1.2.1, hmax⟩, hlen⟩, ?_⟩
    by_cases he : data.isEmpty = true
    · right
      by_cases hf : typ % 2 = 1
      · simp [hf]
      · exact absurd ⟨he, by simp [hf]⟩ hne
    · left; simpa using he

theorem dom_ack (ecn : Bool) (exp : Nat) (b : Bytes) (f : Frame) (n : Nat) (h : parseAck b ecn exp = .ok (f, n)) :
    Dom c (if ecn then ftAckECN else ftAck) f := by
  obtain ⟨pre, r, la, delay, smallest, rs, e0, e1, ce, _, _, rfl, hsl, hla, _, hchain, he0, he1, hce, hz, _⟩ :=
    parseAck_inv b ecn exp f n h
  refine ⟨?_, fun hfix _ => ?_, rfl⟩
  · intro ha
    by_cases hecn : hasECN e0 e1 ce = true
    · have : ecn = true := by
        cases ecn with
        | true => rfl
        | false => obtain ⟨z0, z1, z2⟩ := hz rfl; subst z0; subst z1; subst z2; simp [hasECN] at hecn
      subst this
      simpa [Frame.typ, hecn] using ha
    · simp only [Frame.typ, hecn, Bool.false_eq_true, if_false]
      cases ecn with
      | true => exact accepted_ack c (by simpa using ha)
      | false => simpa using ha
  · obtain ⟨hlen, hd⟩ := hfix
    have hval := validate_of_chain smallest la rs hsl hchain
    have hb := chain_bound rs smallest hchain
    have hall : ((smallest, la) :: rs).all (fun r => decide (r.2 < 2 ^ 62)) = true := by
      simp only [List.all_cons, Bool.and_eq_true, decide_eq_true_eq, List.all_eq_true]
      refine ⟨le62 hla, fun r hr => ?_⟩
      have := hb r hr
      have := le62 hla
      omega
    simp only [roundTripDomain, Bool.and_eq_true, decide_eq_true_eq]
    exact ⟨⟨⟨⟨⟨⟨⟨hval, hlen⟩, hd⟩, hall⟩, le62 he0⟩, le62 he1⟩, le62 hce⟩, ackDelayTime_lt delay exp⟩

/-- every frame the body parsers return: its re-encoded type is accepted where the parsed one was,
    it is well typed, and — outside the two named exceptions — in the encoder's round-trip domain -/
theorem body_domain (t : Nat) (d : Bytes) (hd : d.length < 2 ^ 62) (f : Frame) (n : Nat)
    (h : parseBody c t d = .ok (f, n)) : Dom c t f := by
  unfold parseBody at h
  split at h
  · rename_i hs; exact dom_stream c t ((isStream_iff t).mp hs) d f n h
  split at h
  · rename_i _ ha
    have : t = ftAck ∨ t = ftAckECN := by simpa [isAckFrameType] using ha
    have hd := dom_ack c (decide (t = ftAckECN)) _ d f n h
    rcases this with rfl | rfl
    · simpa (config := {decide := true}) using hd
    · simpa using hd
  split at h
  · rename_i _ _ hdg
    have : t = ftDatagramNoLength ∨ t = ftDatagramWithLength := by simpa [isDatagramFrameType] using hdg
    exact dom_datagram c t (by rcases this with rfl | rfl <;> decide) d hd f n h
  rw [parseLessCommon] at h
  by_cases ht : t = ftPing
  · rw [if_pos ht] at h
    subst ht
    simp only [Except.ok.injEq, Prod.mk.injEq] at h
    obtain ⟨rfl, _⟩ := h
    exact ⟨id, fun _ _ => rfl, rfl⟩
  rw [if_neg ht] at h
  clear ht
  by_cases ht : t = ftResetStream
  · rw [if_pos ht] at h
    subst ht; exact dom_resetStream c false d f n h
  rw [if_neg ht] at h
  clear ht
  by_cases ht : t = ftStopSending
  · rw [if_pos ht] at h
    subst ht; exact dom_stopSending c d f n h
  rw [if_neg ht] at h
  clear ht
  by_cases ht : t = ftCrypto
  · rw [if_pos ht] at h
    subst ht; exact dom_crypto c d f n h
  rw [if_neg ht] at h
  clear ht
  by_cases ht : t = ftNewToken
  · rw [if_pos ht] at h
    subst ht; exact dom_newToken c d f n h
  rw [if_neg ht] at h
  clear ht
  by_cases ht : t = ftMaxData
  · rw [if_pos ht] at h
    subst ht; exact dom_parse1_maxData c d f n h
  rw [if_neg ht] at h
  clear ht
  by_cases ht : t = ftMaxStreamData
  · rw [if_pos ht] at h
    subst ht; exact dom_maxStreamData c d f n h
  rw [if_neg ht] at h
  clear ht
  by_cases ht : t = ftBidiMaxStreams ∨ t = ftUniMaxStreams
  · rw [if_pos ht] at h
    exact dom_maxStreams c t ht d f n h
  rw [if_neg ht] at h
  clear ht
  by_cases ht : t = ftDataBlocked
  · rw [if_pos ht] at h
    subst ht; exact dom_dataBlocked c d f n h
  rw [if_neg ht] at h
  clear ht
  by_cases ht : t = ftStreamDataBlocked
  · rw [if_pos ht] at h
    subst ht; exact dom_streamDataBlocked c d f n h
  rw [if_neg ht] at h
  clear ht
  by_cases ht : t = ftBidiStreamBlocked ∨ t = ftUniStreamBlocked
  · rw [if_pos ht] at h
    exact dom_streamsBlocked c t ht d f n h
  rw [if_neg ht] at h
  clear ht
  by_cases ht : t = ftNewConnectionID
  · rw [if_pos ht] at h
    subst ht; exact dom_newConnectionID c d f n h
  rw [if_neg ht] at h
  clear ht
  by_cases ht : t = ftRetireConnectionID
  · rw [if_pos ht] at h
    subst ht; exact dom_retireConnectionID c d f n h
  rw [if_neg ht] at h
  clear ht
  by_cases ht : t = ftPathChallenge
  · rw [if_pos ht] at h
    subst ht; exact dom_pathChallenge c d f n h
  rw [if_neg ht] at h
  clear ht
  by_cases ht : t = ftPathResponse
  · rw [if_pos ht] at h
    subst ht; exact dom_pathResponse c d f n h
  rw [if_neg ht] at h
  clear ht
  by_cases ht : t = ftConnectionClose ∨ t = ftApplicationClose
  · rw [if_pos ht] at h
    exact dom_connectionClose c t ht d f n h
  rw [if_neg ht] at h
  clear ht
  by_cases ht : t = ftHandshakeDone
  · rw [if_pos ht] at h
    subst ht
    simp only [Except.ok.injEq, Prod.mk.injEq] at h
    obtain ⟨rfl, _⟩ := h
    exact ⟨id, fun _ _ => rfl, rfl⟩
  rw [if_neg ht] at h
  clear ht
  by_cases ht : t = ftResetStreamAt
  · rw [if_pos ht] at h
    subst ht; exact dom_resetStream c true d f n h
  rw [if_neg ht] at h
  clear ht
  by_cases ht : t = ftAckFrequency
  · rw [if_pos ht] at h
    subst ht; exact dom_ackFrequency c d f n h
  rw [if_neg ht] at h
  clear ht
  by_cases ht : t = ftImmediateAck
  · rw [if_pos ht] at h
    subst ht
    simp only [Except.ok.injEq, Prod.mk.injEq] at h
    obtain ⟨rfl, _⟩ := h
    exact ⟨id, fun _ _ => rfl, rfl⟩
  rw [if_neg ht] at h
  clear ht
  simp at h

end

end Uquic.Proofs.Wire
