/-
The ledger specification for whole operations of the connection ID manager
model, and the invariant along arbitrary histories.
-/
import Uquic.Proofs.ConnIDSteps

namespace Uquic.Proofs.ConnID
open Uquic.Model.ConnID

theorem maxActive_pos : 0 < maxActiveConnectionIDs := by decide

theorem StepSpec.comp' {m m1 m2 : Manager} {e1 e2 e : List Ev}
    (h1 : StepSpec m e1 m1) (h2 : MicroSpec m1 e2 m2) (he : e = e1 ++ e2) : StepSpec m e m2 := by
  subst he; exact h1.comp h2

/-- `updateConnectionID` as a whole step, for a non-empty queue -/
theorem update_spec {m : Manager} (draw : Nat) (hi : Inv m) (hne : m.queue ≠ []) :
    StepSpec m (m.updateConnectionID draw).2.1 (m.updateConnectionID draw).1 ∧
    (m.closed = false → (m.updateConnectionID draw).2.2 = .ok) ∧
    (∀ s, Ev.retire s ∈ (m.updateConnectionID draw).2.1 → s ∈ inUse m) := by
  cases hc : m.closed with
  | true =>
    simp [Manager.updateConnectionID, hc]
    exact StepSpec.refl hi
  | false =>
    match hq : m.queue with
    | [] => exact absurd hq hne
    | front :: rest =>
      have := update_micro (draw := draw) hi hc hq
      exact ⟨this.2.toStep, fun _ => this.1, this.2.from_use⟩

theorem rptProbing_fields (m : Manager) (rpt : Nat) :
    (m.retireProbingBelow rpt).1.activeSeq = m.activeSeq ∧ (m.retireProbingBelow rpt).1.highestProbing = m.highestProbing ∧
    (m.retireProbingBelow rpt).1.highestRetired = m.highestRetired ∧ (m.retireProbingBelow rpt).1.closed = m.closed ∧
    (m.retireProbingBelow rpt).1.queue = m.queue := by
  simp [Manager.retireProbingBelow]

theorem rptQueue_fields (m : Manager) (rpt : Nat) :
    (m.retireQueueBelow rpt).1.activeSeq = m.activeSeq ∧ (m.retireQueueBelow rpt).1.highestProbing = m.highestProbing ∧
    (m.retireQueueBelow rpt).1.highestRetired = max m.highestRetired rpt ∧ (m.retireQueueBelow rpt).1.closed = m.closed ∧
    (m.retireQueueBelow rpt).1.probing = m.probing := by
  unfold Manager.retireQueueBelow
  split
  · simp; omega
  · simp; omega

theorem not_retireNow {m : Manager} {seq : Nat} (h : m.retireNow seq = false) (hne : seq ≠ m.activeSeq) :
    m.activeSeq < seq ∧ m.highestProbing < seq ∧ m.highestRetired ≤ seq := by
  unfold Manager.retireNow at h
  simp only [Bool.and_eq_false_imp, Bool.or_eq_false_iff, decide_eq_true_eq, decide_eq_false_iff_not, Bool.and_eq_false_iff] at h
  have := h hne
  omega

theorem retireNow_blocked {m : Manager} {seq : Nat} (h : m.retireNow seq = true) :
    seq ≠ m.activeSeq ∧ Blocked m seq := by
  unfold Manager.retireNow at h
  simp only [Bool.and_eq_true, Bool.or_eq_true, decide_eq_true_eq] at h
  refine ⟨h.1, ?_⟩
  unfold Blocked
  omega

/-- `add`: ledger specification, what happens to the delivered sequence number, no index panic -/
theorem add_spec {m : Manager} (seq rpt : Nat) (id tok : Bytes) (draw : Nat) (hi : Inv m) (hv : rpt ≤ seq) :
    StepSpec m (m.add seq rpt id tok draw).2.1 (m.add seq rpt id tok draw).1 ∧
    ((m.add seq rpt id tok draw).2.2 ≠ .err .protocolViolation →
        seq ∈ inUse (m.add seq rpt id tok draw).1 ∨ Ev.retire seq ∈ (m.add seq rpt id tok draw).2.1) ∧
    (m.closed = false → (m.add seq rpt id tok draw).2.2 ≠ .panic) := by
  unfold Manager.add
  split
  · exact ⟨StepSpec.refl hi, by simp, by simp⟩
  split
  · rename_i _ hany
    refine ⟨StepSpec.refl hi, ?_, by simp⟩
    intro _; left
    simp only [List.any_eq_true, beq_iff_eq] at hany
    obtain ⟨pe, hpe, h⟩ := hany
    rw [mem_inUse]; right; right; exact ⟨pe, hpe, h⟩
  rename_i _ hnotany
  split
  · rename_i hrn
    obtain ⟨hne, hb⟩ := retireNow_blocked hrn
    refine ⟨?_, by simp, by simp⟩
    have hnot : seq ∉ inUse m := by
      rw [mem_inUse]
      rintro (h | ⟨e, he, h⟩ | ⟨pe, hpe, h⟩)
      · exact hne h
      · exact blocked_not_queued hi hb e he h
      · apply hnotany
        simp only [List.any_eq_true, beq_iff_eq]
        exact ⟨pe, hpe, h⟩
    refine ⟨hi, ?_, ?_, by simp [retiredIn], fun _ h => h, fun _ _ h => h⟩
    · intro s hs hn; exact absurd hs hn
    · intro s hs; simp at hs; subst hs; exact ⟨hnot, hb⟩
  rename_i hrn
  have hrn : m.retireNow seq = false := by simpa using hrn
  -- Retire Prior To
  have S1 := rptProbing_micro rpt hi
  have S2 := rptQueue_micro rpt S1.inv
  have F1 := rptProbing_fields m rpt
  have F2 := rptQueue_fields (m.retireProbingBelow rpt).1 rpt
  simp only
  generalize hm1 : m.retireProbingBelow rpt = r1 at S1 S2 F1 F2 ⊢
  generalize hm2 : r1.1.retireQueueBelow rpt = r2 at S2 F2 ⊢
  have S12 : StepSpec m (r1.2 ++ r2.2) r2.1 := (S1.toStep).comp S2
  split
  · -- duplicate of the active sequence number
    rename_i hact
    refine ⟨S12, ?_, by simp⟩
    intro _; left; rw [mem_inUse]; left; exact hact
  rename_i hact
  have hact' : seq ≠ m.activeSeq := by rw [F2.1, F1.1] at hact; exact hact
  obtain ⟨e1, e2, e3⟩ := not_retireNow hrn hact'
  have hEnter : Enter r2.1 (⟨seq, id, tok⟩ : Entry).seq := by
    refine ⟨by rw [F2.1, F1.1]; exact e1, by rw [F2.2.1, F1.2.1]; exact e2, ?_⟩
    rw [F2.2.2.1, F1.2.2.1]; simp only; omega
  split
  · -- conflicting contents
    rename_i er herr
    refine ⟨S12, ?_, by simp⟩
    intro _; left
    obtain ⟨x, hx, hxs⟩ := addConnectionID_error herr
    rw [mem_inUse]; right; left; exact ⟨x, hx, hxs⟩
  rename_i q hq
  have S3 : StepSpec m (r1.2 ++ r2.2) { r2.1 with queue := q } :=
    S12.comp' (insert_micro S12.inv hEnter hq) (by simp)
  obtain ⟨_, _, _, _, hqne, x, hxq, hxs⟩ := addConnectionID_ok S12.inv.sorted hq
  have hseqIn : seq ∈ inUse { r2.1 with queue := q } := by
    rw [mem_inUse]; right; left; exact ⟨x, hxq, hxs⟩
  split
  · -- the active connection ID has to be retired
    have U := update_spec (m := { r2.1 with queue := q }) draw S3.inv hqne
    refine ⟨S3.comp'' U.1 U.2.2, ?_, ?_⟩
    · intro _
      by_cases hin : seq ∈ inUse ({ r2.1 with queue := q }.updateConnectionID draw).1
      · exact Or.inl hin
      · right; exact List.mem_append_right _ (U.1.leave seq hseqIn hin)
    · intro hc
      have : ({ r2.1 with queue := q } : Manager).closed = false := by
        simp only; rw [F2.2.2.2.1, F1.2.2.2.1]; exact hc
      rw [U.2.1 this]; simp
  · exact ⟨S3, fun _ => Or.inl hseqIn, by simp⟩

end Uquic.Proofs.ConnID

namespace Uquic.Proofs.ConnID
open Uquic.Model.ConnID

/-- what the callers guarantee (each discharged in /repo): the frame parser rejects Retire Prior To > Sequence Number;
    the preferred address comes with the transport parameters, before any frame; the server's stateless reset token
    comes with the transport parameters, once -/
def OpValid (m : Manager) : Op → Prop
  | .new seq rpt _ _ _ => rpt ≤ seq
  | .pref _ _ => m.activeSeq = 0 ∧ m.highestProbing = 0 ∧ m.highestRetired = 0
  | .setTok _ => m.activeTok = none
  | _ => True

/-- the sequence number an operation delivers from the peer -/
def opRcv : Op → Option Nat
  | .new seq _ _ _ _ => some seq
  | .pref _ _ => some 1
  | _ => none

theorem addFrame_state (m : Manager) (seq rpt : Nat) (id tok : Bytes) (draw : Nat) :
    (m.addFrame seq rpt id tok draw).1 = (m.add seq rpt id tok draw).1 ∧
    (m.addFrame seq rpt id tok draw).2.1 = (m.add seq rpt id tok draw).2.1 ∧
    ((m.addFrame seq rpt id tok draw).2.2 ≠ .err .protocolViolation → (m.add seq rpt id tok draw).2.2 ≠ .err .protocolViolation) ∧
    ((m.add seq rpt id tok draw).2.2 ≠ .panic → (m.addFrame seq rpt id tok draw).2.2 ≠ .panic) := by
  unfold Manager.addFrame
  simp only
  split
  · rename_i hok
    split <;> simp [hok]
  · simp

theorem shouldUpdate_nonempty {m : Manager} (h : m.shouldUpdateConnID = true) : m.queue ≠ [] := by
  unfold Manager.shouldUpdateConnID at h
  have hp := maxActive_pos
  intro hq
  simp [hq] at h
  omega

theorem sameCore_step {m m' : Manager} {evs : List Ev} (h : SameCore m m') (hi : Inv m)
    (hev : ∀ s, Ev.retire s ∉ evs) : StepSpec m evs m' := (SameCore.micro h hi hev).toStep

theorem step_spec {m : Manager} (op : Op) (hi : Inv m) (hv : OpValid m op) :
    StepSpec m (m.step op).2.1 (m.step op).1 ∧
    (∀ r, opRcv op = some r → (m.step op).2.2 ≠ .err .protocolViolation →
        r ∈ inUse (m.step op).1 ∨ Ev.retire r ∈ (m.step op).2.1) := by
  cases op with
  | new seq rpt id tok draw =>
    have A := add_spec seq rpt id tok draw hi hv
    have F := addFrame_state m seq rpt id tok draw
    simp only [Manager.step, opRcv]
    rw [F.1, F.2.1]
    refine ⟨A.1, ?_⟩
    intro r hr hne
    cases hr
    exact A.2.1 (F.2.2.1 hne)
  | pref id tok =>
    simp only [Manager.step, opRcv, Manager.addFromPreferredAddress]
    obtain ⟨h1, h2, h3⟩ := hv
    split
    · rename_i er herr
      refine ⟨StepSpec.refl hi, ?_⟩
      intro r hr _; cases hr
      obtain ⟨x, hx, hxs⟩ := addConnectionID_error herr
      left; rw [mem_inUse]; right; left; exact ⟨x, hx, hxs⟩
    · rename_i q hq
      have hE : Enter m (⟨1, id, tok⟩ : Entry).seq := ⟨by simp only; omega, by simp only; omega, by simp only; omega⟩
      refine ⟨(insert_micro hi hE hq).toStep, ?_⟩
      intro r hr _; cases hr
      obtain ⟨_, _, _, _, _, x, hxq, hxs⟩ := addConnectionID_ok hi.sorted hq
      left; rw [mem_inUse]; right; left; exact ⟨x, hxq, hxs⟩
  | get draw =>
    simp only [Manager.step, opRcv, Manager.get]
    refine ⟨?_, by simp⟩
    split
    · exact StepSpec.refl hi
    · split
      · rename_i hsu
        exact (update_spec draw hi (shouldUpdate_nonempty hsu)).1
      · exact StepSpec.refl hi
  | sentPacket =>
    refine ⟨?_, by simp [opRcv]⟩
    show StepSpec m [] m.sentPacket
    exact sameCore_step ⟨rfl, rfl, rfl, rfl, rfl⟩ hi (by simp)
  | path p =>
    simp only [Manager.step, opRcv, Manager.getConnIDForPath]
    refine ⟨?_, by simp⟩
    split
    · exact StepSpec.refl hi
    split
    · exact StepSpec.refl hi
    split
    · exact StepSpec.refl hi
    · rename_i hl
      split
      · exact StepSpec.refl hi
      · rename_i front rest hq
        exact (path_micro hi hq hl).toStep
  | retirePath p =>
    simp only [Manager.step, opRcv, Manager.retireConnIDForPath]
    refine ⟨?_, by simp⟩
    split
    · exact StepSpec.refl hi
    split
    · exact StepSpec.refl hi
    split
    · exact StepSpec.refl hi
    · rename_i e hl
      exact (retirePath_micro hi hl).toStep
  | hsDone =>
    refine ⟨?_, by simp [opRcv]⟩
    show StepSpec m [] m.setHandshakeComplete
    exact sameCore_step ⟨rfl, rfl, rfl, rfl, rfl⟩ hi (by simp)
  | close =>
    refine ⟨?_, by simp [opRcv]⟩
    simp only [Manager.step, Manager.close]
    refine sameCore_step ⟨rfl, rfl, rfl, rfl, rfl⟩ hi ?_
    intro s hs
    rcases List.mem_append.mp hs with h | h
    · exact retire_not_mem_rmTokOpt _ _ h
    · simp at h
  | setTok t =>
    refine ⟨?_, by simp [opRcv]⟩
    simp only [Manager.step, Manager.setStatelessResetToken]
    split
    · exact StepSpec.refl hi
    split
    · exact StepSpec.refl hi
    · exact sameCore_step ⟨rfl, rfl, rfl, rfl, rfl⟩ hi (by simp)
  | changeInitial id =>
    refine ⟨?_, by simp [opRcv]⟩
    simp only [Manager.step, Manager.changeInitialConnID]
    split
    · exact StepSpec.refl hi
    · exact sameCore_step ⟨rfl, rfl, rfl, rfl, rfl⟩ hi (by simp)
  | setLimit n =>
    refine ⟨?_, by simp [opRcv]⟩
    show StepSpec m [] (m.setConnectionIDLimit n)
    exact sameCore_step ⟨rfl, rfl, rfl, rfl, rfl⟩ hi (by simp)

/-! ### histories -/

/-- states reachable by any history of operations that respects the callers' guarantees -/
inductive Reach : Manager → Prop
  | init (dest : Bytes) : Reach (Manager.new dest)
  | step {m : Manager} (op : Op) : Reach m → OpValid m op → Reach (m.step op).1

theorem inv_new (dest : Bytes) : Inv (Manager.new dest) := by
  refine ⟨?_, ?_, ?_, ?_, ?_, ?_, ?_, ?_, ?_⟩ <;> simp [Manager.new, SortedQ, pSeqs]

theorem reach_inv {m : Manager} (h : Reach m) : Inv m := by
  induction h with
  | init dest => exact inv_new dest
  | step op _ hv ih => exact (step_spec op ih hv).1.inv

/-- a history all of whose operations respect the callers' guarantees -/
def ValidRun : Manager → List Op → Prop
  | _, [] => True
  | m, op :: ops => OpValid m op ∧ ValidRun (m.step op).1 ops

theorem reach_run {m : Manager} (h : Reach m) : ∀ {ops : List Op}, ValidRun m ops → Reach (m.run ops).1 := by
  intro ops
  induction ops generalizing m with
  | nil => intro _; exact h
  | cons op ops ih =>
    intro hv
    simp only [Manager.run]
    exact ih (Reach.step op h hv.1) hv.2

/-- once RETIRE_CONNECTION_ID was queued for a sequence number, it is never in use again -/
theorem retired_stay_out {m : Manager} (hi : Inv m) (R : List Nat) (hR : ∀ s ∈ R, Blocked m s ∧ s ∉ inUse m) :
    ∀ {ops : List Op}, ValidRun m ops → ∀ s, (s ∈ R ∨ Ev.retire s ∈ (m.run ops).2) →
      Blocked (m.run ops).1 s ∧ s ∉ inUse (m.run ops).1 := by
  intro ops
  induction ops generalizing m R with
  | nil =>
    intro _ s hs
    simp only [Manager.run] at hs ⊢
    rcases hs with hs | hs
    · exact hR s hs
    · simp at hs
  | cons op ops ih =>
    intro hv s hs
    have S := (step_spec op hi hv.1).1
    simp only [Manager.run] at hs ⊢
    -- everything retired so far, including this step
    have hR' : ∀ x ∈ R ++ retiredIn (m.step op).2.1, Blocked (m.step op).1 x ∧ x ∉ inUse (m.step op).1 := by
      intro x hx
      rcases List.mem_append.mp hx with hx | hx
      · have := hR x hx
        exact ⟨S.mono x this.1, S.stay_out x this.1 this.2⟩
      · have := S.gone x (mem_retiredIn.mp hx)
        exact ⟨this.2, this.1⟩
    apply ih S.inv (R ++ retiredIn (m.step op).2.1) hR' hv.2 s
    rcases hs with hs | hs
    · left; exact List.mem_append_left _ hs
    · rcases List.mem_append.mp hs with hs | hs
      · left; exact List.mem_append_right _ (mem_retiredIn.mpr hs)
      · right; exact hs

theorem run_append (m : Manager) : ∀ (a b : List Op),
    m.run (a ++ b) = ((((m.run a).1).run b).1, (m.run a).2 ++ (((m.run a).1).run b).2)
  | [], b => by simp [Manager.run]
  | op :: a, b => by
    simp only [List.cons_append, Manager.run]
    rw [run_append (m.step op).1 a b]
    simp [List.append_assoc]

theorem validRun_append {m : Manager} : ∀ {a b : List Op}, ValidRun m (a ++ b) → ValidRun m a ∧ ValidRun (m.run a).1 b
  | [], b, h => by simpa [ValidRun, Manager.run] using h
  | op :: a, b, h => by
    simp only [List.cons_append, ValidRun] at h
    have := validRun_append h.2
    exact ⟨⟨h.1, this.1⟩, by simpa [Manager.run] using this.2⟩

end Uquic.Proofs.ConnID
