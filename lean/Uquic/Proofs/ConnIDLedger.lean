/-
The ledger specification for whole operations of the connection ID manager
model, and the invariant along arbitrary histories.
-/
import Uquic.Proofs.ConnIDSteps

namespace Uquic.Proofs.ConnID
open Uquic.Model.ConnID

theorem maxActive_pos : 0 < maxActiveConnectionIDs := by decide

theorem StepSpec.comp' {m m1 m2 : Manager} {e1 e2 e : List Ev}
    (h1 : StepSpec m e1 m1) (h2 : MicroSpec m1 e2 m2) (he : e = e1 ++ e2) : StepSpec m e m2 := by
  subst he; exact h1.comp h2

/-- `updateConnectionID` as a whole step, for a non-empty queue -/
theorem update_spec {m : Manager} (draw : Nat) (hi : Inv m) (hne : m.queue ≠ []) :
    StepSpec m (m.updateConnectionID draw).2.1 (m.updateConnectionID draw).1 ∧
    (m.closed = false → (m.updateConnectionID draw).2.2 = .ok) ∧
    (∀ s, Ev.retire s ∈ (m.updateConnectionID draw).2.1 → s ∈ inUse m) := by
  cases hc : m.closed with
  | true =>
    simp [Manager.updateConnectionID, hc]
    exact StepSpec.refl hi
  | false =>
    match hq : m.queue with
    | [] => exact absurd hq hne
    | front :: rest =>
      have := update_micro (draw := draw) hi hc hq
      exact ⟨this.2.toStep, fun _ => this.1, this.2.from_use⟩

theorem rptProbing_fields (m : Manager) (rpt : Nat) :
    (m.retireProbingBelow rpt).1.activeSeq = m.activeSeq ∧ (m.retireProbingBelow rpt).1.highestProbing = m.highestProbing ∧
    (m.retireProbingBelow rpt).1.highestRetired = m.highestRetired ∧ (m.retireProbingBelow rpt).1.closed = m.closed ∧
    (m.retireProbingBelow rpt).1.queue = m.queue := by
  simp [Manager.retireProbingBelow]

theorem rptQueue_fields (m : Manager) (rpt : Nat) :
    (m.retireQueueBelow rpt).1.activeSeq = m.activeSeq ∧ (m.retireQueueBelow rpt).1.highestProbing = m.highestProbing ∧
    (m.retireQueueBelow rpt).1.highestRetired = max m.highestRetired rpt ∧ (m.retireQueueBelow rpt).1.closed = m.closed ∧
    (m.retireQueueBelow rpt).1.probing = m.probing := by
  unfold Manager.retireQueueBelow
  split
  · simp; omega
  · simp; omega

theorem not_retireNow {m : Manager} {seq : Nat} (h : m.retireNow seq = false) (hne : seq ≠ m.activeSeq) :
    m.activeSeq < seq ∧ m.highestProbing < seq ∧ m.highestRetired ≤ seq := by
  unfold Manager.retireNow at h
  simp only [Bool.and_eq_false_imp, Bool.or_eq_false_iff, decide_eq_true_eq, decide_eq_false_iff_not, Bool.and_eq_false_iff] at h
  have := h hne
  omega

theorem retireNow_blocked {m : Manager} {seq : Nat} (h : m.retireNow seq = true) :
    seq ≠ m.activeSeq ∧ Blocked m seq := by
  unfold Manager.retireNow at h
  simp only [Bool.and_eq_true, Bool.or_eq_true, decide_eq_true_eq] at h
  refine ⟨h.1, ?_⟩
  unfold Blocked
  omega

/-- `add`: ledger specification, what happens to the delivered sequence number, no index panic -/
theorem add_spec {m : Manager} (seq rpt : Nat) (id tok : Bytes) (draw : Nat) (hi : Inv m) (hv : rpt ≤ seq) :
    StepSpec m (m.add seq rpt id tok draw).2.1 (m.add seq rpt id tok draw).1 ∧
    ((m.add seq rpt id tok draw).2.2 ≠ .err .protocolViolation →
        seq ∈ inUse (m.add seq rpt id tok draw).1 ∨ Ev.retire seq ∈ (m.add seq rpt id tok draw).2.1) ∧
    (m.closed = false → (m.add seq rpt id tok draw).2.2 ≠ .panic) := by
  unfold Manager.add
  split
  · exact ⟨StepSpec.refl hi, by simp, by simp⟩
  split
  · rename_i _ hany
    refine ⟨StepSpec.refl hi, ?_, by simp⟩
    intro _; left
    simp only [List.any_eq_true, beq_iff_eq] at hany
    obtain ⟨pe, hpe, h⟩ := hany
    rw [mem_inUse]; right; right; exact ⟨pe, hpe, h⟩
  rename_i _ hnotany
  split
  · rename_i hrn
    obtain ⟨hne, hb⟩ := retireNow_blocked hrn
    refine ⟨?_, by simp, by simp⟩
    have hnot : seq ∉ inUse m := by
      rw [mem_inUse]
      rintro (h | ⟨e, he, h⟩ | ⟨pe, hpe, h⟩)
      · exact hne h
      · exact blocked_not_queued hi hb e he h
      · apply hnotany
        simp only [List.any_eq_true, beq_iff_eq]
        exact ⟨pe, hpe, h⟩
    refine ⟨hi, ?_, ?_, by simp [retiredIn], fun _ h => h, fun _ _ h => h⟩
    · intro s hs hn; exact absurd hs hn
    · intro s hs; simp at hs; subst hs; exact ⟨hnot, hb⟩
  rename_i hrn
  have hrn : m.retireNow seq = false := by simpa using hrn
  -- Retire Prior To
  have S1 := rptProbing_micro rpt hi
  have S2 := rptQueue_micro rpt S1.inv
  have F1 := rptProbing_fields m rpt
  have F2 := rptQueue_fields (m.retireProbingBelow rpt).1 rpt
  simp only
  generalize hm1 : m.retireProbingBelow rpt = r1 at S1 S2 F1 F2 ⊢
  generalize hm2 : r1.1.retireQueueBelow rpt = r2 at S2 F2 ⊢
  have S12 : StepSpec m (r1.2 ++ r2.2) r2.1 := (S1.toStep).comp S2
  split
  · -- duplicate of the active sequence number
    rename_i hact
    refine ⟨S12, ?_, by simp⟩
    intro _; left; rw [mem_inUse]; left; exact hact
  rename_i hact
  have hact' : seq ≠ m.activeSeq := by rw [F2.1, F1.1] at hact; exact hact
  obtain ⟨e1, e2, e3⟩ := not_retireNow hrn hact'
  have hEnter : Enter r2.1 (⟨seq, id, tok⟩ : Entry).seq := by
    refine ⟨by rw [F2.1, F1.1]; exact e1, by rw [F2.2.1, F1.2.1]; exact e2, ?_⟩
    rw [F2.2.2.1, F1.2.2.1]; simp only; omega
  split
  · -- conflicting contents
    rename_i er herr
    refine ⟨S12, ?_, by simp⟩
    intro _; left
    obtain ⟨x, hx, hxs⟩ := addConnectionID_error herr
    rw [mem_inUse]; right; left; exact ⟨x, hx, hxs⟩
  rename_i q hq
  have S3 : StepSpec m (r1.2 ++ r2.2) { r2.1 with queue := q } :=
    S12.comp' (insert_micro S12.inv hEnter hq) (by simp)
  obtain ⟨_, _, _, _, hqne, x, hxq, hxs⟩ := addConnectionID_ok S12.inv.sorted hq
  have hseqIn : seq ∈ inUse { r2.1 with queue := q } := by
    rw [mem_inUse]; right; left; exact ⟨x, hxq, hxs⟩
  split
  · -- the active connection ID has to be retired
    have U := update_spec (m := { r2.1 with queue := q }) draw S3.inv hqne
    refine ⟨S3.comp'' U.1 U.2.2, ?_, ?_⟩
    · intro _
      by_cases hin : seq ∈ inUse ({ r2.1 with queue := q }.updateConnectionID draw).1
      · exact Or.inl hin
      · right; exact List.mem_append_right _ (U.1.leave seq hseqIn hin)
    · intro hc
      have : ({ r2.1 with queue := q } : Manager).closed = false := by
        simp only; rw [F2.2.2.2.1, F1.2.2.2.1]; exact hc
      rw [U.2.1 this]; simp
  · exact ⟨S3, fun _ => Or.inl hseqIn, by simp⟩

end Uquic.Proofs.ConnID
