import Uquic.Proofs.WireLength
import Uquic.Model.Wire.Split

/-! Frames cut to a budget fit the budget; splitting preserves the data. -/

namespace Uquic.Proofs.Wire
open Uquic.Model.Wire Uquic.Model.Wire.Varint

theorem len_cases (x : Nat) (h : x ≤ maxVarInt8) :
    (x ≤ 63 ∧ len x = 1) ∨ (64 ≤ x ∧ x ≤ 16383 ∧ len x = 2) ∨ (16384 ≤ x ∧ 4 ≤ len x) := by
  unfold len; rw [max1_eq, max2_eq, max4_eq, max8_eq] at *
  by_cases h1 : x ≤ 63
  · left; exact ⟨h1, by rw [if_pos h1]⟩
  · by_cases h2 : x ≤ 16383
    · right; left; exact ⟨by omega, h2, by rw [if_neg h1, if_pos h2]⟩
    · right; right
      refine ⟨by omega, ?_⟩
      rw [if_neg h1, if_neg h2]
      by_cases h4 : x ≤ 1073741823
      · rw [if_pos h4]; omega
      · rw [if_neg h4, if_pos h]; omega

theorem stream_bytes_length (sid off : Nat) (data : Bytes) (fin dlp : Bool) (hs : sid ≤ maxVarInt8) (ho : off ≤ maxVarInt8)
    (hd : data.length ≤ maxVarInt8) :
    (Frame.stream sid off data fin dlp).bytes.length =
      1 + len sid + (if off ≠ 0 then len off else 0) + (if dlp then len data.length else 0) + data.length := by
  by_cases h0 : off = 0 <;> cases dlp <;> simp [Frame.bytes, h0, len_enc, hs, ho, hd] <;> omega

/-- `MaxDataLen` with a length field, `h0` header bytes before it: `cap` is what it returns -/
def capLen (h0 maxSize : Nat) : Nat :=
  if len (maxSize - (h0 + 1)) ≠ 1 then maxSize - (h0 + 1) - 1 else maxSize - (h0 + 1)

/-- a payload within the cap fits the budget together with its length field -/
theorem budget_core (h0 n maxSize : Nat) (hm : maxSize ≤ 16383) (hfit : h0 + 1 ≤ maxSize) (hn : n ≤ capLen h0 maxSize) :
    h0 + len n + n ≤ maxSize := by
  unfold capLen at hn
  have hm8 := max8_eq
  rcases len_cases (maxSize - (h0 + 1)) (by omega) with ⟨a, b⟩ | ⟨a, b, c⟩ | ⟨a, _⟩
  · rw [b] at hn; simp only [ne_eq, not_true_eq_false, if_false] at hn
    rcases len_cases n (by omega) with ⟨_, d⟩ | ⟨_, _, _⟩ | ⟨_, _⟩ <;> omega
  · rw [c] at hn; simp only [ne_eq, if_true, show ¬ (2 = 1) by omega, not_false_eq_true] at hn
    rcases len_cases n (by omega) with ⟨_, d⟩ | ⟨_, _, d⟩ | ⟨_, _⟩ <;> omega
  · omega

/-- if the whole frame does not fit, the cap is smaller than the payload -/
theorem cap_lt (h0 total maxSize : Nat) (hm : maxSize ≤ 16383) (ht : total ≤ maxVarInt8) (hfit : h0 + 1 ≤ maxSize)
    (hbig : maxSize < h0 + len total + total) : capLen h0 maxSize < total := by
  unfold capLen
  have hm8 := max8_eq
  rcases len_cases total ht with ⟨a, b⟩ | ⟨a, b, c⟩ | ⟨a, b⟩
  · split <;> omega
  · rcases len_cases (maxSize - (h0 + 1)) (by omega) with ⟨d, e⟩ | ⟨d, e, f⟩ | ⟨d, _⟩
    · rw [e]; simp only [ne_eq, not_true_eq_false, if_false]; omega
    · rw [f]; simp only [ne_eq, show ¬ (2 = 1) by omega, not_false_eq_true, if_true]; omega
    · omega
  · split <;> omega

theorem streamMaxDataLen_eq (sid off : Nat) (dlp : Bool) (maxSize : Nat) :
    streamMaxDataLen sid off dlp maxSize =
      (let h0 := 1 + len sid + (if off ≠ 0 then len off else 0)
       if dlp then (if h0 + 1 > maxSize then 0 else capLen h0 maxSize)
       else (if h0 > maxSize then 0 else maxSize - h0)) := by
  unfold streamMaxDataLen capLen
  cases dlp <;> simp

/-- STREAM: a frame filled up to `MaxDataLen(maxSize)` takes at most `maxSize` bytes
    (budgets up to 16383 bytes: the callers' budgets are bounded by the packet size) -/
theorem stream_maxDataLen_fits (sid off : Nat) (data : Bytes) (fin dlp : Bool) (maxSize : Nat)
    (hs : sid ≤ maxVarInt8) (ho : off ≤ maxVarInt8) (hm : maxSize ≤ 16383)
    (hn : data.length ≤ streamMaxDataLen sid off dlp maxSize) (hpos : 0 < data.length) :
    (Frame.stream sid off data fin dlp).bytes.length ≤ maxSize := by
  have hm8 := max8_eq
  rw [streamMaxDataLen_eq] at hn
  simp only at hn
  generalize hh0 : 1 + len sid + (if off ≠ 0 then len off else 0) = h0 at hn
  cases dlp with
  | false =>
    simp only [Bool.false_eq_true, if_false] at hn
    have hd : data.length ≤ maxVarInt8 := by split at hn <;> omega
    rw [stream_bytes_length sid off data fin false hs ho hd]
    simp only [Bool.false_eq_true, if_false]
    split at hn <;> omega
  | true =>
    simp only [if_true] at hn
    by_cases hfit : h0 + 1 > maxSize
    · rw [if_pos hfit] at hn; omega
    · rw [if_neg hfit] at hn
      have hcap : capLen h0 maxSize ≤ maxSize := by unfold capLen; split <;> omega
      rw [stream_bytes_length sid off data fin true hs ho (by omega)]
      simp only [if_true]
      have := budget_core h0 data.length maxSize hm (by omega) hn
      omega

/-- STREAM: `MaybeSplitOffFrame` cuts the data in two without loss, keeps the stream ID, advances the
    offset, clears FIN on the first part and keeps it on the rest, and the first part fits the budget -/
theorem stream_split_correct (sid off : Nat) (data : Bytes) (fin dlp : Bool) (maxSize : Nat) (a b : Frame)
    (hs : sid ≤ maxVarInt8) (ho : off ≤ maxVarInt8) (hd : data.length ≤ maxVarInt8) (hm : maxSize ≤ 16383)
    (h : streamSplit sid off data fin dlp maxSize = .split a b) :
    ∃ d1 d2, a = .stream sid off d1 false dlp ∧ b = .stream sid (off + d1.length) d2 fin dlp ∧ d1 ++ d2 = data ∧
      0 < d1.length ∧ a.bytes.length ≤ maxSize := by
  have hm8 := max8_eq
  unfold streamSplit at h
  by_cases hge : maxSize ≥ (Frame.stream sid off data fin dlp).length
  · simp [hge] at h
  · rw [if_neg hge] at h
    simp only at h
    by_cases hn0 : streamMaxDataLen sid off dlp maxSize = 0
    · simp [hn0] at h
    · rw [if_neg hn0] at h
      by_cases hp : data.length - streamMaxDataLen sid off dlp maxSize > maxPacketBufferSize
      · simp [hp] at h
      · rw [if_neg hp] at h
        simp only [SplitOut.split.injEq] at h
        obtain ⟨rfl, rfl⟩ := h
        -- the cap is positive and smaller than the payload
        have hlt : streamMaxDataLen sid off dlp maxSize < data.length := by
          rw [streamMaxDataLen_eq] at hn0 ⊢
          simp only [Frame.length] at hge
          simp only at hn0 ⊢
          generalize 1 + len sid + (if off ≠ 0 then len off else 0) = h0 at hn0 hge ⊢
          cases dlp with
          | false =>
            simp only [Bool.false_eq_true, if_false] at hn0 hge ⊢
            by_cases hb : h0 > maxSize
            · simp [hb] at hn0
            · rw [if_neg hb]; omega
          | true =>
            simp only [if_true] at hn0 hge ⊢
            by_cases hfit : h0 + 1 > maxSize
            · simp [hfit] at hn0
            · rw [if_neg hfit]
              exact cap_lt h0 data.length maxSize hm hd (by omega) (by omega)
        have htl : (data.take (streamMaxDataLen sid off dlp maxSize)).length = streamMaxDataLen sid off dlp maxSize := by
          simp; omega
        refine ⟨data.take _, data.drop _, rfl, by rw [htl], List.take_append_drop _ _, by rw [htl]; omega, ?_⟩
        exact stream_maxDataLen_fits sid off _ false dlp maxSize hs ho hm (by rw [htl]; exact Nat.le_refl _) (by rw [htl]; omega)

theorem crypto_bytes_length (off : Nat) (data : Bytes) (ho : off ≤ maxVarInt8) (hd : data.length ≤ maxVarInt8) :
    (Frame.crypto off data).bytes.length = 1 + len off + len data.length + data.length := by
  simp [Frame.bytes, len_enc, ho, hd]; omega

/-- CRYPTO: the same two facts -/
theorem crypto_split_correct (off : Nat) (data : Bytes) (maxSize : Nat) (a b : Frame)
    (ho : off ≤ maxVarInt8) (hd : data.length ≤ maxVarInt8) (hm : maxSize ≤ 16383)
    (h : cryptoSplit off data maxSize = .split a b) :
    ∃ d1 d2, a = .crypto off d1 ∧ b = .crypto (off + d1.length) d2 ∧ d1 ++ d2 = data ∧
      0 < d1.length ∧ a.bytes.length ≤ maxSize := by
  have hm8 := max8_eq
  unfold cryptoSplit at h
  by_cases hle : (Frame.crypto off data).length ≤ maxSize
  · simp [hle] at h
  · rw [if_neg hle] at h
    simp only at h
    by_cases hn0 : cryptoMaxDataLen off maxSize = 0
    · simp [hn0] at h
    · rw [if_neg hn0] at h
      simp only [SplitOut.split.injEq] at h
      obtain ⟨rfl, rfl⟩ := h
      have heq : cryptoMaxDataLen off maxSize = (if 1 + len off + 1 > maxSize then 0 else capLen (1 + len off) maxSize) := by
        unfold cryptoMaxDataLen capLen; simp
      rw [heq] at hn0
      simp only [Frame.length] at hle
      by_cases hfit : 1 + len off + 1 > maxSize
      · simp [hfit] at hn0
      · rw [if_neg hfit] at hn0
        have hlt : capLen (1 + len off) maxSize < data.length :=
          cap_lt (1 + len off) data.length maxSize hm hd (by omega) (by omega)
        have htl : (data.take (cryptoMaxDataLen off maxSize)).length = capLen (1 + len off) maxSize := by
          rw [heq, if_neg hfit]; simp; omega
        refine ⟨data.take _, data.drop _, rfl, by rw [htl, heq, if_neg hfit], List.take_append_drop _ _, by rw [htl]; omega, ?_⟩
        have hb := budget_core (1 + len off) (data.take (cryptoMaxDataLen off maxSize)).length maxSize hm (by omega)
          (by rw [htl]; exact Nat.le_refl _)
        rw [crypto_bytes_length off _ ho (by rw [htl]; omega)]
        omega

end Uquic.Proofs.Wire
