/-
Helper lemmas for C04: sums over the stream list and the specification of every component
function of the flow-control model (what each Go method changes, and by how much).
-/
import Uquic.Model.FlowControl

namespace Uquic.Proofs.Flow
open Uquic.Model.FlowControl

/-! ### sums over the streams of a connection -/

def sumBy (f : Stream → Int) : List Stream → Int
  | [] => 0
  | s :: l => f s + sumBy f l

@[simp] theorem sumBy_nil (f : Stream → Int) : sumBy f [] = 0 := rfl
@[simp] theorem sumBy_cons (f : Stream → Int) (s l) : sumBy f (s :: l) = f s + sumBy f l := rfl

theorem sumBy_append (f : Stream → Int) (l₁ l₂ : List Stream) :
    sumBy f (l₁ ++ l₂) = sumBy f l₁ + sumBy f l₂ := by
  induction l₁ with
  | nil => simp
  | cons a l ih => simp [ih]; omega

theorem sumBy_set (f : Stream → Int) (l : List Stream) (i : Nat) (x y : Stream)
    (h : l[i]? = some x) : sumBy f (l.set i y) = sumBy f l - f x + f y := by
  induction l generalizing i with
  | nil => simp at h
  | cons a l ih =>
    cases i with
    | zero => simp at h; subst h; simp; omega
    | succ i => simp at h; simp [ih i h]; omega

theorem mem_set_cases {l : List Stream} {i : Nat} {y z : Stream} (h : z ∈ l.set i y) : z = y ∨ z ∈ l := by
  induction l generalizing i with
  | nil => simp at h
  | cons a l ih =>
    cases i with
    | zero => simp at h; rcases h with h | h <;> simp [h]
    | succ i =>
      simp at h
      rcases h with h | h
      · simp [h]
      · rcases ih h with h | h <;> simp [h]

theorem mem_of_getElem? {l : List Stream} {i : Nat} {x : Stream} (h : l[i]? = some x) : x ∈ l :=
  List.mem_of_getElem? h

end Uquic.Proofs.Flow

namespace Uquic.Proofs.Flow
open Uquic.Model.FlowControl

/-! ### specification of the receive-window tuning functions -/

/-- what auto-tuning may change: the window size grows within its bound, the epoch moves -/
structure TuneRel (c c' : Base) : Prop where
  bs : c'.bytesSent = c.bytesSent
  sw : c'.sendWindow = c.sendWindow
  lb : c'.lastBlockedAt = c.lastBlockedAt
  br : c'.bytesRead = c.bytesRead
  hr : c'.highestReceived = c.highestReceived
  rw : c'.receiveWindow = c.receiveWindow
  mx : c'.maxReceiveWindowSize = c.maxReceiveWindowSize
  lo : c.receiveWindowSize ≤ c'.receiveWindowSize
  hi : c'.receiveWindowSize ≤ max c.receiveWindowSize c.maxReceiveWindowSize

theorem TuneRel.refl (c : Base) : TuneRel c c := by
  constructor <;> first | rfl | omega

theorem maybeAdjust_rel (c : Base) (now rtt : Int) (allow : Option Bool) :
    TuneRel c (c.maybeAdjustWindowSize now rtt allow).1 := by
  unfold Base.maybeAdjustWindowSize
  simp only []
  repeat' split
  all_goals (constructor <;> simp [Base.startNewAutoTuningEpoch] <;> omega)

/-- `getWindowUpdate`: like tuning, and the receive window is either untouched (answer 0) or set to
    `bytesRead + receiveWindowSize`, which is the answer -/
structure UpdRel (c c' : Base) (off : Int) : Prop where
  bs : c'.bytesSent = c.bytesSent
  sw : c'.sendWindow = c.sendWindow
  lb : c'.lastBlockedAt = c.lastBlockedAt
  br : c'.bytesRead = c.bytesRead
  hr : c'.highestReceived = c.highestReceived
  mx : c'.maxReceiveWindowSize = c.maxReceiveWindowSize
  lo : c.receiveWindowSize ≤ c'.receiveWindowSize
  hi : c'.receiveWindowSize ≤ max c.receiveWindowSize c.maxReceiveWindowSize
  rw : (off = 0 ∧ c'.receiveWindow = c.receiveWindow) ∨
       (off = c'.receiveWindow ∧ c'.receiveWindow = c'.bytesRead + c'.receiveWindowSize)

theorem getWindowUpdate_rel (c : Base) (now rtt : Int) (allow : Option Bool) :
    UpdRel c (c.getWindowUpdate now rtt allow).1 (c.getWindowUpdate now rtt allow).2.1 := by
  unfold Base.getWindowUpdate
  have h := maybeAdjust_rel c now rtt allow
  split
  · constructor <;> simp <;> omega
  · split
    · rename_i c1 calls heq
      rw [heq] at h; simp at h
      constructor <;> simp <;> first | exact h.bs | exact h.sw | exact h.lb | exact h.br | exact h.hr | exact h.mx | exact h.lo | exact h.hi | (left; exact h.rw)
    · rename_i c1 calls heq
      rw [heq] at h; simp at h
      constructor <;> simp <;> first | exact h.bs | exact h.sw | exact h.lb | exact h.br | exact h.hr | exact h.mx | exact h.lo | exact h.hi

theorem ensureMin_rel (c : Base) (inc now : Int) (allow : Option Bool) :
    TuneRel c (Conn.ensureMinimumWindowSize c inc now allow).1 := by
  unfold Conn.ensureMinimumWindowSize
  simp only []
  repeat' split
  all_goals (constructor <;> simp [Base.startNewAutoTuningEpoch] <;> omega)

end Uquic.Proofs.Flow
