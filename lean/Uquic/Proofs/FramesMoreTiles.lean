/-
C09 (continued) helper lemmas: the monitor's executable `layoutTiles` predicate (Spec/FramingMon) in
propositional form, so that it can be compared with the theorem hypothesis `TilesAt`.
-/
import Uquic.Proofs.FramesMorePerm

namespace Uquic.Proofs.FramesMore
open Uquic.Spec.Framing Uquic.Spec.FramingMon Uquic.Model.UQuic.Frames Uquic.Proofs.Frames

/-- the layout `build` works on -/
def layoutOf' (qfs : List QFrame) : List QFrame := if qfs.isEmpty then [QFrame.crypto 0 0] else qfs

/-- the monitor's rebasing offset is the model's `lowestOffset` -/
theorem layoutLowest_eq (qfs : List QFrame) : layoutLowest qfs = lowestOffset (layoutOf' qfs) := by
  unfold layoutLowest lowestOffset layoutOf'
  simp only []
  congr 1
  funext m f
  rw [Int.min_def]
  split <;> split <;> omega

/-- one step of the monitor's `layoutRanges` fold -/
def rangeStep (low : Int) (n : Nat) (acc : Option (List (Nat × Nat))) (f : QFrame) : Option (List (Nat × Nat)) :=
  match acc, f with
  | none, _ => none
  | some rs, .crypto off len =>
    let start := off - low
    let length := if len = 0 ∨ len > (n : Int) - start then (n : Int) - start else len
    if start < 0 ∨ len < 0 ∨ start > n then none else some (rs ++ [(start.toNat, length.toNat)])
  | some rs, .padding l => if l < 0 then none else some rs
  | some rs, .ping => some rs

theorem layoutRanges_eq (qfs : List QFrame) (n : Nat) :
    layoutRanges qfs n = (layoutOf' qfs).foldl (rangeStep (layoutLowest qfs) n) (some []) := by
  unfold layoutRanges layoutOf'
  simp only []
  congr 1

/-- what the monitor asks of one entry (the documented contract: non-negative fields, the frame
    starts inside the slice) -/
def EntryOk (low : Int) (n : Nat) : QFrame → Prop
  | .crypto off len => 0 ≤ off - low ∧ 0 ≤ len ∧ off - low ≤ n
  | .padding l => 0 ≤ l
  | .ping => True

/-- the resolved range of one entry -/
def rangeOf (low : Int) (n : Nat) : QFrame → List (Nat × Nat)
  | .crypto off len =>
    [((off - low).toNat, (if len = 0 ∨ len > (n : Int) - (off - low) then (n : Int) - (off - low) else len).toNat)]
  | _ => []

theorem foldl_rangeStep_none (low : Int) (n : Nat) (L : List QFrame) :
    L.foldl (rangeStep low n) none = none := by
  induction L with
  | nil => rfl
  | cons f fs ih => simpa [List.foldl_cons, rangeStep] using ih

theorem foldl_rangeStep (low : Int) (n : Nat) : ∀ (L : List QFrame) (acc rs : List (Nat × Nat)),
    L.foldl (rangeStep low n) (some acc) = some rs ↔
      (∀ f ∈ L, EntryOk low n f) ∧ rs = acc ++ L.flatMap (rangeOf low n) := by
  intro L
  induction L with
  | nil => intro acc rs; simp [eq_comm]
  | cons f fs ih =>
    intro acc rs
    rw [List.foldl_cons]
    cases f with
    | ping =>
      have : rangeStep low n (some acc) QFrame.ping = some acc := rfl
      rw [this, ih]
      simp [EntryOk, rangeOf]
    | padding l =>
      by_cases hl : l < 0
      · have : rangeStep low n (some acc) (QFrame.padding l) = none := by simp [rangeStep, hl]
        rw [this, foldl_rangeStep_none]
        simp [EntryOk]; intro h; omega
      · have : rangeStep low n (some acc) (QFrame.padding l) = some acc := by simp [rangeStep, hl]
        rw [this, ih]
        simp [EntryOk, rangeOf]; intro _ _; omega
    | crypto off len =>
      by_cases hbad : off - low < 0 ∨ len < 0 ∨ off - low > n
      · have : rangeStep low n (some acc) (QFrame.crypto off len) = none := by simp [rangeStep, hbad]
        rw [this, foldl_rangeStep_none]
        simp [EntryOk]; intro h; omega
      · have : rangeStep low n (some acc) (QFrame.crypto off len) =
            some (acc ++ rangeOf low n (QFrame.crypto off len)) := by simp [rangeStep, hbad, rangeOf]
        rw [this, ih]
        simp only [List.mem_cons, forall_eq_or_imp, EntryOk, List.flatMap_cons, List.append_assoc]
        constructor
        · rintro ⟨h1, h2⟩; exact ⟨⟨by omega, h1⟩, h2⟩
        · rintro ⟨⟨_, h1⟩, h2⟩; exact ⟨h1, h2⟩

/-- `layoutTiles` in propositional form: every entry is inside its contract and the resolved
    CRYPTO ranges cover `[0,n)` -/
theorem layoutTiles_iff (qfs : List QFrame) (n : Nat) :
    layoutTiles qfs n = true ↔
      (∀ f ∈ layoutOf' qfs, EntryOk (layoutLowest qfs) n f) ∧
      ∀ i, i < n → ∃ r ∈ (layoutOf' qfs).flatMap (rangeOf (layoutLowest qfs) n), r.1 ≤ i ∧ i < r.1 + r.2 := by
  unfold layoutTiles
  rw [layoutRanges_eq]
  constructor
  · intro h
    split at h
    · simp at h
    · rename_i rs hrs
      obtain ⟨h1, h2⟩ := (foldl_rangeStep _ _ _ _ _).mp hrs
      simp only [List.nil_append] at h2
      subst h2
      refine ⟨h1, ?_⟩
      intro i hi
      exact coversAll_iff.mp h i (Nat.zero_le _) hi
  · rintro ⟨h1, h2⟩
    have := (foldl_rangeStep (layoutLowest qfs) n (layoutOf' qfs) [] _).mpr ⟨h1, rfl⟩
    rw [this]
    simp only [List.nil_append]
    exact coversAll_iff.mpr fun i _ hi => h2 i hi

theorem mem_flatMap_rangeOf {low : Int} {n : Nat} {L : List QFrame} {r : Nat × Nat} :
    r ∈ L.flatMap (rangeOf low n) ↔ ∃ off len, QFrame.crypto off len ∈ L ∧
      r = ((off - low).toNat, (if len = 0 ∨ len > (n : Int) - (off - low) then (n : Int) - (off - low) else len).toNat) := by
  rw [List.mem_flatMap]
  constructor
  · rintro ⟨f, hf, hr⟩
    cases f with
    | crypto off len => simp only [rangeOf, List.mem_singleton] at hr; exact ⟨off, len, hf, hr⟩
    | padding l => simp [rangeOf] at hr
    | ping => simp [rangeOf] at hr
  · rintro ⟨off, len, hf, hr⟩
    exact ⟨_, hf, by simp [rangeOf, hr]⟩

/-- generalisation of `buildAll_carries` to a layout whose lowest offset is negative: all that is
    needed is that the slice's true offset `base + low` is non-negative -/
theorem buildAll_carries_int {low : Int} {data : List UInt8} {base : Nat} {fs : List QFrame}
    (hbl : 0 ≤ (base : Int) + low)
    (hframes : ∀ f ∈ fs, FrameOk low data.length base f)
    (hin : ∀ off len, QFrame.crypto off len ∈ fs → off - low ≤ data.length)
    (hcover : ∀ i : Nat, i < data.length → ∃ off len, QFrame.crypto off len ∈ fs ∧
      rstart low data.length off ≤ i ∧ (i : Int) < rstart low data.length off + rlen low data.length off len) :
    ∃ p, buildAll low data base fs = some p ∧
      carries data ((base : Int) + low).toNat [p] = true := by
  obtain ⟨p, frames, hp, hr, hc⟩ := buildAll_ok fs hframes
  refine ⟨p, hp, carriesAt_intro (fs := frames) (by simp [readAll, hr]) ?_ ?_⟩
  · intro c hcm
    rw [hc] at hcm
    obtain ⟨f, hf, hcf⟩ := List.mem_flatMap.mp hcm
    cases f with
    | ping => simp [cryptoSpec] at hcf
    | padding l => simp [cryptoSpec] at hcf
    | crypto off len =>
      simp only [cryptoSpec, List.mem_singleton] at hcf
      have ok := hframes _ hf
      simp only [FrameOk] at ok
      obtain ⟨h1, h2, h4, h5, h6⟩ := ok
      have hin' := hin _ _ hf
      have hst : rstart low data.length off = off - low := by unfold rstart; omega
      obtain ⟨hl0, hln⟩ := rlen_bounds (n := data.length) h1 h2
      subst hcf
      have hlen : ((data.drop (rstart low data.length off).toNat).take (rlen low data.length off len).toNat).length
          = (rlen low data.length off len).toNat := by
        simp only [List.length_take, List.length_drop]; omega
      refine ⟨?_, by omega, by rw [hlen]; omega⟩
      rw [sliceEq_iff, hlen]
      have e : (off + (base : Int)).toNat - ((base : Int) + low).toNat = (rstart low data.length off).toNat := by omega
      rw [e]
      exact ⟨by omega, by omega, rfl⟩
  · intro i h1 h2
    obtain ⟨off, len, hm, h3, h4⟩ := hcover (i - ((base : Int) + low).toNat) (by omega)
    have ok := hframes _ hm
    simp only [FrameOk] at ok
    obtain ⟨o1, o2, o4, o5, o6⟩ := ok
    have hin' := hin _ _ hm
    have hst : rstart low data.length off = off - low := by unfold rstart; omega
    obtain ⟨hl0, hln⟩ := rlen_bounds (n := data.length) o1 o2
    refine ⟨((off + (base : Int)).toNat, (data.drop (rstart low data.length off).toNat).take (rlen low data.length off len).toNat), ?_, ?_, ?_⟩
    · rw [hc]; exact List.mem_flatMap.mpr ⟨_, hm, by simp [cryptoSpec]⟩
    · simp only []; omega
    · simp only [List.length_take, List.length_drop]; omega

/-- a layout that `layoutTiles` accepts for the share, handed a base offset such that the share's true
    offset `base + lowest` is non-negative and everything is representable, builds a payload that
    carries the share at `base + lowest` -/
theorem layoutTiles_build (qfs : List QFrame) (data : List UInt8) (base : Nat)
    (ht : layoutTiles qfs data.length = true) (hbl : 0 ≤ (base : Int) + layoutLowest qfs)
    (hn8 : data.length ≤ maxVarInt8)
    (hrep : ∀ off len, QFrame.crypto off len ∈ layoutOf' qfs → off + (base : Int) ≤ maxVarInt8) :
    ∃ p, qfBuild qfs data base = .ok p ∧
      carries data ((base : Int) + layoutLowest qfs).toNat [p] = true := by
  rw [layoutTiles_iff, layoutLowest_eq] at ht
  rw [layoutLowest_eq] at hbl ⊢
  obtain ⟨hent, hcov⟩ := ht
  have hlow : ∀ off len, QFrame.crypto off len ∈ layoutOf' qfs → lowestOffset (layoutOf' qfs) ≤ off :=
    fun off len hm => (foldl_low_le (layoutOf' qfs) 65535).2.1 _ hm
  obtain ⟨p, hp, hc⟩ := buildAll_carries_int (low := lowestOffset (layoutOf' qfs)) (data := data) (base := base)
    (fs := layoutOf' qfs) hbl
    (by
      intro f hf
      have he := hent f hf
      cases f with
      | crypto off len =>
        simp only [EntryOk] at he
        exact ⟨hlow _ _ hf, he.2.1, by have := hlow _ _ hf; omega, hrep _ _ hf, by omega⟩
      | padding l => exact he
      | ping => trivial)
    (by
      intro off len hm
      have he := hent _ hm
      simp only [EntryOk] at he
      exact he.2.2)
    (by
      intro i hi
      obtain ⟨r, hr, h1, h2⟩ := hcov i hi
      obtain ⟨off, len, hm, rfl⟩ := mem_flatMap_rangeOf.mp hr
      have he := hent _ hm
      simp only [EntryOk] at he
      have hst : rstart (lowestOffset (layoutOf' qfs)) data.length off = off - lowestOffset (layoutOf' qfs) := by
        unfold rstart; omega
      refine ⟨off, len, hm, by rw [hst]; simp only [] at h1; omega, ?_⟩
      simp only [rlen, hst]
      simp only [] at h1 h2
      split at h2 <;> rename_i hc <;> simp only [hc, if_true, if_false] <;> omega)
  refine ⟨p, ?_, hc⟩
  simp only [qfBuild]
  have : (if qfs.isEmpty = true then [QFrame.crypto 0 0] else qfs) = layoutOf' qfs := rfl
  rw [this, hp]

end Uquic.Proofs.FramesMore
