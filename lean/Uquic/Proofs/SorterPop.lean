/-
C03: `Pop`, the `Push` wrapper, and histories of pushes and pops.
-/
import Uquic.Proofs.SorterPush
namespace Uquic.Proofs.Sorter
open Uquic.Model.Reassembly

theorem maxByteCount_pos : 0 < maxByteCount := by
  unfold maxByteCount Uquic.Gen.Protocol.MaxByteCount
  decide

/-- the freshly created sorter satisfies the invariant -/
theorem inv_init (src : Nat → UInt8) : Inv src ({} : Sorter) := by
  refine ⟨GapsWF.single maxByteCount_pos, ⟨0, rfl⟩, ?_, ⟨List.nodup_nil, by simp, by simp⟩, by simp, by simp, ?_, by simp⟩
  · intro g hg; simp at hg; subst hg; exact Nat.le_refl _
  · intro p _ hp
    constructor
    · intro _ ⟨x, hx, _⟩; simp at hx
    · intro _; exact ⟨(0, maxByteCount), by simp, Nat.zero_le _, hp⟩

/-- the source bytes `[off, off+len)` -/
def srcSeg (src : Nat → UInt8) (off len : Nat) : Bytes := (List.range len).map fun j => src (off + j)

theorem srcSeg_length (src : Nat → UInt8) (off len : Nat) : (srcSeg src off len).length = len := by simp [srcSeg]

theorem srcSeg_get (src : Nat → UInt8) (off len j : Nat) (h : j < len) : (srcSeg src off len)[j]? = some (src (off + j)) := by
  simp [srcSeg, h]

/-- a byte string that agrees with the source on `[off, off+len)` is that segment -/
theorem eq_srcSeg {src : Nat → UInt8} {d : Bytes} {off : Nat} (h : ∀ j, j < d.length → d[j]? = some (src (off + j))) :
    d = srcSeg src off d.length := by
  apply List.ext_getElem?
  intro j
  rcases Nat.lt_or_ge j d.length with hlt | hge
  · rw [h j hlt, srcSeg_get _ _ _ _ hlt]
  · rw [List.getElem?_eq_none hge, List.getElem?_eq_none (by rw [srcSeg_length]; exact hge)]

theorem srcSeg_append (src : Nat → UInt8) (off a b : Nat) : srcSeg src off a ++ srcSeg src (off + a) b = srcSeg src off (a + b) := by
  apply List.ext_getElem?
  intro j
  rcases Nat.lt_or_ge j a with hlt | hge
  · rw [List.getElem?_append_left (by rw [srcSeg_length]; exact hlt), srcSeg_get _ _ _ _ hlt, srcSeg_get _ _ _ _ (by omega)]
  · rw [List.getElem?_append_right (by rw [srcSeg_length]; exact hge), srcSeg_length]
    rcases Nat.lt_or_ge (j - a) b with hlt2 | hge2
    · rw [srcSeg_get _ _ _ _ hlt2, srcSeg_get _ _ _ _ (by omega)]
      congr 2; omega
    · rw [List.getElem?_eq_none (by rw [srcSeg_length]; exact hge2), List.getElem?_eq_none (by rw [srcSeg_length]; omega)]

/-- `Pop` on a state satisfying the invariant: never panics; either nothing is at `readPos`
(exactly when `readPos` is missing), or the frame at `readPos` — the source bytes there — is handed
out together with its release callback, and the invariant holds again. -/
theorem pop_spec {src : Nat → UInt8} {s : Sorter} (h : Inv src s) :
    (qget s.queue s.readPos = none ∧ s.pop = (s, .ok s.readPos none none)) ∨
    (∃ e, (s.readPos, e) ∈ s.queue ∧
      s.pop = ({ s with queue := qdel s.queue s.readPos, readPos := s.readPos + e.data.length },
               .ok s.readPos (some e.data) e.cb) ∧
      e.data = srcSeg src s.readPos e.data.length ∧ 0 < e.data.length ∧
      Inv src { s with queue := qdel s.queue s.readPos, readPos := s.readPos + e.data.length } ∧
      (cbList e.cb ++ cbsOf (qdel s.queue s.readPos)).Perm (cbsOf s.queue)) := by
  cases hq : qget s.queue s.readPos with
  | none => left; exact ⟨rfl, by simp [Sorter.pop, hq]⟩
  | some e =>
    right
    have he := mem_of_qget hq
    have hpos : 0 < e.data.length := h.qinv.pos _ he
    obtain ⟨xl, hxl⟩ := h.glast
    -- every gap lies behind the frame
    have hgaps : ∀ g ∈ s.gaps, s.readPos + e.data.length ≤ g.1 := by
      intro g hg
      have h1 := h.grp g hg
      have h2 := h.gwf.pos g hg
      rcases Nat.lt_or_ge g.1 (s.readPos + e.data.length) with hlt | hge
      · exact absurd ⟨(s.readPos, e), he, h1, hlt⟩ (h.excl ⟨g, hg, Nat.le_refl _, h2⟩)
      · exact hge
    refine ⟨e, he, ?_, eq_srcSeg (h.data _ he), hpos, ?_, cbsOf_qdel_perm h.qinv.nodup he⟩
    · simp only [Sorter.pop, hq]
      cases hg : s.gaps with
      | nil => rw [hg] at hxl; simp at hxl
      | cons g gs =>
        simp only
        have h1 := hgaps g (by rw [hg]; simp)
        have h2 := h.gwf.pos g (by rw [hg]; simp)
        rw [if_neg (by omega)]
    · refine ⟨h.gwf, h.glast, hgaps, h.qinv.qdel _, ?_, ?_, ?_, ?_⟩
      · intro x hx
        obtain ⟨hx1, hx2⟩ := mem_qdel.mp hx
        have h1 := h.erp x hx1
        rcases Nat.lt_or_ge x.1 (s.readPos + e.data.length) with hlt | hge
        · exact absurd (no_key_inside h.qinv he hx1 (by omega) hlt) id
        · exact hge
      · intro x hx; exact h.emax x (mem_qdel.mp hx).1
      · intro p hp1 hp2
        simp only at hp1 ⊢
        rw [h.tile p (by omega) hp2]
        have : inEntry (qdel s.queue s.readPos) p ↔ inEntry s.queue p := by
          constructor
          · intro hc; exact hc.sublist (qdel_sublist _ _)
          · rintro ⟨y, hy, h1, h2⟩
            refine ⟨y, mem_qdel.mpr ⟨hy, ?_⟩, h1, h2⟩
            intro hk
            have := h.qinv.eq_of_key hy he hk
            subst this
            simp only [elen] at h2
            omega
        rw [this]
      · intro x hx; exact h.data x (mem_qdel.mp hx).1

/-- the offsets at or above `readPos` that were received and not yet handed to the reader -/
def received (s : Sorter) (p : Nat) : Prop := s.readPos ≤ p ∧ p < maxByteCount ∧ ¬ inGap s.gaps p

/-- under the invariant every received offset is held by a queued frame with the source byte -/
theorem received_byte {src : Nat → UInt8} {s : Sorter} (h : Inv src s) {p : Nat} (hp : received s p) :
    ∃ x ∈ s.queue, x.1 ≤ p ∧ p < x.1 + elen x ∧ x.2.data[p - x.1]? = some (src p) := by
  obtain ⟨x, hx, h1, h2⟩ := h.cov hp.1 hp.2.1 hp.2.2
  refine ⟨x, hx, h1, h2, ?_⟩
  have := h.data x hx (p - x.1) (by omega)
  rw [this]
  congr 2; omega

/-- `frameSorter.Push` (duplicates are not an error; their buffer is released at once) -/
structure PushSpec (src : Nat → UInt8) (s : Sorter) (off len : Nat) (cb : Option Nat) (r : PushOut) : Prop where
  res : r.res = .ok ∨ r.res = .tooManyGaps
  rp : r.s.readPos = s.readPos
  gwf : GapsWF r.s.gaps
  /-- the gaps are the old gaps minus the segment: `abs s' = abs s ∪ segment` -/
  gaps : ∀ p, inGap r.s.gaps p ↔ (inGap s.gaps p ∧ ¬(off ≤ p ∧ p < off + len))
  inv : r.res = .ok → Inv src r.s
  /-- every buffer that was queued or arrived is afterwards queued or released, exactly once -/
  bufs : r.res = .ok → (r.done ++ cbsOf r.s.queue).Perm (cbList cb ++ cbsOf s.queue)
  bufs_err : r.res = .tooManyGaps → ∃ lost, (r.done ++ cbsOf r.s.queue ++ lost).Perm (cbList cb ++ cbsOf s.queue)
  limit : r.res = .tooManyGaps → r.s.gaps.length > maxStreamFrameSorterGaps
  limit_ok : r.res = .ok → r.s.gaps = s.gaps ∨ r.s.gaps.length ≤ maxStreamFrameSorterGaps

theorem push_spec {src : Nat → UInt8} {s : Sorter} (h : Inv src s) (data : Bytes) (off : Nat) (cb : Option Nat)
    (hmax : off + data.length < maxByteCount) (hsrc : ∀ j, j < data.length → data[j]? = some (src (off + j))) :
    PushSpec src s off data.length cb (s.push data off cb) := by
  unfold Sorter.push
  have hspec := pushInner_spec h data off cb hmax hsrc
  generalize s.pushInner data off cb = r at hspec ⊢
  obtain ⟨rs, rres, rdone⟩ := r
  simp only
  rcases hspec with hd | hn
  · have h1 : rres = .dup := hd.res
    have h2 : rs = s := hd.st
    have h3 : rdone = [] := hd.done
    subst h1 h2 h3
    simp only [List.nil_append]
    refine ⟨Or.inl rfl, rfl, h.gwf, ?_, fun _ => h, fun _ => List.Perm.refl _, (by intro hc; cases hc),
      (by intro hc; cases hc), fun _ => Or.inl rfl⟩
    intro p
    constructor
    · intro hp; exact ⟨hp, fun hc => hd.old p hc.1 hc.2 hp⟩
    · intro hp; exact hp.1
  · rcases hn.res with ⟨hr, hl⟩ | ⟨hr, hl⟩
    · have hr' : rres = .ok := hr
      subst hr'
      simp only
      exact ⟨Or.inl rfl, hn.rp, hn.gwf, hn.gaps, hn.inv, hn.bufs, hn.bufs_err, (by intro hc; cases hc),
        fun _ => Or.inr hl⟩
    · have hr' : rres = .tooManyGaps := hr
      subst hr'
      simp only
      exact ⟨Or.inr rfl, hn.rp, hn.gwf, hn.gaps, hn.inv, hn.bufs, hn.bufs_err, fun _ => hl,
        (by intro hc; cases hc)⟩

/-! ### Peek -/

theorem srcSeg_zero (src : Nat → UInt8) (off : Nat) : srcSeg src off 0 = [] := by simp [srcSeg]

theorem srcSeg_take (src : Nat → UInt8) (off len n : Nat) (h : n ≤ len) : (srcSeg src off len).take n = srcSeg src off n := by
  apply List.ext_getElem?
  intro j
  rcases Nat.lt_or_ge j n with hlt | hge
  · rw [List.getElem?_take_of_lt hlt, srcSeg_get _ _ _ _ (by omega), srcSeg_get _ _ _ _ hlt]
  · rw [List.getElem?_eq_none (by simp [srcSeg_length]; omega), List.getElem?_eq_none (by rw [srcSeg_length]; exact hge)]

theorem peekCopy_zero (fuel : Nat) (q : Queue) (pos : Nat) : peekCopy fuel q pos 0 = [] := by
  cases fuel <;> simp [peekCopy]

/-- what `Peek` copies is the source -/
theorem peek_loops {src : Nat → UInt8} {q : Queue}     (hdata : ∀ x ∈ q, ∀ j, j < elen x → x.2.data[j]? = some (src (x.1 + j)))
    (fuel pos n : Nat) (h : peekCheck fuel q pos n = true) : peekCopy fuel q pos n = srcSeg src pos n := by
  induction fuel generalizing pos n with
  | zero => simp [peekCheck] at h
  | succ f ih =>
    simp only [peekCheck] at h
    simp only [peekCopy]
    by_cases hn : n = 0
    · subst hn; simp [srcSeg_zero]
    · simp only [hn, if_false] at h ⊢
      cases hg : qget q pos with
      | none => simp [hg] at h
      | some e =>
        simp only [hg] at h ⊢
        have he := mem_of_qget hg
        have hed : e.data = srcSeg src pos e.data.length := eq_srcSeg (hdata _ he)
        by_cases hle : n ≤ e.data.length
        · have hlen : (e.data.take n).length = n := by simp [List.length_take]; omega
          rw [hlen, Nat.sub_self, peekCopy_zero, List.append_nil, hed, srcSeg_take _ _ _ _ hle]
        · simp only [hle, if_false] at h
          have hlen : (e.data.take n).length = e.data.length := by simp [List.length_take]; omega
          have htake : e.data.take n = e.data := List.take_of_length_le (by omega)
          rw [hlen, htake, ih _ _ h]
          have : srcSeg src pos n = srcSeg src pos (e.data.length + (n - e.data.length)) := by congr 1; omega
          rw [this, ← srcSeg_append, ← hed]

/-- `Peek(offset, p)` never changes the sorter (it is a function of the state) and, when it succeeds,
fills `p` with the source bytes `[offset, offset + len(p))`. -/
theorem peek_spec {src : Nat → UInt8} {s : Sorter} (h : Inv src s) (off n : Nat) (d : Bytes) (hp : s.peek off n = some d) :
    d = srcSeg src off n := by
  unfold Sorter.peek at hp
  split at hp
  · rename_i hn; subst hn; cases hp; simp [srcSeg_zero]
  · split at hp
    · rename_i hc
      cases hp
      exact peek_loops h.data _ _ _ hc
    · cases hp

/-! ### histories -/

/-- operations on a sorter: `Push` of the source segment `[off, off+len)` in a buffer with release
callback `cb`, and `Pop` -/
inductive SOp where
  | push (off len : Nat) (cb : Option Nat)
  | pop
deriving Repr

structure Hist where
  s : Sorter := {}
  /-- concatenation of everything `Pop` returned -/
  out : Bytes := []
  /-- `false` once `Push` failed (gap limit): the connection is closed, nothing happens any more -/
  alive : Bool := true
  /-- release callbacks fired by `Push` or handed to the reader by `Pop`, in order -/
  released : List Nat := []
  /-- ids of the buffers that were pushed -/
  pushed : List Nat := []

def stepOp (src : Nat → UInt8) (r : Hist) : SOp → Hist
  | .push off len cb =>
    if r.alive then
      let o := r.s.push (srcSeg src off len) off cb
      { r with s := o.s, alive := decide (o.res = .ok), released := r.released ++ o.done, pushed := r.pushed ++ cbList cb }
    else r
  | .pop =>
    if r.alive then
      match r.s.pop with
      | (s', .ok _ (some d) cb) => { r with s := s', out := r.out ++ d, released := r.released ++ cbList cb }
      | (s', .ok _ none _) => { r with s := s' }
      | (s', .panic) => { r with s := s', alive := false }
    else r

def runOps (src : Nat → UInt8) (ops : List SOp) : Hist := ops.foldl (stepOp src) {}

/-- every pushed segment lies inside the offset space -/
def InBounds : SOp → Prop
  | .push off len _ => off + len < maxByteCount
  | .pop => True

structure HistInv (src : Nat → UInt8) (r : Hist) : Prop where
  out : r.out = srcSeg src 0 r.s.readPos
  inv : r.alive = true → Inv src r.s
  bufs : ∃ lost, (r.released ++ cbsOf r.s.queue ++ lost).Perm r.pushed ∧ (r.alive = true → lost = [])

theorem step_inv {src : Nat → UInt8} {r : Hist} (h : HistInv src r) (op : SOp) (hop : InBounds op) :
    HistInv src (stepOp src r op) := by
  cases op with
  | push off len cb =>
    simp only [stepOp]
    split
    · rename_i hal
      have hI := h.inv hal
      have hsp := push_spec hI (srcSeg src off len) off cb (by rw [srcSeg_length]; exact hop)
        (fun j hj => srcSeg_get src off _ j (by rw [srcSeg_length] at hj; exact hj))
      rw [srcSeg_length] at hsp
      obtain ⟨lost, hperm, hlost⟩ := h.bufs
      have hl := hlost hal
      subst hl
      refine ⟨by simp only; rw [hsp.rp]; exact h.out, ?_, ?_⟩
      · intro ha
        simp only [decide_eq_true_eq] at ha
        exact hsp.inv ha
      · rcases hsp.res with hr | hr
        · refine ⟨[], ?_, fun _ => rfl⟩
          have hb := hsp.bufs hr
          apply List.perm_iff_count.mpr
          intro a
          have h1 := List.perm_iff_count.mp hperm a
          have h2 := List.perm_iff_count.mp hb a
          simp only [List.count_append, List.count_nil] at *
          omega
        · obtain ⟨lost, hb⟩ := hsp.bufs_err hr
          refine ⟨lost, ?_, ?_⟩
          · apply List.perm_iff_count.mpr
            intro a
            have h1 := List.perm_iff_count.mp hperm a
            have h2 := List.perm_iff_count.mp hb a
            simp only [List.count_append, List.count_nil] at *
            omega
          · intro ha
            simp only [decide_eq_true_eq] at ha
            rw [hr] at ha; cases ha
    · exact h
  | pop =>
    simp only [stepOp]
    split
    · rename_i hal
      have hI := h.inv hal
      obtain ⟨lost, hperm, hlost⟩ := h.bufs
      have hl := hlost hal
      subst hl
      rcases pop_spec hI with ⟨_, hp⟩ | ⟨e, he, hp, hdata, hpos, hI', hb⟩
      · rw [hp]
        exact ⟨h.out, h.inv, ⟨[], hperm, fun _ => rfl⟩⟩
      · rw [hp]
        simp only
        refine ⟨?_, fun _ => hI', ⟨[], ?_, fun _ => rfl⟩⟩
        · have : r.out ++ e.data = srcSeg src 0 r.s.readPos ++ srcSeg src (0 + r.s.readPos) e.data.length := by
            rw [h.out, Nat.zero_add, ← hdata]
          rw [this, srcSeg_append]
        · apply List.perm_iff_count.mpr
          intro a
          have h1 := List.perm_iff_count.mp hperm a
          have h2 := List.perm_iff_count.mp hb a
          simp only [List.count_append, List.count_nil] at *
          omega
    · exact h

theorem run_inv_foldl {src : Nat → UInt8} (ops : List SOp) (r : Hist) (h : HistInv src r) (hops : ∀ op ∈ ops, InBounds op) :
    HistInv src (ops.foldl (stepOp src) r) := by
  induction ops generalizing r with
  | nil => exact h
  | cons op ops ih =>
    simp only [List.foldl_cons]
    exact ih _ (step_inv h op (hops op (by simp))) (fun o ho => hops o (List.mem_cons_of_mem _ ho))

theorem run_inv (src : Nat → UInt8) (ops : List SOp) (hops : ∀ op ∈ ops, InBounds op) : HistInv src (runOps src ops) :=
  run_inv_foldl ops {} ⟨by simp [srcSeg], fun _ => inv_init src, ⟨[], by simp [cbsOf], fun _ => rfl⟩⟩ hops

end Uquic.Proofs.Sorter
