/-
C10 helper: observe ∘ serialise.  The observer (`Spec.Observe.observe`) applied to the bytes the model
lays out for a long header (`Model.Initial.Hdr.bytes`) followed by any payload returns exactly the
fields that were serialised.
-/
import Uquic.Proofs.InitialBytes

namespace Uquic.Proofs.Initial
open Uquic.Model.Initial Uquic.Spec.Observe

theorem take_append_len {α} (a b : List α) (n : Nat) (h : a.length = n) : (a ++ b).take n = a := by
  subst h; simp

theorem drop_append_len {α} (a b : List α) (n : Nat) (h : a.length = n) : (a ++ b).drop n = b := by
  subst h; simp

theorem firstByte_div (pnLen : Nat) (hp : 1 ≤ pnLen ∧ pnLen ≤ 4) : firstByte pnLen / 64 = 3 := by
  unfold firstByte; omega

theorem firstByte_mod (pnLen : Nat) (hp : 1 ≤ pnLen ∧ pnLen ≤ 4) : firstByte pnLen % 4 + 1 = pnLen := by
  unfold firstByte; omega

theorem lenW_eq : lenW = 2 := by decide
theorem lenWGetLength_eq : lenWGetLength = 2 := by decide
theorem tagLen_eq : tagLen = 16 := rfl

theorem observe5_bytes (fb version : Nat) (dcid scid token : List Nat) (tw len pnLen pn dl : Nat) (payload : List Nat)
    (hfb : fb % 4 + 1 = pnLen) (hl : len < 16384) :
    observe5 fb version dcid scid tw token (varintBytesW lenW len ++ (beBytes pnLen pn ++ payload)) dl =
      some { firstByte := fb, version := version, dcidLen := dcid.length, dcid := dcid, scidLen := scid.length, scid := scid,
             tokenLenWidth := tw, token := token, lengthField := len, lengthVarintWidth := 2,
             pnLen := pnLen, pn := pn % 256 ^ pnLen,
             headerLen := 1 + 4 + 1 + dcid.length + 1 + scid.length + tw + token.length + 2 + pnLen,
             payloadLen := payload.length, frames := parseFrames (payload.length + 1) payload,
             packetLen := 1 + 4 + 1 + dcid.length + 1 + scid.length + tw + token.length + 2 + pnLen - pnLen + len,
             datagramLen := dl,
             trailingBytes := dl - (1 + 4 + 1 + dcid.length + 1 + scid.length + tw + token.length + 2 + pnLen - pnLen + len) } := by
  unfold observe5
  rw [lenW_eq, readVarint_varintBytesW 2 len _ (by simp) (by simp; omega)]
  simp only [hfb]
  have hlen : ¬ (beBytes pnLen pn ++ payload).length < pnLen := by simp [beBytes_length]
  rw [if_neg hlen, take_append_len _ _ _ (beBytes_length _ _), drop_append_len _ _ _ (beBytes_length _ _), beNat_beBytes]

theorem observe4_bytes (fb version : Nat) (dcid scid token : List Nat) (rest : List Nat) (dl : Nat)
    (ht : token.length < 4611686018427387904) :
    observe4 fb version dcid scid (varintBytes token.length ++ (token ++ rest)) dl =
      observe5 fb version dcid scid (varintLen token.length) token rest dl := by
  unfold observe4
  rw [readVarint_varintBytes _ _ ht]
  have hlen : ¬ (token ++ rest).length < token.length := by simp
  simp only [if_neg hlen, take_append_len _ _ _ rfl, drop_append_len _ _ _ rfl]

theorem observe3_bytes (fb version : Nat) (dcid scid : List Nat) (rest : List Nat) (dl : Nat)
    (hs : scid.length ≤ 20) :
    observe3 fb version dcid scid.length (scid ++ rest) dl = observe4 fb version dcid scid rest dl := by
  unfold observe3
  have hc : ¬ (scid.length > 20 ∨ (scid ++ rest).length < scid.length) := by simp; omega
  simp only [if_neg hc, take_append_len _ _ _ rfl, drop_append_len _ _ _ rfl]

theorem observe2_bytes (fb version : Nat) (dcid : List Nat) (sl : Nat) (rest : List Nat) (dl : Nat)
    (hd : dcid.length ≤ 20) :
    observe2 fb version dcid.length (dcid ++ (sl :: rest)) dl = observe3 fb version dcid sl rest dl := by
  unfold observe2
  have hc : ¬ (dcid.length > 20 ∨ (dcid ++ sl :: rest).length < dcid.length + 1) := by simp; omega
  have h1 : (dcid ++ sl :: rest).drop (dcid.length + 1) = rest := by
    rw [show dcid ++ sl :: rest = (dcid ++ [sl]) ++ rest by simp]
    exact drop_append_len _ _ _ (by simp)
  simp only [if_neg hc, take_append_len _ _ _ rfl, drop_append_len _ _ _ rfl, List.headD_cons, h1]

/-- the observer's view of a serialised header followed by `payload` -/
def viewOf (h : Hdr) (len : Nat) (payload : List Nat) (dl : Nat) : View :=
  { firstByte := firstByte h.pnLen, version := h.version, dcidLen := h.dcid.length, dcid := h.dcid,
    scidLen := h.scid.length, scid := h.scid, tokenLenWidth := varintLen h.token.length, token := h.token,
    lengthField := len, lengthVarintWidth := 2, pnLen := h.pnLen, pn := h.pn % 256 ^ h.pnLen,
    headerLen := h.len, payloadLen := payload.length, frames := parseFrames (payload.length + 1) payload,
    packetLen := h.len - h.pnLen + len, datagramLen := dl, trailingBytes := dl - (h.len - h.pnLen + len) }

theorem hdrLen_eq (h : Hdr) :
    h.len = 1 + 4 + 1 + h.dcid.length + 1 + h.scid.length + varintLen h.token.length + h.token.length + 2 + h.pnLen := by
  unfold Hdr.len hdrLen; rw [lenWGetLength_eq]; omega

theorem observe_cons (fb version dlb : Nat) (tail : List Nat) (dl : Nat)
    (hfb : fb / 64 = 3) (hv : version < 4294967296) :
    observe (fb :: (beBytes 4 version ++ (dlb :: tail))) dl = observe2 fb version dlb tail dl := by
  unfold observe
  simp only []
  rw [if_neg (by rw [hfb]; simp)]
  have hlen : ¬ (beBytes 4 version ++ (dlb :: tail)).length < 5 := by
    simp [beBytes_length]; omega
  have h5 : (beBytes 4 version ++ (dlb :: tail)).drop 5 = tail := by
    rw [show beBytes 4 version ++ (dlb :: tail) = (beBytes 4 version ++ [dlb]) ++ tail by simp]
    exact drop_append_len _ _ _ (by simp [beBytes_length])
  rw [if_neg hlen, take_append_len _ _ 4 (beBytes_length _ _), drop_append_len _ _ 4 (beBytes_length _ _),
      h5, List.headD_cons, beNat_beBytes_of_lt 4 _ (by simpa using hv)]

theorem observe_bytes (h : Hdr) (len : Nat) (payload : List Nat) (dl : Nat)
    (hv : h.version < 4294967296) (hd : h.dcid.length ≤ 20) (hs : h.scid.length ≤ 20)
    (ht : h.token.length < 4611686018427387904) (hp : 1 ≤ h.pnLen ∧ h.pnLen ≤ 4) (hl : len < 16384) :
    observe (h.bytes len ++ payload) dl = some (viewOf h len payload dl) := by
  unfold Hdr.bytes
  simp only [List.append_assoc, List.cons_append, List.nil_append, List.singleton_append]
  rw [observe_cons _ _ _ _ _ (firstByte_div _ hp) hv,
      observe2_bytes _ _ _ _ _ _ hd, observe3_bytes _ _ _ _ _ _ hs, observe4_bytes _ _ _ _ _ _ _ ht,
      observe5_bytes _ _ _ _ _ _ _ _ _ _ _ (firstByte_mod _ hp) hl]
  simp only [viewOf, hdrLen_eq]

end Uquic.Proofs.Initial
