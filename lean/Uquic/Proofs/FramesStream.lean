/-
C09 helper lemmas: crypto_stream.go — the default splitter (baseCryptoStream.PopCryptoFrame) and
the ClientHello scrambler (initialCryptoStream.PopCryptoFrame) release every byte exactly at its
true offset, for every sequence of budgets.
-/
import Uquic.Model.UQuic.Scrambler

namespace Uquic.Proofs.Stream
open Uquic.Model.UQuic.Frames Uquic.Model.UQuic.Scrambler

theorem invalid_eq : invalid = -1 := by decide

/-- operations on the send side of a crypto stream -/
inductive SOp where
  | write (p : List UInt8) (env : Sni)
  | pop (maxLen : Int)

/-- run a history, collecting the frames; `none` = a panic -/
def runOps : CS → List SOp → List (Int × List UInt8) → Option (CS × List (Int × List UInt8))
  | s, [], acc => some (s, acc)
  | s, .write p env :: ops, acc => runOps (write s p env).1 ops acc
  | s, .pop m :: ops, acc =>
    match pop s m with
    | (s', .frame none) => runOps s' ops acc
    | (s', .frame (some f)) => runOps s' ops (acc ++ [f])
    | (_, .panic) => none

/-- all bytes written by a history -/
def written : List SOp → List UInt8
  | [] => []
  | .write p _ :: ops => p ++ written ops
  | .pop _ :: ops => written ops

/-- the frame carries the stream bytes of its offset -/
def Truthful (W : List UInt8) (f : Int × List UInt8) : Prop :=
  0 ≤ f.1 ∧ f.2 ≠ [] ∧ f.1.toNat + f.2.length ≤ W.length ∧ (W.drop f.1.toNat).take f.2.length = f.2

def Covered (fs : List (Int × List UInt8)) (i : Int) : Prop :=
  ∃ f ∈ fs, f.1 ≤ i ∧ i < f.1 + f.2.length

theorem Truthful.mono {W : List UInt8} {f : Int × List UInt8} (h : Truthful W f) (p : List UInt8) :
    Truthful (W ++ p) f := by
  obtain ⟨h1, h2, h3, h4⟩ := h
  refine ⟨h1, h2, by simp; omega, ?_⟩
  rw [List.drop_append_of_le_length (by omega), List.take_append_of_le_length (by simp; omega)]
  exact h4

theorem Covered.mono {fs : List (Int × List UInt8)} {i : Int} (h : Covered fs i) (g : List (Int × List UInt8)) :
    Covered (fs ++ g) i := by
  obtain ⟨f, hf, h1, h2⟩ := h
  exact ⟨f, List.mem_append_left _ hf, h1, h2⟩

/-! ### default splitter -/

/-- plain (unscrambled) stream: the buffer is the unsent tail of everything written -/
structure BaseInv (s : CS) (W : List UInt8) : Prop where
  plain : (!s.initial || !s.scramble) = true
  woNonneg : 0 ≤ s.writeOffset
  woLe : s.writeOffset ≤ W.length
  buf : s.buf = W.drop s.writeOffset.toNat

theorem BaseInv.afterWrite {s : CS} {W : List UInt8} (h : BaseInv s W) (p : List UInt8) (env : Sni) :
    BaseInv (write s p env).1 (W ++ p) := by
  have hp := h.plain
  have e : write s p env = ({ s with buf := s.buf ++ p }, false) := by
    unfold write; simp only []; rw [if_pos hp]
  rw [e]
  refine ⟨hp, h.woNonneg, by have := h.woLe; simp; omega, ?_⟩
  simp only []
  rw [h.buf, List.drop_append_of_le_length (by have := h.woLe; have := h.woNonneg; omega)]

theorem basePop_spec {s : CS} {W : List UInt8} (h : BaseInv s W) (m : Int) :
    (basePop s m = (s, none)) ∨
    ∃ n : Nat, 0 < n ∧ basePop s m = ({ s with buf := s.buf.drop n, writeOffset := s.writeOffset + n },
        some (s.writeOffset, s.buf.take n)) ∧ s.writeOffset.toNat + n ≤ W.length := by
  unfold basePop
  simp only []
  split
  · exact Or.inl rfl
  · rename_i hn
    refine Or.inr ⟨(min (maxDataLen s.writeOffset m) s.buf.length).toNat, by omega, ?_, ?_⟩
    · have : ((min (maxDataLen s.writeOffset m) (s.buf.length : Int)).toNat : Int) = min (maxDataLen s.writeOffset m) s.buf.length := by omega
      rw [this]
    · have := h.buf
      have hl : s.buf.length = W.length - s.writeOffset.toNat := by rw [this]; simp
      have := h.woLe; have := h.woNonneg
      omega

/-- what a run of a plain stream guarantees (frames collected in `acc`, everything below `lo` is
    somebody else's business) -/
structure BaseRun (lo : Int) (s : CS) (W : List UInt8) (acc : List (Int × List UInt8)) : Prop where
  inv : BaseInv s W
  truthful : ∀ f ∈ acc, Truthful W f
  cover : ∀ i, lo ≤ i → i < s.writeOffset → Covered acc i

theorem BaseRun.pop {lo : Int} {s : CS} {W : List UInt8} {acc : List (Int × List UInt8)}
    (h : BaseRun lo s W acc) (m : Int) :
    (basePop s m = (s, none)) ∨
    ∃ s' f, basePop s m = (s', some f) ∧ BaseRun lo s' W (acc ++ [f]) := by
  rcases basePop_spec h.inv m with he | ⟨n, hn, he, hle⟩
  · exact Or.inl he
  · refine Or.inr ⟨_, _, he, ?_⟩
    have hb := h.inv.buf
    have h0 := h.inv.woNonneg
    have hlen : (s.buf.take n).length = n := by
      rw [hb]; simp; omega
    have tf : Truthful W (s.writeOffset, s.buf.take n) := by
      refine ⟨h0, ?_, by simp only [hlen]; omega, ?_⟩
      · intro hnil; simp only [] at hnil; rw [hnil] at hlen; simp at hlen; omega
      · simp only [hlen]; rw [hb]
    refine ⟨⟨h.inv.plain, by simp only []; omega, by simp only []; omega, ?_⟩, ?_, ?_⟩
    · simp only []
      rw [hb, List.drop_drop]
      congr 1; omega
    · intro f hf
      rcases List.mem_append.mp hf with hf | hf
      · exact h.truthful f hf
      · simp only [List.mem_singleton] at hf; subst hf; exact tf
    · intro i h1 h2
      simp only [] at h2
      by_cases hi : i < s.writeOffset
      · exact (h.cover i h1 hi).mono _
      · exact ⟨(s.writeOffset, s.buf.take n), by simp, by simp only []; omega, by simp only [hlen]; omega⟩

theorem pop_plain {s : CS} (hp : (!s.initial || !s.scramble) = true) (m : Int) :
    pop s m = ((basePop s m).1, .frame (basePop s m).2) := by
  unfold pop; rw [if_pos hp]

/-- Default splitter: for every history of writes and pops of a plain stream no panic occurs,
    every frame carries the written bytes of its offset, and the frames cover everything between the
    initial and the final write offset — all of the stream once the buffer is empty. -/
theorem baseRun_ops : ∀ (ops : List SOp) (lo : Int) (s : CS) (W : List UInt8) (acc : List (Int × List UInt8)),
    BaseRun lo s W acc →
    ∃ s' acc', runOps s ops acc = some (s', acc') ∧ BaseRun lo s' (W ++ written ops) acc' := by
  intro ops
  induction ops with
  | nil => intro lo s W acc h; exact ⟨s, acc, rfl, by simpa [written] using h⟩
  | cons op ops ih =>
    intro lo s W acc h
    cases op with
    | write p env =>
      have h' : BaseRun lo (write s p env).1 (W ++ p) acc := by
        refine ⟨h.inv.afterWrite p env, fun f hf => (h.truthful f hf).mono p, ?_⟩
        intro i h1 h2
        have e : (write s p env).1.writeOffset = s.writeOffset := by
          have hp := h.inv.plain
          unfold write; simp only []; rw [if_pos hp]
        rw [e] at h2
        exact h.cover i h1 h2
      obtain ⟨s', acc', h1, h2⟩ := ih lo _ _ acc h'
      exact ⟨s', acc', by simpa [runOps] using h1, by simpa [written, List.append_assoc] using h2⟩
    | pop m =>
      simp only [runOps, written]
      rw [pop_plain h.inv.plain]
      rcases h.pop m with he | ⟨s1, f, he, h1⟩
      · rw [he]; simp only []; exact ih lo s W acc h
      · rw [he]; simp only []; exact ih lo s1 W _ h1

theorem BaseInv.drained {s : CS} {W : List UInt8} (h : BaseInv s W) (he : s.buf = []) :
    s.writeOffset = W.length := by
  have := h.buf; rw [he] at this
  have hl := congrArg List.length this
  simp at hl
  have := h.woLe; have := h.woNonneg
  omega

/-! ### the scrambler -/

/-- a cut is unset, or lies inside `[0,E]` -/
def CutOk (cs ce : Int) (E : Nat) : Prop := cs = -1 ∨ (0 ≤ cs ∧ cs ≤ ce ∧ ce ≤ E)

def InCut (cs ce i : Int) : Prop := cs ≠ -1 ∧ cs ≤ i ∧ i < ce

/-- scrambling in progress: the buffer is still the whole stream, and every byte of the ClientHello
    `[0,E)` has been released already, or lies at/after the write offset, or inside a remaining cut -/
structure ScrInv (s : CS) (W : List UInt8) (E : Nat) (acc : List (Int × List UInt8)) : Prop where
  initial : s.initial = true
  scramble : s.scramble = true
  «end» : s.«end» = E
  buf : s.buf = W
  eLe : E ≤ W.length
  woNonneg : 0 ≤ s.writeOffset
  woLe : s.writeOffset ≤ E
  cut0 : CutOk s.c0s s.c0e E
  cut1 : CutOk s.c1s s.c1e E
  truthful : ∀ f ∈ acc, Truthful W f
  sched : ∀ i : Int, 0 ≤ i → i < E →
    Covered acc i ∨ s.writeOffset ≤ i ∨ InCut s.c0s s.c0e i ∨ InCut s.c1s s.c1e i

/-- scrambling is over: a plain stream whose write offset is the end of the ClientHello, all of
    which has been released -/
structure ScrDone (s : CS) (W : List UInt8) (E : Nat) (acc : List (Int × List UInt8)) : Prop where
  run : BaseRun 0 s W acc
  wo : s.writeOffset = E

theorem goSlice_ok {b : List UInt8} {lo hi : Int} (h0 : 0 ≤ lo) (h1 : lo ≤ hi) (h2 : hi ≤ b.length) :
    goSlice b lo hi = some ((b.drop lo.toNat).take (hi - lo).toNat) := by
  unfold goSlice; rw [if_neg (by omega)]

theorem truthful_slice {W : List UInt8} {lo : Int} {n : Int} (h0 : 0 ≤ lo) (hn : 0 < n) (h2 : lo + n ≤ W.length) :
    Truthful W (lo, (W.drop lo.toNat).take (lo + n - lo).toNat) ∧
      ((W.drop lo.toNat).take (lo + n - lo).toNat).length = n.toNat := by
  have hl : ((W.drop lo.toNat).take (lo + n - lo).toNat).length = n.toNat := by
    simp; omega
  refine ⟨⟨h0, ?_, by simp only [hl]; omega, by simp only [hl]; congr 1; omega⟩, hl⟩
  intro hnil; simp only [] at hnil; rw [hnil] at hl; simp at hl; omega

/-- finishing: `s.writeBuf = s.writeBuf[s.end:]`, scrambling off -/
theorem finish_done {s : CS} {W : List UInt8} {E : Nat} {acc : List (Int × List UInt8)}
    (hb : s.buf = W) (he : s.«end» = E) (hE : E ≤ W.length) (hw : s.writeOffset = E)
    (ht : ∀ f ∈ acc, Truthful W f) (hc : ∀ i : Int, 0 ≤ i → i < E → Covered acc i) :
    ∃ b, goSlice s.buf s.«end» s.buf.length = some b ∧
      ScrDone { s with buf := b, «end» := invalid, scramble := false } W E acc := by
  refine ⟨_, goSlice_ok (by omega) (by rw [he, hb]; omega) (Int.le_refl _), ?_⟩
  refine ⟨⟨⟨by simp, by simp only []; omega, by simp only []; omega, ?_⟩, ht, ?_⟩, hw⟩
  · simp only [he, hb, hw]
    rw [List.take_of_length_le (by simp)]
  · intro i h1 h2; simp only [hw] at h2; exact hc i h1 h2

/-- outcome of one scrambler pop -/
def PopGood (W : List UInt8) (E : Nat) (acc : List (Int × List UInt8)) : CS × PopOut → Prop
  | (s', .frame none) => ScrInv s' W E acc ∨ ScrDone s' W E acc
  | (s', .frame (some f)) => ScrInv s' W E (acc ++ [f]) ∨ ScrDone s' W E (acc ++ [f])
  | (_, .panic) => False

theorem sched_append {s : CS} {W : List UInt8} {E : Nat} {acc : List (Int × List UInt8)}
    (h : ScrInv s W E acc) (f : Int × List UInt8) (i : Int) (h0 : 0 ≤ i) (h1 : i < E) :
    Covered (acc ++ [f]) i ∨ s.writeOffset ≤ i ∨ InCut s.c0s s.c0e i ∨ InCut s.c1s s.c1e i := by
  rcases h.sched i h0 h1 with h | h | h | h
  · exact Or.inl (h.mono _)
  · exact Or.inr (Or.inl h)
  · exact Or.inr (Or.inr (Or.inl h))
  · exact Or.inr (Or.inr (Or.inr h))

/-- phase 1 for an abstract "next cut" `(ns, ne)`, `mo` = maxOffset, `n` = the frame length -/
theorem pop_phase1 {s : CS} {W : List UInt8} {E : Nat} {acc : List (Int × List UInt8)}
    (h : ScrInv s W E acc) (ns ne mo n : Int)
    (hnext : ns = -1 ∨ (s.writeOffset < ns ∧ ns ≤ ne ∧ ne ≤ E ∧
      ∀ i : Int, ns ≤ i → i < ne → InCut s.c0s s.c0e i ∨ InCut s.c1s s.c1e i))
    (hlt : s.writeOffset < E) (hmo : mo = if ns = -1 then (E : Int) else ns) (hn : n ≤ mo - s.writeOffset) :
    PopGood W E acc
      (if n ≤ 0 then (s, .frame none)
       else
         match goSlice s.buf s.writeOffset (s.writeOffset + n) with
         | none => (s, .panic)
         | some data =>
           ({ s with writeOffset := if s.writeOffset + n = ns then ne else s.writeOffset + n },
            .frame (some (s.writeOffset, data)))) := by
  have h0 := h.woNonneg
  have hE := h.eLe
  have hend := h.«end»
  have hbuf := h.buf
  by_cases hn0 : n ≤ 0
  · rw [if_pos hn0]; exact Or.inl h
  · rw [if_neg hn0]
    have hmax : mo ≤ E := by
      rw [hmo]; split
      · omega
      · rcases hnext with h1 | h1 <;> omega
    have hle : s.writeOffset + n ≤ W.length := by omega
    rw [goSlice_ok h0 (by omega) (by rw [hbuf]; exact hle), hbuf]
    obtain ⟨tf, hl⟩ := truthful_slice h0 (by omega) hle
    simp only []
    refine Or.inl ⟨h.initial, h.scramble, hend, rfl, hE, ?_, ?_, h.cut0, h.cut1, ?_, ?_⟩
    · simp only []; split <;> rcases hnext with h1 | h1 <;> omega
    · simp only []; split <;> rcases hnext with h1 | h1 <;> (try (rw [if_pos h1] at hmo)) <;> omega
    · intro f hf
      rcases List.mem_append.mp hf with hf | hf
      · exact h.truthful f hf
      · simp only [List.mem_singleton] at hf; subst hf; exact tf
    · intro i hi0 hiE
      simp only []
      rcases h.sched i hi0 hiE with hc | hc | hc | hc
      · exact Or.inl (hc.mono _)
      · by_cases hin : i < s.writeOffset + n
        · exact Or.inl ⟨_, List.mem_append_right _ (List.mem_singleton.mpr rfl), hc, by simp only [hl]; omega⟩
        · split
          · rename_i hjump
            rcases hnext with h1 | ⟨_, h2, h3, h4⟩
            · omega
            · by_cases hne : i < ne
              · rcases h4 i (by omega) hne with hx | hx
                · exact Or.inr (Or.inr (Or.inl hx))
                · exact Or.inr (Or.inr (Or.inr hx))
              · exact Or.inr (Or.inl (by omega))
          · exact Or.inr (Or.inl (by omega))
      · exact Or.inr (Or.inr (Or.inl hc))
      · exact Or.inr (Or.inr (Or.inr hc))

theorem pop_scr {s : CS} {W : List UInt8} {E : Nat} {acc : List (Int × List UInt8)}
    (h : ScrInv s W E acc) (m : Int) : PopGood W E acc (pop s m) := by
  have hi := h.initial
  have hs := h.scramble
  have hend := h.«end»
  have hbuf := h.buf
  have hE := h.eLe
  have h0 := h.woNonneg
  have hwle := h.woLe
  unfold pop
  rw [if_neg (by simp [hi, hs])]
  by_cases hph : s.writeOffset = s.«end»
  · rw [if_pos hph]
    have hw : s.writeOffset = E := by omega
    by_cases hc0 : s.c0s = invalid
    · by_cases hc1 : s.c1s = invalid
      · -- no cuts left: done
        have e0 : ¬ (s.c0s ≠ invalid) := by simp [hc0]
        have e1 : ¬ (s.c1s ≠ invalid) := by simp [hc1]
        simp only []
        rw [if_neg e0, if_neg e1]
        simp only []
        have hcov : ∀ i : Int, 0 ≤ i → i < E → Covered acc i := by
          intro i hi0 hiE
          rcases h.sched i hi0 hiE with hc | hc | hc | hc
          · exact hc
          · omega
          · exact absurd (by rw [← invalid_eq]; exact hc0) hc.1
          · exact absurd (by rw [← invalid_eq]; exact hc1) hc.1
        obtain ⟨b, hb, hd⟩ := finish_done hbuf hend hE hw h.truthful hcov
        rw [hb]
        exact Or.inr hd
      · -- only the second cut is left
        have e0 : ¬ (s.c0s ≠ invalid) := by simp [hc0]
        simp only []
        rw [if_neg e0, if_pos hc1]
        simp only []
        have hcut : 0 ≤ s.c1s ∧ s.c1s ≤ s.c1e ∧ s.c1e ≤ E := by
          rcases h.cut1 with hx | hx
          · rw [invalid_eq] at hc1; exact absurd hx hc1
          · exact hx
        generalize hn : min (maxDataLen s.c1s m) (s.c1e - s.c1s) = n
        have hnle : n ≤ s.c1e - s.c1s := by omega
        by_cases hn0 : n ≤ 0
        · rw [if_pos hn0]; exact Or.inl h
        · rw [if_neg hn0]
          have hle : s.c1s + n ≤ W.length := by omega
          rw [goSlice_ok hcut.1 (by omega) (by rw [hbuf]; exact hle), hbuf]
          obtain ⟨tf, hl⟩ := truthful_slice hcut.1 (by omega) hle
          simp only []
          have htr : ∀ f ∈ acc ++ [(s.c1s, List.take (s.c1s + n - s.c1s).toNat (List.drop s.c1s.toNat W))], Truthful W f := by
            intro f hf
            rcases List.mem_append.mp hf with hf | hf
            · exact h.truthful f hf
            · simp only [List.mem_singleton] at hf; subst hf; exact tf
          by_cases hcons : s.c1s + n = s.c1e
          · -- the cut is used up: finished
            simp only [hcons, if_true, decide_true, Bool.not_true, Bool.false_and, Bool.not_false, Bool.and_self]
            have hcov : ∀ i : Int, 0 ≤ i → i < E →
                Covered (acc ++ [(s.c1s, List.take (s.c1e - s.c1s).toNat (List.drop s.c1s.toNat W))]) i := by
              intro i hi0 hiE
              rcases h.sched i hi0 hiE with hc | hc | hc | hc
              · exact hc.mono _
              · omega
              · exact absurd (by rw [← invalid_eq]; exact hc0) hc.1
              · refine ⟨_, List.mem_append_right _ (List.mem_singleton.mpr rfl), hc.2.1, ?_⟩
                have := hc.2.2
                rw [hcons] at hl
                simp only [hl]; omega
            rw [hcons] at htr
            obtain ⟨b, hb, hd⟩ := finish_done (s := { s with c1s := invalid, c1e := invalid }) (acc := acc ++ [(s.c1s, List.take (s.c1e - s.c1s).toNat (List.drop s.c1s.toNat W))])
              hbuf hend hE hw htr hcov
            simp only [hbuf] at hb ⊢
            rw [hb]
            exact Or.inr hd
          · -- part of the cut remains
            simp only [hcons, if_false, decide_false, Bool.false_and, reduceIte, Bool.false_eq_true]
            refine Or.inl ⟨hi, hs, hend, rfl, hE, h0, hwle, h.cut0, Or.inr ⟨by simp only []; omega, by simp only []; omega, hcut.2.2⟩, htr, ?_⟩
            intro i hi0 hiE
            simp only []
            rcases h.sched i hi0 hiE with hc | hc | hc | hc
            · exact Or.inl (hc.mono _)
            · exact Or.inr (Or.inl hc)
            · exact Or.inr (Or.inr (Or.inl hc))
            · by_cases hin : i < s.c1s + n
              · exact Or.inl ⟨_, List.mem_append_right _ (List.mem_singleton.mpr rfl), hc.2.1, by simp only [hl]; omega⟩
              · exact Or.inr (Or.inr (Or.inr ⟨by omega, by omega, hc.2.2⟩))
    · -- the first cut is valid
      simp only []
      rw [if_pos hc0]
      simp only []
      have hcut : 0 ≤ s.c0s ∧ s.c0s ≤ s.c0e ∧ s.c0e ≤ E := by
        rcases h.cut0 with hx | hx
        · rw [invalid_eq] at hc0; exact absurd hx hc0
        · exact hx
      generalize hn : min (maxDataLen s.c0s m) (s.c0e - s.c0s) = n
      have hnle : n ≤ s.c0e - s.c0s := by omega
      by_cases hn0 : n ≤ 0
      · rw [if_pos hn0]; exact Or.inl h
      · rw [if_neg hn0]
        have hle : s.c0s + n ≤ W.length := by omega
        rw [goSlice_ok hcut.1 (by omega) (by rw [hbuf]; exact hle), hbuf]
        obtain ⟨tf, hl⟩ := truthful_slice hcut.1 (by omega) hle
        simp only []
        have htr : ∀ f ∈ acc ++ [(s.c0s, List.take (s.c0s + n - s.c0s).toNat (List.drop s.c0s.toNat W))], Truthful W f := by
          intro f hf
          rcases List.mem_append.mp hf with hf | hf
          · exact h.truthful f hf
          · simp only [List.mem_singleton] at hf; subst hf; exact tf
        by_cases hcons : s.c0s + n = s.c0e
        · by_cases hc1 : s.c1s = invalid
          · -- used up and no later cut: finished
            have hlv : decide (s.c1s ≠ invalid) = false := by simp [hc1]
            simp only [hcons, hlv, if_true, decide_true, Bool.not_false, Bool.true_and,
              Bool.and_self, reduceIte, Bool.false_eq_true]
            have hcov : ∀ i : Int, 0 ≤ i → i < E →
                Covered (acc ++ [(s.c0s, List.take (s.c0e - s.c0s).toNat (List.drop s.c0s.toNat W))]) i := by
              intro i hi0 hiE
              rcases h.sched i hi0 hiE with hc | hc | hc | hc
              · exact hc.mono _
              · omega
              · refine ⟨_, List.mem_append_right _ (List.mem_singleton.mpr rfl), hc.2.1, ?_⟩
                have := hc.2.2
                rw [hcons] at hl
                simp only [hl]; omega
              · exact absurd (by rw [← invalid_eq]; exact hc1) hc.1
            rw [hcons] at htr
            obtain ⟨b, hb, hd⟩ := finish_done (s := { s with c0s := invalid, c0e := invalid }) (acc := acc ++ [(s.c0s, List.take (s.c0e - s.c0s).toNat (List.drop s.c0s.toNat W))])
              hbuf hend hE hw htr hcov
            simp only [hbuf] at hb ⊢
            rw [hb]
            exact Or.inr hd
          · -- used up, the second cut is still to come
            have hlv : decide (s.c1s ≠ invalid) = true := by simp [hc1]
            simp only [hcons, hlv, if_true, decide_true, Bool.not_false, Bool.true_and,
              Bool.not_true, Bool.and_false, reduceIte, Bool.false_eq_true]
            refine Or.inl ⟨hi, hs, hend, rfl, hE, h0, hwle, Or.inl (by rw [← invalid_eq]), h.cut1, by rw [hcons] at htr; exact htr, ?_⟩
            intro i hi0 hiE
            simp only []
            rcases h.sched i hi0 hiE with hc | hc | hc | hc
            · exact Or.inl (hc.mono _)
            · exact Or.inr (Or.inl hc)
            · refine Or.inl ⟨_, List.mem_append_right _ (List.mem_singleton.mpr rfl), hc.2.1, ?_⟩
              have := hc.2.2
              rw [hcons] at hl
              simp only [hl]; omega
            · exact Or.inr (Or.inr (Or.inr hc))
        · -- part of the first cut remains
          simp only [hcons, if_false, decide_false, Bool.false_and, Bool.false_eq_true]
          refine Or.inl ⟨hi, hs, hend, rfl, hE, h0, hwle, Or.inr ⟨by simp only []; omega, by simp only []; omega, hcut.2.2⟩, h.cut1, htr, ?_⟩
          intro i hi0 hiE
          simp only []
          rcases h.sched i hi0 hiE with hc | hc | hc | hc
          · exact Or.inl (hc.mono _)
          · exact Or.inr (Or.inl hc)
          · by_cases hin : i < s.c0s + n
            · exact Or.inl ⟨_, List.mem_append_right _ (List.mem_singleton.mpr rfl), hc.2.1, by simp only [hl]; omega⟩
            · exact Or.inr (Or.inr (Or.inl ⟨by omega, by omega, hc.2.2⟩))
          · exact Or.inr (Or.inr (Or.inr hc))
  · rw [if_neg hph]
    have hlt : s.writeOffset < E := by omega
    by_cases hA : s.c0s ≠ invalid ∧ s.c0s > s.writeOffset
    · simp only []
      rw [if_pos hA]
      have hcut : 0 ≤ s.c0s ∧ s.c0s ≤ s.c0e ∧ s.c0e ≤ E := by
        rcases h.cut0 with hx | hx
        · rw [invalid_eq] at hA; exact absurd hx hA.1
        · exact hx
      exact pop_phase1 h s.c0s s.c0e (if s.c0s = invalid then s.«end» else s.c0s)
        (min (maxDataLen s.writeOffset m) ((if s.c0s = invalid then s.«end» else s.c0s) - s.writeOffset))
        (Or.inr ⟨hA.2, hcut.2.1, hcut.2.2, fun i h1 h2 => Or.inl ⟨by rw [← invalid_eq]; exact hA.1, h1, h2⟩⟩)
        hlt (by rw [invalid_eq, hend]) (by omega)
    · by_cases hB : s.c1s ≠ invalid ∧ s.c1s > s.writeOffset
      · simp only []
        rw [if_neg hA, if_pos hB]
        have hcut : 0 ≤ s.c1s ∧ s.c1s ≤ s.c1e ∧ s.c1e ≤ E := by
          rcases h.cut1 with hx | hx
          · rw [invalid_eq] at hB; exact absurd hx hB.1
          · exact hx
        exact pop_phase1 h s.c1s s.c1e (if s.c1s = invalid then s.«end» else s.c1s)
          (min (maxDataLen s.writeOffset m) ((if s.c1s = invalid then s.«end» else s.c1s) - s.writeOffset))
          (Or.inr ⟨hB.2, hcut.2.1, hcut.2.2, fun i h1 h2 => Or.inr ⟨by rw [← invalid_eq]; exact hB.1, h1, h2⟩⟩)
          hlt (by rw [invalid_eq, hend]) (by omega)
      · simp only []
        rw [if_neg hA, if_neg hB]
        exact pop_phase1 h invalid invalid (if invalid = invalid then s.«end» else invalid)
          (min (maxDataLen s.writeOffset m) ((if invalid = invalid then s.«end» else invalid) - s.writeOffset))
          (Or.inl invalid_eq) hlt (by rw [invalid_eq, hend]) (by omega)

theorem written_pops (budgets : List Int) : written (budgets.map SOp.pop) = [] := by
  induction budgets with
  | nil => rfl
  | cons b bs ih => simpa [written] using ih

/-- Scrambler: for every sequence of budgets no pop panics, every frame carries the stream bytes of
    its offset, and the run ends either still scrambling (invariant kept) or as a plain stream that
    has released all of `[0, writeOffset)`, which includes the whole ClientHello `[0,E)`. -/
theorem scr_run {W : List UInt8} {E : Nat} : ∀ (budgets : List Int) (s : CS) (acc : List (Int × List UInt8)),
    ScrInv s W E acc →
    ∃ s' acc', runOps s (budgets.map SOp.pop) acc = some (s', acc') ∧
      (ScrInv s' W E acc' ∨ (BaseRun 0 s' W acc' ∧ (E : Int) ≤ s'.writeOffset)) := by
  intro budgets
  induction budgets with
  | nil => intro s acc h; exact ⟨s, acc, rfl, Or.inl h⟩
  | cons m ms ih =>
    intro s acc h
    have hp := pop_scr h m
    simp only [List.map_cons, runOps]
    -- once scrambling is over the rest of the run is a plain run
    have done : ∀ (s1 : CS) (acc1 : List (Int × List UInt8)), ScrDone s1 W E acc1 →
        ∃ s' acc', runOps s1 (ms.map SOp.pop) acc1 = some (s', acc') ∧
          (ScrInv s' W E acc' ∨ (BaseRun 0 s' W acc' ∧ (E : Int) ≤ s'.writeOffset)) := by
      intro s1 acc1 hd
      obtain ⟨s', acc', h1, h2⟩ := baseRun_ops (ms.map SOp.pop) 0 s1 W acc1 hd.run
      rw [written_pops, List.append_nil] at h2
      refine ⟨s', acc', h1, Or.inr ⟨h2, ?_⟩⟩
      -- the write offset of a plain stream never decreases
      have mono : ∀ (ops : List SOp) (t t' : CS) (a a' : List (Int × List UInt8)) (V : List UInt8),
          BaseRun 0 t V a → runOps t ops a = some (t', a') → t.writeOffset ≤ t'.writeOffset := by
        intro ops
        induction ops with
        | nil => intro t t' a a' V _ hr; simp [runOps] at hr; rw [hr.1]; exact Int.le_refl _
        | cons op ops ih2 =>
          intro t t' a a' V hb hr
          cases op with
          | write p env =>
            have hp' := hb.inv.plain
            have e : (write t p env).1.writeOffset = t.writeOffset := by
              unfold write; simp only []; rw [if_pos hp']
            have hb' : BaseRun 0 (write t p env).1 (V ++ p) a :=
              ⟨hb.inv.afterWrite p env, fun f hf => (hb.truthful f hf).mono p,
               fun i h1 h2 => hb.cover i h1 (by rw [e] at h2; exact h2)⟩
            have := ih2 _ _ _ _ _ hb' (by simpa [runOps] using hr)
            omega
          | pop m' =>
            simp only [runOps] at hr
            rw [pop_plain hb.inv.plain] at hr
            rcases hb.pop m' with he | ⟨t1, f, he, hb1⟩
            · rw [he] at hr; exact ih2 _ _ _ _ _ hb hr
            · rw [he] at hr
              have := ih2 _ _ _ _ _ hb1 hr
              rcases basePop_spec hb.inv m' with he' | ⟨n, hn, he', _⟩
              · rw [he'] at he; simp at he
              · rw [he'] at he
                have : t1.writeOffset = t.writeOffset + n := by
                  have := (Prod.mk.inj he).1; rw [← this]
                omega
      have := mono _ _ _ _ _ _ hd.run h1
      rw [hd.wo] at this
      exact this
    revert hp
    cases hpop : pop s m with
    | mk s1 out =>
      cases out with
      | panic => intro hp; exact absurd hp (by simp [PopGood])
      | frame r =>
        cases r with
        | none =>
          intro hp
          simp only [PopGood] at hp
          rcases hp with hp | hp
          · exact ih s1 acc hp
          · exact done s1 acc hp
        | some f =>
          intro hp
          simp only [PopGood] at hp
          rcases hp with hp | hp
          · exact ih s1 _ hp
          · exact done s1 _ hp

end Uquic.Proofs.Stream
