/-
Helper lemmas for C20 (glue, resets): the handler's bytes-in-flight counter equals the total size of
the tracked in-flight packets after every operation, including those that write packets off wholesale
(MigratedPath, ResetForRetry, DropPackets, QueueProbePacket).
-/
import Uquic.Model.Cong.Sender
import Uquic.Model.Cong.Glue

namespace Uquic.Proofs.Cong

open Uquic.Model.Cong

theorem inFlightBytes_append (a b : List Pkt) : inFlightBytes (a ++ b) = inFlightBytes a + inFlightBytes b := by
  induction a with
  | nil => simp [inFlightBytes]
  | cons p r ih => simp only [List.cons_append, inFlightBytes, ih]; omega

theorem inFlightBytes_split (l : List Pkt) (f : Pkt → Bool) :
    inFlightBytes (l.filter f) + inFlightBytes (l.filter fun p => !f p) = inFlightBytes l := by
  induction l with
  | nil => simp [inFlightBytes]
  | cons p r ih =>
    by_cases h : f p = true
    · simp only [List.filter_cons, h, if_true, Bool.not_true, Bool.false_eq_true, if_false, inFlightBytes]; omega
    · have h' : f p = false := by simpa using h
      simp only [List.filter_cons, h', Bool.false_eq_true, if_false, Bool.not_false, if_true, inFlightBytes]; omega

theorem inFlightBytes_filter_le (l : List Pkt) (f : Pkt → Bool) : inFlightBytes (l.filter f) ≤ inFlightBytes l := by
  have := inFlightBytes_split l f; omega

/-- a filter that keeps every packet counted in bytes in flight keeps the total -/
theorem inFlightBytes_filter_keep (l : List Pkt) (f : Pkt → Bool) (h : ∀ p ∈ l, p.inFlight = true → f p = true) :
    inFlightBytes (l.filter f) = inFlightBytes l := by
  induction l with
  | nil => simp [inFlightBytes]
  | cons p r ih =>
    have ihr := ih (fun q hq => h q (List.mem_cons_of_mem _ hq))
    by_cases hf : f p = true
    · simp only [List.filter_cons, hf, if_true, inFlightBytes, ihr]
    · have hp : p.inFlight = false := by
        cases hi : p.inFlight with
        | false => rfl
        | true => exact absurd (h p (List.mem_cons_self) hi) hf
      have hf' : f p = false := by simpa using hf
      simp only [List.filter_cons, hf', Bool.false_eq_true, if_false, inFlightBytes, hp, ihr]; omega

theorem drop_balanced (g : Glue) (f : Pkt → Bool) (h : g.Balanced) : (g.drop f).Balanced := by
  unfold Glue.Balanced Glue.drop at *
  have := inFlightBytes_split g.out f
  simp only
  omega

theorem drop_no_panic (g : Glue) (f : Pkt → Bool) (h : g.Balanced) : g.dropPanics f = false := by
  unfold Glue.dropPanics
  have := inFlightBytes_filter_le g.out f
  unfold Glue.Balanced at h
  simp only [decide_eq_false_iff_not]; omega

theorem apply_balanced (g : Glue) (calls : List Call) (h : g.Balanced) : (g.apply calls).Balanced := h

theorem send_balanced (g : Glue) (t pn : Int) (size : Nat) (ae : Bool) (sp : Nat) (zero mtu probe : Bool)
    (h : g.Balanced) : (g.send t pn size ae sp zero mtu probe).1.Balanced := by
  unfold Glue.Balanced at *
  unfold Glue.send
  cases probe with
  | true =>
    simp only [if_true, inFlightBytes_append, inFlightBytes, Pkt.inFlight, Bool.not_true, Bool.and_false,
      Bool.false_eq_true, if_false, h]
    omega
  | false =>
    simp only [Bool.false_eq_true, if_false, inFlightBytes_append, inFlightBytes, Pkt.inFlight, Bool.not_false,
      Bool.and_true, Glue.apply]
    cases ae <;> simp [h]

theorem ack_balanced (g : Glue) (ranges : List (Int × Int)) (congested : Bool) (gone : List (Nat × Int)) (sp : Nat)
    (ph : List Int) (h : g.Balanced) : (g.ack ranges congested gone sp ph).1.Balanced := by
  unfold Glue.ack
  split
  · exact h
  · exact drop_balanced (g.apply _) _ h

theorem timeout_balanced (g : Glue) (gone : List (Nat × Int)) (ph : List Int) (h : g.Balanced) :
    (g.timeout gone ph).1.Balanced := by
  unfold Glue.timeout
  exact drop_balanced (g.apply _) _ h

theorem queueProbe_balanced (g : Glue) (sp : Nat) (h : g.Balanced) : (g.queueProbe sp).1.Balanced := by
  unfold Glue.queueProbe
  split
  · exact h
  · exact drop_balanced g _ h

theorem migrate_balanced (g : Glue) (mds : Nat) (rtt : Rtt) (pp : List Int) (h : g.Balanced) :
    (g.migrate mds rtt pp).Balanced := by
  have h1 := drop_balanced g (fun p => p.sp == 2 && !p.probe) h
  unfold Glue.Balanced at *
  unfold Glue.migrate
  simp only
  rw [inFlightBytes_filter_keep]
  · exact h1
  · intro p _ hp
    simp only [Pkt.inFlight, Bool.and_eq_true, Bool.not_eq_true'] at hp
    simp [hp.2]

theorem retry_balanced (g : Glue) (hok : inFlightBytes (g.out.filter fun p => p.sp == 1) = 0) : g.retry.Balanced := by
  unfold Glue.Balanced Glue.retry
  simp only
  exact hok.symm

theorem stepG_balanced (g : Glue) (op : GOp) (h : g.Balanced) (hok : op.ok g) : (g.stepG op).Balanced := by
  cases op with
  | send t pn size ae sp zero mtu probe => exact send_balanced g t pn size ae sp zero mtu probe h
  | ack ranges congested gone sp ph => exact ack_balanced g ranges congested gone sp ph h
  | timeout gone ph => exact timeout_balanced g gone ph h
  | queueProbe sp => exact queueProbe_balanced g sp h
  | dropSpace sp => exact drop_balanced g _ h
  | dropZeroRTT => exact drop_balanced g _ h
  | retry => exact retry_balanced g hok
  | migrate mds rtt pp => exact migrate_balanced g mds rtt pp h
  | setMDS m => exact h
  | rtt r => exact h

theorem runG_balanced (ops : List GOp) : ∀ (g : Glue), g.Balanced → g.okRun ops → (g.runG ops).Balanced := by
  induction ops with
  | nil => intro g h _; exact h
  | cons op r ih =>
    intro g h hok
    simp only [Glue.runG, List.foldl_cons]
    exact ih (g.stepG op) (stepG_balanced g op h hok.1) hok.2

/-- every call `ReceivedAck` makes that carries a `priorInFlight` carries the handler's counter -/
theorem ackCalls_prior (g : Glue) (ranges : List (Int × Int)) (congested : Bool) (gone : List (Nat × Int)) (sp : Nat) :
    ∀ c ∈ g.ackCalls ranges congested gone sp,
      (∀ pn b p, c = Call.cong pn b p → p = g.bytesInFlight) ∧ (∀ pn b p, c = Call.acked pn b p → p = g.bytesInFlight) ∧
      (∀ m, c ≠ Call.mds m) := by
  intro c hc
  unfold Glue.ackCalls at hc
  simp only [] at hc
  split at hc
  · simp at hc
  · simp only [List.mem_append, List.mem_map, List.mem_filter] at hc
    rcases hc with ((hc | hc) | hc) | hc
    · split at hc
      · simp only [List.mem_singleton] at hc; subst hc
        refine ⟨?_, ?_, ?_⟩ <;> intros <;> simp_all
      · simp at hc
    · split at hc
      · simp only [List.mem_singleton] at hc; subst hc
        refine ⟨?_, ?_, ?_⟩
        · intro pn b p e; simp only [Call.cong.injEq] at e; exact e.2.2.symm
        · intro pn b p e; cases e
        · intro m e; cases e
      · simp at hc
    · obtain ⟨q, _, he⟩ := hc
      subst he
      refine ⟨?_, ?_, ?_⟩
      · intro pn b p e; simp only [Call.cong.injEq] at e; exact e.2.2.symm
      · intro pn b p e; cases e
      · intro m e; cases e
    · obtain ⟨q, _, he⟩ := hc
      subst he
      refine ⟨?_, ?_, ?_⟩
      · intro pn b p e; cases e
      · intro pn b p e; simp only [Call.acked.injEq] at e; exact e.2.2.symm
      · intro m e; cases e

end Uquic.Proofs.Cong
