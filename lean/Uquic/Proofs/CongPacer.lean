/-
Helper lemmas for C20: the token-bucket pacer.
-/
import Uquic.Model.Cong.Sender

namespace Uquic.Proofs.Cong

open Uquic.Model.Cong

theorem maxBurstSizePackets_eq : maxBurstSizePackets = 10 := by decide
theorem nsPerSecond_eq : nsPerSecond = 1000000000 := rfl
theorem bytesPerSecond_eq : bytesPerSecond = 8 := by decide
theorem maxByteCount_lt : maxByteCount < 2 ^ 63 := by decide

theorem wrapU64_le (n : Nat) : wrapU64 n ≤ n := Nat.mod_le _ _
theorem wrapU64_lt (n : Nat) : wrapU64 n < 2 ^ 64 := Nat.mod_lt _ (by decide)
theorem wrapU64_eq (n : Nat) (h : n < 2 ^ 64) : wrapU64 n = n := Nat.mod_eq_of_lt h

/-- the datagram sizes for which the pacer's overflow substitute (`maxBurst`) stays below what
exact arithmetic would give: `10·mds·10⁹ < 2^64` -/
def PacerMDSOk (pmds : Nat) : Prop := maxBurstSizePackets * pmds ≤ 18446744073

/-- `timeScaledBandwidth` never yields more than the exact `⌊bw·ns/10⁹⌋` -/
theorem timeScaledBandwidth_le (bw pmds ns : Nat) (h : PacerMDSOk pmds) :
    timeScaledBandwidth bw pmds ns ≤ bw * ns / nsPerSecond := by
  unfold timeScaledBandwidth
  by_cases hb : bw = 0
  · simp [hb]
  · simp only [hb, if_false]
    by_cases ho : ns > (2 ^ 64 - 1) / bw
    · simp only [ho, if_true]
      have hpos : 0 < bw := Nat.pos_of_ne_zero hb
      have h1 : 2 ^ 64 - 1 < ns * bw := (Nat.div_lt_iff_lt_mul hpos).1 ho
      have h2 : 18446744073 ≤ bw * ns / nsPerSecond := by
        rw [nsPerSecond_eq, Nat.le_div_iff_mul_le (by decide)]
        rw [Nat.mul_comm bw ns]
        have : (2:Nat) ^ 64 - 1 = 18446744073709551615 := by decide
        omega
      exact Nat.le_trans h h2
    · simp only [ho, if_false]; exact Nat.le_refl _

/-- tokens the bucket may gain between the last send and `now` with bandwidth `bw` (bytes/s) -/
def tokens (p : Pacer) (bw : Nat) (now : Int) : Nat :=
  let delta := wrapI64 (now - p.lastSent)
  if delta > 0 then bw * delta.toNat / nsPerSecond else 0

/-- Budget never exceeds one burst -/
theorem budget_le_burst (p : Pacer) (bw : Nat) (now : Int) : p.budget bw now ≤ maxBurstSize bw p.mds := by
  unfold Pacer.budget
  split
  · exact Nat.le_refl _
  · exact Nat.min_le_left _ _

/-- Budget is at most the bucket content at the last send plus the tokens gained since -/
theorem budget_le_tokens (p : Pacer) (bw : Nat) (now : Int) (hT : p.lastSent ≠ 0) (hm : PacerMDSOk p.mds) :
    p.budget bw now ≤ p.budgetAtLastSent + tokens p bw now := by
  unfold Pacer.budget tokens
  simp only [hT, if_false]
  have hadd : (if wrapI64 (now - p.lastSent) > 0 then timeScaledBandwidth bw p.mds (wrapI64 (now - p.lastSent)).toNat else 0)
      ≤ (if wrapI64 (now - p.lastSent) > 0 then bw * (wrapI64 (now - p.lastSent)).toNat / nsPerSecond else 0) := by
    split
    · exact timeScaledBandwidth_le _ _ _ hm
    · exact Nat.le_refl _
  generalize (if wrapI64 (now - p.lastSent) > 0 then timeScaledBandwidth bw p.mds (wrapI64 (now - p.lastSent)).toNat else 0) = added at *
  generalize (if wrapI64 (now - p.lastSent) > 0 then bw * (wrapI64 (now - p.lastSent)).toNat / nsPerSecond else 0) = tk at *
  have hmb := maxByteCount_lt
  generalize maxBurstSize bw p.mds = mb
  generalize maxByteCount = M at *
  split <;> omega

/-- one send: what leaves the bucket -/
theorem sentPacket_spec (p : Pacer) (bw : Nat) (t : Int) (size : Nat) :
    let p' := p.sentPacket bw t size
    p'.lastSent = t ∧ p'.mds = p.mds ∧
    p'.budgetAtLastSent ≤ p.budget bw t ∧
    (size ≤ p.budget bw t → size + p'.budgetAtLastSent = p.budget bw t) := by
  unfold Pacer.sentPacket
  simp only []
  refine ⟨trivial, trivial, ?_, ?_⟩
  · split <;> omega
  · intro h; split <;> omega

/-! ### 64-bit wrap-around only ever lowers the bandwidth the pacer uses -/

/-- the bandwidth the property speaks about: exact `⌊⌊cwnd·10⁹/srtt⌋·5/4⌋` -/
def idealAdjBw (cwnd : Nat) (srtt : Int) : Nat :=
  let d := if srtt = 0 then u64OfI64 timerGranularity else u64OfI64 srtt
  (cwnd * nsPerSecond / d) * 5 / 4

theorem adjustedBandwidth_le_ideal (cwnd : Nat) (srtt : Int) :
    adjustedBandwidth cwnd srtt ≤ idealAdjBw cwnd srtt := by
  unfold adjustedBandwidth bandwidthEstimate idealAdjBw
  simp only [bytesPerSecond_eq]
  have e : (if srtt = 0 then u64OfI64 timerGranularity else u64OfI64 srtt) = u64OfI64 (if srtt = 0 then timerGranularity else srtt) := by
    split <;> rfl
  rw [e]
  generalize (if srtt = 0 then timerGranularity else srtt) = sr
  generalize u64OfI64 sr = d
  -- x := (cwnd mod 2^64 * 1e9 mod 2^64) / d ≤ cwnd*1e9/d
  have h1 : wrapU64 (wrapU64 cwnd * nsPerSecond) / d ≤ cwnd * nsPerSecond / d :=
    Nat.div_le_div_right (Nat.le_trans (wrapU64_le _) (Nat.mul_le_mul_right _ (wrapU64_le _)))
  generalize wrapU64 (wrapU64 cwnd * nsPerSecond) / d = x at *
  generalize cwnd * nsPerSecond / d = y at *
  have h2 : wrapU64 (x * 8) / 8 ≤ x := by
    have := wrapU64_le (x * 8); omega
  generalize wrapU64 (x * 8) / 8 = z at *
  have h3 : wrapU64 (z * 5) ≤ z * 5 := wrapU64_le _
  generalize wrapU64 (z * 5) = u at *
  omega

end Uquic.Proofs.Cong
