/-
Lemmas about `addConnectionID` (the sorted queue of peer-issued connection IDs).
-/
import Uquic.Model.ConnID.Manager

namespace Uquic.Proofs.ConnID
open Uquic.Model.ConnID

/-- strictly ascending sequence numbers -/
def SortedQ (q : List Entry) : Prop := q.Pairwise (fun a b => a.seq < b.seq)

theorem sortedQ_last_max {q : List Entry} {l : Entry} (h : SortedQ q) (hl : q.getLast? = some l) :
    ∀ x ∈ q, x.seq ≤ l.seq := by
  obtain ⟨ys, rfl⟩ := List.getLast?_eq_some_iff.mp hl
  intro x hx
  unfold SortedQ at h
  rw [List.pairwise_append] at h
  simp only [List.mem_append, List.mem_singleton] at hx
  rcases hx with hx | rfl
  · exact Nat.le_of_lt (h.2.2 x hx l (by simp))
  · exact Nat.le_refl _

theorem sortedQ_append {q : List Entry} {e : Entry} (h : SortedQ q) (hlt : ∀ x ∈ q, x.seq < e.seq) :
    SortedQ (q ++ [e]) := by
  unfold SortedQ at *
  rw [List.pairwise_append]
  refine ⟨h, by simp, ?_⟩
  intro a ha b hb
  simp only [List.mem_singleton] at hb
  subst hb
  exact hlt a ha

/-- what a successful `insertSlow` returns -/
theorem insertSlow_ok {e : Entry} : ∀ {q q' : List Entry}, insertSlow e q = .ok q' →
    (∀ x, x ∈ q' → x ∈ q ∨ x = e) ∧ (∀ x, x ∈ q → x ∈ q') ∧ q'.length ≤ q.length + 1 ∧
    (SortedQ q → SortedQ q') ∧ (q ≠ [] → q' ≠ []) ∧
    (SortedQ q → (∃ x ∈ q, e.seq ≤ x.seq) → ∃ x ∈ q', x.seq = e.seq)
  | [], q', h => by
    simp [insertSlow] at h; subst h; simp [SortedQ]
  | x :: xs, q', h => by
    unfold insertSlow at h
    split at h
    · -- same sequence number
      split at h
      · cases h
      · split at h
        · cases h
        · cases h
          rename_i hseq _ _
          refine ⟨by intro y hy; exact Or.inl hy, by intro y hy; exact hy, by simp, id, by simp, ?_⟩
          intro _ _; exact ⟨x, by simp, hseq⟩
    · split at h
      · cases h
        refine ⟨?_, ?_, by simp, ?_, by simp, ?_⟩
        · intro y hy; simp at hy; rcases hy with rfl | hy
          · exact Or.inr rfl
          · left; simp; exact hy
        · intro y hy; simp at hy ⊢; right; exact hy
        · intro hs
          unfold SortedQ at *
          rw [List.pairwise_cons] at hs ⊢
          refine ⟨?_, List.pairwise_cons.mpr hs⟩
          intro a ha
          simp at ha
          rcases ha with rfl | ha
          · assumption
          · rename_i hgt; exact Nat.lt_trans hgt (hs.1 a ha)
        · intro _ _; exact ⟨e, by simp, rfl⟩
      · -- recurse
        rename_i hne hngt
        cases hrec : insertSlow e xs with
        | error er => simp [hrec] at h
        | ok r =>
          simp [hrec] at h; subst h
          have ih := insertSlow_ok hrec
          refine ⟨?_, ?_, ?_, ?_, by simp, ?_⟩
          · intro y hy; simp at hy; rcases hy with rfl | hy
            · left; simp
            · rcases ih.1 y hy with h1 | h1
              · left; simp; right; exact h1
              · right; exact h1
          · intro y hy; simp at hy ⊢; rcases hy with rfl | hy
            · left; rfl
            · right; exact ih.2.1 y hy
          · simp; exact ih.2.2.1
          · intro hs
            unfold SortedQ at *
            rw [List.pairwise_cons] at hs ⊢
            refine ⟨?_, ih.2.2.2.1 hs.2⟩
            intro a ha
            rcases ih.1 a ha with h1 | h1
            · exact hs.1 a h1
            · subst h1; omega
          · intro hs hex
            have hs' : SortedQ xs := by unfold SortedQ at *; exact (List.pairwise_cons.mp hs).2
            obtain ⟨y, hy, hle⟩ := hex
            simp at hy
            rcases hy with rfl | hy
            · omega
            · obtain ⟨z, hz, hzs⟩ := ih.2.2.2.2.2 hs' ⟨y, hy, hle⟩
              exact ⟨z, by simp; right; exact hz, hzs⟩

/-- an error of `insertSlow` means the sequence number is already queued; the queue is not changed by the caller -/
theorem insertSlow_error {e : Entry} {er : Err} : ∀ {q : List Entry}, insertSlow e q = .error er → ∃ x ∈ q, x.seq = e.seq
  | [], h => by simp [insertSlow] at h
  | x :: xs, h => by
    unfold insertSlow at h
    split at h
    · rename_i hseq; exact ⟨x, by simp, hseq⟩
    · split at h
      · cases h
      · cases hrec : insertSlow e xs with
        | ok r => simp [hrec] at h
        | error er' =>
          obtain ⟨y, hy, hys⟩ := insertSlow_error hrec
          exact ⟨y, by simp; right; exact hy, hys⟩

/-- summary for `addConnectionID` on a sorted queue -/
theorem addConnectionID_ok {q q' : List Entry} {e : Entry} (hs : SortedQ q) (h : addConnectionID q e = .ok q') :
    SortedQ q' ∧ (∀ x, x ∈ q' → x ∈ q ∨ x = e) ∧ (∀ x, x ∈ q → x ∈ q') ∧ q'.length ≤ q.length + 1 ∧
    q' ≠ [] ∧ ∃ x ∈ q', x.seq = e.seq := by
  unfold addConnectionID at h
  split at h
  · -- empty queue
    rename_i hl
    have : q = [] := by simpa using hl
    subst this
    cases h
    simp [SortedQ]
  · rename_i l hl
    split at h
    · rename_i hlt
      cases h
      have hmax := sortedQ_last_max hs hl
      refine ⟨sortedQ_append hs (fun x hx => Nat.lt_of_le_of_lt (hmax x hx) hlt), ?_, ?_, by simp, by simp, ⟨e, by simp, rfl⟩⟩
      · intro x hx; simp at hx; rcases hx with hx | rfl
        · exact Or.inl hx
        · exact Or.inr rfl
      · intro x hx; simp; exact Or.inl hx
    · rename_i hge
      have r := insertSlow_ok h
      have hne : q ≠ [] := by intro hq; subst hq; simp at hl
      have hmem : l ∈ q := List.mem_of_getLast? hl
      exact ⟨r.2.2.2.1 hs, r.1, r.2.1, r.2.2.1, r.2.2.2.2.1 hne, r.2.2.2.2.2 hs ⟨l, hmem, by omega⟩⟩

/-- without any assumption: after a successful `addConnectionID` the queue is non-empty -/
theorem addConnectionID_nonempty {q q' : List Entry} {e : Entry} (h : addConnectionID q e = .ok q') : q' ≠ [] := by
  unfold addConnectionID at h
  split at h
  · cases h; simp
  · rename_i l hl
    split at h
    · cases h; simp
    · have hne : q ≠ [] := by intro hq; subst hq; simp at hl
      exact (insertSlow_ok h).2.2.2.2.1 hne

theorem addConnectionID_error {q : List Entry} {e : Entry} {er : Err} (h : addConnectionID q e = .error er) :
    ∃ x ∈ q, x.seq = e.seq := by
  unfold addConnectionID at h
  split at h
  · cases h
  · split at h
    · cases h
    · exact insertSlow_error h

end Uquic.Proofs.ConnID
