/-
C19: requestFromHeaders / updateResponseFromHeaders enforce the pseudo-header rules.
-/
import Uquic.Proofs.FieldsStep

namespace Uquic.Proofs.Fields
open Uquic.Model.H3.Fields Uquic.Gen.H3Fields
open Uquic.Spec.H3FieldsMon (requestRules responseRules)

/-- decomposition of a successful parseHeaders call -/
theorem parse_ok_inv (ext : List Nat → Bool) (isReq : Bool) (lim : Int) (fs : List Field) (q : Bool) (h : Hdr)
    (hp : parseHeadersQ ext isReq lim fs q = .ok h) :
    ∃ s, Inv isReq lim fs s ∧ q = false ∧ finish s = .ok h := by
  unfold parseHeadersQ at hp
  split at hp
  · cases hp
  rename_i s hs
  have inv := inv_run ext isReq lim fs [] _ s (inv_init isReq lim) hs
  simp only [List.nil_append] at inv
  cases q with
  | true => simp at hp
  | false => exact ⟨s, inv, rfl, by simpa using hp⟩

theorem finish_pseudo (s : PS) (h : Hdr) (hf : finish s = .ok h) (n : List Nat) : getPseudo h n = getPseudo s.hdr n := by
  unfold finish at hf
  repeat' split at hf
  all_goals first | (cases hf; simp [getPseudo]) | cases hf

/-- the pseudo-header members of the parsed header are the values of the (unique) fields of that name -/
theorem parse_pseudo_values (ext : List Nat → Bool) (isReq : Bool) (lim : Int) (fs : List Field) (q : Bool) (h : Hdr)
    (hp : parseHeadersQ ext isReq lim fs q = .ok h) :
    h.path = fieldValue fs nPath ∧ h.method = fieldValue fs nMethod ∧ h.authority = fieldValue fs nAuthority ∧
    h.protocol = fieldValue fs nProtocol ∧ h.scheme = fieldValue fs nScheme ∧ h.status = fieldValue fs nStatus := by
  obtain ⟨s, inv, _, hf⟩ := parse_ok_inv ext isReq lim fs q h hp
  have key : ∀ n ∈ knownPseudo, getPseudo h n = fieldValue fs n := fun n hn => by
    rw [finish_pseudo s h hf n]; exact inv.hdrv n hn
  refine ⟨?_, ?_, ?_, ?_, ?_, ?_⟩
  · have := key nPath (by decide); simpa [getPseudo] using this
  · have := key nMethod (by decide); simpa [getPseudo, nMethod, nPath] using this
  · have := key nAuthority (by decide); simpa [getPseudo, nMethod, nPath, nAuthority] using this
  · have := key nProtocol (by decide); simpa [getPseudo, nMethod, nPath, nAuthority, nProtocol] using this
  · have := key nScheme (by decide); simpa [getPseudo, nMethod, nPath, nAuthority, nProtocol, nScheme] using this
  · have := key nStatus (by decide); simpa [getPseudo, nMethod, nPath, nAuthority, nProtocol, nScheme, nStatus] using this

theorem specB_names : Uquic.Spec.H3Fields.B ":method" = nMethod ∧ Uquic.Spec.H3Fields.B ":path" = nPath ∧
    Uquic.Spec.H3Fields.B ":authority" = nAuthority ∧ Uquic.Spec.H3Fields.B ":scheme" = nScheme ∧
    Uquic.Spec.H3Fields.B ":protocol" = nProtocol ∧ Uquic.Spec.H3Fields.B ":status" = nStatus ∧
    Uquic.Spec.H3Fields.B "CONNECT" = mConnect := by decide

theorem request_rules_of_ok (ext urlOK : List Nat → Bool) (lim : Int) (fs : List Field) (q : Bool) (r : Req)
    (hp : requestFromHeaders ext urlOK lim fs q = .ok r) : requestRules fs = true := by
  unfold requestFromHeaders at hp
  split at hp
  · cases hp
  rename_i hdr hparse
  obtain ⟨hpath, hmethod, hauth, hproto, hscheme, _⟩ := parse_pseudo_values ext true lim fs q hdr hparse
  simp only [] at hp
  split at hp
  · cases hp
  rename_i c1
  split at hp
  · cases hp
  rename_i c2
  split at hp
  · cases hp
  rename_i c3
  split at hp
  · cases hp
  rename_i c4
  obtain ⟨e1, e2, e3, e4, e5, _, e7⟩ := specB_names
  simp only [requestRules, e1, e2, e3, e4, e5, e7]
  change (let v := fieldValue fs; _) = true
  simp only [← hpath, ← hmethod, ← hauth, ← hproto, ← hscheme]
  by_cases hm : hdr.method = mConnect <;> by_cases hpr : hdr.protocol = [] <;>
    by_cases hpa : hdr.path = [] <;> by_cases ha : hdr.authority = [] <;> by_cases hs : hdr.scheme = [] <;>
    by_cases hmm : hdr.method = [] <;> simp_all

end Uquic.Proofs.Fields

namespace Uquic.Proofs.Fields
open Uquic.Model.H3.Fields Uquic.Gen.H3Fields
open Uquic.Spec.H3FieldsMon (requestRules responseRules)

theorem stripSign_eq (s : List Nat) :
    (match s with
      | 45 :: r => r
      | 43 :: r => r
      | r => r) = (signSplit s).2 := by
  unfold signSplit
  split
  · rfl
  · rfl
  · rename_i h1 h2
    split
    · rename_i r; exact absurd rfl (h1 r)
    · rename_i r; exact absurd rfl (h2 r)
    · rfl

theorem atoi_some_shape (s : List Nat) (c : Int) (h : atoi s = some c) :
    (signSplit s).2 ≠ [] ∧ (signSplit s).2.all Uquic.Spec.H3Fields.isDigitByte = true := by
  have hd : ∀ b, isDigit b = Uquic.Spec.H3Fields.isDigitByte b := fun _ => rfl
  unfold atoi atoiCore at h
  split at h
  · cases h
  · rename_i hc
    simp only [Bool.or_eq_true, Bool.not_eq_true', not_or, Bool.not_eq_true, Bool.not_eq_false] at hc
    exact ⟨by simpa using hc.1, by simpa [hd] using hc.2⟩

theorem response_rules_of_ok (ext : List Nat → Bool) (lim : Int) (fs : List Field) (q : Bool) (r : Resp)
    (hp : updateResponseFromHeaders ext lim fs q = .ok r) : responseRules fs = true := by
  unfold updateResponseFromHeaders at hp
  split at hp
  · cases hp
  rename_i hdr hparse
  obtain ⟨_, _, _, _, _, hstatus⟩ := parse_pseudo_values ext false lim fs q hdr hparse
  split at hp
  · cases hp
  rename_i hne
  simp only [] at hp
  split at hp
  · cases hp
  rename_i c hc
  obtain ⟨h1, h2⟩ := atoi_some_shape hdr.status c hc
  rw [← stripSign_eq] at h1 h2
  simp only [responseRules, specB_names.2.2.2.2.2.1, ← hstatus]
  simp only [Bool.and_eq_true, bne_iff_ne, ne_eq]
  exact ⟨⟨hne, h1⟩, h2⟩

end Uquic.Proofs.Fields
