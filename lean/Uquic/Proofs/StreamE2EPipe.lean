/-
C01 ∘ C03: the composition of the sender model with ANY receive side that meets the relativised contract
`ContractOn` (Spec/StreamE2E.lean) — C01's `PipeInvF` argument redone with `ReachW` in place of `Reach`.
The source string `W` is the final value of the sender's ghost `written`; every frame ever emitted is a
slice of it (`RInv.em` at the end of the run), so every delivery of the run is a `ReachW` step.
-/
import Uquic.Proofs.SendFin
import Uquic.Spec.StreamE2E

namespace Uquic.Proofs.StreamE2E
open Uquic.Model.Stream.Send Uquic.Spec.SendRun Uquic.Spec.StreamPipe Uquic.Spec.StreamE2E Uquic.Proofs.Send

theorem reach_of_reachW {A : Reassembler} {W : Bytes} {r : A.R} (h : ReachW A W r) : Reach A r := by
  induction h with
  | init => exact .init
  | deliver x _ _ ih => exact .deliver x ih
  | read n _ ih => exact .read n ih

/-- under the contract, everything recorded in `segs` of a `ReachW` state is a slice of `W` -/
theorem slices_of_reachW {A : Reassembler} {W : Bytes} {ok : A.R → Prop} (C : ContractOn A W ok) {r : A.R}
    (h : ReachW A W r) : ∀ x ∈ A.segs r, Slice W x := by
  induction h with
  | init => intro x hx; rw [C.segs_init] at hx; cases hx
  | deliver x hs hr ih =>
    intro y hy
    rcases (C.segs_deliver _ x hr y).mp hy with rfl | hy
    · exact hs
    · exact ih y hy
  | read n hr ih => intro y hy; rw [C.segs_read _ n hr] at hy; exact ih y hy

/-- C01's unrestricted contract implies the relativised one (for every source string): `ContractOn` is
    what C01's composition needs, no more. -/
theorem contractOn_of_contract {A : Reassembler} (C : ReassemblyContract A) (W : Bytes) :
    ContractOn A W (fun _ => True) := by
  have cons : ∀ {r : A.R}, ReachW A W r → Consistent W (A.segs r) := by
    intro r h
    induction h with
    | init => intro x hx; rw [C.segs_init] at hx; cases hx
    | deliver x hs hr ih =>
      intro y hy
      rcases (C.segs_deliver _ x (reach_of_reachW hr) y).mp hy with rfl | hy
      · exact hs.1
      · exact ih y hy
    | read n hr ih => intro y hy; rw [C.segs_read _ n (reach_of_reachW hr)] at hy; exact ih y hy
  exact {
    segs_init := C.segs_init
    out_init := C.out_init
    segs_deliver := fun r s h => C.segs_deliver r s (reach_of_reachW h)
    out_deliver := fun r s h => C.out_deliver r s (reach_of_reachW h)
    segs_read := fun r n h => C.segs_read r n (reach_of_reachW h)
    out_read := fun r n h => C.out_read r n (reach_of_reachW h)
    from_segment := fun r h => C.from_segment r (reach_of_reachW h)
    read_len := fun r n h => C.read_len r n (reach_of_reachW h)
    eof_sound := fun r n h => C.eof_sound r n (reach_of_reachW h)
    progress := fun r n c h _ hcov hle => C.progress r n W c (reach_of_reachW h) (cons h) hcov hle
    eof_complete := fun r n h _ hn hl hf => C.eof_complete r n W (reach_of_reachW h) (cons h) hn hl hf }

/-- bytes read are a prefix of any string the delivered segments are consistent with -/
theorem out_prefix_on {A : Reassembler} {W : Bytes} {ok : A.R → Prop} (C : ContractOn A W ok) {r : A.R}
    (hr : ReachW A W r) {W' : Bytes} (hc : Consistent W' (A.segs r)) : A.out r <+: W' := by
  have hlen : (A.out r).length ≤ W'.length := by
    cases hout : (A.out r).length with
    | zero => omega
    | succ k =>
      obtain ⟨s, hs, h1, h2, _⟩ := C.from_segment r hr k (by omega)
      have hne : s.data ≠ [] := by intro h; simp [h] at h2; omega
      have := prefix_drop_length_le (hc s hs) hne
      omega
  rw [List.prefix_iff_eq_take]
  apply List.ext_getElem?
  intro i
  by_cases hi : i < (A.out r).length
  · obtain ⟨s, hs, h1, h2, h3⟩ := C.from_segment r hr i hi
    rw [h3, getElem?_of_prefix_drop (hc s hs) (by omega), List.getElem?_take_of_lt hi]
    congr 1; omega
  · rw [List.getElem?_eq_none (by omega), List.getElem?_eq_none (by simp; omega)]

/-! ### the sender part of a pipe run -/

theorem pipeStep_s {A : Reassembler} (p : Pipe A) (op : PipeOp) :
    (pipeStep p op).s = match op with | .snd o => stepOp p.s o | _ => p.s := by
  cases op with
  | snd o => rfl
  | deliver k => simp only [pipeStep]; split <;> rfl
  | read n => rfl

theorem pipeRun_s {A : Reassembler} (p : Pipe A) (ops : List PipeOp) : (pipeRun p ops).s = run p.s (sndOps ops) := by
  induction ops generalizing p with
  | nil => rfl
  | cons op rest ih =>
    show (pipeRun (pipeStep p op) rest).s = _
    rw [ih, pipeStep_s]
    cases op <;> rfl

theorem noBoundary_step {A : Reassembler} {p : Pipe A} {op : PipeOp} {rest : List PipeOp}
    (hc : NoBoundaryAfterReset p.s (sndOps (op :: rest))) :
    (op = .snd .boundary → p.s.resetErr = none) ∧ NoBoundaryAfterReset (pipeStep p op).s (sndOps rest) := by
  refine ⟨fun hop => hc [] (sndOps rest) (by simp [hop, sndOps]), ?_⟩
  cases op with
  | snd o =>
    intro pre post heq
    have := hc (o :: pre) post (by simp [sndOps, heq])
    simpa [run, pipeStep] using this
  | deliver k =>
    have : (pipeStep p (.deliver k)).s = p.s := by simp only [pipeStep]; split <;> rfl
    rw [this]; simpa [sndOps] using hc
  | read n => simpa [sndOps, pipeStep] using hc

/-- frames are never removed from the ghost list `emitted` -/
theorem emitted_mono_run {s : State} (hr : RInv s) (ops : List Op) (hc : NoBoundaryAfterReset s ops) :
    ∀ f ∈ s.emitted, f ∈ (run s ops).emitted := by
  induction ops generalizing s with
  | nil => exact fun f hf => hf
  | cons op rest ih =>
    have hb : op = .boundary → s.resetErr = none := fun hop => hc [] rest (by simp [hop])
    have hc' : NoBoundaryAfterReset (stepOp s op) rest := by
      intro pre post heq
      have := hc (op :: pre) post (by simp [heq])
      simpa [run] using this
    intro f hf
    obtain ⟨l, hl⟩ := emitted_step_r hr op
    exact ih (rinv_step hr op hb) hc' f (by rw [hl]; exact List.mem_append_left _ hf)

/-! ### the invariant of the composed system -/

structure PipeInvW {A : Reassembler} (W : Bytes) (p : Pipe A) : Prop where
  rinv : RInv p.s
  finv : FInv p.s
  reach : ReachW A W p.r
  segs_emitted : ∀ x ∈ A.segs p.r, ∃ f ∈ p.s.emitted, x = segOf f
  eof : p.eofSeen = true → p.s.finishedWriting = true ∧ A.out p.r = p.s.written

theorem PipeInvW.consistent {A : Reassembler} {W : Bytes} {p : Pipe A} (h : PipeInvW W p) :
    Consistent p.s.written (A.segs p.r) := by
  intro x hx
  obtain ⟨f, hf, rfl⟩ := h.segs_emitted x hx
  exact h.rinv.em f hf

theorem pipeInvW_step {A : Reassembler} {W : Bytes} {ok : A.R → Prop} (C : ContractOn A W ok) {p : Pipe A}
    (h : PipeInvW W p) (op : PipeOp) (hb : op = .snd .boundary → p.s.resetErr = none)
    (hfut : ∀ f ∈ (pipeStep p op).s.emitted, Slice W (segOf f)) : PipeInvW W (pipeStep p op) := by
  cases op with
  | snd o =>
    have he := ext_step_r h.rinv o
    refine ⟨rinv_step h.rinv o (fun ho => hb (by rw [ho])), finv_step h.rinv h.finv o, h.reach, fun x hx => ?_, fun heof => ?_⟩
    · obtain ⟨f, hf, hxf⟩ := h.segs_emitted x hx
      obtain ⟨l, hl⟩ := emitted_step_r h.rinv o
      exact ⟨f, by simp only [pipeStep]; rw [hl]; exact List.mem_append_left _ hf, hxf⟩
    · obtain ⟨hfw, hout⟩ := h.eof heof
      obtain ⟨⟨q, hq, hqf⟩, hfw'⟩ := he
      refine ⟨hfw' hfw, ?_⟩
      simp only [pipeStep]
      rw [hq, hqf hfw, List.append_nil]; exact hout
  | deliver k =>
    simp only [pipeStep] at hfut ⊢
    cases hk : p.s.emitted[k]? with
    | none => exact h
    | some f =>
      rw [hk] at hfut
      have hf : f ∈ p.s.emitted := List.mem_of_getElem? hk
      refine ⟨h.rinv, h.finv, .deliver _ (hfut f hf) h.reach, fun x hx => ?_, fun heof => ?_⟩
      · rcases (C.segs_deliver p.r (segOf f) h.reach x).mp hx with rfl | hx
        · exact ⟨f, hf, rfl⟩
        · exact h.segs_emitted x hx
      · simp only [C.out_deliver p.r (segOf f) h.reach]; exact h.eof heof
  | read n =>
    have hreach : ReachW A W (A.read p.r n).1 := .read n h.reach
    have hsegs := C.segs_read p.r n h.reach
    have hcons : Consistent p.s.written (A.segs (A.read p.r n).1) := by rw [hsegs]; exact h.consistent
    have hpre := out_prefix_on C hreach hcons
    refine ⟨h.rinv, h.finv, hreach, fun x hx => h.segs_emitted x (hsegs ▸ hx), fun heof => ?_⟩
    simp only [pipeStep, Bool.or_eq_true] at heof ⊢
    rcases heof with heof | heof
    · obtain ⟨hfw, hout⟩ := h.eof heof
      refine ⟨hfw, ?_⟩
      have hlen := hpre.length_le
      rw [C.out_read p.r n h.reach, hout] at hlen hpre ⊢
      simp only [List.length_append] at hlen
      have : (A.read p.r n).2.1 = [] := List.eq_nil_of_length_eq_zero (by omega)
      rw [this, List.append_nil]
    · obtain ⟨x, hx, hfin, hend⟩ := C.eof_sound p.r n h.reach heof
      obtain ⟨f, hf, rfl⟩ := h.segs_emitted x hx
      obtain ⟨hfw, hlen⟩ := h.finv.fem f hf hfin
      exact ⟨hfw, hpre.eq_of_length (by simp only [segOf] at hend; omega)⟩

theorem pipeInvW_run {A : Reassembler} {W : Bytes} {ok : A.R → Prop} (C : ContractOn A W ok)
    (ops : List PipeOp) {p : Pipe A} (h : PipeInvW W p) (hc : NoBoundaryAfterReset p.s (sndOps ops))
    (hfut : ∀ f ∈ (pipeRun p ops).s.emitted, Slice W (segOf f)) : PipeInvW W (pipeRun p ops) := by
  induction ops generalizing p with
  | nil => exact h
  | cons op rest ih =>
    obtain ⟨hb, hc'⟩ := noBoundary_step hc
    have hr' : RInv (pipeStep p op).s := by
      rw [pipeStep_s]
      cases op with
      | snd o => exact rinv_step h.rinv o (fun ho => hb (by rw [ho]))
      | deliver k => exact h.rinv
      | read n => exact h.rinv
    have hfut' : ∀ f ∈ (pipeStep p op).s.emitted, Slice W (segOf f) := by
      intro f hf
      apply hfut f
      show f ∈ (pipeRun (pipeStep p op) rest).s.emitted
      rw [pipeRun_s]
      exact emitted_mono_run hr' _ hc' f hf
    exact ih (pipeInvW_step C h op hb hfut') hc' hfut

theorem pipeInvW_init (A : Reassembler) {W : Bytes} {ok : A.R → Prop} (C : ContractOn A W ok) (sid : Nat) (sup : Bool) :
    PipeInvW W (pipeInit A sid sup) :=
  ⟨rinv_init sid sup, finv_init sid sup, .init, fun x hx => by simp [pipeInit, C.segs_init] at hx, fun h => by simp [pipeInit] at h⟩

/-- the invariant at the end of every run, with `W` the bytes written by then; the only assumption is that
    stream offsets stay in the lower half of the offset space -/
theorem pipeInvW_final {A : Reassembler} {ok : A.R → Prop} (C : ∀ W, ContractOn A W ok) (sid : Nat) (sup : Bool)
    (ops : List PipeOp) (hc : NoBoundaryAfterReset (init sid sup) (sndOps ops))
    (hB : ∀ f ∈ (pipeRun (pipeInit A sid sup) ops).s.emitted,
      2 * (f.offset + f.data.length) < Uquic.Model.Reassembly.maxByteCount) :
    PipeInvW (pipeRun (pipeInit A sid sup) ops).s.written (pipeRun (pipeInit A sid sup) ops) := by
  apply pipeInvW_run (C _) ops (pipeInvW_init A (C _) sid sup) hc
  intro f hf
  refine ⟨?_, hB f hf⟩
  have hrun := rf_run_from (rinv_init sid sup) (finv_init sid sup) (sndOps ops) hc
  have hs : (pipeRun (pipeInit A sid sup) ops).s = run (init sid sup) (sndOps ops) := pipeRun_s _ _
  rw [hs] at hf ⊢
  exact hrun.1.em f hf

/-- `read_is_prefix` for a receive side that meets the relativised contract -/
theorem prefix_on {A : Reassembler} {W : Bytes} {ok : A.R → Prop} (C : ContractOn A W ok) {p : Pipe A}
    (h : PipeInvW W p) :
    A.out p.r <+: p.s.written ∧ (p.eofSeen = true → p.s.finishedWriting = true ∧ A.out p.r = p.s.written) :=
  ⟨out_prefix_on C h.reach h.consistent, h.eof⟩

/-- `read_complete` for a receive side that meets the relativised contract, in a state where nothing was
    rejected (`ok`) and `W` is the string written -/
theorem complete_on {A : Reassembler} {ok : A.R → Prop} {p : Pipe A} (C : ContractOn A p.s.written ok)
    (h : PipeInvW p.s.written p) (hok : ok p.r)
    (hcov : CoveredUpTo (A.segs p.r) p.s.written.length) (hfin : ∃ x ∈ A.segs p.r, x.fin = true) (n : Nat) (hn : 0 < n) :
    (A.read p.r n).2.1 = (p.s.written.drop (A.out p.r).length).take (min n (p.s.written.length - (A.out p.r).length)) ∧
    (p.s.written.length - (A.out p.r).length ≤ n → A.out (A.read p.r n).1 = p.s.written) ∧
    (A.out p.r = p.s.written → (A.read p.r n).2.2 = true) := by
  have hpre : A.out p.r <+: p.s.written := out_prefix_on C h.reach h.consistent
  have hle := hpre.length_le
  have hreach' : ReachW A p.s.written (A.read p.r n).1 := .read n h.reach
  have hsegs := C.segs_read p.r n h.reach
  have hpre' : A.out (A.read p.r n).1 <+: p.s.written :=
    out_prefix_on C hreach' (by rw [hsegs]; exact h.consistent)
  have hout' := C.out_read p.r n h.reach
  have hprog := C.progress p.r n p.s.written.length h.reach hok hcov hle
  have hrl := C.read_len p.r n h.reach
  have hle' := hpre'.length_le
  rw [hout', List.length_append] at hle'
  have hlen : (A.read p.r n).2.1.length = min n (p.s.written.length - (A.out p.r).length) := by omega
  have hbytes : (A.read p.r n).2.1 = (p.s.written.drop (A.out p.r).length).take (A.read p.r n).2.1.length := by
    obtain ⟨t, ht⟩ := hpre'
    rw [hout'] at ht
    have : p.s.written.drop (A.out p.r).length = (A.read p.r n).2.1 ++ t := by
      rw [← ht, List.append_assoc, List.drop_left]
    rw [this, List.take_left]
  refine ⟨by rw [← hlen]; exact hbytes, fun hbig => ?_, fun hall => ?_⟩
  · exact hpre'.eq_of_length (by rw [hout', List.length_append]; omega)
  · obtain ⟨x, hx, hxf⟩ := hfin
    obtain ⟨f, hf, rfl⟩ := h.segs_emitted x hx
    have := h.finv.fem f hf hxf
    exact C.eof_complete p.r n h.reach hok hn (by rw [hall]) ⟨segOf f, hx, hxf, by rw [hall]; exact this.2⟩

end Uquic.Proofs.StreamE2E
