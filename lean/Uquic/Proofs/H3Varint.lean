/-
Helper lemmas for C18: QUIC varint encoding/decoding round trip, independent of how the byte
stream is cut into chunks.
-/
import Uquic.Model.H3.RespWriter

namespace Uquic.Proofs.H3
open Uquic.Model.H3

theorem beBytes_length (n v : Nat) : (beBytes n v).length = n := by
  induction n with
  | zero => rfl
  | succ n ih => simp [beBytes, ih]

theorem beBytes_fold (n v acc : Nat) :
    (beBytes n v).foldl (fun a b => a * 256 + b) acc = acc * 256 ^ n + v % 256 ^ n := by
  induction n generalizing acc with
  | zero => simp [beBytes, Nat.mod_one]
  | succ n ih =>
    simp only [beBytes, List.foldl_cons, ih]
    rw [Nat.mod_pow_succ (b := 256) (k := n)]
    rw [Nat.pow_succ]
    rw [Nat.add_mul, Nat.mul_assoc, Nat.mul_comm 256 (256 ^ n)]
    rw [Nat.mul_comm (v / 256 ^ n % 256) (256 ^ n)]
    omega

/-- the value range of length class `k` -/
def fitsK (k v : Nat) : Prop := k ≤ 3 ∧ v < 64 * 256 ^ (2 ^ k - 1)

theorem encVarintK_length (k v : Nat) : (encVarintK k v).length = 2 ^ k := by
  simp only [encVarintK, List.length_cons, beBytes_length]
  have : 0 < 2 ^ k := Nat.two_pow_pos k
  omega

/-- decoding the generic way agrees with decoding the projected bytes -/
theorem decVarintG_map {α : Type} (f : α → Nat) (cs : List α) :
    decVarintG f cs =
      match decVarint (cs.map f) with
      | none => none
      | some (v, k, _) => some (v, k, cs.drop k) := by
  cases cs with
  | nil => rfl
  | cons c cs =>
    simp only [decVarintG, decVarint, List.map_cons, id, List.length_take, List.length_map, List.map_take,
      List.map_id]
    split <;> simp_all

theorem decVarint_rest {bs : List Nat} {v k : Nat} {rest : List Nat} (h : decVarint bs = some (v, k, rest)) :
    rest = bs.drop k ∧ k ≤ bs.length ∧ 0 < k := by
  cases bs with
  | nil => simp [decVarint, decVarintG] at h
  | cons b bs =>
    simp only [decVarint, decVarintG, id, List.length_take, List.map_id] at h
    split at h
    · simp at h
    · simp only [Option.some.injEq, Prod.mk.injEq] at h
      obtain ⟨_, hk, hr⟩ := h
      subst hk hr
      refine ⟨by simp, ?_, by omega⟩
      simp only [List.length_cons]
      omega

theorem decVarint_enc (k v : Nat) (rest : List Nat) (h : fitsK k v) :
    decVarint (encVarintK k v ++ rest) = some (v, 2 ^ k, rest) := by
  obtain ⟨hk, hv⟩ := h
  have hpos : 0 < 2 ^ k := Nat.two_pow_pos k
  have hq : v / 256 ^ (2 ^ k - 1) < 64 := by
    rw [Nat.div_lt_iff_lt_mul (Nat.pow_pos (by decide))]
    exact hv
  have hb0d : (k * 64 + v / 256 ^ (2 ^ k - 1)) / 64 = k := by
    generalize v / 256 ^ (2 ^ k - 1) = q at hq; omega
  have hb0m : (k * 64 + v / 256 ^ (2 ^ k - 1)) % 64 = v / 256 ^ (2 ^ k - 1) := by
    generalize v / 256 ^ (2 ^ k - 1) = q at hq; omega
  simp only [decVarint, decVarintG, encVarintK, List.cons_append, id, hb0d, hb0m, List.map_id]
  have hlen : (beBytes (2 ^ k - 1) v).length = 2 ^ k - 1 := beBytes_length _ _
  have htake : (beBytes (2 ^ k - 1) v ++ rest).take (2 ^ k - 1) = beBytes (2 ^ k - 1) v := by
    rw [List.take_append_of_le_length (by omega), List.take_of_length_le (by omega)]
  have hdrop : (beBytes (2 ^ k - 1) v ++ rest).drop (2 ^ k - 1) = rest := by
    rw [List.drop_append_of_le_length (by omega), List.drop_of_length_le (by omega), List.nil_append]
  rw [htake, hdrop, hlen]
  simp only [Nat.lt_irrefl, ↓reduceIte, beBytes_fold]
  have : v / 256 ^ (2 ^ k - 1) * 256 ^ (2 ^ k - 1) + v % 256 ^ (2 ^ k - 1) = v := by
    rw [Nat.mul_comm]; exact Nat.div_add_mod v _
  rw [this, show 2 ^ k - 1 + 1 = 2 ^ k by omega]

/-- `quicvarint.Append` picks a length class that fits -/
theorem encVarint_eq (v : Nat) (hv : v < 2 ^ 62) : ∃ k, fitsK k v ∧ encVarint v = encVarintK k v := by
  unfold encVarint
  split
  · exact ⟨0, ⟨by omega, by simpa using ‹v < 64›⟩, rfl⟩
  · split
    · exact ⟨1, ⟨by omega, by simp; omega⟩, rfl⟩
    · split
      · exact ⟨2, ⟨by omega, by simp; omega⟩, rfl⟩
      · exact ⟨3, ⟨by omega, by simp; omega⟩, rfl⟩

end Uquic.Proofs.H3
