/-
Helper lemmas about the heap model of the synthesised Initial token (`Model.TokenHeap`): what `pop` leaves
alone, what the new token reads, and the invariant carried through a sequence of dials.
-/
import Uquic.Model.UQuic.TokenHeap

namespace Uquic.Proofs.TokenHeap

open Uquic.Model.Initial Uquic.Model.TokenHeap

theorem takeStream_len (s : Nat → Nat) (off n : Nat) : (takeStream s off n).length = n := by
  simp [takeStream]

theorem readArr_set_ne (h : List (List Nat)) (a b : Nat) (x : List Nat) (hab : a ≠ b) :
    readArr (h.set b x) a = readArr h a := by
  unfold readArr
  simp [List.getD_eq_getElem?_getD, List.getElem?_set_ne (Ne.symm hab)]

theorem readArr_set_eq (h : List (List Nat)) (a : Nat) (x : List Nat) (ha : a < h.length) :
    readArr (h.set a x) a = x := by
  unfold readArr
  simp [List.getD_eq_getElem?_getD, ha]

theorem readArr_append_left (h t : List (List Nat)) (a : Nat) (ha : a < h.length) :
    readArr (h ++ t) a = readArr h a := by
  unfold readArr
  simp [List.getD_eq_getElem?_getD, List.getElem?_append_left ha]

theorem readArr_append_new (h : List (List Nat)) (x : List Nat) : readArr (h ++ [x]) h.length = x := by
  unfold readArr
  simp [List.getD_eq_getElem?_getD]

theorem readArr_writeAt_ne (h : List (List Nat)) (a b pos : Nat) (bs : List Nat) (hab : a ≠ b) :
    readArr (writeAt h b pos bs) a = readArr h a := by
  unfold writeAt; exact readArr_set_ne _ _ _ _ hab

theorem readArr_writeAt_eq (h : List (List Nat)) (a pos : Nat) (bs : List Nat) (ha : a < h.length) :
    readArr (writeAt h a pos bs) a = overwrite (readArr h a) pos bs := by
  unfold writeAt; exact readArr_set_eq _ _ _ ha

theorem writeAt_length (h : List (List Nat)) (a pos : Nat) (bs : List Nat) : (writeAt h a pos bs).length = h.length := by
  simp [writeAt]

/-- reading a slice depends only on its own backing array -/
theorem read_congr (h h' : List (List Nat)) (s : Slice) (e : readArr h' s.arr = readArr h s.arr) : bytesOf h' s = bytesOf h s := by
  unfold bytesOf; rw [e]

theorem slack_congr (h h' : List (List Nat)) (s : Slice) (e : readArr h' s.arr = readArr h s.arr) : slack h' s = slack h s := by
  unfold slack; rw [e]

/-! ### `pop` -/

theorem pop_slice (h : List (List Nat)) (pre : Slice) (n : Nat) (s : Nat → Nat) (off : Nat) :
    (pop h pre n s off).2 = { arr := h.length, off := 0, len := n, cap := n } := rfl

theorem pop_length (h : List (List Nat)) (pre : Slice) (n : Nat) (s : Nat → Nat) (off : Nat) :
    (pop h pre n s off).1.length = h.length + 1 := by
  simp [pop, goCopy, alloc, writeAt_length]

/-- `Pop` writes to the array it has just allocated and to no other -/
theorem pop_keeps (h : List (List Nat)) (pre : Slice) (n : Nat) (s : Nat → Nat) (off : Nat) (a : Nat) (ha : a < h.length) :
    readArr (pop h pre n s off).1 a = readArr h a := by
  have hne : a ≠ h.length := by omega
  unfold pop goCopy alloc
  simp only []
  rw [readArr_writeAt_ne _ _ _ _ _ hne, readArr_writeAt_ne _ _ _ _ _ hne, readArr_append_left _ _ _ ha]

theorem overwrite_front (n : Nat) (p : List Nat) (hp : p.length ≤ n) :
    overwrite (List.replicate n 0) 0 p = p ++ List.replicate (n - p.length) 0 := by
  unfold overwrite
  simp only [List.take_zero, List.nil_append, List.length_replicate, Nat.sub_zero, Nat.zero_add]
  rw [List.take_of_length_le hp, Nat.min_eq_left hp, List.drop_replicate]

theorem overwrite_tail (p t : List Nat) (k : Nat) (ht : t.length = k) :
    overwrite (p ++ List.replicate k 0) p.length t = p ++ t := by
  unfold overwrite
  have h1 : (p ++ List.replicate k 0).length - p.length = k := by simp
  rw [h1, List.take_left' rfl, List.take_of_length_le (by omega), ht, Nat.min_self]
  have h2 : (p ++ List.replicate k 0).length ≤ p.length + k := by simp
  rw [List.drop_of_length_le h2]; simp

/-- the new token: the first `min n |prefix|` bytes of the prefix, then the random tail -/
theorem pop_read (h : List (List Nat)) (pre : Slice) (n : Nat) (s : Nat → Nat) (off : Nat)
    (hpre : pre.arr < h.length) (hlen : (bytesOf h pre).length = pre.len) :
    bytesOf (pop h pre n s off).1 (pop h pre n s off).2 =
      (bytesOf h pre).take (min n pre.len) ++ takeStream s off (n - min n pre.len) := by
  rw [pop_slice]
  unfold bytesOf
  simp only [List.drop_zero]
  unfold pop goCopy alloc
  simp only []
  have hl1 : h.length < (h ++ [List.replicate n 0]).length := by simp
  have hrd : bytesOf (h ++ [List.replicate n 0]) pre = bytesOf h pre :=
    read_congr _ _ _ (readArr_append_left _ _ _ hpre)
  have hpl : ((bytesOf h pre).take (min n pre.len)).length = min n pre.len := by
    rw [List.length_take, hlen]; omega
  rw [readArr_writeAt_eq _ _ _ _ (by rw [writeAt_length]; exact hl1),
      readArr_writeAt_eq _ _ _ _ hl1, readArr_append_new, hrd,
      overwrite_front n _ (by rw [hpl]; omega), hpl]
  have := overwrite_tail ((bytesOf h pre).take (min n pre.len)) (takeStream s off (n - min n pre.len)) (n - min n pre.len)
    (takeStream_len _ _ _)
  rw [hpl] at this
  rw [this]
  apply List.take_of_length_le
  rw [List.length_append, hpl, takeStream_len]; omega

/-! ### the invariant of a sequence of dials -/

/-- the token source the value model (`tokenFor`) is asked about: the prefix as it was before any dial -/
def specOf (h0 : List (List Nat)) (pre : Slice) (len : Nat) : Spec := { token := .synth (bytesOf h0 pre) len }

structure Inv (h0 : List (List Nat)) (pre : Slice) (len : Nat) (st : St) (done : List Draw) : Prop where
  /-- nothing that existed before the first dial has changed (the caller's arrays, spare capacity included) -/
  old : ∀ a, a < h0.length → readArr st.heap a = readArr h0 a
  /-- one fresh array per dial, allocated behind the caller's -/
  arrs : st.toks.map (·.1.arr) = List.range' h0.length done.length
  size : st.heap.length = h0.length + done.length
  /-- every token still reads what it bytesOf when it was made -/
  stable : ∀ t, t ∈ st.toks → bytesOf st.heap t.1 = t.2
  /-- … and that is the value model's token of its dial -/
  vals : st.toks.map (·.2) = done.map (fun d => tokenFor (specOf h0 pre len) d.s d.off)

theorem inv_init (h0 : List (List Nat)) (pre : Slice) (len : Nat) : Inv h0 pre len { heap := h0 } [] :=
  ⟨fun _ _ => rfl, rfl, rfl, fun _ ht => (by simp at ht), rfl⟩

theorem inv_dial (h0 : List (List Nat)) (pre : Slice) (len : Nat) (st : St) (done : List Draw) (d : Draw)
    (hpre : pre.arr < h0.length) (hlen : (bytesOf h0 pre).length = pre.len)
    (inv : Inv h0 pre len st done) : Inv h0 pre len (dial pre len st d) (done ++ [d]) := by
  have hsz := inv.size
  have hpre' : pre.arr < st.heap.length := by omega
  have hrp : bytesOf st.heap pre = bytesOf h0 pre := read_congr _ _ _ (inv.old _ hpre)
  have hnew := pop_read st.heap pre (max len pre.len) d.s d.off hpre' (by rw [hrp]; exact hlen)
  refine ⟨?_, ?_, ?_, ?_, ?_⟩
  · intro a ha
    show readArr (pop st.heap pre _ d.s d.off).1 a = _
    rw [pop_keeps _ _ _ _ _ _ (by omega)]; exact inv.old a ha
  · show (st.toks ++ [_]).map _ = _
    rw [List.map_append, inv.arrs, List.length_append, List.length_singleton, List.range'_concat]
    simp [pop_slice, hsz]
  · show (pop st.heap pre _ d.s d.off).1.length = _
    rw [pop_length, hsz, List.length_append, List.length_singleton]; omega
  · intro t ht
    have ht' : t ∈ st.toks ++ [((pop st.heap pre (max len pre.len) d.s d.off).2,
        bytesOf (pop st.heap pre (max len pre.len) d.s d.off).1 (pop st.heap pre (max len pre.len) d.s d.off).2)] := ht
    rcases List.mem_append.mp ht' with hold | hnw
    · have harr : t.1.arr ∈ List.range' h0.length done.length := by
        rw [← inv.arrs]; exact List.mem_map_of_mem hold
      have hlt : t.1.arr < st.heap.length := by
        have := List.mem_range'_1.mp harr; omega
      show bytesOf (pop st.heap pre _ d.s d.off).1 t.1 = t.2
      rw [read_congr _ _ _ (pop_keeps _ _ _ _ _ _ hlt)]
      exact inv.stable t hold
    · rw [List.mem_singleton.mp hnw]; rfl
  · show (st.toks ++ [_]).map _ = _
    rw [List.map_append, inv.vals, List.map_append]
    congr 1
    simp only [List.map_cons, List.map_nil]
    rw [hnew, hrp]
    have hm : min (max len pre.len) pre.len = pre.len := by omega
    rw [hm, List.take_of_length_le (by omega)]
    simp [tokenFor, specOf, tokenLength, hlen]

theorem inv_dials (h0 : List (List Nat)) (pre : Slice) (len : Nat) (ds : List Draw)
    (hpre : pre.arr < h0.length) (hlen : (bytesOf h0 pre).length = pre.len) :
    ∀ (st : St) (done : List Draw), Inv h0 pre len st done → Inv h0 pre len (dials pre len st ds) (done ++ ds) := by
  induction ds with
  | nil => intro st done inv; simpa [dials] using inv
  | cons d rest ih =>
    intro st done inv
    have := ih (dial pre len st d) (done ++ [d]) (inv_dial h0 pre len st done d hpre hlen inv)
    simpa [dials, List.append_assoc] using this

end Uquic.Proofs.TokenHeap
