/-
C04: the caller contract, reachability, and the global invariant of a connection
(one connection controller + its stream controllers), preserved by every operation.
-/
import Uquic.Proofs.FlowBasic

set_option linter.unusedVariables false

namespace Uquic.Proofs.Flow
open Uquic.Model.FlowControl

/-! ### what the callers in /repo guarantee -/

/-- The caller contract of one operation in state `s`:
* windows handed to the constructors are non-negative (config validation / transport parameters);
* offsets are non-negative (varints);
* `AddBytesRead n`: the receive stream only reads bytes it has received (`n ≤ highestReceived - bytesRead`);
* `AddBytesSent n`: `popNewOrRetransmittedStreamFrame` never pops more than `SendWindowSize()`. -/
def Pre (s : State) : Op → Prop
  | .newStream rw _ sw => 0 ≤ rw ∧ 0 ≤ sw
  | .recv _ off _ _ => 0 ≤ off
  | .read id n => 0 ≤ n ∧ ∀ st, s.streams[id]? = some st → n ≤ st.base.highestReceived - st.base.bytesRead
  | .sent id n => 0 ≤ n ∧ ∀ st, s.streams[id]? = some st → n ≤ st.sendWindowSize s.conn
  | _ => True

/-- an outcome after which the connection is closed -/
def Out.isFatal : Out → Bool
  | .recv .finalSize | .recv .flowControl | .panic _ | .resetErr => true
  | _ => false

/-- states reachable from a fresh connection by operations that respect the caller contract -/
inductive Reach : State → Prop
  | init (rw maxrw : Int) (cbNil : Bool) (rtt : Int) (h : 0 ≤ rw) :
      Reach { State.init rw maxrw cbNil with rtt := rtt }
  | step {s : State} (op : Op) : Reach s → Pre s op → Reach (step s op).1

/-- … and on which no fatal error has occurred so far (the connection is still open) -/
inductive ReachOk : State → Prop
  | init (rw maxrw : Int) (cbNil : Bool) (rtt : Int) (h : 0 ≤ rw) :
      ReachOk { State.init rw maxrw cbNil with rtt := rtt }
  | step {s : State} (op : Op) : ReachOk s → Pre s op → Out.isFatal (step s op).2 = false → ReachOk (step s op).1

theorem ReachOk.reach {s : State} (h : ReachOk s) : Reach s := by
  induction h with
  | init rw maxrw cbNil rtt h => exact Reach.init rw maxrw cbNil rtt h
  | step op _ hp _ ih => exact Reach.step op ih hp

/-- histories (operation lists) that respect the caller contract from `s` on -/
def ValidFrom (s : State) : List Op → Prop
  | [] => True
  | op :: ops => Pre s op ∧ ValidFrom (step s op).1 ops

theorem Reach.run {s : State} (h : Reach s) (ops : List Op) (hv : ValidFrom s ops) : Reach (run s ops) := by
  induction ops generalizing s with
  | nil => exact h
  | cons op ops ih => exact ih (Reach.step op h hv.1) hv.2

/-! ### the invariant -/

structure SLocal (st : Stream) : Prop where
  bs0 : 0 ≤ st.base.bytesSent
  bs : st.base.bytesSent ≤ st.base.sendWindow
  lb : st.base.lastBlockedAt ≤ st.base.sendWindow
  br0 : 0 ≤ st.base.bytesRead
  br : st.base.bytesRead ≤ st.base.highestReceived
  rw : st.base.receiveWindow ≤ st.base.bytesRead + st.base.receiveWindowSize
  rws0 : 0 ≤ st.base.receiveWindowSize

structure CLocal (c : Base) : Prop where
  bs : c.bytesSent ≤ c.sendWindow
  lb : c.lastBlockedAt ≤ c.sendWindow
  br0 : 0 ≤ c.bytesRead
  hr0 : 0 ≤ c.highestReceived
  rw : c.receiveWindow ≤ c.bytesRead + c.receiveWindowSize
  rws0 : 0 ≤ c.receiveWindowSize

structure Inv (s : State) : Prop where
  streams : ∀ st ∈ s.streams, SLocal st
  conn : CLocal s.conn
  sent : s.conn.bytesSent = sumBy (·.base.bytesSent) s.streams
  read : s.conn.bytesRead = sumBy (·.base.bytesRead) s.streams
  recvd : s.conn.highestReceived ≤ sumBy (·.base.highestReceived) s.streams

/-- how one stream operation moves the stream and the connection together -/
structure Delta (st st' : Stream) (c c' : Base) : Prop where
  bs : st'.base.bytesSent - st.base.bytesSent = c'.bytesSent - c.bytesSent
  br : st'.base.bytesRead - st.base.bytesRead = c'.bytesRead - c.bytesRead
  hr : c'.highestReceived - c.highestReceived ≤ st'.base.highestReceived - st.base.highestReceived

theorem Inv.lift {s : State} (h : Inv s) {id : Nat} {st st' : Stream} {c' : Base}
    (hs : s.streams[id]? = some st) (l1 : SLocal st') (l2 : CLocal c') (d : Delta st st' s.conn c') :
    Inv { s with streams := s.streams.set id st', conn := c' } := by
  obtain ⟨h1, h2, h3, h4, h5⟩ := h
  obtain ⟨d1, d2, d3⟩ := d
  constructor
  · intro z hz
    rcases mem_set_cases hz with hz | hz
    · subst hz; exact l1
    · exact h1 z hz
  · exact l2
  · simp only [sumBy_set _ _ _ _ _ hs]; omega
  · simp only [sumBy_set _ _ _ _ _ hs]; omega
  · simp only [sumBy_set _ _ _ _ _ hs]; omega

/-- operations on the connection controller alone -/
theorem Inv.liftConn {s : State} (h : Inv s) {c' : Base} (l2 : CLocal c')
    (e1 : c'.bytesSent = s.conn.bytesSent) (e2 : c'.bytesRead = s.conn.bytesRead)
    (e3 : c'.highestReceived = s.conn.highestReceived) : Inv { s with conn := c' } := by
  obtain ⟨h1, h2, h3, h4, h5⟩ := h
  exact ⟨h1, l2, by simpa [e1] using h3, by simpa [e2] using h4, by simpa [e3] using h5⟩

/-! ### component specifications (stream + connection) -/

/-- fields other than `highestReceived` and the epoch are untouched by `UpdateHighestReceived` -/
structure RecvSame (c c' : Base) : Prop where
  bs : c'.bytesSent = c.bytesSent
  sw : c'.sendWindow = c.sendWindow
  lb : c'.lastBlockedAt = c.lastBlockedAt
  br : c'.bytesRead = c.bytesRead
  rw : c'.receiveWindow = c.receiveWindow
  rws : c'.receiveWindowSize = c.receiveWindowSize
  mx : c'.maxReceiveWindowSize = c.maxReceiveWindowSize

theorem recv_same_stream (st : Stream) (c : Base) (off : Int) (fin : Bool) (now : Int) :
    RecvSame st.base (st.updateHighestReceived c off fin now).1.base := by
  unfold Stream.updateHighestReceived Conn.incrementHighestReceived
  simp only []
  repeat' split
  all_goals (constructor <;> simp [Base.startNewAutoTuningEpoch])

theorem recv_same_conn (st : Stream) (c : Base) (off : Int) (fin : Bool) (now : Int) :
    RecvSame c (st.updateHighestReceived c off fin now).2.1 := by
  unfold Stream.updateHighestReceived Conn.incrementHighestReceived
  simp only []
  repeat' split
  all_goals (constructor <;> simp [Base.startNewAutoTuningEpoch])

/-- the three ways `UpdateHighestReceived` moves the two `highestReceived` counters -/
theorem recv_highest (st : Stream) (c : Base) (off : Int) (fin : Bool) (now : Int) :
    let r := st.updateHighestReceived c off fin now
    (r.1.base.highestReceived = st.base.highestReceived ∧ r.2.1.highestReceived = c.highestReceived) ∨
    (st.base.highestReceived < off ∧ r.1.base.highestReceived = off ∧
      ((r.2.1.highestReceived = c.highestReceived ∧ r.2.2.1 = .flowControl) ∨
       r.2.1.highestReceived = c.highestReceived + (off - st.base.highestReceived))) := by
  unfold Stream.updateHighestReceived Conn.incrementHighestReceived
  simp only []
  repeat' split
  all_goals (simp [Base.startNewAutoTuningEpoch] at *)
  all_goals (try omega)

theorem recv_spec (st : Stream) (c : Base) (off : Int) (fin : Bool) (now : Int)
    (l1 : SLocal st) (l2 : CLocal c) (hoff : 0 ≤ off) :
    let r := st.updateHighestReceived c off fin now
    SLocal r.1 ∧ CLocal r.2.1 ∧ Delta st r.1 c r.2.1 ∧
    (r.2.2.1 = .ok → r.2.1.highestReceived - c.highestReceived = r.1.base.highestReceived - st.base.highestReceived) := by
  obtain ⟨a1, a2, a3, a4, a5, a6, a7⟩ := l1
  obtain ⟨b1, b2, b3, b4, b5, b6⟩ := l2
  obtain ⟨s1, s2, s3, s4, s5, s6, s7⟩ := recv_same_stream st c off fin now
  obtain ⟨c1, c2, c3, c4, c5, c6, c7⟩ := recv_same_conn st c off fin now
  have hh := recv_highest st c off fin now
  simp only [] at hh ⊢
  refine ⟨⟨?_, ?_, ?_, ?_, ?_, ?_, ?_⟩, ⟨?_, ?_, ?_, ?_, ?_, ?_⟩, ⟨?_, ?_, ?_⟩, ?_⟩
  all_goals (try omega)
  intro hok
  rw [hok] at hh
  simp at hh
  omega

theorem read_spec (st : Stream) (c : Base) (n : Int) (l1 : SLocal st) (l2 : CLocal c)
    (h0 : 0 ≤ n) (h1 : n ≤ st.base.highestReceived - st.base.bytesRead) :
    let r := st.addBytesRead c n
    SLocal r.1 ∧ CLocal r.2.1 ∧ Delta st r.1 c r.2.1 ∧ r.2.1.highestReceived = c.highestReceived ∧
      r.1.base.highestReceived = st.base.highestReceived := by
  obtain ⟨a1, a2, a3, a4, a5, a6, a7⟩ := l1
  obtain ⟨b1, b2, b3, b4, b5, b6⟩ := l2
  simp only [Stream.addBytesRead, Conn.addBytesRead, Base.addBytesRead]
  refine ⟨⟨?_, ?_, ?_, ?_, ?_, ?_, ?_⟩, ⟨?_, ?_, ?_, ?_, ?_, ?_⟩, ⟨?_, ?_, ?_⟩, ?_, ?_⟩
  all_goals (simp; try omega)

theorem abandon_spec (st : Stream) (c : Base) (l1 : SLocal st) (l2 : CLocal c) :
    let r := st.abandon c
    SLocal r.1 ∧ CLocal r.2 ∧ Delta st r.1 c r.2 ∧ r.2.highestReceived = c.highestReceived ∧
      r.1.base.highestReceived = st.base.highestReceived := by
  obtain ⟨a1, a2, a3, a4, a5, a6, a7⟩ := l1
  obtain ⟨b1, b2, b3, b4, b5, b6⟩ := l2
  simp only [Stream.abandon, Conn.addBytesRead, Base.addBytesRead]
  split
  all_goals (refine ⟨⟨?_, ?_, ?_, ?_, ?_, ?_, ?_⟩, ⟨?_, ?_, ?_, ?_, ?_, ?_⟩, ⟨?_, ?_, ?_⟩, ?_, ?_⟩)
  all_goals (simp; try omega)

theorem sent_spec (st : Stream) (c : Base) (n : Int) (l1 : SLocal st) (l2 : CLocal c)
    (h0 : 0 ≤ n) (h1 : n ≤ st.sendWindowSize c) :
    let r := st.addBytesSent c n
    SLocal r.1 ∧ CLocal r.2 ∧ Delta st r.1 c r.2 ∧ r.2.highestReceived = c.highestReceived ∧
      r.1.base.highestReceived = st.base.highestReceived := by
  obtain ⟨a1, a2, a3, a4, a5, a6, a7⟩ := l1
  obtain ⟨b1, b2, b3, b4, b5, b6⟩ := l2
  simp only [Stream.sendWindowSize, Base.sendWindowSize] at h1
  simp only [Stream.addBytesSent, Base.addBytesSent]
  have e1 : ¬ st.base.bytesSent > st.base.sendWindow := by omega
  have e2 : ¬ c.bytesSent > c.sendWindow := by omega
  simp only [e1, e2, if_false] at h1
  refine ⟨⟨?_, ?_, ?_, ?_, ?_, ?_, ?_⟩, ⟨?_, ?_, ?_, ?_, ?_, ?_⟩, ⟨?_, ?_, ?_⟩, ?_, ?_⟩
  all_goals (simp; try omega)

theorem blocked_spec (c : Base) :
    let r := c.isNewlyBlocked
    r.1.bytesSent = c.bytesSent ∧ r.1.sendWindow = c.sendWindow ∧ r.1.bytesRead = c.bytesRead ∧
    r.1.highestReceived = c.highestReceived ∧ r.1.receiveWindow = c.receiveWindow ∧
    r.1.receiveWindowSize = c.receiveWindowSize ∧ r.1.maxReceiveWindowSize = c.maxReceiveWindowSize ∧
    ((r.2.1 = false ∧ r.1.lastBlockedAt = c.lastBlockedAt) ∨
     (r.2.1 = true ∧ r.2.2 = c.sendWindow ∧ r.1.lastBlockedAt = c.sendWindow ∧ c.sendWindow ≠ c.lastBlockedAt ∧
        c.sendWindowSize = 0)) := by
  simp only [Base.isNewlyBlocked]
  split <;> simp <;> omega

theorem updateSendWindow_spec (c : Base) (v : Int) :
    let r := c.updateSendWindow v
    r.1.bytesSent = c.bytesSent ∧ r.1.sendWindow = max c.sendWindow v ∧ r.1.lastBlockedAt = c.lastBlockedAt ∧
    r.1.bytesRead = c.bytesRead ∧ r.1.highestReceived = c.highestReceived ∧ r.1.receiveWindow = c.receiveWindow ∧
    r.1.receiveWindowSize = c.receiveWindowSize ∧ r.1.maxReceiveWindowSize = c.maxReceiveWindowSize ∧
    (r.2 = true ↔ v > c.sendWindow) := by
  simp only [Base.updateSendWindow]
  split <;> simp <;> omega

/-- stream `GetWindowUpdate`: the stream is updated as by `getWindowUpdate` (or untouched), the
    connection only tuned -/
theorem supd_rel (st : Stream) (c : Base) (now rtt : Int) (allow : Option Bool) :
    let r := st.getWindowUpdate c now rtt allow
    (UpdRel st.base r.1.base r.2.2.1 ∨ (r.2.2.2.2 = true ∧ UpdRel st.base r.1.base r.1.base.receiveWindow) ∨
      (r.1 = st ∧ r.2.2.1 = 0)) ∧
    TuneRel c r.2.1 ∧ r.1.receivedFinalOffset = st.receivedFinalOffset := by
  simp only [Stream.getWindowUpdate]
  have h := getWindowUpdate_rel st.base now rtt none
  have h2 := ensureMin_rel c (connMinimumFor (st.base.getWindowUpdate now rtt none).1.receiveWindowSize) now allow
  have hpan : UpdRel st.base (st.base.getWindowUpdate now rtt none).1 0 ∨
      UpdRel st.base (st.base.getWindowUpdate now rtt none).1 (st.base.getWindowUpdate now rtt none).1.receiveWindow := by
    rcases h.rw with ⟨e1, e2⟩ | ⟨e1, e2⟩
    · left; exact ⟨h.bs, h.sw, h.lb, h.br, h.hr, h.mx, h.lo, h.hi, Or.inl ⟨rfl, e2⟩⟩
    · right; exact ⟨h.bs, h.sw, h.lb, h.br, h.hr, h.mx, h.lo, h.hi, Or.inr ⟨rfl, e2⟩⟩
  split
  · exact ⟨Or.inr (Or.inr ⟨rfl, rfl⟩), TuneRel.refl c, rfl⟩
  · split
    · refine ⟨?_, TuneRel.refl c, rfl⟩
      rcases hpan with hp | hp
      · exact Or.inl hp
      · exact Or.inr (Or.inl ⟨rfl, hp⟩)
    · split
      · split
        · refine ⟨?_, h2, rfl⟩
          rcases hpan with hp | hp
          · exact Or.inl hp
          · exact Or.inr (Or.inl ⟨rfl, hp⟩)
        · exact ⟨Or.inl h, h2, rfl⟩
      · exact ⟨Or.inl h, TuneRel.refl c, rfl⟩

/-! ### the invariant is inductive -/

theorem inv_init (rw maxrw : Int) (cbNil : Bool) (rtt : Int) (h : 0 ≤ rw) :
    Inv { State.init rw maxrw cbNil with rtt := rtt } := by
  constructor
  · intro st hst; simp [State.init] at hst
  · constructor <;> simp [State.init, Conn.new] <;> omega
  all_goals simp [State.init, Conn.new]

theorem SLocal.of_tune {st st' : Stream} {off : Int} (l : SLocal st) (h : UpdRel st.base st'.base off) : SLocal st' := by
  obtain ⟨a1, a2, a3, a4, a5, a6, a7⟩ := l
  obtain ⟨u1, u2, u3, u4, u5, u6, u7, u8, u9⟩ := h
  constructor <;> omega

theorem CLocal.of_tune {c c' : Base} (l : CLocal c) (h : TuneRel c c') : CLocal c' := by
  obtain ⟨b1, b2, b3, b4, b5, b6⟩ := l
  obtain ⟨u1, u2, u3, u4, u5, u6, u7, u8, u9⟩ := h
  constructor <;> omega

theorem CLocal.of_upd {c c' : Base} {off : Int} (l : CLocal c) (h : UpdRel c c' off) : CLocal c' := by
  obtain ⟨b1, b2, b3, b4, b5, b6⟩ := l
  obtain ⟨u1, u2, u3, u4, u5, u6, u7, u8, u9⟩ := h
  constructor <;> omega

theorem inv_step {s : State} (op : Op) (h : Inv s) (hp : Pre s op) : Inv (step s op).1 := by
  cases op with
  | newStream rw maxrw sw =>
    obtain ⟨h1, h2, h3, h4, h5⟩ := h
    simp only [Pre] at hp
    simp only [step, stepT]
    constructor
    · intro st hst
      simp at hst
      rcases hst with hst | hst
      · exact h1 st hst
      · subst hst; constructor <;> simp [Stream.new] <;> omega
    · exact h2
    all_goals (simp only [sumBy_append]; simp [Stream.new]; omega)
  | rtt v =>
    obtain ⟨h1, h2, h3, h4, h5⟩ := h
    exact ⟨h1, h2, h3, h4, h5⟩
  | recv id off fin now =>
    simp only [step, stepT]
    split
    · exact h
    · rename_i st heq
      have sp := recv_spec st s.conn off fin now (h.streams st (mem_of_getElem? heq)) h.conn hp
      exact Inv.lift h heq sp.1 sp.2.1 sp.2.2.1
  | read id n =>
    simp only [step, stepT]
    split
    · exact h
    · rename_i st heq
      have sp := read_spec st s.conn n (h.streams st (mem_of_getElem? heq)) h.conn hp.1 (hp.2 st heq)
      exact Inv.lift h heq sp.1 sp.2.1 sp.2.2.1
  | abandon id =>
    simp only [step, stepT]
    split
    · exact h
    · rename_i st heq
      have sp := abandon_spec st s.conn (h.streams st (mem_of_getElem? heq)) h.conn
      exact Inv.lift h heq sp.1 sp.2.1 sp.2.2.1
  | sent id n =>
    simp only [step, stepT]
    split
    · exact h
    · rename_i st heq
      have sp := sent_spec st s.conn n (h.streams st (mem_of_getElem? heq)) h.conn hp.1 (hp.2 st heq)
      exact Inv.lift h heq sp.1 sp.2.1 sp.2.2.1
  | supd id now allow =>
    simp only [step, stepT]
    split
    · exact h
    · rename_i st heq
      have l1 := h.streams st (mem_of_getElem? heq)
      have sp := supd_rel st s.conn now s.rtt (s.allowOf allow)
      simp only [] at sp
      obtain ⟨sp1, sp2, _⟩ := sp
      have l2 := CLocal.of_tune h.conn sp2
      have hinv : Inv { s with streams := s.streams.set id (st.getWindowUpdate s.conn now s.rtt (s.allowOf allow)).1,
                               conn := (st.getWindowUpdate s.conn now s.rtt (s.allowOf allow)).2.1 } := by
        refine Inv.lift h heq ?_ l2 ?_
        · rcases sp1 with u | ⟨_, u⟩ | ⟨e, _⟩
          · exact SLocal.of_tune l1 u
          · exact SLocal.of_tune l1 u
          · rw [e]; exact l1
        · obtain ⟨t1, t2, t3, t4, t5, t6, t7, t8, t9⟩ := sp2
          rcases sp1 with u | ⟨_, u⟩ | ⟨e, _⟩
          · exact ⟨by have := u.bs; omega, by have := u.br; omega, by have := u.hr; omega⟩
          · exact ⟨by have := u.bs; omega, by have := u.br; omega, by have := u.hr; omega⟩
          · rw [e]; exact ⟨by omega, by omega, by omega⟩
      split <;> exact hinv
  | cupd now allow =>
    simp only [step, stepT]
    have u := getWindowUpdate_rel s.conn now s.rtt (s.allowOf allow)
    have hinv := Inv.liftConn h (CLocal.of_upd h.conn u) u.bs u.br u.hr
    split <;> exact hinv
  | smax id v =>
    simp only [step, stepT]
    split
    · exact h
    · rename_i st heq
      obtain ⟨a1, a2, a3, a4, a5, a6, a7⟩ := h.streams st (mem_of_getElem? heq)
      obtain ⟨u1, u2, u3, u4, u5, u6, u7, u8, _⟩ := updateSendWindow_spec st.base v
      refine Inv.lift h heq ?_ h.conn ?_
      · constructor <;> simp only [] <;> omega
      · constructor <;> simp only [] <;> omega
  | cmax v =>
    simp only [step, stepT]
    obtain ⟨b1, b2, b3, b4, b5, b6⟩ := h.conn
    obtain ⟨u1, u2, u3, u4, u5, u6, u7, u8, _⟩ := updateSendWindow_spec s.conn v
    refine Inv.liftConn h ?_ u1 u4 u5
    constructor <;> omega
  | swin id =>
    simp only [step, stepT]
    split <;> exact h
  | cwin => exact h
  | sblocked id =>
    simp only [step, stepT]
    split
    · exact h
    · rename_i st heq
      obtain ⟨a1, a2, a3, a4, a5, a6, a7⟩ := h.streams st (mem_of_getElem? heq)
      obtain ⟨u1, u2, u3, u4, u5, u6, u7, u8⟩ := blocked_spec st.base
      refine Inv.lift h heq ?_ h.conn ?_
      · simp only [Stream.isNewlyBlocked]; constructor <;> simp only [] <;> omega
      · simp only [Stream.isNewlyBlocked]; constructor <;> simp only [] <;> omega
  | cblocked =>
    simp only [step, stepT]
    obtain ⟨b1, b2, b3, b4, b5, b6⟩ := h.conn
    obtain ⟨u1, u2, u3, u4, u5, u6, u7, u8⟩ := blocked_spec s.conn
    refine Inv.liftConn h ?_ u1 u3 u4
    constructor <;> omega
  | reset =>
    simp only [step, stepT]
    split
    · exact h
    · rename_i c heq
      obtain ⟨b1, b2, b3, b4, b5, b6⟩ := h.conn
      simp only [Conn.reset] at heq
      split at heq
      · simp at heq
      · rename_i hc
        simp at heq
        subst heq
        constructor
        · intro st hst; simp at hst
        · constructor <;> simp only [] <;> omega
        all_goals (simp; try omega)

theorem Reach.inv {s : State} (h : Reach s) : Inv s := by
  induction h with
  | init rw maxrw cbNil rtt h => exact inv_init rw maxrw cbNil rtt h
  | step op _ hp ih => exact inv_step op ih hp

end Uquic.Proofs.Flow
