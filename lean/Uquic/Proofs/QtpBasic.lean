/-
C11 helper lemmas: GREASE ids, suppression, canonical ids and sorting.
-/
import Uquic.Model.UQuic.QTP
import Uquic.Spec.QtpMon

namespace Uquic.Proofs.Qtp
open Uquic.Model.QTP Uquic.Spec.QtpMon Uquic.Gen.UQuic

theorem isGrease_iff' (id : Nat) : isGrease id = true ↔ (id ≥ 27 ∧ (id - 27) % 31 = 0) := by
  simp [isGrease, QTPGrease, greaseModulus]

theorem isGrease_iff (id : Nat) : isGrease id = true ↔ ∃ n, id = greaseModulus * n + QTPGrease := by
  rw [isGrease_iff']
  simp only [QTPGrease, greaseModulus]
  constructor
  · intro ⟨h1, h2⟩
    exact ⟨(id - 27) / 31, by omega⟩
  · rintro ⟨n, rfl⟩
    omega

theorem isGrease_eq_greaseID (id : Nat) : isGrease id = greaseID id := by
  rw [Bool.eq_iff_iff, isGrease_iff']
  simp only [greaseID, beq_iff_eq]
  omega

theorem canonID_eq_specCanon (id : Nat) : canonID id = specCanon id := by
  simp [canonID, specCanon, isGrease_eq_greaseID, canonGrease, QTPGrease]

theorem not_dropped_eq_specKeep (S : List Nat) (id : Nat) : (!dropped S id) = specKeep S id := by
  simp only [dropped, specKeep, canonGrease, isGrease_eq_greaseID, QTPGrease]
  by_cases h : id = 27
  · subst h
    have : greaseID 27 = true := by decide
    simp [this]
  · have : (id != 27) = true := by simp [h]
    simp [this]

theorem suppress_eq_specSuppress (ps : List Param) (S : List Nat) : suppress ps S = specSuppress ps S := by
  unfold suppress specSuppress
  split
  · rename_i h
    have hS : S = [] := by simpa using h
    subst hS
    exact (List.filter_eq_self.mpr (by intro p _; simp [specKeep])).symm
  · congr 1
    funext p
    exact not_dropped_eq_specKeep S p.id

theorem specKeep_iff (S : List Nat) (id : Nat) :
    specKeep S id = true ↔ id ∉ S ∧ ¬ (27 ∈ S ∧ id % 31 = 27) := by
  unfold specKeep canonGrease greaseID
  by_cases h1 : id ∈ S <;> by_cases h2 : 27 ∈ S <;> by_cases h3 : id % 31 = 27 <;> simp [h1, h2, h3]

/-! ### sorting -/

theorem insertSorted_perm (x : Nat) (l : List Nat) : (insertSorted x l).Perm (x :: l) := by
  induction l with
  | nil => simp [insertSorted]
  | cons y ys ih =>
    unfold insertSorted
    split
    · exact List.Perm.refl _
    · exact (List.Perm.cons y ih).trans (List.Perm.swap x y ys)

theorem sortIDs_perm (l : List Nat) : (sortIDs l).Perm l := by
  induction l with
  | nil => simp [sortIDs]
  | cons x xs ih =>
    unfold sortIDs
    exact (insertSorted_perm x _).trans (List.Perm.cons x ih)

theorem insertSorted_sorted (x : Nat) (l : List Nat) (h : l.Pairwise (· ≤ ·)) :
    (insertSorted x l).Pairwise (· ≤ ·) := by
  induction l with
  | nil => simp [insertSorted]
  | cons y ys ih =>
    unfold insertSorted
    rw [List.pairwise_cons] at h
    split
    · rename_i hxy
      rw [List.pairwise_cons]
      refine ⟨?_, List.pairwise_cons.mpr h⟩
      intro a ha
      rcases List.mem_cons.mp ha with rfl | ha
      · exact hxy
      · exact Nat.le_trans hxy (h.1 a ha)
    · rename_i hxy
      rw [List.pairwise_cons]
      refine ⟨?_, ih h.2⟩
      intro a ha
      have := (insertSorted_perm x ys).mem_iff.mp ha
      rcases List.mem_cons.mp this with rfl | ha
      · omega
      · exact h.1 a ha

theorem sortIDs_sorted (l : List Nat) : (sortIDs l).Pairwise (· ≤ ·) := by
  induction l with
  | nil => simp [sortIDs]
  | cons x xs ih => unfold sortIDs; exact insertSorted_sorted x _ ih

/-- a sorted permutation is unique: whatever `slices.Sort` does, this is its result -/
theorem eq_sortIDs_of_sorted_perm (l s : List Nat) (hs : s.Pairwise (· ≤ ·)) (hp : s.Perm l) : s = sortIDs l :=
  List.Perm.eq_of_pairwise (le := (· ≤ ·)) (fun _ _ _ _ h1 h2 => Nat.le_antisymm h1 h2) hs (sortIDs_sorted l)
    (hp.trans (sortIDs_perm l).symm)

theorem sortIDs_eq_of_perm {l l' : List Nat} (h : l.Perm l') : sortIDs l = sortIDs l' :=
  eq_sortIDs_of_sorted_perm l' (sortIDs l) (sortIDs_sorted l) ((sortIDs_perm l).trans h)

theorem sortedLE_iff (l : List Nat) : sortedLE l = true ↔ l.Pairwise (· ≤ ·) := by
  induction l with
  | nil => simp [sortedLE]
  | cons a t ih =>
    cases t with
    | nil => simp [sortedLE]
    | cons b t' =>
      simp only [sortedLE, Bool.and_eq_true, decide_eq_true_eq, ih]
      constructor
      · intro ⟨hab, h⟩
        rw [List.pairwise_cons]
        refine ⟨?_, h⟩
        intro x hx
        rcases List.mem_cons.mp hx with rfl | hx
        · exact hab
        · exact Nat.le_trans hab ((List.pairwise_cons.mp h).1 x hx)
      · intro h
        rw [List.pairwise_cons] at h
        exact ⟨h.1 b (by simp), h.2⟩

theorem canonIDs_perm {l l' : List Param} (h : l.Perm l') : (canonIDs l).Perm (canonIDs l') :=
  List.Perm.map _ h

end Uquic.Proofs.Qtp
