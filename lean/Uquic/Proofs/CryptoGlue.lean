/-
C03: the crypto stream behind the packet glue (`Conn.handleFrames` / `Conn.handleCryptoFrame`):
what the drain loop hands to the TLS stack, and the highest offset as the maximum over all accepted frames.
-/
import Uquic.Proofs.SorterPop
import Uquic.Model.Reassembly.Crypto

namespace Uquic.Proofs.Crypto
open Uquic.Model.Reassembly Uquic.Proofs.Sorter

/-- the drain loop: everything contiguous at the read position is handed over, as source bytes -/
theorem drain_spec {src : Nat → UInt8} (fuel : Nat) (s : CryptoStream) (h : Inv src s.queue)
    (hf : s.queue.queue.length < fuel) :
    (CryptoStream.drain fuel s).2.2 = false ∧ Inv src (CryptoStream.drain fuel s).1.queue ∧
    s.queue.readPos ≤ (CryptoStream.drain fuel s).1.queue.readPos ∧
    (CryptoStream.drain fuel s).2.1.flatten =
      srcSeg src s.queue.readPos ((CryptoStream.drain fuel s).1.queue.readPos - s.queue.readPos) ∧
    qget (CryptoStream.drain fuel s).1.queue.queue (CryptoStream.drain fuel s).1.queue.readPos = none ∧
    (CryptoStream.drain fuel s).1.finished = s.finished ∧
    (CryptoStream.drain fuel s).1.highestOffset = s.highestOffset := by
  induction fuel generalizing s with
  | zero => omega
  | succ n ih =>
    rw [CryptoStream.drain]
    unfold CryptoStream.getCryptoData
    rcases pop_spec h with ⟨hq, hp⟩ | ⟨e, he, hp, hdata, hpos, hI, _⟩
    · rw [hp]
      exact ⟨rfl, h, Nat.le_refl _, by simp [srcSeg], hq, rfl, rfl⟩
    · rw [hp]
      simp only
      have hlen : (qdel s.queue.queue s.queue.readPos).length < n := by
        have := qdel_length_lt he; omega
      have IH := ih { s with queue := { s.queue with queue := qdel s.queue.queue s.queue.readPos, readPos := s.queue.readPos + e.data.length } }
          hI hlen
      generalize CryptoStream.drain n { s with queue := { s.queue with queue := qdel s.queue.queue s.queue.readPos, readPos := s.queue.readPos + e.data.length } } = D at IH ⊢
      obtain ⟨i1, i2, i3, i4, i5, i6, i7⟩ := IH
      simp only at i3 i4 i6 i7
      refine ⟨i1, i2, by omega, ?_, i5, i6, i7⟩
      simp only [List.flatten_cons]
      rw [i4]
      conv => lhs; rw [hdata]
      rw [srcSeg_length, srcSeg_append]
      congr 1
      omega

/-- `Conn.handleCryptoFrame` for a consistent frame inside the crypto buffer limit on an open stream: no
panic; unless the gap limit is hit the sorter invariant holds again, the messages handed to TLS are
exactly the source bytes from the old to the new read position, nothing deliverable is left behind, and
the highest offset is the maximum of the old one and the frame's end. -/
theorem handleAndDrain_spec {src : Nat → UInt8} (s : CryptoStream) (h : Inv src s.queue) (off len : Nat)
    (hopen : s.finished = false) (hlim : off + len ≤ maxCryptoStreamOffset) :
    ((s.handleAndDrain off (srcSeg src off len)).2.1 = none ∨ (s.handleAndDrain off (srcSeg src off len)).2.1 = some .tooManyGaps) ∧
    ((s.handleAndDrain off (srcSeg src off len)).2.1 = none →
      Inv src (s.handleAndDrain off (srcSeg src off len)).1.queue ∧
      s.queue.readPos ≤ (s.handleAndDrain off (srcSeg src off len)).1.queue.readPos ∧
      (s.handleAndDrain off (srcSeg src off len)).2.2.flatten =
        srcSeg src s.queue.readPos ((s.handleAndDrain off (srcSeg src off len)).1.queue.readPos - s.queue.readPos) ∧
      qget (s.handleAndDrain off (srcSeg src off len)).1.queue.queue (s.handleAndDrain off (srcSeg src off len)).1.queue.readPos = none ∧
      (s.handleAndDrain off (srcSeg src off len)).1.finished = false ∧
      (s.handleAndDrain off (srcSeg src off len)).1.highestOffset = max s.highestOffset (off + len)) := by
  obtain ⟨q0, h0, f0⟩ := s
  simp only at hopen h
  subst hopen
  have hmaxlt : off + len < maxByteCount := by
    have : maxCryptoStreamOffset < maxByteCount := by
      unfold maxCryptoStreamOffset maxByteCount Uquic.Gen.Protocol.MaxCryptoStreamOffset Uquic.Gen.Protocol.MaxByteCount
      decide
    omega
  have sp := push_spec h (srcSeg src off len) off none (by rw [srcSeg_length]; exact hmaxlt)
    (fun j hj => srcSeg_get src off _ j (by rw [srcSeg_length] at hj; exact hj))
  rw [srcSeg_length] at sp
  unfold CryptoStream.handleAndDrain CryptoStream.handleCryptoFrame
  simp only [srcSeg_length, Bool.false_eq_true, if_false, show ¬ off + len > maxCryptoStreamOffset by omega]
  rcases sp.res with hr | hr
  · rw [hr]
    simp only
    have hI := sp.inv hr
    obtain ⟨d1, d2, d3, d4, d5, d6, d7⟩ := drain_spec (src := src)
      ((q0.push (srcSeg src off len) off none).s.queue.length + 1)
      { queue := (q0.push (srcSeg src off len) off none).s, highestOffset := max h0 (off + len), finished := false }
      hI (Nat.lt_succ_self _)
    simp only at d1 d2 d3 d4 d5 d6 d7
    rw [d1]
    simp only [Bool.false_eq_true, if_false, true_or, forall_const, true_and]
    rw [sp.rp] at d3 d4
    exact ⟨d2, d3, d4, d5, d6, d7⟩
  · rw [hr]
    simp

/-- a whole packet of consistent CRYPTO frames on an open stream, every frame accepted: the invariant
holds again and the messages handed to TLS, in order, are exactly the source bytes from the old to the new
read position -/
theorem handlePacket_spec {src : Nat → UInt8} (frames : List (Nat × Nat)) (s : CryptoStream) (h : Inv src s.queue)
    (hopen : s.finished = false) (hlim : ∀ f ∈ frames, f.1 + f.2 ≤ maxCryptoStreamOffset)
    (hok : ∀ r ∈ (s.handlePacket (frames.map fun f => (f.1, srcSeg src f.1 f.2))).2.1, r = none) :
    Inv src (s.handlePacket (frames.map fun f => (f.1, srcSeg src f.1 f.2))).1.queue ∧
    s.queue.readPos ≤ (s.handlePacket (frames.map fun f => (f.1, srcSeg src f.1 f.2))).1.queue.readPos ∧
    (s.handlePacket (frames.map fun f => (f.1, srcSeg src f.1 f.2))).2.2.flatten =
      srcSeg src s.queue.readPos
        ((s.handlePacket (frames.map fun f => (f.1, srcSeg src f.1 f.2))).1.queue.readPos - s.queue.readPos) := by
  induction frames generalizing s with
  | nil => simp [CryptoStream.handlePacket, h, srcSeg]
  | cons f fs ih =>
    simp only [List.map_cons, CryptoStream.handlePacket] at hok ⊢
    obtain ⟨a1, a2⟩ := handleAndDrain_spec s h f.1 f.2 hopen (hlim f (by simp))
    cases he : (s.handleAndDrain f.1 (srcSeg src f.1 f.2)).2.1 with
    | some e =>
      rw [he] at hok
      simp only at hok
      have := hok (some e) (by simp)
      cases this
    | none =>
      rw [he] at hok
      simp only at hok ⊢
      obtain ⟨b1, b2, b3, _, b5, _⟩ := a2 he
      have IH := ih (s.handleAndDrain f.1 (srcSeg src f.1 f.2)).1 b1 b5
        (fun g hg => hlim g (List.mem_cons_of_mem _ hg)) (fun r hr => hok r (List.mem_cons_of_mem _ hr))
      obtain ⟨c1, c2, c3⟩ := IH
      refine ⟨c1, by omega, ?_⟩
      rw [List.flatten_append, b3, c3]
      have := srcSeg_append src s.queue.readPos
        ((s.handleAndDrain f.1 (srcSeg src f.1 f.2)).1.queue.readPos - s.queue.readPos)
        ((CryptoStream.handlePacket (s.handleAndDrain f.1 (srcSeg src f.1 f.2)).1
            (fs.map fun f => (f.1, srcSeg src f.1 f.2))).1.queue.readPos -
          (s.handleAndDrain f.1 (srcSeg src f.1 f.2)).1.queue.readPos)
      have e1 : s.queue.readPos + ((s.handleAndDrain f.1 (srcSeg src f.1 f.2)).1.queue.readPos - s.queue.readPos) =
          (s.handleAndDrain f.1 (srcSeg src f.1 f.2)).1.queue.readPos := by omega
      rw [e1] at this
      rw [this]
      congr 1
      omega

/-! ### the highest offset is the maximum over everything accepted -/

inductive COp where
  | frame (off : Nat) (data : Bytes)
  | get
  | finish

structure CRun where
  s : CryptoStream := {}
  /-- ends `off + len` of the frames the stream accepted while it was open -/
  acc : List Nat := []

def cstep (r : CRun) : COp → CRun
  | .frame off data =>
    { s := (r.s.handleCryptoFrame off data).1,
      acc := if r.s.finished = false ∧ off + data.length ≤ maxCryptoStreamOffset then (off + data.length) :: r.acc else r.acc }
  | .get => { r with s := r.s.getCryptoData.1 }
  | .finish => { r with s := r.s.finish.1 }

def crun (ops : List COp) : CRun := ops.foldl cstep {}

theorem handle_highest (s : CryptoStream) (off : Nat) (data : Bytes) :
    s.highestOffset ≤ (s.handleCryptoFrame off data).1.highestOffset ∧
    (s.finished = false → off + data.length ≤ maxCryptoStreamOffset →
      off + data.length ≤ (s.handleCryptoFrame off data).1.highestOffset) ∧
    ((s.handleCryptoFrame off data).1.finished = s.finished) := by
  unfold CryptoStream.handleCryptoFrame
  simp only
  split
  · refine ⟨Nat.le_refl _, ?_, rfl⟩
    intro _ h2; omega
  · split
    · split <;> simp_all
    · refine ⟨?_, ?_, ?_⟩ <;> (split <;> simp <;> omega)

theorem crun_inv (ops : List COp) : ∀ hi ∈ (crun ops).acc, hi ≤ (crun ops).s.highestOffset := by
  unfold crun
  have : ∀ (r : CRun), (∀ hi ∈ r.acc, hi ≤ r.s.highestOffset) →
      ∀ hi ∈ (ops.foldl cstep r).acc, hi ≤ (ops.foldl cstep r).s.highestOffset := by
    induction ops with
    | nil => intro r h; exact h
    | cons op ops ih =>
      intro r h
      simp only [List.foldl_cons]
      apply ih
      cases op with
      | frame off data =>
        simp only [cstep]
        obtain ⟨h1, h2, _⟩ := handle_highest r.s off data
        intro hi hm
        split at hm
        · rename_i hc
          rcases List.mem_cons.mp hm with hm | hm
          · subst hm; exact h2 hc.1 hc.2
          · have := h hi hm; omega
        · have := h hi hm; omega
      | get =>
        simp only [cstep]
        intro hi hm
        have : r.s.getCryptoData.1.highestOffset = r.s.highestOffset := by
          unfold CryptoStream.getCryptoData; split <;> rfl
        rw [this]; exact h hi hm
      | finish =>
        simp only [cstep]
        intro hi hm
        have : r.s.finish.1.highestOffset = r.s.highestOffset := by
          unfold CryptoStream.finish; split <;> rfl
        rw [this]; exact h hi hm
  exact this {} (by simp)

end Uquic.Proofs.Crypto
