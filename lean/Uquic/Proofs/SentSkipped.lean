/-
The remembered skipped packet numbers (property C06, `ack_of_skipped_partial`): in a history without a
Retry, `sentPacketHistory.skippedPackets` of the application-data space is exactly the last
`maxSkippedPackets` of all packet numbers skipped so far.
-/
import Uquic.Proofs.SentTimer

namespace Uquic.Proofs.Sent
open Uquic.Model.Sent List

/-- `SkippedPacket`'s update of the remembered list: evict the oldest when `maxSkippedPackets` are remembered -/
def pushSkipped (cur : List PN) (x : PN) : List PN := (if cur.length = maxSkippedPackets then cur.drop 1 else cur) ++ [x]

/-- remembered list after recording `new` (in order) -/
def ring (cur : List PN) (new : List PN) : List PN := new.foldl pushSkipped cur

/-- the last `n` elements -/
def lastN (n : Nat) (l : List PN) : List PN := l.drop (l.length - n)

theorem maxSkippedPackets_eq : maxSkippedPackets = 4 := by decide

theorem lastN_push (gs : List PN) (x : PN) : pushSkipped (lastN maxSkippedPackets gs) x = lastN maxSkippedPackets (gs ++ [x]) := by
  unfold pushSkipped lastN
  rw [maxSkippedPackets_eq]
  simp only [List.length_drop, List.length_append, List.length_singleton]
  by_cases h : gs.length ≥ 4
  · have h1 : gs.length - (gs.length - 4) = 4 := by omega
    simp only [h1, if_true, List.drop_drop]
    have h2 : gs.length - 4 + 1 = gs.length + 1 - 4 := by omega
    rw [h2]
    rw [List.drop_append_of_le_length (by omega)]
  · have h1 : gs.length - (gs.length - 4) ≠ 4 := by omega
    simp only [h1, if_false]
    have h2 : gs.length - 4 = 0 := by omega
    have h3 : gs.length + 1 - 4 = 0 := by omega
    simp [h2, h3]

theorem lastN_ring (gs new : List PN) : ring (lastN maxSkippedPackets gs) new = lastN maxSkippedPackets (gs ++ new) := by
  induction new generalizing gs with
  | nil => simp [ring]
  | cons x xs ih =>
    simp only [ring, List.foldl_cons]
    rw [lastN_push]
    have := ih (gs ++ [x])
    simp only [ring] at this
    rw [this]; simp

theorem ring_nil (cur : List PN) : ring cur [] = cur := rfl
theorem ring_append (cur a b : List PN) : ring cur (a ++ b) = ring (ring cur a) b := by simp [ring, List.foldl_append]

theorem skippedPacket_skipped {h h' : Hist} {pn : PN} (e : h.skippedPacket pn = some h') : h'.skipped = pushSkipped h.skipped pn := by
  unfold Hist.skippedPacket at e
  cases e1 : h.checkSeq pn with
  | none => simp [e1] at e
  | some h1 =>
    obtain ⟨_, _, c, _⟩ := checkSeq_packets e1
    simp only [e1, Option.some.injEq] at e
    subst e
    simp only [pushSkipped, c]

theorem declareLost_skipped {h h' : Hist} {pn : PN} (e : h.declareLost pn = .ok h') : h'.skipped = h.skipped := by
  unfold Hist.declareLost at e
  cases e1 : h.getIndex pn with
  | none => simp [e1] at e; subst e; rfl
  | some idx =>
    simp only [e1] at e
    cases e2 : (h.packets[idx]?).join with
    | none => simp [e2] at e
    | some q =>
      simp only [e2] at e
      split at e
      · simp at e
      · simp only [LostRes.ok.injEq] at e
        subst e
        split <;> simp

theorem remove_skipped {h h' : Hist} {pn : PN} {p : Packet} (e : h.remove pn = .ok h' p) : h'.skipped = h.skipped :=
  (remove_spec e).choose_spec.2.2.2.2.2

theorem Gen.pop_spec (g : Gen) (nts : PN) :
    ((g.pop nts).1 = true → g.skipping = true) ∧ (g.pop nts).2.2.skipping = g.skipping := by
  unfold Gen.pop
  split
  · rename_i hc; exact ⟨fun _ => hc.1, by simp [Gen.generateNewSkip]⟩
  · exact ⟨fun h => by simp at h, rfl⟩

theorem Space.pop_skipped {sp sp' : Space} {nts pn : PN} {sk : List PN} (e : sp.pop nts = some (sp', pn, sk)) :
    sp'.hist.skipped = ring sp.hist.skipped sk ∧ sp'.gen.skipping = sp.gen.skipping ∧ (sp.gen.skipping = false → sk = []) := by
  unfold Space.pop at e
  obtain ⟨g1, g2⟩ := Gen.pop_spec sp.gen nts
  cases hg : sp.gen.pop nts with
  | mk b r =>
    obtain ⟨pn', g⟩ := r
    rw [hg] at g1 g2
    simp only [] at g1 g2
    cases b with
    | true =>
      simp only [hg] at e
      cases hs : sp.hist.skippedPacket (pn' - 1) with
      | none => simp [hs] at e
      | some h =>
        simp only [hs, Option.some.injEq, Prod.mk.injEq] at e
        obtain ⟨e1, _, e3⟩ := e
        subst e1 e3
        refine ⟨by simp only [ring, List.foldl_cons, List.foldl_nil]; exact skippedPacket_skipped hs, g2, ?_⟩
        intro hf; rw [g1 rfl] at hf; simp at hf
    | false =>
      simp only [hg, Option.some.injEq, Prod.mk.injEq] at e
      obtain ⟨e1, _, e3⟩ := e
      subst e1 e3
      exact ⟨rfl, g2, fun _ => rfl⟩

theorem lossLoop_skipped (la lst ld : Int) (n : Nat) : ∀ (pn : PN) (a : LossAcc),
    (lossLoop la lst ld n pn a).hist.skipped = a.hist.skipped := by
  induction n with
  | zero => intro pn a; rfl
  | succ n ih =>
    intro pn a
    unfold lossLoop
    split
    · rfl
    · split
      · exact ih _ _
      · split
        · rfl
        · rw [ih]
          unfold lossStep
          split
          · cases hd : a.hist.declareLost pn with
            | panic c => rfl
            | ok h' =>
              have := declareLost_skipped hd
              simp only []
              split
              · split <;> exact this
              · exact this
          · split <;> rfl

theorem ackedLoop_skipped (lvl : Level) (acc : List PN) : ∀ (h : Hist) (stash : List (PN × Packet)) (evs : List Ev) (done : List (PN × Packet)),
    (ackedLoop lvl acc h stash evs done).1.skipped = h.skipped := by
  induction acc with
  | nil => intro h stash evs done; rfl
  | cons pn rest ih =>
    intro h stash evs done
    simp only [ackedLoop]
    cases hr : h.remove pn with
    | panic c => rfl
    | notFound => rfl
    | ok h' removed => simp only []; rw [ih]; exact remove_skipped hr

theorem drop0RTTLoop_skipped (n : Nat) : ∀ (pn : PN) (h : Hist) (bfl : Int) (disc : List Frame),
    (drop0RTTLoop n pn h bfl disc).1.skipped = h.skipped := by
  induction n with
  | zero => intro pn h bfl disc; rfl
  | succ n ih =>
    intro pn h bfl disc
    unfold drop0RTTLoop
    split
    · exact ih _ _ _ _
    · split
      · rfl
      · split
        · rfl
        · split
          · rename_i h' q hr; rw [ih]; exact remove_skipped hr
          · exact ih _ _ _ _
          · rfl

theorem migrateLoop_skipped (n : Nat) : ∀ (pn : PN) (h : Hist) (bfl : Int) (evs : List Ev),
    (migrateLoop n pn h bfl evs).1.skipped = h.skipped := by
  induction n with
  | zero => intro pn h bfl evs; rfl
  | succ n ih =>
    intro pn h bfl evs
    unfold migrateLoop
    split
    · exact ih _ _ _ _
    · split
      · rfl
      · rename_i h' hd
        have hs := declareLost_skipped hd
        split
        · split
          · exact hs
          · split <;> (rw [ih]; exact hs)
        · rw [ih]; exact hs

/-- the Initial and Handshake spaces use the sequential generator (it never skips) -/
structure SeqGens (s : State) : Prop where
  ini : ∀ sp, s.initial = some sp → sp.gen.skipping = false
  hs : ∀ sp, s.handshake = some sp → sp.gen.skipping = false

def genSame (o' o : Option Space) : Prop := ∀ sp', o' = some sp' → ∃ sp, o = some sp ∧ sp'.gen.skipping = sp.gen.skipping

/-- `s'` results from `s` by an operation that recorded the skipped numbers `sk` in the application-data space
    and did not replace any generator -/
structure SkRel (s' s : State) (sk : List PN) : Prop where
  app : s'.app.hist.skipped = ring s.app.hist.skipped sk
  ini : genSame s'.initial s.initial
  hs : genSame s'.handshake s.handshake

theorem genSame.refl (o : Option Space) : genSame o o := fun sp h => ⟨sp, h, rfl⟩
theorem genSame.trans {a b c : Option Space} (h1 : genSame a b) (h2 : genSame b c) : genSame a c := by
  intro sp hsp
  obtain ⟨sp1, e1, e2⟩ := h1 sp hsp
  obtain ⟨sp2, e3, e4⟩ := h2 sp1 e1
  exact ⟨sp2, e3, e2.trans e4⟩

theorem SkRel.refl (s : State) : SkRel s s [] := ⟨rfl, genSame.refl _, genSame.refl _⟩
theorem SkRel.trans {a b c : State} {k1 k2 : List PN} (h1 : SkRel a b k1) (h2 : SkRel b c k2) : SkRel a c (k2 ++ k1) :=
  ⟨by rw [h1.app, h2.app, ring_append], genSame.trans h1.ini h2.ini, genSame.trans h1.hs h2.hs⟩

theorem SkRel_eq {s s' : State} (a : s'.initial = s.initial) (b : s'.handshake = s.handshake) (c : s'.app = s.app) : SkRel s' s [] :=
  ⟨by rw [c]; rfl, by rw [a]; exact genSame.refl _, by rw [b]; exact genSame.refl _⟩

theorem SkRel_of_eq {s s' s'' : State} {sk : List PN} (a : s''.initial = s'.initial) (b : s''.handshake = s'.handshake)
    (c : s''.app = s'.app) (h : SkRel s' s sk) : SkRel s'' s sk :=
  ⟨by rw [c]; exact h.app, by rw [a]; exact h.ini, by rw [b]; exact h.hs⟩

theorem SeqGens_rel {s' s : State} {sk : List PN} (g : SeqGens s) (h : SkRel s' s sk) : SeqGens s' := by
  constructor
  · intro sp hsp; obtain ⟨sp0, e1, e2⟩ := h.ini sp hsp; rw [e2]; exact g.ini sp0 e1
  · intro sp hsp; obtain ⟨sp0, e1, e2⟩ := h.hs sp hsp; rw [e2]; exact g.hs sp0 e1

theorem SkRel_setSpace {s : State} {lvl : Level} {sp sp' : Space} {sk : List PN} (g : SeqGens s) (hg : s.getSpace lvl = some sp)
    (h1 : sp'.hist.skipped = ring sp.hist.skipped sk) (h2 : sp'.gen.skipping = sp.gen.skipping)
    (h3 : sp.gen.skipping = false → sk = []) : SkRel (s.setSpace lvl sp') s sk := by
  cases lvl with
  | invalid => simp [State.getSpace] at hg
  | initial =>
    simp only [State.getSpace] at hg
    have := h3 (g.ini sp hg); subst this
    exact ⟨rfl, fun x hx => ⟨sp, hg, by simp only [State.setSpace, Option.some.injEq] at hx; subst hx; exact h2⟩, genSame.refl _⟩
  | handshake =>
    simp only [State.getSpace] at hg
    have := h3 (g.hs sp hg); subst this
    exact ⟨rfl, genSame.refl _, fun x hx => ⟨sp, hg, by simp only [State.setSpace, Option.some.injEq] at hx; subst hx; exact h2⟩⟩
  | zeroRTT =>
    simp only [State.getSpace, Option.some.injEq] at hg; subst hg
    exact ⟨h1, genSame.refl _, genSame.refl _⟩
  | oneRTT =>
    simp only [State.getSpace, Option.some.injEq] at hg; subst hg
    exact ⟨h1, genSame.refl _, genSame.refl _⟩

/-- replacing only the history of a space, keeping its remembered skipped numbers -/
theorem SkRel_setHist {s : State} {lvl : Level} {sp sp' : Space} (g : SeqGens s) (hg : s.getSpace lvl = some sp)
    (h1 : sp'.hist.skipped = sp.hist.skipped) (h2 : sp'.gen = sp.gen) : SkRel (s.setSpace lvl sp') s [] :=
  SkRel_setSpace g hg (by rw [h1]; rfl) (by rw [h2]) (fun _ => rfl)

theorem detectLostPackets_skrel {s : State} (g : SeqGens s) (env : Env) (now : Time) (lvl : Level) :
    SkRel (s.detectLostPackets env now lvl).1 s [] := by
  unfold State.detectLostPackets
  cases hg : s.getSpace lvl with
  | none => exact SkRel.refl s
  | some sp =>
    simp only []
    have h1 := @SkRel_setHist s lvl sp { sp with hist := (lossLoop sp.largestAcked (now - lossDelayOf env) (lossDelayOf env) sp.hist.packets.length sp.hist.first { hist := sp.hist, bfl := s.bytesInFlight }).hist, lossTime := (lossLoop sp.largestAcked (now - lossDelayOf env) (lossDelayOf env) sp.hist.packets.length sp.hist.first { hist := sp.hist, bfl := s.bytesInFlight }).lossTime } g hg (lossLoop_skipped _ _ _ _ _ _) rfl
    exact SkRel_of_eq (s' := s.setSpace lvl _) rfl rfl rfl h1

theorem detectLostPathProbes_skipped (sp : Space) (now : Time) :
    (detectLostPathProbes sp now).1.hist.skipped = sp.hist.skipped ∧ (detectLostPathProbes sp now).1.gen = sp.gen := by
  unfold detectLostPathProbes
  split <;> exact ⟨rfl, rfl⟩

theorem popPacketNumber_skrel {s : State} (g : SeqGens s) (lvl : Level) (nts : PN) :
    SkRel (s.popPacketNumber lvl nts).1 s (s.popPacketNumber lvl nts).2.skipped := by
  unfold State.popPacketNumber
  cases hg : s.getSpace lvl with
  | none => exact SkRel.refl s
  | some sp =>
    simp only []
    cases hp : sp.pop nts with
    | none => exact SkRel.refl s
    | some r =>
      obtain ⟨sp', pn, sk⟩ := r
      simp only []
      obtain ⟨p1, p2, p3⟩ := Space.pop_skipped hp
      exact SkRel_setSpace g hg p1 p2 p3

theorem sentPacket_skrel {s : State} (g : SeqGens s) (env : Env) (t : Time) (pn la : PN) (sframes frames : List Frame) (lvl : Level)
    (size : Int) (mtu probe : Bool) : SkRel (s.sentPacket env t pn la sframes frames lvl size mtu probe).1 s [] := by
  unfold State.sentPacket
  simp only []
  have hgc : ({ s with bytesSent := s.bytesSent + size } : State).getSpace lvl = s.getSpace lvl := getSpace_congr rfl rfl rfl lvl
  rw [hgc]
  have g0 : SeqGens ({ s with bytesSent := s.bytesSent + size } : State) := ⟨g.ini, g.hs⟩
  cases hg : s.getSpace lvl with
  | none => exact SkRel_eq rfl rfl rfl
  | some sp =>
    simp only []
    have hg0 : ({ s with bytesSent := s.bytesSent + size } : State).getSpace lvl = some sp := by rw [hgc]; exact hg
    have base : ∀ (s0 : State) (sp' : Space), s0.initial = s.initial → s0.handshake = s.handshake → s0.app = s.app →
        sp'.hist.skipped = sp.hist.skipped → sp'.gen = sp.gen → SkRel (s0.setSpace lvl sp') s [] := by
      intro s0 sp' a b c h1 h2
      have hg1 : s0.getSpace lvl = some sp := by rw [getSpace_congr a b c]; exact hg
      have g1 : SeqGens s0 := ⟨by rw [a]; exact g.ini, by rw [b]; exact g.hs⟩
      have := SkRel.trans (SkRel_setHist g1 hg1 h1 h2) (SkRel_eq a b c)
      simpa using this
    cases probe with
    | true =>
      simp only [if_true]
      cases hsp : sp.hist.sentPathProbePacket pn { sendTime := t, level := lvl, length := size, frames := frames, sframes := sframes, largestAcked := la, mtuProbe := mtu, pathProbe := true } with
      | none => exact base _ _ rfl rfl rfl rfl rfl
      | some h =>
        simp only []
        exact SkRel_of_eq (s' := State.setSpace _ lvl _) rfl rfl rfl (base _ _ rfl rfl rfl (sentPathProbePacket_spec hsp).2.2.2 rfl)
    | false =>
      simp only [Bool.false_eq_true, if_false]
      split
      · cases hsp : sp.hist.sentPacket pn { sendTime := t, level := lvl, length := size, frames := frames, sframes := sframes, largestAcked := la, mtuProbe := mtu, pathProbe := false, inFlight := true } with
        | none => exact base (State.aeSent _ size) _ rfl rfl rfl rfl rfl
        | some h =>
          simp only []
          exact SkRel_of_eq (s' := State.setSpace _ lvl _) rfl rfl rfl (base (State.aeSent _ size) _ rfl rfl rfl (sentPacket_spec hsp).2.2.2 rfl)
      · cases hsp : sp.hist.sentPacket pn { sendTime := t, level := lvl, length := size, frames := frames, sframes := sframes, largestAcked := la, mtuProbe := mtu, pathProbe := false } with
        | none => exact base _ _ rfl rfl rfl rfl rfl
        | some h =>
          simp only []
          have key := base { s with bytesSent := s.bytesSent + size } { sp with largestSent := pn, hist := h } rfl rfl rfl (sentPacket_spec hsp).2.2.2 rfl
          split
          · exact SkRel_of_eq (s' := State.setSpace _ lvl _) rfl rfl rfl key
          · exact key

theorem ackTail_skrel {s : State} (g : SeqGens s) {env : Env} {lvl : Level} {now : Time} {largest : PN} {sp : Space} {h2 : Hist}
    {evs : List Ev} {removed : List (PN × Packet)} {sdisc : List Frame} {n : Nat}
    (hg : s.getSpace lvl = some sp) (hsk : h2.skipped = sp.hist.skipped) :
    SkRel (s.ackTail env lvl now largest sp h2 evs removed sdisc n).1 s [] := by
  unfold State.ackTail
  simp only []
  have r2 : SkRel (s.setSpace lvl { sp with hist := h2, largestAcked := max sp.largestAcked largest }) s [] :=
    SkRel_setHist g hg hsk rfl
  have g2 := SeqGens_rel g r2
  generalize s.setSpace lvl { sp with hist := h2, largestAcked := max sp.largestAcked largest } = s2 at r2 g2 ⊢
  have r3 := detectLostPackets_skrel g2 env now lvl
  cases hd : s2.detectLostPackets env now lvl with
  | mk s3 r =>
    obtain ⟨evsL, pl⟩ := r
    rw [hd] at r3
    have r32 : SkRel s3 s [] := by simpa using SkRel.trans r3 r2
    cases pl with
    | some c => exact SkRel_of_eq (s' := s3) rfl rfl rfl r32
    | none =>
      simp only []
      have hpp : (if lvl = Level.oneRTT then detectLostPathProbes s3.app now else (s3.app, [], [])).1.hist.skipped = s3.app.hist.skipped := by
        split
        · exact (detectLostPathProbes_skipped _ _).1
        · rfl
      generalize (if lvl = Level.oneRTT then detectLostPathProbes s3.app now else (s3.app, [], [])) = rr at hpp ⊢
      have r4 : SkRel ({ s3 with app := rr.1 } : State) s [] := ⟨by simp only []; rw [hpp]; exact r32.app, r32.ini, r32.hs⟩
      split
      · exact SkRel_of_eq (s' := { s3 with app := rr.1 }) rfl rfl rfl r4
      · exact SkRel_of_eq (s' := { s3 with app := rr.1 }) rfl rfl rfl r4

theorem ackTail_out_skipped (s : State) (env : Env) (lvl : Level) (now : Time) (largest : PN) (sp : Space) (h2 : Hist)
    (evs : List Ev) (removed : List (PN × Packet)) (sdisc : List Frame) (n : Nat) :
    (s.ackTail env lvl now largest sp h2 evs removed sdisc n).2.skipped = [] := by
  unfold State.ackTail
  simp only []
  cases hd : (s.setSpace lvl { sp with hist := h2, largestAcked := max sp.largestAcked largest }).detectLostPackets env now lvl with
  | mk s3 r =>
    obtain ⟨evsL, pl⟩ := r
    cases pl with
    | some c => rfl
    | none =>
      simp only []
      cases removeBifAll s3.bytesInFlight removed <;> rfl

theorem receivedAck_skrel {s : State} (g : SeqGens s) (env : Env) (ranges : List Range) (lvl : Level) (now : Time)
    (hok : (s.receivedAck env ranges lvl now).2.res = .ok) :
    SkRel (s.receivedAck env ranges lvl now).1 s [] ∧ (s.receivedAck env ranges lvl now).2.skipped = [] := by
  unfold State.receivedAck at hok ⊢
  cases hg : s.getSpace lvl with
  | none => simp [hg] at hok
  | some sp =>
    cases hh : ranges.head? with
    | none => simp [hg, hh] at hok
    | some top =>
      cases hl : ranges.getLast? with
      | none => simp [hg, hh, hl] at hok
      | some bot =>
        simp only [hg, hh, hl] at hok ⊢
        by_cases hle : top.2 > sp.largestSent
        · simp [hle] at hok
        · simp only [hle, if_false] at hok ⊢
          obtain ⟨e1, e2, e3, _, _⟩ := completeValidation_spec s env lvl now
          have hg' : (s.completeValidation env lvl now).getSpace lvl = some sp := by rw [getSpace_congr e1 e2 e3]; exact hg
          have r1 : SkRel (s.completeValidation env lvl now) s [] := SkRel_eq e1 e2 e3
          have g1 := SeqGens_rel g r1
          generalize s.completeValidation env lvl now = s1 at hok hg' r1 g1 ⊢
          unfold State.ackCore at hok ⊢
          by_cases h1 : s1.ackedBuf > 0
          · simp [h1] at hok
          · by_cases h2' : lvl = .oneRTT ∧ sp.hist.skipped.any (acksPacketBin ranges bot.1 top.2)
            · simp [h1, h2'] at hok
            · simp only [h1, h2', if_false] at hok ⊢
              cases hc : collect (decide (ranges.length > 1)) bot.1 top.2 sp.hist.first sp.hist.packets ranges.reverse sp.hist.probes [] [] with
              | bug probes stash acc => simp [hc] at hok
              | done pr st acc =>
                simp only [hc] at hok ⊢
                have hsk := ackedLoop_skipped lvl acc { sp.hist with probes := pr } st [] []
                cases ha : ackedLoop lvl acc { sp.hist with probes := pr } st [] [] with
                | mk h2 r =>
                  obtain ⟨stash', evs, removed, res⟩ := r
                  rw [ha] at hsk
                  cases res with
                  | panic c => simp [ha] at hok
                  | err e => simp [ha] at hok
                  | ok =>
                    simp only [ha] at hok ⊢
                    by_cases hre : removed.isEmpty = true
                    · simp only [hre, if_true]
                      exact ⟨r1, trivial⟩
                    · simp only [hre] at hok ⊢
                      have := ackTail_skrel g1 (env := env) (now := now) (largest := top.2) (evs := evs) (removed := removed)
                        (sdisc := probesFrames stash') (n := acc.length) hg' hsk
                      exact ⟨by simpa using SkRel.trans this r1, ackTail_out_skipped _ _ _ _ _ _ _ _ _ _ _⟩

def Op.isRetry : Op → Bool
  | .retry => true
  | _ => false

theorem ptoSwitch_skrel {s : State} (_g : SeqGens s) (lvl : Level) (nts : PN) (evs0 : List Ev) (disc0 : List Frame)
    (hok : (s.ptoSwitch lvl nts evs0 disc0).2.res = .ok) :
    SkRel (s.ptoSwitch lvl nts evs0 disc0).1 s (s.ptoSwitch lvl nts evs0 disc0).2.skipped := by
  unfold State.ptoSwitch at hok ⊢
  cases lvl with
  | invalid => simp at hok
  | zeroRTT => simp at hok
  | initial => exact SkRel_eq rfl rfl rfl
  | handshake => exact SkRel_eq rfl rfl rfl
  | oneRTT =>
    simp only [] at hok ⊢
    cases hp : s.app.pop nts with
    | none => simp [hp] at hok
    | some r =>
      obtain ⟨sp, pn, sk⟩ := r
      simp only [hp] at hok ⊢
      obtain ⟨p1, _, _⟩ := Space.pop_skipped hp
      cases hs : sp.hist.skippedPacket pn with
      | none => simp [hs] at hok
      | some h =>
        simp only []
        refine ⟨?_, genSame.refl _, genSame.refl _⟩
        simp only []
        rw [skippedPacket_skipped hs, p1, ring_append]
        rfl

theorem timeoutMain_skrel {s : State} (g : SeqGens s) (env : Env) (now : Time) (nts : PN) (evs0 : List Ev) (disc0 : List Frame)
    (hok : (s.timeoutMain env now nts evs0 disc0).2.res = .ok) :
    SkRel (s.timeoutMain env now nts evs0 disc0).1 s (s.timeoutMain env now nts evs0 disc0).2.skipped := by
  unfold State.timeoutMain State.timeoutMainG at hok ⊢
  split
  · exact detectLostPackets_skrel g _ _ _
  · rename_i h0
    rw [if_neg h0] at hok
    split
    · unfold State.antiDeadlockProbe
      simp only []
      split
      · exact SkRel_eq rfl rfl rfl
      · split <;> exact SkRel_eq rfl rfl rfl
    · rename_i h1
      rw [if_neg h1] at hok
      unfold State.ptoFire at hok ⊢
      split
      · exact SkRel.refl _
      · rename_i h2
        rw [if_neg h2] at hok
        split
        · exact SkRel.refl _
        · split
          · exact SkRel.refl _
          · rename_i ps hg h3
            simp only [hg] at hok
            rw [if_neg h3] at hok
            exact ptoSwitch_skrel g _ _ _ _ hok

theorem step_skrel {s : State} {op : Op} {e : StepEnv} (g : SeqGens s) (hnr : Op.isRetry op = false)
    (hok : (s.step op e).2.res = .ok) : SkRel (s.step op e).1 s (s.step op e).2.skipped := by
  cases op with
  | send lvl now la size mtu probe frames sframes =>
    simp only [State.step] at hok ⊢
    have r1 := popPacketNumber_skrel g lvl e.nts
    split at hok
    · have r2 := sentPacket_skrel (SeqGens_rel g r1) e.env now (s.popPacketNumber lvl e.nts).2.pn la sframes frames lvl size mtu probe
      simpa using SkRel.trans r2 r1
    · rename_i hne; exact absurd hok (by simpa using hne)
  | ack lvl now ranges =>
    simp only [State.step] at hok ⊢
    obtain ⟨r1, r2⟩ := receivedAck_skrel g e.env ranges lvl now hok
    rw [r2]; exact r1
  | timeout now =>
    simp only [State.step, State.onLossDetectionTimeout, State.timeoutBody] at hok ⊢
    have hpp : (if s.handshakeConfirmed = true then detectLostPathProbes s.app now else (s.app, [], [])).1.hist.skipped = s.app.hist.skipped := by
      split
      · exact (detectLostPathProbes_skipped _ _).1
      · rfl
    generalize (if s.handshakeConfirmed = true then detectLostPathProbes s.app now else (s.app, [], [])) = rr at hok hpp ⊢
    have r0 : SkRel ({ s with app := rr.1 } : State) s [] := ⟨by simp only []; rw [hpp]; rfl, genSame.refl _, genSame.refl _⟩
    have r1 := timeoutMain_skrel (SeqGens_rel g r0) e.env now e.nts rr.2.1 rr.2.2 hok
    exact SkRel_of_eq (s' := State.timeoutMain _ e.env now e.nts rr.2.1 rr.2.2 |>.1) rfl rfl rfl (by simpa using SkRel.trans r1 r0)
  | probe lvl =>
    simp only [State.step, State.queueProbePacket] at hok ⊢
    cases hg : s.getSpace lvl with
    | none => simp [hg] at hok
    | some sp =>
      simp only []
      cases hf : sp.hist.firstOutstanding with
      | none => exact SkRel.refl s
      | some r =>
        obtain ⟨pn, p⟩ := r
        simp only []
        cases hd : sp.hist.declareLost pn with
        | panic c => exact SkRel.refl s
        | ok h =>
          simp only []
          have key : SkRel (s.setSpace lvl { sp with hist := h }) s [] := SkRel_setHist g hg (declareLost_skipped hd) rfl
          split
          · exact key
          · exact SkRel_of_eq (s' := s.setSpace lvl { sp with hist := h }) rfl rfl rfl key
  | drop lvl now =>
    simp only [State.step, State.dropPackets] at hok ⊢
    have r0 : SkRel (if s.isClient ∧ lvl = .handshake then ({ s with peerCompleted := true } : State) else s) s [] := by
      split
      · exact SkRel_eq rfl rfl rfl
      · exact SkRel.refl s
    generalize (if s.isClient ∧ lvl = .handshake then ({ s with peerCompleted := true } : State) else s) = s1 at hok r0 ⊢
    cases lvl with
    | invalid => simp at hok
    | oneRTT => simp at hok
    | initial =>
      simp only [] at hok ⊢
      cases hi : s1.initial with
      | none => exact r0
      | some sp =>
        simp only []
        split
        · exact r0
        · exact ⟨r0.app, fun sp' h => by simp [State.afterDrop, State.setTimer] at h, r0.hs⟩
    | handshake =>
      simp only [] at hok ⊢
      cases hi : s1.handshake with
      | none => exact r0
      | some sp =>
        simp only []
        split
        · exact r0
        · exact ⟨r0.app, r0.ini, fun sp' h => by simp [State.afterDrop, State.setTimer] at h⟩
    | zeroRTT =>
      simp only [] at hok ⊢
      have hsk := drop0RTTLoop_skipped s1.app.hist.packets.length s1.app.hist.first s1.app.hist s1.bytesInFlight []
      have r1 : SkRel ({ s1 with app := { s1.app with hist := (drop0RTTLoop s1.app.hist.packets.length s1.app.hist.first s1.app.hist s1.bytesInFlight []).1 }, bytesInFlight := (drop0RTTLoop s1.app.hist.packets.length s1.app.hist.first s1.app.hist s1.bytesInFlight []).2.1 } : State) s [] :=
        ⟨by simp only []; rw [hsk]; exact r0.app, r0.ini, r0.hs⟩
      split
      · exact r1
      · exact SkRel_of_eq (s' := { s1 with app := { s1.app with hist := (drop0RTTLoop s1.app.hist.packets.length s1.app.hist.first s1.app.hist s1.bytesInFlight []).1 }, bytesInFlight := (drop0RTTLoop s1.app.hist.packets.length s1.app.hist.first s1.app.hist s1.bytesInFlight []).2.1 }) rfl rfl rfl r1
  | retry => simp [Op.isRetry] at hnr
  | migrate now =>
    simp only [State.step, State.migratedPath] at hok ⊢
    have hsk := migrateLoop_skipped s.app.hist.packets.length s.app.hist.first s.app.hist s.bytesInFlight []
    split
    · exact ⟨by simp only []; rw [hsk]; rfl, genSame.refl _, genSame.refl _⟩
    · exact ⟨by simp only [State.setTimer]; rw [hsk]; rfl, genSame.refl _, genSame.refl _⟩
  | rcvBytes n now =>
    simp only [State.step, State.receivedBytes]
    split <;> exact SkRel_eq rfl rfl rfl
  | rcvPacket lvl now =>
    simp only [State.step, State.receivedPacket]
    split
    · exact SkRel_eq rfl rfl rfl
    · exact SkRel.refl s


end Uquic.Proofs.Sent
