/-
Helper lemmas for C18: the table-driven model of handleUnidirectionalStream refines the RFC 9114
§6.2 rules step by step (this is where a first-stream check on the wrong flag stops compiling).
-/
import Uquic.Spec.H3Uni

namespace Uquic.Proofs.H3
open Uquic.Model.H3 Uquic.Spec.H3Uni

/-- the code's flags represent the specification's three booleans -/
structure URel (s : UniSt) (g : USpec) : Prop where
  closed : s.closed = g.closed
  ctrl : s.flags.contains "rcvdControlStr" = g.ctrl
  enc : s.flags.contains "rcvdQPACKEncoderStr" = g.enc
  dec : s.flags.contains "rcvdQPACKDecoderStr" = g.dec

theorem uniLookup_unknown (t : Nat) (h : 4 ≤ t) : uniLookup t = none := by
  have hb : ∀ p ∈ Uquic.Gen.H3.uniStreamCases, p.1 < 4 := by decide
  unfold uniLookup
  rw [List.lookup_eq_none_iff]
  intro p hp
  have := hb p hp
  simp only [bne_iff_ne, ne_eq]
  omega

theorem uniLookup_0 : uniLookup 0 = some ("rcvdControlStr", 0x103, 0x103) := by decide
theorem uniLookup_1 : uniLookup 1 = some ("", 0x103, 0x108) := by decide
theorem uniLookup_2 : uniLookup 2 = some ("rcvdQPACKEncoderStr", 0x103, 0x103) := by decide
theorem uniLookup_3 : uniLookup 3 = some ("rcvdQPACKDecoderStr", 0x103, 0x103) := by decide
theorem uniDefault : Uquic.Gen.H3.uniStreamDefaultCancel.toNat = 0x103 := by decide

theorem uniStep_refines (isServer : Bool) (s : UniSt) (g : USpec) (h : URel s g) (t : Nat) :
    (uniStep isServer s t).2 = (specStep isServer g t).2 ∧ URel (uniStep isServer s t).1 (specStep isServer g t).1 := by
  obtain ⟨hc, h0, h2, h3⟩ := h
  unfold uniStep specStep
  rw [hc]
  cases hcl : g.closed with
  | some c => simp only [Option.isSome_some, ↓reduceIte]; exact ⟨trivial, ⟨by rw [hc, hcl], h0, h2, h3⟩⟩
  | none =>
    simp only [Option.isSome_none, Bool.false_eq_true, ↓reduceIte]
    by_cases ht : 4 ≤ t
    · have e0 : ¬ t = 0 := by omega
      have e1 : ¬ t = 1 := by omega
      have e2 : ¬ t = 2 := by omega
      have e3 : ¬ t = 3 := by omega
      simp only [uniLookup_unknown t ht, uniDefault, e0, e1, e2, e3, ↓reduceIte]
      exact ⟨trivial, ⟨by rw [hc, hcl], h0, h2, h3⟩⟩
    · have : t = 0 ∨ t = 1 ∨ t = 2 ∨ t = 3 := by omega
      rcases this with rfl | rfl | rfl | rfl
      · simp only [uniLookup_0, ↓reduceIte, h0]
        cases hx : g.ctrl <;> cases isServer <;> simp_all <;> (constructor <;> simp_all)
      · simp only [uniLookup_1, ↓reduceIte]
        cases isServer <;> simp_all <;> (constructor <;> simp_all)
      · simp only [uniLookup_2, ↓reduceIte, h2]
        cases hx : g.enc <;> cases isServer <;> simp_all <;> (constructor <;> simp_all)
      · simp only [uniLookup_3, ↓reduceIte, h3]
        cases hx : g.dec <;> cases isServer <;> simp_all <;> (constructor <;> simp_all)

theorem uniOuts_refines (isServer : Bool) (ts : List Nat) :
    ∀ (s : UniSt) (g : USpec), URel s g → uniOuts isServer s ts = specOuts isServer g ts := by
  induction ts with
  | nil => intro _ _ _; rfl
  | cons t ts ih =>
    intro s g h
    obtain ⟨h1, h2⟩ := uniStep_refines isServer s g h t
    simp only [uniOuts, specOuts, h1, ih _ _ h2]

end Uquic.Proofs.H3
