/-
Helper lemmas for C14 (tokens).
-/
import Uquic.Model.Amp.Token

namespace Uquic.Proofs.Tok
open Uquic.Model.Tok

theorem nonceSize_eq : tokenNonceSize = 32 := by decide
theorem maxCid_eq : maxConnectionIDLen = 20 := by decide
theorem prefixes_differ : tokenPrefixIP ≠ tokenPrefixString := by decide

/-- what equal encodings say about two addresses: same kind, same IP bytes (port and zone free) or same string -/
def SameHost : Addr → Addr → Prop
  | .udp ip _ _, .udp ip' _ _ => ip = ip'
  | .other s, .other s' => s = s'
  | _, _ => False

theorem encode_injective (a b : Addr) (h : encodeRemoteAddr a = encodeRemoteAddr b) : SameHost a b := by
  cases a <;> cases b <;> simp only [encodeRemoteAddr, List.cons.injEq] at h
  · exact h.2
  · exact absurd h.1 prefixes_differ
  · exact absurd h.1.symm prefixes_differ
  · exact h.2

theorem sameHost_encode (a b : Addr) (h : SameHost a b) : encodeRemoteAddr a = encodeRemoteAddr b := by
  cases a <;> cases b <;> simp_all [SameHost, encodeRemoteAddr]

/-! ### envelope -/

theorem unprotect_protect (E : Crypto) (hc : E.Correct) (secret nonce data : Bytes)
    (hn : nonce.length = tokenNonceSize) : unprotect E secret (protect E secret nonce data) = some data := by
  unfold unprotect protect
  have h1 : ¬ (nonce ++ E.aeadSeal secret nonce data).length < tokenNonceSize := by
    simp [List.length_append, hn]
  rw [if_neg h1, List.take_left' hn, List.drop_left' hn]
  exact hc _ _ _

/-- under the ideal-AEAD hypothesis whatever unprotects is literally an output of `protect` under this secret -/
theorem unprotect_some_is_protect (E : Crypto) (hi : E.Ideal) (secret p data : Bytes)
    (h : unprotect E secret p = some data) :
    ∃ nonce, nonce.length = tokenNonceSize ∧ p = protect E secret nonce data := by
  unfold unprotect at h
  by_cases hl : p.length < tokenNonceSize
  · simp [hl] at h
  · rw [if_neg hl] at h
    refine ⟨p.take tokenNonceSize, ?_, ?_⟩
    · rw [List.length_take]; omega
    · unfold protect
      rw [← hi _ _ _ _ h, List.take_append_drop]

theorem protect_length (E : Crypto) (secret nonce data : Bytes) (hn : nonce.length = tokenNonceSize) :
    (protect E secret nonce data).length ≠ 0 := by
  unfold protect; rw [List.length_append, hn, nonceSize_eq]; omega

/-! ### decoding -/

/-- every successful decode comes from a plaintext that was sealed under this secret (ideal AEAD) -/
theorem decode_ok_was_sealed (E : Crypto) (C : Codec) (hi : E.Ideal) (secret b : Bytes) (t : Token)
    (h : decodeToken E C secret b = .ok t) :
    ∃ nonce data f, nonce.length = tokenNonceSize ∧ b = protect E secret nonce data ∧ C.dec data = some f ∧
      t = Token.ofFields f := by
  unfold decodeToken at h
  split at h
  · cases h
  · split at h
    · cases h
    · rename_i data hd
      split at h
      · cases h
      · rename_i f hf
        split at h
        · cases h
        · obtain ⟨nonce, hn, hp⟩ := unprotect_some_is_protect E hi secret b data hd
          refine ⟨nonce, data, f, hn, hp, hf, ?_⟩
          simpa using h.symm

theorem decode_panic_was_sealed (E : Crypto) (C : Codec) (hi : E.Ideal) (secret b : Bytes)
    (h : decodeToken E C secret b = .panic) :
    ∃ nonce data, nonce.length = tokenNonceSize ∧ b = protect E secret nonce data := by
  unfold decodeToken at h
  split at h
  · cases h
  · split at h
    · cases h
    · rename_i data hd
      obtain ⟨nonce, hn, hp⟩ := unprotect_some_is_protect E hi secret b data hd
      exact ⟨nonce, data, hn, hp⟩

theorem ofFields_addr (f : Fields) : (Token.ofFields f).encodedRemoteAddr = f.remoteAddr := by
  unfold Token.ofFields; split <;> rfl
theorem ofFields_time (f : Fields) : (Token.ofFields f).sentTime = f.timestamp := by
  unfold Token.ofFields; split <;> rfl
theorem ofFields_retry (f : Fields) : (Token.ofFields f).isRetryToken = f.isRetryToken := by
  unfold Token.ofFields; split <;> simp_all

/-! ### validateToken -/

theorem validate_true (t : Token) (a : Addr) (now A R : Int) (h : validateToken (some t) a now A R = true) :
    encodeRemoteAddr a = t.encodedRemoteAddr ∧
    (t.isRetryToken = true → now - t.sentTime ≤ R) ∧ (t.isRetryToken = false → now - t.sentTime ≤ A) := by
  unfold validateToken at h
  simp only [Token.validateRemoteAddr] at h
  by_cases ha : (encodeRemoteAddr a == t.encodedRemoteAddr) = true
  · by_cases h1 : (!t.isRetryToken) = true ∧ now - t.sentTime > A
    · simp [ha, h1] at h
    · by_cases h2 : t.isRetryToken = true ∧ now - t.sentTime > R
      · simp [ha, h2] at h
      · refine ⟨by simpa using ha, ?_, ?_⟩
        · intro hr; simp [hr] at h2; omega
        · intro hr; simp [hr] at h1; omega
  · simp [ha] at h

end Uquic.Proofs.Tok
