/-
Helper lemmas for C18: Content-Length accounting of `body.Read` over a well-formed message body
(DATA / unknown frames / one trailer section), for every chunking and every read size.
-/
import Uquic.Proofs.H3ReadMany

namespace Uquic.Proofs.H3
open Uquic.Model.H3 Uquic.Spec.H3Wire

structure BInv (mh cl : Nat) (b : Body) (delivered : Nat) (r : List Nat) (tr : Bool) (fs : List WFrame) : Prop where
  hasCL : b.hasCL = true
  nv : b.violated = false
  rem : b.remainingCL = (cl : Int) - (delivered : Int)
  le : delivered ≤ cl
  inv : Inv mh b.str.m r tr fs

/-- outcome of one `body.Read` on a body whose frames end cleanly -/
def BStepOK (mh cl : Nat) (delivered : Nat) (r : List Nat) (tr : Bool) (fs : List WFrame) (n : Nat)
    (res : Body × List Nat × Option Err) : Prop :=
  let total := delivered + (r ++ (expect mh tr fs).1).length
  (res.2.2 = none ∧ ∃ r' tr' fs', BInv mh cl res.1 (delivered + res.2.1.length) r' tr' fs' ∧
      r ++ (expect mh tr fs).1 = res.2.1 ++ (r' ++ (expect mh tr' fs').1) ∧
      (expect mh tr' fs').2 = .eof ∧ (0 < n → meas r' fs' < meas r fs)) ∨
  (res.2.2 = some .tooMuchData ∧ cl < total ∧ delivered + res.2.1.length ≤ cl ∧
      res.2.1 <+: r ++ (expect mh tr fs).1) ∨
  (res.2.2 = some .eof ∧ res.2.1 = [] ∧ total = delivered)

theorem body_tail_fire (b2 : Body) (d : List Nat) (eo : Option Err) (hcl : b2.hasCL = true)
    (hv : b2.remainingCL = 0 ∧ b2.str.m.remaining > 0) :
    (b2.afterRead d eo).2 = (d, some .tooMuchData) := by
  simp [Body.afterRead, Body.check, hcl, hv.1, hv.2]

theorem body_tail_pass (b2 : Body) (d : List Nat) (eo : Option Err) (h0 : 0 ≤ b2.remainingCL)
    (hv : ¬ (b2.remainingCL = 0 ∧ b2.str.m.remaining > 0)) :
    b2.afterRead d eo = (b2, d, eo.map maybeReplaceError) := by
  have h1 : ¬ b2.remainingCL < 0 := by omega
  cases hcl : b2.hasCL with
  | false => simp [Body.afterRead, Body.check, hcl]
  | true =>
    simp only [Body.afterRead, Body.check, hcl, Bool.not_true, Bool.false_eq_true, ↓reduceIte, h1, false_or]
    simp only [gt_iff_lt] at hv
    simp [hv]

theorem body_read_step {mh cl : Nat} {b : Body} {delivered : Nat} {r : List Nat} {tr : Bool} {fs : List WFrame}
    (h : BInv mh cl b delivered r tr fs) (hclean : (expect mh tr fs).2 = .eof) (n : Nat) :
    BStepOK mh cl delivered r tr fs n (b.read n) := by
  have hrem := h.rem
  have hle := h.le
  have hmrem := h.inv.rem
  by_cases hv : b.remainingCL = 0 ∧ b.str.m.remaining > 0
  · -- the first check fires
    right; left
    have hc : b.check = ({ b with violated := true, str := (b.str.cancelRead errMessageError).cancelWrite errMessageError }, some .tooMuchData) := by
      simp [Body.check, h.hasCL, hv.1, hv.2, h.nv]
    simp only [Body.read, hc]
    refine ⟨trivial, ?_, by simp; omega, by simp⟩
    have : 0 < r.length := by rw [← hmrem]; exact hv.2
    simp only [List.length_append]; omega
  · have hnn : 0 ≤ b.remainingCL := by omega
    have hc : b.check = (b, none) := by
      have := body_tail_pass b [] none hnn hv
      simp only [Body.afterRead] at this
      revert this
      cases b.check with
      | mk b3 o => cases o <;> simp
    have hn'def : (if b.hasCL = true then min n b.remainingCL.toNat else n) = min n b.remainingCL.toNat := by
      simp [h.hasCL]
    simp only [Body.read, hc, hn'def]
    generalize hn' : min n b.remainingCL.toNat = n'
    have hn'le : n' ≤ cl - delivered := by omega
    have st := read_step h.inv n'
    rcases hr : b.str.m.read n' with ⟨m1, d, eo⟩
    rw [hr] at st
    dsimp only
    rcases st with ⟨hnone, r', tr', fs', hinv', heq, hfin, hdec, hlen⟩ | ⟨e, he, hd, hrn, hE, hee, hdead, _⟩
    · simp only at hnone heq hinv' hlen
      subst hnone
      -- second check
      by_cases hv2 : b.remainingCL - (d.length : Int) = 0 ∧ m1.remaining > 0
      · right; left
        have ht := body_tail_fire { b with str := { b.str with m := m1 }, remainingCL := b.remainingCL - (d.length : Int) }
          d none h.hasCL hv2
        dsimp only at ht
        simp only [ht]
        refine ⟨trivial, ?_, by omega, ?_⟩
        · have : 0 < r'.length := by rw [← hinv'.rem]; exact hv2.2
          have := congrArg List.length heq
          simp only [List.length_append] at this ⊢
          omega
        · rw [heq]; exact List.prefix_append _ _
      · left
        have hp := body_tail_pass { b with str := { b.str with m := m1 }, remainingCL := b.remainingCL - (d.length : Int) }
          d none (by simp only; omega) hv2
        dsimp only at hp
        rw [hp]
        refine ⟨rfl, r', tr', fs', ?_, heq, by rw [hfin, hclean], ?_⟩
        · exact { hasCL := h.hasCL, nv := h.nv, rem := by simp only; omega, le := by simp only; omega, inv := hinv' }
        · intro hn
          by_cases hz : 0 < n'
          · exact hdec (Or.inl hz)
          · -- Content-Length exhausted: a zero-length read still consumes a frame
            have hcl0 : b.remainingCL = 0 := by omega
            have : ¬ b.str.m.remaining > 0 := fun hm => hv ⟨hcl0, hm⟩
            have hr0 : r = [] := by
              have : r.length = 0 := by rw [← hmrem]; omega
              exact List.length_eq_zero_iff.mp this
            exact hdec (Or.inr hr0)
    · simp only at he hd hdead
      subst he hd
      right; right
      have hEe : e = .eof := by rw [hee, hclean]
      subst hEe
      have hd' := hdead (Or.inl rfl)
      have hp := body_tail_pass { b with str := { b.str with m := m1 }, remainingCL := b.remainingCL - (([] : List Nat).length : Int) }
        [] (some .eof) (by simp only [List.length_nil]; omega) (by simp only; rw [hd'.1]; omega)
      dsimp only at hp
      rw [hp]
      refine ⟨rfl, rfl, ?_⟩
      rw [hrn, hE]; simp

/-- all `body.Read`s of `ns` on a body whose frames end cleanly -/
theorem body_readMany_spec {mh cl : Nat} (ns : List Nat) :
    ∀ (b : Body) (delivered : Nat) (r : List Nat) (tr : Bool) (fs : List WFrame),
      BInv mh cl b delivered r tr fs → (expect mh tr fs).2 = .eof →
      let total := delivered + (r ++ (expect mh tr fs).1).length
      delivered + (b.readMany ns).2.1.length ≤ cl ∧
      (b.readMany ns).2.1 <+: r ++ (expect mh tr fs).1 ∧
      (∀ e, (b.readMany ns).2.2 = some e →
          (e = .tooMuchData ∧ cl < total) ∨ (e = .eof ∧ total ≤ cl ∧ delivered + (b.readMany ns).2.1.length = total)) ∧
      ((∀ n ∈ ns, 0 < n) → meas r fs < ns.length → (b.readMany ns).2.2.isSome) := by
  induction ns with
  | nil =>
    intro b delivered r tr fs h _
    have := h.le
    refine ⟨by simp [Body.readMany]; omega, by simp [Body.readMany], by simp [Body.readMany], ?_⟩
    intro _ hl; simp at hl
  | cons n ns ih =>
    intro b delivered r tr fs h hclean
    have st := body_read_step h hclean n
    rcases hr : b.read n with ⟨b1, d, eo⟩
    rw [hr] at st
    simp only [BStepOK] at st
    rcases st with ⟨hnone, r', tr', fs', hinv', heq, hfin, hdec⟩ | ⟨he, htot, hdl, hpre⟩ | ⟨he, hd, htot⟩
    · subst hnone
      obtain ⟨i1, i2, i3, i4⟩ := ih b1 (delivered + d.length) r' tr' fs' hinv' hfin
      have hlen := congrArg List.length heq
      simp only [List.length_append] at hlen
      simp only [Body.readMany, hr]
      refine ⟨by simp only [List.length_append]; omega, ?_, ?_, ?_⟩
      · rw [heq]; exact (List.prefix_append_right_inj d).mpr i2
      · intro e he
        rcases i3 e he with ⟨e1, e2⟩ | ⟨e1, e2, e3⟩
        · left; exact ⟨e1, by simp only [List.length_append] at e2 ⊢; omega⟩
        · right; refine ⟨e1, by simp only [List.length_append] at e2 ⊢; omega, ?_⟩
          simp only [List.length_append] at e3 ⊢; omega
      · intro hpos hl
        apply i4 (fun m hm => hpos m (List.mem_cons_of_mem _ hm))
        have := hdec (hpos n (by simp))
        simp only [List.length_cons] at hl
        omega
    · subst he
      simp only [Body.readMany, hr]
      refine ⟨hdl, hpre, ?_, by simp⟩
      intro e he; simp only [Option.some.injEq] at he; subst he
      left; exact ⟨rfl, htot⟩
    · subst he hd
      simp only [Body.readMany, hr]
      have := h.le
      refine ⟨by simp; omega, by simp, ?_, by simp⟩
      intro e he; simp only [Option.some.injEq] at he; subst he
      right; refine ⟨rfl, by rw [htot]; exact this, by rw [htot]; simp⟩

end Uquic.Proofs.H3
