/-
Ledger lemmas for property C06: every operation of the sent-packet handler
conserves the multiset  tracked frames + reported frames + discarded frames.
-/
import Uquic.Proofs.SentHist

namespace Uquic.Proofs.Sent
open Uquic.Model.Sent List

/-- the frames a list of callbacks reports -/
def evFrames : List Ev → List Frame
  | [] => []
  | .acked f :: r => f :: evFrames r
  | .lost f :: r => f :: evFrames r
  | .ignore _ :: r => evFrames r

@[simp] theorem evFrames_nil : evFrames [] = [] := rfl
@[simp] theorem evFrames_append (a b : List Ev) : evFrames (a ++ b) = evFrames a ++ evFrames b := by
  induction a with
  | nil => rfl
  | cons x xs ih => cases x <;> simp [evFrames, ih]
@[simp] theorem evFrames_acked (l : List Frame) : evFrames (l.map Ev.acked) = l := by
  induction l with
  | nil => rfl
  | cons x xs ih => simp [evFrames, ih]
@[simp] theorem evFrames_lost (l : List Frame) : evFrames (l.map Ev.lost) = l := by
  induction l with
  | nil => rfl
  | cons x xs ih => simp [evFrames, ih]
@[simp] theorem evFrames_ignore (pn : PN) : evFrames [Ev.ignore pn] = [] := rfl

def spacePending : Option Space → List Frame
  | some sp => sp.hist.pending
  | none => []

/-- all frames the handler still tracks -/
def pending (s : State) : List Frame := spacePending s.initial ++ spacePending s.handshake ++ s.app.hist.pending

/-- the placeholder stored in `packets` for a path probe carries no frames -/
def DummyOKH (h : Hist) : Prop := ∀ p, some p ∈ h.packets → p.pathProbe = true → p.allFrames = []

def DummyOKS : Option Space → Prop
  | some sp => DummyOKH sp.hist
  | none => True

def DummyOK (s : State) : Prop := DummyOKS s.initial ∧ DummyOKS s.handshake ∧ DummyOKH s.app.hist

/-! ### frame rule for the three spaces -/

theorem pending_frame {s : State} {lvl : Level} {sp : Space} (h : s.getSpace lvl = some sp) :
    ∃ rest, pending s ~ sp.hist.pending ++ rest ∧ ∀ sp' : Space, pending (s.setSpace lvl sp') ~ sp'.hist.pending ++ rest := by
  cases lvl with
  | invalid => simp [State.getSpace] at h
  | initial =>
    simp only [State.getSpace] at h
    refine ⟨spacePending s.handshake ++ s.app.hist.pending, ?_, ?_⟩
    · simp [pending, h, spacePending]
    · intro sp'; simp [pending, State.setSpace, spacePending]
  | handshake =>
    simp only [State.getSpace] at h
    refine ⟨spacePending s.initial ++ s.app.hist.pending, ?_, ?_⟩
    · simp only [pending, h, spacePending]
      rw [← List.append_assoc]
      exact List.Perm.append_right _ List.perm_append_comm
    · intro sp'
      simp only [pending, State.setSpace, spacePending]
      rw [← List.append_assoc]
      exact List.Perm.append_right _ List.perm_append_comm
  | zeroRTT =>
    simp only [State.getSpace, Option.some.injEq] at h
    refine ⟨spacePending s.initial ++ spacePending s.handshake, ?_, ?_⟩
    · subst h; simp only [pending]; exact List.perm_append_comm
    · intro sp'; simp only [pending, State.setSpace]; exact List.perm_append_comm
  | oneRTT =>
    simp only [State.getSpace, Option.some.injEq] at h
    refine ⟨spacePending s.initial ++ spacePending s.handshake, ?_, ?_⟩
    · subst h; simp only [pending]; exact List.perm_append_comm
    · intro sp'; simp only [pending, State.setSpace]; exact List.perm_append_comm

/-- frame rule that also allows the non-space fields to change -/
theorem pending_frame' {s : State} {lvl : Level} {sp : Space} (h : s.getSpace lvl = some sp) :
    ∃ rest, pending s ~ sp.hist.pending ++ rest ∧
      ∀ (s' : State) (sp' : Space), s'.initial = s.initial → s'.handshake = s.handshake → s'.app = s.app →
        pending (s'.setSpace lvl sp') ~ sp'.hist.pending ++ rest := by
  obtain ⟨rest, f1, f2⟩ := pending_frame h
  refine ⟨rest, f1, ?_⟩
  intro s' sp' a b c
  have : pending (s'.setSpace lvl sp') = pending (s.setSpace lvl sp') := by
    cases lvl <;> simp [pending, State.setSpace, a, b, c]
  rw [this]; exact f2 sp'

theorem DummyOK_getSpace {s : State} {lvl : Level} {sp : Space} (d : DummyOK s) (h : s.getSpace lvl = some sp) : DummyOKH sp.hist := by
  obtain ⟨a, b, c⟩ := d
  cases lvl <;> simp only [State.getSpace] at h
  · simp at h
  · rw [h] at a; exact a
  · rw [h] at b; exact b
  · simp at h; subst h; exact c
  · simp at h; subst h; exact c

theorem DummyOK_setSpace {s : State} {lvl : Level} {sp : Space} (d : DummyOK s) (h : DummyOKH sp.hist) : DummyOK (s.setSpace lvl sp) := by
  obtain ⟨a, b, c⟩ := d
  cases lvl <;> simp only [State.setSpace, DummyOK, DummyOKS] <;> exact ⟨by assumption, by assumption, by assumption⟩

theorem mem_dropNones {x : Option Packet} {l : List (Option Packet)} (h : x ∈ dropNones l) : x ∈ l := by
  induction l with
  | nil => simp [dropNones] at h
  | cons y ys ih =>
    cases y with
    | none => simp only [dropNones] at h; exact List.mem_cons_of_mem _ (ih h)
    | some q => simpa [dropNones] using h

theorem DummyOKH_of_subset {h h' : Hist} (d : DummyOKH h) (sub : ∀ p, some p ∈ h'.packets → some p ∈ h.packets) : DummyOKH h' :=
  fun p hp hpp => d p (sub p hp) hpp

theorem mem_cleanupStart {h : Hist} {x : Option Packet} (hx : x ∈ h.cleanupStart.packets) : x ∈ h.packets := by
  unfold Hist.cleanupStart at hx
  simp only [] at hx
  split at hx
  · simp at hx
  · exact mem_dropNones hx

theorem mem_set_none {l : List (Option Packet)} {i : Nat} {p : Packet} (h : some p ∈ l.set i none) : some p ∈ l := by
  rcases List.mem_or_eq_of_mem_set h with h | h
  · exact h
  · simp at h

theorem DummyOKH_checkSeq {h h' : Hist} {pn : PN} (d : DummyOKH h) (e : h.checkSeq pn = some h') : DummyOKH h' := by
  obtain ⟨a, _⟩ := checkSeq_packets e
  exact DummyOKH_of_subset d (by simp [a])

theorem DummyOKH_skippedPacket {h h' : Hist} {pn : PN} (d : DummyOKH h) (e : h.skippedPacket pn = some h') : DummyOKH h' := by
  unfold Hist.skippedPacket at e
  split at e
  · simp at e
  · rename_i h1 e1
    obtain ⟨a, _⟩ := checkSeq_packets e1
    simp only [Option.some.injEq] at e; subst e
    intro p hp
    apply d p
    simp only [] at hp
    split at hp
    · rw [← a]; exact hp
    · simp at hp; rw [← a]; exact hp

theorem DummyOKH_sentPacket {h h' : Hist} {pn : PN} {p : Packet} (d : DummyOKH h) (hp : p.pathProbe = false)
    (e : h.sentPacket pn p = some h') : DummyOKH h' := by
  obtain ⟨a, _⟩ := sentPacket_spec e
  intro q hq hqq
  rw [a] at hq
  simp at hq
  rcases hq with hq | hq
  · exact d q hq hqq
  · subst hq; simp [hp] at hqq

theorem DummyOKH_sentPathProbePacket {h h' : Hist} {pn : PN} {p : Packet} (d : DummyOKH h)
    (e : h.sentPathProbePacket pn p = some h') : DummyOKH h' := by
  obtain ⟨a, _⟩ := sentPathProbePacket_spec e
  intro q hq hqq
  rw [a] at hq
  simp at hq
  rcases hq with hq | hq
  · exact d q hq hqq
  · subst hq; rfl

theorem DummyOKH_remove {h h' : Hist} {pn : PN} {p : Packet} (d : DummyOKH h) (e : h.remove pn = .ok h' p) :
    DummyOKH h' ∧ (p.pathProbe = true → p.allFrames = []) := by
  obtain ⟨idx, _, e2, _⟩ := remove_spec e
  refine ⟨?_, fun hp => d p (List.mem_of_getElem? e2) hp⟩
  unfold Hist.remove at e
  cases e1 : h.getIndex pn with
  | none => simp [e1] at e
  | some idx' =>
    simp only [e1] at e
    cases e2' : (h.packets[idx']?).join with
    | none => simp [e2'] at e
    | some q =>
      simp only [e2'] at e
      split at e
      · simp at e
      · split at e
        · simp at e
        · simp only [RemoveRes.ok.injEq] at e
          obtain ⟨e3, _⟩ := e
          subst e3
          apply DummyOKH_of_subset d
          intro r hr
          split at hr
          · exact mem_set_none hr
          · exact mem_set_none (mem_cleanupStart hr)

theorem DummyOKH_declareLost {h h' : Hist} {pn : PN} (d : DummyOKH h) (e : h.declareLost pn = .ok h') : DummyOKH h' := by
  unfold Hist.declareLost at e
  cases e1 : h.getIndex pn with
  | none => simp [e1] at e; subst e; exact d
  | some idx =>
    simp only [e1] at e
    cases e2 : (h.packets[idx]?).join with
    | none => simp [e2] at e
    | some q =>
      simp only [e2] at e
      split at e
      · simp at e
      · simp only [LostRes.ok.injEq] at e
        subst e
        apply DummyOKH_of_subset d
        intro r hr
        split at hr
        · exact mem_set_none (mem_cleanupStart hr)
        · exact mem_set_none hr

theorem lookup_mem {h : Hist} {pn : PN} {p : Packet} (e : h.lookup pn = some p) : some p ∈ h.packets := by
  obtain ⟨idx, _, e2⟩ := lookup_some e
  exact List.mem_of_getElem? e2


def CollectRes.probes : CollectRes → List (PN × Packet) | .done p _ _ => p | .bug p _ _ => p
def CollectRes.stash : CollectRes → List (PN × Packet) | .done _ s _ => s | .bug _ s _ => s
def CollectRes.acc : CollectRes → List PN | .done _ _ a => a | .bug _ _ a => a

theorem collect_frames (multi : Bool) (lowest largest : PN) (pk : List (Option Packet)) :
    ∀ (pn : PN) (rem : List Range) (probes stash : List (PN × Packet)) (acc : List PN),
      probesFrames probes ++ probesFrames stash ~
        probesFrames (CollectRes.probes (collect multi lowest largest pn pk rem probes stash acc)) ++
        probesFrames (CollectRes.stash (collect multi lowest largest pn pk rem probes stash acc)) := by
  induction pk with
  | nil => intro pn rem probes stash acc; simp [collect, CollectRes.probes, CollectRes.stash]
  | cons x xs ih =>
    intro pn rem probes stash acc
    cases x with
    | none => simp only [collect]; exact ih _ _ _ _ _
    | some p =>
      simp only [collect]
      split
      · exact ih _ _ _ _ _
      · split
        · simp [CollectRes.probes, CollectRes.stash]
        · split
          · exact ih _ _ _ _ _
          · split
            · simp [CollectRes.probes, CollectRes.stash]
            · split
              · split
                · rename_i q probes' hr
                  refine List.Perm.trans ?_ (ih _ _ _ _ _)
                  have := removeProbe_some hr
                  simp only [probesFrames_append, probesFrames_cons, probesFrames_nil, List.append_nil]
                  refine (this.append_right _).trans ?_
                  simp only [List.append_assoc]
                  exact (List.perm_append_comm_assoc _ _ _).trans (List.Perm.append_left _ List.perm_append_comm)
                · rename_i probes' hr
                  rw [removeProbe_none hr]
                  exact ih _ _ _ _ _
              · exact ih _ _ _ _ _

/-- decide a permutation goal between concatenations by counting, using up to three permutation facts -/
syntax "perm_solve" (" [" term,* "]")? : tactic
macro_rules
  | `(tactic| perm_solve) =>
    `(tactic| (rw [List.perm_iff_count]; intro a; simp only [List.count_append, List.count_nil, List.count_cons]; omega))
  | `(tactic| perm_solve [$h1:term]) =>
    `(tactic| (rw [List.perm_iff_count]; intro a; have c1 := List.Perm.count_eq $h1 a
               simp only [List.count_append, List.count_nil, List.count_cons] at c1 ⊢; omega))
  | `(tactic| perm_solve [$h1:term, $h2:term]) =>
    `(tactic| (rw [List.perm_iff_count]; intro a; have c1 := List.Perm.count_eq $h1 a; have c2 := List.Perm.count_eq $h2 a
               simp only [List.count_append, List.count_nil, List.count_cons] at c1 c2 ⊢; omega))
  | `(tactic| perm_solve [$h1:term, $h2:term, $h3:term]) =>
    `(tactic| (rw [List.perm_iff_count]; intro a; have c1 := List.Perm.count_eq $h1 a; have c2 := List.Perm.count_eq $h2 a
               have c3 := List.Perm.count_eq $h3 a
               simp only [List.count_append, List.count_nil, List.count_cons] at c1 c2 c3 ⊢; omega))

macro_rules
  | `(tactic| perm_solve [$h1:term, $h2:term, $h3:term, $h4:term]) =>
    `(tactic| (rw [List.perm_iff_count]; intro a; have c1 := List.Perm.count_eq $h1 a; have c2 := List.Perm.count_eq $h2 a
               have c3 := List.Perm.count_eq $h3 a; have c4 := List.Perm.count_eq $h4 a
               simp only [List.count_append, List.count_nil, List.count_cons] at c1 c2 c3 c4 ⊢; omega))
  | `(tactic| perm_solve [$h1:term, $h2:term, $h3:term, $h4:term, $h5:term]) =>
    `(tactic| (rw [List.perm_iff_count]; intro a; have c1 := List.Perm.count_eq $h1 a; have c2 := List.Perm.count_eq $h2 a
               have c3 := List.Perm.count_eq $h3 a; have c4 := List.Perm.count_eq $h4 a; have c5 := List.Perm.count_eq $h5 a
               simp only [List.count_append, List.count_nil, List.count_cons] at c1 c2 c3 c4 c5 ⊢; omega))

theorem evFrames_ign (c : Prop) [Decidable c] (pn : PN) : evFrames (if c then [Ev.ignore pn] else []) = [] := by
  split <;> rfl

theorem ackedLoop_ledger (lvl : Level) (acc : List PN) :
    ∀ (h : Hist) (stash : List (PN × Packet)) (evs : List Ev) (done : List (PN × Packet)), DummyOKH h →
      let r := ackedLoop lvl acc h stash evs done
      (h.pending ++ probesFrames stash ++ evFrames evs ~ r.1.pending ++ probesFrames r.2.1 ++ evFrames r.2.2.1) ∧ DummyOKH r.1 := by
  induction acc with
  | nil => intro h stash evs done d; simp [ackedLoop]; exact d
  | cons pn rest ih =>
    intro h stash evs done d
    simp only [ackedLoop]
    cases hr : h.remove pn with
    | panic c => simp; exact d
    | notFound => simp; exact d
    | ok h' removed =>
      simp only []
      obtain ⟨d', dz⟩ := DummyOKH_remove d hr
      have hp := remove_pending hr
      by_cases hpp : removed.pathProbe = true
      · simp only [hpp, if_true]
        have hz := dz hpp
        rw [hz] at hp
        cases hq : removeProbe pn stash with
        | mk o st' =>
          cases o with
          | some q =>
            simp only []
            obtain ⟨i1, i2⟩ := ih h' st' (evs ++ (if q.largestAcked ≠ invalidPN ∧ lvl = Level.oneRTT then [Ev.ignore (q.largestAcked + 1)] else []) ++ q.allFrames.map Ev.acked) (done ++ [(pn, q)]) d'
            refine ⟨List.Perm.trans ?_ i1, i2⟩
            have hs := removeProbe_some hq
            simp only [evFrames_append, evFrames_acked, evFrames_ign, List.append_nil]
            perm_solve [hp, hs]
          | none =>
            simp only []
            obtain ⟨i1, i2⟩ := ih h' st' (evs ++ (if removed.largestAcked ≠ invalidPN ∧ lvl = Level.oneRTT then [Ev.ignore (removed.largestAcked + 1)] else []) ++ removed.allFrames.map Ev.acked) (done ++ [(pn, removed)]) d'
            refine ⟨List.Perm.trans ?_ i1, i2⟩
            rw [removeProbe_none hq]
            simp only [evFrames_append, evFrames_acked, evFrames_ign, List.append_nil, hz]
            perm_solve [hp]
      · simp only [hpp]
        obtain ⟨i1, i2⟩ := ih h' stash (evs ++ (if removed.largestAcked ≠ invalidPN ∧ lvl = Level.oneRTT then [Ev.ignore (removed.largestAcked + 1)] else []) ++ removed.allFrames.map Ev.acked) (done ++ [(pn, removed)]) d'
        refine ⟨List.Perm.trans ?_ i1, i2⟩
        simp only [evFrames_append, evFrames_acked, evFrames_ign, List.append_nil]
        perm_solve [hp]


theorem notAE_allFrames {p : Packet} (h : p.ackEliciting = false) : p.allFrames = [] := by
  unfold Packet.ackEliciting at h
  unfold Packet.allFrames
  cases hs : p.sframes <;> cases hf : p.frames <;> simp_all

theorem lossStep_ledger {la lst ld : Int} {pn : PN} {p : Packet} {a : LossAcc} (d : DummyOKH a.hist)
    (hl : a.hist.lookup pn = some p) (hn : (lossStep la lst ld pn p a).panic = none) :
    (a.hist.pending ++ evFrames a.evs ~ (lossStep la lst ld pn p a).hist.pending ++ evFrames (lossStep la lst ld pn p a).evs) ∧
      DummyOKH (lossStep la lst ld pn p a).hist := by
  unfold lossStep at hn ⊢
  split
  · rename_i hc
    simp only [hc, if_true] at hn
    cases hd : a.hist.declareLost pn with
    | panic c => simp [hd] at hn
    | ok h' =>
      simp only [hd] at hn ⊢
      have hp := declareLost_pending hl hd
      have d' := DummyOKH_declareLost d hd
      split
      · rename_i hc2
        simp only [hc2] at hn
        cases hb : removeBif a.bfl p with
        | none => simp [hb] at hn
        | some b =>
          simp only []
          refine ⟨?_, d'⟩
          simp only [evFrames_append, evFrames_lost]
          perm_solve [hp]
      · rename_i hc2
        simp only []
        refine ⟨?_, d'⟩
        have hz : p.allFrames = [] := by
          by_cases hpp : p.pathProbe = true
          · exact d p (lookup_mem hl) hpp
          · have : p.ackEliciting = false := by
              simp only [Bool.not_eq_true] at hpp
              simp [hpp] at hc2
              exact hc2
            exact notAE_allFrames this
        rw [hz] at hp
        perm_solve [hp]
  · split
    · exact ⟨List.Perm.refl _, d⟩
    · exact ⟨List.Perm.refl _, d⟩

theorem lossLoop_ledger (la lst ld : Int) (n : Nat) :
    ∀ (pn : PN) (a : LossAcc), DummyOKH a.hist → (lossLoop la lst ld n pn a).panic = none →
      (a.hist.pending ++ evFrames a.evs ~ (lossLoop la lst ld n pn a).hist.pending ++ evFrames (lossLoop la lst ld n pn a).evs) ∧
      DummyOKH (lossLoop la lst ld n pn a).hist := by
  induction n with
  | zero => intro pn a d _; exact ⟨List.Perm.refl _, d⟩
  | succ n ih =>
    intro pn a d hn
    unfold lossLoop at hn ⊢
    split
    · exact ⟨List.Perm.refl _, d⟩
    · rename_i hpz
      simp only [hpz] at hn
      cases hl : a.hist.lookup pn with
      | none =>
        simp only [hl] at hn ⊢
        exact ih _ _ d hn
      | some p =>
        simp only [hl] at hn ⊢
        split
        · exact ⟨List.Perm.refl _, d⟩
        · rename_i hgt
          simp only [hgt, if_false] at hn
          have hstep : (lossStep la lst ld pn p a).panic = none := by
            cases hs : (lossStep la lst ld pn p a).panic with
            | none => rfl
            | some c =>
              exfalso
              unfold lossLoop at hn
              cases n with
              | zero => simp at hn; rw [hs] at hn; simp at hn
              | succ m => simp [hs] at hn
          obtain ⟨s1, s2⟩ := lossStep_ledger d hl hstep
          obtain ⟨i1, i2⟩ := ih _ _ s2 hn
          exact ⟨s1.trans i1, i2⟩


theorem lostProbesLoop_ledger (pns : List PN) :
    ∀ (pr : List (PN × Packet)) (evs : List Ev) (disc : List Frame),
      probesFrames pr ++ evFrames evs ++ disc ~
        probesFrames (lostProbesLoop pns pr evs disc).1 ++ evFrames (lostProbesLoop pns pr evs disc).2.1 ++ (lostProbesLoop pns pr evs disc).2.2 := by
  induction pns with
  | nil => intro pr evs disc; exact List.Perm.refl _
  | cons pn rest ih =>
    intro pr evs disc
    simp only [lostProbesLoop]
    cases hq : removeProbe pn pr with
    | mk o pr' =>
      cases o with
      | some p =>
        simp only []
        refine List.Perm.trans ?_ (ih _ _ _)
        have hs := removeProbe_some hq
        simp only [evFrames_append, evFrames_lost, Packet.allFrames] at hs ⊢
        perm_solve [hs]
      | none =>
        simp only []
        rw [removeProbe_none hq]
        exact ih _ _ _

theorem detectLostPathProbes_ledger (sp : Space) (now : Time) :
    sp.hist.pending ~ (detectLostPathProbes sp now).1.hist.pending ++ evFrames (detectLostPathProbes sp now).2.1 ++ (detectLostPathProbes sp now).2.2 := by
  unfold detectLostPathProbes
  split
  · simp
  · have := lostProbesLoop_ledger (lostProbePNs sp.hist.probes now) sp.hist.probes [] []
    simp only [evFrames_nil, List.append_nil] at this
    simp only [Hist.pending]
    perm_solve [this]

theorem detectLostPathProbes_packets (sp : Space) (now : Time) :
    (detectLostPathProbes sp now).1.hist.packets = sp.hist.packets := by
  unfold detectLostPathProbes
  split <;> rfl

theorem drop0RTTLoop_ledger (n : Nat) :
    ∀ (pn : PN) (h : Hist) (bfl : Int) (disc : List Frame), DummyOKH h →
      (h.pending ++ disc ~ (drop0RTTLoop n pn h bfl disc).1.pending ++ (drop0RTTLoop n pn h bfl disc).2.2.1) ∧
      DummyOKH (drop0RTTLoop n pn h bfl disc).1 := by
  induction n with
  | zero => intro pn h bfl disc d; exact ⟨List.Perm.refl _, d⟩
  | succ n ih =>
    intro pn h bfl disc d
    unfold drop0RTTLoop
    cases hl : h.lookup pn with
    | none => simp only []; exact ih _ _ _ _ d
    | some p =>
      simp only []
      split
      · exact ⟨List.Perm.refl _, d⟩
      · cases hb : removeBif bfl p with
        | none => exact ⟨List.Perm.refl _, d⟩
        | some b =>
          simp only []
          cases hr : h.remove pn with
          | panic c => exact ⟨List.Perm.refl _, d⟩
          | notFound => simp only []; exact ih _ _ _ _ d
          | ok h' q =>
            simp only []
            obtain ⟨d', _⟩ := DummyOKH_remove d hr
            obtain ⟨i1, i2⟩ := ih (pn + 1) h' b (disc ++ q.allFrames) d'
            refine ⟨List.Perm.trans ?_ i1, i2⟩
            have hp := remove_pending hr
            perm_solve [hp]

theorem migrateLoop_ledger (n : Nat) :
    ∀ (pn : PN) (h : Hist) (bfl : Int) (evs : List Ev), DummyOKH h → (migrateLoop n pn h bfl evs).2.2.2 = none →
      (h.pending ++ evFrames evs ~ (migrateLoop n pn h bfl evs).1.pending ++ evFrames (migrateLoop n pn h bfl evs).2.2.1) ∧
      DummyOKH (migrateLoop n pn h bfl evs).1 := by
  induction n with
  | zero => intro pn h bfl evs d _; exact ⟨List.Perm.refl _, d⟩
  | succ n ih =>
    intro pn h bfl evs d hn
    unfold migrateLoop at hn ⊢
    cases hl : h.lookup pn with
    | none => simp only [hl] at hn ⊢; exact ih _ _ _ _ d hn
    | some p =>
      simp only [hl] at hn ⊢
      cases hd : h.declareLost pn with
      | panic c => simp [hd] at hn
      | ok h' =>
        simp only [hd] at hn ⊢
        have hp := declareLost_pending hl hd
        have d' := DummyOKH_declareLost d hd
        split
        · rename_i hpp
          simp only [hpp, if_true] at hn
          cases hb : removeBif bfl p with
          | none => simp [hb] at hn
          | some b =>
            simp only [hb] at hn ⊢
            split
            · rename_i hae
              simp only [hae, if_true] at hn
              obtain ⟨i1, i2⟩ := ih _ _ _ _ d' hn
              refine ⟨List.Perm.trans ?_ i1, i2⟩
              simp only [evFrames_append, evFrames_lost]
              perm_solve [hp]
            · rename_i hae
              simp only [hae] at hn
              obtain ⟨i1, i2⟩ := ih _ _ _ _ d' hn
              refine ⟨List.Perm.trans ?_ i1, i2⟩
              have hz := notAE_allFrames (by simpa using hae : p.ackEliciting = false)
              rw [hz] at hp
              perm_solve [hp]
        · rename_i hpp
          simp only [hpp] at hn
          obtain ⟨i1, i2⟩ := ih _ _ _ _ d' hn
          refine ⟨List.Perm.trans ?_ i1, i2⟩
          have hz := d p (lookup_mem hl) (by simpa using hpp)
          rw [hz] at hp
          perm_solve [hp]

theorem migrateProbes_ledger (n : Nat) :
    ∀ (i : Nat) (cur stale removed : List (PN × Packet)),
      probesFrames cur ++ probesFrames removed ~
        probesFrames (migrateProbes n i cur stale removed).1 ++ probesFrames (migrateProbes n i cur stale removed).2 := by
  induction n with
  | zero => intro i cur stale removed; exact List.Perm.refl _
  | succ n ih =>
    intro i cur stale removed
    unfold migrateProbes
    cases hx : (cur ++ stale)[i]? with
    | none => exact List.Perm.refl _
    | some x =>
      obtain ⟨pn, pk⟩ := x
      simp only []
      cases hq : removeProbe pn cur with
      | mk o cur' =>
        cases o with
        | none => simp only []; exact ih _ _ _ _
        | some p =>
          cases hlast : cur.getLast? with
          | none => simp only []; exact ih _ _ _ _
          | some last =>
            simp only []
            refine List.Perm.trans ?_ (ih _ _ _ _)
            have hs := removeProbe_some hq
            simp only [probesFrames_append, probesFrames_cons, probesFrames_nil, List.append_nil]
            perm_solve [hs]


theorem pending_eq {s s' : State} (a : s'.initial = s.initial) (b : s'.handshake = s.handshake) (c : s'.app = s.app) :
    pending s' = pending s := by simp [pending, a, b, c]

theorem DummyOK_eq {s s' : State} (a : s'.initial = s.initial) (b : s'.handshake = s.handshake) (c : s'.app = s.app)
    (d : DummyOK s) : DummyOK s' := by simpa [DummyOK, a, b, c] using d

@[simp] theorem pending_setTimer (s : State) (env : Env) (now : Time) : pending (s.setTimer env now) = pending s := rfl
theorem DummyOK_setTimer {s : State} (env : Env) (now : Time) (d : DummyOK s) : DummyOK (s.setTimer env now) := d

theorem detectLostPackets_ledger {s : State} {env : Env} {now : Time} {lvl : Level} (d : DummyOK s)
    (hn : (s.detectLostPackets env now lvl).2.2 = none) :
    (pending s ~ pending (s.detectLostPackets env now lvl).1 ++ evFrames (s.detectLostPackets env now lvl).2.1) ∧
      DummyOK (s.detectLostPackets env now lvl).1 := by
  unfold State.detectLostPackets at hn ⊢
  cases hg : s.getSpace lvl with
  | none => simp [hg] at hn
  | some sp =>
    simp only [hg] at hn ⊢
    have dsp := DummyOK_getSpace d hg
    obtain ⟨l1, l2⟩ := lossLoop_ledger sp.largestAcked (now - lossDelayOf env) (lossDelayOf env) sp.hist.packets.length sp.hist.first
      { hist := sp.hist, bfl := s.bytesInFlight } dsp hn
    obtain ⟨rest, f1, f2⟩ := pending_frame hg
    simp only [evFrames_nil, List.append_nil] at l1
    constructor
    · have f3 := f2 { sp with hist := (lossLoop sp.largestAcked (now - lossDelayOf env) (lossDelayOf env) sp.hist.packets.length sp.hist.first { hist := sp.hist, bfl := s.bytesInFlight }).hist, lossTime := (lossLoop sp.largestAcked (now - lossDelayOf env) (lossDelayOf env) sp.hist.packets.length sp.hist.first { hist := sp.hist, bfl := s.bytesInFlight }).lossTime }
      change pending s ~ pending (s.setSpace lvl _) ++ _
      perm_solve [f1, f3, l1]
    · change DummyOK (s.setSpace lvl _)
      exact DummyOK_setSpace d l2

theorem DummyOKH_probes {h : Hist} (d : DummyOKH h) (pr : List (PN × Packet)) : DummyOKH { h with probes := pr } := d

theorem pathProbesStep_ledger (lvl : Level) (sp : Space) (now : Time) (d : DummyOKH sp.hist) :
    let r := if lvl = .oneRTT then detectLostPathProbes sp now else (sp, [], [])
    (sp.hist.pending ~ r.1.hist.pending ++ evFrames r.2.1 ++ r.2.2) ∧ DummyOKH r.1.hist := by
  simp only []
  split
  · refine ⟨detectLostPathProbes_ledger sp now, ?_⟩
    intro p hp
    rw [detectLostPathProbes_packets] at hp
    exact d p hp
  · simp; exact d

theorem ackTail_ledger {s : State} {env : Env} {lvl : Level} {now : Time} {largest : PN} {sp : Space} {h2 : Hist}
    {evs : List Ev} {removed : List (PN × Packet)} {sdisc rest : List Frame} {n : Nat}
    (d : DummyOK s) (d2 : DummyOKH h2)
    (fr : ∀ sp' : Space, pending (s.setSpace lvl sp') ~ sp'.hist.pending ++ rest)
    (hn : (s.ackTail env lvl now largest sp h2 evs removed sdisc n).2.res.isPanic = false) :
    (h2.pending ++ rest ++ evFrames evs ++ sdisc ~
      pending (s.ackTail env lvl now largest sp h2 evs removed sdisc n).1 ++
      evFrames (s.ackTail env lvl now largest sp h2 evs removed sdisc n).2.evs ++
      (s.ackTail env lvl now largest sp h2 evs removed sdisc n).2.disc) ∧
    DummyOK (s.ackTail env lvl now largest sp h2 evs removed sdisc n).1 := by
  unfold State.ackTail at hn ⊢
  simp only [] at hn ⊢
  have f2 := fr { sp with hist := h2, largestAcked := max sp.largestAcked largest }
  have ds2 : DummyOK (s.setSpace lvl { sp with hist := h2, largestAcked := max sp.largestAcked largest }) := DummyOK_setSpace d d2
  generalize s.setSpace lvl { sp with hist := h2, largestAcked := max sp.largestAcked largest } = s2 at hn f2 ds2 ⊢
  have hl := @detectLostPackets_ledger s2 env now lvl ds2
  cases hd : s2.detectLostPackets env now lvl with
  | mk s3 r =>
    obtain ⟨evsL, pl⟩ := r
    rw [hd] at hl
    cases pl with
    | some c => simp [hd, Res.isPanic] at hn
    | none =>
      simp only [hd] at hn ⊢
      obtain ⟨l1, l2⟩ := hl rfl
      obtain ⟨p1, p2⟩ := pathProbesStep_ledger lvl s3.app now l2.2.2
      generalize (if lvl = Level.oneRTT then detectLostPathProbes s3.app now else (s3.app, [], [])) = r at hn p1 p2 ⊢
      cases hb : removeBifAll s3.bytesInFlight removed with
      | none => simp [hb, Res.isPanic] at hn
      | some b =>
        constructor
        · simp only [State.setTimer, pending, evFrames_append] at l1 f2 ⊢
          perm_solve [f2, l1, p1]
        · exact ⟨l2.1, l2.2.1, p2⟩

theorem collect_acc_nil (multi : Bool) (lowest largest : PN) (pk : List (Option Packet)) :
    ∀ (pn : PN) (rem : List Range) (probes stash : List (PN × Packet)) (acc : List PN),
      CollectRes.acc (collect multi lowest largest pn pk rem probes stash acc) = [] →
      acc = [] ∧ CollectRes.probes (collect multi lowest largest pn pk rem probes stash acc) = probes ∧
        CollectRes.stash (collect multi lowest largest pn pk rem probes stash acc) = stash := by
  induction pk with
  | nil => intro pn rem probes stash acc h; simpa [collect, CollectRes.probes, CollectRes.stash, CollectRes.acc] using h
  | cons x xs ih =>
    intro pn rem probes stash acc
    cases x with
    | none => simp only [collect]; exact ih _ _ _ _ _
    | some p =>
      simp only [collect]
      split
      · exact ih _ _ _ _ _
      · split
        · intro h; simpa [CollectRes.probes, CollectRes.stash, CollectRes.acc] using h
        · split
          · exact ih _ _ _ _ _
          · split
            · intro h; simpa [CollectRes.probes, CollectRes.stash, CollectRes.acc] using h
            · split
              · split
                · intro h
                  have := (ih _ _ _ _ _ h).1
                  simp at this
                · rename_i probes' hr
                  rw [removeProbe_none hr]
                  exact ih _ _ _ _ _
              · intro h
                have := (ih _ _ _ _ _ h).1
                simp at this

theorem ackedLoop_ok_len (lvl : Level) (acc : List PN) :
    ∀ (h : Hist) (stash : List (PN × Packet)) (evs : List Ev) (done : List (PN × Packet)),
      (ackedLoop lvl acc h stash evs done).2.2.2.2 = .ok →
      (ackedLoop lvl acc h stash evs done).2.2.2.1.length = done.length + acc.length := by
  induction acc with
  | nil => intro h stash evs done _; simp [ackedLoop]
  | cons pn rest ih =>
    intro h stash evs done
    simp only [ackedLoop]
    cases hr : h.remove pn with
    | panic c => simp
    | notFound => simp
    | ok h' removed =>
      simp only []
      intro hok
      have := ih _ _ _ _ hok
      rw [this]
      simp; omega


theorem ackCore_ledger {s : State} {env : Env} {ranges : List Range} {lvl : Level} {now : Time} {sp : Space}
    {lowest largest : PN} (d : DummyOK s) (hg : s.getSpace lvl = some sp)
    (hn : (s.ackCore env ranges lvl now sp lowest largest).2.res.isPanic = false) :
    (pending s ~ pending (s.ackCore env ranges lvl now sp lowest largest).1 ++
      evFrames (s.ackCore env ranges lvl now sp lowest largest).2.evs ++ (s.ackCore env ranges lvl now sp lowest largest).2.disc) ∧
    DummyOK (s.ackCore env ranges lvl now sp lowest largest).1 := by
  obtain ⟨rest, f1, f2⟩ := pending_frame hg
  have dsp := DummyOK_getSpace d hg
  unfold State.ackCore at hn ⊢
  by_cases h1 : s.ackedBuf > 0
  · simp only [h1, if_true]; simp; exact d
  · by_cases h2' : lvl = .oneRTT ∧ sp.hist.skipped.any (acksPacketBin ranges lowest largest)
    · simp only [h1, h2', if_false]; simp; exact d
    · simp only [h1, h2', if_false] at hn ⊢
      have cf := collect_frames (decide (ranges.length > 1)) lowest largest sp.hist.packets sp.hist.first ranges.reverse sp.hist.probes [] []
      have cn := collect_acc_nil (decide (ranges.length > 1)) lowest largest sp.hist.packets sp.hist.first ranges.reverse sp.hist.probes [] []
      cases hc : collect (decide (ranges.length > 1)) lowest largest sp.hist.first sp.hist.packets ranges.reverse sp.hist.probes [] [] with
      | bug probes stash acc =>
        rw [hc] at cf
        simp only [CollectRes.probes, CollectRes.stash, probesFrames_nil, List.append_nil] at cf
        simp only []
        constructor
        · have f3 := f2 { sp with hist := { sp.hist with probes := probes } }
          change pending s ~ pending (s.setSpace lvl _) ++ _ ++ _
          simp only [Hist.pending, evFrames_nil, List.append_nil] at f1 f3 ⊢
          perm_solve [f1, f3, cf]
        · change DummyOK (s.setSpace lvl _)
          exact DummyOK_setSpace d (DummyOKH_probes dsp probes)
      | done probes stash acc =>
        rw [hc] at cf cn
        simp only [CollectRes.probes, CollectRes.stash, CollectRes.acc, probesFrames_nil, List.append_nil] at cf cn
        simp only [hc] at hn ⊢
        have al := ackedLoop_ledger lvl acc { sp.hist with probes := probes } stash [] [] (DummyOKH_probes dsp probes)
        have alen := ackedLoop_ok_len lvl acc { sp.hist with probes := probes } stash [] []
        cases ha : ackedLoop lvl acc { sp.hist with probes := probes } stash [] [] with
        | mk h2 r =>
          obtain ⟨stash', evs, removed, res⟩ := r
          rw [ha] at al alen
          simp only [evFrames_nil, List.append_nil] at al
          obtain ⟨al1, al2⟩ := al
          cases res with
          | panic c => simp [ha, Res.isPanic] at hn
          | err e =>
            simp only []
            constructor
            · have f3 := f2 { sp with hist := h2 }
              change pending s ~ pending (s.setSpace lvl _) ++ _ ++ _
              simp only [Hist.pending] at f1 f3 al1 ⊢
              perm_solve [f1, f3, cf, al1]
            · change DummyOK (s.setSpace lvl _)
              exact DummyOK_setSpace d al2
          | ok =>
            simp only [ha] at hn ⊢
            by_cases hre : removed.isEmpty = true
            · simp only [hre, if_true]; simp; exact d
            · simp only [hre] at hn ⊢
              have at' := @ackTail_ledger s env lvl now largest sp h2 evs removed (probesFrames stash') rest acc.length d al2 f2 hn
              obtain ⟨t1, t2⟩ := at'
              refine ⟨?_, t2⟩
              refine List.Perm.trans ?_ t1
              simp only [Hist.pending] at f1 al1 ⊢
              perm_solve [f1, cf, al1]


theorem getSpace_congr {s s' : State} (a : s'.initial = s.initial) (b : s'.handshake = s.handshake) (c : s'.app = s.app)
    (lvl : Level) : s'.getSpace lvl = s.getSpace lvl := by
  cases lvl <;> simp [State.getSpace, a, b, c]

theorem completeValidation_spec (s : State) (env : Env) (lvl : Level) (now : Time) :
    (s.completeValidation env lvl now).initial = s.initial ∧ (s.completeValidation env lvl now).handshake = s.handshake ∧
    (s.completeValidation env lvl now).app = s.app ∧ (s.completeValidation env lvl now).bytesInFlight = s.bytesInFlight ∧
    (s.completeValidation env lvl now).ackedBuf = s.ackedBuf := by
  unfold State.completeValidation
  split <;> exact ⟨rfl, rfl, rfl, rfl, rfl⟩

theorem receivedAck_ledger {s : State} {env : Env} {ranges : List Range} {lvl : Level} {now : Time} (d : DummyOK s)
    (hn : (s.receivedAck env ranges lvl now).2.res.isPanic = false) :
    (pending s ~ pending (s.receivedAck env ranges lvl now).1 ++
      evFrames (s.receivedAck env ranges lvl now).2.evs ++ (s.receivedAck env ranges lvl now).2.disc) ∧
    DummyOK (s.receivedAck env ranges lvl now).1 := by
  unfold State.receivedAck at hn ⊢
  cases hg : s.getSpace lvl with
  | none => simp [hg, Res.isPanic] at hn
  | some sp =>
    cases hh : ranges.head? with
    | none => simp [hg, hh, Res.isPanic] at hn
    | some top =>
      cases hl : ranges.getLast? with
      | none => simp [hg, hh, hl, Res.isPanic] at hn
      | some bot =>
        simp only [hg, hh, hl] at hn ⊢
        by_cases hle : top.2 > sp.largestSent
        · simp only [hle, if_true]; simp; exact d
        · simp only [hle, if_false] at hn ⊢
          obtain ⟨e1, e2, e3, _, _⟩ := completeValidation_spec s env lvl now
          generalize s.completeValidation env lvl now = s1 at hn e1 e2 e3 ⊢
          have d' : DummyOK s1 := DummyOK_eq e1 e2 e3 d
          have hg' : s1.getSpace lvl = some sp := by rw [getSpace_congr e1 e2 e3]; exact hg
          rw [← pending_eq e1 e2 e3]
          exact ackCore_ledger d' hg' hn

theorem Space.pop_spec {sp sp' : Space} {nts pn : PN} {sk : List PN} (e : sp.pop nts = some (sp', pn, sk)) (d : DummyOKH sp.hist) :
    sp'.hist.pending = sp.hist.pending ∧ DummyOKH sp'.hist := by
  unfold Space.pop at e
  cases hg : sp.gen.pop nts with
  | mk b r =>
    obtain ⟨pn', g⟩ := r
    cases b with
    | true =>
      simp only [hg] at e
      cases hs : sp.hist.skippedPacket (pn' - 1) with
      | none => simp [hs] at e
      | some h =>
        simp only [hs, Option.some.injEq, Prod.mk.injEq] at e
        obtain ⟨e1, _, _⟩ := e
        subst e1
        exact ⟨skippedPacket_pending hs, DummyOKH_skippedPacket d hs⟩
    | false =>
      simp only [hg, Option.some.injEq, Prod.mk.injEq] at e
      obtain ⟨e1, _, _⟩ := e
      subst e1
      exact ⟨rfl, d⟩

theorem popPacketNumber_ledger {s : State} {lvl : Level} {nts : PN} (d : DummyOK s)
    (hn : (s.popPacketNumber lvl nts).2.res = .ok) :
    (pending (s.popPacketNumber lvl nts).1 ~ pending s) ∧ DummyOK (s.popPacketNumber lvl nts).1 := by
  unfold State.popPacketNumber at hn ⊢
  cases hg : s.getSpace lvl with
  | none => simp [hg] at hn
  | some sp =>
    simp only [hg] at hn ⊢
    cases hp : sp.pop nts with
    | none => simp [hp] at hn
    | some r =>
      obtain ⟨sp', pn, sk⟩ := r
      simp only []
      obtain ⟨p1, p2⟩ := Space.pop_spec hp (DummyOK_getSpace d hg)
      obtain ⟨rest, f1, f2⟩ := pending_frame hg
      refine ⟨?_, DummyOK_setSpace d p2⟩
      have f3 := f2 sp'
      rw [p1] at f3
      perm_solve [f1, f3]

theorem sentPacket_ledger {s : State} {env : Env} {t : Time} {pn la : PN} {sframes frames : List Frame} {lvl : Level}
    {size : Int} {mtu probe : Bool} (d : DummyOK s)
    (hn : (s.sentPacket env t pn la sframes frames lvl size mtu probe).2 = .ok) :
    (pending (s.sentPacket env t pn la sframes frames lvl size mtu probe).1 ~ pending s ++ (frames ++ sframes)) ∧
      DummyOK (s.sentPacket env t pn la sframes frames lvl size mtu probe).1 := by
  unfold State.sentPacket at hn ⊢
  simp only [] at hn ⊢
  have hgc : ({ s with bytesSent := s.bytesSent + size } : State).getSpace lvl = s.getSpace lvl := getSpace_congr rfl rfl rfl lvl
  rw [hgc] at hn ⊢
  cases hg : s.getSpace lvl with
  | none => simp [hg] at hn
  | some sp =>
    simp only [hg] at hn ⊢
    obtain ⟨rest, f1, f2⟩ := pending_frame' hg
    have dsp := DummyOK_getSpace d hg
    cases probe with
    | true =>
      simp only [if_true] at hn ⊢
      cases hs : sp.hist.sentPathProbePacket pn { sendTime := t, level := lvl, length := size, frames := frames, sframes := sframes, largestAcked := la, mtuProbe := mtu, pathProbe := true } with
      | none => simp [hs] at hn
      | some h =>
        have hp := sentPathProbePacket_pending hs
        have f3 := f2 { s with bytesSent := s.bytesSent + size } { sp with largestSent := pn, hist := h } rfl rfl rfl
        constructor
        · change pending (State.setSpace _ lvl _) ~ _
          simp only [hp, Packet.allFrames] at f3
          perm_solve [f1, f3]
        · change DummyOK (State.setSpace _ lvl _)
          exact DummyOK_setSpace (s := { s with bytesSent := s.bytesSent + size }) d (DummyOKH_sentPathProbePacket dsp hs)
    | false =>
      simp only [Bool.false_eq_true, if_false] at hn ⊢
      by_cases hae : ({ sendTime := t, level := lvl, length := size, frames := frames, sframes := sframes, largestAcked := la, mtuProbe := mtu, pathProbe := false } : Packet).ackEliciting = true
      · simp only [hae, if_true] at hn ⊢
        cases hs : sp.hist.sentPacket pn { sendTime := t, level := lvl, length := size, frames := frames, sframes := sframes, largestAcked := la, mtuProbe := mtu, pathProbe := false, inFlight := true } with
        | none => simp [hs] at hn
        | some h =>
          have hp := sentPacket_pending hs
          have f3 := f2 (State.aeSent { s with bytesSent := s.bytesSent + size } size)
             { sp with largestSent := pn, lastAETime := t, hist := h } rfl rfl rfl
          constructor
          · change pending (State.setSpace _ lvl _) ~ _
            simp only [Packet.allFrames] at hp
            perm_solve [f1, f3, hp]
          · change DummyOK (State.setSpace _ lvl _)
            exact DummyOK_setSpace (s := State.aeSent { s with bytesSent := s.bytesSent + size } size) d (DummyOKH_sentPacket dsp rfl hs)
      · rw [if_neg hae] at hn ⊢
        cases hs : sp.hist.sentPacket pn { sendTime := t, level := lvl, length := size, frames := frames, sframes := sframes, largestAcked := la, mtuProbe := mtu, pathProbe := false } with
        | none => simp [hs] at hn
        | some h =>
          have hp := sentPacket_pending hs
          have f3 := f2 { s with bytesSent := s.bytesSent + size } { sp with largestSent := pn, hist := h } rfl rfl rfl
          simp only []
          constructor
          · split
            all_goals
              change pending (State.setSpace _ lvl _) ~ _
              simp only [Packet.allFrames] at hp
              perm_solve [f1, f3, hp]
          · split
            all_goals
              change DummyOK (State.setSpace _ lvl _)
              exact DummyOK_setSpace (s := { s with bytesSent := s.bytesSent + size }) d (DummyOKH_sentPacket dsp rfl hs)


theorem ptoSwitch_ledger {s : State} {lvl : Level} {nts : PN} {evs0 : List Ev} {disc0 : List Frame} (d : DummyOK s)
    (hn : (s.ptoSwitch lvl nts evs0 disc0).2.res.isPanic = false) :
    (pending s ++ evFrames evs0 ++ disc0 ~ pending (s.ptoSwitch lvl nts evs0 disc0).1 ++
        evFrames (s.ptoSwitch lvl nts evs0 disc0).2.evs ++ (s.ptoSwitch lvl nts evs0 disc0).2.disc) ∧
      DummyOK (s.ptoSwitch lvl nts evs0 disc0).1 := by
  unfold State.ptoSwitch at hn ⊢
  cases lvl with
  | initial => exact ⟨List.Perm.refl _, d⟩
  | handshake => exact ⟨List.Perm.refl _, d⟩
  | invalid => exact ⟨List.Perm.refl _, d⟩
  | zeroRTT => exact ⟨List.Perm.refl _, d⟩
  | oneRTT =>
    simp only [] at hn ⊢
    cases hp : s.app.pop nts with
    | none => simp [hp, Res.isPanic] at hn
    | some r =>
      obtain ⟨sp, pn, sk⟩ := r
      simp only [hp] at hn ⊢
      obtain ⟨p1, p2⟩ := Space.pop_spec hp d.2.2
      cases hs : sp.hist.skippedPacket pn with
      | none => simp [hs, Res.isPanic] at hn
      | some h =>
        simp only []
        have q1 := skippedPacket_pending hs
        have q2 := DummyOKH_skippedPacket p2 hs
        refine ⟨?_, d.1, d.2.1, q2⟩
        simp only [pending, q1, p1]
        exact List.Perm.refl _

theorem ptoFire_ledger {s : State} {env : Env} {now : Time} {nts : PN} {evs0 : List Ev} {disc0 : List Frame} (d : DummyOK s)
    (hn : (s.ptoFire env now nts evs0 disc0).2.res.isPanic = false) :
    (pending s ++ evFrames evs0 ++ disc0 ~ pending (s.ptoFire env now nts evs0 disc0).1 ++
        evFrames (s.ptoFire env now nts evs0 disc0).2.evs ++ (s.ptoFire env now nts evs0 disc0).2.disc) ∧
      DummyOK (s.ptoFire env now nts evs0 disc0).1 := by
  unfold State.ptoFire at hn ⊢
  split
  · exact ⟨List.Perm.refl _, d⟩
  · rename_i h0
    rw [if_neg h0] at hn
    cases hg : s.getSpace (s.getPTOTimeAndSpace env now).2 with
    | none => simp [hg, Res.isPanic] at hn
    | some ps =>
      simp only [hg] at hn ⊢
      split
      · exact ⟨List.Perm.refl _, d⟩
      · rename_i h1
        rw [if_neg h1] at hn
        exact ptoSwitch_ledger d hn

theorem timeoutMain_ledger {s : State} {env : Env} {now : Time} {nts : PN} {evs0 : List Ev} {disc0 : List Frame} (d : DummyOK s)
    (hn : (s.timeoutMain env now nts evs0 disc0).2.res.isPanic = false) :
    (pending s ++ evFrames evs0 ++ disc0 ~ pending (s.timeoutMain env now nts evs0 disc0).1 ++
        evFrames (s.timeoutMain env now nts evs0 disc0).2.evs ++ (s.timeoutMain env now nts evs0 disc0).2.disc) ∧
      DummyOK (s.timeoutMain env now nts evs0 disc0).1 := by
  unfold State.timeoutMain State.timeoutMainG at hn ⊢
  split
  · rename_i h0
    rw [if_pos h0] at hn
    simp only [] at hn ⊢
    have hl := @detectLostPackets_ledger s env now s.getLossTimeAndSpace.2 d
    cases hp : (s.detectLostPackets env now s.getLossTimeAndSpace.2).2.2 with
    | some c => simp [hp, Res.isPanic] at hn
    | none =>
      obtain ⟨l1, l2⟩ := hl hp
      refine ⟨?_, l2⟩
      simp only [evFrames_append]
      perm_solve [l1]
  · rename_i h0
    rw [if_neg h0] at hn
    split
    · unfold State.antiDeadlockProbe
      simp only []
      split
      · exact ⟨List.Perm.refl _, d⟩
      · split
        · exact ⟨List.Perm.refl _, d⟩
        · exact ⟨List.Perm.refl _, d⟩
    · rename_i h1
      rw [if_neg h1] at hn
      exact ptoFire_ledger d hn

theorem onLossDetectionTimeout_ledger {s : State} {env : Env} {now : Time} {nts : PN} (d : DummyOK s)
    (hn : (s.onLossDetectionTimeout env now nts).2.res.isPanic = false) :
    (pending s ~ pending (s.onLossDetectionTimeout env now nts).1 ++
        evFrames (s.onLossDetectionTimeout env now nts).2.evs ++ (s.onLossDetectionTimeout env now nts).2.disc) ∧
      DummyOK (s.onLossDetectionTimeout env now nts).1 := by
  unfold State.onLossDetectionTimeout State.timeoutBody at hn ⊢
  simp only [] at hn ⊢
  obtain ⟨p1, p2⟩ := pathProbesStep_ledger .oneRTT s.app now d.2.2
  simp only [if_true] at p1 p2
  have key : ∀ r : Space × List Ev × List Frame,
      (s.app.hist.pending ~ r.1.hist.pending ++ evFrames r.2.1 ++ r.2.2) → DummyOKH r.1.hist →
      ((({ s with app := r.1 } : State).timeoutMain env now nts r.2.1 r.2.2).2.res.isPanic = false) →
      (pending s ~ pending (({ s with app := r.1 } : State).timeoutMain env now nts r.2.1 r.2.2).1 ++
        evFrames (({ s with app := r.1 } : State).timeoutMain env now nts r.2.1 r.2.2).2.evs ++
        (({ s with app := r.1 } : State).timeoutMain env now nts r.2.1 r.2.2).2.disc) ∧
      DummyOK (({ s with app := r.1 } : State).timeoutMain env now nts r.2.1 r.2.2).1 := by
    intro r q1 q2 q3
    have d' : DummyOK ({ s with app := r.1 } : State) := ⟨d.1, d.2.1, q2⟩
    obtain ⟨t1, t2⟩ := timeoutMain_ledger d' q3
    refine ⟨?_, t2⟩
    refine List.Perm.trans ?_ t1
    simp only [pending]
    perm_solve [q1]
  split at hn
  · rename_i hc
    rw [if_pos hc]
    exact key _ p1 p2 hn
  · rename_i hc
    rw [if_neg hc]
    exact key (s.app, [], []) (by simp) d.2.2 hn


/-- `FirstOutstanding` returns a packet that `lookup` finds at the same number -/
theorem firstOutstandingFrom_spec (l : List (Option Packet)) :
    ∀ (start pn : Int) (p : Packet), firstOutstandingFrom start l = some (pn, p) →
      ∃ i : Nat, pn = start + i ∧ l[i]? = some (some p) := by
  induction l with
  | nil => intro start pn p h; simp [firstOutstandingFrom] at h
  | cons x xs ih =>
    intro start pn p h
    cases x with
    | none =>
      simp only [firstOutstandingFrom] at h
      obtain ⟨i, e1, e2⟩ := ih _ _ _ h
      exact ⟨i + 1, by omega, by simpa using e2⟩
    | some q =>
      simp only [firstOutstandingFrom] at h
      split at h
      · simp only [Option.some.injEq, Prod.mk.injEq] at h
        obtain ⟨e1, e2⟩ := h
        subst e1 e2
        exact ⟨0, by simp, by simp⟩
      · obtain ⟨i, e1, e2⟩ := ih _ _ _ h
        exact ⟨i + 1, by omega, by simpa using e2⟩

theorem lookup_of_index {h : Hist} {i : Nat} {p : Packet} (e : h.packets[i]? = some (some p)) :
    h.lookup (h.first + i) = some p := by
  have hlt : i < h.packets.length := by
    obtain ⟨hh, _⟩ := List.getElem?_eq_some_iff.mp e
    exact hh
  unfold Hist.lookup Hist.getIndex
  have hne : h.packets.isEmpty = false := by
    cases hp : h.packets with
    | nil => simp [hp] at hlt
    | cons _ _ => rfl
  simp only [hne]
  have h1 : ¬ (h.first + (i : Int) < h.first) := by omega
  have h2 : (h.first + (i : Int) - h.first).toNat = i := by omega
  simp only [h1, h2]
  have h3 : ¬ (i > h.packets.length - 1) := by omega
  simp [h3, e]

theorem firstOutstanding_lookup {h : Hist} {pn : PN} {p : Packet} (e : h.firstOutstanding = some (pn, p)) :
    h.lookup pn = some p := by
  unfold Hist.firstOutstanding at e
  split at e
  · obtain ⟨i, e1, e2⟩ := firstOutstandingFrom_spec _ _ _ _ e
    subst e1
    exact lookup_of_index e2
  · simp at e

theorem queueProbePacket_ledger {s : State} {lvl : Level} (d : DummyOK s)
    (hn : (s.queueProbePacket lvl).2.res.isPanic = false) :
    (pending s ~ pending (s.queueProbePacket lvl).1 ++ evFrames (s.queueProbePacket lvl).2.evs ++ (s.queueProbePacket lvl).2.disc) ∧
      DummyOK (s.queueProbePacket lvl).1 := by
  unfold State.queueProbePacket at hn ⊢
  cases hg : s.getSpace lvl with
  | none => simp [hg, Res.isPanic] at hn
  | some sp =>
    simp only [hg] at hn ⊢
    cases hf : sp.hist.firstOutstanding with
    | none => simp; exact d
    | some r =>
      obtain ⟨pn, p⟩ := r
      simp only [hf] at hn ⊢
      have hl := firstOutstanding_lookup hf
      cases hd : sp.hist.declareLost pn with
      | panic c => simp [hd, Res.isPanic] at hn
      | ok h =>
        simp only [hd] at hn ⊢
        obtain ⟨rest, f1, f2⟩ := pending_frame' hg
        have hp := declareLost_pending hl hd
        have dh := DummyOKH_declareLost (DummyOK_getSpace d hg) hd
        cases hb : removeBif (s.setSpace lvl { sp with hist := h }).bytesInFlight p with
        | none => simp [hb, Res.isPanic] at hn
        | some b =>
          simp only []
          have f3 := f2 s { sp with hist := h } rfl rfl rfl
          constructor
          · change pending s ~ pending (State.setSpace _ lvl _) ++ _ ++ _
            simp only [evFrames_lost, List.append_nil]
            perm_solve [f1, f3, hp]
          · change DummyOK (State.setSpace _ lvl _)
            exact DummyOK_setSpace d dh


theorem DummyOK_afterDrop {s : State} (env : Env) (now : Time) (d : DummyOK s) : DummyOK (s.afterDrop env now) := d
theorem pending_afterDrop (s : State) (env : Env) (now : Time) : pending (s.afterDrop env now) = pending s := rfl

theorem dropPackets_ledger {s : State} {env : Env} {lvl : Level} {now : Time} (d : DummyOK s)
    (hn : (s.dropPackets env lvl now).2.res.isPanic = false) :
    (pending s ~ pending (s.dropPackets env lvl now).1 ++ evFrames (s.dropPackets env lvl now).2.evs ++ (s.dropPackets env lvl now).2.disc) ∧
      DummyOK (s.dropPackets env lvl now).1 := by
  unfold State.dropPackets at hn ⊢
  simp only [] at hn ⊢
  generalize hs1 : (if s.isClient ∧ lvl = .handshake then ({ s with peerCompleted := true } : State) else s) = s1 at hn ⊢
  have e1 : s1.initial = s.initial := by subst hs1; split <;> rfl
  have e2 : s1.handshake = s.handshake := by subst hs1; split <;> rfl
  have e3 : s1.app = s.app := by subst hs1; split <;> rfl
  have d1 : DummyOK s1 := DummyOK_eq e1 e2 e3 d
  rw [← pending_eq e1 e2 e3]
  cases lvl with
  | invalid => simp [Res.isPanic] at hn
  | oneRTT => simp [Res.isPanic] at hn
  | initial =>
    simp only [] at hn ⊢
    cases hi : s1.initial with
    | none => simp; exact d1
    | some sp =>
      simp only [hi] at hn ⊢
      cases hb : removeBifPackets s1.bytesInFlight sp.hist.packets with
      | none => simp [hb, Res.isPanic] at hn
      | some b =>
        simp only []
        constructor
        · simp only [State.afterDrop, State.setTimer, pending, hi, spacePending, evFrames_nil, List.append_nil, List.nil_append]
          perm_solve
        · exact ⟨trivial, d1.2.1, d1.2.2⟩
  | handshake =>
    simp only [] at hn ⊢
    cases hi : s1.handshake with
    | none => simp; exact d1
    | some sp =>
      simp only [hi] at hn ⊢
      cases hb : removeBifPackets s1.bytesInFlight sp.hist.packets with
      | none => simp [hb, Res.isPanic] at hn
      | some b =>
        simp only []
        constructor
        · simp only [State.afterDrop, State.setTimer, pending, hi, spacePending, evFrames_nil, List.append_nil]
          perm_solve
        · exact ⟨d1.1, trivial, d1.2.2⟩
  | zeroRTT =>
    simp only [] at hn ⊢
    obtain ⟨l1, l2⟩ := drop0RTTLoop_ledger s1.app.hist.packets.length s1.app.hist.first s1.app.hist s1.bytesInFlight [] d1.2.2
    simp only [List.append_nil] at l1
    cases hp : (drop0RTTLoop s1.app.hist.packets.length s1.app.hist.first s1.app.hist s1.bytesInFlight []).2.2.2 with
    | some c => simp [hp, Res.isPanic] at hn
    | none =>
      simp only []
      constructor
      · simp only [State.afterDrop, State.setTimer, pending, evFrames_nil, List.append_nil]
        perm_solve [l1]
      · exact ⟨d1.1, d1.2.1, l2⟩

theorem lostFrames_aux (l : List Packet) :
    evFrames ((l.filter Packet.ackEliciting).flatMap fun p => p.allFrames.map Ev.lost) = l.flatMap Packet.allFrames := by
  induction l with
  | nil => rfl
  | cons p ps ih =>
    by_cases hae : p.ackEliciting = true
    · simp only [List.filter_cons, hae, if_true, List.flatMap_cons, evFrames_append, evFrames_lost, ih]
    · have hz := notAE_allFrames (by simpa using hae : p.ackEliciting = false)
      simp only [List.filter_cons, hae, List.flatMap_cons, hz, List.nil_append]
      simpa using ih

theorem lostFramesOf_frames (pk : List (Option Packet)) : evFrames (lostFramesOf pk) = packetsFrames pk :=
  lostFrames_aux _

theorem resetForRetry_ledger {s : State} {nts : PN} (d : DummyOK s)
    (hn : (s.resetForRetry nts).2.res.isPanic = false) :
    (pending s ~ pending (s.resetForRetry nts).1 ++ evFrames (s.resetForRetry nts).2.evs ++ (s.resetForRetry nts).2.disc) ∧
      DummyOK (s.resetForRetry nts).1 := by
  unfold State.resetForRetry at hn ⊢
  simp only [] at hn ⊢
  cases hi : s.initial with
  | none => simp [hi, Res.isPanic] at hn
  | some ini =>
    simp only []
    constructor
    · simp only [pending, hi, spacePending, evFrames_append, lostFramesOf_frames, Space.new, Hist.pending, packetsFrames_nil,
        probesFrames_nil, List.nil_append, List.append_nil]
      perm_solve
    · refine ⟨?_, d.2.1, ?_⟩
      · intro p hp; simp [Space.new] at hp
      · intro p hp; simp [Space.new] at hp

theorem migratedPath_ledger {s : State} {env : Env} {now : Time} (d : DummyOK s)
    (hn : (s.migratedPath env now).2.res.isPanic = false) :
    (pending s ~ pending (s.migratedPath env now).1 ++ evFrames (s.migratedPath env now).2.evs ++ (s.migratedPath env now).2.disc) ∧
      DummyOK (s.migratedPath env now).1 := by
  unfold State.migratedPath at hn ⊢
  simp only [] at hn ⊢
  have ml := migrateLoop_ledger s.app.hist.packets.length s.app.hist.first s.app.hist s.bytesInFlight [] d.2.2
  cases hp : (migrateLoop s.app.hist.packets.length s.app.hist.first s.app.hist s.bytesInFlight []).2.2.2 with
  | some c => simp [hp, Res.isPanic] at hn
  | none =>
    obtain ⟨l1, l2⟩ := ml hp
    simp only [evFrames_nil, List.append_nil] at l1
    simp only []
    have mp := migrateProbes_ledger (migrateLoop s.app.hist.packets.length s.app.hist.first s.app.hist s.bytesInFlight []).1.probes.length 0
      (migrateLoop s.app.hist.packets.length s.app.hist.first s.app.hist s.bytesInFlight []).1.probes [] []
    simp only [probesFrames_nil, List.append_nil] at mp
    constructor
    · simp only [State.setTimer, pending, Hist.pending] at l1 ⊢
      perm_solve [l1, mp]
    · exact ⟨d.1, d.2.1, l2⟩


theorem sentPacket_res (s : State) (env : Env) (t : Time) (pn la : PN) (sframes frames : List Frame) (lvl : Level)
    (size : Int) (mtu probe : Bool) :
    (s.sentPacket env t pn la sframes frames lvl size mtu probe).2 = .ok ∨
      (s.sentPacket env t pn la sframes frames lvl size mtu probe).2.isPanic = true := by
  unfold State.sentPacket
  simp only []
  split
  · right; rfl
  · split
    · split
      · right; rfl
      · left; rfl
    · split
      · split
        · right; rfl
        · left; rfl
      · split
        · right; rfl
        · left; rfl

theorem popPacketNumber_res (s : State) (lvl : Level) (nts : PN) :
    (s.popPacketNumber lvl nts).2.res = .ok ∨ (s.popPacketNumber lvl nts).2.res.isPanic = true := by
  unfold State.popPacketNumber
  split
  · right; rfl
  · split
    · right; rfl
    · left; rfl

theorem popPacketNumber_out {s : State} {lvl : Level} {nts : PN} (_h : (s.popPacketNumber lvl nts).2.res = .ok) :
    (s.popPacketNumber lvl nts).2.evs = [] ∧ (s.popPacketNumber lvl nts).2.disc = [] := by
  unfold State.popPacketNumber
  split
  · simp
  · split
    · simp
    · simp

/-- every operation that does not panic conserves tracked + reported + discarded frames -/
theorem step_ledger {s : State} {op : Op} {e : StepEnv} (d : DummyOK s) (hn : (s.step op e).2.res.isPanic = false) :
    (pending s ++ op.handed ~ pending (s.step op e).1 ++ evFrames (s.step op e).2.evs ++ (s.step op e).2.disc) ∧
      DummyOK (s.step op e).1 := by
  cases op with
  | send lvl now la size mtu probe frames sframes =>
    simp only [State.step, Op.handed] at hn ⊢
    rcases popPacketNumber_res s lvl e.nts with hp | hp
    · simp only [hp] at hn ⊢
      obtain ⟨p1, p2⟩ := popPacketNumber_ledger d hp
      rcases sentPacket_res (s.popPacketNumber lvl e.nts).1 e.env now (s.popPacketNumber lvl e.nts).2.pn la sframes frames lvl size mtu probe with hs | hs
      · obtain ⟨q1, q2⟩ := sentPacket_ledger p2 hs
        refine ⟨?_, q2⟩
        simp only [evFrames_nil, List.append_nil]
        perm_solve [p1, q1]
      · simp [hs] at hn
    · cases hr : (s.popPacketNumber lvl e.nts).2.res with
      | ok => simp [hr, Res.isPanic] at hp
      | err c => simp [hr, Res.isPanic] at hp
      | panic c => simp [hr, Res.isPanic] at hn
  | ack lvl now ranges =>
    simp only [State.step, Op.handed, List.append_nil] at hn ⊢
    exact receivedAck_ledger d hn
  | timeout now =>
    simp only [State.step, Op.handed, List.append_nil] at hn ⊢
    exact onLossDetectionTimeout_ledger d hn
  | probe lvl =>
    simp only [State.step, Op.handed, List.append_nil] at hn ⊢
    exact queueProbePacket_ledger d hn
  | drop lvl now =>
    simp only [State.step, Op.handed, List.append_nil] at hn ⊢
    exact dropPackets_ledger d hn
  | retry =>
    simp only [State.step, Op.handed, List.append_nil] at hn ⊢
    exact resetForRetry_ledger d hn
  | migrate now =>
    simp only [State.step, Op.handed, List.append_nil] at hn ⊢
    exact migratedPath_ledger d hn
  | rcvBytes n now =>
    simp only [State.step, Op.handed, List.append_nil, evFrames_nil]
    unfold State.receivedBytes
    simp only []
    split
    · exact ⟨List.Perm.refl _, d⟩
    · exact ⟨List.Perm.refl _, d⟩
  | rcvPacket lvl now =>
    simp only [State.step, Op.handed, List.append_nil, evFrames_nil]
    unfold State.receivedPacket
    split
    · exact ⟨List.Perm.refl _, d⟩
    · exact ⟨List.Perm.refl _, d⟩


end Uquic.Proofs.Sent
