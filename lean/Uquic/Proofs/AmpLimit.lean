/-
Helper lemmas for C14 (amplification): the running invariant of handler histories, and the refinement
"the send loop's calls on the handler form a disciplined history".
-/
import Uquic.Model.Amp.SendLoop

namespace Uquic.Proofs.Amp
open Uquic.Model.Amp

/-- the regenerated constant is the 3 of the property text; if sent_packet_handler.go changes it, this
    stops compiling and every theorem below with it -/
theorem factor_is_three : amplificationFactor = 3 := by decide

@[simp] theorem sum_nil : sum [] = 0 := rfl

theorem foldl_add (l : List Nat) (a : Nat) : l.foldl (· + ·) a = a + l.foldl (· + ·) 0 := by
  induction l generalizing a with
  | nil => simp
  | cons x xs ih => simp only [List.foldl_cons]; rw [ih (a + x), ih (0 + x)]; omega

@[simp] theorem sum_cons (x : Nat) (xs : List Nat) : sum (x :: xs) = x + sum xs := by
  simp only [sum, List.foldl_cons]; rw [foldl_add]; omega

/-! ### the handler functions change exactly what they should -/

theorem sentDatagram_eq (h : H) (sizes : List Nat) :
    h.sentDatagram sizes = { h with bytesSent := h.bytesSent + sum sizes } := by
  induction sizes generalizing h with
  | nil => simp [H.sentDatagram]
  | cons x xs ih =>
    simp only [H.sentDatagram, List.foldl_cons] at ih ⊢
    rw [ih]; simp [H.sentPacket, Nat.add_assoc]

@[simp] theorem sentDatagram_bytesSent (h : H) (sizes : List Nat) :
    (h.sentDatagram sizes).bytesSent = h.bytesSent + sum sizes := by rw [sentDatagram_eq]
@[simp] theorem sentDatagram_bytesReceived (h : H) (sizes : List Nat) :
    (h.sentDatagram sizes).bytesReceived = h.bytesReceived := by rw [sentDatagram_eq]
@[simp] theorem sentDatagram_validated (h : H) (sizes : List Nat) :
    (h.sentDatagram sizes).validated = h.validated := by rw [sentDatagram_eq]
@[simp] theorem sentDatagram_persp (h : H) (sizes : List Nat) :
    (h.sentDatagram sizes).persp = h.persp := by rw [sentDatagram_eq]

/-- a SendMode answer other than SendNone means: validated, or strictly below three times the received bytes -/
theorem sendMode_ne_none (h : H) (wants : Mode) (hm : h.sendMode wants ≠ .none) :
    h.validated = true ∨ h.bytesSent < 3 * h.bytesReceived := by
  unfold H.sendMode H.isAmplificationLimited at hm
  rw [factor_is_three] at hm
  by_cases hv : h.validated = true
  · exact Or.inl hv
  · right
    simp only [hv] at hm
    by_cases hl : h.bytesSent ≥ 3 * h.bytesReceived
    · simp [hl] at hm
    · omega

/-- conversely, at or above the limit an unvalidated handler answers SendNone whatever the rest wants -/
theorem sendMode_none_of_limited (h : H) (wants : Mode) (hv : h.validated = false)
    (hl : 3 * h.bytesReceived ≤ h.bytesSent) : h.sendMode wants = .none := by
  unfold H.sendMode H.isAmplificationLimited
  rw [factor_is_three]
  simp [hv, hl]

theorem receivedPacket_validated_mono (h : H) (l : Level) (hv : h.validated = true) :
    (h.receivedPacket l).validated = true := by
  unfold H.receivedPacket; split <;> simp_all

theorem receivedPacket_counts (h : H) (l : Level) :
    (h.receivedPacket l).bytesSent = h.bytesSent ∧ (h.receivedPacket l).bytesReceived = h.bytesReceived ∧
    (h.receivedPacket l).persp = h.persp := by
  unfold H.receivedPacket; split <;> simp

/-- `ReceivedPacket` validates only a server, only at Handshake level -/
theorem receivedPacket_validates (h : H) (l : Level) (hv : h.validated = false)
    (hv' : (h.receivedPacket l).validated = true) : h.persp = .server ∧ l = .handshake := by
  unfold H.receivedPacket at hv'
  split at hv'
  · rename_i hc; exact ⟨hc.1, hc.2.1⟩
  · simp [hv] at hv'

/-! ### the invariant of a handler history -/

structure Inv (s : St) : Prop where
  /-- the ghost wire counters are the handler's counters: every byte handed to SentPacket / ReceivedBytes counts -/
  out : s.wireOut = s.h.bytesSent
  inn : s.wireIn = s.h.bytesReceived
  /-- running inequality while unvalidated and disciplined -/
  bound : s.h.validated = false → s.disciplined = true → s.h.bytesSent ≤ 3 * s.h.bytesReceived + s.last
  /-- a standing permission means strictly below the limit -/
  strict : s.h.validated = false → s.permitted = true → s.h.bytesSent < 3 * s.h.bytesReceived

theorem Inv.init (pers : Persp) (cav : Bool) : Inv (St.init pers cav) := by
  constructor <;> simp [St.init, H.new]

theorem Inv.step {s : St} (inv : Inv s) (op : Op) : Inv (s.step op) := by
  cases op with
  | rcvBytes n =>
    constructor
    · simpa [St.step, H.receivedBytes] using inv.out
    · simp [St.step, H.receivedBytes, inv.inn]
    · intro hv hd
      have := inv.bound (by simpa [St.step, H.receivedBytes] using hv) (by simpa [St.step] using hd)
      simp only [St.step, H.receivedBytes] at this ⊢; omega
    · intro hv hp
      have := inv.strict (by simpa [St.step, H.receivedBytes] using hv) (by simpa [St.step] using hp)
      simp only [St.step, H.receivedBytes] at this ⊢; omega
  | rcvPacket l =>
    have hc := receivedPacket_counts s.h l
    have hvv : (s.h.receivedPacket l).validated = false → s.h.validated = false := by
      intro h; cases hv : s.h.validated with
      | false => rfl
      | true => rw [receivedPacket_validated_mono _ _ hv] at h; cases h
    constructor
    · simp only [St.step]; rw [hc.1]; exact inv.out
    · simp only [St.step]; rw [hc.2.1]; exact inv.inn
    · intro hv hd
      simp only [St.step] at hv hd ⊢
      rw [hc.1, hc.2.1]; exact inv.bound (hvv hv) hd
    · intro hv hp
      simp only [St.step] at hv hp ⊢
      rw [hc.1, hc.2.1]; exact inv.strict (hvv hv) hp
  | mode wants =>
    constructor
    · exact inv.out
    · exact inv.inn
    · intro hv hd; exact inv.bound hv hd
    · intro hv hp
      simp only [St.step] at hv hp ⊢
      have hne : s.h.sendMode wants ≠ .none := by simpa using hp
      rcases sendMode_ne_none _ _ hne with h | h
      · rw [hv] at h; cases h
      · exact h
  | sent sizes =>
    constructor
    · simp [St.step, inv.out]
    · simp [St.step, inv.inn]
    · intro hv hd
      simp only [St.step, sentDatagram_validated, sentDatagram_bytesSent, sentDatagram_bytesReceived,
        Bool.and_eq_true] at hv hd ⊢
      have := inv.strict hv hd.2
      omega
    · intro _ hp; simp [St.step] at hp

theorem Inv.foldl {s : St} (inv : Inv s) (ops : List Op) : Inv (ops.foldl St.step s) := by
  induction ops generalizing s with
  | nil => exact inv
  | cons op ops ih => exact ih (inv.step op)

theorem Inv.run (pers : Persp) (cav : Bool) (ops : List Op) : Inv (run pers cav ops) :=
  (Inv.init pers cav).foldl ops

/-! ### prefixes -/

theorem run_append (pers : Persp) (cav : Bool) (a b : List Op) :
    run pers cav (a ++ b) = b.foldl St.step (run pers cav a) := by
  simp [Uquic.Model.Amp.run, List.foldl_append]

theorem step_disciplined_false {s : St} (op : Op) (h : s.disciplined = false) : (s.step op).disciplined = false := by
  cases op <;> simp [St.step, h]

theorem foldl_disciplined_false {s : St} (ops : List Op) (h : s.disciplined = false) :
    (ops.foldl St.step s).disciplined = false := by
  induction ops generalizing s with
  | nil => exact h
  | cons op ops ih => exact ih (step_disciplined_false op h)

/-- a disciplined history has only disciplined prefixes -/
theorem disciplined_prefix (pers : Persp) (cav : Bool) (a b : List Op)
    (h : (run pers cav (a ++ b)).disciplined = true) : (run pers cav a).disciplined = true := by
  cases hd : (run pers cav a).disciplined with
  | true => rfl
  | false => rw [run_append, foldl_disciplined_false b hd] at h; cases h

theorem step_validated_mono {s : St} (op : Op) (h : s.h.validated = true) : (s.step op).h.validated = true := by
  cases op <;> simp [St.step, H.receivedBytes, h, receivedPacket_validated_mono]

theorem foldl_validated_mono {s : St} (ops : List Op) (h : s.h.validated = true) :
    (ops.foldl St.step s).h.validated = true := by
  induction ops generalizing s with
  | nil => exact h
  | cons op ops ih => exact ih (step_validated_mono op h)

theorem step_persp (s : St) (op : Op) : (s.step op).h.persp = s.h.persp := by
  cases op <;> simp [St.step, H.receivedBytes, (receivedPacket_counts _ _).2.2]

theorem run_persp (pers : Persp) (cav : Bool) (ops : List Op) : (run pers cav ops).h.persp = pers := by
  unfold Uquic.Model.Amp.run
  suffices ∀ (s : St), (ops.foldl St.step s).h.persp = s.h.persp by
    rw [this]; simp [St.init, H.new]
  induction ops with
  | nil => intro s; rfl
  | cons op ops ih => intro s; simp only [List.foldl_cons]; rw [ih, step_persp]

/-! ### refinement: the send loop only makes disciplined calls -/

/-- running `calls` from `s` ends in handler `h'` and does not lose discipline -/
def Refines (s : St) (calls : List Op) (h' : H) : Prop :=
  (calls.foldl St.step s).h = h' ∧ (s.disciplined = true → (calls.foldl St.step s).disciplined = true)

theorem sendPacketsConfirmed_refines (rest : List Env) :
    ∀ (pack : List Nat) (s : St), s.permitted = true →
      Refines s (sendPacketsConfirmed s.h pack rest).2 (sendPacketsConfirmed s.h pack rest).1 := by
  induction rest with
  | nil =>
    intro pack s hp
    unfold sendPacketsConfirmed
    by_cases hk : pack = []
    · simp [hk, Refines]
    · simp [hk, Refines, St.step, hp]
  | cons e rest ih =>
    intro pack s hp
    unfold sendPacketsConfirmed
    by_cases hk : pack = []
    · simp [hk, Refines]
    · simp only [hk, if_false]
      by_cases hm : (s.h.sentDatagram pack).sendMode e.wants = .any
      · simp only [hm, if_true]
        -- state after `.sent pack, .mode e.wants`
        let s2 : St := (s.step (.sent pack)).step (.mode e.wants)
        have h2 : s2.h = s.h.sentDatagram pack := by simp [s2, St.step]
        have hp2 : s2.permitted = true := by simp [s2, St.step, hm]
        have hd2 : s.disciplined = true → s2.disciplined = true := by
          intro hd; simp [s2, St.step, hd, hp]
        have := ih e.pack s2 hp2
        rw [h2] at this
        refine ⟨?_, ?_⟩
        · simpa [List.foldl_append, s2] using this.1
        · intro hd
          have := this.2 (hd2 hd)
          simpa [List.foldl_append, s2] using this
      · simp only [hm, if_false]
        refine ⟨by simp [St.step], ?_⟩
        intro hd; simp [St.step, hd, hp]

theorem triggerSending_refines (confirmed : Bool) (envs : List Env) :
    ∀ (s : St), Refines s (triggerSending confirmed s.h envs).2 (triggerSending confirmed s.h envs).1 := by
  induction envs with
  | nil => intro s; simp [triggerSending, Refines]
  | cons e rest ih =>
    intro s
    -- the state right after the consultation
    have hperm : ∀ m, s.h.sendMode e.wants = m → m ≠ .none → (s.step (.mode e.wants)).permitted = true := by
      intro m hm hne; simp [St.step, hm, hne]
    have hsend : ∀ (pack : List Nat) m, s.h.sendMode e.wants = m → m ≠ .none →
        Refines s [.mode e.wants, .sent pack] (s.h.sentDatagram pack) := by
      intro pack m hm hne
      refine ⟨by simp [St.step], ?_⟩
      intro hd; simp [St.step, hd, hm, hne]
    unfold triggerSending
    cases hm : s.h.sendMode e.wants with
    | none => simp [Refines, St.step]
    | any =>
      simp only []
      by_cases hc : confirmed = true
      · simp only [hc, if_true]
        let s1 : St := s.step (.mode e.wants)
        have h1 : s1.h = s.h := by simp [s1, St.step]
        have hp1 : s1.permitted = true := hperm _ hm (by decide)
        have := sendPacketsConfirmed_refines rest e.pack s1 hp1
        rw [h1] at this
        refine ⟨by simpa [s1] using this.1, ?_⟩
        intro hd
        have := this.2 (by simpa [s1, St.step] using hd)
        simpa [s1] using this
      · simp only [hc]
        by_cases hk : e.pack = []
        · simp [hk, Refines, St.step]
        · simp only [hk, if_false]
          cases rest with
          | nil => exact hsend e.pack _ hm (by decide)
          | cons e2 rest2 =>
            have := hsend e.pack _ hm (by decide)
            refine ⟨by simp [St.step], ?_⟩
            intro hd
            have := this.2 hd
            simpa [St.step] using this
    | ack =>
      simp only []
      by_cases hk : e.pack = []
      · simp [hk, Refines, St.step]
      · simp only [hk, if_false]; exact hsend e.pack _ hm (by decide)
    | pacingLimited =>
      simp only []
      by_cases hk : e.pack = []
      · simp [hk, Refines, St.step]
      · simp only [hk, if_false]; exact hsend e.pack _ hm (by decide)
    | ptoInitial =>
      simp only []
      by_cases hk : e.pack = []
      · simp [hk, Refines, St.step]
      · simp only [hk, if_false]
        let s2 : St := (s.step (.mode e.wants)).step (.sent e.pack)
        have h2 : s2.h = s.h.sentDatagram e.pack := by simp [s2, St.step]
        have hs := hsend e.pack _ hm (by decide)
        have := ih s2
        rw [h2] at this
        refine ⟨by simpa [List.foldl_append, s2] using this.1, ?_⟩
        intro hd
        have := this.2 (by simpa [s2] using hs.2 hd)
        simpa [List.foldl_append, s2] using this
    | ptoHandshake =>
      simp only []
      by_cases hk : e.pack = []
      · simp [hk, Refines, St.step]
      · simp only [hk, if_false]
        let s2 : St := (s.step (.mode e.wants)).step (.sent e.pack)
        have h2 : s2.h = s.h.sentDatagram e.pack := by simp [s2, St.step]
        have hs := hsend e.pack _ hm (by decide)
        have := ih s2
        rw [h2] at this
        refine ⟨by simpa [List.foldl_append, s2] using this.1, ?_⟩
        intro hd
        have := this.2 (by simpa [s2] using hs.2 hd)
        simpa [List.foldl_append, s2] using this
    | ptoAppData =>
      simp only []
      by_cases hk : e.pack = []
      · simp [hk, Refines, St.step]
      · simp only [hk, if_false]
        let s2 : St := (s.step (.mode e.wants)).step (.sent e.pack)
        have h2 : s2.h = s.h.sentDatagram e.pack := by simp [s2, St.step]
        have hs := hsend e.pack _ hm (by decide)
        have := ih s2
        rw [h2] at this
        refine ⟨by simpa [List.foldl_append, s2] using this.1, ?_⟩
        intro hd
        have := this.2 (by simpa [s2] using hs.2 hd)
        simpa [List.foldl_append, s2] using this

end Uquic.Proofs.Amp
