/-
C09 helper lemmas: the `carriesAt` predicate in propositional form, and validateInitialFlight.
-/
import Uquic.Proofs.FramesReader

namespace Uquic.Proofs.Frames
open Uquic.Spec.Framing Uquic.Model.UQuic.Frames

theorem coveredAt_iff {rs : List (Nat × Nat)} {i : Nat} :
    coveredAt rs i = true ↔ ∃ r ∈ rs, r.1 ≤ i ∧ i < r.1 + r.2 := by
  simp [coveredAt, List.any_eq_true]

theorem coversAll_iff {rs : List (Nat × Nat)} {lo hi : Nat} :
    coversAll rs lo hi = true ↔ ∀ i, lo ≤ i → i < hi → ∃ r ∈ rs, r.1 ≤ i ∧ i < r.1 + r.2 := by
  unfold coversAll
  rw [List.all_eq_true]
  constructor
  · intro h i h1 h2
    have := h (i - lo) (List.mem_range.mpr (by omega))
    rw [coveredAt_iff] at this
    rw [show lo + (i - lo) = i by omega] at this
    exact this
  · intro h k hk
    rw [coveredAt_iff]
    exact h (lo + k) (by omega) (by have := List.mem_range.mp hk; omega)

theorem mem_rangesOf {cs : List (Nat × List UInt8)} {r : Nat × Nat} :
    r ∈ rangesOf cs ↔ ∃ c ∈ cs, r = (c.1, c.2.length) := by
  simp [rangesOf, List.mem_map, eq_comm]

/-- introduction rule for the monitor predicate -/
theorem carriesAt_intro {src : List UInt8} {srcAbs lo hi : Nat} {ps : List (List UInt8)} {fs : List Frame}
    (hr : readAll ps = some fs)
    (hd : ∀ c ∈ cryptoOf fs, sliceEq src srcAbs c.1 c.2 = true ∧ lo ≤ c.1 ∧ c.1 + c.2.length ≤ hi)
    (hc : ∀ i, lo ≤ i → i < hi → ∃ c ∈ cryptoOf fs, c.1 ≤ i ∧ i < c.1 + c.2.length) :
    carriesAt src srcAbs lo hi ps = true := by
  unfold carriesAt
  rw [hr]
  simp only [Bool.and_eq_true, List.all_eq_true, decide_eq_true_eq]
  refine ⟨fun c hcm => ?_, ?_⟩
  · have := hd c hcm; exact ⟨⟨this.1, this.2.1⟩, this.2.2⟩
  · rw [coversAll_iff]
    intro i h1 h2
    obtain ⟨c, hcm, h3, h4⟩ := hc i h1 h2
    exact ⟨(c.1, c.2.length), mem_rangesOf.mpr ⟨c, hcm, rfl⟩, h3, h4⟩

/-- elimination rule -/
theorem carriesAt_elim {src : List UInt8} {srcAbs lo hi : Nat} {ps : List (List UInt8)}
    (h : carriesAt src srcAbs lo hi ps = true) :
    ∃ fs, readAll ps = some fs ∧
      (∀ c ∈ cryptoOf fs, sliceEq src srcAbs c.1 c.2 = true ∧ lo ≤ c.1 ∧ c.1 + c.2.length ≤ hi) ∧
      (∀ i, lo ≤ i → i < hi → ∃ c ∈ cryptoOf fs, c.1 ≤ i ∧ i < c.1 + c.2.length) := by
  unfold carriesAt at h
  split at h
  · simp at h
  · rename_i fs hr
    refine ⟨fs, hr, ?_, ?_⟩
    · simp only [Bool.and_eq_true, List.all_eq_true, decide_eq_true_eq] at h
      intro c hc; have := h.1 c hc; exact ⟨this.1.1, this.1.2, this.2⟩
    · simp only [Bool.and_eq_true] at h
      have := coversAll_iff.mp h.2
      intro i h1 h2
      obtain ⟨r, hr, h3, h4⟩ := this i h1 h2
      obtain ⟨c, hc, rfl⟩ := mem_rangesOf.mp hr
      exact ⟨c, hc, h3, h4⟩

theorem sliceEq_iff {src : List UInt8} {srcAbs off : Nat} {data : List UInt8} :
    sliceEq src srcAbs off data = true ↔
      srcAbs ≤ off ∧ off - srcAbs + data.length ≤ src.length ∧ (src.drop (off - srcAbs)).take data.length = data := by
  simp [sliceEq, and_assoc]

theorem cryptoOf_append (a b : List Frame) : cryptoOf (a ++ b) = cryptoOf a ++ cryptoOf b := by
  induction a with
  | nil => rfl
  | cons f fs ih => cases f <;> simp [cryptoOf, ih]

theorem cryptoOf_replicate_padding (k : Nat) : cryptoOf (List.replicate k Frame.padding) = [] := by
  induction k with
  | zero => rfl
  | succ k ih => simp [List.replicate_succ, cryptoOf, ih]

/-! ### validateInitialFlight -/

/-- what the clienthellod reader reports for a list of payloads (offset, declared length) -/
def lenientRanges : List (List UInt8) → Option (List (Nat × Nat))
  | [] => some []
  | p :: ps =>
    match chReadAll p, lenientRanges ps with
    | .ok fs, some rs => some (fs.map (fun f => (f.1, f.2.1)) ++ rs)
    | _, _ => none

theorem markFrames_spec {n : Nat} : ∀ (fs : List (Nat × Nat × List UInt8)) (acc out : List (Nat × Nat)),
    markFrames n fs acc = some out →
      out = acc ++ fs.map (fun f => (f.1, f.2.1)) ∧ ∀ f ∈ fs, f.1 + f.2.1 ≤ n := by
  intro fs
  induction fs with
  | nil => intro acc out h; simp [markFrames] at h; simp [h]
  | cons f fs ih =>
    intro acc out h
    obtain ⟨off, len, d⟩ := f
    simp only [markFrames] at h
    split at h
    · simp at h
    · rename_i hle
      obtain ⟨h1, h2⟩ := ih _ _ h
      refine ⟨by simp [h1], ?_⟩
      intro g hg
      rcases List.mem_cons.mp hg with rfl | hg
      · simp; omega
      · exact h2 g hg

theorem validateLoop_spec {budgets : List Int} {n : Nat} : ∀ (ps : List (List UInt8)) (i : Nat)
    (acc rs : List (Nat × Nat)), validateLoop budgets n i ps acc = .ok rs →
      ∃ new, lenientRanges ps = some new ∧ rs = acc ++ new ∧ ∀ r ∈ new, r.1 + r.2 ≤ n := by
  intro ps
  induction ps with
  | nil => intro i acc rs h; simp [validateLoop] at h; exact ⟨[], rfl, by simp [h], by simp⟩
  | cons p ps ih =>
    intro i acc rs h
    simp only [validateLoop] at h
    split at h
    · simp at h
    · split at h
      · simp at h
      · split at h
        · simp at h
        · simp at h
        · rename_i fs hfs
          split at h
          · simp at h
          · rename_i acc' hm
            obtain ⟨e1, e2⟩ := markFrames_spec _ _ _ hm
            obtain ⟨new, hn, hrs, hb⟩ := ih _ _ _ h
            refine ⟨fs.map (fun f => (f.1, f.2.1)) ++ new, ?_, ?_, ?_⟩
            · simp [lenientRanges, hfs, hn]
            · rw [hrs, e1]; simp
            · intro r hr
              rcases List.mem_append.mp hr with hr | hr
              · obtain ⟨f, hf, rfl⟩ := List.mem_map.mp hr
                exact e2 f hf
              · exact hb r hr

theorem firstUncovered_none {rs : List (Nat × Nat)} {n : Nat} (h : firstUncovered rs n = none) :
    ∀ i, i < n → ∃ r ∈ rs, r.1 ≤ i ∧ i < r.1 + r.2 := by
  intro i hi
  unfold firstUncovered at h
  have := List.find?_eq_none.mp h i (List.mem_range.mpr hi)
  simpa [List.any_eq_true] using this

/-- validateInitialFlight returns nil only if the CRYPTO ranges the frame reader reported lie inside
    the stream and cover every byte of it -/
theorem validate_ok {ps : List (List UInt8)} {budgets : List Int} {n : Int} {rs : List (Nat × Nat)}
    (h : validate ps budgets n = .ok rs) :
    0 ≤ n ∧ ps ≠ [] ∧ lenientRanges ps = some rs ∧ (∀ r ∈ rs, r.1 + r.2 ≤ n.toNat) ∧
      ∀ i, i < n.toNat → ∃ r ∈ rs, r.1 ≤ i ∧ i < r.1 + r.2 := by
  unfold validate at h
  split at h
  · simp at h
  · rename_i hne
    split at h
    · simp at h
    · rename_i hn
      split at h
      · rename_i rs' hl
        split at h
        · simp at h
        · rename_i hu
          obtain rfl : rs' = rs := by simpa using h
          obtain ⟨new, h1, h2, h3⟩ := validateLoop_spec _ _ _ _ hl
          simp at h2; subst h2
          exact ⟨by omega, by simpa using hne, h1, h3, firstUncovered_none hu⟩
      · rename_i o hno
        cases o <;> simp_all

end Uquic.Proofs.Frames
