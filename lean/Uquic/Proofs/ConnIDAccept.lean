/-
The limit check of `connIDManager.Add` and the absence of index panics.
-/
import Uquic.Proofs.ConnIDLedger

namespace Uquic.Proofs.ConnID
open Uquic.Model.ConnID

theorem update_limit (m : Manager) (draw : Nat) : (m.updateConnectionID draw).1.connIDLimit = m.connIDLimit := by
  unfold Manager.updateConnectionID
  split
  · rfl
  · simp only
    split <;> rfl

theorem rptQueue_limit (m : Manager) (rpt : Nat) : (m.retireQueueBelow rpt).1.connIDLimit = m.connIDLimit := by
  unfold Manager.retireQueueBelow
  split <;> rfl

theorem add_limit (m : Manager) (seq rpt : Nat) (id tok : Bytes) (draw : Nat) :
    (m.add seq rpt id tok draw).1.connIDLimit = m.connIDLimit := by
  unfold Manager.add
  split
  · rfl
  split
  · rfl
  split
  · rfl
  have h2 : ((m.retireProbingBelow rpt).1.retireQueueBelow rpt).1.connIDLimit = m.connIDLimit := by
    rw [rptQueue_limit]; rfl
  simp only
  split
  · exact h2
  split
  · exact h2
  split
  · rw [update_limit]; exact h2
  · exact h2

/-- the constant in `Add` is the constant of the rotation rule and of the plain endpoint's transport parameters -/
theorem enforced_eq : enforcedQueueBound = maxActiveConnectionIDs := by decide

theorem insertSlow_no_limit {e : Entry} : ∀ {q : List Entry}, insertSlow e q = .error .limitError → False
  | [], h => by simp [insertSlow] at h
  | x :: xs, h => by
    unfold insertSlow at h
    split at h
    · split at h
      · cases h
      · split at h
        · cases h
        · cases h
    · split at h
      · cases h
      · cases hrec : insertSlow e xs with
        | ok r => simp [hrec] at h
        | error er =>
          simp only [hrec, Except.error.injEq] at h
          subst h
          exact insertSlow_no_limit hrec


/-- `add` itself never returns the limit error -/
theorem add_no_limit (m : Manager) (seq rpt : Nat) (id tok : Bytes) (draw : Nat) :
    (m.add seq rpt id tok draw).2.2 ≠ .err .limitError := by
  unfold Manager.add
  split
  · simp
  split
  · simp
  split
  · simp
  simp only
  split
  · simp
  split
  · rename_i er herr
    intro h
    simp only [Res.err.injEq] at h
    subst h
    unfold addConnectionID at herr
    split at herr
    · cases herr
    · split at herr
      · cases herr
      · exact insertSlow_no_limit herr
  split
  · unfold Manager.updateConnectionID
    split
    · simp
    · simp only
      split <;> simp
  · simp


/-- `Add` answers CONNECTION_ID_LIMIT_ERROR only if more connection IDs are in use than `adv`, for every `adv` up to
    max(MaxActiveConnectionIDs, connIDLimit) -/
theorem accept_within (m : Manager) (seq rpt : Nat) (id tok : Bytes) (draw : Nat) (adv : Nat)
    (hadv : adv ≤ max maxActiveConnectionIDs m.connIDLimit)
    (hcount : (inUse (m.addFrame seq rpt id tok draw).1).length ≤ adv) :
    (m.addFrame seq rpt id tok draw).2.2 ≠ .err .limitError := by
  have hl := add_limit m seq rpt id tok draw
  rw [(addFrame_state m seq rpt id tok draw).1] at hcount
  unfold Manager.addFrame
  simp only
  split
  · rename_i hok
    split
    · rename_i hge
      exfalso
      rw [hl, enforced_eq] at hge
      simp only [inUse, qSeqs, pSeqs, List.length_cons, List.length_append, List.length_map] at hcount
      omega
    · simp [hok]
  · rename_i hne
    intro heq
    exact add_no_limit m seq rpt id tok draw heq

/-- apart from the two documented caller errors (`ChangeInitialConnID` / `SetStatelessResetToken` after the first
    rotation) an open manager never panics; in particular `h.queue[0]` in `updateConnectionID` is never reached with
    an empty queue -/
theorem no_panic {m : Manager} (hi : Inv m) (hc : m.closed = false) (op : Op) (hv : OpValid m op)
    (hop : ∀ t, op ≠ .setTok t) (hop2 : ∀ i, op ≠ .changeInitial i) : (m.step op).2.2 ≠ .panic := by
  cases op with
  | new seq rpt id tok draw =>
    have A := add_spec seq rpt id tok draw hi hv
    exact (addFrame_state m seq rpt id tok draw).2.2.2 (A.2.2 hc)
  | pref id tok =>
    simp only [Manager.step, Manager.addFromPreferredAddress]
    split <;> simp
  | get draw =>
    simp only [Manager.step, Manager.get, hc, Bool.false_eq_true, ↓reduceIte]
    split
    · rename_i hsu
      rw [(update_spec draw hi (shouldUpdate_nonempty hsu)).2.1 hc]; simp
    · simp
  | sentPacket => simp [Manager.step]
  | path p =>
    simp only [Manager.step, Manager.getConnIDForPath, hc, Bool.false_eq_true, ↓reduceIte]
    split
    · simp
    split
    · simp
    · split <;> simp
  | retirePath p =>
    simp only [Manager.step, Manager.retireConnIDForPath, hc, Bool.false_eq_true, ↓reduceIte]
    split
    · simp
    split <;> simp
  | hsDone => simp [Manager.step]
  | close => simp [Manager.step]
  | setTok t => exact absurd rfl (hop t)
  | changeInitial i => exact absurd rfl (hop2 i)
  | setLimit n => simp [Manager.step]

end Uquic.Proofs.ConnID
