/-
C12 glue — helper lemmas about `Uquic.Model.UQuic.LimitsGlue`: the idle timer, the receive side of the flow
controllers (credit is never revoked, and is renewed no later than it is used up), the connection-ID manager
(the limit is judged after the whole frame).
-/
import Uquic.Model.UQuic.LimitsGlue

namespace Uquic.Proofs.LimitsGlue
open Uquic.Gen Uquic.Model.UQuic.Limits Uquic.Model.UQuic.LimitsGlue

/-! ## idle timer -/

theorem start_eq_spec (s : Idle) (evs : List IdleEv) : (s.run evs).start = specStart s.lastRecv s.firstAE evs := by
  induction evs generalizing s with
  | nil =>
    obtain ⟨r, p⟩ := s
    cases p with
    | none => simp [Idle.run, Idle.start, specStart]
    | some t =>
      simp only [Idle.run, Idle.start, specStart]
      by_cases h : t > r <;> simp only [h, if_true, if_false] <;> omega
  | cons e es ih =>
    obtain ⟨r, p⟩ := s
    cases e with
    | recv t =>
      rw [Idle.run, ih]
      cases p <;> simp [Idle.step, Idle.recv, specStart]
    | sent t ae =>
      rw [Idle.run, ih]
      cases p with
      | none => cases ae <;> simp [Idle.step, Idle.sent, specStart]
      | some t' => cases ae <;> simp [Idle.step, Idle.sent, specStart]

theorem start_ge_lastRecv (s : Idle) : s.lastRecv ≤ s.start := by
  unfold Idle.start
  split
  · split <;> omega
  · omega

/-- sending never moves `lastPacketReceivedTime` -/
theorem run_sents_lastRecv (s : Idle) (evs : List IdleEv) (h : ∀ e ∈ evs, ∃ t ae, e = .sent t ae) :
    (s.run evs).lastRecv = s.lastRecv := by
  induction evs generalizing s with
  | nil => rfl
  | cons e es ih =>
    obtain ⟨t, ae, rfl⟩ := h e (by simp)
    rw [Idle.run, ih _ (fun e he => h e (by simp [he]))]
    simp only [Idle.step, Idle.sent]
    split
    · rfl
    · split <;> rfl

theorem run_append (s : Idle) (a b : List IdleEv) : s.run (a ++ b) = (s.run a).run b := by
  induction a generalizing s with
  | nil => rfl
  | cons e es ih => simp only [List.cons_append, Idle.run, ih]

def Monotone.dec : (t0 : Int) → (evs : List IdleEv) → Decidable (Monotone t0 evs)
  | _, [] => isTrue trivial
  | t0, e :: es =>
    match (inferInstance : Decidable (t0 ≤ e.time)), Monotone.dec e.time es with
    | isTrue a, isTrue b => isTrue ⟨a, b⟩
    | isFalse a, _ => isFalse (fun h => a h.1)
    | _, isFalse b => isFalse (fun h => b h.2)
instance (t0 : Int) (evs : List IdleEv) : Decidable (Monotone t0 evs) := Monotone.dec t0 evs

/-- the time of the last event (`t0` if there is none) -/
def lastTime (t0 : Int) : List IdleEv → Int
  | [] => t0
  | e :: es => lastTime e.time es

/-- with times that do not run backwards the idle period never starts in the future -/
theorem start_le_now (s : Idle) (t0 : Int) (evs : List IdleEv) (hm : Monotone t0 evs)
    (h0 : s.lastRecv ≤ t0) (h1 : ∀ t, s.firstAE = some t → t ≤ t0) :
    (s.run evs).start ≤ lastTime t0 evs := by
  induction evs generalizing s t0 with
  | nil =>
    simp only [Idle.run, lastTime]
    unfold Idle.start
    split
    · rename_i t ht
      have := h1 t ht
      split <;> omega
    · exact h0
  | cons e es ih =>
    obtain ⟨hle, hrest⟩ := hm
    rw [Idle.run, lastTime]
    apply ih (s.step e) e.time hrest
    · cases e with
      | recv t => simp [Idle.step, Idle.recv, IdleEv.time]
      | sent t ae =>
        simp only [Idle.step, Idle.sent, IdleEv.time] at hle ⊢
        split
        · omega
        · split
          · show s.lastRecv ≤ t
            omega
          · omega
    · intro t ht
      cases e with
      | recv t' => simp [Idle.step, Idle.recv] at ht
      | sent t' ae =>
        simp only [Idle.step, Idle.sent, IdleEv.time] at ht hle ⊢
        split at ht
        · have := h1 t ht
          omega
        · split at ht
          · simp only [Option.some.injEq] at ht; omega
          · rename_i hn _
            rw [hn] at ht; cases ht

/-! ## the receive side of a flow controller -/

/-- what holds between two announcements: the limit never exceeds consumed + window size -/
structure RWInv (c : RW) : Prop where
  win : c.window ≤ c.bytesRead + c.size
  size : 0 ≤ c.size

theorem new_inv (w cap : Int) (h : 0 ≤ w) : RWInv (RW.new w cap) := ⟨by simp [RW.new], h⟩

theorem tuned_ge (c : RW) : c.size ≤ c.tuned := by
  unfold RW.tuned
  simp only
  split <;> omega

theorem adjust_spec (c : RW) (now rtt : Int) :
    (c.adjust now rtt).bytesRead = c.bytesRead ∧ (c.adjust now rtt).window = c.window ∧
    (c.adjust now rtt).highest = c.highest ∧ c.size ≤ (c.adjust now rtt).size ∧ (c.adjust now rtt).cap = c.cap := by
  unfold RW.adjust
  split
  · exact ⟨rfl, rfl, rfl, Int.le_refl _, rfl⟩
  · split
    · exact ⟨rfl, rfl, rfl, Int.le_refl _, rfl⟩
    · split
      · exact ⟨rfl, rfl, rfl, tuned_ge c, rfl⟩
      · exact ⟨rfl, rfl, rfl, Int.le_refl _, rfl⟩

/-- `getWindowUpdate` never lowers the limit; what it returns is the new limit (or 0 and nothing changes) -/
theorem update_spec (c : RW) (now rtt : Int) (h : RWInv c) :
    let r := c.update now rtt
    c.window ≤ r.1.window ∧ RWInv r.1 ∧ r.1.bytesRead = c.bytesRead ∧ r.1.highest = c.highest ∧ c.size ≤ r.1.size ∧
    ((r.2 = 0 ∧ r.1 = c) ∨ (r.2 = r.1.window ∧ r.2 = c.bytesRead + r.1.size)) := by
  simp only
  unfold RW.update
  split
  · exact ⟨Int.le_refl _, h, rfl, rfl, Int.le_refl _, Or.inl ⟨rfl, rfl⟩⟩
  · obtain ⟨a1, a2, a3, a4, _⟩ := adjust_spec c now rtt
    have hw := h.win
    have hs := h.size
    refine ⟨?_, ⟨?_, ?_⟩, ?_, ?_, ?_, Or.inr ⟨rfl, ?_⟩⟩
    · show c.window ≤ (c.adjust now rtt).bytesRead + (c.adjust now rtt).size
      omega
    · show (c.adjust now rtt).bytesRead + (c.adjust now rtt).size ≤ (c.adjust now rtt).bytesRead + (c.adjust now rtt).size
      omega
    · show 0 ≤ (c.adjust now rtt).size
      omega
    · exact a1
    · exact a3
    · exact a4
    · show (c.adjust now rtt).bytesRead + (c.adjust now rtt).size = c.bytesRead + (c.adjust now rtt).size
      rw [a1]

theorem ensureMinimum_spec (c : RW) (inc now : Int) (h : RWInv c) :
    let r := c.ensureMinimum inc now
    r.window = c.window ∧ r.bytesRead = c.bytesRead ∧ r.highest = c.highest ∧ c.size ≤ r.size ∧ RWInv r := by
  simp only
  have hw := h.win
  have hs := h.size
  unfold RW.ensureMinimum
  split
  · exact ⟨rfl, rfl, rfl, Int.le_refl _, h⟩
  · simp only
    split
    · rename_i hgt
      refine ⟨rfl, rfl, rfl, ?_, ⟨?_, ?_⟩⟩
      · show c.size ≤ min inc c.cap
        omega
      · show c.window ≤ c.bytesRead + min inc c.cap
        omega
      · show 0 ≤ min inc c.cap
        omega
    · exact ⟨rfl, rfl, rfl, Int.le_refl _, ⟨hw, hs⟩⟩

/-- 3·size/4 is not negative for a window size that is not negative -/
theorem updateThreshold_nonneg (size : Int) (h : 0 ≤ size) : 0 ≤ updateThreshold size := by
  unfold updateThreshold
  omega

/-- a window update is due as soon as at most ⌊0.75·size⌋ bytes of the announced limit are left -/
theorem hasUpdate_iff (c : RW) : c.hasUpdate = true ↔ c.window - c.bytesRead ≤ updateThreshold c.size := by
  simp [RW.hasUpdate]

theorem noteFirst_fields (c : RW) (now : Int) :
    (c.noteFirst now).window = c.window ∧ (c.noteFirst now).bytesRead = c.bytesRead ∧ (c.noteFirst now).size = c.size ∧
    (c.noteFirst now).highest = c.highest ∧ (c.noteFirst now).cap = c.cap := by
  unfold RW.noteFirst
  split <;> simp [RW.startEpoch]

/-- receiving data changes neither limit nor window size; it is refused exactly when the new highest offset lies
    beyond the stream's limit or pushes the connection total beyond the connection's limit -/
theorem recvData_spec (st conn : RW) (off now : Int) :
    (recvData st conn off now).1.window = st.window ∧ (recvData st conn off now).1.bytesRead = st.bytesRead ∧
    (recvData st conn off now).1.size = st.size ∧
    (recvData st conn off now).2.1.window = conn.window ∧ (recvData st conn off now).2.1.bytesRead = conn.bytesRead ∧
    (recvData st conn off now).2.1.size = conn.size ∧
    ((recvData st conn off now).2.2 = true ↔
      st.highest < off ∧ (off > st.window ∨ conn.highest + (off - st.highest) > conn.window)) := by
  obtain ⟨a1, a2, a3, _, _⟩ := noteFirst_fields st now
  obtain ⟨b1, b2, b3, _, _⟩ := noteFirst_fields conn now
  unfold recvData
  split
  · refine ⟨rfl, rfl, rfl, rfl, rfl, rfl, ?_⟩
    constructor
    · intro h; cases h
    · rintro ⟨h, _⟩; omega
  · split
    · refine ⟨a1, a2, a3, rfl, rfl, rfl, ?_⟩
      constructor
      · intro _; exact ⟨by omega, Or.inl (by assumption)⟩
      · intro _; rfl
    · refine ⟨a1, a2, a3, b1, b2, b3, ?_⟩
      simp only [decide_eq_true_eq]
      constructor
      · intro h; exact ⟨by omega, Or.inr h⟩
      · rintro ⟨_, h | h⟩
        · omega
        · exact h

/-! ## one stream and its connection: histories -/

inductive FlowOp
  | recv (offset now : Int)
  | read (n : Int)
  | supd (now rtt : Int)
  | cupd (now rtt : Int)
  deriving Repr

/-- stream, connection, and — ghost — the largest limit the peer was ever told for the stream / the connection -/
structure FS where
  st : RW
  conn : RW
  cs : Int
  cc : Int
  err : Bool := false

/-- the largest limit the peer was told so far, after an announcement `v` (0: nothing was announced) -/
def told (old v : Int) : Int := if v = 0 then old else max old v

def FS.step (s : FS) : FlowOp → FS
  | .recv off now =>
    let r := recvData s.st s.conn off now
    { s with st := r.1, conn := r.2.1, err := s.err || r.2.2 }
  | .read n =>
    let r := readData s.st s.conn n
    { s with st := r.1, conn := r.2.1 }
  | .supd now rtt =>
    let r := streamUpdate s.st s.conn now rtt
    { s with st := r.1, conn := r.2.1, cs := told s.cs r.2.2 }
  | .cupd now rtt =>
    let r := s.conn.update now rtt
    { s with conn := r.1, cc := told s.cc r.2 }

def FS.run (s : FS) : List FlowOp → FS
  | [] => s
  | op :: ops => (s.step op).run ops

/-- the peer stays within the credit it holds (and the application reads what is there) -/
def Conformant (s : FS) : List FlowOp → Prop
  | [] => True
  | op :: ops =>
    (match op with
     | .recv off _ => off ≤ s.cs ∧ (s.st.highest < off → s.conn.highest + (off - s.st.highest) ≤ s.cc)
     | .read n => 0 ≤ n
     | _ => True) ∧ Conformant (s.step op) ops

def Conformant.dec : (s : FS) → (ops : List FlowOp) → Decidable (Conformant s ops)
  | _, [] => isTrue trivial
  | s, op :: ops =>
    have hd : Decidable (match op with
        | .recv off _ => off ≤ s.cs ∧ (s.st.highest < off → s.conn.highest + (off - s.st.highest) ≤ s.cc)
        | .read n => 0 ≤ n
        | _ => True) := by
      cases op <;> simp only [] <;> exact inferInstance
    match hd, Conformant.dec (s.step op) ops with
    | isTrue a, isTrue b => isTrue ⟨a, b⟩
    | isFalse a, _ => isFalse (fun h => a h.1)
    | _, isFalse b => isFalse (fun h => b h.2)
instance (s : FS) (ops : List FlowOp) : Decidable (Conformant s ops) := Conformant.dec s ops

structure FSInv (s : FS) : Prop where
  st : RWInv s.st
  conn : RWInv s.conn
  cs : s.cs ≤ s.st.window
  cc : s.cc ≤ s.conn.window

theorem step_inv (s : FS) (op : FlowOp) (h : FSInv s) (hc : Conformant s [op]) (he : s.err = false) :
    FSInv (s.step op) ∧ (s.step op).err = false := by
  obtain ⟨⟨sw, ss⟩, ⟨cw, csz⟩, hcs, hcc⟩ := h
  cases op with
  | recv off now =>
    obtain ⟨⟨h1, h2⟩, _⟩ := hc
    obtain ⟨r1, r2, r3, r4, r5, r6, r7⟩ := recvData_spec s.st s.conn off now
    have hne : (recvData s.st s.conn off now).2.2 = false := by
      cases hb : (recvData s.st s.conn off now).2.2 with
      | false => rfl
      | true =>
        obtain ⟨hlt, hor⟩ := r7.mp hb
        have := h2 hlt
        rcases hor with h | h <;> omega
    simp only [FS.step]
    refine ⟨⟨⟨?_, ?_⟩, ⟨?_, ?_⟩, ?_, ?_⟩, ?_⟩
    · show (recvData s.st s.conn off now).1.window ≤ (recvData s.st s.conn off now).1.bytesRead + (recvData s.st s.conn off now).1.size
      rw [r1, r2, r3]; exact sw
    · show 0 ≤ (recvData s.st s.conn off now).1.size
      rw [r3]; exact ss
    · show (recvData s.st s.conn off now).2.1.window ≤ (recvData s.st s.conn off now).2.1.bytesRead + (recvData s.st s.conn off now).2.1.size
      rw [r4, r5, r6]; exact cw
    · show 0 ≤ (recvData s.st s.conn off now).2.1.size
      rw [r6]; exact csz
    · show s.cs ≤ (recvData s.st s.conn off now).1.window
      rw [r1]; exact hcs
    · show s.cc ≤ (recvData s.st s.conn off now).2.1.window
      rw [r4]; exact hcc
    · show (s.err || (recvData s.st s.conn off now).2.2) = false
      rw [he, hne]; rfl
  | read n =>
    obtain ⟨h1, _⟩ := hc
    simp only [FS.step, readData]
    have h1' : 0 ≤ n := h1
    exact ⟨⟨⟨by show s.st.window ≤ s.st.bytesRead + n + s.st.size; omega, ss⟩,
            ⟨by show s.conn.window ≤ s.conn.bytesRead + n + s.conn.size; omega, csz⟩, hcs, hcc⟩, he⟩
  | supd now rtt =>
    obtain ⟨u1, u2, _, _, _, u6⟩ := update_spec s.st now rtt ⟨sw, ss⟩
    simp only [FS.step, streamUpdate]
    have hcs' : told s.cs (s.st.update now rtt).2 ≤ (s.st.update now rtt).1.window := by
      unfold told
      rcases u6 with ⟨e0, _⟩ | ⟨e1, _⟩
      · rw [if_pos e0]; omega
      · split
        · omega
        · rw [e1]; exact Int.max_le.mpr ⟨by omega, Int.le_refl _⟩
    split
    · obtain ⟨m1, _, _, _, m5⟩ := ensureMinimum_spec s.conn ((3 * (s.st.update now rtt).1.size) / 2) now ⟨cw, csz⟩
      exact ⟨⟨u2, m5, hcs', by rw [m1]; exact hcc⟩, he⟩
    · exact ⟨⟨u2, ⟨cw, csz⟩, hcs', hcc⟩, he⟩
  | cupd now rtt =>
    obtain ⟨u1, u2, _, _, _, u6⟩ := update_spec s.conn now rtt ⟨cw, csz⟩
    simp only [FS.step]
    refine ⟨⟨⟨sw, ss⟩, u2, hcs, ?_⟩, he⟩
    show told s.cc (s.conn.update now rtt).2 ≤ (s.conn.update now rtt).1.window
    unfold told
    rcases u6 with ⟨e0, _⟩ | ⟨e1, _⟩
    · rw [if_pos e0]; omega
    · split
      · omega
      · rw [e1]; exact Int.max_le.mpr ⟨by omega, Int.le_refl _⟩

theorem run_inv (s : FS) (ops : List FlowOp) (h : FSInv s) (hc : Conformant s ops) (he : s.err = false) :
    FSInv (s.run ops) ∧ (s.run ops).err = false := by
  induction ops generalizing s with
  | nil => exact ⟨h, he⟩
  | cons op ops ih =>
    obtain ⟨h1, h2⟩ := hc
    obtain ⟨i1, i2⟩ := step_inv s op h ⟨h1, trivial⟩ he
    exact ih (s.step op) i1 h2 i2

/-! ## connection IDs -/

/-- strictly ascending -/
def Asc : List Nat → Prop
  | [] => True
  | [_] => True
  | a :: b :: rest => a < b ∧ Asc (b :: rest)

theorem asc_tail {a : Nat} {l : List Nat} (h : Asc (a :: l)) : Asc l := by
  cases l with
  | nil => trivial
  | cons b rest => exact h.2

theorem asc_head_lt {a : Nat} {l : List Nat} (h : Asc (a :: l)) : ∀ x ∈ l, a < x := by
  induction l generalizing a with
  | nil => intro x hx; cases hx
  | cons b rest ih =>
    intro x hx
    obtain ⟨hab, hr⟩ := h
    rcases List.mem_cons.mp hx with rfl | hx
    · exact hab
    · exact Nat.lt_trans hab (ih hr x hx)

/-- a strictly ascending list whose elements lie in [lo, hi] has at most hi + 1 - lo elements -/
theorem asc_length_le (l : List Nat) (lo hi : Nat) (h : Asc l) (hb : ∀ x ∈ l, lo ≤ x ∧ x ≤ hi) :
    l.length ≤ hi + 1 - lo := by
  induction l generalizing lo with
  | nil => simp
  | cons a rest ih =>
    have ha := hb a (by simp)
    have hr := ih (a + 1) (asc_tail h) (fun x hx => ⟨asc_head_lt h x hx, (hb x (by simp [hx])).2⟩)
    simp only [List.length_cons]
    omega

theorem asc_filter (l : List Nat) (p : Nat → Bool) (h : Asc l) : Asc (l.filter p) := by
  induction l with
  | nil => trivial
  | cons a rest ih =>
    have hr := ih (asc_tail h)
    simp only [List.filter_cons]
    split
    · -- a kept: every element of the filtered tail is > a
      have hlt : ∀ x ∈ rest.filter p, a < x := fun x hx => asc_head_lt h x (List.mem_filter.mp hx).1
      cases hf : rest.filter p with
      | nil => trivial
      | cons b r2 =>
        rw [hf] at hr hlt
        exact ⟨hlt b (by simp), hr⟩
    · exact hr

theorem insertSorted_append (l : List Nat) (s : Nat) (h : ∀ x ∈ l, x < s) : insertSorted s l = l ++ [s] := by
  induction l with
  | nil => rfl
  | cons a rest ih =>
    have ha := h a (by simp)
    simp only [insertSorted]
    rw [if_neg (by omega), if_neg (by omega), ih (fun x hx => h x (by simp [hx]))]
    rfl

theorem asc_append_last (l : List Nat) (s : Nat) (h : Asc l) (hlt : ∀ x ∈ l, x < s) : Asc (l ++ [s]) := by
  induction l with
  | nil => trivial
  | cons a rest ih =>
    cases rest with
    | nil => exact ⟨hlt a (by simp), trivial⟩
    | cons b r2 =>
      obtain ⟨hab, hr⟩ := h
      exact ⟨hab, ih hr (fun x hx => hlt x (by simp [hx]))⟩

/-- what an in-order, conformant peer keeps true of the client's manager after it has issued 0..n and asked to
    retire everything below `r` -/
structure CidInv (m : Cid) (n r : Nat) : Prop where
  asc : Asc (m.active :: m.queue)
  le : ∀ x ∈ m.active :: m.queue, x ≤ n
  ge : ∀ x ∈ m.active :: m.queue, r ≤ x
  hr : m.highestRetired ≤ n
  qhr : ∀ x ∈ m.queue, m.highestRetired ≤ x

theorem add_inv (m : Cid) (n r rpt : Nat) (h : CidInv m n r) (hle : rpt ≤ n + 1) :
    CidInv (m.add (n + 1) rpt).1 (n + 1) rpt ∧ (m.add (n + 1) rpt).1.limit = m.limit := by
  obtain ⟨hasc, hle', hge, hhr, hqhr⟩ := h
  have ha_le : m.active ≤ n := hle' m.active (by simp)
  have hq_le : ∀ x ∈ m.queue, x ≤ n := fun x hx => hle' x (by simp [hx])
  have hq_gt : ∀ x ∈ m.queue, m.active < x := asc_head_lt hasc
  unfold Cid.add
  have hnr : m.retireNow (n + 1) = false := by
    simp only [Cid.retireNow, Bool.and_eq_false_iff, Bool.or_eq_false_iff, decide_eq_false_iff_not]
    right; constructor <;> omega
  rw [hnr]
  simp only [Bool.false_eq_true, if_false]
  -- the state after the Retire-Prior-To block
  have hrq : (m.retireQueueBelow rpt).1.active = m.active ∧ (m.retireQueueBelow rpt).1.limit = m.limit ∧
      Asc (m.active :: (m.retireQueueBelow rpt).1.queue) ∧
      (∀ x ∈ (m.retireQueueBelow rpt).1.queue, x ∈ m.queue ∧ rpt ≤ x ∧ (m.retireQueueBelow rpt).1.highestRetired ≤ x) ∧
      (m.retireQueueBelow rpt).1.highestRetired ≤ n + 1 := by
    unfold Cid.retireQueueBelow
    split
    · rename_i hgt
      refine ⟨rfl, rfl, ?_, ?_, ?_⟩
      · have := asc_filter (m.active :: m.queue) (fun s => decide (s ≥ rpt) || decide (s = m.active)) hasc
        have e : (m.active :: m.queue).filter (fun s => decide (s ≥ rpt) || decide (s = m.active)) =
            m.active :: m.queue.filter (fun s => decide (s ≥ rpt)) := by
          simp only [List.filter_cons, decide_true, Bool.or_true, if_true]
          congr 1
          apply List.filter_congr
          intro x hx
          have := hq_gt x hx
          have hne : ¬ x = m.active := by omega
          simp [hne]
        rw [e] at this
        exact this
      · intro x hx
        obtain ⟨h1, h2⟩ := List.mem_filter.mp hx
        simp only [decide_eq_true_eq] at h2
        exact ⟨h1, h2, h2⟩
      · show rpt ≤ n + 1
        exact hle
    · rename_i hng
      refine ⟨rfl, rfl, hasc, ?_, ?_⟩
      · intro x hx
        have := hqhr x hx
        exact ⟨hx, by omega, this⟩
      · show m.highestRetired ≤ n + 1
        omega
  obtain ⟨q1, q2, q3, q4, q5⟩ := hrq
  have hne : ¬ (n + 1 = (m.retireQueueBelow rpt).1.active) := by rw [q1]; omega
  rw [if_neg hne]
  have hqlt : ∀ x ∈ (m.retireQueueBelow rpt).1.queue, x < n + 1 := fun x hx => by
    have := hq_le x (q4 x hx).1; omega
  rw [insertSorted_append _ _ hqlt]
  have hasc2 : Asc (m.active :: ((m.retireQueueBelow rpt).1.queue ++ [n + 1])) := by
    have := asc_append_last (m.active :: (m.retireQueueBelow rpt).1.queue) (n + 1) q3
      (by intro x hx; rcases List.mem_cons.mp hx with rfl | hx
          · omega
          · exact hqlt x hx)
    simpa using this
  split
  · -- the connection ID in use is below Retire Prior To: it is replaced by the front of the queue
    rename_i hlt
    simp only [q1] at hlt
    unfold Cid.updateConnectionID
    simp only []
    cases hq : (m.retireQueueBelow rpt).1.queue ++ [n + 1] with
    | nil => simp at hq
    | cons f rest =>
      simp only []
      rw [hq] at hasc2
      have hmem : ∀ x ∈ f :: rest, (x ∈ (m.retireQueueBelow rpt).1.queue ∨ x = n + 1) := by
        intro x hx
        have : x ∈ (m.retireQueueBelow rpt).1.queue ++ [n + 1] := by rw [hq]; exact hx
        simpa using this
      refine ⟨⟨asc_tail hasc2, ?_, ?_, ?_, ?_⟩, q2⟩
      · intro x hx
        rcases hmem x hx with h1 | h1
        · have := hqlt x h1; omega
        · omega
      · intro x hx
        rcases hmem x hx with h1 | h1
        · exact (q4 x h1).2.1
        · omega
      · show max (m.retireQueueBelow rpt).1.highestRetired (m.retireQueueBelow rpt).1.active ≤ n + 1
        rw [q1]; omega
      · intro x hx
        show max (m.retireQueueBelow rpt).1.highestRetired (m.retireQueueBelow rpt).1.active ≤ x
        rw [q1]
        have hgt : m.active < x := by
          have hf := asc_head_lt hasc2 f (by simp)
          have := asc_head_lt (asc_tail hasc2) x hx
          omega
        rcases hmem x (by simp [hx]) with h1 | h1
        · have := (q4 x h1).2.2; omega
        · omega
  · rename_i hge2
    simp only [q1] at hge2
    refine ⟨⟨by rw [q1]; exact hasc2, ?_, ?_, q5, ?_⟩, q2⟩
    · intro x hx
      rw [q1] at hx
      rcases List.mem_cons.mp hx with rfl | hx
      · omega
      · rcases List.mem_append.mp hx with h1 | h1
        · have := hqlt x h1; omega
        · simp at h1; omega
    · intro x hx
      rw [q1] at hx
      rcases List.mem_cons.mp hx with rfl | hx
      · omega
      · rcases List.mem_append.mp hx with h1 | h1
        · exact (q4 x h1).2.1
        · simp at h1; omega
    · intro x hx
      show (m.retireQueueBelow rpt).1.highestRetired ≤ x
      rcases List.mem_append.mp hx with h1 | h1
      · exact (q4 x h1).2.2
      · simp at h1; omega

end Uquic.Proofs.LimitsGlue
