/-
Helper lemmas for C17: the doDial select (context cancellation waits for the run loop's completion signal).
-/
import Uquic.Model.Close.Dial

namespace Uquic.Proofs.Dial
open Uquic.Model.Dial

def Inv (s : St) : Prop :=
  (s.signalled = true → s.runReturned = true) ∧
  (s.signalTaken = true → s.signalled = true) ∧
  (s.pc = .destroying → s.closeRequested = true ∧ s.ctxDone = true) ∧
  (s.pc = .waiting → s.runReturned = true ∧ s.closeRequested = true ∧ s.ctxDone = true) ∧
  (s.pc = .returned .cancelled →
    s.signalled = true ∧ s.signalTaken = true ∧ s.runReturned = true ∧ s.closeRequested = true ∧ s.ctxDone = true)

theorem inv_init : Inv {} := by
  simp [Inv]

theorem mem_readyOuter (s : St) (r : Ret) (h : r ∈ readyOuter s) :
    (r = .cancelled → s.ctxDone = true) ∧
    (r = .recreate ∨ r = .runError → s.signalled = true ∧ s.signalTaken = false) := by
  unfold readyOuter at h
  simp only [List.mem_append] at h
  rcases h with ((h | h) | h) | h
  · split at h <;> simp_all
  · split at h <;> simp_all
  · split at h <;> simp_all
  · split at h <;> simp_all

theorem inv_step (s : St) (e : Ev) (h : Inv s) : Inv (step s e) := by
  obtain ⟨h1, h2, h3, h4, h5⟩ := h
  cases e with
  | cancel =>
    refine ⟨h1, h2, ?_, ?_, ?_⟩ <;> intro hp <;> simp_all [step]
  | handshakeCompletes =>
    simp only [step]
    split
    · exact ⟨h1, h2, h3, h4, h5⟩
    · exact ⟨h1, h2, h3, h4, h5⟩
  | runReturns rc =>
    simp only [step]
    split
    · exact ⟨h1, h2, h3, h4, h5⟩
    · refine ⟨fun _ => rfl, h2, h3, ?_, ?_⟩
      · intro hp; have := h4 hp; simp_all
      · intro hp; have := h5 hp; simp_all
  | goroutineSignals =>
    simp only [step]
    split
    · rename_i hc
      simp at hc
      refine ⟨fun _ => hc.1, fun _ => rfl, h3, h4, ?_⟩
      intro hp; have := h5 hp; simp_all
    · exact ⟨h1, h2, h3, h4, h5⟩
  | dialStep pick =>
    simp only [step]
    split
    · -- selecting
      rename_i hpc
      split
      · exact ⟨h1, h2, h3, h4, h5⟩
      · rename_i hget
        have hm := (mem_readyOuter s _ (List.mem_of_getElem? hget)).1 rfl
        refine ⟨h1, h2, fun _ => ⟨rfl, hm⟩, ?_, ?_⟩ <;> intro hp <;> simp at hp
      · rename_i hget
        have hm := (mem_readyOuter s _ (List.mem_of_getElem? hget)).2 (Or.inl rfl)
        refine ⟨h1, fun _ => hm.1, ?_, ?_, ?_⟩ <;> intro hp <;> simp at hp
      · rename_i hget
        have hm := (mem_readyOuter s _ (List.mem_of_getElem? hget)).2 (Or.inr rfl)
        refine ⟨h1, fun _ => hm.1, ?_, ?_, ?_⟩ <;> intro hp <;> simp at hp
      · refine ⟨h1, h2, ?_, ?_, ?_⟩ <;> intro hp <;> simp at hp
    · -- destroying
      rename_i hpc
      split
      · rename_i hr
        have := h3 hpc
        refine ⟨h1, h2, ?_, fun _ => ⟨hr, this.1, this.2⟩, ?_⟩ <;> intro hp <;> simp at hp
      · exact ⟨h1, h2, h3, h4, h5⟩
    · -- waiting
      rename_i hpc
      split
      · rename_i hr
        simp at hr
        have := h4 hpc
        refine ⟨h1, fun _ => hr.1, ?_, ?_, fun _ => ⟨hr.1, rfl, this.1, this.2.1, this.2.2⟩⟩ <;> intro hp <;> simp at hp
      · exact ⟨h1, h2, h3, h4, h5⟩
    · exact ⟨h1, h2, h3, h4, h5⟩

theorem inv_run (s : St) (es : List Ev) (h : Inv s) : Inv (run s es) := by
  induction es generalizing s with
  | nil => exact h
  | cons e rest ih => exact ih _ (inv_step s e h)

end Uquic.Proofs.Dial
