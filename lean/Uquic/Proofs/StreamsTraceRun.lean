/-
Trace-level lift (C15), part 5: induction over histories of the whole map.
-/
import Uquic.Proofs.StreamsTraceStep

set_option linter.unusedSimpArgs false
set_option linter.unusedVariables false

namespace Uquic.Proofs.Streams
open Uquic.Model.Streams

theorem mapOpened_cons (t : STyp) (pers : Persp) (e : MapEv) (es : List MapEv) :
    mapOpened t pers (e :: es) = evOpened t pers e ++ mapOpened t pers es := by simp [mapOpened]
theorem mapAccepted_cons (t : STyp) (pers : Persp) (e : MapEv) (es : List MapEv) :
    mapAccepted t pers (e :: es) = evAccepted t pers e ++ mapAccepted t pers es := by simp [mapAccepted]
theorem mapBlocked_cons (t : STyp) (e : MapEv) (es : List MapEv) :
    mapBlocked t (e :: es) = evBlocked t e ++ mapBlocked t es := by simp [mapBlocked]
theorem mapCredit_cons (t : STyp) (e : MapEv) (es : List MapEv) :
    mapCredit t (e :: es) = evCredit t e ++ mapCredit t es := by simp [mapCredit]

/-- what a reset-free history of the whole map shows of one (stream type, direction) is a trace of that sub-map's own
    transition system, started in the sub-map's state at the beginning of the history -/
structure RunTr (pers : Persp) (m m' : Map) (evs : List MapEv) : Prop where
  out : ∀ t, ∃ os : List OutOp, (∀ o ∈ os, o.wf) ∧ m'.out t = ((m.out t).run os).1 ∧
      mapOpened t pers evs = openedIds ((m.out t).run os).2 ∧ mapBlocked t evs = sbVals ((m.out t).run os).2
  inc : ∀ t, ∃ is : List InOp, (∀ o ∈ is, o.wf (firstIncoming t pers)) ∧ m'.inc t = ((m.inc t).run is).1 ∧
      mapAccepted t pers evs = acceptedIds ((m.inc t).run is).2 ∧ mapCredit t evs = msVals ((m.inc t).run is).2

theorem map_run_tr {pers : Persp} {nb nu : Int} (hnb : 0 ≤ nb) (hnu : 0 ≤ nu) (ops : List MapOp) :
    ∀ (m : Map), MInv pers nb nu m → (∀ op ∈ ops, op.wf) → (∀ op ∈ ops, op ≠ .resetFor0RTT) →
      RunTr pers m (runMapEv m ops).1 (runMapEv m ops).2 := by
  induction ops with
  | nil =>
    intro m _ _ _
    exact ⟨fun t => ⟨[], by simp, rfl, rfl, rfl⟩, fun t => ⟨[], by simp, rfl, rfl, rfl⟩⟩
  | cons o os ih =>
    intro m h hw hnr
    have S := map_step_tr hnb hnu m o h (hw o (by simp)) (hnr o (by simp))
    have R := ih (m.step o).1 (minv_step h o (hw o (by simp))) (fun op hop => hw op (by simp [hop]))
      (fun op hop => hnr op (by simp [hop]))
    simp only [runMapEv]
    refine ⟨fun t => ?_, fun t => ?_⟩
    · obtain ⟨os1, w1, s1, o1, b1⟩ := S.out t
      obtain ⟨os2, w2, s2, o2, b2⟩ := R.out t
      refine ⟨os1 ++ os2, ?_, ?_, ?_, ?_⟩
      · intro x hx; rcases List.mem_append.mp hx with hx | hx
        · exact w1 x hx
        · exact w2 x hx
      · rw [orun_append, s2, s1]
      · rw [orun_append, mapOpened_cons]
        simp only [openedIds_append]
        rw [o1, o2, s1]
      · rw [orun_append, mapBlocked_cons]
        simp only [sbVals_append]
        rw [b1, b2, s1]
    · obtain ⟨is1, w1, s1, o1, b1⟩ := S.inc t
      obtain ⟨is2, w2, s2, o2, b2⟩ := R.inc t
      refine ⟨is1 ++ is2, ?_, ?_, ?_, ?_⟩
      · intro x hx; rcases List.mem_append.mp hx with hx | hx
        · exact w1 x hx
        · exact w2 x hx
      · rw [irun_append, s2, s1]
      · rw [irun_append, mapAccepted_cons]
        simp only [acceptedIds_append]
        rw [o1, o2, s1]
      · rw [irun_append, mapCredit_cons]
        simp only [msVals_append]
        rw [b1, b2, s1]

end Uquic.Proofs.Streams
