/-
C11 helper lemmas: the Fisher–Yates shuffle (`math/rand.Shuffle`) as modelled by `shuffleWith`:
every draw sequence yields a permutation, and every permutation is produced by some legal draw sequence.
-/
import Uquic.Model.UQuic.QTP

namespace Uquic.Proofs.Qtp
open Uquic.Model.QTP

variable {α : Type}

theorem set_swap_perm (a : α) : ∀ (t : List α) (k : Nat) (h : k < t.length), (t[k] :: t.set k a).Perm (a :: t)
  | [], _, h => by simp at h
  | x :: xs, 0, _ => by
    simp only [List.getElem_cons_zero, List.set_cons_zero]
    exact List.Perm.swap a x xs
  | x :: xs, k+1, h => by
    have hk : k < xs.length := by simpa using h
    have ih := set_swap_perm a xs k hk
    simp only [List.getElem_cons_succ, List.set_cons_succ]
    exact (List.Perm.swap x xs[k] (xs.set k a)).trans (((List.Perm.cons x ih)).trans (List.Perm.swap a x xs))

theorem swapHead_perm (a : α) (t : List α) (k : Nat) :
    ((swapHead a t k).1 :: (swapHead a t k).2).Perm (a :: t) := by
  cases k with
  | zero => exact List.Perm.refl _
  | succ k =>
    by_cases h : k < t.length
    · simp only [swapHead, h, dite_true]
      exact set_swap_perm a t k h
    · simp only [swapHead, h, dite_false]
      exact List.Perm.refl _

theorem fyRev_perm : ∀ (n : Nat) (l : List α) (ks : List Nat), (fyRev n l ks).Perm l
  | 0, l, _ => by simp [fyRev]
  | _+1, [], _ => by simp [fyRev]
  | n+1, a :: t, ks => by
    simp only [fyRev]
    exact (List.Perm.cons _ (fyRev_perm n _ _)).trans (swapHead_perm a t _)

/-- whatever `rand` draws, the shuffled list is a permutation of the input -/
theorem shuffleWith_perm (js : List Nat) (l : List α) : (shuffleWith js l).Perm l := by
  unfold shuffleWith
  exact (List.reverse_perm _).trans ((fyRev_perm _ _ _).trans (List.reverse_perm l))

/-- every rearrangement of `l` is reached by offsets within the bounds of the remaining suffix -/
theorem fyRev_reach : ∀ (n : Nat) (l q : List α), l.length = n → q.Perm l →
    ∃ ks : List Nat, ks.length = n ∧ (∀ t (h : t < ks.length), ks[t] ≤ n - 1 - t) ∧ fyRev n l ks = q
  | 0, l, q, hl, hq => by
    have : l = [] := List.eq_nil_of_length_eq_zero hl
    subst this
    have : q = [] := List.Perm.eq_nil hq
    subst this
    exact ⟨[], rfl, by intro t h; simp at h, by simp [fyRev]⟩
  | n+1, l, q, hl, hq => by
    match l, q, hl, hq with
    | [], _, hl, _ => simp at hl
    | a :: t, [], _, hq => exact absurd (List.Perm.length_eq hq) (by simp)
    | a :: t, b :: q', hl, hq =>
      have htl : t.length = n := by simpa using hl
      have hb : b ∈ a :: t := hq.mem_iff.mp (by simp)
      rcases List.mem_cons.mp hb with hba | hbt
      · subst hba
        have hq' : q'.Perm t := List.Perm.cons_inv hq
        obtain ⟨ks, hkl, hkb, hke⟩ := fyRev_reach n t q' htl hq'
        refine ⟨0 :: ks, by simp [hkl], ?_, ?_⟩
        · intro i hi
          cases i with
          | zero => simp
          | succ i =>
            have hi' : i < ks.length := by simpa using hi
            have := hkb i hi'
            simp only [List.getElem_cons_succ]
            omega
        · simp [fyRev, swapHead, hke]
      · obtain ⟨k, hk, hkb⟩ := List.getElem_of_mem hbt
        have hsw : (b :: t.set k a).Perm (a :: t) := by
          have := set_swap_perm a t k hk
          rwa [hkb] at this
        have hq' : q'.Perm (t.set k a) := List.Perm.cons_inv (hq.trans hsw.symm)
        obtain ⟨ks, hkl, hkbd, hke⟩ := fyRev_reach n (t.set k a) q' (by simp [htl]) hq'
        refine ⟨(k+1) :: ks, by simp [hkl], ?_, ?_⟩
        · intro i hi
          cases i with
          | zero => simp only [List.getElem_cons_zero]; omega
          | succ i =>
            have hi' : i < ks.length := by simpa using hi
            have := hkbd i hi'
            simp only [List.getElem_cons_succ]
            omega
        · simp [fyRev, swapHead, hk, hkb, hke]

/-- offsets within bounds are the offsets of the draws `j = i - k` -/
theorem offsetsOf_draws (n : Nat) (ks : List Nat) (hb : ∀ t (h : t < ks.length), ks[t] ≤ n - 1 - t) :
    offsetsOf n (ks.mapIdx (fun t k => (n - 1 - t) - k)) = ks := by
  unfold offsetsOf
  apply List.ext_getElem
  · simp
  · intro i h1 h2
    simp only [List.getElem_mapIdx]
    have := hb i h2
    omega

theorem validDraws_of_offsets (n : Nat) (ks : List Nat) :
    validDraws n (ks.mapIdx (fun t k => (n - 1 - t) - k)) := by
  intro t h
  simp only [List.getElem_mapIdx]
  omega

/-- every permutation of the list is the result of the shuffle for some legal draw sequence -/
theorem shuffleWith_reach (l q : List α) (h : q.Perm l) :
    ∃ js : List Nat, js.length = l.length ∧ validDraws l.length js ∧ shuffleWith js l = q := by
  have hr : q.reverse.Perm l.reverse := (List.reverse_perm q).trans (h.trans (List.reverse_perm l).symm)
  obtain ⟨ks, hkl, hkb, hke⟩ := fyRev_reach l.length l.reverse q.reverse (by simp) hr
  refine ⟨ks.mapIdx (fun t k => (l.length - 1 - t) - k), by simp [hkl], validDraws_of_offsets _ _, ?_⟩
  unfold shuffleWith
  rw [offsetsOf_draws l.length ks hkb, hke, List.reverse_reverse]

end Uquic.Proofs.Qtp
