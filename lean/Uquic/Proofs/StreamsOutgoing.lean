/-
Invariants of the outgoing streams map and their preservation by every atomic step (C15).
-/
import Uquic.Model.Streams.Outgoing

set_option linter.unusedSimpArgs false
set_option linter.unusedVariables false

namespace Uquic.Proofs.Streams
open Uquic.Model.Streams

/-! ### goroutine-registry helpers -/

def wids (m : Outgoing) : List Nat := m.procs.map (·.wid)

theorem mem_updProc (m : Outgoing) (w : Nat) (f : Proc → Proc) (q : Proc) :
    q ∈ (m.updProc w f).procs ↔ ∃ p ∈ m.procs, q = if p.wid == w then f p else p := by
  simp only [Outgoing.updProc, List.mem_map]
  constructor
  · rintro ⟨p, hp, rfl⟩; exact ⟨p, hp, rfl⟩
  · rintro ⟨p, hp, rfl⟩; exact ⟨p, hp, rfl⟩

theorem wids_updProc (m : Outgoing) (w : Nat) (f : Proc → Proc) (hf : ∀ p, (f p).wid = p.wid) :
    wids (m.updProc w f) = wids m := by
  simp only [wids, Outgoing.updProc, List.map_map]
  apply List.map_congr_left
  intro p _
  simp only [Function.comp]
  split <;> simp [hf]

theorem mem_dropProc (m : Outgoing) (w : Nat) (q : Proc) :
    q ∈ (m.dropProc w).procs ↔ q ∈ m.procs ∧ q.wid ≠ w := by
  simp [Outgoing.dropProc]

theorem wids_dropProc (m : Outgoing) (w : Nat) : wids (m.dropProc w) = (wids m).filter (· != w) := by
  simp only [wids, Outgoing.dropProc]
  induction m.procs with
  | nil => rfl
  | cons p ps ih =>
    by_cases h : p.wid = w
    · have hb : (p.wid != w) = false := by simpa using h
      simp [List.filter_cons, hb, ih]
    · have hb : (p.wid != w) = true := by simpa using h
      simp [List.filter_cons, hb, ih]

theorem findProc_some (m : Outgoing) (w : Nat) (p : Proc) (h : m.findProc w = some p) :
    p ∈ m.procs ∧ p.wid = w := by
  simp only [Outgoing.findProc] at h
  have h1 := List.mem_of_find?_eq_some h
  have h2 := List.find?_some h
  exact ⟨h1, by simpa using h2⟩

theorem findProc_none (m : Outgoing) (w : Nat) (h : m.findProc w = none) : w ∉ wids m := by
  simp only [Outgoing.findProc, List.find?_eq_none] at h
  simp only [wids, List.mem_map, not_exists, not_and]
  intro p hp he
  have := h p hp
  simp [he] at this

theorem eq_of_wid_eq (l : List Proc) (hn : (l.map (·.wid)).Nodup) (p q : Proc) (hp : p ∈ l) (hq : q ∈ l)
    (h : p.wid = q.wid) : p = q := by
  induction l with
  | nil => simp at hp
  | cons x xs ih =>
    rw [List.map_cons, List.nodup_cons] at hn
    rcases List.mem_cons.mp hp with hp1 | hp2
    · rcases List.mem_cons.mp hq with hq1 | hq2
      · rw [hp1, hq1]
      · subst hp1; exact absurd (List.mem_map.mpr ⟨q, hq2, h.symm⟩ : p.wid ∈ List.map (·.wid) xs) hn.1
    · rcases List.mem_cons.mp hq with hq1 | hq2
      · subst hq1; exact absurd (List.mem_map.mpr ⟨p, hp2, h⟩ : q.wid ∈ List.map (·.wid) xs) hn.1
      · exact ih hn.2 hp2 hq2

theorem filter_ne_cons_self (w : Nat) (rest : List Nat) (h : w ∉ rest) :
    (w :: rest).filter (· != w) = rest := by
  simp only [List.filter_cons, bne_self_eq_false, Bool.false_eq_true, if_false]
  apply List.filter_eq_self.mpr
  intro a ha
  have : a ≠ w := fun e => h (e ▸ ha)
  simpa using this

/-! ### the FIFO / wake-up invariant -/

structure FifoPre (m : Outgoing) : Prop where
  nodupP : (wids m).Nodup
  /-- while the map is open, the blocked callers are exactly the queue, in order -/
  queue : m.closeErr = none → wids m = m.openQueue
  /-- only the head of the queue can hold a wake-up token or be running its woken section -/
  headOnly : m.closeErr = none → ∀ p ∈ m.procs, (p.flag = true ∨ p.phase = .woken) → m.openQueue.head? = some p.wid
  notClosed : m.closeErr = none → ∀ p ∈ m.procs, p.closed = false

/-- no lost wake-up: if a stream can be opened, the head of the queue has a token or is running -/
def NoLost (m : Outgoing) : Prop :=
  m.closeErr = none → m.nextStream ≤ m.maxStream → ∀ w rest, m.openQueue = w :: rest →
    ∃ p ∈ m.procs, p.wid = w ∧ (p.flag = true ∨ p.phase ≠ .waiting)

structure FifoInv (m : Outgoing) : Prop extends FifoPre m where
  noLost : NoLost m

theorem fifo_new (t : STyp) (p : Persp) : FifoInv (Outgoing.new t p) := by
  refine ⟨⟨?_, ?_, ?_, ?_⟩, ?_⟩ <;> simp [Outgoing.new, wids, NoLost]

theorem FifoPre.congr {m m' : Outgoing} (h : FifoPre m) (h1 : m'.procs = m.procs)
    (h2 : m'.openQueue = m.openQueue) (h3 : m'.closeErr = m.closeErr) : FifoPre m' := by
  refine ⟨?_, ?_, ?_, ?_⟩
  · simp only [wids, h1]; exact h.nodupP
  · simp only [wids, h1, h2, h3]; exact h.queue
  · rw [h1, h2, h3]; exact h.headOnly
  · rw [h1, h3]; exact h.notClosed

theorem NoLost.congr {m m' : Outgoing} (h : NoLost m) (h1 : m'.procs = m.procs)
    (h2 : m'.openQueue = m.openQueue) (h3 : m'.closeErr = m.closeErr)
    (h4 : m'.nextStream = m.nextStream) (h5 : m'.maxStream = m.maxStream) : NoLost m' := by
  unfold NoLost; rw [h1, h2, h3, h4, h5]; exact h

theorem FifoInv.congr {m m' : Outgoing} (h : FifoInv m) (h1 : m'.procs = m.procs)
    (h2 : m'.openQueue = m.openQueue) (h3 : m'.closeErr = m.closeErr)
    (h4 : m'.nextStream = m.nextStream) (h5 : m'.maxStream = m.maxStream) : FifoInv m' :=
  ⟨h.toFifoPre.congr h1 h2 h3, h.noLost.congr h1 h2 h3 h4 h5⟩

/-- once closed, only the absence of duplicate goroutine ids matters -/
theorem FifoInv.of_closed {m : Outgoing} (e : Err) (hc : m.closeErr = some e) (hn : (wids m).Nodup) : FifoInv m := by
  refine ⟨⟨hn, ?_, ?_, ?_⟩, ?_⟩ <;> (try unfold NoLost) <;> intro h <;> rw [hc] at h <;> simp at h

theorem mem_wids_of_mem (m : Outgoing) (p : Proc) (h : p ∈ m.procs) : p.wid ∈ wids m :=
  List.mem_map.mpr ⟨p, h, rfl⟩

theorem mem_wids (m : Outgoing) (w : Nat) (h : w ∈ wids m) : ∃ p ∈ m.procs, p.wid = w := by
  simpa [wids] using h

theorem maybeUnblock_fifo (m : Outgoing) (h : FifoPre m) : FifoInv m.maybeUnblock := by
  unfold Outgoing.maybeUnblock
  split
  · next hq => exact ⟨h, by intro _ _ w rest he; rw [hq] at he; simp at he⟩
  · next w rest hq =>
    split
    · next hgt => exact ⟨h, by intro _ hle; omega⟩
    · next hle =>
      have hw : ∀ p : Proc, ({ p with flag := true } : Proc).wid = p.wid := fun _ => rfl
      refine ⟨⟨?_, ?_, ?_, ?_⟩, ?_⟩
      · rw [wids_updProc _ _ _ hw]; exact h.nodupP
      · intro hc; rw [wids_updProc _ _ _ hw]; exact h.queue hc
      · intro hc q hq' hfl
        obtain ⟨p, hp, rfl⟩ := (mem_updProc _ _ _ _).mp hq'
        show m.openQueue.head? = _
        by_cases hpw : p.wid = w
        · simp [hpw, hq]
        · have hb : (p.wid == w) = false := by simpa using hpw
          simp only [hb, Bool.false_eq_true, if_false] at hfl ⊢
          exact h.headOnly hc p hp hfl
      · intro hc q hq'
        obtain ⟨p, hp, rfl⟩ := (mem_updProc _ _ _ _).mp hq'
        have := h.notClosed hc p hp
        split <;> simp [this]
      · intro hc _ w' rest' he
        have he' : m.openQueue = w' :: rest' := he
        rw [hq] at he'; simp at he'
        obtain ⟨rfl, rfl⟩ := he'
        have hin : w ∈ wids m := by rw [h.queue hc, hq]; simp
        obtain ⟨p, hp, hpw⟩ := mem_wids m w hin
        refine ⟨{ p with flag := true }, ?_, hpw, Or.inl rfl⟩
        apply (mem_updProc _ _ _ _).mpr
        exact ⟨p, hp, by simp [hpw]⟩

theorem dropProc_updProc_comm (m : Outgoing) (w w' : Nat) (f : Proc → Proc) (hf : ∀ p, (f p).wid = p.wid) :
    (m.updProc w' f).dropProc w = (m.dropProc w).updProc w' f := by
  simp only [Outgoing.updProc, Outgoing.dropProc]
  congr 1
  rw [List.filter_map]
  congr 1
  apply List.filter_congr
  intro p _
  simp only [Function.comp]
  split <;> simp [hf]

theorem dropProc_maybeUnblock_comm (m : Outgoing) (w : Nat) :
    m.maybeUnblock.dropProc w = (m.dropProc w).maybeUnblock := by
  have hq : (m.dropProc w).openQueue = m.openQueue := rfl
  have hn : (m.dropProc w).nextStream = m.nextStream := rfl
  have hx : (m.dropProc w).maxStream = m.maxStream := rfl
  unfold Outgoing.maybeUnblock
  rw [hq, hn, hx]
  cases m.openQueue with
  | nil => rfl
  | cons w' rest =>
    simp only
    split
    · rfl
    · exact dropProc_updProc_comm _ _ _ _ (fun _ => rfl)

/-! ### preservation of the FIFO invariant, method by method -/

theorem maybeSendBlocked_fields (m : Outgoing) :
    (m.maybeSendBlocked).1.procs = m.procs ∧ (m.maybeSendBlocked).1.openQueue = m.openQueue ∧
    (m.maybeSendBlocked).1.closeErr = m.closeErr ∧ (m.maybeSendBlocked).1.nextStream = m.nextStream ∧
    (m.maybeSendBlocked).1.maxStream = m.maxStream ∧ (m.maybeSendBlocked).1.streams = m.streams ∧
    (m.maybeSendBlocked).1.typ = m.typ ∧ (m.maybeSendBlocked).1.pers = m.pers := by
  unfold Outgoing.maybeSendBlocked; split <;> simp

theorem procs_nil_of_queue_nil (m : Outgoing) (h : FifoInv m) (hc : m.closeErr = none) (hq : m.openQueue = []) :
    m.procs = [] := by
  have := h.queue hc; rw [hq] at this; simpa [wids] using this

theorem fifo_openRaw_empty (m : Outgoing) (h : FifoInv m) (hc : m.closeErr = none) (hq : m.openQueue = []) :
    FifoInv m.openRaw.1 := by
  have hp := procs_nil_of_queue_nil m h hc hq
  refine ⟨⟨?_, ?_, ?_, ?_⟩, ?_⟩
  · simp [wids, Outgoing.openRaw, hp]
  · intro _; simp [wids, Outgoing.openRaw, hp, hq]
  · intro _ p hp'; simp [Outgoing.openRaw, hp] at hp'
  · intro _ p hp'; simp [Outgoing.openRaw, hp] at hp'
  · intro _ _ w rest he; simp [Outgoing.openRaw, hq] at he

theorem fifo_openStream (m : Outgoing) (h : FifoInv m) : FifoInv m.openStream.1 := by
  unfold Outgoing.openStream
  split
  · exact h
  · next hc =>
    split
    · have f := maybeSendBlocked_fields m
      exact h.congr f.1 f.2.1 f.2.2.1 f.2.2.2.1 f.2.2.2.2.1
    · next hcond =>
      have hq : m.openQueue = [] := by
        cases hq : m.openQueue with
        | nil => rfl
        | cons a b => simp [hq] at hcond
      exact fifo_openRaw_empty m h hc hq

theorem fifo_syncCall (m : Outgoing) (w : Nat) (c : Bool) (h : FifoInv m) : FifoInv (m.syncCall w c).1 := by
  unfold Outgoing.syncCall
  split
  · exact h
  · next hfind =>
    split
    · exact h
    · next hc =>
      split
      · exact h
      split
      · next hcond =>
        have hq : m.openQueue = [] := by
          cases hq : m.openQueue with
          | nil => rfl
          | cons a b => simp [hq] at hcond
        exact fifo_openRaw_empty m h hc hq
      · next hcond =>
        have hnew : w ∉ wids m := findProc_none m w hfind
        have f := maybeSendBlocked_fields { m with openQueue := m.openQueue ++ [w], procs := m.procs ++ [({ wid := w } : Proc)] }
        refine FifoInv.congr ?_ f.1 f.2.1 f.2.2.1 f.2.2.2.1 f.2.2.2.2.1
        refine ⟨⟨?_, ?_, ?_, ?_⟩, ?_⟩
        · simp only [wids, List.map_append, List.map_cons, List.map_nil]
          rw [List.nodup_append]
          refine ⟨h.nodupP, by simp, ?_⟩
          intro a ha b hb; simp at hb; subst hb
          intro e; subst e; exact hnew ha
        · intro hc'
          simp only [wids, List.map_append, List.map_cons, List.map_nil]
          have := h.queue hc; simp only [wids] at this; rw [this]
        · intro hc' p hp hfl
          simp only [List.mem_append, List.mem_singleton] at hp
          rcases hp with hp | hp
          · have := h.headOnly hc p hp hfl
            show (m.openQueue ++ [w]).head? = _
            cases hq : m.openQueue with
            | nil => rw [hq] at this; simp at this
            | cons a b => rw [hq] at this; simpa using this
          · subst hp; simp at hfl
        · intro hc' p hp
          simp only [List.mem_append, List.mem_singleton] at hp
          rcases hp with hp | hp
          · exact h.notClosed hc p hp
          · subst hp; rfl
        · intro hc' hle w' rest he
          have he' : m.openQueue ++ [w] = w' :: rest := he
          have hle' : m.nextStream ≤ m.maxStream := hle
          cases hq : m.openQueue with
          | nil => simp [hq, hle'] at hcond
          | cons a b =>
            rw [hq] at he'; simp at he'
            obtain ⟨p, hp, hpw, hfl⟩ := h.noLost hc hle' a b hq
            exact ⟨p, by simp [hp], by rw [hpw]; exact he'.1, hfl⟩

theorem fifo_updProc_other (m : Outgoing) (w : Nat) (f : Proc → Proc) (h : FifoInv m)
    (hw : ∀ p, (f p).wid = p.wid) (hcl : ∀ p, (f p).closed = p.closed)
    (hfl : ∀ p, p ∈ m.procs → p.wid = w → ((f p).flag = true ∨ (f p).phase = .woken) → (p.flag = true ∨ p.phase = .woken))
    (hnl : ∀ p, p ∈ m.procs → p.wid = w → (p.flag = true ∨ p.phase ≠ .waiting) → ((f p).flag = true ∨ (f p).phase ≠ .waiting)) :
    FifoInv (m.updProc w f) := by
  refine ⟨⟨?_, ?_, ?_, ?_⟩, ?_⟩
  · rw [wids_updProc _ _ _ hw]; exact h.nodupP
  · intro hc; rw [wids_updProc _ _ _ hw]; exact h.queue hc
  · intro hc q hq hf
    obtain ⟨p, hp, rfl⟩ := (mem_updProc _ _ _ _).mp hq
    show m.openQueue.head? = _
    by_cases hpw : p.wid = w
    · have hb : (p.wid == w) = true := by simpa using hpw
      simp only [hb, if_true] at hf ⊢
      rw [hw]; exact h.headOnly hc p hp (hfl p hp hpw hf)
    · have hb : (p.wid == w) = false := by simpa using hpw
      simp only [hb, Bool.false_eq_true, if_false] at hf ⊢
      exact h.headOnly hc p hp hf
  · intro hc q hq
    obtain ⟨p, hp, rfl⟩ := (mem_updProc _ _ _ _).mp hq
    split
    · rw [hcl]; exact h.notClosed hc p hp
    · exact h.notClosed hc p hp
  · intro hc hle w' rest he
    obtain ⟨p, hp, hpw, hf⟩ := h.noLost hc hle w' rest he
    refine ⟨if p.wid == w then f p else p, (mem_updProc _ _ _ _).mpr ⟨p, hp, rfl⟩, ?_, ?_⟩
    · split <;> simp [hw, hpw]
    · by_cases hpw' : p.wid = w
      · have hb : (p.wid == w) = true := by simpa using hpw'
        simp only [hb, if_true]; exact hnl p hp hpw' hf
      · have hb : (p.wid == w) = false := by simpa using hpw'
        simp only [hb, Bool.false_eq_true, if_false]; exact hf

theorem nodup_dropProc (m : Outgoing) (w : Nat) (h : (wids m).Nodup) : (wids (m.dropProc w)).Nodup := by
  rw [wids_dropProc]; exact h.filter _

theorem nodup_updProc (m : Outgoing) (w : Nat) (f : Proc → Proc) (hw : ∀ p, (f p).wid = p.wid)
    (h : (wids m).Nodup) : (wids (m.updProc w f)).Nodup := by
  rw [wids_updProc _ _ _ hw]; exact h

theorem fifo_recv (m : Outgoing) (w : Nat) (h : FifoInv m) : FifoInv (m.recv w) := by
  unfold Outgoing.recv
  split
  · exact h
  · next p hfind =>
    obtain ⟨hp, hpw⟩ := findProc_some m w p hfind
    split
    · exact h
    split
    · next hcl =>
      cases hc : m.closeErr with
      | none => have := h.notClosed hc p hp; rw [this] at hcl; simp at hcl
      | some e => exact FifoInv.of_closed e hc (nodup_updProc _ _ _ (fun _ => rfl) h.nodupP)
    split
    · next hflag =>
      refine fifo_updProc_other m w (fun p => { p with phase := .woken, flag := false }) h (fun _ => rfl) (fun _ => rfl) ?_ ?_
      · intro q hq hqw _
        -- the receiving goroutine is the one found; it held a token
        have : q = p := eq_of_wid_eq m.procs h.nodupP q p hq hp (by rw [hqw, hpw])
        subst this; exact Or.inl hflag
      · intro q _ _ _; right; simp
    · exact h

theorem fifo_ctxDone (m : Outgoing) (w : Nat) (h : FifoInv m) : FifoInv (m.ctxDone w) := by
  unfold Outgoing.ctxDone
  split
  · exact h
  · split
    · refine fifo_updProc_other m w (fun p => { p with phase := .cancelling }) h (fun _ => rfl) (fun _ => rfl) ?_ ?_
      · intro q _ _ hf; rcases hf with hf | hf
        · exact Or.inl hf
        · simp at hf
      · intro q _ _ _; right; simp
    · exact h

theorem fifo_cancelCtx (m : Outgoing) (w : Nat) (h : FifoInv m) : FifoInv (m.cancelCtx w) := by
  unfold Outgoing.cancelCtx
  exact fifo_updProc_other m w (fun p => { p with cancelled := true }) h (fun _ => rfl) (fun _ => rfl)
    (fun _ _ _ hf => hf) (fun _ _ _ hf => hf)

theorem head_of_woken (m : Outgoing) (h : FifoInv m) (hc : m.closeErr = none) (p : Proc) (hp : p ∈ m.procs)
    (hph : p.phase = .woken) : ∃ rest, m.openQueue = p.wid :: rest ∧ p.wid ∉ rest := by
  have hh := h.headOnly hc p hp (Or.inr hph)
  cases hq : m.openQueue with
  | nil => rw [hq] at hh; simp at hh
  | cons a rest =>
    rw [hq] at hh; simp at hh; subst hh
    refine ⟨rest, rfl, ?_⟩
    have hn := h.nodupP
    rw [h.queue hc, hq, List.nodup_cons] at hn
    exact hn.1

/-- the state after a served waiter left: queue popped, goroutine gone, wake-up passed on -/
theorem fifo_after_pop (m : Outgoing) (w : Nat) (rest : List Nat) (hc : m.closeErr = none)
    (hn : (wids m).Nodup) (hq : wids m = w :: rest) (hno : ∀ p ∈ m.procs, p.closed = false)
    (hfl : ∀ p ∈ m.procs, p.wid ≠ w → ¬ (p.flag = true ∨ p.phase = .woken))
    (m2 : Outgoing) (h1 : m2.procs = m.procs) (h2 : m2.openQueue = rest) (h3 : m2.closeErr = none) :
    FifoInv (m2.maybeUnblock.dropProc w) := by
  rw [dropProc_maybeUnblock_comm]
  apply maybeUnblock_fifo
  have hw : wids m2 = wids m := by simp [wids, h1]
  have hnotin : w ∉ rest := by rw [hq, List.nodup_cons] at hn; exact hn.1
  refine ⟨?_, ?_, ?_, ?_⟩
  · apply nodup_dropProc; rw [hw]; exact hn
  · intro _
    rw [wids_dropProc, hw, hq, filter_ne_cons_self w rest hnotin]
    exact h2.symm
  · intro _ p hp hf
    obtain ⟨hp1, hp2⟩ := (mem_dropProc _ _ _).mp hp
    rw [h1] at hp1
    exact absurd hf (hfl p hp1 hp2)
  · intro _ p hp
    obtain ⟨hp1, _⟩ := (mem_dropProc _ _ _).mp hp
    rw [h1] at hp1; exact hno p hp1

theorem fifo_wakeLocked (m : Outgoing) (w : Nat) (h : FifoInv m) : FifoInv (m.wakeLocked w).1 := by
  unfold Outgoing.wakeLocked
  split
  · exact h
  · next p hfind =>
    obtain ⟨hp, hpw⟩ := findProc_some m w p hfind
    split
    · exact h
    · next hph =>
      have hph' : p.phase = .woken := by simpa using hph
      split
      · next e hc => exact FifoInv.of_closed e hc (nodup_dropProc _ _ h.nodupP)
      · next hc =>
        split
        · next hgt =>
          -- still no credit: back to sleep
          show FifoInv (m.updProc w fun p => { p with phase := .waiting })
          refine ⟨⟨?_, ?_, ?_, ?_⟩, ?_⟩
          · exact nodup_updProc _ _ _ (fun _ => rfl) h.nodupP
          · intro _; rw [wids_updProc _ _ _ (by intro _; rfl)]; exact h.queue hc
          · intro _ q hq hf
            obtain ⟨p', hp', rfl⟩ := (mem_updProc _ _ _ _).mp hq
            show m.openQueue.head? = _
            by_cases hpw' : p'.wid = w
            · have hb : (p'.wid == w) = true := by simpa using hpw'
              simp only [hb, if_true] at hf ⊢
              have : p' = p := eq_of_wid_eq m.procs h.nodupP p' p hp' hp (by rw [hpw', hpw])
              subst this
              exact h.headOnly hc p' hp' (Or.inr hph')
            · have hb : (p'.wid == w) = false := by simpa using hpw'
              simp only [hb, Bool.false_eq_true, if_false] at hf ⊢
              exact h.headOnly hc p' hp' hf
          · intro _ q hq
            obtain ⟨p', hp', rfl⟩ := (mem_updProc _ _ _ _).mp hq
            split <;> exact h.notClosed hc p' hp'
          · intro _ hle; exfalso
            have : m.nextStream ≤ m.maxStream := hle
            omega
        · next hle =>
          obtain ⟨rest, hq, hnot⟩ := head_of_woken m h hc p hp hph'
          rw [hpw] at hq
          have hq' : (m.openRaw.1).openQueue = w :: rest := hq
          simp only [hq']
          apply fifo_after_pop m w rest hc h.nodupP (by rw [h.queue hc, hq]) (h.notClosed hc)
          · intro q hq1 hq2 hf
            have := h.headOnly hc q hq1 hf
            rw [hq] at this; simp at this; exact hq2 this.symm
          · rfl
          · rfl
          · exact hc

theorem fifo_cancelLocked (m : Outgoing) (w : Nat) (h : FifoInv m) : FifoInv (m.cancelLocked w).1 := by
  unfold Outgoing.cancelLocked
  split
  · exact h
  · next p hfind =>
    obtain ⟨hp, hpw⟩ := findProc_some m w p hfind
    split
    · exact h
    · next hph =>
      simp only
      rw [dropProc_maybeUnblock_comm]
      by_cases hc : m.closeErr = none
      · apply maybeUnblock_fifo
        refine ⟨?_, ?_, ?_, ?_⟩
        · exact nodup_dropProc m w h.nodupP
        · intro _
          show wids (m.dropProc w) = m.openQueue.filter (· != w)
          rw [wids_dropProc, h.queue hc]
        · intro _ q hq hf
          obtain ⟨hq1, hq2⟩ := (mem_dropProc _ _ _).mp hq
          have hq1' : q ∈ m.procs := hq1
          have := h.headOnly hc q hq1' hf
          show (m.openQueue.filter (· != w)).head? = _
          cases hqq : m.openQueue with
          | nil => rw [hqq] at this; simp at this
          | cons a rest =>
            rw [hqq] at this; simp at this; subst this
            have hb : (q.wid != w) = true := by simpa using hq2
            simp [List.filter_cons, hb]
        · intro _ q hq
          obtain ⟨hq1, _⟩ := (mem_dropProc _ _ _).mp hq
          exact h.notClosed hc q hq1
      · obtain ⟨e, he⟩ : ∃ e, m.closeErr = some e := by
          cases h' : m.closeErr with
          | none => exact absurd h' hc
          | some e => exact ⟨e, rfl⟩
        have hce : (({ m with openQueue := m.openQueue.filter (· != w) } : Outgoing).dropProc w).maybeUnblock.closeErr = some e := by
          unfold Outgoing.maybeUnblock
          split
          · exact he
          · split <;> exact he
        apply FifoInv.of_closed e hce
        have : wids (({ m with openQueue := m.openQueue.filter (· != w) } : Outgoing).dropProc w).maybeUnblock
            = wids (m.dropProc w) := by
          unfold Outgoing.maybeUnblock
          split
          · rfl
          · split
            · rfl
            · rw [wids_updProc _ _ _ (by intro _; rfl)]; rfl
        rw [this]; exact nodup_dropProc _ _ h.nodupP

theorem fifo_setMaxStream (m : Outgoing) (id : SID) (h : FifoInv m) : FifoInv (m.setMaxStream id).1 := by
  unfold Outgoing.setMaxStream
  split
  · exact h
  · simp only
    apply maybeUnblock_fifo
    have hpre : FifoPre { m with maxStream := id, blockedSent := false } := h.toFifoPre.congr rfl rfl rfl
    split
    · have f := maybeSendBlocked_fields { m with maxStream := id, blockedSent := false }
      exact hpre.congr f.1 f.2.1 f.2.2.1
    · exact hpre

theorem fifo_close (m : Outgoing) (e : Err) (h : FifoInv m) : FifoInv (m.closeWithError e) := by
  apply FifoInv.of_closed e rfl
  have : wids (m.closeWithError e) = wids m := by
    simp only [wids, Outgoing.closeWithError, List.map_map]
    apply List.map_congr_left
    intro p _; simp only [Function.comp]; split <;> rfl
  rw [this]; exact h.nodupP

theorem fifo_step (m : Outgoing) (op : OutOp) (h : FifoInv m) : FifoInv (m.step op).1 := by
  cases op with
  | openStream => exact fifo_openStream m h
  | syncCall w c => exact fifo_syncCall m w c h
  | recv w => exact fifo_recv m w h
  | ctxDone w => exact fifo_ctxDone m w h
  | wakeLocked w => exact fifo_wakeLocked m w h
  | cancelLocked w => exact fifo_cancelLocked m w h
  | cancelCtx w => exact fifo_cancelCtx m w h
  | getStream id => exact h
  | delete id =>
    simp only [Outgoing.step, Outgoing.deleteStream]
    split
    · exact h.congr rfl rfl rfl rfl rfl
    · exact h
  | setMax n => exact fifo_setMaxStream m _ h
  | close e => exact fifo_close m e h

end Uquic.Proofs.Streams
