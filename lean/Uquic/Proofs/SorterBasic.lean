/-
Helper lemmas for C03: the queue as a finite map (`qget/qdel/qset`), the buffers carried by a queue,
and the loops that delete consecutive frames.
-/
import Uquic.Model.Reassembly.Sorter

namespace Uquic.Proofs.Sorter
open Uquic.Model.Reassembly

/-! ### the queue as a map -/

def keys (q : Queue) : List Nat := q.map (·.1)

theorem qget_eq_some_of_mem {q : Queue} (hq : (keys q).Nodup) {k : Nat} {e : Entry} (h : (k, e) ∈ q) :
    qget q k = some e := by
  induction q with
  | nil => cases h
  | cons x r ih =>
    obtain ⟨k', e'⟩ := x
    simp only [keys, List.map_cons, List.nodup_cons] at hq
    simp only [qget]
    rcases List.mem_cons.mp h with h | h
    · cases h; simp
    · have : k' ≠ k := by
        intro hk; subst hk
        exact hq.1 (List.mem_map.mpr ⟨(k', e), h, rfl⟩)
      simp [this, ih hq.2 h]

theorem mem_of_qget {q : Queue} {k : Nat} {e : Entry} (h : qget q k = some e) : (k, e) ∈ q := by
  induction q with
  | nil => simp [qget] at h
  | cons x r ih =>
    obtain ⟨k', e'⟩ := x
    simp only [qget] at h
    split at h
    · cases h; subst_vars; simp
    · exact List.mem_cons_of_mem _ (ih h)

theorem qget_none_iff {q : Queue} {k : Nat} : qget q k = none ↔ ∀ e, (k, e) ∉ q := by
  induction q with
  | nil => simp [qget]
  | cons x r ih =>
    obtain ⟨k', e'⟩ := x
    simp only [qget]
    split
    · subst_vars
      constructor
      · intro h; cases h
      · intro h; exact absurd (List.mem_cons_self) (h e')
    · rename_i hne
      rw [ih]
      constructor
      · intro h e he
        rcases List.mem_cons.mp he with he | he
        · cases he; exact hne rfl
        · exact h e he
      · intro h e he
        exact h e (List.mem_cons_of_mem _ he)

theorem mem_qdel {q : Queue} {k : Nat} {x : Nat × Entry} : x ∈ qdel q k ↔ x ∈ q ∧ x.1 ≠ k := by
  simp [qdel]

theorem qdel_sublist (q : Queue) (k : Nat) : (qdel q k).Sublist q := by
  simp [qdel]

theorem keys_nodup_qdel {q : Queue} (hq : (keys q).Nodup) (k : Nat) : (keys (qdel q k)).Nodup := by
  unfold keys at *
  exact (List.Sublist.map _ (qdel_sublist q k)).nodup hq

theorem qget_qdel_self (q : Queue) (k : Nat) : qget (qdel q k) k = none := by
  rw [qget_none_iff]
  intro e he
  exact (mem_qdel.mp he).2 rfl

theorem qget_qdel_ne {q : Queue} (hq : (keys q).Nodup) {k k' : Nat} (h : k' ≠ k) :
    qget (qdel q k) k' = qget q k' := by
  cases hg : qget q k' with
  | none =>
    rw [qget_none_iff] at hg ⊢
    intro e he
    exact hg e (mem_qdel.mp he).1
  | some e =>
    apply qget_eq_some_of_mem (keys_nodup_qdel hq k)
    exact mem_qdel.mpr ⟨mem_of_qget hg, h⟩

theorem qdel_length_lt {q : Queue} {k : Nat} {e : Entry} (h : (k, e) ∈ q) : (qdel q k).length < q.length := by
  unfold qdel
  apply List.length_filter_lt_length_iff_exists.mpr
  exact ⟨(k, e), h, by simp⟩

theorem keys_nodup_qset {q : Queue} (hq : (keys q).Nodup) (k : Nat) (e : Entry) : (keys (qset q k e)).Nodup := by
  simp only [qset, keys, List.map_cons, List.nodup_cons]
  refine ⟨?_, keys_nodup_qdel hq k⟩
  intro h
  obtain ⟨x, hx, hk⟩ := List.mem_map.mp h
  exact (mem_qdel.mp hx).2 hk

theorem mem_qset {q : Queue} {k : Nat} {e : Entry} {x : Nat × Entry} :
    x ∈ qset q k e ↔ x = (k, e) ∨ (x ∈ q ∧ x.1 ≠ k) := by
  simp [qset, mem_qdel]

/-! ### the buffers a queue still references -/

/-- ids of the release callbacks held by a list of entries -/
def cbsOf (q : Queue) : List Nat := q.flatMap fun x => cbList x.2.cb

theorem cbsOf_cons (x : Nat × Entry) (q : Queue) : cbsOf (x :: q) = cbList x.2.cb ++ cbsOf q := by
  simp [cbsOf]

/-- deleting a key that is present moves exactly that entry's buffer out of the queue -/
theorem cbsOf_qdel_perm {q : Queue} (hq : (keys q).Nodup) {k : Nat} {e : Entry} (h : (k, e) ∈ q) :
    (cbList e.cb ++ cbsOf (qdel q k)).Perm (cbsOf q) := by
  induction q with
  | nil => cases h
  | cons x r ih =>
    obtain ⟨k', e'⟩ := x
    simp only [keys, List.map_cons, List.nodup_cons] at hq
    rcases List.mem_cons.mp h with h | h
    · cases h
      have hnot : ∀ y ∈ r, y.1 ≠ k := by
        intro y hy hk
        exact hq.1 (List.mem_map.mpr ⟨y, hy, hk⟩)
      have : qdel ((k, e) :: r) k = r := by
        simp only [qdel, List.filter_cons]
        simp
        intro a b hab
        exact hnot (a, b) hab
      rw [this, cbsOf_cons]
    · have hne : k' ≠ k := by
        intro hk; subst hk
        exact hq.1 (List.mem_map.mpr ⟨(k', e), h, rfl⟩)
      have : qdel ((k', e') :: r) k = (k', e') :: qdel r k := by
        simp [qdel, hne]
      rw [this, cbsOf_cons, cbsOf_cons]
      have := ih hq.2 h
      -- cbList e ++ (cbList e' ++ cbs (qdel r)) ~ cbList e' ++ cbs r
      calc (cbList e.cb ++ (cbList e'.cb ++ cbsOf (qdel r k))).Perm (cbList e'.cb ++ (cbList e.cb ++ cbsOf (qdel r k))) := by
            rw [← List.append_assoc, ← List.append_assoc]
            exact List.Perm.append_right _ List.perm_append_comm
        _ |>.Perm (cbList e'.cb ++ cbsOf r) := List.Perm.append_left _ this

/-- deleting an absent key changes nothing -/
theorem qdel_of_qget_none {q : Queue} {k : Nat} (h : qget q k = none) : qdel q k = q := by
  rw [qget_none_iff] at h
  unfold qdel
  apply List.filter_eq_self.mpr
  intro x hx
  obtain ⟨a, b⟩ := x
  simp
  intro hk; subst hk
  exact h b hx

/-! ### `deleteConsecutive` and `replaceLoop` conserve buffers (only `Nodup` keys are needed) -/

theorem deleteConsecutive_conserve (fuel : Nat) (q : Queue) (hq : (keys q).Nodup) (pos : Nat) :
    (keys (deleteConsecutive fuel q pos).1).Nodup ∧
    ((deleteConsecutive fuel q pos).2 ++ cbsOf (deleteConsecutive fuel q pos).1).Perm (cbsOf q) ∧
    (deleteConsecutive fuel q pos).1.Sublist q := by
  induction fuel generalizing q pos with
  | zero => simp [deleteConsecutive, hq]
  | succ n ih =>
    simp only [deleteConsecutive]
    cases hg : qget q pos with
    | none => simp [hq]
    | some e =>
      simp only
      have hmem := mem_of_qget hg
      obtain ⟨h1, h2, h3⟩ := ih (qdel q pos) (keys_nodup_qdel hq pos) (pos + e.data.length)
      refine ⟨h1, ?_, h3.trans (qdel_sublist q pos)⟩
      rw [List.append_assoc]
      exact (List.Perm.append_left _ h2).trans (cbsOf_qdel_perm hq hmem)

theorem replaceLoop_conserve (fuel : Nat) (q : Queue) (hq : (keys q).Nodup) (pos en : Nat) (hr : Bool) :
    (keys (replaceLoop fuel q pos en hr).q).Nodup ∧
    ((replaceLoop fuel q pos en hr).done ++ cbsOf (replaceLoop fuel q pos en hr).q).Perm (cbsOf q) ∧
    (replaceLoop fuel q pos en hr).q.Sublist q := by
  induction fuel generalizing q pos hr with
  | zero => simp [replaceLoop, hq]
  | succ n ih =>
    simp only [replaceLoop]
    cases hg : qget q pos with
    | none => simp [hq]
    | some e =>
      simp only
      split
      · have hmem := mem_of_qget hg
        obtain ⟨h1, h2, h3⟩ := ih (qdel q pos) (keys_nodup_qdel hq pos) (pos + e.data.length) true
        refine ⟨h1, ?_, h3.trans (qdel_sublist q pos)⟩
        simp only [List.append_assoc]
        exact (List.Perm.append_left _ h2).trans (cbsOf_qdel_perm hq hmem)
      · split <;> simp [hq]

end Uquic.Proofs.Sorter
