/-
Ledger specification of every primitive step of the connection ID manager model.
-/
import Uquic.Proofs.ConnIDInv

namespace Uquic.Proofs.ConnID
open Uquic.Model.ConnID

theorem nodup_map_inj {α β} {f : α → β} : ∀ {l : List α}, (l.map f).Nodup → ∀ a ∈ l, ∀ b ∈ l, f a = f b → a = b
  | [], _, a, ha, _, _, _ => by simp at ha
  | x :: xs, h, a, ha, b, hb, hab => by
    simp only [List.map_cons, List.nodup_cons] at h
    simp only [List.mem_cons] at ha hb
    rcases ha with rfl | ha <;> rcases hb with rfl | hb
    · rfl
    · exact absurd (List.mem_map.mpr ⟨b, hb, hab.symm⟩) h.1
    · exact absurd (List.mem_map.mpr ⟨a, ha, hab⟩) h.1
    · exact nodup_map_inj h.2 a ha b hb hab

theorem nodup_map_filter {α β} {f : α → β} {l : List α} (p : α → Bool) (h : (l.map f).Nodup) :
    ((l.filter p).map f).Nodup :=
  List.Nodup.sublist (List.Sublist.map f List.filter_sublist) h

/-! ### updateConnectionID -/

theorem retire_not_mem_rmTokOpt (o : Option Bytes) (s : Nat) : Ev.retire s ∉ rmTokOpt o := by
  cases o <;> simp [rmTokOpt]

theorem update_micro {m : Manager} {draw : Nat} (hi : Inv m) (hc : m.closed = false) {front : Entry} {rest : List Entry}
    (hq : m.queue = front :: rest) :
    (m.updateConnectionID draw).2.2 = .ok ∧
    MicroSpec m (m.updateConnectionID draw).2.1 (m.updateConnectionID draw).1 := by
  have hs := hi.sorted
  rw [hq] at hs
  unfold SortedQ at hs
  rw [List.pairwise_cons] at hs
  have hfa : m.activeSeq < front.seq := hi.q_gt_active front (by rw [hq]; simp)
  have hfh : m.highestProbing < front.seq := hi.q_gt_hp front (by rw [hq]; simp)
  have hrest : ∀ e ∈ rest, e ∈ m.queue := by intro e he; rw [hq]; simp; right; exact he
  unfold Manager.updateConnectionID
  simp only [hc, Bool.false_eq_true, ↓reduceIte, hq]
  refine ⟨trivial, ?_⟩
  have hmemr : ∀ s, Ev.retire s ∈ (Ev.retire m.activeSeq :: rmTokOpt m.activeTok) ++ [Ev.addTok front.tok]
      ↔ s = m.activeSeq := by
    intro s; cases m.activeTok <;> simp [rmTokOpt]
  have hret : retiredIn ((Ev.retire m.activeSeq :: rmTokOpt m.activeTok) ++ [Ev.addTok front.tok])
      = [m.activeSeq] := by
    cases m.activeTok <;> simp [retiredIn, rmTokOpt]
  refine ⟨?_, ?_, ?_, ?_, ?_, ?_, ?_⟩
  · -- invariant
    refine ⟨hs.2, ?_, ?_, ?_, ?_, hi.p_pos, ?_, hi.p_nodup, hi.p_keys⟩
    · intro e he; exact hs.1 e he
    · intro e he; exact hi.q_gt_hp e (hrest e he)
    · intro e he
      have h1 := hi.q_gt_active e (hrest e he)
      have h2 := hi.q_ge_hr e (hrest e he)
      simp only; omega
    · exact hi.p_le_hp
    · intro pe hpe
      have := hi.p_le_hp pe hpe
      simp only; omega
  · -- leave
    intro s hs' hn
    rw [hmemr]
    rw [mem_inUse] at hs' hn
    simp only [hq] at hs'
    rcases hs' with h | ⟨e, he, rfl⟩ | h
    · exact h
    · exfalso; apply hn
      simp only [List.mem_cons] at he
      rcases he with rfl | he
      · left; rfl
      · right; left; exact ⟨e, he, rfl⟩
    · exfalso; apply hn; right; right; exact h
  · intro s hs'; rw [hmemr] at hs'; subst hs'; simp [inUse]
  · -- gone
    intro s hs'
    rw [hmemr] at hs'; subst hs'
    refine ⟨?_, ?_⟩
    · rw [mem_inUse]
      simp only
      rintro (h | ⟨e, he, h⟩ | ⟨pe, hpe, h⟩)
      · omega
      · have := hs.1 e he; omega
      · exact hi.p_ne_active pe hpe h
    · left; exact hfa
  · rw [hret]; simp
  · intro s hb
    unfold Blocked at *
    simp only
    omega
  · intro s _ hn
    rw [mem_inUse] at hn ⊢
    simp only [hq] at hn
    simp only
    rintro (h | ⟨e, he, h⟩ | h)
    · apply hn; right; left; exact ⟨front, by simp, h.symm⟩
    · apply hn; right; left; exact ⟨e, by simp; right; exact he, h⟩
    · apply hn; right; right; exact h

/-! ### Retire Prior To -/

theorem mem_retireProbingEvs {l : List (Nat × Entry)} {s : Nat} :
    Ev.retire s ∈ retireProbingEvs l ↔ ∃ pe ∈ l, pe.2.seq = s := by
  unfold retireProbingEvs
  simp only [List.mem_flatMap, List.mem_cons, Ev.retire.injEq, List.mem_nil_iff, or_false]
  constructor
  · rintro ⟨pe, hpe, h | h⟩
    · exact ⟨pe, hpe, h.symm⟩
    · cases h
  · rintro ⟨pe, hpe, h⟩; exact ⟨pe, hpe, Or.inl h.symm⟩

theorem retiredIn_retireProbingEvs (l : List (Nat × Entry)) : retiredIn (retireProbingEvs l) = l.map (·.2.seq) := by
  induction l with
  | nil => simp [retireProbingEvs, retiredIn]
  | cons x xs ih =>
    simp only [retireProbingEvs, List.flatMap_cons, List.map_cons] at ih ⊢
    rw [retiredIn_append, ih]
    simp [retiredIn]

theorem rptProbing_micro {m : Manager} (rpt : Nat) (hi : Inv m) :
    MicroSpec m (m.retireProbingBelow rpt).2 (m.retireProbingBelow rpt).1 := by
  unfold Manager.retireProbingBelow
  simp only
  have hsub : ∀ pe, pe ∈ m.probing.filter (fun pe => decide (¬ pe.2.seq < rpt)) → pe ∈ m.probing := by
    intro pe h; exact (List.mem_filter.mp h).1
  refine ⟨?_, ?_, ?_, ?_, ?_, ?_, ?_⟩
  · exact ⟨hi.sorted, hi.q_gt_active, hi.q_gt_hp, hi.q_ge_hr, fun pe h => hi.p_le_hp pe (hsub pe h),
      fun pe h => hi.p_pos pe (hsub pe h), fun pe h => hi.p_ne_active pe (hsub pe h),
      nodup_map_filter _ hi.p_nodup, nodup_map_filter _ hi.p_keys⟩
  · intro s hs hn
    rw [mem_retireProbingEvs]
    rw [mem_inUse] at hs hn
    simp only at hn
    rcases hs with h | h | ⟨pe, hpe, h⟩
    · exact absurd (Or.inl h) hn
    · exact absurd (Or.inr (Or.inl h)) hn
    · by_cases hlt : pe.2.seq < rpt
      · exact ⟨pe, List.mem_filter.mpr ⟨hpe, by simpa using hlt⟩, h⟩
      · exfalso; apply hn; right; right
        exact ⟨pe, List.mem_filter.mpr ⟨hpe, by simpa using hlt⟩, h⟩
  · intro s hs
    rw [mem_retireProbingEvs] at hs
    obtain ⟨pe, hpe, h⟩ := hs
    rw [mem_inUse]; right; right; exact ⟨pe, (List.mem_filter.mp hpe).1, h⟩
  · intro s hs
    rw [mem_retireProbingEvs] at hs
    obtain ⟨pe, hpe, rfl⟩ := hs
    have hpe' := List.mem_filter.mp hpe
    have hlt : pe.2.seq < rpt := by simpa using hpe'.2
    refine ⟨?_, ?_⟩
    · rw [mem_inUse]
      simp only
      rintro (h | ⟨e, he, h⟩ | ⟨pe2, hpe2, h⟩)
      · exact hi.p_ne_active pe hpe'.1 h
      · have h1 := hi.q_gt_hp e he
        have h2 := hi.p_le_hp pe hpe'.1
        omega
      · have h2 := List.mem_filter.mp hpe2
        have : ¬ pe2.2.seq < rpt := by simpa using h2.2
        omega
    · right; left
      have h1 := hi.p_le_hp pe hpe'.1
      have h2 := hi.p_pos pe hpe'.1
      simp only
      omega
  · rw [retiredIn_retireProbingEvs]
    exact nodup_map_filter _ hi.p_nodup
  · intro s hb; exact hb
  · intro s _ hn
    rw [mem_inUse] at hn ⊢
    simp only
    rintro (h | h | ⟨pe, hpe, h⟩)
    · exact hn (Or.inl h)
    · exact hn (Or.inr (Or.inl h))
    · exact hn (Or.inr (Or.inr ⟨pe, hsub pe hpe, h⟩))

theorem retiredIn_map_retire (l : List Entry) : retiredIn (l.map fun e => Ev.retire e.seq) = l.map (·.seq) := by
  induction l with
  | nil => simp [retiredIn]
  | cons x xs ih => simp only [List.map_cons]; simp only [retiredIn, List.filterMap_cons] at ih ⊢; rw [ih]

theorem rptQueue_micro {m : Manager} (rpt : Nat) (hi : Inv m) :
    MicroSpec m (m.retireQueueBelow rpt).2 (m.retireQueueBelow rpt).1 := by
  unfold Manager.retireQueueBelow
  split
  · rename_i hgt
    simp only
    have hsub : ∀ e, e ∈ m.queue.filter (fun e => decide (e.seq ≥ rpt)) → e ∈ m.queue ∧ rpt ≤ e.seq := by
      intro e h; have := List.mem_filter.mp h; exact ⟨this.1, by simpa using this.2⟩
    have hmem : ∀ s, Ev.retire s ∈ (m.queue.filter fun e => decide (¬ e.seq ≥ rpt)).map (fun e => Ev.retire e.seq)
        ↔ ∃ e ∈ m.queue, e.seq < rpt ∧ e.seq = s := by
      intro s
      simp only [List.mem_map, List.mem_filter, Ev.retire.injEq]
      constructor
      · rintro ⟨e, ⟨he, hlt⟩, h⟩; exact ⟨e, he, by simpa using hlt, h⟩
      · rintro ⟨e, he, hlt, h⟩; exact ⟨e, ⟨he, by simpa using hlt⟩, h⟩
    refine ⟨?_, ?_, ?_, ?_, ?_, ?_, ?_⟩
    · refine ⟨?_, fun e h => hi.q_gt_active e (hsub e h).1, fun e h => hi.q_gt_hp e (hsub e h).1,
        fun e h => (hsub e h).2, hi.p_le_hp, hi.p_pos, hi.p_ne_active, hi.p_nodup, hi.p_keys⟩
      exact List.Pairwise.sublist List.filter_sublist hi.sorted
    · intro s hs hn
      rw [hmem]
      rw [mem_inUse] at hs hn
      simp only at hn
      rcases hs with h | ⟨e, he, h⟩ | h
      · exact absurd (Or.inl h) hn
      · by_cases hlt : e.seq < rpt
        · exact ⟨e, he, hlt, h⟩
        · exfalso; apply hn; right; left
          exact ⟨e, List.mem_filter.mpr ⟨he, by simpa using hlt⟩, h⟩
      · exact absurd (Or.inr (Or.inr h)) hn
    · intro s hs
      rw [hmem] at hs
      obtain ⟨e, he, _, h⟩ := hs
      rw [mem_inUse]; right; left; exact ⟨e, he, h⟩
    · intro s hs
      rw [hmem] at hs
      obtain ⟨e, he, hlt, rfl⟩ := hs
      refine ⟨?_, ?_⟩
      · rw [mem_inUse]
        simp only
        rintro (h | ⟨e2, he2, h⟩ | ⟨pe, hpe, h⟩)
        · have := hi.q_gt_active e he; omega
        · have := (hsub e2 he2).2; omega
        · have h1 := hi.q_gt_hp e he
          have h2 := hi.p_le_hp pe hpe
          omega
      · right; right; exact hlt
    · rw [retiredIn_map_retire]
      exact nodup_map_filter _ (sortedQ_nodup hi.sorted)
    · intro s hb
      unfold Blocked at *
      simp only
      omega
    · intro s _ hn
      rw [mem_inUse] at hn ⊢
      simp only
      rintro (h | ⟨e, he, h⟩ | h)
      · exact hn (Or.inl h)
      · exact hn (Or.inr (Or.inl ⟨e, (hsub e he).1, h⟩))
      · exact hn (Or.inr (Or.inr h))
  · exact MicroSpec.refl hi

/-! ### a new sequence number enters the queue -/

/-- a sequence number that may be queued: above the active one, above every probing one, not retired -/
def Enter (m : Manager) (seq : Nat) : Prop :=
  m.activeSeq < seq ∧ m.highestProbing < seq ∧ m.highestRetired ≤ seq

theorem insert_micro {m : Manager} {e : Entry} {q' : List Entry} (hi : Inv m) (he : Enter m e.seq)
    (hq : addConnectionID m.queue e = .ok q') : MicroSpec m [] { m with queue := q' } := by
  obtain ⟨hs, hsub, hsup, _, _, _⟩ := addConnectionID_ok hi.sorted hq
  obtain ⟨h1, h2, h3⟩ := he
  refine ⟨?_, ?_, ?_, ?_, by simp [retiredIn], fun _ h => h, ?_⟩
  · refine ⟨hs, ?_, ?_, ?_, hi.p_le_hp, hi.p_pos, hi.p_ne_active, hi.p_nodup, hi.p_keys⟩
    · intro x hx; rcases hsub x hx with h | rfl
      · exact hi.q_gt_active x h
      · exact h1
    · intro x hx; rcases hsub x hx with h | rfl
      · exact hi.q_gt_hp x h
      · exact h2
    · intro x hx; rcases hsub x hx with h | rfl
      · exact hi.q_ge_hr x h
      · exact h3
  · intro s hs' hn
    exfalso; apply hn
    rw [mem_inUse] at hs' ⊢
    rcases hs' with h | ⟨x, hx, h⟩ | h
    · left; exact h
    · right; left; exact ⟨x, hsup x hx, h⟩
    · right; right; exact h
  · intro s hs'; simp at hs'
  · intro s hs'; simp at hs'
  · intro s hb hn
    rw [mem_inUse] at hn ⊢
    simp only
    rintro (h | ⟨x, hx, h⟩ | h)
    · exact hn (Or.inl h)
    · rcases hsub x hx with hx' | rfl
      · exact hn (Or.inr (Or.inl ⟨x, hx', h⟩))
      · unfold Blocked at hb; omega
    · exact hn (Or.inr (Or.inr h))

/-! ### path probing -/

theorem lookupPath_none {p : Nat} : ∀ {l : List (Nat × Entry)}, lookupPath p l = none ↔ p ∉ l.map (·.1)
  | [] => by simp [lookupPath]
  | (k, e) :: rest => by
    unfold lookupPath
    by_cases h : k = p
    · simp [h]
    · simp only [h, ↓reduceIte, List.map_cons, List.mem_cons]
      rw [lookupPath_none (l := rest)]
      constructor
      · intro hn hc; rcases hc with hc | hc
        · exact h hc.symm
        · exact hn hc
      · intro hn hc; exact hn (Or.inr hc)

theorem lookupPath_some {p : Nat} {e : Entry} : ∀ {l : List (Nat × Entry)}, lookupPath p l = some e → (p, e) ∈ l
  | [], h => by simp [lookupPath] at h
  | (k, x) :: rest, h => by
    unfold lookupPath at h
    by_cases hk : k = p
    · simp [hk] at h; subst h; subst hk; simp
    · simp [hk] at h; exact List.mem_cons_of_mem _ (lookupPath_some h)

theorem path_micro {m : Manager} {p : Nat} {front : Entry} {rest : List Entry} (hi : Inv m)
    (hq : m.queue = front :: rest) (hl : lookupPath p m.probing = none) :
    MicroSpec m [Ev.addTok front.tok]
      { m with queue := rest, probing := m.probing ++ [(p, front)], highestProbing := front.seq } := by
  have hs := hi.sorted
  rw [hq] at hs
  unfold SortedQ at hs
  rw [List.pairwise_cons] at hs
  have hfa : m.activeSeq < front.seq := hi.q_gt_active front (by rw [hq]; simp)
  have hfh : m.highestProbing < front.seq := hi.q_gt_hp front (by rw [hq]; simp)
  have hfr : m.highestRetired ≤ front.seq := hi.q_ge_hr front (by rw [hq]; simp)
  have hrest : ∀ e ∈ rest, e ∈ m.queue := by intro e he; rw [hq]; simp; right; exact he
  have hsame : ∀ s, s ∈ inUse { m with queue := rest, probing := m.probing ++ [(p, front)], highestProbing := front.seq }
      ↔ s ∈ inUse m := by
    intro s
    simp only [mem_inUse, hq, List.mem_append, List.mem_cons, List.mem_singleton, List.not_mem_nil, or_false]
    constructor
    · rintro (h | ⟨e, he, h⟩ | ⟨pe, hpe | rfl, h⟩)
      · exact Or.inl h
      · exact Or.inr (Or.inl ⟨e, Or.inr he, h⟩)
      · exact Or.inr (Or.inr ⟨pe, hpe, h⟩)
      · exact Or.inr (Or.inl ⟨front, Or.inl rfl, h⟩)
    · rintro (h | ⟨e, rfl | he, h⟩ | ⟨pe, hpe, h⟩)
      · exact Or.inl h
      · exact Or.inr (Or.inr ⟨(p, e), Or.inr rfl, h⟩)
      · exact Or.inr (Or.inl ⟨e, he, h⟩)
      · exact Or.inr (Or.inr ⟨pe, Or.inl hpe, h⟩)
  refine ⟨?_, ?_, ?_, ?_, by simp [retiredIn], ?_, ?_⟩
  · refine ⟨hs.2, fun e he => hi.q_gt_active e (hrest e he), fun e he => hs.1 e he,
      fun e he => hi.q_ge_hr e (hrest e he), ?_, ?_, ?_, ?_, ?_⟩
    · intro pe hpe
      simp only [List.mem_append, List.mem_singleton] at hpe
      rcases hpe with hpe | rfl
      · have := hi.p_le_hp pe hpe; simp only; omega
      · exact Nat.le_refl _
    · intro pe hpe
      simp only [List.mem_append, List.mem_singleton] at hpe
      rcases hpe with hpe | rfl
      · exact hi.p_pos pe hpe
      · simp only; omega
    · intro pe hpe
      simp only [List.mem_append, List.mem_singleton] at hpe
      rcases hpe with hpe | rfl
      · exact hi.p_ne_active pe hpe
      · simp only; omega
    · simp only [pSeqs, List.map_append, List.map_cons, List.map_nil]
      rw [List.nodup_append]
      refine ⟨hi.p_nodup, by simp, ?_⟩
      intro a ha b hb hab
      simp only [List.mem_singleton] at hb
      simp only [List.mem_map] at ha
      obtain ⟨pe, hpe, rfl⟩ := ha
      have := hi.p_le_hp pe hpe
      omega
    · simp only [List.map_append, List.map_cons, List.map_nil]
      rw [List.nodup_append]
      refine ⟨hi.p_keys, by simp, ?_⟩
      intro a ha b hb hab
      simp only [List.mem_singleton] at hb
      subst hb; subst hab
      exact (lookupPath_none.mp hl) ha
  · intro s hs' hn; exact absurd ((hsame s).mpr hs') hn
  · intro s hs'; simp at hs'
  · intro s hs'; simp at hs'
  · intro s hb
    unfold Blocked at *
    simp only
    omega
  · intro s _ hn hc; exact hn ((hsame s).mp hc)

theorem retirePath_micro {m : Manager} {p : Nat} {e : Entry} (hi : Inv m) (hl : lookupPath p m.probing = some e) :
    MicroSpec m [Ev.retire e.seq, Ev.rmTok e.tok] { m with probing := m.probing.filter fun pe => pe.1 ≠ p } := by
  have hmem := lookupPath_some hl
  have hsub : ∀ pe, pe ∈ m.probing.filter (fun pe => decide (pe.1 ≠ p)) → pe ∈ m.probing ∧ pe.1 ≠ p := by
    intro pe h; have := List.mem_filter.mp h; exact ⟨this.1, by simpa using this.2⟩
  have hmemr : ∀ s, Ev.retire s ∈ [Ev.retire e.seq, Ev.rmTok e.tok] ↔ s = e.seq := by intro s; simp
  refine ⟨?_, ?_, ?_, ?_, by simp [retiredIn], fun _ h => h, ?_⟩
  · exact ⟨hi.sorted, hi.q_gt_active, hi.q_gt_hp, hi.q_ge_hr, fun pe h => hi.p_le_hp pe (hsub pe h).1,
      fun pe h => hi.p_pos pe (hsub pe h).1, fun pe h => hi.p_ne_active pe (hsub pe h).1,
      nodup_map_filter _ hi.p_nodup, nodup_map_filter _ hi.p_keys⟩
  · intro s hs hn
    rw [hmemr]
    rw [mem_inUse] at hs hn
    simp only at hn
    rcases hs with h | h | ⟨pe, hpe, h⟩
    · exact absurd (Or.inl h) hn
    · exact absurd (Or.inr (Or.inl h)) hn
    · by_cases hk : pe.1 = p
      · have : pe = (p, e) := nodup_map_inj hi.p_keys pe hpe (p, e) hmem hk
        subst this; exact h.symm
      · exfalso; apply hn; right; right
        exact ⟨pe, List.mem_filter.mpr ⟨hpe, by simpa using hk⟩, h⟩
  · intro s hs; rw [hmemr] at hs; subst hs
    rw [mem_inUse]; right; right; exact ⟨(p, e), hmem, rfl⟩
  · intro s hs; rw [hmemr] at hs; subst hs
    refine ⟨?_, ?_⟩
    · rw [mem_inUse]
      simp only
      rintro (h | ⟨x, hx, h⟩ | ⟨pe, hpe, h⟩)
      · exact hi.p_ne_active _ hmem h
      · have h1 := hi.q_gt_hp x hx
        have h2 := hi.p_le_hp _ hmem
        simp only at h2; omega
      · have h2 := hsub pe hpe
        have : pe = (p, e) := nodup_map_inj (f := fun pe : Nat × Entry => pe.2.seq) hi.p_nodup pe h2.1 (p, e) hmem h
        subst this; exact h2.2 rfl
    · right; left
      have h1 := hi.p_le_hp _ hmem
      have h2 := hi.p_pos _ hmem
      simp only at h1 h2 ⊢
      omega
  · intro s _ hn
    rw [mem_inUse] at hn ⊢
    simp only
    rintro (h | h | ⟨pe, hpe, h⟩)
    · exact hn (Or.inl h)
    · exact hn (Or.inr (Or.inl h))
    · exact hn (Or.inr (Or.inr ⟨pe, (hsub pe hpe).1, h⟩))

end Uquic.Proofs.ConnID
