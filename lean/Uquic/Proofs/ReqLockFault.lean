/-
C19 (round 5): requestWriter.writeHeaders with failing writes — invariant over ALL schedules and faults.
-/
import Uquic.Model.H3.ReqLockFault

set_option linter.unusedSimpArgs false

namespace Uquic.Proofs.ReqLockFault
open Uquic.Model.H3.ReqLock (bufWrite expected)
open Uquic.Model.H3.ReqLockFault

def outOK (x : Writer) : Prop :=
  (x.pc ≤ 2 → x.out = []) ∧ (x.pc = 3 → x.out = [x.block.length]) ∧ (x.pc = 4 ∨ x.pc = 5 → x.out = expected x.block)

def holds (pc : Nat) : Prop := 1 ≤ pc ∧ pc ≤ 4

structure Inv (b : Nat → List Nat) (st : State) : Prop where
  blk : ∀ j, (st.w j).block = b j
  free : st.lock = none → st.len = 0
  holder1 : ∀ j, holds (st.w j).pc → st.lock = some j
  holder2 : ∀ j, st.lock = some j → holds (st.w j).pc
  buf1 : ∀ j, st.lock = some j → (st.w j).pc = 1 → st.len = 0
  buf2 : ∀ j, st.lock = some j → 2 ≤ (st.w j).pc → st.len = (b j).length ∧ st.mem.take st.len = b j
  outs : ∀ j, outOK (st.w j)

theorem inv_init (b : Nat → List Nat) (f : Nat → Nat) : Inv b (init b f) := by
  constructor <;> intros <;> simp_all [init, holds, outOK]

theorem inv_step_pc0 (b : Nat → List Nat) (st : State) (i : Nat) (hpc : (st.w i).pc = 0)
    (h : Inv b st) : Inv b (step .resetAlways st i) := by
  obtain ⟨hblk, hfree, hh1, hh2, hb1, hb2, houts⟩ := h
  have e1 := hh1 i; have e2 := hh2 i; have e3 := hb1 i; have e4 := hb2 i; have e5 := houts i; have e6 := hblk i
  unfold step
  simp only [hpc]
  split
  · refine ⟨fun j => ?_, ?_, fun j => ?_, fun j => ?_, fun j => ?_, fun j => ?_, fun j => ?_⟩
    all_goals (try by_cases hj : j = i)
    all_goals simp_all [setW, bail, holds, outOK, expected, Option.isNone_iff_eq_none]
    all_goals (first | omega | grind)
  · exact ⟨hblk, hfree, hh1, hh2, hb1, hb2, houts⟩
theorem inv_step_pc1 (b : Nat → List Nat) (st : State) (i : Nat) (hpc : (st.w i).pc = 1)
    (h : Inv b st) : Inv b (step .resetAlways st i) := by
  obtain ⟨hblk, hfree, hh1, hh2, hb1, hb2, houts⟩ := h
  have e1 := hh1 i; have e2 := hh2 i; have e3 := hb1 i; have e4 := hb2 i; have e5 := houts i; have e6 := hblk i
  unfold step
  simp only [hpc]
  refine ⟨fun j => ?_, ?_, fun j => ?_, fun j => ?_, fun j => ?_, fun j => ?_, fun j => ?_⟩
  all_goals (try by_cases hj : j = i)
  all_goals simp_all [setW, bail, holds, outOK, expected, bufWrite]
  all_goals (first | omega | grind)
theorem inv_step_pc2 (b : Nat → List Nat) (st : State) (i : Nat) (hpc : (st.w i).pc = 2)
    (h : Inv b st) : Inv b (step .resetAlways st i) := by
  obtain ⟨hblk, hfree, hh1, hh2, hb1, hb2, houts⟩ := h
  have e1 := hh1 i; have e2 := hh2 i; have e3 := hb1 i; have e4 := hb2 i; have e5 := houts i; have e6 := hblk i
  unfold step
  simp only [hpc]
  split
  · refine ⟨fun j => ?_, ?_, fun j => ?_, fun j => ?_, fun j => ?_, fun j => ?_, fun j => ?_⟩
    all_goals (try by_cases hj : j = i)
    all_goals simp_all [setW, bail, holds, outOK, expected]
    all_goals (first | omega | grind)
  · refine ⟨fun j => ?_, ?_, fun j => ?_, fun j => ?_, fun j => ?_, fun j => ?_, fun j => ?_⟩
    all_goals (try by_cases hj : j = i)
    all_goals simp_all [setW, bail, holds, outOK, expected]
    all_goals (first | omega | grind)
theorem inv_step_pc3 (b : Nat → List Nat) (st : State) (i : Nat) (hpc : (st.w i).pc = 3)
    (h : Inv b st) : Inv b (step .resetAlways st i) := by
  obtain ⟨hblk, hfree, hh1, hh2, hb1, hb2, houts⟩ := h
  have e1 := hh1 i; have e2 := hh2 i; have e3 := hb1 i; have e4 := hb2 i; have e5 := houts i; have e6 := hblk i
  unfold step
  simp only [hpc]
  split
  · refine ⟨fun j => ?_, ?_, fun j => ?_, fun j => ?_, fun j => ?_, fun j => ?_, fun j => ?_⟩
    all_goals (try by_cases hj : j = i)
    all_goals simp_all [setW, bail, holds, outOK, expected]
    all_goals (first | omega | grind)
  · refine ⟨fun j => ?_, ?_, fun j => ?_, fun j => ?_, fun j => ?_, fun j => ?_, fun j => ?_⟩
    all_goals (try by_cases hj : j = i)
    all_goals simp_all [setW, bail, holds, outOK, expected]
    all_goals (first | omega | grind)
theorem inv_step_pc4 (b : Nat → List Nat) (st : State) (i : Nat) (hpc : (st.w i).pc = 4)
    (h : Inv b st) : Inv b (step .resetAlways st i) := by
  obtain ⟨hblk, hfree, hh1, hh2, hb1, hb2, houts⟩ := h
  have e1 := hh1 i; have e2 := hh2 i; have e3 := hb1 i; have e4 := hb2 i; have e5 := houts i; have e6 := hblk i
  unfold step
  simp only [hpc]
  refine ⟨fun j => ?_, ?_, fun j => ?_, fun j => ?_, fun j => ?_, fun j => ?_, fun j => ?_⟩
  all_goals (try by_cases hj : j = i)
  all_goals simp_all [setW, bail, holds, outOK, expected]
  all_goals (first | omega | grind)
theorem inv_step (b : Nat → List Nat) (st : State) (i : Nat)
    (h : Inv b st) : Inv b (step .resetAlways st i) := by
  by_cases h0 : (st.w i).pc = 0
  · exact inv_step_pc0 b st i h0 h
  by_cases h1 : (st.w i).pc = 1
  · exact inv_step_pc1 b st i h1 h
  by_cases h2 : (st.w i).pc = 2
  · exact inv_step_pc2 b st i h2 h
  by_cases h3 : (st.w i).pc = 3
  · exact inv_step_pc3 b st i h3 h
  by_cases h4 : (st.w i).pc = 4
  · exact inv_step_pc4 b st i h4 h
  have : step .resetAlways st i = st := by
    unfold step
    simp only []
    all_goals (rcases hp : (st.w i).pc with _ | _ | _ | _ | _ | n <;> first | omega | rfl)
  rw [this]; exact h

theorem inv_run (b : Nat → List Nat) (sched : List Nat) :
    ∀ st, Inv b st → Inv b (run .resetAlways st sched) := by
  induction sched with
  | nil => intro st h; exact h
  | cons i rest ih => intro st h; exact ih _ (inv_step b st i h)

/-- every finished writeHeaders call wrote the length of its own block and then its own block, whichever
    other calls failed at whichever write -/
theorem finished_writes_own_block (blocks : Nat → List Nat) (fails : Nat → Nat)
    (sched : List Nat) (i : Nat) (hdone : ((run .resetAlways (init blocks fails) sched).w i).pc = 5) :
    ((run .resetAlways (init blocks fails) sched).w i).out = expected (blocks i) := by
  have h := inv_run blocks sched _ (inv_init blocks fails)
  have ho := h.outs i
  have hb := h.blk i
  simp only [outOK] at ho
  rw [← hb]; exact ho.2.2 (Or.inr hdone)

end Uquic.Proofs.ReqLockFault
