/-
Helper lemmas for C05, packet-number codec (model: Uquic/Model/Crypto/PN.lean).
-/
import Uquic.Model.Crypto.PN

namespace Uquic.Proofs.PN
open Uquic.Model.PN

/-- the Go bit expression `(expected & ^mask) | truncated` is `expected - expected % win + truncated`
    for a non-negative `expected` and a truncated number that fits the window -/
theorem candidate_eq (k : Nat) (e t : Int) (he : 0 ≤ e) (ht0 : 0 ≤ t) (ht : t < 2 ^ k) :
    candidateBits k e t = e - e % 2 ^ k + t := by
  unfold candidateBits
  obtain ⟨n, rfl⟩ := Int.eq_ofNat_of_zero_le he
  obtain ⟨m, rfl⟩ := Int.eq_ofNat_of_zero_le ht0
  have hm : m < 2 ^ k := by exact_mod_cast ht
  simp only [Int.toNat_natCast, Int.ofNat_eq_natCast]
  rw [Nat.shiftRight_eq_div_pow, Nat.shiftLeft_eq, Nat.mul_comm, ← Nat.two_pow_add_eq_or_of_lt hm]
  have h1 : 2 ^ k * (n / 2 ^ k) = n - n % 2 ^ k := by
    have := Nat.div_add_mod n (2 ^ k); omega
  have h2 : n % 2 ^ k ≤ n := Nat.mod_le _ _
  rw [h1]
  push_cast
  rw [Int.natCast_sub h2]
  push_cast
  rfl

theorem truncate_range (len : Nat) (pn : Int) : 0 ≤ truncatePN len pn ∧ truncatePN len pn < 2 ^ (8 * len) := by
  unfold truncatePN
  have hp : (0 : Int) < 2 ^ (8 * len) := Int.pow_pos (by decide)
  exact ⟨Int.emod_nonneg _ (by omega), Int.emod_lt_of_pos _ hp⟩

/-- core of RFC 9000 A.3: the decoder returns the unique number congruent to the truncated one in the
    window `(expected - hwin, expected + hwin]`, `expected = largest + 1`. -/
theorem decode_window (len : Nat) (hl : 1 ≤ len ∧ len ≤ 4) (pn largest : Int)
    (hpn0 : 0 ≤ pn) (hpn : pn < 2 ^ 62) (hL : -1 ≤ largest)
    (hlo : largest + 1 - 2 ^ (8 * len) / 2 < pn) (hhi : pn ≤ largest + 1 + 2 ^ (8 * len) / 2) :
    decodePN len largest (truncatePN len pn) = pn := by
  have ⟨t0, t1⟩ := truncate_range len pn
  unfold decodePN
  simp only
  rw [candidate_eq (8 * len) (largest + 1) _ (by omega) t0 t1]
  unfold truncatePN at *
  obtain ⟨h1, h4⟩ := hl
  have : len = 1 ∨ len = 2 ∨ len = 3 ∨ len = 4 := by omega
  rcases this with rfl | rfl | rfl | rfl <;> simp only [Nat.reduceMul, Int.reducePow] at * <;>
    (split <;> (try split) <;> omega)

/-- whatever the receiver state, a well-formed truncated number decodes to a packet number in range that is
    congruent to it -/
theorem decode_range (len : Nat) (hl : 1 ≤ len ∧ len ≤ 4) (largest t : Int)
    (hL : -1 ≤ largest) (hL2 : largest + 1 < 2 ^ 62) (ht0 : 0 ≤ t) (ht : t < 2 ^ (8 * len)) :
    0 ≤ decodePN len largest t ∧ decodePN len largest t < 2 ^ 62 ∧ decodePN len largest t % 2 ^ (8 * len) = t := by
  unfold decodePN
  simp only
  rw [candidate_eq (8 * len) (largest + 1) _ (by omega) ht0 ht]
  obtain ⟨h1, h4⟩ := hl
  have : len = 1 ∨ len = 2 ∨ len = 3 ∨ len = 4 := by omega
  rcases this with rfl | rfl | rfl | rfl <;> simp only [Nat.reduceMul, Int.reducePow] at * <;>
    (split <;> (try split) <;> omega)

end Uquic.Proofs.PN
