/-
Glue lemmas for C03: the frame loop of `Conn.handleFrames` around the reassembly handlers.
The loop lemma itself (`frameLoop_eq_spec`) is the one proved for C15 (Proofs/StreamsGlue.lean).
-/
import Uquic.Model.Reassembly.Glue
import Uquic.Proofs.StreamsGlue

set_option linter.unusedSimpArgs false
set_option linter.unusedVariables false

namespace Uquic.Proofs.ReasmGlue
open Uquic.Model.Reassembly
open Uquic.Model.Streams (frameLoop handleFramesG firstErrorSpec branchGuard)

/-- every dispatch branch a glue frame can take carries its skip guard (regenerated fact) -/
theorem all_guarded (f : GFrame) : f.guarded = true := by
  have h := Uquic.Proofs.Streams.branch_guards
  cases f <;> simp only [GFrame.guarded, GFrame.branch] <;>
    first | exact h.1 | exact h.2.1 | exact h.2.2

theorem spec_append_none {σ F E} (h : σ → F → σ × Option E) (pre rest : List F) :
    ∀ s s1, firstErrorSpec h s pre = (s1, none) →
      firstErrorSpec h s (pre ++ rest) = firstErrorSpec h s1 rest := by
  induction pre with
  | nil => intro s s1 hp; simp [firstErrorSpec] at hp; subst hp; rfl
  | cons f fs ih =>
    intro s s1 hp
    simp only [firstErrorSpec, List.cons_append] at hp ⊢
    cases hh : h s f with
    | mk s' e =>
      rw [hh] at hp
      cases e with
      | none => simp only at hp ⊢; exact ih s' s1 hp
      | some x => simp at hp

theorem spec_cons_some {σ F E} (h : σ → F → σ × Option E) (s : σ) (f : F) (rest : List F) (e : E)
    (hf : (h s f).2 = some e) : firstErrorSpec h s (f :: rest) = ((h s f).1, some e) := by
  simp only [firstErrorSpec]
  cases hh : h s f with
  | mk s' e' =>
    rw [hh] at hf
    simp only at hf
    subst hf
    rfl

/-- `FrameOut.complete` never touches the error -/
theorem complete_err (o : FrameOut) (ab : Bool) : (o.complete ab).err = o.err := by
  simp only [FrameOut.complete]
  (repeat' split) <;> rfl

/-- the sorter never answers with a flow-controller error -/
theorem acceptFrame_err (s : RStream) (off : Nat) (data : Bytes) (fin : Bool) (cb : Option Nat) :
    (s.acceptFrame off data fin cb).err ≠ some .finalSize ∧ (s.acceptFrame off data fin cb).err ≠ some .flowControl := by
  simp only [RStream.acceptFrame]
  (repeat' split) <;> simp

/-- the error of `handleStreamFrame` is the flow controller's, if it has one -/
theorem handleStreamFrame_err (s : RStream) (off : Nat) (data : Bytes) (fin : Bool) (cb : Option Nat) (e : StreamErr)
    (he : e = .finalSize ∨ e = .flowControl) :
    (s.handleStreamFrame off data fin cb).err = some e ↔
      (s.fc.updateHighestReceived (off + data.length) fin).2 = some e := by
  simp only [RStream.handleStreamFrame, complete_err]
  cases hu : (s.fc.updateHighestReceived (off + data.length) fin).2 with
  | some e' => simp
  | none =>
    simp only
    have ha := acceptFrame_err { s with fc := (s.fc.updateHighestReceived (off + data.length) fin).1 } off data fin cb
    constructor
    · intro h
      rcases he with rfl | rfl
      · exact absurd h ha.1
      · exact absurd h ha.2
    · intro h; cases h

theorem handleResetStreamFrame_err (s : RStream) (final reliable code : Nat) (e : StreamErr) (hs : s.shutdown = false) :
    (s.handleResetStreamFrame final reliable code).err = some e ↔
      (s.fc.updateHighestReceived final true).2 = some e := by
  simp only [RStream.handleResetStreamFrame, hs, Bool.false_eq_true, if_false, complete_err]
  cases hu : (s.fc.updateHighestReceived final true).2 with
  | some e' => simp
  | none => simp [RStream.acceptReset]

end Uquic.Proofs.ReasmGlue
