/-
C03: `push` when startGap ≠ endGap.
-/
import Uquic.Proofs.SorterPushEq
namespace Uquic.Proofs.Sorter
open Uquic.Model.Reassembly

theorem getD_mid (mid : List Gap) (eg : Gap) (post : List Gap) (sg : Gap) :
    (sg :: (mid ++ eg :: post)).getD (mid.length + 1) sg = eg := by
  simp [List.getD]

theorem pushBody_ne {src : Nat → UInt8} {s : Sorter} (h : Inv src s) (data : Bytes) (start en : Nat) (cb : Option Nat)
    (pre : List Gap) (sg : Gap) (mid : List Gap) (eg : Gap) (post : List Gap) (sIn eIn : Bool)
    (hgaps : s.gaps = pre ++ sg :: (mid ++ eg :: post)) (hse : start < en) (hmax : en < maxByteCount)
    (hsrc : DataOK src data start en)
    (hpre : ∀ g ∈ pre, g.2 < start)
    (hsin : sIn = true → sg.1 ≤ start ∧ start ≤ sg.2) (hsout : sIn = false → start < sg.1)
    (hein : eIn = true → eg.1 ≤ en ∧ en < eg.2)
    (heout : eIn = false → eg.2 ≤ en ∧ ∃ nx, post.head? = some nx ∧ en < nx.1) :
    PushDup s start en (pushBody s data start en cb pre sg (mid ++ eg :: post) (mid.length + 1) sIn eIn) ∨
    PushNew src s start en cb (pushBody s data start en cb pre sg (mid ++ eg :: post) (mid.length + 1) sIn eIn) := by
  have hwf : GapsWF (pre ++ sg :: (mid ++ eg :: post)) := hgaps ▸ h.gwf
  have hwr := hwf.of_append_right
  have hsgmem : sg ∈ s.gaps := by rw [hgaps]; simp
  have hegmem : eg ∈ s.gaps := by rw [hgaps]; simp
  have hsgpos : sg.1 < sg.2 := h.gwf.pos sg hsgmem
  have hegpos : eg.1 < eg.2 := h.gwf.pos eg hegmem
  have hsgrp : s.readPos ≤ sg.1 := h.grp sg hsgmem
  have hsgeg : sg.2 < eg.1 := hwr.head_lt eg (by simp)
  have hegen : eg.1 ≤ en := by
    cases heI : eIn with
    | true => exact (hein heI).1
    | false => have := (heout heI).1; omega
  have hsgen : sg.1 < en := by omega
  simp only [pushBody, getD_mid]
  have hk0 : (mid.length + 1 == 0) = false := by simp
  simp only [hk0, Bool.false_eq_true, false_and, false_or, true_and]
  rw [if_neg (by omega)]
  have F := front_spec h start en pre sg (mid ++ eg :: post) sIn hgaps hse hmax hpre hsin hsout hsgen
  generalize replaceLoop (s.queue.length + 1) s.queue start en false = lp at F ⊢
  split
  · rename_i hdup
    left
    refine ⟨rfl, rfl, rfl, ?_⟩
    rcases F.cases with ⟨_, e, he, hle⟩ | hc | hc | hc | hc | hc
    · intro p hp1 hp2 hg
      exact h.excl hg ⟨(start, e), he, hp1, by simp only [elen]; omega⟩
    all_goals (rw [hdup] at hc; simp at hc)
  rename_i hndup
  right
  have hd1 := loopCut_data lp data start en
  have he1 := loopCut_end lp data start en
  generalize (loopCut lp data start en).1 = d1 at hd1 ⊢
  generalize (loopCut lp data start en).2.1 = en1 at he1 ⊢
  generalize (loopCut lp data start en).2.2 = w1
  have hd2 := frontCut_data sIn lp.replaced sg d1 start w1
  have ha := frontCut_start sIn lp.replaced sg d1 start w1
  generalize (frontCut sIn lp.replaced sg d1 start w1).1 = d2 at hd2 ⊢
  generalize (frontCut sIn lp.replaced sg d1 start w1).2.1 = a at ha ⊢
  generalize (frontCut sIn lp.replaced sg d1 start w1).2.2 = w2
  -- the first gap behind startGap starts at or before endGap
  have hnx_le : ∀ nx, (mid ++ eg :: post).head? = some nx → nx.1 ≤ eg.1 := by
    intro nx hnx
    cases mid with
    | nil => simp only [List.nil_append, List.head?_cons, Option.some.injEq] at hnx; subst hnx; exact Nat.le_refl _
    | cons g gs =>
      simp only [List.cons_append, List.head?_cons, Option.some.injEq] at hnx
      subst hnx
      have h1 := hwr.tail.cross g (by simp) eg (by simp)
      have h2 := hwr.tail.pos g (by simp)
      omega
  obtain ⟨hF, hen1, hsa, hrpa, hba, hp1, hposv, hd2ok, hmpos⟩ :
      ((sg.1 ≤ a ∧ a < sg.2 ∧ lp.replaced = false) ∨ (a = sg.2 ∧ lp.replaced = true) ∨ (a < sg.1 ∧ lp.replaced = true)) ∧
      en1 = en ∧ start ≤ a ∧ s.readPos ≤ a ∧ Boundary s.queue a ∧
      ¬(sIn = false ∧ lp.replaced = false ∧ sg.1 > en1) ∧
      ((lp.pos = start ∧ sg.1 ≤ a ∧ a < sg.2 ∧ (a = start ∨ (start < a ∧ a = sg.1))) ∨
        (start = sg.2 ∧ a = start ∧ lp.pos ≤ eg.1 ∧ sg.2 ≤ lp.pos) ∨
        (lp.pos = sg.1 ∧ a = start ∧ a < sg.1)) ∧
      DataOK src d2 a en1 ∧
      (lp.pos ≤ sg.2 ∨ (start = sg.2 ∧ ∃ nx, (mid ++ eg :: post).head? = some nx ∧ lp.pos = nx.1)) := by
    rcases F.cases with hc | hc | hc | hc | hc | hc
    · exact absurd hc.1 hndup
    · obtain ⟨c1, c2, c3, c4, c5, c6⟩ := hc
      simp only [c1, c2, c6] at he1 ha hd1 hd2
      simp at he1 ha hd1 hd2
      subst he1 ha hd1 hd2
      exact ⟨Or.inl ⟨c4, c5, c2⟩, rfl, Nat.le_refl _, by omega, h.boundary_inGap ⟨sg, hsgmem, c4, c5⟩,
        by simp [c6], Or.inl ⟨c3, c4, c5, Or.inl rfl⟩, hsrc, Or.inl (by omega)⟩
    · obtain ⟨c1, c2, c3, c4, c5, c6, c7, nx, c8, c9⟩ := hc
      exfalso
      have := hnx_le nx c8
      omega
    · obtain ⟨c1, c2, c3, c4, c5, nx, c8, c9⟩ := hc
      simp only [c1, c2, c3] at he1 ha hd1 hd2
      simp at he1 ha hd1 hd2
      subst he1 ha hd1 hd2
      have h1 := hnx_le nx c8
      have h2 : sg.2 < nx.1 := hwr.head_lt nx (by
        cases mid with
        | nil => simp only [List.nil_append, List.head?_cons, Option.some.injEq] at c8; subst c8; simp
        | cons g gs => simp only [List.cons_append, List.head?_cons, Option.some.injEq] at c8; subst c8; simp)
      exact ⟨Or.inr (Or.inl ⟨c4, c2⟩), rfl, Nat.le_refl _, by omega, c4 ▸ h.boundary_gap_end hsgmem,
        by simp [c3], Or.inr (Or.inl ⟨c4, rfl, by omega, by omega⟩), hsrc, Or.inr ⟨c4, nx, c8, c9⟩⟩
    · obtain ⟨c1, c2, c3, c4, c5⟩ := hc
      simp only [c1, c2, c5] at he1 ha hd1 hd2
      simp at he1 ha hd1 hd2
      subst he1 ha hd1 hd2
      exact ⟨Or.inl ⟨Nat.le_refl _, hsgpos, c2⟩, rfl, Nat.le_of_lt c4, hsgrp,
        h.boundary_inGap ⟨sg, hsgmem, Nat.le_refl _, hsgpos⟩, by simp; omega,
        Or.inl ⟨c3, Nat.le_refl _, hsgpos, Or.inr ⟨c4, rfl⟩⟩, hsrc.drop sg.1 (Nat.le_of_lt c4) (Nat.le_of_lt hsgen),
        Or.inl (by omega)⟩
    · obtain ⟨c1, c2, c3, c4, c5, c6, c7⟩ := hc
      simp only [c1, c2, c5] at he1 ha hd1 hd2
      simp at he1 ha hd1 hd2
      subst he1 ha hd1 hd2
      exact ⟨Or.inr (Or.inr ⟨c4, c2⟩), rfl, Nat.le_refl _, c6, c7, by simp [c2],
        Or.inr (Or.inr ⟨c3, rfl, c4⟩), hsrc, Or.inl (by omega)⟩
  subst hen1
  obtain ⟨q2, dmid, hmid, hq2sub, hq2mem, hq2cons⟩ :=
    mid_spec h start pre sg mid eg post lp.q lp.pos hgaps F.sub F.mem hmpos
  rw [if_neg hp1, hmid]
  simp only
  have hd3 := backCut_data eIn eg.2 d2 a en1 w2
  have hb := backCut_end eIn eg.2 d2 a en1 w2
  generalize (backCut eIn eg.2 d2 a en1 w2).1 = d3 at hd3 ⊢
  generalize (backCut eIn eg.2 d2 a en1 w2).2.1 = b at hb ⊢
  generalize (backCut eIn eg.2 d2 a en1 w2).2.2 = w3
  obtain ⟨hlist, hab, hbe, hegb, hasg, hbout, hbin⟩ :=
    shape_ne sg eg post a en1 b lp.replaced eIn hsgpos hegpos hsgeg hF hein (fun hh => (heout hh).1) hb
  have hgs : pre ++ (startGapUpdate sg a en1 lp.replaced).1 ++
      (endGapUpdate false (startGapUpdate sg a en1 lp.replaced).2 b eg.2 sg.2 (eg :: post)).1 ++
      (endGapUpdate false (startGapUpdate sg a en1 lp.replaced).2 b eg.2 sg.2 (eg :: post)).2 =
      pre ++ (remL sg a ++ remR eg b) ++ post := by
    simp only [List.append_assoc] at hlist ⊢
    rw [hlist]
  have hbeg : b ≤ eg.2 := by
    cases heI : eIn with
    | true => have := hbin heI; have := (hein heI).2; omega
    | false => have := hbout heI; omega
  have hwr3 : GapsWF (eg :: post) := hwr.tail.of_append_right
  have hcut : GapsWF (pre ++ (remL sg a ++ remR eg b) ++ post) ∧
      ∀ p, inGap (pre ++ (remL sg a ++ remR eg b) ++ post) p ↔
        (inGap (pre ++ sg :: (mid ++ eg :: post)) p ∧ ¬(a ≤ p ∧ p < b)) :=
    gaps_cut_ne pre mid post sg eg a b hwf (fun g hg => by have := hpre g hg; omega)
      (fun g hg => by have := hwr3.head_lt g hg; omega) hasg hegb
  have hassoc : pre ++ sg :: (mid ++ eg :: post) = (pre ++ sg :: mid) ++ eg :: post := by simp
  have hlast := last_cut pre (remL sg a) post eg b maxByteCount
    (last_split (pre := pre ++ sg :: mid) (hassoc ▸ hgaps ▸ h.glast)) (by omega)
  have hbb : Boundary s.queue b := by
    cases heI : eIn with
    | true =>
      have := hbin heI; subst this
      exact h.boundary_inGap ⟨eg, hegmem, (hein heI).1, (hein heI).2⟩
    | false =>
      rw [hbout heI]; exact h.boundary_gap_end hegmem
  have hq : ∀ x, x ∈ q2 ↔ (x ∈ s.queue ∧ ¬(a ≤ x.1 ∧ x.1 < b)) := by
    intro x
    rw [hq2mem x, F.mem x]
    constructor
    · rintro ⟨⟨hx, hn1⟩, hn2⟩
      refine ⟨hx, ?_⟩
      have hk := h.key_not_inGap hx
      have hk1 : ¬(sg.1 ≤ x.1 ∧ x.1 < sg.2) := fun hc => hk ⟨sg, hsgmem, hc.1, hc.2⟩
      have hk2 : ¬(eg.1 ≤ x.1 ∧ x.1 < eg.2) := fun hc => hk ⟨eg, hegmem, hc.1, hc.2⟩
      rcases hposv with hv | hv | hv <;> omega
    · rintro ⟨hx, hn⟩
      have hk := h.key_not_inGap hx
      have hk1 : ¬(sg.1 ≤ x.1 ∧ x.1 < sg.2) := fun hc => hk ⟨sg, hsgmem, hc.1, hc.2⟩
      have hk2 : ¬(eg.1 ≤ x.1 ∧ x.1 < eg.2) := fun hc => hk ⟨eg, hegmem, hc.1, hc.2⟩
      refine ⟨⟨hx, ?_⟩, ?_⟩ <;> rcases hposv with hv | hv | hv <;> omega
  have hold : ∀ p, start ≤ p → p < en1 → ¬(a ≤ p ∧ p < b) → ¬ inGap s.gaps p := by
    intro p hp1' hp2 hnab
    rw [hgaps]
    rcases Nat.lt_or_ge p a with hpa | hpa
    · have : a = sg.1 := by rcases hposv with hv | hv | hv <;> omega
      exact not_inGap_between hwf hpre hp1' (by omega)
    · have hpb : b ≤ p := by omega
      cases heI : eIn with
      | true => have := hbin heI; omega
      | false =>
        obtain ⟨h1, nx, hnx, hlt⟩ := heout heI
        have := hbout heI
        rw [hassoc]
        exact not_inGap_after (hassoc ▸ hwf) (by omega) (by rw [hnx]; simp; omega)
  have hd3ok : DataOK src d3 a b := by
    rw [hd3, hb]
    split
    · exact hd2ok.take eg.2 (by omega) (by omega)
    · exact hd2ok
  have hcons : ((lp.done ++ dmid) ++ cbsOf q2).Perm (cbsOf s.queue) := by
    rw [List.append_assoc]
    exact (List.Perm.append_left _ hq2cons).trans F.conserve
  rw [if_neg (by omega), hgs]
  exact finish h start en1 a b cb _ q2 d3 w3 (lp.done ++ dmid) hsa hbe hab hrpa hmax hba hbb hq (hq2sub.trans F.sub) hcons
    hcut.1 hlast (hgaps ▸ hcut.2) hold hd3ok
end Uquic.Proofs.Sorter
