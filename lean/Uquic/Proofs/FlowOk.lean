/-
C04: on histories without a fatal error the connection's `highestReceived` is exactly the sum of
the streams' highest offsets.
-/
import Uquic.Proofs.FlowInv

set_option linter.unusedVariables false

namespace Uquic.Proofs.Flow
open Uquic.Model.FlowControl

def HrEq (s : State) : Prop := s.conn.highestReceived = sumBy (·.base.highestReceived) s.streams

theorem HrEq.lift {s : State} (h : HrEq s) {id : Nat} {st st' : Stream} {c' : Base}
    (hs : s.streams[id]? = some st)
    (d : c'.highestReceived - s.conn.highestReceived = st'.base.highestReceived - st.base.highestReceived) :
    HrEq { s with streams := s.streams.set id st', conn := c' } := by
  unfold HrEq at *
  simp only [sumBy_set _ _ _ _ _ hs]; omega

theorem hreq_step {s : State} (op : Op) (hi : Inv s) (h : HrEq s) (hp : Pre s op)
    (hok : Out.isFatal (step s op).2 = false) : HrEq (step s op).1 := by
  cases op with
  | newStream rw maxrw sw =>
    unfold HrEq at *
    simp only [step, stepT, sumBy_append]; simp [Stream.new]; omega
  | rtt v => exact h
  | recv id off fin now =>
    simp only [step, stepT] at hok ⊢
    split
    · exact h
    · rename_i st heq
      simp only [heq] at hok
      have sp := recv_spec st s.conn off fin now (hi.streams st (mem_of_getElem? heq)) hi.conn hp
      refine HrEq.lift h heq (sp.2.2.2 ?_)
      generalize (st.updateHighestReceived s.conn off fin now).2.2.1 = r at hok
      cases r <;> simp [Out.isFatal] at hok ⊢
  | read id n =>
    simp only [step, stepT]
    split
    · exact h
    · rename_i st heq
      have sp := read_spec st s.conn n (hi.streams st (mem_of_getElem? heq)) hi.conn hp.1 (hp.2 st heq)
      simp only [] at sp
      obtain ⟨_, _, _, e1, e2⟩ := sp
      have d : (st.addBytesRead s.conn n).2.1.highestReceived - s.conn.highestReceived = (st.addBytesRead s.conn n).1.base.highestReceived - st.base.highestReceived := by omega
      exact HrEq.lift h heq d
  | abandon id =>
    simp only [step, stepT]
    split
    · exact h
    · rename_i st heq
      have sp := abandon_spec st s.conn (hi.streams st (mem_of_getElem? heq)) hi.conn
      simp only [] at sp
      obtain ⟨_, _, _, e1, e2⟩ := sp
      have d : (st.abandon s.conn).2.highestReceived - s.conn.highestReceived = (st.abandon s.conn).1.base.highestReceived - st.base.highestReceived := by omega
      exact HrEq.lift h heq d
  | sent id n =>
    simp only [step, stepT]
    split
    · exact h
    · rename_i st heq
      have sp := sent_spec st s.conn n (hi.streams st (mem_of_getElem? heq)) hi.conn hp.1 (hp.2 st heq)
      simp only [] at sp
      obtain ⟨_, _, _, e1, e2⟩ := sp
      have d : (st.addBytesSent s.conn n).2.highestReceived - s.conn.highestReceived = (st.addBytesSent s.conn n).1.base.highestReceived - st.base.highestReceived := by omega
      exact HrEq.lift h heq d
  | supd id now allow =>
    simp only [step, stepT]
    split
    · exact h
    · rename_i st heq
      have sp := supd_rel st s.conn now s.rtt (s.allowOf allow)
      simp only [] at sp
      obtain ⟨sp1, sp2, _⟩ := sp
      have hinv : HrEq { s with streams := s.streams.set id (st.getWindowUpdate s.conn now s.rtt (s.allowOf allow)).1,
                                conn := (st.getWindowUpdate s.conn now s.rtt (s.allowOf allow)).2.1 } := by
        refine HrEq.lift h heq ?_
        have := sp2.hr
        rcases sp1 with u | ⟨_, u⟩ | ⟨e, _⟩
        · have := u.hr; omega
        · have := u.hr; omega
        · rw [e]; omega
      split <;> exact hinv
  | cupd now allow =>
    simp only [step, stepT]
    have u := getWindowUpdate_rel s.conn now s.rtt (s.allowOf allow)
    have hinv : HrEq { s with conn := (s.conn.getWindowUpdate now s.rtt (s.allowOf allow)).1 } := by
      unfold HrEq at *; simp only []; rw [u.hr]; exact h
    split <;> exact hinv
  | smax id v =>
    simp only [step, stepT]
    split
    · exact h
    · rename_i st heq
      obtain ⟨u1, u2, u3, u4, u5, u6, u7, u8, _⟩ := updateSendWindow_spec st.base v
      exact HrEq.lift h heq (by simp only []; omega)
  | cmax v =>
    simp only [step, stepT]
    obtain ⟨u1, u2, u3, u4, u5, u6, u7, u8, _⟩ := updateSendWindow_spec s.conn v
    unfold HrEq at *; simp only []; rw [u5]; exact h
  | swin id =>
    simp only [step, stepT]
    split <;> exact h
  | cwin => exact h
  | sblocked id =>
    simp only [step, stepT]
    split
    · exact h
    · rename_i st heq
      obtain ⟨u1, u2, u3, u4, u5, u6, u7, u8⟩ := blocked_spec st.base
      exact HrEq.lift h heq (by simp only [Stream.isNewlyBlocked]; omega)
  | cblocked =>
    simp only [step, stepT]
    obtain ⟨u1, u2, u3, u4, u5, u6, u7, u8⟩ := blocked_spec s.conn
    unfold HrEq at *; simp only []; rw [u4]; exact h
  | reset =>
    simp only [step, stepT]
    split
    · exact h
    · rename_i c heq
      simp only [Conn.reset] at heq
      have := hi.conn.hr0
      split at heq
      · simp at heq
      · simp at heq
        subst heq
        unfold HrEq; simp; omega

theorem ReachOk.hreq {s : State} (h : ReachOk s) : HrEq s := by
  induction h with
  | init rw maxrw cbNil rtt h => simp [HrEq, State.init, Conn.new]
  | step op hr hp hok ih => exact hreq_step op hr.reach.inv ih hp hok

end Uquic.Proofs.Flow
