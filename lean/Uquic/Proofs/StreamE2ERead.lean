/-
C01 ∘ C03: what `Read` of the ReceiveStream model guarantees beyond C03's safety statement (`read_spec`):
on a stream that is neither shut down nor cancelled/reset (`Plain`)
  * `read_live`      — it hands out every byte that is contiguously available (not in a gap of the sorter) up
                       to the buffer size, leaves the gap list and the flags alone, and ends with nil / io.EOF
                       (or "would block" when it returned nothing);
  * `read_eof_at_final` — with the read position at the known final offset it reports io.EOF;
and `read_shutdown` — on a stream closed for shutdown it returns no data.
-/
import Uquic.Proofs.StreamOps

namespace Uquic.Proofs.StreamE2E
open Uquic.Model.Reassembly Uquic.Proofs.Sorter Uquic.Proofs.Stream

/-- neither closed for shutdown, nor cancelled by the reader, nor reset by the peer -/
def Plain (s : RStream) : Prop := s.shutdown = false ∧ s.cancelledLocally = false ∧ s.cancelledRemotely = false

theorem Plain.remoteEff {s : RStream} (h : Plain s) : s.remoteEff = false := by
  simp [RStream.remoteEff, h.2.2]

theorem pop_gaps (s : Sorter) : s.pop.1.gaps = s.gaps := by
  unfold Sorter.pop
  split
  · rfl
  · simp only
    split
    · rfl
    · split <;> rfl

theorem dequeue_flags (s : RStream) :
    s.dequeue.1.sorter.gaps = s.sorter.gaps ∧ s.dequeue.1.shutdown = s.shutdown ∧
    s.dequeue.1.cancelledLocally = s.cancelledLocally ∧ s.dequeue.1.cancelledRemotely = s.cancelledRemotely := by
  have hg := pop_gaps s.sorter
  unfold RStream.dequeue
  rcases hp : s.sorter.pop with ⟨so, res⟩
  rw [hp] at hg
  cases res with
  | panic => exact ⟨hg, rfl, rfl, rfl⟩
  | ok offset data cb => exact ⟨hg, rfl, rfl, rfl⟩

theorem dequeue_plain {s : RStream} (h : Plain s) : Plain s.dequeue.1 := by
  obtain ⟨_, f1, f2, f3⟩ := dequeue_flags s
  exact ⟨f1 ▸ h.1, f2 ▸ h.2.1, f3 ▸ h.2.2⟩

theorem afterCopy_flags (s : RStream) (m : Nat) :
    (s.afterCopy m).shutdown = s.shutdown ∧ (s.afterCopy m).cancelledLocally = s.cancelledLocally ∧
    (s.afterCopy m).cancelledRemotely = s.cancelledRemotely := by
  unfold RStream.afterCopy
  simp only
  split <;> (split <;> simp)

theorem isNewlyCompleted_flags (s : RStream) :
    s.isNewlyCompleted.1.shutdown = s.shutdown ∧ s.isNewlyCompleted.1.cancelledLocally = s.cancelledLocally ∧
    s.isNewlyCompleted.1.cancelledRemotely = s.cancelledRemotely := by
  unfold RStream.isNewlyCompleted
  (repeat' split) <;> simp

/-- something was received at the sorter's read position: `Pop` hands it out -/
theorem dequeue_avail {src : Nat → UInt8} {s : RStream} (h : SInv src s)
    (hd : s.cur.isNone || decide (s.rpif ≥ s.curLen) = true)
    (hrp : s.readPos < maxByteCount) (hg : ¬ inGap s.sorter.gaps s.readPos) : s.dequeue.1.cur ≠ none := by
  have hcu := h.caught_up hd
  rw [hcu] at hrp hg
  unfold RStream.dequeue
  rcases pop_spec h.sorter with ⟨hq, hp⟩ | ⟨e, _, hp, _⟩
  · exfalso
    obtain ⟨x, hx, h1, h2⟩ := h.sorter.cov (Nat.le_refl _) hrp hg
    have hk : x.1 = s.sorter.readPos := by have := h.sorter.erp x hx; omega
    obtain ⟨k, e⟩ := x
    simp only at hk; subst hk
    exact (qget_none_iff.mp hq) e hx
  · rw [hp]; simp

/-- nothing is at the sorter's read position: the stream learns whether it has reached the final offset -/
theorem dequeue_none {src : Nat → UInt8} {s : RStream} (h : SInv src s) (hn : s.dequeue.1.cur = none) :
    s.dequeue.1.curIsLast = (decide (s.sorter.readPos ≥ s.finalOffset) && !s.cancelledRemotely) := by
  unfold RStream.dequeue at hn ⊢
  rcases pop_spec h.sorter with ⟨_, hp⟩ | ⟨e, _, hp, _⟩
  · rw [hp]; simp
  · rw [hp] at hn; simp at hn

/-- once the current frame is the last one and is used up, nothing more was received -/
theorem last_no_more {src : Nat → UInt8} {s : RStream} (h : SInv src s) (hl : s.curIsLast = true)
    (hcu : s.readPos = s.sorter.readPos) (hrp : s.readPos < maxByteCount) (hg : ¬ inGap s.sorter.gaps s.readPos) : False := by
  have h1 := h.last hl
  have h2 := h.high_rp
  have h3 := h.hmax
  have hne : s.finalOffset ≠ maxByteCount := by omega
  have hf := h.final hne
  have := h.high s.readPos ⟨by omega, hrp, hg⟩
  omega

theorem copyChunk_flags (a : ReadAcc) (n : Nat) :
    (a.copyChunk n).s.sorter.gaps = a.s.sorter.gaps ∧ (a.copyChunk n).s.shutdown = a.s.shutdown ∧
    (a.copyChunk n).s.cancelledLocally = a.s.cancelledLocally ∧ (a.copyChunk n).s.cancelledRemotely = a.s.cancelledRemotely ∧
    a.out.length ≤ (a.copyChunk n).out.length := by
  obtain ⟨f1, f2, f3⟩ := afterCopy_flags a.s (min (n - a.out.length) ((a.s.cur.getD []).length - a.s.rpif))
  have f0 := (afterCopy_fields a.s (min (n - a.out.length) ((a.s.cur.getD []).length - a.s.rpif))).1
  refine ⟨?_, f1, f2, f3, ?_⟩
  · show (a.s.afterCopy _).sorter.gaps = _
    rw [f0]
  · simp [ReadAcc.copyChunk]

/-- result of the read loop on a plain stream -/
structure LiveRes (a : ReadAcc) (n c : Nat) (r : ReadAcc × RStatus) : Prop where
  plain : Plain r.1.s
  gaps : r.1.s.sorter.gaps = a.s.sorter.gaps
  prog : n ≤ r.1.out.length ∨ c ≤ r.1.s.readPos
  status : r.2 = .ok ∨ r.2 = .eof ∨ (r.2 = .deadline ∧ r.1.out.length = 0)

theorem readLoop_live {src : Nat → UInt8} (fuel : Nat) (a : ReadAcc) (n r0 c : Nat)
    (hinv : SInv src a.s) (hpl : Plain a.s) (hout : a.out = srcSeg src r0 a.out.length)
    (hrp : a.s.readPos = r0 + a.out.length) (hlen : a.out.length ≤ n) (hfuel : n - a.out.length < fuel)
    (hc : ∀ p, a.s.readPos ≤ p → p < c → p < maxByteCount ∧ ¬ inGap a.s.sorter.gaps p) :
    LiveRes a n c (readLoop fuel a n) := by
  induction fuel generalizing a with
  | zero => omega
  | succ f ih =>
    rw [readLoop]
    split
    · rename_i hlt
      obtain ⟨d1, d2, d3, d4, d5, d6⟩ := deqIfNeeded_spec hinv
      -- flags, gaps and availability after the (possible) dequeue
      have hfl : a.deqIfNeeded.1.s.sorter.gaps = a.s.sorter.gaps ∧ Plain a.deqIfNeeded.1.s ∧
          (a.deqIfNeeded.1.s.cur = none → c ≤ a.s.readPos) ∧
          (a.deqIfNeeded.1.s.cur = none → a.deqIfNeeded.1.s.curIsLast = true → a.s.readPos = a.s.sorter.readPos) := by
        unfold ReadAcc.deqIfNeeded
        split
        · rename_i hnd
          have hnd' : (a.s.cur.isNone || decide (a.s.rpif ≥ a.s.curLen) = true) := by simpa using hnd
          refine ⟨(dequeue_flags a.s).1, dequeue_plain hpl, fun hn => ?_, fun _ _ => hinv.caught_up hnd'⟩
          rcases Nat.lt_or_ge a.s.readPos c with hlt' | hge
          · obtain ⟨h1, h2⟩ := hc a.s.readPos (Nat.le_refl _) hlt'
            exact absurd hn (dequeue_avail hinv hnd' h1 h2)
          · exact hge
        · rename_i hnd
          refine ⟨rfl, hpl, fun hn => ?_, fun hn => ?_⟩ <;>
          · simp only at hn
            simp [hn] at hnd
      obtain ⟨g1, g2, g3, g4⟩ := hfl
      generalize a.deqIfNeeded.1 = a1 at d2 d3 d4 d5 d6 g1 g2 g3 g4 ⊢
      rw [d1]
      simp only [Bool.false_eq_true, if_false]
      have hout1 : a1.out = srcSeg src r0 a1.out.length := by rw [d3]; exact hout
      have hrp1 : a1.s.readPos = r0 + a1.out.length := by rw [d4, d3]; exact hrp
      have hlen1 : a1.out.length ≤ n := by rw [d3]; exact hlen
      split
      · -- nothing more at the read position, but something was read already
        rename_i hb
        simp only [Bool.and_eq_true, Option.isNone_iff_eq_none, decide_eq_true_eq] at hb
        refine ⟨g2, g1, Or.inr (by rw [d4]; exact g3 hb.1), ?_⟩
        rw [g2.1]; simp
      split
      · rename_i hsd; rw [g2.1] at hsd; cases hsd
      split
      · rename_i hcn
        rw [g2.2.1, g2.remoteEff] at hcn; simp at hcn
      split
      · -- would block
        rename_i hb1 _ _ hblk
        have hnone : a1.s.cur = none := by
          cases hcur : a1.s.cur with
          | none => rfl
          | some c => simp [hcur] at hblk
        have hd := dequeue_spec d2 (by simp [hnone])
        rw [hd.1]
        simp only [Bool.false_eq_true, if_false]
        have hz : a1.out.length = 0 := by
          simp only [Bool.and_eq_true, Option.isNone_iff_eq_none, decide_eq_true_eq, not_and, hnone, true_implies] at hb1
          omega
        refine ⟨dequeue_plain g2, by simp only; rw [(dequeue_flags a1.s).1, g1],
          Or.inr (by simp only; rw [hd.2.2.1, d4]; exact g3 hnone), Or.inr (Or.inr ⟨rfl, hz⟩)⟩
      · rename_i _ _ _ hnb
        obtain ⟨c1, c2, c3, c4, c5, c6, c7, c8⟩ := copyChunk_spec n r0 d2 hout1 hrp1 d6 (by rw [d3]; exact hlt)
        obtain ⟨k1, k2, k3, k4, k5⟩ := copyChunk_flags a1 n
        have hpl3 : Plain (a1.copyChunk n).s := ⟨k2 ▸ g2.1, k3 ▸ g2.2.1, k4 ▸ g2.2.2⟩
        have hge3 : a.s.readPos ≤ (a1.copyChunk n).s.readPos := by rw [c3, ← d4, hrp1]; omega
        split
        · -- the last frame was read to its end: EOF
          rename_i heof
          simp only [Bool.and_eq_true, decide_eq_true_eq] at heof
          refine ⟨hpl3, by simp only; rw [k1, g1], Or.inr ?_, Or.inr (Or.inl rfl)⟩
          simp only
          have hcu := c1.caught_up (by
            cases hcur : (a1.copyChunk n).s.cur with
            | none => simp
            | some c => simp [RStream.curLen, hcur] at heof ⊢; exact heof.1)
          rcases Nat.lt_or_ge (a1.copyChunk n).s.readPos c with hlt' | hge
          · exfalso
            obtain ⟨h1, h2⟩ := hc _ hge3 hlt'
            rw [← g1, ← k1] at h2
            exact last_no_more c1 heof.2 hcu h1 h2
          · exact hge
        · rename_i hne
          -- the current frame is not `none` (otherwise the loop would have ended with EOF)
          have hcur : a1.s.cur ≠ none := by
            intro hcn
            apply hne
            have hl : a1.s.curIsLast = true := by
              cases hcl : a1.s.curIsLast with
              | true => rfl
              | false => simp [hcn, hcl] at hnb
            simp [RStream.curLen, c5, c6, hcn, hl]
          have hgt := c7 hcur
          have r := ih (a1.copyChunk n) c1 hpl3 c2 c3 c8 (by omega)
            (fun p hp1 hp2 => by
              have := hc p (by omega) hp2
              rw [k1, g1]; exact this)
          exact ⟨r.plain, by rw [r.gaps, k1, g1], r.prog, r.status⟩
    · rename_i hge
      rw [hpl.remoteEff]
      simp only [Bool.false_eq_true, if_false]
      exact ⟨hpl, rfl, Or.inl (by simp only; omega), Or.inl rfl⟩

theorem plain_completed {s : RStream} (h : Plain s) : Plain s.isNewlyCompleted.1 := by
  obtain ⟨f1, f2, f3⟩ := isNewlyCompleted_flags s
  exact ⟨f1 ▸ h.1, f2 ▸ h.2.1, f3 ▸ h.2.2⟩

/-- **Read on a plain stream**: every byte contiguously available from the read position (below `c`) is handed
out, up to the buffer size; the sorter's gap list and the flags are untouched; the call ends with nil, io.EOF,
or — only when it returned nothing — "would block". -/
theorem read_live {src : Nat → UInt8} {s : RStream} (h : SInv src s) (hpl : Plain s) (n c : Nat)
    (hc : ∀ p, s.readPos ≤ p → p < c → p < maxByteCount ∧ ¬ inGap s.sorter.gaps p) :
    Plain (s.read n).s ∧ (s.read n).s.sorter.gaps = s.sorter.gaps ∧
    (n ≤ (s.read n).data.length ∨ c ≤ (s.read n).s.readPos) ∧
    ((s.read n).status = .ok ∨ (s.read n).status = .eof ∨
      ((s.read n).status = .deadline ∧ (s.read n).data.length = 0)) := by
  unfold RStream.read
  simp only
  split
  · rename_i heof
    simp only [Bool.and_eq_true, Option.isNone_iff_eq_none] at heof
    have hpl' : Plain { s with errorRead := true } := hpl
    refine ⟨plain_completed hpl', by rw [(isNewlyCompleted_fields _).1], Or.inr ?_, Or.inr (Or.inl rfl)⟩
    rw [(isNewlyCompleted_fields _).2.2.2.1]
    simp only
    rcases Nat.lt_or_ge s.readPos c with hlt | hge
    · exfalso
      obtain ⟨h1, h2⟩ := hc _ (Nat.le_refl _) hlt
      exact last_no_more h heof.1 (h.cur_none heof.2) h1 h2
    · exact hge
  split
  · rename_i hcn
    rw [hpl.2.1, hpl.remoteEff] at hcn; simp at hcn
  split
  · rename_i hsd; rw [hpl.1] at hsd; cases hsd
  · have L := readLoop_live (src := src) (n + 1) { s := s } n s.readPos c h hpl (by simp [srcSeg_zero]) (by simp)
      (by simp) (by simp) hc
    refine ⟨plain_completed L.plain, ?_, ?_, L.status⟩
    · rw [(isNewlyCompleted_fields _).1]; exact L.gaps
    · rw [(isNewlyCompleted_fields _).2.2.2.1]; exact L.prog

/-- **EOF is reached**: on a plain stream whose read position is the known final offset, `Read` with a
non-empty buffer reports io.EOF. -/
theorem read_eof_at_final {src : Nat → UInt8} {s : RStream} (h : SInv src s) (hpl : Plain s)
    (hf : s.finalOffset ≠ maxByteCount) (hrp : s.readPos = s.finalOffset) (n : Nat) (hn : 0 < n) :
    (s.read n).status = .eof := by
  -- in such a state nothing is left of a current frame
  have noCur : ∀ {x : RStream}, SInv src x → x.finalOffset = s.finalOffset → x.readPos = s.readPos →
      ∀ c, x.cur = some c → c.length ≤ x.rpif := by
    intro x hx h1 h2 c hcur
    obtain ⟨c1, c2, c3, c4⟩ := hx.cur_some c hcur
    have := hx.high_rp
    have := (hx.final (by rw [h1]; exact hf)).2
    omega
  unfold RStream.read
  simp only
  split
  · rfl
  split
  · rename_i hcn
    rw [hpl.2.1, hpl.remoteEff] at hcn; simp at hcn
  split
  · rename_i hsd; rw [hpl.1] at hsd; cases hsd
  show (readLoop (n + 1) { s := s } n).2 = .eof
  rw [readLoop]
  have hlt0 : ({ s := s } : ReadAcc).out.length < n := hn
  rw [if_pos hlt0]
  obtain ⟨d1, d2, d3, d4, d5, d6⟩ := deqIfNeeded_spec (a := { s := s }) h
  have hnd : (s.cur.isNone || decide (s.rpif ≥ s.curLen) = true) := by
    cases hcur : s.cur with
    | none => simp
    | some c => have := noCur h rfl rfl c hcur; simp [RStream.curLen, hcur]; exact this
  have hfl : ({ s := s } : ReadAcc).deqIfNeeded.1.s.cur = none ∧ ({ s := s } : ReadAcc).deqIfNeeded.1.s.curIsLast = true ∧
      Plain ({ s := s } : ReadAcc).deqIfNeeded.1.s := by
    have hd := dequeue_spec h hnd
    have hcn : s.dequeue.1.cur = none := by
      cases hcur : s.dequeue.1.cur with
      | none => rfl
      | some c =>
        have h1 := noCur hd.2.1 hd.2.2.2.2.2.1 hd.2.2.1 c hcur
        have h2 := hd.2.2.2.2.2.2.2.2.2.2.2.2.2 c hcur
        have h3 := hd.2.2.2.1
        omega
    unfold ReadAcc.deqIfNeeded
    split
    · refine ⟨hcn, ?_, dequeue_plain hpl⟩
      simp only
      rw [dequeue_none h hcn, hpl.2.2, ← h.caught_up hnd, hrp]
      simp
    · rename_i hnn
      exact absurd (by simpa using hnd) hnn
  obtain ⟨g1, g2, g3⟩ := hfl
  have hout0 : ({ s := s } : ReadAcc).deqIfNeeded.1.out = [] := d3
  have hrp0 : ({ s := s } : ReadAcc).deqIfNeeded.1.s.readPos = s.readPos := d4
  generalize ({ s := s } : ReadAcc).deqIfNeeded.1 = a1 at d2 d6 g1 g2 g3 hout0 hrp0 ⊢
  rw [d1]
  simp only [Bool.false_eq_true, if_false]
  split
  · rename_i hb; simp [hout0] at hb
  split
  · rename_i hsd; rw [g3.1] at hsd; cases hsd
  split
  · rename_i hcn
    rw [g3.2.1, g3.remoteEff] at hcn; simp at hcn
  split
  · rename_i hblk; simp [g2] at hblk
  · obtain ⟨c1, c2, c3, c4, c5, c6, c7, c8⟩ := copyChunk_spec (src := src) n s.readPos d2
      (by rw [hout0]; simp [srcSeg_zero]) (by rw [hout0, hrp0]; simp) d6 (by rw [hout0]; exact hn)
    split
    · rfl
    · rename_i hne
      exfalso
      apply hne
      simp [RStream.curLen, c5, c6, g1, g2]

/-- **Read after the connection was closed**: a stream closed for shutdown returns no data; io.EOF is still
reported if (and only if) it had been reached before. -/
theorem read_shutdown (s : RStream) (n : Nat) (hs : s.shutdown = true) :
    (s.read n).data = [] ∧ (s.read n).s.shutdown = true ∧ (s.read n).s.readPos = s.readPos ∧
    (s.read n).s.cur = s.cur ∧ (s.read n).s.curIsLast = s.curIsLast ∧
    ((s.read n).status = .eof → s.curIsLast = true ∧ s.cur = none) := by
  unfold RStream.read
  simp only
  split
  · rename_i heof
    simp only [Bool.and_eq_true, Option.isNone_iff_eq_none] at heof
    exact ⟨rfl, by rw [(isNewlyCompleted_flags _).1]; exact hs, by rw [(isNewlyCompleted_fields _).2.2.2.1],
      by rw [(isNewlyCompleted_fields _).2.1], by rw [(isNewlyCompleted_fields _).2.2.2.2.2.2], fun _ => heof⟩
  split
  · exact ⟨rfl, by rw [(isNewlyCompleted_flags _).1]; exact hs, by rw [(isNewlyCompleted_fields _).2.2.2.1],
      by rw [(isNewlyCompleted_fields _).2.1], by rw [(isNewlyCompleted_fields _).2.2.2.2.2.2], fun hc => by cases hc⟩
  · exact ⟨rfl, by rw [(isNewlyCompleted_flags _).1]; exact hs, by rw [(isNewlyCompleted_fields _).2.2.2.1],
      by rw [(isNewlyCompleted_fields _).2.1], by rw [(isNewlyCompleted_fields _).2.2.2.2.2.2], fun hc => by cases hc⟩

end Uquic.Proofs.StreamE2E
