import Uquic.Proofs.WireMoreTP3

/-! Transport parameters, round trip: the chain of segments for both perspectives. -/

set_option linter.unusedSimpArgs false
set_option linter.unusedVariables false

namespace Uquic.Proofs.WireMore
open Uquic.Proofs.Wire
open Uquic.Model.Wire Uquic.Model.Wire.Varint Uquic.Model.Wire.TP Uquic.Model.Wire.TP.RT

/-- the loop state after `unmarshal` has read what `Marshal(server)` wrote -/
def stServer (p : Params) (g : Nat) : LoopSt :=
  (upd (upd (upd (upd (upd (upd (upd (upd (upd (upd (upd (upd (upd (upd (upd (upd (upd (upd (upd (upd (upd { p := p0 }
      [g]
      (fun q => q) false false)
      [idBidiLocal]
      (fun q => { q with initialMaxStreamDataBidiLocal := p.initialMaxStreamDataBidiLocal }) false false)
      [idBidiRemote]
      (fun q => { q with initialMaxStreamDataBidiRemote := p.initialMaxStreamDataBidiRemote }) false false)
      [idUni]
      (fun q => { q with initialMaxStreamDataUni := p.initialMaxStreamDataUni }) false false)
      [idInitialMaxData]
      (fun q => { q with initialMaxData := p.initialMaxData }) false false)
      [idStreamsBidi]
      (fun q => { q with maxBidiStreamNum := p.maxBidiStreamNum }) false false)
      [idStreamsUni]
      (fun q => { q with maxUniStreamNum := p.maxUniStreamNum }) false false)
      [idMaxIdleTimeout]
      (fun q => { q with maxIdleTimeout := max minRemoteIdleTimeout (p.maxIdleTimeout / millisecond * millisecond) }) false false)
      (if p.maxUDPPayloadSize > 0 then [idMaxUDPPayloadSize] else [])
      (fun q => { q with maxUDPPayloadSize := if p.maxUDPPayloadSize > 0 then p.maxUDPPayloadSize else q.maxUDPPayloadSize }) false false)
      (if p.maxAckDelay ≠ defaultMaxAckDelay then [idMaxAckDelay] else [])
      (fun q => { q with maxAckDelay := if p.maxAckDelay ≠ defaultMaxAckDelay then p.maxAckDelay / millisecond * millisecond else q.maxAckDelay }) false false)
      (if p.ackDelayExponent ≠ TP.defaultAckDelayExponent then [idAckDelayExponent] else [])
      (fun q => { q with ackDelayExponent := if p.ackDelayExponent ≠ TP.defaultAckDelayExponent then p.ackDelayExponent else q.ackDelayExponent }) false false)
      (if p.disableActiveMigration then [idDisableActiveMigration] else [])
      (fun q => { q with disableActiveMigration := p.disableActiveMigration || q.disableActiveMigration }) false false)
      (if p.srt.isSome then [idSRT] else [])
      (fun q => { q with srt := match p.srt with | some t => some t | none => q.srt }) false false)
      [idODCID]
      (fun q => { q with odcid := p.odcid }) true false)
      (if p.preferredAddress.isSome then [idPreferredAddress] else [])
      (fun q => { q with preferredAddress := match p.preferredAddress with | some pa => some (normPA pa) | none => q.preferredAddress }) false false)
      (if p.activeConnectionIDLimit ≠ defaultActiveConnectionIDLimit then [idActiveConnectionIDLimit] else [])
      (fun q => { q with activeConnectionIDLimit := if p.activeConnectionIDLimit ≠ defaultActiveConnectionIDLimit then p.activeConnectionIDLimit else q.activeConnectionIDLimit }) false false)
      [idISCID]
      (fun q => { q with iscid := p.iscid }) false true)
      (if p.rscid.isSome then [idRSCID] else [])
      (fun q => { q with rscid := match p.rscid with | some c => some c | none => q.rscid }) false false)
      (if p.maxDatagramFrameSize.isSome then [idMaxDatagramFrameSize] else [])
      (fun q => { q with maxDatagramFrameSize := match p.maxDatagramFrameSize with | some v => some v | none => q.maxDatagramFrameSize }) false false)
      (if p.enableResetStreamAt then [idResetStreamAt] else [])
      (fun q => { q with enableResetStreamAt := p.enableResetStreamAt || q.enableResetStreamAt }) false false)
      (if p.minAckDelay.isSome then [idMinAckDelay] else [])
      (fun q => { q with minAckDelay := match p.minAckDelay with | some m => some (m / microsecond * microsecond) | none => q.minAckDelay }) false false)

theorem loopServer (p : Params) (g : Nat) (gv : Bytes) (hk : isKnownID g = false) (ht : Typed p) (hv : Valid p perspectiveServer)
    (hfit : itemsFit ([Item.v g, .v gv.length, .raw gv] ++ marshalItems p perspectiveServer) = true) :
    L perspectiveServer (itemsBytes ([Item.v g, .v gv.length, .raw gv] ++ marshalItems p perspectiveServer)) { p := p0 } = .ok (stServer p g) := by
  rw [← List.append_nil (itemsBytes _)]
  unfold marshalItems at hfit ⊢
  simp only [if_pos (rfl : perspectiveServer = perspectiveServer), itemsFit_append, Bool.and_eq_true, itemsFit_nil, if_true] at hfit
  obtain ⟨hg, ⟨⟨⟨⟨⟨⟨⟨⟨⟨⟨⟨⟨⟨⟨⟨⟨⟨h1, h2⟩, h3⟩, h4⟩, h5⟩, h6⟩, h7⟩, h8⟩, h9⟩, h10⟩, h11⟩, ⟨⟨h12a, h12b⟩, h12c⟩⟩, h13⟩, h14⟩, h15⟩, h16⟩, h17⟩, h18⟩⟩ := hfit
  simp only [if_pos (rfl : perspectiveServer = perspectiveServer), itemsBytes_append, itemsBytes_nil, List.append_assoc, List.nil_append, if_true]
  refine (S_grease perspectiveServer g gv _ _ hk hg).trans ?_
  refine (S_num perspectiveServer idBidiLocal p.initialMaxStreamDataBidiLocal _ _ (fun q => { q with initialMaxStreamDataBidiLocal := p.initialMaxStreamDataBidiLocal }) (by decide) h1 (fun rest q => rn_bidiLocal _ rest (itemsFit_varintParam _ _ h1).2 q)).trans ?_
  refine (S_num perspectiveServer idBidiRemote p.initialMaxStreamDataBidiRemote _ _ (fun q => { q with initialMaxStreamDataBidiRemote := p.initialMaxStreamDataBidiRemote }) (by decide) h2 (fun rest q => rn_bidiRemote _ rest (itemsFit_varintParam _ _ h2).2 q)).trans ?_
  refine (S_num perspectiveServer idUni p.initialMaxStreamDataUni _ _ (fun q => { q with initialMaxStreamDataUni := p.initialMaxStreamDataUni }) (by decide) h3 (fun rest q => rn_uni _ rest (itemsFit_varintParam _ _ h3).2 q)).trans ?_
  refine (S_num perspectiveServer idInitialMaxData p.initialMaxData _ _ (fun q => { q with initialMaxData := p.initialMaxData }) (by decide) h4 (fun rest q => rn_maxData _ rest (itemsFit_varintParam _ _ h4).2 q)).trans ?_
  refine (S_num perspectiveServer idStreamsBidi p.maxBidiStreamNum _ _ (fun q => { q with maxBidiStreamNum := p.maxBidiStreamNum }) (by decide) h5 (fun rest q => rn_streamsBidi _ rest (itemsFit_varintParam _ _ h5).2 (by have := hv.bidi; omega) q)).trans ?_
  refine (S_num perspectiveServer idStreamsUni p.maxUniStreamNum _ _ (fun q => { q with maxUniStreamNum := p.maxUniStreamNum }) (by decide) h6 (fun rest q => rn_streamsUni _ rest (itemsFit_varintParam _ _ h6).2 (by have := hv.uni; omega) q)).trans ?_
  refine (S_num perspectiveServer idMaxIdleTimeout (p.maxIdleTimeout / millisecond) _ _ (fun q => { q with maxIdleTimeout := max minRemoteIdleTimeout (p.maxIdleTimeout / millisecond * millisecond) }) (by decide) h7 (fun rest q => rn_idle _ rest (itemsFit_varintParam _ _ h7).2 (by have := ht.idle; have := Nat.div_mul_le_self p.maxIdleTimeout millisecond; omega) q)).trans ?_
  refine (S_numIf perspectiveServer idMaxUDPPayloadSize p.maxUDPPayloadSize (p.maxUDPPayloadSize > 0) _ _ (fun q => { q with maxUDPPayloadSize := if p.maxUDPPayloadSize > 0 then p.maxUDPPayloadSize else q.maxUDPPayloadSize }) (by decide) h8 (fun hc rest q => by rw [rn_udp _ rest (by simp only [if_pos hc] at h8; exact (itemsFit_varintParam _ _ h8).2) (by have := hv.udp; omega) q, if_pos hc]) (fun hc q => by show Params.mk .. = _; rw [if_neg hc])).trans ?_
  refine (S_numIf perspectiveServer idMaxAckDelay (p.maxAckDelay / millisecond) (p.maxAckDelay ≠ defaultMaxAckDelay) _ _ (fun q => { q with maxAckDelay := if p.maxAckDelay ≠ defaultMaxAckDelay then p.maxAckDelay / millisecond * millisecond else q.maxAckDelay }) (by decide) h9 (fun hc rest q => by rw [rn_ackDelay _ rest (by simp only [if_pos hc] at h9; exact (itemsFit_varintParam _ _ h9).2) (by have := hv.ackDelay; omega) q, if_pos hc]) (fun hc q => by show Params.mk .. = _; rw [if_neg hc])).trans ?_
  refine (S_numIf perspectiveServer idAckDelayExponent p.ackDelayExponent (p.ackDelayExponent ≠ TP.defaultAckDelayExponent) _ _ (fun q => { q with ackDelayExponent := if p.ackDelayExponent ≠ TP.defaultAckDelayExponent then p.ackDelayExponent else q.ackDelayExponent }) (by decide) h10 (fun hc rest q => by rw [rn_exponent _ rest (by simp only [if_pos hc] at h10; exact (itemsFit_varintParam _ _ h10).2) (by have := hv.exponent; omega) q, if_pos hc]) (fun hc q => by show Params.mk .. = _; rw [if_neg hc])).trans ?_
  refine (S_dam perspectiveServer p.disableActiveMigration _ _).trans ?_
  refine (S_srt perspectiveServer p.srt _ _ (by decide) ht.srt).trans ?_
  refine (S_odcid perspectiveServer p.odcid _ _ (by decide) ht.odcid).trans ?_
  refine (S_pa perspectiveServer p.preferredAddress _ _ (by decide) ht.pa (hv.paCID rfl)).trans ?_
  refine (S_numIf perspectiveServer idActiveConnectionIDLimit p.activeConnectionIDLimit (p.activeConnectionIDLimit ≠ defaultActiveConnectionIDLimit) _ _ (fun q => { q with activeConnectionIDLimit := if p.activeConnectionIDLimit ≠ defaultActiveConnectionIDLimit then p.activeConnectionIDLimit else q.activeConnectionIDLimit }) (by decide) h13 (fun hc rest q => by rw [rn_cidLimit _ rest (by simp only [if_pos hc] at h13; exact (itemsFit_varintParam _ _ h13).2) (by have := hv.cidLimit; omega) q, if_pos hc]) (fun hc q => by show Params.mk .. = _; rw [if_neg hc])).trans ?_
  refine (S_iscid perspectiveServer p.iscid _ _ ht.iscid).trans ?_
  refine (S_rscid perspectiveServer p.rscid _ _ (by decide) ht.rscid).trans ?_
  refine (S_numOpt perspectiveServer idMaxDatagramFrameSize p.maxDatagramFrameSize (fun v => v) _ _ (fun q => { q with maxDatagramFrameSize := match p.maxDatagramFrameSize with | some v => some v | none => q.maxDatagramFrameSize }) (by decide) h16 (fun v hc rest q => by rw [rn_datagram _ rest (by rw [hc] at h16; exact (itemsFit_varintParam _ _ h16).2) q, hc]) (fun hc q => by show Params.mk .. = _; rw [hc])).trans ?_
  refine (S_rsa perspectiveServer p.enableResetStreamAt _ _).trans ?_
  refine (S_numOpt perspectiveServer idMinAckDelay p.minAckDelay (fun m => m / microsecond) _ _ (fun q => { q with minAckDelay := match p.minAckDelay with | some m => some (m / microsecond * microsecond) | none => q.minAckDelay }) (by decide) h18 (fun m hc rest q => by rw [rn_minAck _ rest (by rw [hc] at h18; exact (itemsFit_varintParam _ _ h18).2) (by have := ht.minAck; rw [hc] at this; have h2 : m < 2 ^ 63 := this; have := Nat.div_mul_le_self m microsecond; omega) q, hc]) (fun hc q => by show Params.mk .. = _; rw [hc])).trans ?_
  exact L_nil _ _

/-- the loop state after `unmarshal` has read what `Marshal(client)` wrote -/
def stClient (p : Params) (g : Nat) : LoopSt :=
  (upd (upd (upd (upd (upd (upd (upd (upd (upd (upd (upd (upd (upd (upd (upd (upd (upd { p := p0 }
      [g]
      (fun q => q) false false)
      [idBidiLocal]
      (fun q => { q with initialMaxStreamDataBidiLocal := p.initialMaxStreamDataBidiLocal }) false false)
      [idBidiRemote]
      (fun q => { q with initialMaxStreamDataBidiRemote := p.initialMaxStreamDataBidiRemote }) false false)
      [idUni]
      (fun q => { q with initialMaxStreamDataUni := p.initialMaxStreamDataUni }) false false)
      [idInitialMaxData]
      (fun q => { q with initialMaxData := p.initialMaxData }) false false)
      [idStreamsBidi]
      (fun q => { q with maxBidiStreamNum := p.maxBidiStreamNum }) false false)
      [idStreamsUni]
      (fun q => { q with maxUniStreamNum := p.maxUniStreamNum }) false false)
      [idMaxIdleTimeout]
      (fun q => { q with maxIdleTimeout := max minRemoteIdleTimeout (p.maxIdleTimeout / millisecond * millisecond) }) false false)
      (if p.maxUDPPayloadSize > 0 then [idMaxUDPPayloadSize] else [])
      (fun q => { q with maxUDPPayloadSize := if p.maxUDPPayloadSize > 0 then p.maxUDPPayloadSize else q.maxUDPPayloadSize }) false false)
      (if p.maxAckDelay ≠ defaultMaxAckDelay then [idMaxAckDelay] else [])
      (fun q => { q with maxAckDelay := if p.maxAckDelay ≠ defaultMaxAckDelay then p.maxAckDelay / millisecond * millisecond else q.maxAckDelay }) false false)
      (if p.ackDelayExponent ≠ TP.defaultAckDelayExponent then [idAckDelayExponent] else [])
      (fun q => { q with ackDelayExponent := if p.ackDelayExponent ≠ TP.defaultAckDelayExponent then p.ackDelayExponent else q.ackDelayExponent }) false false)
      (if p.disableActiveMigration then [idDisableActiveMigration] else [])
      (fun q => { q with disableActiveMigration := p.disableActiveMigration || q.disableActiveMigration }) false false)
      (if p.activeConnectionIDLimit ≠ defaultActiveConnectionIDLimit then [idActiveConnectionIDLimit] else [])
      (fun q => { q with activeConnectionIDLimit := if p.activeConnectionIDLimit ≠ defaultActiveConnectionIDLimit then p.activeConnectionIDLimit else q.activeConnectionIDLimit }) false false)
      [idISCID]
      (fun q => { q with iscid := p.iscid }) false true)
      (if p.maxDatagramFrameSize.isSome then [idMaxDatagramFrameSize] else [])
      (fun q => { q with maxDatagramFrameSize := match p.maxDatagramFrameSize with | some v => some v | none => q.maxDatagramFrameSize }) false false)
      (if p.enableResetStreamAt then [idResetStreamAt] else [])
      (fun q => { q with enableResetStreamAt := p.enableResetStreamAt || q.enableResetStreamAt }) false false)
      (if p.minAckDelay.isSome then [idMinAckDelay] else [])
      (fun q => { q with minAckDelay := match p.minAckDelay with | some m => some (m / microsecond * microsecond) | none => q.minAckDelay }) false false)

theorem loopClient (p : Params) (g : Nat) (gv : Bytes) (hk : isKnownID g = false) (ht : Typed p) (hv : Valid p perspectiveClient)
    (hfit : itemsFit ([Item.v g, .v gv.length, .raw gv] ++ marshalItems p perspectiveClient) = true) :
    L perspectiveClient (itemsBytes ([Item.v g, .v gv.length, .raw gv] ++ marshalItems p perspectiveClient)) { p := p0 } = .ok (stClient p g) := by
  rw [← List.append_nil (itemsBytes _)]
  unfold marshalItems at hfit ⊢
  simp only [if_neg (by decide : ¬ perspectiveClient = perspectiveServer), itemsFit_append, Bool.and_eq_true, itemsFit_nil, if_true] at hfit
  obtain ⟨hg, ⟨⟨⟨⟨⟨⟨⟨⟨⟨⟨⟨⟨⟨⟨⟨⟨⟨h1, h2⟩, h3⟩, h4⟩, h5⟩, h6⟩, h7⟩, h8⟩, h9⟩, h10⟩, h11⟩, h12⟩, h13⟩, h14⟩, h15⟩, h16⟩, h17⟩, h18⟩⟩ := hfit
  simp only [if_neg (by decide : ¬ perspectiveClient = perspectiveServer), itemsBytes_append, itemsBytes_nil, List.append_assoc, List.nil_append, if_true]
  refine (S_grease perspectiveClient g gv _ _ hk hg).trans ?_
  refine (S_num perspectiveClient idBidiLocal p.initialMaxStreamDataBidiLocal _ _ (fun q => { q with initialMaxStreamDataBidiLocal := p.initialMaxStreamDataBidiLocal }) (by decide) h1 (fun rest q => rn_bidiLocal _ rest (itemsFit_varintParam _ _ h1).2 q)).trans ?_
  refine (S_num perspectiveClient idBidiRemote p.initialMaxStreamDataBidiRemote _ _ (fun q => { q with initialMaxStreamDataBidiRemote := p.initialMaxStreamDataBidiRemote }) (by decide) h2 (fun rest q => rn_bidiRemote _ rest (itemsFit_varintParam _ _ h2).2 q)).trans ?_
  refine (S_num perspectiveClient idUni p.initialMaxStreamDataUni _ _ (fun q => { q with initialMaxStreamDataUni := p.initialMaxStreamDataUni }) (by decide) h3 (fun rest q => rn_uni _ rest (itemsFit_varintParam _ _ h3).2 q)).trans ?_
  refine (S_num perspectiveClient idInitialMaxData p.initialMaxData _ _ (fun q => { q with initialMaxData := p.initialMaxData }) (by decide) h4 (fun rest q => rn_maxData _ rest (itemsFit_varintParam _ _ h4).2 q)).trans ?_
  refine (S_num perspectiveClient idStreamsBidi p.maxBidiStreamNum _ _ (fun q => { q with maxBidiStreamNum := p.maxBidiStreamNum }) (by decide) h5 (fun rest q => rn_streamsBidi _ rest (itemsFit_varintParam _ _ h5).2 (by have := hv.bidi; omega) q)).trans ?_
  refine (S_num perspectiveClient idStreamsUni p.maxUniStreamNum _ _ (fun q => { q with maxUniStreamNum := p.maxUniStreamNum }) (by decide) h6 (fun rest q => rn_streamsUni _ rest (itemsFit_varintParam _ _ h6).2 (by have := hv.uni; omega) q)).trans ?_
  refine (S_num perspectiveClient idMaxIdleTimeout (p.maxIdleTimeout / millisecond) _ _ (fun q => { q with maxIdleTimeout := max minRemoteIdleTimeout (p.maxIdleTimeout / millisecond * millisecond) }) (by decide) h7 (fun rest q => rn_idle _ rest (itemsFit_varintParam _ _ h7).2 (by have := ht.idle; have := Nat.div_mul_le_self p.maxIdleTimeout millisecond; omega) q)).trans ?_
  refine (S_numIf perspectiveClient idMaxUDPPayloadSize p.maxUDPPayloadSize (p.maxUDPPayloadSize > 0) _ _ (fun q => { q with maxUDPPayloadSize := if p.maxUDPPayloadSize > 0 then p.maxUDPPayloadSize else q.maxUDPPayloadSize }) (by decide) h8 (fun hc rest q => by rw [rn_udp _ rest (by simp only [if_pos hc] at h8; exact (itemsFit_varintParam _ _ h8).2) (by have := hv.udp; omega) q, if_pos hc]) (fun hc q => by show Params.mk .. = _; rw [if_neg hc])).trans ?_
  refine (S_numIf perspectiveClient idMaxAckDelay (p.maxAckDelay / millisecond) (p.maxAckDelay ≠ defaultMaxAckDelay) _ _ (fun q => { q with maxAckDelay := if p.maxAckDelay ≠ defaultMaxAckDelay then p.maxAckDelay / millisecond * millisecond else q.maxAckDelay }) (by decide) h9 (fun hc rest q => by rw [rn_ackDelay _ rest (by simp only [if_pos hc] at h9; exact (itemsFit_varintParam _ _ h9).2) (by have := hv.ackDelay; omega) q, if_pos hc]) (fun hc q => by show Params.mk .. = _; rw [if_neg hc])).trans ?_
  refine (S_numIf perspectiveClient idAckDelayExponent p.ackDelayExponent (p.ackDelayExponent ≠ TP.defaultAckDelayExponent) _ _ (fun q => { q with ackDelayExponent := if p.ackDelayExponent ≠ TP.defaultAckDelayExponent then p.ackDelayExponent else q.ackDelayExponent }) (by decide) h10 (fun hc rest q => by rw [rn_exponent _ rest (by simp only [if_pos hc] at h10; exact (itemsFit_varintParam _ _ h10).2) (by have := hv.exponent; omega) q, if_pos hc]) (fun hc q => by show Params.mk .. = _; rw [if_neg hc])).trans ?_
  refine (S_dam perspectiveClient p.disableActiveMigration _ _).trans ?_
  refine (S_numIf perspectiveClient idActiveConnectionIDLimit p.activeConnectionIDLimit (p.activeConnectionIDLimit ≠ defaultActiveConnectionIDLimit) _ _ (fun q => { q with activeConnectionIDLimit := if p.activeConnectionIDLimit ≠ defaultActiveConnectionIDLimit then p.activeConnectionIDLimit else q.activeConnectionIDLimit }) (by decide) h13 (fun hc rest q => by rw [rn_cidLimit _ rest (by simp only [if_pos hc] at h13; exact (itemsFit_varintParam _ _ h13).2) (by have := hv.cidLimit; omega) q, if_pos hc]) (fun hc q => by show Params.mk .. = _; rw [if_neg hc])).trans ?_
  refine (S_iscid perspectiveClient p.iscid _ _ ht.iscid).trans ?_
  refine (S_numOpt perspectiveClient idMaxDatagramFrameSize p.maxDatagramFrameSize (fun v => v) _ _ (fun q => { q with maxDatagramFrameSize := match p.maxDatagramFrameSize with | some v => some v | none => q.maxDatagramFrameSize }) (by decide) h16 (fun v hc rest q => by rw [rn_datagram _ rest (by rw [hc] at h16; exact (itemsFit_varintParam _ _ h16).2) q, hc]) (fun hc q => by show Params.mk .. = _; rw [hc])).trans ?_
  refine (S_rsa perspectiveClient p.enableResetStreamAt _ _).trans ?_
  refine (S_numOpt perspectiveClient idMinAckDelay p.minAckDelay (fun m => m / microsecond) _ _ (fun q => { q with minAckDelay := match p.minAckDelay with | some m => some (m / microsecond * microsecond) | none => q.minAckDelay }) (by decide) h18 (fun m hc rest q => by rw [rn_minAck _ rest (by rw [hc] at h18; exact (itemsFit_varintParam _ _ h18).2) (by have := ht.minAck; rw [hc] at this; have h2 : m < 2 ^ 63 := this; have := Nat.div_mul_le_self m microsecond; omega) q, hc]) (fun hc q => by show Params.mk .. = _; rw [hc])).trans ?_
  exact L_nil _ _


/-! ### the session ticket -/

/-- the loop state after `UnmarshalFromSessionTicket` has read what `MarshalForSessionTicket` wrote -/
def stTicket (p : Params) : LoopSt :=
  (upd (upd (upd (upd (upd (upd (upd (upd (upd { p := p0 }
      [idBidiLocal]
      (fun q => { q with initialMaxStreamDataBidiLocal := p.initialMaxStreamDataBidiLocal }) false false)
      [idBidiRemote]
      (fun q => { q with initialMaxStreamDataBidiRemote := p.initialMaxStreamDataBidiRemote }) false false)
      [idUni]
      (fun q => { q with initialMaxStreamDataUni := p.initialMaxStreamDataUni }) false false)
      [idInitialMaxData]
      (fun q => { q with initialMaxData := p.initialMaxData }) false false)
      [idStreamsBidi]
      (fun q => { q with maxBidiStreamNum := p.maxBidiStreamNum }) false false)
      [idStreamsUni]
      (fun q => { q with maxUniStreamNum := p.maxUniStreamNum }) false false)
      [idActiveConnectionIDLimit]
      (fun q => { q with activeConnectionIDLimit := p.activeConnectionIDLimit }) false false)
      (if p.maxDatagramFrameSize.isSome then [idMaxDatagramFrameSize] else [])
      (fun q => { q with maxDatagramFrameSize := match p.maxDatagramFrameSize with | some v => some v | none => q.maxDatagramFrameSize }) false false)
      (if p.enableResetStreamAt then [idResetStreamAt] else [])
      (fun q => { q with enableResetStreamAt := p.enableResetStreamAt || q.enableResetStreamAt }) false false)

/-- what follows the version number in a session ticket -/
def ticketTail (p : Params) : List Item :=
  varintParam idBidiLocal p.initialMaxStreamDataBidiLocal
  ++ varintParam idBidiRemote p.initialMaxStreamDataBidiRemote
  ++ varintParam idUni p.initialMaxStreamDataUni
  ++ varintParam idInitialMaxData p.initialMaxData
  ++ varintParam idStreamsBidi p.maxBidiStreamNum
  ++ varintParam idStreamsUni p.maxUniStreamNum
  ++ varintParam idActiveConnectionIDLimit p.activeConnectionIDLimit
  ++ (match p.maxDatagramFrameSize with
      | some v => varintParam idMaxDatagramFrameSize v
      | none => [])
  ++ (if p.enableResetStreamAt then [.v idResetStreamAt, .v 0] else [])

theorem ticketItems_eq (p : Params) : ticketItems p = [Item.v marshalingVersion] ++ ticketTail p := by
  simp only [ticketItems, ticketTail, List.append_assoc]
  cases p.maxDatagramFrameSize <;> rfl

theorem loopTicket (p : Params) (hv : ValidTicket p) (hfit : itemsFit (ticketItems p) = true) :
    L perspectiveServer (itemsBytes (ticketTail p)) { p := p0 } = .ok (stTicket p) := by
  rw [← List.append_nil (itemsBytes _)]
  unfold ticketItems at hfit
  unfold ticketTail
  simp only [itemsFit_append, Bool.and_eq_true] at hfit
  obtain ⟨⟨⟨⟨⟨⟨⟨⟨⟨hver, h1⟩, h2⟩, h3⟩, h4⟩, h5⟩, h6⟩, h7⟩, h8⟩, h9⟩ := hfit
  simp only [itemsBytes_append, List.append_assoc]
  refine (S_num perspectiveServer idBidiLocal p.initialMaxStreamDataBidiLocal _ _ (fun q => { q with initialMaxStreamDataBidiLocal := p.initialMaxStreamDataBidiLocal }) (by decide) h1 (fun rest q => rn_bidiLocal _ rest (itemsFit_varintParam _ _ h1).2 q)).trans ?_
  refine (S_num perspectiveServer idBidiRemote p.initialMaxStreamDataBidiRemote _ _ (fun q => { q with initialMaxStreamDataBidiRemote := p.initialMaxStreamDataBidiRemote }) (by decide) h2 (fun rest q => rn_bidiRemote _ rest (itemsFit_varintParam _ _ h2).2 q)).trans ?_
  refine (S_num perspectiveServer idUni p.initialMaxStreamDataUni _ _ (fun q => { q with initialMaxStreamDataUni := p.initialMaxStreamDataUni }) (by decide) h3 (fun rest q => rn_uni _ rest (itemsFit_varintParam _ _ h3).2 q)).trans ?_
  refine (S_num perspectiveServer idInitialMaxData p.initialMaxData _ _ (fun q => { q with initialMaxData := p.initialMaxData }) (by decide) h4 (fun rest q => rn_maxData _ rest (itemsFit_varintParam _ _ h4).2 q)).trans ?_
  refine (S_num perspectiveServer idStreamsBidi p.maxBidiStreamNum _ _ (fun q => { q with maxBidiStreamNum := p.maxBidiStreamNum }) (by decide) h5 (fun rest q => rn_streamsBidi _ rest (itemsFit_varintParam _ _ h5).2 (by have := hv.bidi; omega) q)).trans ?_
  refine (S_num perspectiveServer idStreamsUni p.maxUniStreamNum _ _ (fun q => { q with maxUniStreamNum := p.maxUniStreamNum }) (by decide) h6 (fun rest q => rn_streamsUni _ rest (itemsFit_varintParam _ _ h6).2 (by have := hv.uni; omega) q)).trans ?_
  refine (S_num perspectiveServer idActiveConnectionIDLimit p.activeConnectionIDLimit _ _ (fun q => { q with activeConnectionIDLimit := p.activeConnectionIDLimit }) (by decide) h7 (fun rest q => rn_cidLimit _ rest (itemsFit_varintParam _ _ h7).2 (by have := hv.cidLimit; omega) q)).trans ?_
  refine (S_numOpt perspectiveServer idMaxDatagramFrameSize p.maxDatagramFrameSize (fun v => v) _ _ (fun q => { q with maxDatagramFrameSize := match p.maxDatagramFrameSize with | some v => some v | none => q.maxDatagramFrameSize }) (by decide) h8 (fun v hc rest q => by rw [rn_datagram _ rest (by rw [hc] at h8; exact (itemsFit_varintParam _ _ h8).2) q, hc]) (fun hc q => by show Params.mk .. = _; rw [hc])).trans ?_
  refine (S_rsa perspectiveServer p.enableResetStreamAt _ _).trans ?_
  exact L_nil _ _

end Uquic.Proofs.WireMore
