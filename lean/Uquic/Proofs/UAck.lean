/-
Helper lemmas for Uquic/Props/C05Glue.lean (model: Uquic/Model/Crypto/UAck.lean).
-/
import Uquic.Model.Crypto.UAck

namespace Uquic.Proofs.UAck
open Uquic.Model.PN Uquic.Model.PNSpace Uquic.Model.UAck

theorem clampIdx_lt (n : Nat) (hn : 0 < n) (i : Int) : clampIdx n i < n := by
  unfold clampIdx
  split
  · exact hn
  · split
    · omega
    · omega

theorem clampIdx_in (n i : Nat) (hi : i < n) (b : Int) : clampIdx n (b + (i : Int) - b) = i := by
  unfold clampIdx
  have h1 : ¬ (b + (i : Int) - b < 0) := by omega
  have h2 : ¬ (b + (i : Int) - b ≥ (n : Int)) := by omega
  simp only [h1, h2, ↓reduceIte]
  omega

theorem acked1RTT_iff (out : List (Int × Level)) (rs : Ranges) :
    acked1RTT (newlyAcked out rs) = true ↔ ∃ p ∈ out, inRanges rs p.1 = true ∧ p.2 = Level.oneRTT := by
  unfold acked1RTT newlyAcked
  simp only [List.any_eq_true, List.mem_filter, beq_iff_eq]
  constructor
  · rintro ⟨p, ⟨hp, hr⟩, hl⟩; exact ⟨p, hp, hr, hl⟩
  · rintro ⟨p, hp, hr, hl⟩; exact ⟨p, ⟨hp, hr⟩, hl⟩

theorem run_confirmed (evs : List Ev) : ∀ (c : Conn) (pre : List Ev),
    (∀ p ∈ c.outstanding, Ev.send p.1 p.2 ∈ pre) → (c.run evs).confirmed = true →
    c.confirmed = true ∨ Ev.done ∈ evs ∨
    ∃ before after rs lost pn, evs = before ++ Ev.ack rs lost :: after ∧
      Ev.send pn Level.oneRTT ∈ pre ++ before ∧ inRanges rs pn = true := by
  induction evs with
  | nil => intro c pre _ h; left; exact h
  | cons e es ih =>
    intro c pre hinv h
    have hinv' : ∀ p ∈ (c.step e).outstanding, Ev.send p.1 p.2 ∈ pre ++ [e] := by
      intro p hp
      cases e with
      | send pn lvl =>
        simp only [Conn.step, List.mem_append, List.mem_singleton] at hp
        rcases hp with hp | hp
        · exact List.mem_append_left _ (hinv p hp)
        · subst hp; simp
      | ack rs lost =>
        simp only [Conn.step, Conn.ackStep, List.mem_filter] at hp
        exact List.mem_append_left _ (hinv p hp.1.1)
      | done => exact List.mem_append_left _ (hinv p hp)
    rcases ih (c.step e) (pre ++ [e]) hinv' h with hc | hd | ⟨before, after, rs, lost, pn, heq, hs, hr⟩
    · cases e with
      | send pn lvl => left; exact hc
      | done => right; left; simp
      | ack rs lost =>
        simp only [Conn.step, Conn.ackStep, Bool.or_eq_true] at hc
        rcases hc with hc | hc
        · left; exact hc
        · obtain ⟨p, hp, hr, hl⟩ := (acked1RTT_iff _ _).1 hc
          right; right
          refine ⟨[], es, rs, lost, p.1, rfl, ?_, hr⟩
          have := hinv p hp
          rw [hl] at this
          simpa using this
    · right; left; exact List.mem_cons_of_mem _ hd
    · right; right
      refine ⟨e :: before, after, rs, lost, pn, by rw [heq]; rfl, ?_, hr⟩
      simpa [List.append_assoc] using hs


end Uquic.Proofs.UAck
