import Uquic.Proofs.WireLongHeader

/-! Retry packets: `ExtendedHeader.Append` (Retry) → `parseHeader` round trip; the token is everything
    between the source connection ID and the last 16 bytes (the Retry integrity tag). -/

set_option linter.unusedSimpArgs false
set_option linter.unusedVariables false

namespace Uquic.Proofs.WireMore
open Uquic.Proofs.Wire
open Uquic.Model.Wire Uquic.Model.Wire.Varint Uquic.Model.Wire.Hdr

theorem retry_bits (v : Nat) : typeOfBits v (bitsOfType v ptRetry) = ptRetry ∧ bitsOfType v ptRetry < 4 := by
  obtain ⟨c1, c2, c3, c4, _⟩ := hdr_consts
  unfold typeOfBits bitsOfType
  by_cases hv : v = version2 <;> simp [hv, c1, c2, c3, c4]

/-- `parseLongHeader` on `version ‖ dcil ‖ dcid ‖ scil ‖ scid ‖ tail` for a supported version and the Retry type -/
theorem parseLongHeader_retry (first v : Nat) (dest src tail : Bytes)
    (hv : v = version1 ∨ v = version2) (hq : first / 64 % 2 = 1)
    (hd : dest.length ≤ 20) (hs : src.length ≤ 20) (ht : typeOfBits v (first / 16 % 4) = ptRetry) :
    parseLongHeader first (beBytes 4 v ++ u8 dest.length :: (dest ++ u8 src.length :: (src ++ tail))) =
      if tail.length ≤ 16 then
        ({ typeByte := first, ptype := ptRetry, version := v, dest := dest, src := src },
         4 + 1 + dest.length + 1 + src.length, some .eof)
      else
        ({ typeByte := first, ptype := ptRetry, version := v, dest := dest, src := src,
           token := tail.take (tail.length - 16) },
         4 + 1 + dest.length + 1 + src.length + tail.length, none) := by
  obtain ⟨c1, c2, c3, c4, cv1, cv2, csv, cmax⟩ := hdr_consts
  have hv32 : v < 2 ^ 32 := by rcases hv with rfl | rfl <;> simp [cv1, cv2]
  have hud : (u8 dest.length).toNat = dest.length := by rw [u8_toNat]; omega
  have hus : (u8 src.length).toNat = src.length := by rw [u8_toNat]; omega
  have e4 : beBytes 4 v = [u8 (v / 256 ^ 3), u8 (v / 256 ^ 2), u8 (v / 256 ^ 1), u8 (v / 256 ^ 0)] := rfl
  have hver : beNat [u8 (v / 256 ^ 3), u8 (v / 256 ^ 2), u8 (v / 256 ^ 1), u8 (v / 256 ^ 0)] = v := by
    rw [← e4, beNat_beBytes]; exact Nat.mod_eq_of_lt (by omega)
  have hsup : supportedVersions.contains v = true := by rcases hv with rfl | rfl <;> simp [csv, cv1, cv2]
  have hv0 : v ≠ 0 := by rcases hv with rfl | rfl <;> simp [cv1, cv2]
  rw [e4]
  unfold parseLongHeader
  simp only [List.cons_append, List.nil_append, List.length_cons, List.take_succ_cons, List.take_zero, hver]
  rw [if_neg (by omega)]
  rw [if_neg (by intro hc; omega)]
  simp only [List.getD_cons_succ, List.getD_cons_zero, hud, List.drop_succ_cons, List.drop_zero, cmax]
  rw [if_neg (by omega)]
  rw [if_neg (by simp)]
  have hgd : (dest ++ u8 src.length :: (src ++ tail)).getD dest.length 0 = u8 src.length := by
    simp [List.getD_eq_getElem?_getD]
  have htd : (dest ++ u8 src.length :: (src ++ tail)).take dest.length = dest := List.take_left' rfl
  have hdd : (dest ++ u8 src.length :: (src ++ tail)).drop (dest.length + 1) = src ++ tail := by
    rw [← List.drop_drop]; simp
  simp only [hgd, hus, htd, hdd]
  rw [if_neg (by omega)]
  rw [if_neg (by simp)]
  have hts : (src ++ tail).take src.length = src := List.take_left' rfl
  have hds : (src ++ tail).drop src.length = tail := by simp
  simp only [hts, hds, hv0, if_false, hsup, Bool.not_true, Bool.false_eq_true, ht, if_true]
  by_cases h16 : tail.length ≤ 16
  · simp only [h16, if_true]
    simp only [List.length_append, List.length_cons]
    congr 2; omega
  · simp only [h16, if_false]
    simp only [List.length_append, List.length_cons]
    congr 2; omega

/-- Retry round trip: what `ExtendedHeader.Append` writes for a Retry header (no Length, no packet
    number — `pn`/`pnLen` are ignored) followed by the 16-byte integrity tag parses to the same header:
    the token is exactly the bytes between the source connection ID and the tag, and the header
    "consumes" the whole packet -/
theorem retryHeader_roundtrip (h : Header) (pn pnLen : Nat) (tag : Bytes)
    (ht : h.ptype = ptRetry) (hv : h.version = version1 ∨ h.version = version2)
    (hd : h.dest.length ≤ 20) (hs : h.src.length ≤ 20) (htag : tag.length = 16) :
    ∃ b first, appendLong h pn pnLen h.version = .ok b ∧
      b.length = 1 + 4 + 1 + h.dest.length + 1 + h.src.length + h.token.length ∧
      (h.token ≠ [] →
        parseHeader (b ++ tag) = ({ h with typeByte := first, length := 0, parsedLen := b.length + 16 }, none) ∧
        (b ++ tag).drop ((b ++ tag).length - 16) = tag) ∧
      (h.token = [] → (parseHeader (b ++ tag)).2 = some .eof) := by
  obtain ⟨c1, c2, c3, c4, cv1, cv2, csv, cmax⟩ := hdr_consts
  obtain ⟨hty, hb4⟩ := retry_bits h.version
  generalize hbits : bitsOfType h.version ptRetry = bits at *
  obtain ⟨first, hfirst⟩ : ∃ f, f = 0xc0 + bits * 16 + 0 := ⟨_, rfl⟩
  have hf256 : first < 256 := by omega
  have hu : (u8 first).toNat = first := by rw [u8_toNat]; omega
  have hq : first / 64 % 2 = 1 := by omega
  have hb16 : first / 16 % 4 = bits := by omega
  obtain ⟨b1, hb1⟩ : ∃ x : Bytes, x = [u8 first] ++ beBytes 4 h.version ++ [u8 h.dest.length] ++ h.dest ++ [u8 h.src.length] ++ h.src := ⟨_, rfl⟩
  have hok : appendLong h pn pnLen h.version = .ok (b1 ++ h.token) := by
    unfold appendLong
    rw [if_neg (by rw [cmax]; omega)]
    simp only [ht, ne_eq, not_true_eq_false, if_true, if_false, hbits, ← hfirst, ← hb1]
  have hlay := parseLongHeader_retry first h.version h.dest h.src (h.token ++ tag) hv hq hd hs (by rw [hb16, hty])
  have hshape : b1 ++ h.token ++ tag =
      u8 first :: (beBytes 4 h.version ++ u8 h.dest.length :: (h.dest ++ u8 h.src.length :: (h.src ++ (h.token ++ tag)))) := by
    rw [hb1]; simp
  have hb1len : b1.length = 1 + 4 + 1 + h.dest.length + 1 + h.src.length := by
    rw [hb1]; simp only [List.length_append, List.length_singleton, beBytes_length]
  refine ⟨b1 ++ h.token, first, hok, by rw [List.length_append, hb1len], ?_, ?_⟩
  · intro hne
    have hpos : 0 < h.token.length := List.length_pos_iff.mpr hne
    refine ⟨?_, ?_⟩
    · rw [hshape, parseHeader_cons, hu, hlay]
      rw [if_neg (by rw [List.length_append, htag]; omega)]
      have htk : (h.token ++ tag).take ((h.token ++ tag).length - 16) = h.token := by
        rw [List.length_append, htag, Nat.add_sub_cancel]; exact List.take_left' rfl
      simp only [htk]
      cases h
      simp only [] at ht ⊢
      subst ht
      simp only [Prod.mk.injEq, Header.mk.injEq, List.length_append, htag, hb1len, and_true, true_and]
      omega
    · rw [List.length_append, htag, Nat.add_sub_cancel]; exact List.drop_left
  · intro he
    rw [hshape, parseHeader_cons, hu, hlay, he]
    rw [if_pos (by simp [htag])]

end Uquic.Proofs.WireMore
