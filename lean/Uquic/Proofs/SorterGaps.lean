/-
C03 helper lemmas about the gap list: well-formedness, membership of a position in a gap,
what `findStartGap` / `findEndGap` / `dropMid` return.
-/
import Uquic.Proofs.SorterChain

namespace Uquic.Proofs.Sorter
open Uquic.Model.Reassembly

def inGap (gs : List Gap) (p : Nat) : Prop := ∃ g ∈ gs, g.1 ≤ p ∧ p < g.2

@[simp] theorem inGap_nil (p : Nat) : inGap [] p ↔ False := by simp [inGap]

theorem inGap_cons (g : Gap) (gs : List Gap) (p : Nat) : inGap (g :: gs) p ↔ ((g.1 ≤ p ∧ p < g.2) ∨ inGap gs p) := by
  simp [inGap]

theorem inGap_append (a b : List Gap) (p : Nat) : inGap (a ++ b) p ↔ (inGap a p ∨ inGap b p) := by
  simp only [inGap, List.mem_append]
  constructor
  · rintro ⟨g, hg | hg, h⟩
    · exact Or.inl ⟨g, hg, h⟩
    · exact Or.inr ⟨g, hg, h⟩
  · rintro (⟨g, hg, h⟩ | ⟨g, hg, h⟩)
    · exact ⟨g, Or.inl hg, h⟩
    · exact ⟨g, Or.inr hg, h⟩

/-- ascending, pairwise separated by at least one byte, each non-empty -/
structure GapsWF (gs : List Gap) : Prop where
  sorted : gs.Pairwise (fun a b => a.2 < b.1)
  pos : ∀ g ∈ gs, g.1 < g.2

theorem GapsWF.nil : GapsWF [] := ⟨List.Pairwise.nil, by simp⟩

theorem GapsWF.of_append_left {a b : List Gap} (h : GapsWF (a ++ b)) : GapsWF a :=
  ⟨(List.pairwise_append.mp h.sorted).1, fun g hg => h.pos g (List.mem_append_left _ hg)⟩

theorem GapsWF.of_append_right {a b : List Gap} (h : GapsWF (a ++ b)) : GapsWF b :=
  ⟨(List.pairwise_append.mp h.sorted).2.1, fun g hg => h.pos g (List.mem_append_right _ hg)⟩

theorem GapsWF.cross {a b : List Gap} (h : GapsWF (a ++ b)) : ∀ x ∈ a, ∀ y ∈ b, x.2 < y.1 :=
  (List.pairwise_append.mp h.sorted).2.2

theorem GapsWF.append {a b : List Gap} (ha : GapsWF a) (hb : GapsWF b) (hc : ∀ x ∈ a, ∀ y ∈ b, x.2 < y.1) :
    GapsWF (a ++ b) :=
  ⟨List.pairwise_append.mpr ⟨ha.sorted, hb.sorted, hc⟩, by
    intro g hg
    rcases List.mem_append.mp hg with h | h
    · exact ha.pos g h
    · exact hb.pos g h⟩

theorem GapsWF.tail {g : Gap} {gs : List Gap} (h : GapsWF (g :: gs)) : GapsWF gs :=
  GapsWF.of_append_right (a := [g]) h

theorem GapsWF.head_lt {g : Gap} {gs : List Gap} (h : GapsWF (g :: gs)) : ∀ y ∈ gs, g.2 < y.1 :=
  fun y hy => GapsWF.cross (a := [g]) h g (by simp) y hy

theorem GapsWF.single {g : Gap} (h : g.1 < g.2) : GapsWF [g] :=
  ⟨List.pairwise_singleton _ _, by simp; exact h⟩

/-! ### findStartGap -/

theorem findStartGap_some {gs : List Gap} {off i : Nat} {b : Bool} (h : findStartGap gs off = some (i, b)) :
    ∃ sg rest, gs.drop i = sg :: rest ∧ (∀ g ∈ gs.take i, g.2 < off) ∧
      (b = true → sg.1 ≤ off ∧ off ≤ sg.2) ∧ (b = false → off < sg.1) := by
  induction gs generalizing i with
  | nil => simp [findStartGap] at h
  | cons g gs ih =>
    simp only [findStartGap] at h
    split at h
    · rename_i hc
      cases h
      exact ⟨g, gs, rfl, by simp, fun _ => hc, by simp⟩
    · rename_i hc
      split at h
      · rename_i hc2
        cases h
        exact ⟨g, gs, rfl, by simp, by simp, fun _ => hc2⟩
      · rename_i hc2
        cases hf : findStartGap gs off with
        | none => simp [hf] at h
        | some r =>
          obtain ⟨i', b'⟩ := r
          simp [hf] at h
          obtain ⟨h1, h2⟩ := h
          subst h1 h2
          obtain ⟨sg, rest, hd, ht, hb1, hb2⟩ := ih hf
          refine ⟨sg, rest, by simpa using hd, ?_, hb1, hb2⟩
          intro x hx
          simp only [List.take_succ_cons, List.mem_cons] at hx
          rcases hx with hx | hx
          · subst hx; omega
          · exact ht x hx

theorem findStartGap_none {gs : List Gap} {off : Nat} (h : findStartGap gs off = none) : ∀ g ∈ gs, g.2 < off := by
  induction gs with
  | nil => simp
  | cons g gs ih =>
    simp only [findStartGap] at h
    split at h
    · cases h
    · rename_i hc
      split at h
      · cases h
      · rename_i hc2
        cases hf : findStartGap gs off with
        | some r => simp [hf] at h
        | none =>
          intro x hx
          rcases List.mem_cons.mp hx with hx | hx
          · subst hx; omega
          · exact ih hf x hx

/-! ### findEndGap -/

theorem findEndGap_found {l : List Gap} {e k : Nat} (h : findEndGap l e = .found k) :
    ∃ g, l[k]? = some g ∧ g.1 ≤ e ∧ e < g.2 ∧ ∀ g' ∈ l.take k, g'.1 ≤ e ∧ (g'.1 < g'.2 → g'.2 ≤ e) := by
  induction l generalizing k with
  | nil => simp [findEndGap] at h
  | cons g gs ih =>
    simp only [findEndGap] at h
    split at h
    · rename_i hc
      cases h
      exact ⟨g, rfl, hc.1, hc.2, by simp⟩
    · rename_i hc
      split at h
      · cases h
      · rename_i hc2
        cases hf : findEndGap gs e with
        | found k' =>
          simp [hf] at h
          subst h
          obtain ⟨g0, h1, h2, h3, h4⟩ := ih hf
          refine ⟨g0, by simpa using h1, h2, h3, ?_⟩
          intro x hx
          simp only [List.take_succ_cons, List.mem_cons] at hx
          rcases hx with hx | hx
          · subst hx; exact ⟨by omega, by omega⟩
          · exact h4 x hx
        | prev k' => simp [hf] at h
        | nogap => simp [hf] at h

theorem findEndGap_prev {l : List Gap} {e k : Nat} (h : findEndGap l e = .prev k) :
    ∃ g, l[k]? = some g ∧ e < g.1 ∧ ∀ g' ∈ l.take k, g'.1 ≤ e ∧ (g'.1 < g'.2 → g'.2 ≤ e) := by
  induction l generalizing k with
  | nil => simp [findEndGap] at h
  | cons g gs ih =>
    simp only [findEndGap] at h
    split at h
    · cases h
    · rename_i hc
      split at h
      · rename_i hc2
        cases h
        exact ⟨g, rfl, hc2, by simp⟩
      · rename_i hc2
        cases hf : findEndGap gs e with
        | prev k' =>
          simp [hf] at h
          subst h
          obtain ⟨g0, h1, h2, h4⟩ := ih hf
          refine ⟨g0, by simpa using h1, h2, ?_⟩
          intro x hx
          simp only [List.take_succ_cons, List.mem_cons] at hx
          rcases hx with hx | hx
          · subst hx; exact ⟨by omega, by omega⟩
          · exact h4 x hx
        | found k' => simp [hf] at h
        | nogap => simp [hf] at h

theorem findEndGap_nogap {l : List Gap} {e : Nat} (h : findEndGap l e = .nogap) :
    ∀ g ∈ l, g.1 ≤ e ∧ (g.1 < g.2 → g.2 ≤ e) := by
  induction l with
  | nil => simp
  | cons g gs ih =>
    simp only [findEndGap] at h
    split at h
    · cases h
    · rename_i hc
      split at h
      · cases h
      · rename_i hc2
        cases hf : findEndGap gs e with
        | nogap =>
          intro x hx
          rcases List.mem_cons.mp hx with hx | hx
          · subst hx; exact ⟨by omega, by omega⟩
          · exact ih hf x hx
        | found k' => simp [hf] at h
        | prev k' => simp [hf] at h

/-! ### the sweep between startGap and endGap -/

/-- what `dropMid` does to the queue on the gaps `mid` that lie strictly between startGap and endGap -/
def sweepMid : List Gap → Queue → Queue × List Nat
  | [], q => (q, [])
  | g :: gs, q =>
    let r := deleteConsecutive (q.length + 1) q g.2
    let r' := sweepMid gs r.1
    (r'.1, r.2 ++ r'.2)

theorem dropMid_spec (mid : List Gap) (eg : Gap) (post : List Gap) (q : Queue)
    (hmid : ∀ g ∈ mid, g.2 < eg.1) (heg : ¬ eg.2 < eg.1) :
    dropMid (mid ++ eg :: post) eg.1 q = some (eg :: post, (sweepMid mid q).1, (sweepMid mid q).2) := by
  induction mid generalizing q with
  | nil => simp [dropMid, sweepMid, heg]
  | cons g gs ih =>
    have h1 : g.2 < eg.1 := hmid g (by simp)
    simp only [List.cons_append, dropMid, h1, if_true, sweepMid]
    rw [ih _ (fun x hx => hmid x (List.mem_cons_of_mem _ hx))]

theorem sweepMid_conserve (mid : List Gap) (q : Queue) (hq : (keys q).Nodup) :
    (keys (sweepMid mid q).1).Nodup ∧ ((sweepMid mid q).2 ++ cbsOf (sweepMid mid q).1).Perm (cbsOf q) ∧
      (sweepMid mid q).1.Sublist q := by
  induction mid generalizing q with
  | nil => simp [sweepMid, hq]
  | cons g gs ih =>
    simp only [sweepMid]
    obtain ⟨h1, h2, h3⟩ := deleteConsecutive_conserve (q.length + 1) q hq g.2
    obtain ⟨h4, h5, h6⟩ := ih _ h1
    refine ⟨h4, ?_, h6.trans h3⟩
    rw [List.append_assoc]
    exact (List.Perm.append_left _ h5).trans h2

end Uquic.Proofs.Sorter
