/-
History-level lemmas for property C06: how every operation of `sentPacketHistory`
changes the multiset of tracked frames.
-/
import Uquic.Model.Ack.Sent

namespace Uquic.Proofs.Sent
open Uquic.Model.Sent List

@[simp] theorem packetsFrames_nil : packetsFrames [] = [] := rfl
@[simp] theorem packetsFrames_none_cons (l : List (Option Packet)) : packetsFrames (none :: l) = packetsFrames l := by
  simp [packetsFrames]
@[simp] theorem packetsFrames_some_cons (p : Packet) (l : List (Option Packet)) :
    packetsFrames (some p :: l) = p.allFrames ++ packetsFrames l := by
  simp [packetsFrames]
@[simp] theorem packetsFrames_append (a b : List (Option Packet)) :
    packetsFrames (a ++ b) = packetsFrames a ++ packetsFrames b := by
  simp [packetsFrames]

@[simp] theorem probesFrames_nil : probesFrames [] = [] := rfl
@[simp] theorem probesFrames_cons (x : PN × Packet) (l : List (PN × Packet)) :
    probesFrames (x :: l) = x.2.allFrames ++ probesFrames l := by
  simp [probesFrames]
@[simp] theorem probesFrames_append (a b : List (PN × Packet)) :
    probesFrames (a ++ b) = probesFrames a ++ probesFrames b := by
  simp [probesFrames]

@[simp] theorem packetsFrames_dropNones (l : List (Option Packet)) : packetsFrames (dropNones l) = packetsFrames l := by
  induction l with
  | nil => rfl
  | cons x xs ih => cases x <;> simp [dropNones, ih]

theorem packetsFrames_set_none {l : List (Option Packet)} {i : Nat} {p : Packet} (h : l[i]? = some (some p)) :
    packetsFrames l ~ p.allFrames ++ packetsFrames (l.set i none) := by
  induction l generalizing i with
  | nil => simp at h
  | cons x xs ih =>
    cases i with
    | zero =>
      simp at h; subst h; simp
    | succ j =>
      simp at h
      have := ih h
      cases x with
      | none => simpa using this
      | some q =>
        simp
        exact (this.append_left q.allFrames).trans (by
          rw [← List.append_assoc, ← List.append_assoc]
          exact List.Perm.append_right _ List.perm_append_comm)

/-! ### operations of the history and `pending` -/

theorem checkSeq_packets {h h' : Hist} {pn : PN} (e : h.checkSeq pn = some h') :
    h'.packets = h.packets ∧ h'.probes = h.probes ∧ h'.skipped = h.skipped ∧ h'.numOutstanding = h.numOutstanding := by
  unfold Hist.checkSeq at e
  split at e
  · simp at e
  · simp at e; subst e; simp

theorem skippedPacket_spec {h h' : Hist} {pn : PN} (e : h.skippedPacket pn = some h') :
    packetsFrames h'.packets = packetsFrames h.packets ∧ h'.probes = h.probes ∧ h'.numOutstanding = h.numOutstanding := by
  unfold Hist.skippedPacket at e
  split at e
  · simp at e
  · rename_i h1 e1
    obtain ⟨a, b, _, d⟩ := checkSeq_packets e1
    simp at e; subst e
    simp only []
    refine ⟨?_, b, d⟩
    split <;> simp [a]

theorem skippedPacket_pending {h h' : Hist} {pn : PN} (e : h.skippedPacket pn = some h') : h'.pending = h.pending := by
  obtain ⟨a, b, _⟩ := skippedPacket_spec e
  simp [Hist.pending, a, b]

theorem sentPacket_spec {h h' : Hist} {pn : PN} {p : Packet} (e : h.sentPacket pn p = some h') :
    h'.packets = h.packets ++ [some p] ∧ h'.probes = h.probes ∧
    h'.numOutstanding = (if p.outstanding then h.numOutstanding + 1 else h.numOutstanding) ∧ h'.skipped = h.skipped := by
  unfold Hist.sentPacket at e
  split at e
  · simp at e
  · rename_i h1 e1
    obtain ⟨a, b, c, d⟩ := checkSeq_packets e1
    simp at e; subst e
    simp [a, b, c, d]

theorem sentPacket_pending {h h' : Hist} {pn : PN} {p : Packet} (e : h.sentPacket pn p = some h') :
    h'.pending ~ h.pending ++ p.allFrames := by
  obtain ⟨a, b, _⟩ := sentPacket_spec e
  simp [Hist.pending, a, b]
  exact List.Perm.append_left _ List.perm_append_comm

theorem sentPathProbePacket_spec {h h' : Hist} {pn : PN} {p : Packet} (e : h.sentPathProbePacket pn p = some h') :
    h'.packets = h.packets ++ [some dummyProbe] ∧ h'.probes = h.probes ++ [(pn, p)] ∧
    h'.numOutstanding = h.numOutstanding ∧ h'.skipped = h.skipped := by
  unfold Hist.sentPathProbePacket at e
  split at e
  · simp at e
  · rename_i h1 e1
    obtain ⟨a, b, c, d⟩ := checkSeq_packets e1
    simp at e; subst e
    simp [a, b, c, d]

theorem dummyProbe_allFrames : dummyProbe.allFrames = [] := rfl

theorem sentPathProbePacket_pending {h h' : Hist} {pn : PN} {p : Packet} (e : h.sentPathProbePacket pn p = some h') :
    h'.pending = h.pending ++ p.allFrames := by
  obtain ⟨a, b, _⟩ := sentPathProbePacket_spec e
  simp [Hist.pending, a, b, dummyProbe_allFrames]

@[simp] theorem cleanupStart_frames (h : Hist) : packetsFrames h.cleanupStart.packets = packetsFrames h.packets := by
  unfold Hist.cleanupStart
  simp only []
  split
  · rename_i e
    have := packetsFrames_dropNones h.packets
    simp at e
    rw [e] at this
    simp [← this]
  · simp

@[simp] theorem cleanupStart_probes (h : Hist) : h.cleanupStart.probes = h.probes := by
  unfold Hist.cleanupStart; simp only []; split <;> rfl

@[simp] theorem cleanupStart_numOutstanding (h : Hist) : h.cleanupStart.numOutstanding = h.numOutstanding := by
  unfold Hist.cleanupStart; simp only []; split <;> rfl

@[simp] theorem cleanupStart_skipped (h : Hist) : h.cleanupStart.skipped = h.skipped := by
  unfold Hist.cleanupStart; simp only []; split <;> rfl

/-- what `lookup` finding a packet means for the slice -/
theorem lookup_some {h : Hist} {pn : PN} {p : Packet} (e : h.lookup pn = some p) :
    ∃ idx, h.getIndex pn = some idx ∧ h.packets[idx]? = some (some p) := by
  unfold Hist.lookup at e
  split at e
  · simp at e
  · rename_i idx e1
    refine ⟨idx, e1, ?_⟩
    cases hq : h.packets[idx]? with
    | none => simp [hq] at e
    | some o => cases o with
      | none => simp [hq] at e
      | some q => simp [hq] at e; simp [e]

theorem join_some {l : List (Option Packet)} {idx : Nat} {q : Packet} (e : (l[idx]?).join = some q) : l[idx]? = some (some q) := by
  cases hq : l[idx]? with
  | none => simp [hq] at e
  | some o => cases o with
    | none => simp [hq] at e
    | some q' => simp [hq] at e; simp [e]

theorem remove_spec {h h' : Hist} {pn : PN} {p : Packet} (e : h.remove pn = .ok h' p) :
    ∃ idx, h.getIndex pn = some idx ∧ h.packets[idx]? = some (some p) ∧
      packetsFrames h'.packets = packetsFrames (h.packets.set idx none) ∧ h'.probes = h.probes ∧
      h'.numOutstanding = outAfter h.numOutstanding p ∧ h'.skipped = h.skipped := by
  unfold Hist.remove at e
  cases e1 : h.getIndex pn with
  | none => simp [e1] at e
  | some idx =>
    simp only [e1] at e
    cases e2 : (h.packets[idx]?).join with
    | none => simp [e2] at e
    | some q =>
      simp only [e2] at e
      split at e
      · simp at e
      · split at e
        · simp at e
        · simp only [RemoveRes.ok.injEq] at e
          obtain ⟨e3, e4⟩ := e
          subst e4
          refine ⟨idx, rfl, join_some e2, ?_⟩
          subst e3
          split <;> simp

theorem remove_pending {h h' : Hist} {pn : PN} {p : Packet} (e : h.remove pn = .ok h' p) :
    h.pending ~ p.allFrames ++ h'.pending := by
  obtain ⟨idx, _, e2, e3, e4, _⟩ := remove_spec e
  simp only [Hist.pending, e3, e4]
  rw [← List.append_assoc]
  exact List.Perm.append_right _ (packetsFrames_set_none e2)

theorem declareLost_spec {h h' : Hist} {pn : PN} {p : Packet} (hl : h.lookup pn = some p) (e : h.declareLost pn = .ok h') :
    ∃ idx, h.packets[idx]? = some (some p) ∧
      packetsFrames h'.packets = packetsFrames (h.packets.set idx none) ∧ h'.probes = h.probes ∧
      h'.numOutstanding = outAfter h.numOutstanding p ∧ h'.skipped = h.skipped := by
  obtain ⟨idx, e1, e2⟩ := lookup_some hl
  unfold Hist.declareLost at e
  simp only [e1, e2, Option.join_some] at e
  split at e
  · simp at e
  · simp only [LostRes.ok.injEq] at e
    subst e
    refine ⟨idx, e2, ?_⟩
    split <;> simp

theorem declareLost_pending {h h' : Hist} {pn : PN} {p : Packet} (hl : h.lookup pn = some p) (e : h.declareLost pn = .ok h') :
    h.pending ~ p.allFrames ++ h'.pending := by
  obtain ⟨idx, e2, e3, e4, _⟩ := declareLost_spec hl e
  simp only [Hist.pending, e3, e4]
  rw [← List.append_assoc]
  exact List.Perm.append_right _ (packetsFrames_set_none e2)

theorem removeProbe_some {pn : PN} {l l' : List (PN × Packet)} {p : Packet} (e : removeProbe pn l = (some p, l')) :
    probesFrames l ~ p.allFrames ++ probesFrames l' := by
  induction l generalizing l' with
  | nil => simp [removeProbe] at e
  | cons x xs ih =>
    obtain ⟨q, pk⟩ := x
    unfold removeProbe at e
    split at e
    · simp only [Prod.mk.injEq, Option.some.injEq] at e; obtain ⟨e1, e2⟩ := e; subst e1 e2; simp
    · cases hr : removeProbe pn xs with
      | mk r rest' =>
        simp only [hr, Prod.mk.injEq] at e
        obtain ⟨e1, e2⟩ := e
        subst e1 e2
        have := ih hr
        simp only [probesFrames_cons]
        exact (this.append_left pk.allFrames).trans (by
          rw [← List.append_assoc, ← List.append_assoc]
          exact List.Perm.append_right _ List.perm_append_comm)

theorem removeProbe_none {pn : PN} {l l' : List (PN × Packet)} (e : removeProbe pn l = (none, l')) : l' = l := by
  induction l generalizing l' with
  | nil => simp [removeProbe] at e; exact e
  | cons x xs ih =>
    obtain ⟨q, pk⟩ := x
    unfold removeProbe at e
    split at e
    · simp at e
    · cases hr : removeProbe pn xs with
      | mk r rest' =>
        simp only [hr, Prod.mk.injEq] at e
        obtain ⟨e1, e2⟩ := e
        subst e1 e2
        rw [ih hr]

end Uquic.Proofs.Sent
