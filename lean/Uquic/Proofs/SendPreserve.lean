/-
C01: the invariant `Inv` of the SendStream model is preserved by every step.
-/
import Uquic.Proofs.SendSteps

namespace Uquic.Proofs.Send
open Uquic.Model.Stream.Send Uquic.Spec.SendRun

/-- what holds while the stream is live (not reset, not shut down) -/
structure LiveInv (s : State) : Prop where
  tail_eq : tail s = s.written.drop s.writeOffset
  wo_le : s.writeOffset ≤ s.written.length
  nf_ok : NfOk s
  idle_dfw : s.pending = none → s.dataForWriting = []
  q_faith : ∀ f ∈ s.retransQ, Faithful s f ∧ f.data.length ≤ maxPacketBufferSize
  o_faith : ∀ e ∈ s.outstanding, Faithful s e.2 ∧ e.2.data.length ≤ maxPacketBufferSize
  count : s.numOutstanding = s.outstanding.length
  acct : ∀ i, i < s.writeOffset → Accounted s i
  fin_acct : s.finSent = true → FinAccounted s
  qr_none : s.queuedReset = none
  not_dead : s.dead = false

structure Inv (s : State) : Prop where
  ro0 : s.reliableOffset = 0
  emitted_faith : ∀ f ∈ s.emitted, Faithful s f
  live : Live s → LiveInv s

theorem Faithful.congr {s s' : State} {f : Frame} (hw : s'.written = s.written)
    (hf : s'.finishedWriting = s.finishedWriting) : Faithful s' f ↔ Faithful s f := by
  unfold Faithful; rw [hw, hf]

theorem reliableOffset_congr {s s' : State} (h1 : s'.supportsResetAt = s.supportsResetAt)
    (h2 : s'.reliableSize = s.reliableSize ∨ s'.reliableSize = 0) (h : s.reliableOffset = 0) : s'.reliableOffset = 0 := by
  unfold State.reliableOffset at *
  rw [h1]
  split
  · rename_i hs
    simp only [hs, ↓reduceIte] at h
    rcases h2 with h2 | h2 <;> omega
  · rfl

/-- a step that leaves the ghost fields alone, on a stream that is not live -/
theorem inv_of_quiet_notlive {s s' : State} (h : Inv s) (hq : Quiet s s') (hnl : ¬ Live s') : Inv s' :=
  ⟨reliableOffset_congr hq.supportsResetAt hq.reliableSize h.ro0,
   fun f hf => (Faithful.congr hq.written hq.finishedWriting).mpr (h.emitted_faith f (hq.emitted ▸ hf)),
   fun hl => absurd hl hnl⟩

theorem notlive_of_stable {s s' : State} (hs : Stable s s') (hnl : ¬ Live s) : ¬ Live s' :=
  fun hl => hnl (Live.of_eq hl hs.resetErr hs.shutdown)

/-! ### find? / eraseP -/

theorem find_erase {α} {p : α → Bool} {l : List α} {a : α} (h : l.find? p = some a) :
    a ∈ l ∧ p a = true ∧ (l.eraseP p).length + 1 = l.length ∧
    (∀ e ∈ l, e = a ∨ e ∈ l.eraseP p) ∧ (∀ e ∈ l.eraseP p, e ∈ l) := by
  induction l with
  | nil => simp at h
  | cons x xs ih =>
    by_cases hx : p x = true
    · simp only [List.find?_cons, hx, Option.some.injEq] at h
      subst h
      simp only [List.eraseP_cons, hx, cond_true]
      refine ⟨by simp, by simp [hx], by simp, ?_, fun e he => by simp [he]⟩
      intro e he
      rcases List.mem_cons.mp he with rfl | he
      · exact .inl rfl
      · exact .inr he
    · have hx' : p x = false := by simpa using hx
      simp only [List.find?_cons, hx'] at h
      obtain ⟨h1, h2, h3, h4, h5⟩ := ih h
      simp only [List.eraseP_cons, hx', cond_false]
      refine ⟨by simp [h1], h2, by simp only [List.length_cons]; omega, ?_, ?_⟩
      · intro e he
        rcases List.mem_cons.mp he with rfl | he
        · exact .inr (by simp)
        · rcases h4 e he with h | h
          · exact .inl h
          · exact .inr (by simp [h])
      · intro e he
        rcases List.mem_cons.mp he with rfl | he
        · simp
        · simp [h5 e he]

theorem lookup_spec {s : State} {i : Nat} {f : Frame} (h : lookupOutstanding s i = some f) :
    ∃ e, s.outstanding.find? (fun e => e.1 == i) = some e ∧ e.2 = f := by
  unfold lookupOutstanding at h
  cases hfind : s.outstanding.find? (fun e => e.1 == i) with
  | none => simp [hfind] at h
  | some e => simp only [hfind, Option.map_some, Option.some.injEq] at h; exact ⟨e, rfl, h⟩

theorem inv_acked {s : State} (h : Inv s) (i : Nat) : Inv (acked s i).1 := by
  by_cases hl : Live s
  · have L := h.live hl
    cases hf : lookupOutstanding s i with
    | none =>
      have : (acked s i).1 = s := by unfold acked; simp [hf]
      rw [this]; exact h
    | some f =>
      obtain ⟨e, hfind, he2⟩ := lookup_spec hf
      obtain ⟨hmem, _, hlen, hsplit, hsub⟩ := find_erase hfind
      have hpos : 1 ≤ s.numOutstanding := by
        rw [L.count]
        have : 0 < s.outstanding.length := List.length_pos_of_mem hmem
        omega
      obtain ⟨c, hs'⟩ := acked_live hl hf hpos
      rw [hs']
      refine ⟨h.ro0, fun g hg => (Faithful.congr rfl rfl).mpr (h.emitted_faith g hg), fun _ => ?_⟩
      refine ⟨L.tail_eq, L.wo_le, L.nf_ok, L.idle_dfw, fun g hg => ?_, fun e' he' => ?_, ?_, fun j hj => ?_, fun hfs => ?_, L.qr_none, L.not_dead⟩
      · exact ⟨(Faithful.congr rfl rfl).mpr (L.q_faith g hg).1, (L.q_faith g hg).2⟩
      · have := L.o_faith e' (hsub e' he')
        exact ⟨(Faithful.congr rfl rfl).mpr this.1, this.2⟩
      · show s.numOutstanding - 1 = ((removeOutstanding s i).length : Int)
        unfold removeOutstanding
        rw [L.count]; omega
      · rcases L.acct j hj with ⟨r, hr, hr2⟩ | ⟨e', he', hc⟩ | hq
        · exact .inl ⟨r, List.mem_cons_of_mem _ hr, hr2⟩
        · rcases hsplit e' he' with rfl | hin
          · refine .inl ⟨(f.offset, f.offset + f.data.length), List.mem_cons_self, ?_⟩
            rw [← he2]; exact hc
          · exact .inr (.inl ⟨e', hin, hc⟩)
        · exact .inr (.inr hq)
      · rcases L.fin_acct hfs with ha | ⟨e', he', hc⟩ | hq
        · exact .inl (by simp [ha])
        · rcases hsplit e' he' with rfl | hin
          · exact .inl (by simp [← he2, hc])
          · exact .inr (.inl ⟨e', hin, hc⟩)
        · exact .inr (.inr hq)
  · exact inv_of_quiet_notlive h (acked_stable s i).quiet (notlive_of_stable (acked_stable s i) hl)

theorem inv_lost {s : State} (h : Inv s) (i : Nat) : Inv (lost s i).1 := by
  by_cases hl : Live s
  · have L := h.live hl
    cases hf : lookupOutstanding s i with
    | none =>
      have : (lost s i).1 = s := by unfold lost; simp [hf]
      rw [this]; exact h
    | some f =>
      obtain ⟨e, hfind, he2⟩ := lookup_spec hf
      obtain ⟨hmem, _, hlen, hsplit, hsub⟩ := find_erase hfind
      have hpos : 1 ≤ s.numOutstanding := by
        rw [L.count]
        have : 0 < s.outstanding.length := List.length_pos_of_mem hmem
        omega
      rw [lost_live hl hf hpos]
      have hfF := L.o_faith e hmem
      rw [he2] at hfF
      refine ⟨h.ro0, fun g hg => (Faithful.congr rfl rfl).mpr (h.emitted_faith g hg), fun _ => ?_⟩
      refine ⟨L.tail_eq, L.wo_le, L.nf_ok, L.idle_dfw, fun g hg => ?_, fun e' he' => ?_, ?_, fun j hj => ?_, fun hfs => ?_, L.qr_none, L.not_dead⟩
      · rcases List.mem_append.mp hg with hg | hg
        · exact ⟨(Faithful.congr rfl rfl).mpr (L.q_faith g hg).1, (L.q_faith g hg).2⟩
        · simp only [List.mem_singleton] at hg
          subst hg
          exact ⟨⟨hfF.1.1, hfF.1.2⟩, hfF.2⟩
      · have := L.o_faith e' (hsub e' he')
        exact ⟨(Faithful.congr rfl rfl).mpr this.1, this.2⟩
      · show s.numOutstanding - 1 = ((removeOutstanding s i).length : Int)
        unfold removeOutstanding
        rw [L.count]; omega
      · rcases L.acct j hj with hr | ⟨e', he', hc⟩ | ⟨g, hg, hc⟩
        · exact .inl hr
        · rcases hsplit e' he' with rfl | hin
          · refine .inr (.inr ⟨{ f with dataLenPresent := true }, by simp, ?_⟩)
            rw [← he2]; exact hc
          · exact .inr (.inl ⟨e', hin, hc⟩)
        · exact .inr (.inr ⟨g, List.mem_append_left _ hg, hc⟩)
      · rcases L.fin_acct hfs with ha | ⟨e', he', hc⟩ | ⟨g, hg, hc⟩
        · exact .inl ha
        · rcases hsplit e' he' with rfl | hin
          · exact .inr (.inr ⟨{ f with dataLenPresent := true }, by simp, by simp [← he2, hc]⟩)
          · exact .inr (.inl ⟨e', hin, hc⟩)
        · exact .inr (.inr ⟨g, List.mem_append_left _ hg, hc⟩)
  · exact inv_of_quiet_notlive h (lost_stable s i).quiet (notlive_of_stable (lost_stable s i) hl)

/-- ghost bookkeeping of `popStreamFrame` for a returned frame -/
def addOut (s1 : State) (f : Frame) : State :=
  { s1 with numOutstanding := s1.numOutstanding + 1,
            outstanding := s1.outstanding ++ [(s1.emitted.length, f)],
            emitted := s1.emitted ++ [f] }

theorem pop_none {s : State} {mb w : Nat} {nb : Bool} (h : (popInner s mb w nb).2.frame = none) :
    (pop s mb w nb).1 = (popInner s mb w nb).1 := by
  unfold pop
  rcases hp : popInner s mb w nb with ⟨s1, out⟩
  rw [hp] at h
  simp only at h ⊢
  simp [h]

theorem pop_some {s : State} {mb w : Nat} {nb : Bool} {f : Frame} (h : (popInner s mb w nb).2.frame = some f) :
    (pop s mb w nb).1 = addOut (popInner s mb w nb).1 f := by
  unfold pop
  rcases hp : popInner s mb w nb with ⟨s1, out⟩
  rw [hp] at h
  simp only at h ⊢
  simp [h, addOut]

/-- state after `popInner` with the returned frame `f` still "in the air" -/
structure PreInv (s1 : State) (f : Frame) : Prop where
  tail_eq : tail s1 = s1.written.drop s1.writeOffset
  wo_le : s1.writeOffset ≤ s1.written.length
  nf_ok : NfOk s1
  idle_dfw : s1.pending = none → s1.dataForWriting = []
  q_faith : ∀ g ∈ s1.retransQ, Faithful s1 g ∧ g.data.length ≤ maxPacketBufferSize
  o_faith : ∀ e ∈ s1.outstanding, Faithful s1 e.2 ∧ e.2.data.length ≤ maxPacketBufferSize
  f_faith : Faithful s1 f ∧ f.data.length ≤ maxPacketBufferSize
  count : s1.numOutstanding = s1.outstanding.length
  acct : ∀ i, i < s1.writeOffset → Accounted s1 i ∨ Frame.covers f i
  fin_acct : s1.finSent = true → FinAccounted s1 ∨ f.fin = true
  qr_none : s1.queuedReset = none
  not_dead : s1.dead = false

theorem liveInv_addOut {s1 : State} {f : Frame} (p : PreInv s1 f) : LiveInv (addOut s1 f) := by
  refine ⟨p.tail_eq, p.wo_le, p.nf_ok, p.idle_dfw, fun g hg => ?_, fun e he => ?_, ?_, fun j hj => ?_, fun hfs => ?_, p.qr_none, p.not_dead⟩
  · exact ⟨(Faithful.congr rfl rfl).mpr (p.q_faith g hg).1, (p.q_faith g hg).2⟩
  · simp only [addOut, List.mem_append, List.mem_singleton] at he
    rcases he with he | rfl
    · exact ⟨(Faithful.congr rfl rfl).mpr (p.o_faith e he).1, (p.o_faith e he).2⟩
    · exact ⟨(Faithful.congr rfl rfl).mpr p.f_faith.1, p.f_faith.2⟩
  · simp only [addOut, List.length_append, List.length_singleton, p.count]; omega
  · rcases p.acct j hj with (hr | ⟨e, he, hc⟩ | hq) | hc
    · exact .inl hr
    · exact .inr (.inl ⟨e, by simp [addOut, he], hc⟩)
    · exact .inr (.inr hq)
    · exact .inr (.inl ⟨(s1.emitted.length, f), by simp [addOut], hc⟩)
  · rcases p.fin_acct hfs with (ha | ⟨e, he, hc⟩ | hq) | hc
    · exact .inl ha
    · exact .inr (.inl ⟨e, by simp [addOut, he], hc⟩)
    · exact .inr (.inr hq)
    · exact .inr (.inl ⟨(s1.emitted.length, f), by simp [addOut], hc⟩)

/-- fields `popInner` never touches -/
structure PopFrame (s s1 : State) : Prop where
  written : s1.written = s.written
  finishedWriting : s1.finishedWriting = s.finishedWriting
  emitted : s1.emitted = s.emitted
  resetErr : s1.resetErr = s.resetErr
  shutdown : s1.shutdown = s.shutdown
  reliableSize : s1.reliableSize = s.reliableSize
  supportsResetAt : s1.supportsResetAt = s.supportsResetAt

theorem mpbs_le_v2 : maxPacketBufferSize ≤ maxVarInt2 := by decide

theorem preInv_retransWhole {s : State} (L : LiveInv s) {g : Frame} {rest : List Frame} (hq : s.retransQ = g :: rest) :
    PreInv { s with retransQ := rest } g := by
  have hg : g ∈ s.retransQ := by simp [hq]
  have hrest : ∀ x ∈ rest, x ∈ s.retransQ := fun x hx => by simp [hq, hx]
  refine ⟨L.tail_eq, L.wo_le, L.nf_ok, L.idle_dfw, fun x hx => ?_, fun e he => ?_, ?_, L.count, fun j hj => ?_, fun hfs => ?_, L.qr_none, L.not_dead⟩
  · exact ⟨(Faithful.congr rfl rfl).mpr (L.q_faith x (hrest x hx)).1, (L.q_faith x (hrest x hx)).2⟩
  · exact ⟨(Faithful.congr rfl rfl).mpr (L.o_faith e he).1, (L.o_faith e he).2⟩
  · exact ⟨(Faithful.congr rfl rfl).mpr (L.q_faith g hg).1, (L.q_faith g hg).2⟩
  · rcases L.acct j hj with hr | ho | ⟨x, hx, hc⟩
    · exact .inl (.inl hr)
    · exact .inl (.inr (.inl ho))
    · rw [hq] at hx
      rcases List.mem_cons.mp hx with rfl | hx
      · exact .inr hc
      · exact .inl (.inr (.inr ⟨x, hx, hc⟩))
  · rcases L.fin_acct hfs with hr | ho | ⟨x, hx, hc⟩
    · exact .inl (.inl hr)
    · exact .inl (.inr (.inl ho))
    · rw [hq] at hx
      rcases List.mem_cons.mp hx with rfl | hx
      · exact .inr hc
      · exact .inl (.inr (.inr ⟨x, hx, hc⟩))

theorem preInv_retransSplit {s : State} (L : LiveInv s) {g : Frame} {rest : List Frame} {n : Nat}
    (hq : s.retransQ = g :: rest) (hn : n ≠ 0) (hlt : n < g.data.length) :
    PreInv { s with retransQ := { g with data := g.data.drop n, offset := g.offset + n } :: rest }
      { offset := g.offset, data := g.data.take n, fin := false, dataLenPresent := g.dataLenPresent } := by
  have hg : g ∈ s.retransQ := by simp [hq]
  have hrest : ∀ x ∈ rest, x ∈ s.retransQ := fun x hx => by simp [hq, hx]
  obtain ⟨⟨hgp, hgf⟩, hgl⟩ := L.q_faith g hg
  have hg' : Faithful s { g with data := g.data.drop n, offset := g.offset + n } := by
    refine ⟨prefix_drop_drop n hgp, fun hfin => ?_⟩
    obtain ⟨h1, h2⟩ := hgf hfin
    refine ⟨h1, ?_⟩
    simp only [List.length_drop]; omega
  refine ⟨L.tail_eq, L.wo_le, L.nf_ok, L.idle_dfw, fun x hx => ?_, fun e he => ?_, ?_, L.count, fun j hj => ?_, fun hfs => ?_, L.qr_none, L.not_dead⟩
  · rcases List.mem_cons.mp hx with rfl | hx
    · exact ⟨(Faithful.congr rfl rfl).mpr hg', by simp only [List.length_drop]; omega⟩
    · exact ⟨(Faithful.congr rfl rfl).mpr (L.q_faith x (hrest x hx)).1, (L.q_faith x (hrest x hx)).2⟩
  · exact ⟨(Faithful.congr rfl rfl).mpr (L.o_faith e he).1, (L.o_faith e he).2⟩
  · refine ⟨⟨prefix_take n hgp, fun h => by simp at h⟩, ?_⟩
    simp only [List.length_take]; omega
  · rcases L.acct j hj with hr | ho | ⟨x, hx, hc⟩
    · exact .inl (.inl hr)
    · exact .inl (.inr (.inl ho))
    · rw [hq] at hx
      rcases List.mem_cons.mp hx with rfl | hx
      · by_cases hjn : j < x.offset + n
        · refine .inr ⟨hc.1, ?_⟩
          simp only [List.length_take]; omega
        · refine .inl (.inr (.inr ⟨_, List.mem_cons_self, ?_⟩))
          refine ⟨by simp only; omega, ?_⟩
          have := hc.2
          simp only [List.length_drop]; omega
      · exact .inl (.inr (.inr ⟨x, List.mem_cons_of_mem _ hx, hc⟩))
  · rcases L.fin_acct hfs with hr | ho | ⟨x, hx, hc⟩
    · exact .inl (.inl hr)
    · exact .inl (.inr (.inl ho))
    · rw [hq] at hx
      rcases List.mem_cons.mp hx with rfl | hx
      · exact .inl (.inr (.inr ⟨_, List.mem_cons_self, hc⟩))
      · exact .inl (.inr (.inr ⟨x, List.mem_cons_of_mem _ hx, hc⟩))

theorem acct_mono {s s1 : State} (h1 : s1.ackedRanges = s.ackedRanges) (h2 : s1.outstanding = s.outstanding)
    (h3 : s1.retransQ = s.retransQ) {i : Nat} (h : Accounted s i) : Accounted s1 i := by
  unfold Accounted at *; rw [h1, h2, h3]; exact h

theorem finAcct_mono {s s1 : State} (h1 : s1.ackedFin = s.ackedFin) (h2 : s1.outstanding = s.outstanding)
    (h3 : s1.retransQ = s.retransQ) (h : FinAccounted s) : FinAccounted s1 := by
  unfold FinAccounted at *; rw [h1, h2, h3]; exact h

theorem preInv_finOnly {s : State} (L : LiveInv s) (hd : s.dataForWriting = []) (hnf : s.nextFrame = none)
    (hfw : s.finishedWriting = true) :
    PreInv { s with finSent := true } { offset := s.writeOffset, data := [], fin := true, dataLenPresent := true } := by
  have hend : s.writeOffset = s.written.length := by
    have := L.tail_eq
    simp only [tail, nfData, hnf, nfDataOf, hd, List.append_nil] at this
    have := List.drop_eq_nil_iff.mp this.symm
    have := L.wo_le
    omega
  refine ⟨L.tail_eq, L.wo_le, L.nf_ok, L.idle_dfw, fun x hx => ?_, fun e he => ?_, ?_, L.count, fun j hj => ?_, fun _ => .inr rfl, L.qr_none, L.not_dead⟩
  · exact ⟨(Faithful.congr rfl rfl).mpr (L.q_faith x hx).1, (L.q_faith x hx).2⟩
  · exact ⟨(Faithful.congr rfl rfl).mpr (L.o_faith e he).1, (L.o_faith e he).2⟩
  · exact ⟨⟨List.nil_prefix, fun _ => ⟨hfw, by simpa using hend⟩⟩, by simp⟩
  · exact .inl (acct_mono rfl rfl rfl (L.acct j hj))

theorem preInv_newData {s s1 : State} {f0 : Frame} (L : LiveInv s) (hok : PopNewOk s s1 f0) :
    PreInv { s1 with writeOffset := s.writeOffset + f0.data.length,
                     finSent := s.finSent || (s.finishedWriting && s1.dataForWriting.isEmpty && s1.nextFrame.isNone && !s.finSent) }
      { f0 with fin := (s.finishedWriting && s1.dataForWriting.isEmpty && s1.nextFrame.isNone && !s.finSent) } := by
  obtain ⟨nf', dfw', sig', hs1, hoff, hfin0, hne, hlen, htail, hnf', hdfw⟩ := hok
  subst hs1
  have hW : s.written.drop s.writeOffset = f0.data ++ (nfDataOf nf' ++ dfw') := by rw [← L.tail_eq, htail]
  have hpre : f0.data <+: s.written.drop s.writeOffset := by rw [hW]; exact List.prefix_append _ _
  have hwo : s.writeOffset + f0.data.length ≤ s.written.length := prefix_drop_length_le hpre hne
  have htail' : nfDataOf nf' ++ dfw' = s.written.drop (s.writeOffset + f0.data.length) := by
    rw [← List.drop_drop, hW, List.drop_left]
  refine ⟨htail', hwo, hnf', fun hp => hdfw (L.idle_dfw hp), fun x hx => ?_, fun e he => ?_, ?_, L.count, fun j hj => ?_, fun hfs => ?_, L.qr_none, L.not_dead⟩
  · exact ⟨(Faithful.congr rfl rfl).mpr (L.q_faith x hx).1, (L.q_faith x hx).2⟩
  · exact ⟨(Faithful.congr rfl rfl).mpr (L.o_faith e he).1, (L.o_faith e he).2⟩
  · refine ⟨⟨by simpa [hoff] using hpre, fun hfin => ?_⟩, hlen⟩
    simp only [Bool.and_eq_true, Bool.not_eq_eq_eq_not, Bool.not_true, List.isEmpty_iff, Option.isNone_iff_eq_none] at hfin
    obtain ⟨⟨⟨hfw, hd⟩, hn⟩, _⟩ := hfin
    refine ⟨hfw, ?_⟩
    simp only [hd, hn, nfDataOf, List.append_nil] at htail'
    have := List.drop_eq_nil_iff.mp htail'.symm
    simp only [hoff]; omega
  · by_cases hjw : j < s.writeOffset
    · exact .inl (acct_mono rfl rfl rfl (L.acct j hjw))
    · refine .inr ⟨by simp only [hoff]; omega, ?_⟩
      simp only [hoff]; exact hj
  · simp only [Bool.or_eq_true] at hfs
    rcases hfs with hfs | hfs
    · exact .inl (finAcct_mono rfl rfl rfl (L.fin_acct hfs))
    · exact .inr hfs

theorem popInner_notlive (s : State) (mb w : Nat) (nb : Bool) (hnl : ¬ Live s) (hro : s.reliableOffset = 0) :
    popInner s mb w nb = (s, {}) := by
  unfold popInner
  by_cases hs : s.shutdown = true
  · simp [hs]
  · have hr : s.resetErr.isSome = true := by
      cases hr : s.resetErr with
      | none => exact absurd ⟨hr, by simpa using hs⟩ hnl
      | some _ => rfl
    simp [hs, hr, hro]

/-- the invariant after `addOut` when the pre-state `s1` agrees with `s` on the ghost fields -/
theorem inv_addOut {s s1 : State} {f : Frame} (h : Inv s) (p : PreInv s1 f)
    (hw : s1.written = s.written) (hfw : s1.finishedWriting = s.finishedWriting) (hem : s1.emitted = s.emitted)
    (hro : s1.reliableOffset = 0) : Inv (addOut s1 f) := by
  refine ⟨hro, fun g hg => ?_, fun _ => liveInv_addOut p⟩
  simp only [addOut, List.mem_append, List.mem_singleton] at hg
  rcases hg with hg | rfl
  · rw [hem] at hg
    exact (Faithful.congr (s := s) hw hfw).mpr (h.emitted_faith g hg)
  · exact (Faithful.congr rfl rfl).mpr p.f_faith.1

theorem inv_pop {s : State} (h : Inv s) (mb w : Nat) (nb : Bool) (hmb : mb ≤ maxPacketBufferSize) :
    Inv (pop s mb w nb).1 := by
  by_cases hl : Live s
  · have L := h.live hl
    have k := popInner_live s mb w nb hl hmb L.nf_ok
    cases k with
    | nothing h1 h2 => rw [pop_none h2, h1]; exact h
    | retransWhole g rest hq h1 h2 =>
      rw [pop_some h2, h1]
      exact inv_addOut h (preInv_retransWhole L hq) rfl rfl rfl h.ro0
    | retransSplit g rest hq hn hfit h1 h2 =>
      rw [pop_some h2, h1]
      have hg : g ∈ s.retransQ := by simp [hq]
      have hlt := maxDataLen_lt_of_not_fit (Nat.le_trans (L.q_faith g hg).2 mpbs_le_v2) hfit hn
      exact inv_addOut h (preInv_retransSplit L hq hn hlt) rfl rfl rfl h.ro0
    | finOnly hd hnf hfw hfs h1 h2 =>
      rw [pop_some h2, h1]
      exact inv_addOut h (preInv_finOnly L hd hnf hfw) rfl rfl rfl h.ro0
    | newData f0 s1 hq hok fin hfin h1 h2 =>
      rw [pop_some h2, h1, hfin]
      obtain ⟨nf', dfw', sig', hs1, _⟩ := id hok
      have p := preInv_newData L hok
      subst hs1
      exact inv_addOut h p rfl rfl rfl h.ro0
  · have := popInner_notlive s mb w nb hl h.ro0
    have h2 : (popInner s mb w nb).2.frame = none := by rw [this]
    rw [pop_none h2, this]; exact h

/-- `LiveInv` without the clause about an idle `dataForWriting` (which `Write` re-establishes itself) -/
structure LiveCore (s : State) : Prop where
  tail_eq : tail s = s.written.drop s.writeOffset
  wo_le : s.writeOffset ≤ s.written.length
  nf_ok : NfOk s
  q_faith : ∀ f ∈ s.retransQ, Faithful s f ∧ f.data.length ≤ maxPacketBufferSize
  o_faith : ∀ e ∈ s.outstanding, Faithful s e.2 ∧ e.2.data.length ≤ maxPacketBufferSize
  count : s.numOutstanding = s.outstanding.length
  acct : ∀ i, i < s.writeOffset → Accounted s i
  fin_acct : s.finSent = true → FinAccounted s
  qr_none : s.queuedReset = none
  not_dead : s.dead = false

theorem LiveInv.core {s : State} (L : LiveInv s) : LiveCore s :=
  ⟨L.tail_eq, L.wo_le, L.nf_ok, L.q_faith, L.o_faith, L.count, L.acct, L.fin_acct, L.qr_none, L.not_dead⟩

theorem liveInv_writeIter {t : State} {p : Pending} (hl : Live t) (L : LiveCore t) : LiveInv (writeIter t p).1 := by
  obtain ⟨nf', dfw', pd', hs', ht, hnf', hpd⟩ := writeIter_live t p hl L.nf_ok
  rw [hs']
  refine ⟨?_, L.wo_le, hnf', hpd, fun x hx => ?_, fun e he => ?_, L.count, fun j hj => ?_, fun hfs => ?_, L.qr_none, L.not_dead⟩
  · show nfDataOf nf' ++ dfw' = _
    rw [ht]; exact L.tail_eq
  · exact ⟨(Faithful.congr rfl rfl).mpr (L.q_faith x hx).1, (L.q_faith x hx).2⟩
  · exact ⟨(Faithful.congr rfl rfl).mpr (L.o_faith e he).1, (L.o_faith e he).2⟩
  · exact acct_mono rfl rfl rfl (L.acct j hj)
  · exact finAcct_mono rfl rfl rfl (L.fin_acct hfs)

theorem inv_write {s : State} (h : Inv s) (p : Bytes) : Inv (writeCall s p).1 := by
  rcases writeCall_fst s p with h1 | ⟨hr, c, h1⟩ | ⟨hp, hr, hs, hf, hne, h1⟩
  · rw [h1]; exact h
  · rw [h1]
    refine inv_of_quiet_notlive h ⟨rfl, rfl, rfl, rfl, rfl, .inl rfl⟩ (fun hl => ?_)
    have := hl.1; simp only at this; simp [this] at hr
  · rw [h1]
    have hl : Live s := ⟨hr, hs⟩
    have L := h.live hl
    have hd : s.dataForWriting = [] := L.idle_dfw hp
    have hext : Ext s { s with dataForWriting := p, written := s.written ++ p, pending := some { plen := p.length, notified := false } } :=
      ⟨⟨p, rfl, fun hfw => by simp [hf] at hfw⟩, fun hfw => by simp [hf] at hfw⟩
    have hst := writeIter_stable { s with dataForWriting := p, written := s.written ++ p, pending := some { plen := p.length, notified := false } } { plen := p.length, notified := false }
    refine ⟨reliableOffset_congr hst.supportsResetAt (.inl hst.reliableSize) h.ro0, fun g hg => ?_, fun _ => ?_⟩
    · rw [hst.emitted] at hg
      exact (Faithful.congr hst.written hst.finishedWriting).mpr (Faithful.ext (h.emitted_faith g hg) hext)
    · refine liveInv_writeIter ⟨hr, hs⟩ ⟨?_, ?_, L.nf_ok, fun x hx => ?_, fun e he => ?_, L.count, fun j hj => ?_, fun hfs => ?_, L.qr_none, L.not_dead⟩
      · show nfData s ++ p = (s.written ++ p).drop s.writeOffset
        rw [List.drop_append_of_le_length L.wo_le, ← L.tail_eq]
        simp [tail, hd]
      · simp only [List.length_append]; have := L.wo_le; omega
      · exact ⟨Faithful.ext (L.q_faith x hx).1 hext, (L.q_faith x hx).2⟩
      · exact ⟨Faithful.ext (L.o_faith e he).1 hext, (L.o_faith e he).2⟩
      · exact acct_mono rfl rfl rfl (L.acct j hj)
      · exact finAcct_mono rfl rfl rfl (L.fin_acct hfs)

theorem inv_wake {s : State} (h : Inv s) : Inv (wake s).1 := by
  rcases wake_fst s with h1 | ⟨p, hp, hsig, h1⟩
  · rw [h1]; exact h
  · rw [h1]
    have hst := writeIter_stable { s with signal := false } p
    by_cases hl : Live s
    · have L := h.live hl
      refine ⟨reliableOffset_congr hst.supportsResetAt (.inl hst.reliableSize) h.ro0, fun g hg => ?_, fun _ => ?_⟩
      · rw [hst.emitted] at hg
        exact (Faithful.congr hst.written hst.finishedWriting).mpr (h.emitted_faith g hg)
      · refine liveInv_writeIter hl ⟨L.tail_eq, L.wo_le, L.nf_ok, fun x hx => ?_, fun e he => ?_, L.count, fun j hj => ?_, fun hfs => ?_, L.qr_none, L.not_dead⟩
        · exact ⟨(Faithful.congr rfl rfl).mpr (L.q_faith x hx).1, (L.q_faith x hx).2⟩
        · exact ⟨(Faithful.congr rfl rfl).mpr (L.o_faith e he).1, (L.o_faith e he).2⟩
        · exact acct_mono rfl rfl rfl (L.acct j hj)
        · exact finAcct_mono rfl rfl rfl (L.fin_acct hfs)
    · have hst' : Stable s (writeIter { s with signal := false } p).1 := Stable.trans (by constructor <;> rfl) hst
      exact inv_of_quiet_notlive h hst'.quiet (notlive_of_stable hst' hl)

theorem Faithful.close {s : State} {f : Frame} {cf c : Bool} (h : Faithful s f) :
    Faithful { s with finishedWriting := true, cancellationFlagged := cf, completed := c } f :=
  ⟨h.1, fun hfin => ⟨rfl, (h.2 hfin).2⟩⟩

theorem inv_close {s : State} (h : Inv s) : Inv (close s).1 := by
  rcases close_fst s with h1 | ⟨hs, hf, cf, c, h1⟩
  · rw [h1]; exact h
  · rw [h1]
    refine ⟨h.ro0, fun g hg => Faithful.close (h.emitted_faith g hg), fun hl => ?_⟩
    have L := h.live hl
    refine ⟨L.tail_eq, L.wo_le, L.nf_ok, L.idle_dfw, fun x hx => ?_, fun e he => ?_, L.count, fun j hj => ?_, fun hfs => ?_, L.qr_none, L.not_dead⟩
    · exact ⟨Faithful.close (L.q_faith x hx).1, (L.q_faith x hx).2⟩
    · exact ⟨Faithful.close (L.o_faith e he).1, (L.o_faith e he).2⟩
    · exact acct_mono rfl rfl rfl (L.acct j hj)
    · exact finAcct_mono rfl rfl rfl (L.fin_acct hfs)

theorem inv_cancel {s : State} (h : Inv s) (c : Nat) : Inv (cancelWrite s c).1 :=
  inv_of_quiet_notlive h (cancelWrite_spec s c).1 (cancelWrite_spec s c).2

theorem inv_stop {s : State} (h : Inv s) (c : Nat) : Inv (stopSending s c).1 :=
  inv_of_quiet_notlive h (stopSending_spec s c).1 (stopSending_spec s c).2

theorem liveInv_signal {s : State} {b : Bool} (L : LiveInv s) : LiveInv { s with signal := b } :=
  ⟨L.tail_eq, L.wo_le, L.nf_ok, L.idle_dfw,
   fun x hx => ⟨(Faithful.congr rfl rfl).mpr (L.q_faith x hx).1, (L.q_faith x hx).2⟩,
   fun e he => ⟨(Faithful.congr rfl rfl).mpr (L.o_faith e he).1, (L.o_faith e he).2⟩,
   L.count, fun j hj => acct_mono rfl rfl rfl (L.acct j hj), fun hfs => finAcct_mono rfl rfl rfl (L.fin_acct hfs),
   L.qr_none, L.not_dead⟩

theorem inv_shutdown {s : State} (h : Inv s) : Inv (shutdownStep s) := by
  obtain ⟨hq, hlive⟩ := shutdownStep_spec s
  by_cases hl : Live (shutdownStep s)
  · have heq := hlive hl
    rw [heq] at hl ⊢
    exact ⟨h.ro0, fun g hg => (Faithful.congr rfl rfl).mpr (h.emitted_faith g hg), fun _ => liveInv_signal (h.live hl)⟩
  · exact inv_of_quiet_notlive h hq hl

theorem inv_boundary {s : State} (h : Inv s) (hs : s.supportsResetAt = false) : Inv (setReliableBoundary s) := by
  unfold setReliableBoundary
  refine ⟨by simp [State.reliableOffset, hs], fun g hg => (Faithful.congr rfl rfl).mpr (h.emitted_faith g hg), fun hl => ?_⟩
  have L := h.live hl
  exact ⟨L.tail_eq, L.wo_le, L.nf_ok, L.idle_dfw,
   fun x hx => ⟨(Faithful.congr rfl rfl).mpr (L.q_faith x hx).1, (L.q_faith x hx).2⟩,
   fun e he => ⟨(Faithful.congr rfl rfl).mpr (L.o_faith e he).1, (L.o_faith e he).2⟩,
   L.count, fun j hj => acct_mono rfl rfl rfl (L.acct j hj), fun hfs => finAcct_mono rfl rfl rfl (L.fin_acct hfs),
   L.qr_none, L.not_dead⟩

theorem inv_ctrl {s : State} (h : Inv s) : Inv (getControlFrame s).1 := by
  obtain ⟨hst, hnone⟩ := getControlFrame_spec s
  by_cases hl : Live s
  · rw [hnone (h.live hl).qr_none]; exact h
  · exact inv_of_quiet_notlive h hst.quiet (notlive_of_stable hst hl)

theorem inv_resetAcked {s : State} (h : Inv s) (f : ResetFrame) (hr : s.resetErr.isSome = true) : Inv (resetAcked s f).1 :=
  have hnl : ¬ Live s := fun hl => by simp [hl.1] at hr
  inv_of_quiet_notlive h (resetAcked_stable s f).quiet (notlive_of_stable (resetAcked_stable s f) hnl)

theorem inv_resetLost {s : State} (h : Inv s) (f : ResetFrame) (hr : s.resetErr.isSome = true) : Inv (resetLost s f).1 :=
  have hnl : ¬ Live s := fun hl => by simp [hl.1] at hr
  inv_of_quiet_notlive h (resetLost_stable s f).quiet (notlive_of_stable (resetLost_stable s f) hnl)

/-- every step preserves the invariant (a `boundary` step only without RESET_STREAM_AT support) -/
theorem inv_step {s : State} (h : Inv s) (op : Op) (hb : op = .boundary → s.supportsResetAt = false) :
    Inv (stepOp s op) := by
  unfold stepOp
  split
  · exact h
  · cases op with
    | write p => exact inv_write h p
    | wake => exact inv_wake h
    | close => exact inv_close h
    | pop mb w nb =>
      simp only
      split
      · rename_i hmb; exact inv_pop h mb w nb hmb
      · exact h
    | acked i => exact inv_acked h i
    | lost i => exact inv_lost h i
    | cancel c => exact inv_cancel h c
    | stop c => exact inv_stop h c
    | shutdown => exact inv_shutdown h
    | boundary => exact inv_boundary h (hb rfl)
    | ctrl => exact inv_ctrl h
    | resetAcked f =>
      simp only
      split
      · rename_i hr; exact inv_resetAcked h f hr
      · exact h
    | resetLost f =>
      simp only
      split
      · rename_i hr; exact inv_resetLost h f hr
      · exact h

theorem inv_init (sid : Nat) (sup : Bool) : Inv (init sid sup) := by
  refine ⟨by cases sup <;> rfl, fun g hg => by simp [init] at hg, fun _ => ?_⟩
  refine ⟨by simp [init, tail, nfData, nfDataOf], by simp [init], fun g hg => by simp [init] at hg, fun _ => rfl,
    fun x hx => by simp [init] at hx, fun e he => by simp [init] at he, by simp [init], fun j hj => by simp [init] at hj,
    fun hfs => by simp [init] at hfs, rfl, rfl⟩

theorem supports_pop {s : State} (h : Inv s) (mb w : Nat) (nb : Bool) (hmb : mb ≤ maxPacketBufferSize) :
    (pop s mb w nb).1.supportsResetAt = s.supportsResetAt := by
  by_cases hl : Live s
  · have L := h.live hl
    have k := popInner_live s mb w nb hl hmb L.nf_ok
    cases k with
    | nothing h1 h2 => rw [pop_none h2, h1]
    | retransWhole g rest hq h1 h2 => rw [pop_some h2, h1]; rfl
    | retransSplit g rest hq hn hfit h1 h2 => rw [pop_some h2, h1]; rfl
    | finOnly hd hnf hfw hfs h1 h2 => rw [pop_some h2, h1]; rfl
    | newData f0 s1 hq hok fin hfin h1 h2 =>
      rw [pop_some h2, h1]
      obtain ⟨nf', dfw', sig', hs1, _⟩ := hok
      subst hs1; rfl
  · have := popInner_notlive s mb w nb hl h.ro0
    have h2 : (popInner s mb w nb).2.frame = none := by rw [this]
    rw [pop_none h2, this]

theorem supports_step {s : State} (h : Inv s) (op : Op) : (stepOp s op).supportsResetAt = s.supportsResetAt := by
  unfold stepOp
  split
  · rfl
  · cases op with
    | write p =>
      rcases writeCall_fst s p with h1 | ⟨_, c, h1⟩ | ⟨_, _, _, _, _, h1⟩
      · simp only [h1]
      · simp only [h1]
      · simp only [h1]; exact (writeIter_stable _ _).supportsResetAt
    | wake =>
      rcases wake_fst s with h1 | ⟨p, _, _, h1⟩
      · simp only [h1]
      · simp only [h1]; exact (writeIter_stable _ _).supportsResetAt
    | close =>
      rcases close_fst s with h1 | ⟨_, _, cf, c, h1⟩
      · simp only [h1]
      · simp only [h1]
    | pop mb w nb =>
      simp only
      split
      · rename_i hmb; exact supports_pop h mb w nb hmb
      · rfl
    | acked i => exact (acked_stable s i).supportsResetAt
    | lost i => exact (lost_stable s i).supportsResetAt
    | cancel c => exact (cancelWrite_spec s c).1.supportsResetAt
    | stop c => exact (stopSending_spec s c).1.supportsResetAt
    | shutdown => exact (shutdownStep_spec s).1.supportsResetAt
    | boundary => rfl
    | ctrl => exact (getControlFrame_spec s).1.supportsResetAt
    | resetAcked f =>
      simp only
      split
      · exact (resetAcked_stable s f).supportsResetAt
      · rfl
    | resetLost f =>
      simp only
      split
      · exact (resetLost_stable s f).supportsResetAt
      · rfl

/-- the invariant holds after every history with classic reset semantics -/
theorem inv_run_from {sup : Bool} {s : State} (h : Inv s) (hs : s.supportsResetAt = sup) (ops : List Op)
    (hc : Classic sup ops) : Inv (run s ops) ∧ (run s ops).supportsResetAt = sup := by
  induction ops generalizing s with
  | nil => exact ⟨h, hs⟩
  | cons op rest ih =>
    have hb : op = .boundary → s.supportsResetAt = false := by
      intro hop
      rcases hc with hc | hc
      · rw [hs]; exact hc
      · exact absurd (by simp [hop]) hc
    have h' := inv_step h op hb
    have hs' : (stepOp s op).supportsResetAt = sup := by rw [supports_step h op, hs]
    have hc' : Classic sup rest := by
      rcases hc with hc | hc
      · exact .inl hc
      · exact .inr (fun hm => hc (List.mem_cons_of_mem _ hm))
    exact ih h' hs' hc'

theorem inv_run (sid : Nat) (sup : Bool) (ops : List Op) (hc : Classic sup ops) : Inv (run (init sid sup) ops) :=
  (inv_run_from (inv_init sid sup) rfl ops hc).1

end Uquic.Proofs.Send
