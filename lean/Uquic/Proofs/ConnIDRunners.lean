/-
One connection ID generator, several transports (Model/ConnID/Runners.lean): helper lemmas for Props.C16Runners.

* the fan-out of the routing callbacks is a pointwise map over the registered runners (`fanAll_eq`), and so is the
  fan-out of the faithful `ReplaceWithClosed` (`fanReplace_faithful`) — the shared slice comes back untouched;
* the invariant `MInv`: runner 0 routes exactly the generator's IDs (`RInv`), every other runner routes a subset of
  them that contains every current (not yet retired) ID if it is registered, and nothing if it is not;
* after the close every runner is clean (`removeAll_runner_clean`, `replace_clean_sub`).
-/
import Uquic.Model.ConnID.Runners
import Uquic.Proofs.ConnIDClose

namespace Uquic.Proofs.ConnID
open Uquic.Model.ConnID

/-! ### the fan-out is pointwise -/

/-- apply `f` to the table of a registered runner -/
def mapTable (f : Routing → Routing) (r : Runner) : Runner :=
  if r.registered then { r with table := f r.table } else r

theorem mapTable_registered (f : Routing → Routing) (r : Runner) : (mapTable f r).registered = r.registered := by
  unfold mapTable; split <;> rfl

theorem mapTable_id (r : Runner) : mapTable (fun t => t) r = r := by
  unfold mapTable; split <;> rfl

theorem mapTable_comp (f g : Routing → Routing) (r : Runner) : mapTable g (mapTable f r) = mapTable (fun t => g (f t)) r := by
  unfold mapTable
  by_cases h : r.registered <;> simp [h]

theorem fanG_eq (ev : GEv) (rs : List Runner) : fanG ev rs = rs.map (mapTable fun t => t.applyG ev) := rfl

theorem fanAll_eq : ∀ (evs : List GEv) (rs : List Runner),
    fanAll evs rs = rs.map (mapTable fun t => evs.foldl Routing.applyG t)
  | [], rs => by
    simp only [fanAll, List.foldl_nil]
    conv => lhs; rw [← List.map_id rs]
    apply List.map_congr_left
    intro r _; exact (mapTable_id r).symm
  | ev :: evs, rs => by
    have ih := fanAll_eq evs (fanG ev rs)
    simp only [fanAll, List.foldl_cons] at ih ⊢
    rw [ih, fanG_eq, List.map_map]
    apply List.map_congr_left
    intro r _
    simp only [Function.comp, mapTable_comp]

theorem replaceAliased_same (r : Routing) (ids : List Bytes) (l : Bool) (e : Int) :
    r.replaceAliased ids ids l e = r.replaceWithClosed ids l e := rfl

/-- the faithful `ReplaceWithClosed` reads the shared slice only: the fan-out hands every registered runner the very
    list the generator built, that list comes back unchanged, and each runner's step is its own `replaceWithClosed` -/
theorem fanReplace_faithful (l : Bool) (e : Int) : ∀ (ids : List Bytes) (rs : List Runner),
    fanReplace .faithful l e ids rs = (ids, rs.map (mapTable fun t => t.replaceWithClosed ids l e))
  | ids, [] => rfl
  | ids, r :: rs => by
    unfold fanReplace
    have ih := fanReplace_faithful l e ids rs
    by_cases h : r.registered
    · simp only [h, ↓reduceIte, replaceWindow, List.take_length, ih, replaceAliased_same, List.map_cons, mapTable]
    · simp only [h, Bool.false_eq_true, ↓reduceIte, ih, List.map_cons, mapTable]

/-! ### keys of a table under the generator's callbacks -/

/-- the generator's own steps never emit `ReplaceWithClosed` -/
def NoReplace (evs : List GEv) : Prop := ∀ ev ∈ evs, ∀ ids l e, ev ≠ GEv.replaceClosed ids l e

theorem applyG_mono {r1 r2 : Routing} (h1 : MapOK r1) (h2 : MapOK r2) (hsub : ∀ x ∈ keysOf r1, x ∈ keysOf r2) (ev : GEv)
    (hev : ∀ ids l e, ev ≠ GEv.replaceClosed ids l e) :
    MapOK (r1.applyG ev) ∧ MapOK (r2.applyG ev) ∧ ∀ x ∈ keysOf (r1.applyG ev), x ∈ keysOf (r2.applyG ev) := by
  cases ev with
  | addRoute id =>
    have a1 := add_ok h1 id; have a2 := add_ok h2 id
    refine ⟨a1.1, a2.1, ?_⟩
    intro x hx
    rcases (a1.2 x).mp hx with hx | hx
    · exact (a2.2 x).mpr (Or.inl (hsub x hx))
    · exact (a2.2 x).mpr (Or.inr hx)
  | rmRoute id =>
    have a1 := remove_ok h1 id; have a2 := remove_ok h2 id
    refine ⟨a1.1, a2.1, ?_⟩
    intro x hx
    have := (a1.2 x).mp hx
    exact (a2.2 x).mpr ⟨hsub x this.1, this.2⟩
  | replaceClosed ids l e => exact absurd rfl (hev ids l e)
  | newFrame s id => exact ⟨h1, h2, hsub⟩

theorem foldl_applyG_mono : ∀ (evs : List GEv) {r1 r2 : Routing}, MapOK r1 → MapOK r2 → (∀ x ∈ keysOf r1, x ∈ keysOf r2) →
    NoReplace evs →
    MapOK (evs.foldl Routing.applyG r1) ∧ ∀ x ∈ keysOf (evs.foldl Routing.applyG r1), x ∈ keysOf (evs.foldl Routing.applyG r2)
  | [], _, _, h1, _, hsub, _ => ⟨h1, hsub⟩
  | ev :: evs, _, _, h1, h2, hsub, hn => by
    simp only [List.foldl_cons]
    have := applyG_mono h1 h2 hsub ev (hn ev (by simp))
    exact foldl_applyG_mono evs this.1 this.2.1 this.2.2 (fun ev' hev' => hn ev' (List.mem_cons_of_mem _ hev'))

theorem foldl_add_ok : ∀ (ids : List Bytes) {r : Routing}, MapOK r →
    MapOK (ids.foldl Routing.add r) ∧ ∀ x, x ∈ keysOf (ids.foldl Routing.add r) ↔ x ∈ keysOf r ∨ x ∈ ids
  | [], _, h => ⟨h, by simp⟩
  | id :: ids, r, h => by
    simp only [List.foldl_cons]
    have a := add_ok h id
    have ih := foldl_add_ok ids a.1
    refine ⟨ih.1, ?_⟩
    intro x
    rw [ih.2 x, a.2 x]
    simp only [List.mem_cons]
    constructor
    · rintro ((h | h) | h); exact Or.inl h; exact Or.inr (Or.inl h); exact Or.inr (Or.inr h)
    · rintro (h | h | h); exact Or.inl (Or.inl h); exact Or.inl (Or.inr h); exact Or.inr h

theorem advance_noTimers {r : Routing} (h : r.timers = []) (d : Int) :
    (r.advance d).handlers = r.handlers ∧ (r.advance d).timers = [] := by
  unfold Routing.advance
  simp [h]

theorem mapOK_advance {r : Routing} (h : MapOK r) (d : Int) : MapOK (r.advance d) ∧ keysOf (r.advance d) = keysOf r := by
  have := advance_noTimers h.noTimers d
  refine ⟨⟨?_, ?_, this.2⟩, ?_⟩
  · intro kv hkv; rw [this.1] at hkv; exact h.allConn kv hkv
  · unfold keysOf; rw [this.1]; exact h.nodup
  · unfold keysOf; rw [this.1]

/-! ### the invariant -/

theorem allIDs_eq (g : Generator) : g.allIDs = g.currentIDs ++ g.toRetire.map (·.2) := rfl

/-- what the generator's state requires of one runner -/
structure RunnerOK (g : Generator) (r : Runner) : Prop where
  map : MapOK r.table
  /-- it routes nothing but connection IDs the generator still answers for -/
  sub : ∀ x ∈ keysOf r.table, x ∈ g.allIDs
  /-- a transport the connection is not registered with routes nothing to it -/
  unreg : r.registered = false → r.table.handlers = []
  /-- a registered transport routes every connection ID that is in use (not retired) -/
  cur : r.registered = true → ∀ x ∈ g.currentIDs, x ∈ keysOf r.table

structure MInv (mk : Nat → Bytes) (I : List Bytes) (s : MSys) : Prop where
  /-- the transport the connection was set up on routes exactly the generator's IDs -/
  first : ∃ r0 rest, s.runners = r0 :: rest ∧ r0.registered = true ∧ RInv mk I s.g r0.table
  all : ∀ r ∈ s.runners, RunnerOK s.g r

theorem issue_noReplace (mk : Nat → Bytes) (g : Generator) : NoReplace (g.issueNewConnID mk).2 := by
  intro ev hev ids l e
  simp only [Generator.issueNewConnID, List.mem_cons, List.not_mem_nil, or_false] at hev
  rcases hev with rfl | rfl <;> simp

theorem issueN_noReplace (mk : Nat → Bytes) : ∀ (n : Nat) (g : Generator), NoReplace (Generator.issueN mk n g).2
  | 0, g => by intro ev hev; simp [Generator.issueN] at hev
  | n + 1, g => by
    intro ev hev
    simp only [Generator.issueN, List.mem_append] at hev
    rcases hev with hev | hev
    · exact issue_noReplace mk g ev hev
    · exact issueN_noReplace mk n _ ev hev

theorem step_noReplace (mk : Nat → Bytes) (g : Generator) (op : GOp) : NoReplace (g.step mk op).2.1 := by
  cases op with
  | setMax l =>
    simp only [Generator.step, Generator.setMaxActiveConnIDs]
    split
    · intro ev hev; simp at hev
    · exact issueN_noReplace mk _ g
  | retire s d e =>
    simp only [Generator.step, Generator.retire]
    split
    · intro ev hev; simp at hev
    split
    · intro ev hev; simp at hev
    split
    · intro ev hev; simp at hev
    split
    · intro ev hev; simp at hev
    · exact issue_noReplace mk _
  | hsDone e => intro ev hev; simp [Generator.step] at hev
  | removeRetired n =>
    intro ev hev ids l e
    simp only [Generator.step, Generator.removeRetiredConnIDs, List.mem_map] at hev
    obtain ⟨c, _, rfl⟩ := hev
    simp

theorem currentIDs_issue (mk : Nat → Bytes) (g : Generator) :
    (g.issueNewConnID mk).1.currentIDs = g.currentIDs ++ [mk g.generated] := by
  simp [Generator.issueNewConnID, Generator.currentIDs, List.append_assoc]

theorem issue_cur (mk : Nat → Bytes) {g : Generator} {t : Routing} (hm : MapOK t) (hc : ∀ x ∈ g.currentIDs, x ∈ keysOf t) :
    MapOK ((g.issueNewConnID mk).2.foldl Routing.applyG t) ∧
    ∀ x ∈ (g.issueNewConnID mk).1.currentIDs, x ∈ keysOf ((g.issueNewConnID mk).2.foldl Routing.applyG t) := by
  rw [currentIDs_issue]
  simp only [Generator.issueNewConnID, List.foldl_cons, List.foldl_nil, Routing.applyG]
  have a := add_ok hm (mk g.generated)
  refine ⟨a.1, ?_⟩
  intro x hx
  rw [a.2 x]
  simp only [List.mem_append, List.mem_singleton] at hx
  rcases hx with hx | hx
  · exact Or.inl (hc x hx)
  · exact Or.inr hx

theorem issueN_cur (mk : Nat → Bytes) : ∀ (n : Nat) {g : Generator} {t : Routing}, MapOK t → (∀ x ∈ g.currentIDs, x ∈ keysOf t) →
    ∀ x ∈ (Generator.issueN mk n g).1.currentIDs, x ∈ keysOf ((Generator.issueN mk n g).2.foldl Routing.applyG t)
  | 0, _, _, _, hc => by simpa [Generator.issueN] using hc
  | n + 1, g, t, hm, hc => by
    simp only [Generator.issueN, List.foldl_append]
    have h1 := issue_cur mk hm hc
    exact issueN_cur mk n h1.1 h1.2

theorem step_cur (mk : Nat → Bytes) {g : Generator} (hnd : g.allIDs.Nodup) {t : Routing} (hm : MapOK t)
    (hc : ∀ x ∈ g.currentIDs, x ∈ keysOf t) (op : GOp) :
    ∀ x ∈ (g.step mk op).1.currentIDs, x ∈ keysOf ((g.step mk op).2.1.foldl Routing.applyG t) := by
  cases op with
  | setMax l =>
    simp only [Generator.step, Generator.setMaxActiveConnIDs]
    split
    · simpa using hc
    · exact issueN_cur mk _ hm hc
  | retire s d e =>
    simp only [Generator.step, Generator.retire]
    split
    · simpa using hc
    split
    · simpa using hc
    split
    · simpa using hc
    rename_i id hl _
    have hc1 : ∀ x ∈ ({ g with toRetire := insertRetire e id g.toRetire,
                               active := g.active.filter fun kv => kv.1 ≠ s } : Generator).currentIDs, x ∈ keysOf t := by
      intro x hx
      apply hc x
      simp only [Generator.currentIDs, List.mem_append, List.mem_map] at hx ⊢
      rcases hx with hx | ⟨kv, hkv, rfl⟩
      · exact Or.inl hx
      · exact Or.inr ⟨kv, (List.mem_filter.mp hkv).1, rfl⟩
    split
    · simpa using hc1
    · exact (issue_cur mk hm hc1).2
  | hsDone e =>
    simp only [Generator.step, Generator.setHandshakeComplete, List.foldl_nil]
    split
    · intro x hx
      apply hc x
      simp only [Generator.currentIDs, Option.toList, List.nil_append, List.mem_append] at hx ⊢
      exact Or.inr hx
    · exact hc
  | removeRetired now =>
    simp only [Generator.step, Generator.removeRetiredConnIDs]
    have hev : (g.toRetire.takeWhile fun c => decide (¬ c.1 > now)).map (fun c => GEv.rmRoute c.2)
        = ((g.toRetire.takeWhile fun c => decide (¬ c.1 > now)).map (·.2)).map GEv.rmRoute := by simp
    rw [hev]
    have hrm := removeMany_ok ((g.toRetire.takeWhile fun c => decide (¬ c.1 > now)).map (·.2)) hm
    intro x hx
    have hx' : x ∈ g.currentIDs := hx
    rw [hrm.2 x]
    refine ⟨hc x hx', ?_⟩
    intro ht
    have htr : x ∈ g.toRetire.map (·.2) := by
      obtain ⟨c, hc', rfl⟩ := List.mem_map.mp ht
      exact List.mem_map.mpr ⟨c, (List.takeWhile_sublist _).subset hc', rfl⟩
    rw [allIDs_eq, List.nodup_append] at hnd
    exact hnd.2.2 x hx' x htr rfl

theorem currentIDs_sub_allIDs (g : Generator) : ∀ x ∈ g.currentIDs, x ∈ g.allIDs := by
  intro x hx; rw [allIDs_eq]; exact List.mem_append_left _ hx

/-- one generator step, seen from one runner -/
theorem step_runnerOK {mk : Nat → Bytes} {I : List Bytes} (hf : FreshGen mk I) {g : Generator} {r0 : Routing}
    (h0 : RInv mk I g r0) {r : Runner} (hr : RunnerOK g r) (op : GOp) :
    RunnerOK (g.step mk op).1 (mapTable (fun t => (g.step mk op).2.1.foldl Routing.applyG t) r) := by
  by_cases hreg : r.registered = true
  · have hsub0 : ∀ x ∈ keysOf r.table, x ∈ keysOf r0 := fun x hx => (h0.exact x).mpr (hr.sub x hx)
    have hmono := foldl_applyG_mono (g.step mk op).2.1 hr.map h0.map hsub0 (step_noReplace mk g op)
    have h0' := step_rinv hf h0 op
    simp only [mapTable, hreg, ↓reduceIte]
    refine ⟨hmono.1, ?_, ?_, ?_⟩
    · intro x hx; exact (h0'.exact x).mp (hmono.2 x hx)
    · intro h; simp at h
    · intro _; exact step_cur mk h0.idsNodup hr.map (hr.cur hreg) op
  · have hreg' : r.registered = false := by simpa using hreg
    have hnil := hr.unreg hreg'
    simp only [mapTable, hreg', Bool.false_eq_true, ↓reduceIte]
    refine ⟨hr.map, ?_, hr.unreg, ?_⟩
    · intro x hx; simp [keysOf, hnil] at hx
    · intro h; simp [hreg'] at h

theorem mem_modifyAt {α} (f : α → α) : ∀ (k : Nat) (l : List α) (y : α), y ∈ modifyAt f k l → y ∈ l ∨ ∃ x ∈ l, y = f x
  | _, [], y, h => by simp [modifyAt] at h
  | 0, x :: xs, y, h => by
    simp only [modifyAt, List.mem_cons] at h
    rcases h with rfl | h
    · exact Or.inr ⟨x, by simp, rfl⟩
    · exact Or.inl (List.mem_cons_of_mem _ h)
  | k + 1, x :: xs, y, h => by
    simp only [modifyAt, List.mem_cons] at h
    rcases h with rfl | h
    · exact Or.inl (by simp)
    · rcases mem_modifyAt f k xs y h with h | ⟨z, hz, rfl⟩
      · exact Or.inl (List.mem_cons_of_mem _ h)
      · exact Or.inr ⟨z, List.mem_cons_of_mem _ hz, rfl⟩

theorem modifyAt_head {α} (f : α → α) (k : Nat) (x : α) (xs : List α) (hx : f x = x) :
    ∃ rest, modifyAt f k (x :: xs) = x :: rest := by
  cases k with
  | zero => exact ⟨xs, by simp [modifyAt, hx]⟩
  | succ k => exact ⟨modifyAt f k xs, rfl⟩

/-- `AddConnRunner`, seen from the runner it is called for -/
theorem enable_runnerOK {g : Generator} {r : Runner} (hr : RunnerOK g r) : RunnerOK g (Runner.enable g r) := by
  unfold Runner.enable
  by_cases hreg : r.registered = true
  · simpa [hreg] using hr
  · have hreg' : r.registered = false := by simpa using hreg
    simp only [hreg', Bool.false_eq_true, ↓reduceIte]
    have ha := foldl_add_ok g.currentIDs hr.map
    have hnil := hr.unreg hreg'
    refine ⟨ha.1, ?_, ?_, ?_⟩
    · intro x hx
      rcases (ha.2 x).mp hx with hx | hx
      · simp [keysOf, hnil] at hx
      · exact currentIDs_sub_allIDs g x hx
    · intro h; simp at h
    · intro _ x hx; exact (ha.2 x).mpr (Or.inr hx)

theorem rinv_advance {mk : Nat → Bytes} {I : List Bytes} {g : Generator} {r : Routing} (h : RInv mk I g r) (d : Int) :
    RInv mk I g (r.advance d) := by
  have hm := mapOK_advance h.map d
  refine ⟨hm.1, ?_, h.idsNodup, h.known, h.seqNodup, h.seqLe⟩
  intro x; rw [hm.2]; exact h.exact x

theorem step_minv {mk : Nat → Bytes} {I : List Bytes} (hf : FreshGen mk I) {s : MSys} (h : MInv mk I s) (op : MOp) :
    MInv mk I (s.step mk op) := by
  obtain ⟨r0, rest, hrs, hreg0, h0⟩ := h.first
  cases op with
  | gen op =>
    simp only [MSys.step]
    rw [fanAll_eq]
    refine ⟨?_, ?_⟩
    · refine ⟨_, _, by rw [hrs, List.map_cons], by rw [mapTable_registered]; exact hreg0, ?_⟩
      simp only [mapTable, hreg0, ↓reduceIte]
      exact step_rinv hf h0 op
    · intro r' hr'
      obtain ⟨r, hr, rfl⟩ := List.mem_map.mp hr'
      exact step_runnerOK hf h0 (h.all r hr) op
  | addRunner k =>
    simp only [MSys.step, addRunner]
    have hfix : Runner.enable s.g r0 = r0 := by simp [Runner.enable, hreg0]
    refine ⟨?_, ?_⟩
    · obtain ⟨rest', hrest'⟩ := modifyAt_head (Runner.enable s.g) k r0 rest hfix
      exact ⟨r0, rest', by rw [hrs, hrest'], hreg0, h0⟩
    · intro r' hr'
      rcases mem_modifyAt _ k _ r' hr' with hr | ⟨r, hr, rfl⟩
      · exact h.all r' hr
      · exact enable_runnerOK (h.all r hr)
  | tick d =>
    simp only [MSys.step, advanceAll]
    refine ⟨?_, ?_⟩
    · exact ⟨{ r0 with table := r0.table.advance d }, _, by rw [hrs, List.map_cons], hreg0, rinv_advance h0 d⟩
    · intro r' hr'
      obtain ⟨r, hr, rfl⟩ := List.mem_map.mp hr'
      have ok := h.all r hr
      have hm := mapOK_advance ok.map d
      refine ⟨hm.1, ?_, ?_, ?_⟩
      · intro x hx; simp only [hm.2] at hx; exact ok.sub x hx
      · intro hu; rw [(advance_noTimers ok.map.noTimers d).1]; exact ok.unreg hu
      · intro hu x hx; simp only [hm.2]; exact ok.cur hu x hx

theorem run_minv {mk : Nat → Bytes} {I : List Bytes} (hf : FreshGen mk I) : ∀ (ops : List MOp) {s : MSys},
    MInv mk I s → MInv mk I (s.run mk ops)
  | [], _, h => h
  | op :: ops, s, h => by
    simp only [MSys.run, List.foldl_cons]
    exact run_minv hf ops (step_minv hf h op)

/-! ### after the close -/

/-- `RemoveAll`: no runner keeps anything of the connection -/
theorem removeAll_runner_clean {g : Generator} {r : Runner} (hr : RunnerOK g r) :
    (mapTable (fun t => g.removeAll.foldl Routing.applyG t) r).table.handlers = [] := by
  by_cases hreg : r.registered = true
  · simp only [mapTable, hreg, ↓reduceIte]
    unfold Generator.removeAll
    have := removeMany_ok g.allIDs hr.map
    apply handlers_nil_of_keys
    intro x hx
    have := (this.2 x).mp hx
    exact this.2 (hr.sub x this.1)
  · have hreg' : r.registered = false := by simpa using hreg
    simp only [mapTable, hreg', Bool.false_eq_true, ↓reduceIte]
    exact hr.unreg hreg'

/-- `ReplaceWithClosed` on a handler map that routes a SUBSET of the IDs in the list (a transport that was added after
    some IDs had been retired): every ID of the list maps to the closed stand-in, none to a connection, and once the
    closing period is over nothing is left and no timer is pending -/
theorem replace_clean_sub {r : Routing} (hm : MapOK r) (ids : List Bytes) (hsub : ∀ x ∈ keysOf r, x ∈ ids)
    (localClose : Bool) (expiry : Int) :
    let r1 := r.replaceWithClosed ids localClose expiry
    (∀ id ∈ ids, lookupH id r1.handlers = some (closedHandler r localClose)) ∧
    (∀ id c, (r1.deliver id).2 ≠ Delivery.conn c) ∧
    (∀ d, expiry ≤ d → (r1.advance d).handlers = [] ∧ (r1.advance d).timers = []) := by
  intro r1
  have hspec := setAll_spec (closedHandler r localClose) ids r.handlers
  have hh : r1.handlers = ids.foldl (fun hs id => setH id (closedHandler r localClose) hs) r.handlers := by
    simp [r1, Routing.replaceWithClosed, closedHandler]
  have hlook : ∀ id, lookupH id r1.handlers = if id ∈ ids then some (closedHandler r localClose) else none := by
    intro id
    rw [hh, (hspec id).1]
    by_cases hin : id ∈ ids
    · simp [hin]
    · simp only [hin, ↓reduceIte]
      apply lookupH_none.mpr
      intro hk; exact hin (hsub id hk)
  have hne : ∀ c, closedHandler r localClose ≠ Handler.conn c := by
    intro c; unfold closedHandler; cases localClose <;> simp
  have hnoconn : ∀ id c, lookupH id r1.handlers ≠ some (Handler.conn c) := by
    intro id c; rw [hlook id]
    by_cases hin : id ∈ ids
    · simp only [hin, ↓reduceIte, ne_eq, Option.some.injEq]; exact hne c
    · simp [hin]
  refine ⟨?_, ?_, ?_⟩
  · intro id hid; rw [hlook id]; simp [hid]
  · intro id c
    unfold Routing.deliver
    split
    · simp
    · rename_i c' hc; exact absurd hc (hnoconn id c')
    · simp
    · simp
  · intro d hd
    have ht : r1.timers = [(r.now + expiry, ids, closedHandler r localClose)] := by
      simp [r1, Routing.replaceWithClosed, hm.noTimers, closedHandler]
    have hnow : r1.now = r.now := by simp [r1, Routing.replaceWithClosed]
    refine ⟨?_, ?_⟩
    · cases hh2 : (r1.advance d).handlers with
      | nil => rfl
      | cons kv rest =>
        exfalso
        have hmem : kv ∈ (r1.advance d).handlers := by rw [hh2]; simp
        obtain ⟨hkv, hno⟩ := advance_mem.mp hmem
        have hkey : kv.1 ∈ r1.handlers.map (·.1) := List.mem_map.mpr ⟨kv, hkv, rfl⟩
        have hnd : (r1.handlers.map (·.1)).Nodup := by rw [hh]; exact setAll_keys_nodup _ _ _ hm.nodup
        rw [hh, (hspec kv.1).2] at hkey
        have hin : kv.1 ∈ ids := by
          rcases hkey with hk | hk
          · exact hsub kv.1 hk
          · exact hk
        have hl := lookupH_of_mem hnd (show (kv.1, kv.2) ∈ r1.handlers from hkv)
        rw [hlook kv.1] at hl
        simp only [hin, ↓reduceIte, Option.some.injEq] at hl
        apply hno (r.now + expiry, ids, closedHandler r localClose) (by rw [ht]; simp) (by rw [hnow]; simp only; omega)
        exact ⟨hin, hl.symm⟩
    · unfold Routing.advance
      simp only [ht, hnow]
      have : r.now + expiry ≤ r.now + d := by omega
      simp [this]

/-- a transport the connection is not registered with: nothing before, nothing after -/
theorem unregistered_stays_empty {r : Routing} (hh : r.handlers = []) (ht : r.timers = []) (d : Int) :
    (r.advance d).handlers = [] ∧ (r.advance d).timers = [] ∧ ∀ id, (r.deliver id).2 = Delivery.none := by
  have := advance_noTimers ht d
  refine ⟨by rw [this.1, hh], this.2, ?_⟩
  intro id
  unfold Routing.deliver
  simp [hh, lookupH]

end Uquic.Proofs.ConnID
