/-
C19: updateResponseFromHeaders accepts what responseWriter.writeHeader emits for a valid response.
-/
import Uquic.Proofs.FieldsWriter3

namespace Uquic.Proofs.Fields
open Uquic.Model.H3.Fields Uquic.Model.H3.Writer Uquic.Gen.H3Fields
open Uquic.Spec.H3Fields (isPseudoName lowerTchar fieldValueByte isDigitByte connectionSpecific allowedPseudo
  fieldSize sectionSize WellFormed)

/-- a response header map of a valid net/http message, as the theorem needs it; `clv` is the (single)
    Content-Length value if there is one -/
structure ValidResponse (st : Int) (hs : List (List Nat × List (List Nat))) (clv : List Nat) : Prop where
  /-- WriteHeader panics outside 100..999 -/
  status : 100 ≤ st ∧ st ≤ 999
  fields : ∀ kv ∈ hs, trailerPrefix.isPrefixOf kv.1 = false →
    validFieldName kv.1 = true ∧ ∀ v ∈ kv.2, validFieldValue v = true
  cl : ∀ kv ∈ hs, lowerASCII kv.1 = nContentLength → ∀ v ∈ kv.2, v = clv
  clv : clv ≠ [] ∧ (∀ b ∈ clv, isDigitByte b = true) ∧ decVal clv < 2 ^ 63

theorem responseRegular_mem (hs : List (List Nat × List (List Nat))) (f : Field) (hf : f ∈ responseRegular hs) :
    ∃ kv ∈ hs, trailerPrefix.isPrefixOf kv.1 = false ∧ f.1 = lowerASCII kv.1 ∧ f.2 ∈ kv.2 ∧
      lowerASCII kv.1 ∉ invalidHeaderFields ∧ (lowerASCII kv.1 = nTe → f.2 = vTrailers) := by
  simp only [responseRegular, List.mem_flatMap] at hf
  obtain ⟨kv, hkv, hf⟩ := hf
  split at hf
  · simp at hf
  rename_i hc
  simp only [Bool.or_eq_true, not_or, Bool.not_eq_true] at hc
  simp only [List.mem_map, List.mem_filter] at hf
  obtain ⟨v, ⟨hv, hkeep⟩, rfl⟩ := hf
  refine ⟨kv, hkv, hc.1.2, rfl, hv, by simpa using hc.2, ?_⟩
  intro hte
  simpa [hte] using hkeep

theorem responseRegular_ok (st : Int) (hs : List (List Nat × List (List Nat))) (clv : List Nat)
    (hv : ValidResponse st hs clv) : ∀ f ∈ responseRegular hs, RegOK f ∨ (f.1 = nContentLength ∧ f.2 = clv) := by
  intro f hf
  obtain ⟨kv, hkv, hnp, h1, h2, h3, h4⟩ := responseRegular_mem hs f hf
  obtain ⟨hname, hvals⟩ := hv.fields kv hkv hnp
  obtain ⟨hne, htok⟩ := lowerASCII_tokens kv.1 hname
  by_cases hcl : lowerASCII kv.1 = nContentLength
  · right; exact ⟨h1 ▸ hcl, hv.cl kv hkv hcl f.2 h2⟩
  · left
    refine ⟨?_, ?_, ?_, ?_, ?_, ?_, ?_⟩
    · rw [h1]; exact tokens_not_pseudo _ htok
    · rw [h1]; exact hne
    · rw [h1]; exact htok
    · exact value_bytes_of_valid _ (hvals f.2 h2)
    · rw [h1]; exact fun hc => h3 (connectionSpecific_sub _ hc)
    · intro hte; exact h4 (h1 ▸ hte)
    · rw [h1]; exact hcl

theorem signSplit_digits (s : List Nat) (h : s.all isDigit = true) : signSplit s = (false, s) := by
  unfold signSplit
  split
  · rename_i r
    have := List.all_eq_true.mp h 45 (by simp)
    exact absurd this (by decide)
  · rename_i r
    have := List.all_eq_true.mp h 43 (by simp)
    exact absurd this (by decide)
  · rfl

theorem atoi_fmtNat (n : Nat) (h : n < 2 ^ 63) : atoi (fmtNat n) = some (n : Int) := by
  obtain ⟨h1, h2, h3⟩ := fmtNat_spec n
  have hne : (fmtNat n).isEmpty = false := by simpa using h1
  simp only [atoi, signSplit_digits _ h2, atoiCore, hne, h2, Bool.not_true, Bool.or_self, Bool.false_eq_true,
    if_false, h3]
  have : (n : Int) < 9223372036854775808 := by omega
  simp [this]

theorem status_facts : isPseudoName nStatus = true ∧ nStatus ∈ allowedPseudo false := by decide

theorem response_agree (ext : List Nat → Bool) (st : Int) (hs : List (List Nat × List (List Nat))) (clv : List Nat)
    (hv : ValidResponse st hs clv) (lim : Int) (hlim : sectionSize (responseFields st hs) ≤ lim) :
    WellFormed false lim (responseFields st hs) ∧
    ∃ r, updateResponseFromHeaders ext lim (responseFields st hs) false = .ok r ∧ r.status = st := by
  have hst0 : ¬ st < 0 := by have := hv.status.1; omega
  have hitoa : itoa st = fmtNat st.toNat := by simp [itoa, hst0]
  obtain ⟨f1, f2, f3⟩ := fmtNat_spec st.toNat
  have hsplit : responseFields st hs = [(nStatus, fmtNat st.toNat)] ++ responseRegular hs := by
    simp [responseFields, hitoa]
  rw [hsplit] at hlim ⊢
  have hP1 : ∀ f ∈ [(nStatus, fmtNat st.toNat)], isPseudoName f.1 = true ∧ f.1 ∈ allowedPseudo false ∧
      ∀ b ∈ f.2, fieldValueByte b = true := by
    intro f hf
    simp only [List.mem_singleton] at hf; subst hf
    exact ⟨status_facts.1, status_facts.2, fun b hb => digit_value b (List.all_eq_true.mp f2 b hb)⟩
  have hR := responseRegular_ok st hs clv hv
  have wf : WellFormed false lim ([(nStatus, fmtNat st.toNat)] ++ responseRegular hs) :=
    wf_of_parts false lim _ _ clv hP1 (by simp) hR ⟨hv.clv.1, hv.clv.2.1⟩ hv.clv.2.2 hlim
  obtain ⟨h, hp⟩ := accept_complete_of_wf ext false lim _ wf
  refine ⟨wf, ?_⟩
  obtain ⟨_, _, _, _, _, vst⟩ := parse_pseudo_values ext false lim _ false h hp
  have hstatus : h.status = fmtNat st.toNat := by
    rw [vst]
    simp [fieldValue, Uquic.Spec.H3FieldsMon.fieldValue]
  have hat : atoi h.status = some st := by
    rw [hstatus, atoi_fmtNat]
    · congr 1; omega
    · have := hv.status.2; omega
  simp only [parseHeaders] at hp
  simp only [updateResponseFromHeaders, hp, hat]
  have hne : ¬ h.status = [] := by rw [hstatus]; exact f1
  simp only [hne, if_false]
  exact ⟨_, rfl, rfl⟩

end Uquic.Proofs.Fields
